(* C19/ProofsParse.v — the parser model maps the item stream of Render.v back
   to the lookup list it was rendered from. *)
From Coq Require Import List NArith ZArith Bool Arith Lia ZifyBool ZifyNat ZifyN.
From Gen Require Import C19.
From C19 Require Import Model Wf Util Render ProofsExplain.
Import ListNotations.
Import K.
Local Open Scope N_scope.

Arguments digits : simpl never.
Arguments name_of : simpl never.
Arguments digits_signed : simpl never.
Arguments by_name : simpl never.

Section Parse.
  Variable U : uclass.
  Variable F : font.
  Hypothesis HF : font_wf U F = true.
  Variable endl : N.

  Lemma HF_all : num_glyphs F <= 65535 /\ names_ok U F = true /\ names_distinct F = true /\ cmap_ok F = true.
  Proof.
    pose proof HF as H. unfold font_wf in H. repeat (apply andb_true_iff in H; destruct H as [H ?]).
    repeat split; auto. lia.
  Qed.

  (* ---- the font: names ---- *)
  Lemma by_name_from_notin : forall names i nm acc,
    (forall n, In n names -> n <> [] -> n <> nm) -> by_name_from names i nm acc = acc.
  Proof.
    induction names as [|n r IH]; intros i nm acc H; cbn [by_name_from]; auto.
    rewrite IH by (intros; apply H; auto; right; auto).
    destruct n as [|c n']; cbn [is_nil negb andb]; auto.
    rewrite list_eqb_neq; auto. apply H; [left; auto|discriminate].
  Qed.

  Lemma nodupb_notin : forall x l, nodupb (x :: l) = true -> forall y, In y l -> y <> x.
  Proof.
    intros x l H y Hy E. subst. cbn in H. apply andb_true_iff in H. destruct H as [H _].
    apply negb_true_iff in H. assert (X : existsb (list_eqb x) l = true).
    { apply existsb_exists. exists x. split; auto. apply list_eqb_refl. }
    congruence.
  Qed.

  Lemma by_name_from_nth : forall names k i acc,
    nodupb (filter (fun n => negb (is_nil n)) names) = true ->
    (k < length names)%nat -> nth k names [] <> [] ->
    by_name_from names i (nth k names []) acc = Some (i + N.of_nat k).
  Proof.
    induction names as [|n r IH]; intros k i acc Hd Hk Hn; cbn in Hk; [lia|].
    destruct k as [|k].
    - cbn [nth] in *. cbn [by_name_from]. destruct n as [|c n']; [congruence|].
      cbn [is_nil negb andb]. rewrite list_eqb_refl.
      rewrite by_name_from_notin; [f_equal; lia|].
      intros m Hm Hmn. cbn [filter is_nil negb] in Hd.
      apply (nodupb_notin _ _ Hd). apply filter_In. split; auto. destruct m; [congruence|reflexivity].
    - cbn [nth] in *. cbn [by_name_from].
      assert (Hd' : nodupb (filter (fun n => negb (is_nil n)) r) = true).
      { cbn [filter] in Hd. destruct (negb (is_nil n)); auto. cbn in Hd. apply andb_true_iff in Hd. tauto. }
      rewrite IH; auto; [f_equal; lia|lia].
  Qed.

  Lemma by_name_raw : forall g, g < num_glyphs F -> raw_name F g <> [] -> by_name F (raw_name F g) = Some g.
  Proof.
    intros g Hg Hn. destruct HF_all as (Hnum & _ & Hd & _). unfold by_name, raw_name in *.
    assert (E : firstn (N.to_nat (num_glyphs F mod 65536)) (f_names F) = f_names F).
    { apply firstn_all2. unfold num_glyphs in *. lia. }
    rewrite E. rewrite by_name_from_nth; auto.
    - f_equal. lia.
    - unfold num_glyphs in Hg. lia.
  Qed.

  (* ---- the font: cmap ---- *)
  Lemma cmap_lookup_in : forall cm r g, ascending (map fst cm) -> In (r, g) cm -> cmap_lookup_l cm r = g.
  Proof.
    induction cm as [|[k v] cm IH]; intros r g Ha Hin; [contradiction|].
    cbn [cmap_lookup_l]. destruct Hin as [E|Hin].
    - inversion E; subst. rewrite N.eqb_refl. reflexivity.
    - cbn [map fst] in Ha. pose proof (ascending_lt_all _ _ Ha) as HL. rewrite Forall_forall in HL.
      assert (Hk : k < r). { apply HL. apply in_map_iff. exists (r, g). auto. }
      assert (E : (k =? r) = false) by lia. rewrite E. apply IH; auto. eapply ascending_tail; eauto.
  Qed.

  Lemma cmap_keys_ascending : ascending (map fst (f_cmap F)).
  Proof.
    destruct HF_all as (_ & _ & _ & Hc). unfold cmap_ok in Hc. apply andb_true_iff in Hc.
    destruct Hc as [Hc _]. apply ascendingb_spec. exact Hc.
  Qed.

  Lemma mapped_rune_l_spec : forall cm g acc r,
    mapped_rune_l U cm g acc = Some r ->
    acc = Some r \/ (In (r, g) cm /\ g <> 0).
  Proof.
    induction cm as [|[r' g'] cm IH]; intros g acc r H; cbn in H; auto.
    apply IH in H. destruct H as [H|H].
    - destruct ((g' =? g) && negb (g' =? 0) && is_print U r') eqn:E; auto.
      inversion H; subst. repeat (apply andb_true_iff in E; destruct E as [E ?]).
      apply N.eqb_eq in E. apply negb_true_iff in H1. apply N.eqb_neq in H1. subst.
      right. split; auto. left. reflexivity.
    - right. destruct H as (H1 & H2). split; auto. right. exact H1.
  Qed.

  Lemma mapped_rune_lookup : forall g r, mapped_rune U F g = Some r ->
    cmap_lookup F r = g /\ g <> 0.
  Proof.
    intros g r H. unfold mapped_rune in H. apply mapped_rune_l_spec in H.
    destruct H as [H|[H1 H2]]; [discriminate|]. split; auto.
    apply cmap_lookup_in; auto. apply cmap_keys_ascending.
  Qed.

  (* ---- strings ---- *)
  Lemma decode_quote : forall rs, decode_body (concat (map quote_body rs)) false = rs.
  Proof.
    induction rs as [|r rs IH]; cbn [map concat]; auto.
    unfold quote_body at 1. destruct ((r =? 34) || (r =? 92)) eqn:E.
    - cbn [app decode_body]. cbn. rewrite IH.
      apply orb_true_iff in E. destruct E as [E|E]; apply N.eqb_eq in E; subst; reflexivity.
    - apply orb_false_iff in E. destruct E as [E1 E2]. cbn [app decode_body]. rewrite E2, IH. reflexivity.
  Qed.

  Lemma decode_quoted : forall rs, decode_string (34 :: concat (map quote_body rs) ++ [34]) = Some rs.
  Proof.
    intros rs. unfold decode_string.
    destruct (concat (map quote_body rs) ++ [34]) eqn:E.
    - destruct (concat (map quote_body rs)); discriminate.
    - rewrite <- E. rewrite removelast_last. rewrite decode_quote. reflexivity.
  Qed.

  (* ---- primitives ---- *)
  (* item types that end a glyph list and are not the end of the input *)
  Definition is_stop (ty : ityp) : bool :=
    match ty with TIdent | TString | TInt | THyphen | TEOF => false | _ => true end.

  Lemma unread_cons : forall t ts, ityp_eqb (ttyp t) TEOF = false ->
    unread endl t ts = POk (tt, t :: ts).
  Proof. intros t ts H. destruct ts; cbn; auto. unfold is_syn_eof. rewrite H. reflexivity. Qed.

  Lemma stop_not_eof : forall t, is_stop (ttyp t) = true -> ityp_eqb (ttyp t) TEOF = false.
  Proof. intros t H. destruct (ttyp t); cbn in *; auto; discriminate. Qed.

  Lemma optional_hit : forall ty t ts, ityp_eqb (ttyp t) ty = true ->
    optional endl ty (t :: ts) = POk (true, ts).
  Proof. intros. unfold optional, bind, read. rewrite H. reflexivity. Qed.

  Lemma optional_miss : forall ty t ts, ityp_eqb (ttyp t) ty = false -> ityp_eqb (ttyp t) TEOF = false ->
    optional endl ty (t :: ts) = POk (false, t :: ts).
  Proof. intros. unfold optional, bind, read. rewrite H. rewrite unread_cons by auto. reflexivity. Qed.

  Lemma required_hit : forall ty t ts, ityp_eqb (ttyp t) ty = true ->
    required endl ty (t :: ts) = POk (tt, ts).
  Proof. intros. unfold required, bind, read. rewrite H. reflexivity. Qed.

  Lemma optional_ident_miss : forall s t ts, is_ident t s = false -> ityp_eqb (ttyp t) TEOF = false ->
    optional_ident endl s (t :: ts) = POk (false, t :: ts).
  Proof. intros. unfold optional_ident, bind, read. rewrite H. rewrite unread_cons by auto. reflexivity. Qed.

  Lemma read_identifier_hit : forall nm l ts,
    read_identifier endl (tk TIdent nm l :: ts) = POk (nm, ts).
  Proof. reflexivity. Qed.

  (* ---- glyph lists ---- *)
  Lemma classify_name_tok : forall g l, g < num_glyphs F -> classify F (name_tok F g l) = GNext [g].
  Proof.
    intros g l Hg. destruct HF_all as (Hnum & _). unfold name_tok.
    destruct (raw_name F g) as [|c r] eqn:E; cbn [is_nil].
    - unfold classify. cbn [ttyp tval]. rewrite atoi_digits_nat.
      assert (X : ((Z.of_N g <? 0)%Z || (65536 <=? Z.of_N g)%Z || (Z.of_N (num_glyphs F) <=? Z.of_N g)%Z) = false) by lia.
      rewrite X. rewrite N2Z.id. reflexivity.
    - unfold classify. cbn [ttyp tval]. rewrite <- E. rewrite by_name_raw; auto. congruence.
  Qed.

  Lemma lookup_runes_ok : forall gs rs,
    map (fun g => mapped_rune U F g) gs = map Some rs -> lookup_runes F rs = Some gs.
  Proof.
    induction gs as [|g gs IH]; intros rs H; destruct rs as [|r rs]; try discriminate; auto.
    cbn [map] in H. inversion H as [[H1 H2]]. apply mapped_rune_lookup in H1. destruct H1 as [H1 H3].
    cbn [lookup_runes]. rewrite H1. assert (E : (g =? 0) = false) by lia. rewrite E.
    rewrite (IH rs H2). reflexivity.
  Qed.

  Lemma classify_glyph_tok : forall g l, g < num_glyphs F -> classify F (glyph_tok U F g l) = GNext [g].
  Proof.
    intros g l Hg. unfold glyph_tok.
    destruct (list_eqb (34 :: name_of F g ++ [34]) (mapped U F g)); [apply classify_name_tok; auto|].
    destruct (is_nil (mapped U F g)) eqn:E; cbn [negb]; [apply classify_name_tok; auto|].
    unfold mapped in *. destruct (mapped_rune U F g) as [r|] eqn:Er; [|discriminate].
    unfold classify. cbn [ttyp tval].
    replace (34 :: quote_body r ++ [34]) with (34 :: concat (map quote_body [r]) ++ [34])
      by (cbn; rewrite app_nil_r; reflexivity).
    rewrite decode_quoted. rewrite (lookup_runes_ok [g] [r]); [reflexivity|]. cbn. rewrite Er. reflexivity.
  Qed.

  Lemma classify_stop : forall t, is_stop (ttyp t) = true -> classify F t = GDone.
  Proof. intros t H. unfold classify. destruct (ttyp t); cbn in H; try discriminate; reflexivity. Qed.

  Lemma add_gids_plain : forall next res, add_gids res false next = AddOk (res ++ next) false.
  Proof.
    induction next as [|g r IH]; intros res; cbn [add_gids].
    - rewrite app_nil_r. reflexivity.
    - rewrite IH. rewrite <- app_assoc. reflexivity.
  Qed.

  Lemma rgl_next : forall f t rest res hy next res' hy',
    classify F t = GNext next -> add_gids res hy next = AddOk res' hy' ->
    read_glyph_list_loop F endl (S f) res hy (t :: rest) = read_glyph_list_loop F endl f res' hy' rest.
  Proof.
    intros. cbn [read_glyph_list_loop]. unfold bind at 1. cbn [read]. rewrite H, H0. reflexivity.
  Qed.

  Lemma rgl_done : forall f t0 rest res, is_stop (ttyp t0) = true ->
    read_glyph_list_loop F endl (S f) res false (t0 :: rest) = POk (res, t0 :: rest).
  Proof.
    intros. cbn [read_glyph_list_loop]. unfold bind at 1. cbn [read]. rewrite classify_stop by auto.
    unfold bind. rewrite unread_cons by (apply stop_not_eof; auto). reflexivity.
  Qed.

  Lemma rgl_names : forall gs l fuel res t0 rest,
    Forall (fun g => g < num_glyphs F) gs -> is_stop (ttyp t0) = true -> (length gs < fuel)%nat ->
    read_glyph_list_loop F endl fuel res false (map (fun g => name_tok F g l) gs ++ t0 :: rest)
    = POk (res ++ gs, t0 :: rest).
  Proof.
    induction gs as [|g gs IH]; intros l fuel res t0 rest Hg Hs Hf.
    - destruct fuel; [cbn in Hf; lia|]. cbn [map app]. rewrite rgl_done by auto. rewrite app_nil_r. reflexivity.
    - destruct fuel; [cbn in Hf; lia|]. inversion Hg; subst. cbn [map app].
      rewrite (rgl_next _ _ _ _ _ [g] (res ++ [g]) false); [|apply classify_name_tok; auto|apply add_gids_plain].
      rewrite IH; auto; [|cbn in Hf; lia]. rewrite <- app_assoc. reflexivity.
  Qed.

  Lemma gids_ok_forall : forall gs, gids_ok F gs = true -> Forall (fun g => g < num_glyphs F) gs.
  Proof.
    intros gs H. unfold gids_ok in H. rewrite forallb_forall in H. apply Forall_forall.
    intros x Hx. specialize (H x Hx). lia.
  Qed.

  Lemma mapped_all : forall gs, forallb (fun g => negb (is_nil (mapped U F g))) gs = true ->
    exists rs, map (fun g => mapped_rune U F g) gs = map Some rs
      /\ concat (map (fun g => match mapped_rune U F g with Some r => quote_body r | None => [] end) gs)
         = concat (map quote_body rs).
  Proof.
    induction gs as [|g gs IH]; intros H.
    - exists []. auto.
    - cbn [forallb] in H. apply andb_true_iff in H. destruct H as [H1 H2]. destruct (IH H2) as (rs & M & E).
      unfold mapped in H1. destruct (mapped_rune U F g) as [r|] eqn:Er; [|discriminate].
      exists (r :: rs). cbn [map concat]. rewrite Er, M, E. auto.
  Qed.

  Lemma rgl_gl : forall gs l fuel t0 rest,
    gids_ok F gs = true -> is_stop (ttyp t0) = true -> (length (gl_toks U F gs l) < fuel)%nat ->
    read_glyph_list F endl fuel (gl_toks U F gs l ++ t0 :: rest) = POk (gs, t0 :: rest).
  Proof.
    intros gs l fuel t0 rest Hg Hs Hf. pose proof (gids_ok_forall _ Hg) as HG. unfold read_glyph_list.
    destruct gs as [|g [|g' gs]].
    - destruct fuel; [cbn in Hf; lia|]. cbn [gl_toks app]. apply rgl_done; auto.
    - cbn [gl_toks app] in *. destruct fuel as [|[|f]]; try (cbn in Hf; lia). inversion HG; subst.
      rewrite (rgl_next _ _ _ _ _ [g] [g] false); [|apply classify_glyph_tok; auto|reflexivity].
      apply rgl_done; auto.
    - unfold gl_toks in *. cbv beta iota in *.
      destruct (forallb (fun g0 => negb (is_nil (mapped U F g0))) (g :: g' :: gs)) eqn:E.
      + destruct (mapped_all _ E) as (rs & M & Eq). rewrite Eq in *. cbn [app] in *.
        destruct fuel as [|[|f]]; try (cbn in Hf; lia).
        rewrite (rgl_next _ _ _ _ _ (g :: g' :: gs) (g :: g' :: gs) false).
        * apply rgl_done; auto.
        * unfold classify. cbn [ttyp tval]. rewrite decode_quoted. rewrite (lookup_runes_ok _ _ M). reflexivity.
        * apply (add_gids_plain (g :: g' :: gs) []).
      + rewrite map_length in Hf. apply (rgl_names (g :: g' :: gs) l fuel [] t0 rest); auto.
  Qed.

  Lemma rgl_one : forall g l f t0 rest, g < num_glyphs F -> is_stop (ttyp t0) = true ->
    read_glyph_list F endl (S (S f)) (glyph_tok U F g l :: t0 :: rest) = POk ([g], t0 :: rest).
  Proof.
    intros g l f t0 rest Hg Hs.
    apply (rgl_gl [g] l (S (S f)) t0 rest); auto; [cbn; rewrite andb_true_r; lia|cbn; lia].
  Qed.

  (* ---- glyph sets ---- *)
  Lemma rgs_ok : forall gs l fuel rest,
    gids_ok F gs = true -> ascending gs -> (length (gl_toks U F gs l) < fuel)%nat ->
    read_glyph_set F endl fuel (gs_toks U F gs l ++ rest) = POk (gs, rest).
  Proof.
    intros gs l fuel rest Hg Ha Hf. unfold read_glyph_set, gs_toks. cbn [app].
    unfold bind at 1. rewrite required_hit by reflexivity.
    unfold bind at 1. rewrite <- app_assoc. cbn [app].
    rewrite rgl_gl; auto. unfold bind at 1. rewrite required_hit by reflexivity.
    unfold ret. rewrite sort_uniq_ascending by auto. reflexivity.
  Qed.

  (* ---- lookup flags ---- *)
  Definition after_flags (t : token) : bool :=
    negb (ityp_eqb (ttyp t) THyphen) && negb (ityp_eqb (ttyp t) TEOL) && negb (ityp_eqb (ttyp t) TEOF).

  Lemma rlf_list : forall (nvs : list (list N * N)) l fuel acc t0 rest,
    Forall (fun nv => flag_of_name builder_parseFlags (fst nv) = Some (snd nv)) nvs ->
    after_flags t0 = true -> (length nvs < fuel)%nat ->
    read_lookup_flags endl fuel acc
      (concat (map (fun nv => [t_hyphen l; tk TIdent (fst nv) l]) nvs) ++ t0 :: rest)
    = POk (fold_left (fun a nv => N.lor a (snd nv)) nvs acc, t0 :: rest).
  Proof.
    induction nvs as [|[nm v] nvs IH]; intros l fuel acc t0 rest Hn Ht Hf;
      (destruct fuel; [cbn in Hf; lia|]).
    - cbn [map concat app fold_left read_lookup_flags].
      unfold after_flags in Ht. repeat (apply andb_true_iff in Ht; destruct Ht as [Ht ?]).
      repeat match goal with H : negb _ = true |- _ => apply negb_true_iff in H end.
      unfold bind at 1. rewrite optional_miss by auto.
      unfold bind at 1. rewrite optional_miss by auto. reflexivity.
    - inversion Hn as [|? ? Hv Hn']; subst. cbn [fst snd] in Hv.
      cbn [map concat app fold_left read_lookup_flags].
      unfold bind at 1. rewrite optional_hit by reflexivity.
      unfold bind at 1. rewrite read_identifier_hit. cbn [fst snd].
      rewrite Hv. apply IH; auto. cbn in Hf. lia.
  Qed.

  Lemma flags_cases : forall fl, flags_ok fl = true ->
    fl = 0 \/ fl = 2 \/ fl = 4 \/ fl = 6 \/ fl = 8 \/ fl = 10 \/ fl = 12 \/ fl = 14.
  Proof.
    intros fl H. unfold flags_ok in H. cbn [existsb] in H.
    repeat (apply orb_true_iff in H; destruct H as [H|H]); try discriminate; apply N.eqb_eq in H; tauto.
  Qed.

  (* the names and bits written by explainFlags, read through readLookupFlags' table *)
  Definition flag_nvs (fl : N) : list (list N * N) :=
    concat (map (fun p => if N.land fl (fst p) =? 0 then [] else [(tl (tl (snd p)), fst p)]) builder_explainFlags).

  Lemma rlf_ok : forall fl l fuel t0 rest, flags_ok fl = true -> after_flags t0 = true ->
    (length (flag_toks fl l) < fuel)%nat ->
    read_lookup_flags endl fuel 0 (flag_toks fl l ++ t0 :: rest) = POk (fl, t0 :: rest).
  Proof.
    intros fl l fuel t0 rest Hfl Ht Hf.
    assert (E1 : flag_toks fl l = concat (map (fun nv => [t_hyphen l; tk TIdent (fst nv) l]) (flag_nvs fl))).
    { apply flags_cases in Hfl. repeat (destruct Hfl as [Hfl|Hfl]); subst fl; reflexivity. }
    assert (E2 : fold_left (fun a nv => N.lor a (snd nv)) (flag_nvs fl) 0 = fl).
    { apply flags_cases in Hfl. repeat (destruct Hfl as [Hfl|Hfl]); subst fl; reflexivity. }
    assert (E3 : Forall (fun nv => flag_of_name builder_parseFlags (fst nv) = Some (snd nv)) (flag_nvs fl)).
    { apply flags_cases in Hfl. repeat (destruct Hfl as [Hfl|Hfl]); subst fl; repeat constructor. }
    assert (E4 : (length (flag_nvs fl) <= length (flag_toks fl l))%nat).
    { apply flags_cases in Hfl. repeat (destruct Hfl as [Hfl|Hfl]); subst fl; cbn; lia. }
    rewrite E1. rewrite rlf_list; auto; [|lia]. rewrite E2. reflexivity.
  Qed.

  Lemma after_flags_props : forall t, after_flags t = true ->
    ityp_eqb (ttyp t) TEOL = false /\ ityp_eqb (ttyp t) TEOF = false.
  Proof.
    intros t H. unfold after_flags in H. repeat (apply andb_true_iff in H; destruct H as [H ?]).
    repeat match goal with H : negb _ = true |- _ => apply negb_true_iff in H end. auto.
  Qed.

  Lemma header_ok : forall fl l fuel t0 rest, flags_ok fl = true -> after_flags t0 = true ->
    (length (flag_toks fl l) < fuel)%nat ->
    lookup_header endl fuel (tk TColon [58] l :: flag_toks fl l ++ t0 :: rest) = POk (fl, t0 :: rest).
  Proof.
    intros fl l fuel t0 rest Hfl Ht Hf. unfold lookup_header.
    unfold bind at 1. rewrite optional_hit by reflexivity.
    unfold bind at 1.
    assert (E : optional endl TEOL (flag_toks fl l ++ t0 :: rest) = POk (false, flag_toks fl l ++ t0 :: rest)).
    { destruct (after_flags_props _ Ht) as [A B].
      pose proof Hfl as Hc. apply flags_cases in Hc.
      repeat (destruct Hc as [Hc|Hc]); subst fl; cbn [app]; try (apply optional_miss; auto);
        (change (flag_toks _ l) with (t_hyphen l :: tl (flag_toks _ l)) || idtac); reflexivity. }
    rewrite E. apply rlf_ok; auto.
  Qed.

  Lemma header_ok' : forall fl l fuel ts0, flags_ok fl = true ->
    (exists t0 rest, ts0 = t0 :: rest /\ after_flags t0 = true) ->
    (length (flag_toks fl l) < fuel)%nat ->
    lookup_header endl fuel (tk TColon [58] l :: flag_toks fl l ++ ts0) = POk (fl, ts0).
  Proof. intros fl l fuel ts0 Hfl (t0 & rest & E & Ht) Hf. subst. apply header_ok; auto. Qed.

  (* ---- shapes of the rendered items ---- *)
  Lemma name_tok_typ : forall g l, ttyp (name_tok F g l) = TInt \/ ttyp (name_tok F g l) = TIdent.
  Proof. intros. unfold name_tok. destruct (is_nil (raw_name F g)); cbn; auto. Qed.
  Lemma glyph_tok_typ : forall g l,
    ttyp (glyph_tok U F g l) = TInt \/ ttyp (glyph_tok U F g l) = TIdent \/ ttyp (glyph_tok U F g l) = TString.
  Proof.
    intros. unfold glyph_tok. pose proof (name_tok_typ g l).
    destruct (list_eqb _ _); [tauto|]. destruct (negb _); cbn; tauto.
  Qed.
  Lemma after_flags_name_tok : forall g l, after_flags (name_tok F g l) = true.
  Proof. intros. unfold after_flags. destruct (name_tok_typ g l) as [E|E]; rewrite E; reflexivity. Qed.
  Lemma after_flags_glyph_tok : forall g l, after_flags (glyph_tok U F g l) = true.
  Proof. intros. unfold after_flags. destruct (glyph_tok_typ g l) as [E|[E|E]]; rewrite E; reflexivity. Qed.

  Lemma entries_toks_false : forall {B} (w : B -> N -> list token) e es l,
    entries_toks U F w (e :: es) false l = t_comma l :: entries_toks U F w (e :: es) true l.
  Proof. intros. destruct e. reflexivity. Qed.

  Ltac fuel_tac :=
    repeat (progress (cbn [length app] in *; repeat (rewrite app_length in * ))); lia.

  (* a stop item that is not a comma: "\n" after a GSUB lookup *)
  Definition ends_list (t : token) : bool := is_stop (ttyp t) && negb (ityp_eqb (ttyp t) TComma).

  Lemma ends_list_props : forall t, ends_list t = true ->
    is_stop (ttyp t) = true /\ ityp_eqb (ttyp t) TComma = false /\ ityp_eqb (ttyp t) TEOF = false.
  Proof.
    intros t H. unfold ends_list in H. apply andb_true_iff in H. destruct H as [H1 H2].
    apply negb_true_iff in H2. repeat split; auto. apply stop_not_eof; auto.
  Qed.

  (* ---- GSUB2 ---- *)
  Lemma gsub2_loop_ok : forall es l fuel data t0 rest,
    es <> [] ->
    ascending (map fst es) ->
    Forall (fun e => fst e < num_glyphs F /\ snd e <> [] /\ gids_ok F (snd e) = true) es ->
    Forall (fun d => Forall (fun e => fst d < fst e) es) data ->
    ends_list t0 = true ->
    (length (entries_toks U F (gl_toks U F) es true l ++ t0 :: rest) < fuel)%nat ->
    gsub2_loop F endl fuel data (entries_toks U F (gl_toks U F) es true l ++ t0 :: rest)
    = POk (data ++ es, t0 :: rest).
  Proof.
    induction es as [|[g to] es IH]; intros l fuel data t0 rest Hn Ha He Hd Ht Hf; [congruence|].
    destruct fuel as [|f]; [cbn in Hf; lia|].
    destruct (ends_list_props _ Ht) as (Hstop & Hnc & Hne).
    inversion He as [|? ? Hg Hes]; subst. destruct Hg as (Hg & Hto & Hgo). cbn [fst snd] in Hg, Hto, Hgo.
    cbn [entries_toks app gsub2_loop]. rewrite <- !app_assoc. cbn [app].
    unfold bind at 1.
    destruct f as [|f]; [exfalso; clear - Hf; cbn [entries_toks length app] in Hf; fuel_tac|].
    rewrite rgl_one by (auto; reflexivity).
    unfold bind at 1. rewrite required_hit by reflexivity.
    assert (Hk : has_key g data = false).
    { unfold has_key. rewrite assoc_none_lt; auto. apply Forall_forall. intros d Hdin.
      rewrite Forall_forall in Hd. specialize (Hd d Hdin). inversion Hd; subst. auto. }
    destruct es as [|e' es'].
    - cbn [entries_toks app]. unfold bind at 1.
      rewrite (rgl_gl to l _ t0 rest); auto; [|clear - Hf; cbn [entries_toks length app] in Hf; fuel_tac].
      destruct to; [congruence|]. cbn [is_nil]. rewrite Hk.
      unfold bind at 1. rewrite optional_miss by auto. reflexivity.
    - rewrite entries_toks_false. cbn [app]. unfold bind at 1.
      rewrite (rgl_gl to l _ (t_comma l)); auto;
        [|clear - Hf; cbn [entries_toks length app] in Hf; fuel_tac].
      destruct to as [|t1 to']; [congruence|]. cbn [is_nil]. rewrite Hk.
      unfold bind at 1. rewrite optional_hit by reflexivity.
      unfold bind at 1.
      assert (Hopt : forall ts, optional endl TEOL (entries_toks U F (gl_toks U F) (e' :: es') true l ++ ts)
                                = POk (false, entries_toks U F (gl_toks U F) (e' :: es') true l ++ ts)).
      { intros ts. destruct e' as [g' to2]. cbn [entries_toks app].
        destruct (after_flags_props _ (after_flags_glyph_tok g' l)) as [A B].
        apply optional_miss; auto. }
      rewrite Hopt. 
      replace (data ++ (g, t1 :: to') :: e' :: es') with ((data ++ [(g, t1 :: to')]) ++ e' :: es')
        by (rewrite <- app_assoc; reflexivity).
      apply IH; auto.
      + discriminate.
      + apply (ascending_tail g). exact Ha.
      + apply Forall_app. split.
        * eapply Forall_impl; [|exact Hd]. intros d Hdd. inversion Hdd; auto.
        * constructor; [|constructor]. cbn [fst].
          assert (HL : Forall (fun y => g < y) (map fst (e' :: es')))
            by (apply (ascending_lt_all (map fst (e' :: es')) g); exact Ha).
          apply Forall_forall. intros e Hin. rewrite Forall_forall in HL. apply HL.
          apply in_map. exact Hin.
      + clear - Hf. destruct e' as [g' to2]. cbn [entries_toks] in *. fuel_tac.
  Qed.

  Ltac split_wf H := repeat (apply andb_true_iff in H; destruct H as [H ?]).

  Lemma build_cov_combine : forall {B} cov (vs : list B), ascending cov -> length cov = length vs ->
    build_cov (combine cov vs) = cov.
  Proof.
    intros B cov vs Ha Hl. unfold build_cov. rewrite map_fst_combine by auto.
    apply sort_uniq_ascending; auto.
  Qed.

  Lemma combine_cons : forall {A B} (a : list A) (b : list B), a <> [] -> length a = length b ->
    exists x y a' b', a = x :: a' /\ b = y :: b' /\ combine a b = (x, y) :: combine a' b'.
  Proof.
    intros A B a b Hn Hl. destruct a as [|x a']; [congruence|]. destruct b as [|y b']; [discriminate|].
    exists x, y, a', b'. auto.
  Qed.

  Lemma read_gsub2_ok : forall cov repl fl l fuel t0 rest,
    flags_ok fl = true -> sub_wf F (Gsub2_1 cov repl) = true -> ends_list t0 = true ->
    (length (flag_toks fl l ++ sub_toks U F (Gsub2_1 cov repl) l ++ t0 :: rest) < fuel)%nat ->
    read_gsub2 F endl fuel (tk TColon [58] l :: flag_toks fl l ++ sub_toks U F (Gsub2_1 cov repl) l ++ t0 :: rest)
    = POk (mkLookup 2 fl [Gsub2_1 cov repl], t0 :: rest).
  Proof.
    intros cov repl fl l fuel t0 rest Hfl W Ht Hf. cbn [sub_wf] in W. split_wf W.
    assert (Ha : ascending cov) by (apply ascendingb_spec; assumption).
    assert (Hc : Forall (fun g => g < num_glyphs F) cov) by (apply gids_ok_forall; assumption).
    assert (Hl : length cov = length repl) by (apply Nat.eqb_eq; assumption).
    assert (Hn : cov <> []) by (destruct cov; [discriminate|congruence]).
    destruct (combine_cons cov repl Hn Hl) as (g & r & cov' & repl' & Ec & Er & Ecb).
    unfold read_gsub2, sub_toks.
    unfold bind at 1. rewrite header_ok'; auto; [| |clear - Hf; fuel_tac].
    2:{ rewrite Ecb. cbn [entries_toks app]. eexists. eexists. split; [reflexivity|apply after_flags_glyph_tok]. }
    unfold bind at 1.
    rewrite (gsub2_loop_ok (combine cov repl) l fuel [] t0 rest); auto.
    - cbn [app]. assert (En : is_nil (combine cov repl) = false) by (rewrite Ecb; reflexivity).
      rewrite En. rewrite build_cov_combine by auto.
      rewrite map_get_combine by auto. reflexivity.
    - rewrite Ecb. discriminate.
    - rewrite map_fst_combine by auto. exact Ha.
    - match goal with Hx : forallb _ repl = true |- _ => apply forallb_Forall in Hx; rename Hx into W0 end.
      apply (Forall_combine (fun g => g < num_glyphs F) (fun r => r <> [] /\ gids_ok F r = true)); auto.
      eapply Forall_impl; [|exact W0]. cbn. intros a Hx. apply andb_true_iff in Hx. destruct Hx as [X Y].
      split; auto. destruct a; [discriminate|congruence].
    - clear - Hf. unfold sub_toks in Hf. fuel_tac.
  Qed.

  (* ---- GSUB3 ---- *)
  Lemma gsub3_loop_ok : forall es l fuel data t0 rest,
    es <> [] ->
    ascending (map fst es) ->
    Forall (fun e => fst e < num_glyphs F /\ ascending (snd e) /\ gids_ok F (snd e) = true) es ->
    Forall (fun d => Forall (fun e => fst d < fst e) es) data ->
    ends_list t0 = true ->
    (length (entries_toks U F (gs_toks U F) es true l ++ t0 :: rest) < fuel)%nat ->
    gsub3_loop F endl fuel data (entries_toks U F (gs_toks U F) es true l ++ t0 :: rest)
    = POk (data ++ es, t0 :: rest).
  Proof.
    induction es as [|[g to] es IH]; intros l fuel data t0 rest Hn Ha He Hd Ht Hf; [congruence|].
    destruct fuel as [|f]; [cbn in Hf; lia|].
    destruct (ends_list_props _ Ht) as (Hstop & Hnc & Hne).
    inversion He as [|? ? Hg Hes]; subst. destruct Hg as (Hg & Hto & Hgo). cbn [fst snd] in Hg, Hto, Hgo.
    cbn [entries_toks app gsub3_loop]. rewrite <- !app_assoc. cbn [app].
    unfold bind at 1.
    destruct f as [|f]; [exfalso; clear - Hf; cbn [entries_toks length app] in Hf; fuel_tac|].
    rewrite rgl_one by (auto; reflexivity).
    unfold bind at 1. rewrite required_hit by reflexivity.
    assert (Hk : has_key g data = false).
    { unfold has_key. rewrite assoc_none_lt; auto. apply Forall_forall. intros d Hdin.
      rewrite Forall_forall in Hd. specialize (Hd d Hdin). inversion Hd; subst. auto. }
    unfold bind at 1.
    rewrite rgs_ok; auto; [|clear - Hf; cbn [entries_toks] in Hf; unfold gs_toks in Hf; fuel_tac].
    rewrite Hk.
    destruct es as [|e' es'].
    - cbn [entries_toks app].
      unfold bind at 1. rewrite optional_miss by auto. reflexivity.
    - rewrite entries_toks_false. cbn [app].
      unfold bind at 1. rewrite optional_hit by reflexivity.
      unfold bind at 1.
      assert (Hopt : forall ts, optional endl TEOL (entries_toks U F (gs_toks U F) (e' :: es') true l ++ ts)
                                = POk (false, entries_toks U F (gs_toks U F) (e' :: es') true l ++ ts)).
      { intros ts. destruct e' as [g' to2]. cbn [entries_toks app].
        destruct (after_flags_props _ (after_flags_glyph_tok g' l)) as [A B].
        apply optional_miss; auto. }
      rewrite Hopt.
      replace (data ++ (g, to) :: e' :: es') with ((data ++ [(g, to)]) ++ e' :: es')
        by (rewrite <- app_assoc; reflexivity).
      apply IH; auto.
      + discriminate.
      + apply (ascending_tail g). exact Ha.
      + apply Forall_app. split.
        * eapply Forall_impl; [|exact Hd]. intros d Hdd. inversion Hdd; auto.
        * constructor; [|constructor]. cbn [fst].
          assert (HL : Forall (fun y => g < y) (map fst (e' :: es')))
            by (apply (ascending_lt_all (map fst (e' :: es')) g); exact Ha).
          apply Forall_forall. intros e Hin. rewrite Forall_forall in HL. apply HL.
          apply in_map. exact Hin.
      + clear - Hf. destruct e' as [g' to2]. cbn [entries_toks] in *. fuel_tac.
  Qed.

  Lemma read_gsub3_ok : forall cov alts fl l fuel t0 rest,
    flags_ok fl = true -> sub_wf F (Gsub3_1 cov alts) = true -> ends_list t0 = true ->
    (length (flag_toks fl l ++ sub_toks U F (Gsub3_1 cov alts) l ++ t0 :: rest) < fuel)%nat ->
    read_gsub3 F endl fuel (tk TColon [58] l :: flag_toks fl l ++ sub_toks U F (Gsub3_1 cov alts) l ++ t0 :: rest)
    = POk (mkLookup 3 fl [Gsub3_1 cov alts], t0 :: rest).
  Proof.
    intros cov alts fl l fuel t0 rest Hfl W Ht Hf. cbn [sub_wf] in W. split_wf W.
    assert (Ha : ascending cov) by (apply ascendingb_spec; assumption).
    assert (Hc : Forall (fun g => g < num_glyphs F) cov) by (apply gids_ok_forall; assumption).
    assert (Hl : length cov = length alts) by (apply Nat.eqb_eq; assumption).
    assert (Hn : cov <> []) by (destruct cov; [discriminate|congruence]).
    destruct (combine_cons cov alts Hn Hl) as (g & r & cov' & alts' & Ec & Er & Ecb).
    unfold read_gsub3, sub_toks.
    unfold bind at 1. rewrite header_ok'; auto; [| |clear - Hf; fuel_tac].
    2:{ rewrite Ecb. cbn [entries_toks app]. eexists. eexists. split; [reflexivity|apply after_flags_glyph_tok]. }
    unfold bind at 1.
    rewrite (gsub3_loop_ok (combine cov alts) l fuel [] t0 rest); auto.
    - cbn [app]. assert (En : is_nil (combine cov alts) = false) by (rewrite Ecb; reflexivity).
      rewrite En. rewrite build_cov_combine by auto.
      rewrite map_get_combine by auto. reflexivity.
    - rewrite Ecb. discriminate.
    - rewrite map_fst_combine by auto. exact Ha.
    - match goal with Hx : forallb _ alts = true |- _ => apply forallb_Forall in Hx; rename Hx into W0 end.
      apply (Forall_combine (fun g => g < num_glyphs F) (fun r => ascending r /\ gids_ok F r = true)); auto.
      eapply Forall_impl; [|exact W0]. cbn. intros a Hx. apply andb_true_iff in Hx. destruct Hx as [X Y].
      split; auto. apply ascendingb_spec. exact X.
    - clear - Hf. unfold sub_toks in Hf. fuel_tac.
  Qed.

  (* ---- GSUB4 ---- *)
  Definition lig_ok (p : N * (list N * N)) : Prop :=
    gids_ok F (fst p :: fst (snd p)) = true /\ snd (snd p) < num_glyphs F.

  Lemma seq4_toks_false : forall e mm l,
    seq4_toks U F (e :: mm) false l = t_comma l :: seq4_toks U F (e :: mm) true l.
  Proof. intros [k [c o]] mm l. reflexivity. Qed.

  Lemma gl_toks_head : forall g gs l, exists t ts, gl_toks U F (g :: gs) l = t :: ts /\ after_flags t = true.
  Proof.
    intros g gs l. destruct gs as [|g' gs].
    - cbn. eexists. eexists. split; [reflexivity|apply after_flags_glyph_tok].
    - unfold gl_toks. cbv beta iota. destruct (forallb _ _).
      + eexists. eexists. split; [reflexivity|reflexivity].
      + cbn [map]. eexists. eexists. split; [reflexivity|apply after_flags_name_tok].
  Qed.

  Lemma gsub4_loop_ok : forall mm l fuel data t0 rest,
    mm <> [] -> Forall lig_ok mm -> ends_list t0 = true ->
    (length (seq4_toks U F mm true l ++ t0 :: rest) < fuel)%nat ->
    gsub4_loop F endl fuel data (seq4_toks U F mm true l ++ t0 :: rest) = POk (data ++ mm, t0 :: rest).
  Proof.
    induction mm as [|[key [comps out]] mm IH]; intros l fuel data t0 rest Hn Hm Ht Hf; [congruence|].
    destruct fuel as [|f]; [cbn in Hf; lia|].
    destruct (ends_list_props _ Ht) as (Hstop & Hnc & Hne).
    inversion Hm as [|? ? Hk Hmm]; subst. destruct Hk as [Hk Ho]. cbn [fst snd] in Hk, Ho.
    cbn [seq4_toks app gsub4_loop]. rewrite <- !app_assoc. cbn [app].
    unfold bind at 1.
    rewrite (rgl_gl (key :: comps) l (S f) (t_arrow l)); auto;
      [|clear - Hf; cbn [seq4_toks] in Hf; fuel_tac].
    unfold bind at 1. rewrite required_hit by reflexivity.
    unfold bind at 1.
    destruct f as [|f]; [exfalso; clear - Hf; cbn [seq4_toks] in Hf; fuel_tac|].
    destruct mm as [|e' mm'].
    - cbn [seq4_toks app]. rewrite rgl_one by auto.
      unfold bind at 1. rewrite optional_miss by auto. reflexivity.
    - rewrite seq4_toks_false. cbn [app]. rewrite rgl_one by (auto; reflexivity).
      unfold bind at 1. rewrite optional_hit by reflexivity.
      unfold bind at 1.
      assert (Hopt : forall ts, optional endl TEOL (seq4_toks U F (e' :: mm') true l ++ ts)
                                = POk (false, seq4_toks U F (e' :: mm') true l ++ ts)).
      { intros ts. destruct e' as [k' [c' o']]. cbn [seq4_toks app].
        destruct (gl_toks_head k' c' l) as (t & tt' & E & A). rewrite E. cbn [app].
        destruct (after_flags_props _ A) as [A1 A2]. apply optional_miss; auto. }
      rewrite Hopt.
      replace (data ++ (key, (comps, out)) :: e' :: mm') with ((data ++ [(key, (comps, out))]) ++ e' :: mm')
        by (rewrite <- app_assoc; reflexivity).
      apply IH; auto; [discriminate|].
      clear - Hf. destruct e' as [k' [c' o']]. cbn [seq4_toks] in *. fuel_tac.
  Qed.

  Lemma read_gsub4_ok : forall cov repl fl l fuel t0 rest,
    flags_ok fl = true -> sub_wf F (Gsub4_1 cov repl) = true -> ends_list t0 = true ->
    (length (flag_toks fl l ++ sub_toks U F (Gsub4_1 cov repl) l ++ t0 :: rest) < fuel)%nat ->
    read_gsub4 F endl fuel (tk TColon [58] l :: flag_toks fl l ++ sub_toks U F (Gsub4_1 cov repl) l ++ t0 :: rest)
    = POk (mkLookup 4 fl [Gsub4_1 cov repl], t0 :: rest).
  Proof.
    intros cov repl fl l fuel t0 rest Hfl W Ht Hf. cbn [sub_wf] in W. split_wf W.
    assert (Ha : ascending cov) by (apply ascendingb_spec; assumption).
    assert (Hc : Forall (fun g => g < num_glyphs F) cov) by (apply gids_ok_forall; assumption).
    assert (Hl : length cov = length repl) by (apply Nat.eqb_eq; assumption).
    assert (Hn : cov <> []) by (destruct cov; [discriminate|congruence]).
    match goal with Hx : forallb _ repl = true |- _ => apply forallb_Forall in Hx; rename Hx into W0 end.
    assert (Hne : Forall (fun r => r <> []) repl).
    { eapply Forall_impl; [|exact W0]. cbn. intros a Hx. apply andb_true_iff in Hx. destruct Hx as [X _].
      destruct a; [discriminate|congruence]. }
    unfold read_gsub4, sub_toks in *. fold (groups cov repl) in *.
    rewrite stable_sort_sorted in * by (apply ss_groups; exact Ha).
    assert (Hgn : exists e mm, groups cov repl = e :: mm).
    { destruct cov as [|g cov']; [congruence|]. destruct repl as [|r repl']; [discriminate|].
      inversion Hne; subst. destruct r as [|b r']; [congruence|]. rewrite groups_cons. cbn. eauto. }
    destruct Hgn as (e & mm & Eg).
    unfold bind at 1. rewrite header_ok'; auto; [| |clear - Hf; fuel_tac].
    2:{ rewrite Eg. destruct e as [k [c o]]. cbn [seq4_toks app].
        destruct (gl_toks_head k c l) as (t & tt' & E & A). rewrite E. cbn [app]. eauto. }
    unfold bind at 1.
    rewrite (gsub4_loop_ok (groups cov repl) l fuel [] t0 rest); auto.
    - cbn [app]. unfold ret, build_cov. destruct (groups_keys cov repl Ha Hl Hne) as [K1 K2].
      rewrite K1, K2. rewrite ligs_of_groups by auto. reflexivity.
    - rewrite Eg. discriminate.
    - apply Forall_forall. intros [key [comps out]] Hin. unfold groups in Hin.
      apply in_concat in Hin. destruct Hin as (grp & Hgrp & Hin). apply in_map_iff in Hgrp.
      destruct Hgrp as ([k ls] & E & Hcb). subst grp. cbn [fst snd] in Hin.
      apply in_map_iff in Hin. destruct Hin as (lg & E & Hlg). inversion E; subst; clear E.
      pose proof (in_combine_l _ _ _ _ Hcb) as Hk. pose proof (in_combine_r _ _ _ _ Hcb) as Hls.
      rewrite Forall_forall in Hc, W0. specialize (Hc _ Hk). specialize (W0 _ Hls). cbn in W0.
      apply andb_true_iff in W0. destruct W0 as [_ W0]. rewrite forallb_forall in W0.
      specialize (W0 _ Hlg). apply andb_true_iff in W0. destruct W0 as [Wa Wb].
      cbn [fst snd] in Wa, Wb.
      split; cbn [fst snd]; [|lia]. unfold gids_ok in *. cbn [forallb]. rewrite Wa.
      assert (E : (key <? num_glyphs F) = true) by lia.
      rewrite E. reflexivity.
    - clear - Hf. fuel_tac.
  Qed.

  (* ---- GSUB1 ---- *)
  Lemma rgl_range : forall f fl l fuel t0 rest,
    f < fl -> fl < num_glyphs F -> is_stop (ttyp t0) = true -> (3 < fuel)%nat ->
    read_glyph_list F endl fuel (name_tok F f l :: t_hyphen l :: name_tok F fl l :: t0 :: rest)
    = POk (seq_up f (S (N.to_nat (fl - f))), t0 :: rest).
  Proof.
    intros f fl l fuel t0 rest Hlt Hfl Hs Hf. destruct HF_all as (Hnum & _).
    destruct fuel as [|[|[|[|fu]]]]; try lia. unfold read_glyph_list.
    rewrite (rgl_next _ _ _ _ _ [f] [f] false); [|apply classify_name_tok; lia|reflexivity].
    assert (Eh : read_glyph_list_loop F endl (S (S (S fu))) [f] false (t_hyphen l :: name_tok F fl l :: t0 :: rest)
                 = read_glyph_list_loop F endl (S (S fu)) [f] true (name_tok F fl l :: t0 :: rest)) by reflexivity.
    rewrite Eh.
    rewrite (rgl_next _ _ _ _ _ [fl] (seq_up f (S (N.to_nat (fl - f)))) false); [|apply classify_name_tok; lia|].
    - apply rgl_done; auto.
    - cbn [add_gids]. unfold last_opt. cbn [rev app]. unfold range_to.
      assert (E1 : (fl <? f) = false) by lia. assert (E2 : (f <? fl) = true) by lia.
      assert (E3 : (fl =? 65535) = false) by lia. rewrite E1, E2, E3. reflexivity.
  Qed.

  Definition pair_ok (p : N * N) : Prop := fst p < num_glyphs F /\ snd p < num_glyphs F.

  Lemma seq1_toks_false : forall k e mm l,
    seq1_toks U F (S k) (e :: mm) false l = t_comma l :: seq1_toks U F (S k) (e :: mm) true l.
  Proof. intros k [f t] mm l. reflexivity. Qed.

  Lemma seq1_toks_head : forall k e mm l, exists t ts,
    seq1_toks U F (S k) (e :: mm) true l = t :: ts /\ after_flags t = true.
  Proof.
    intros k [f t] mm l. cbn [seq1_toks app].
    destruct (2 <? _)%nat.
    - destruct (nth _ _ _). cbn [app]. eexists. eexists. split; [reflexivity|apply after_flags_name_tok].
    - cbn [app]. eexists. eexists. split; [reflexivity|apply after_flags_glyph_tok].
  Qed.

  Lemma pair_ok_bound : forall mm, Forall pair_ok mm -> Forall (fun p => fst p < 65535 /\ snd p < 65535) mm.
  Proof.
    intros mm H. destruct HF_all as (Hnum & _). eapply Forall_impl; [|exact H].
    intros p [A B]. lia.
  Qed.

  Lemma gsub1_loop_ok : forall k mm l fuel res t0 rest,
    mm <> [] -> (length mm <= k)%nat ->
    ascending (map fst mm) -> Forall pair_ok mm ->
    (forall d e, In d res -> In e mm -> fst d < fst e) ->
    ends_list t0 = true ->
    (length (seq1_toks U F k mm true l ++ t0 :: rest) < fuel)%nat ->
    gsub1_loop F endl fuel res (seq1_toks U F k mm true l ++ t0 :: rest) = POk (res ++ mm, t0 :: rest).
  Proof.
    induction k as [|k IH]; intros mm l fuel res t0 rest Hn Hk Ha Hm Hres Ht Hf.
    { destruct mm; [congruence|cbn in Hk; lia]. }
    destruct mm as [|[f t] rest']; [congruence|].
    destruct fuel as [|fu]; [cbn in Hf; lia|].
    destruct (ends_list_props _ Ht) as (Hstop & Hnc & Hne).
    inversion Hm as [|? ? Hft Hrest]; subst. destruct Hft as [Hfn Htn]. cbn [fst snd] in Hfn, Htn.
    pose proof (pair_ok_bound _ Hm) as Hb. inversion Hb as [|? ? Hb1 Hb2]; subst.
    cbn [fst snd] in Hb1. destruct Hb1 as [Hf5 Ht5].
    assert (Hkey : has_key f res = false).
    { unfold has_key. rewrite assoc_none_lt; auto. apply Forall_forall. intros d Hd.
      apply (Hres d (f, t)); auto. left. reflexivity. }
    (* what happens after one mapping has been read: either the list ends,
       or a comma and the remaining mappings follow *)
    assert (Hcont : forall mm' res', (length mm' <= k)%nat ->
              ascending (map fst mm') -> Forall pair_ok mm' ->
              (forall d e, In d res' -> In e mm' -> fst d < fst e) ->
              res' ++ mm' = res ++ (f, t) :: rest' ->
              (length (seq1_toks U F k mm' false l ++ t0 :: rest) < fu)%nat ->
              (b <- optional endl TComma ;;
               if b then (optional endl TEOL ;;; gsub1_loop F endl fu res') else ret res')
                (seq1_toks U F k mm' false l ++ t0 :: rest)
              = POk (res ++ (f, t) :: rest', t0 :: rest)).
    { intros mm' res' Hk' Ha' Hm' Hres' Eres Hf'. destruct mm' as [|e' mm''].
      - assert (Es : seq1_toks U F k [] false l = []) by (destruct k; reflexivity).
        rewrite Es. cbn [app]. unfold bind at 1. rewrite optional_miss by auto.
        rewrite app_nil_r in Eres. rewrite Eres. reflexivity.
      - destruct k as [|k']; [cbn in Hk'; lia|].
        rewrite seq1_toks_false in *. cbn [app]. unfold bind at 1. rewrite optional_hit by reflexivity.
        unfold bind at 1.
        destruct (seq1_toks_head k' e' mm'' l) as (th & tts & Eh & Ah).
        destruct (after_flags_props _ Ah) as [A1 A2].
        assert (Eo : optional endl TEOL (seq1_toks U F (S k') (e' :: mm'') true l ++ t0 :: rest)
                     = POk (false, seq1_toks U F (S k') (e' :: mm'') true l ++ t0 :: rest)).
        { rewrite Eh. cbn [app]. apply optional_miss; auto. }
        rewrite Eo. rewrite (IH (e' :: mm'') l fu res' t0 rest); auto.
        + rewrite Eres. reflexivity.
        + discriminate.
        + clear - Hf'. fuel_tac. }
    cbn [seq1_toks gsub1_loop]. cbn [seq1_toks] in Hf.
    set (rl := if (2 <? length ((f, t) :: rest'))%nat then S (run_len f rest' (delta16 f t)) else 1%nat) in *.
    cbn [app] in *. destruct (2 <? rl)%nat eqn:Erl.
    - (* a range *)
      assert (Erl' : rl = S (run_len f rest' (delta16 f t))).
      { unfold rl in *. destruct (2 <? length ((f, t) :: rest'))%nat; auto. cbn in Erl. discriminate. }
      set (n := run_len f rest' (delta16 f t)) in *.
      pose proof (firstn_run rest' f t Hf5 Ht5 Hb2) as Hfr. cbv zeta in Hfr. fold n in Hfr. rewrite <- Erl' in Hfr.
      pose proof (run_len_le rest' f (delta16 f t)) as Hle. fold n in Hle.
      assert (En : nth (rl - 1) ((f, t) :: rest') (f, t) = (f + N.of_nat n, t + N.of_nat n)).
      { rewrite <- (nth_firstn_lt _ (rl - 1) rl) by lia. rewrite Hfr.
        rewrite nth_seq_up_combine by lia. f_equal; f_equal; lia. }
      rewrite En in *.
      assert (Hin : In (f + N.of_nat n, t + N.of_nat n) ((f, t) :: rest')).
      { rewrite <- En. apply nth_In. cbn [length]. lia. }
      rewrite Forall_forall in Hm. destruct (Hm _ Hin) as [Hfl Htl]. cbn [fst snd] in Hfl, Htl.
      assert (Hn2 : (2 <= n)%nat) by (apply Nat.ltb_lt in Erl; lia).
      cbn [app]. unfold bind at 1.
      rewrite rgl_range; [|lia|auto|reflexivity|clear - Hf; cbn [length] in Hf; fuel_tac].
      unfold bind at 1. rewrite required_hit by reflexivity.
      unfold bind at 1.
      assert (Hstop' : exists tn tsn, seq1_toks U F k (skipn rl ((f, t) :: rest')) false l ++ t0 :: rest = tn :: tsn
                                      /\ is_stop (ttyp tn) = true).
      { destruct (skipn rl ((f, t) :: rest')) as [|e' mm''] eqn:Es.
        - assert (E0 : seq1_toks U F k [] false l = []) by (destruct k; reflexivity). rewrite E0. cbn [app]. eauto.
        - destruct k as [|k'].
          + exfalso. assert (L : (length (skipn rl ((f, t) :: rest')) <= 0)%nat).
            { rewrite skipn_length. cbn [length] in *. lia. }
            rewrite Es in L. cbn in L. lia.
          + rewrite seq1_toks_false. cbn [app]. eexists. eexists. split; reflexivity. }
      destruct Hstop' as (tn & tsn & Etn & Hstn). rewrite Etn.
      rewrite rgl_range; [|lia|auto|auto|clear - Hf; cbn [length] in Hf; fuel_tac].
      rewrite <- Etn.
      replace (N.to_nat (f + N.of_nat n - f)) with n by lia.
      replace (N.to_nat (t + N.of_nat n - t)) with n by lia.
      rewrite !seq_up_length. rewrite Nat.eqb_refl. cbn [negb].
      rewrite <- Erl'. rewrite add_pairs_asc.
      + rewrite <- Hfr. apply Hcont.
        * rewrite skipn_length. cbn [length] in *. lia.
        * rewrite <- (firstn_skipn rl ((f, t) :: rest')) in Ha. rewrite map_app in Ha.
          eapply ascending_app_r; eauto.
        * apply Forall_forall. intros x Hx. apply Hm.
          rewrite <- (firstn_skipn rl ((f, t) :: rest')). apply in_or_app. right. exact Hx.
        * intros d e Hd He. apply in_app_or in Hd. destruct Hd as [Hd|Hd].
          -- apply Hres; auto. rewrite <- (firstn_skipn rl ((f, t) :: rest')). apply in_or_app. right. exact He.
          -- rewrite <- (firstn_skipn rl ((f, t) :: rest')) in Ha. rewrite map_app in Ha.
             apply (ascending_app_lt _ _ Ha); apply in_map; auto.
        * rewrite <- app_assoc. rewrite firstn_skipn. reflexivity.
        * clear - Hf. cbn [length] in Hf. fuel_tac.
      + rewrite !seq_up_length. reflexivity.
      + apply seq_up_ascending.
      + intros x Hx. apply Forall_forall. intros d Hd.
        assert (Hin' : In x (map fst (firstn rl ((f, t) :: rest')))).
        { rewrite Hfr. rewrite map_fst_combine by (rewrite !seq_up_length; reflexivity). exact Hx. }
        apply in_map_iff in Hin'. destruct Hin' as (e & Ee & Hine). subst x.
        apply Hres; auto. rewrite <- (firstn_skipn rl ((f, t) :: rest')). apply in_or_app. left. exact Hine.
    - (* a single mapping *)
      cbn [app]. unfold bind at 1.
      destruct fu as [|fu]; [exfalso; clear - Hf; cbn [length] in Hf; fuel_tac|].
      rewrite rgl_one by (auto; reflexivity).
      unfold bind at 1. rewrite required_hit by reflexivity.
      unfold bind at 1.
      assert (Hstop' : exists tn tsn, seq1_toks U F k rest' false l ++ t0 :: rest = tn :: tsn
                                      /\ is_stop (ttyp tn) = true).
      { destruct rest' as [|e' mm''].
        - assert (E0 : seq1_toks U F k [] false l = []) by (destruct k; reflexivity). rewrite E0. cbn [app]. eauto.
        - destruct k as [|k']; [cbn in Hk; lia|].
          rewrite seq1_toks_false. cbn [app]. eexists. eexists. split; reflexivity. }
      destruct Hstop' as (tn & tsn & Etn & Hstn). rewrite Etn.
      rewrite rgl_one by auto. rewrite <- Etn.
      cbn [length Nat.eqb negb add_pairs]. rewrite Hkey.
      apply Hcont.
      + cbn [length] in Hk. lia.
      + apply (ascending_tail f). exact Ha.
      + exact Hrest.
      + intros d e Hd He. apply in_app_or in Hd. destruct Hd as [Hd|Hd].
        * apply Hres; auto. right. exact He.
        * destruct Hd as [Hd|[]]. subst d. cbn [fst].
          pose proof (ascending_lt_all _ _ Ha) as HL. rewrite Forall_forall in HL. apply HL.
          apply in_map. exact He.
      + rewrite <- app_assoc. reflexivity.
      + clear - Hf. cbn [length] in Hf. fuel_tac.
  Qed.

  Lemma read_gsub1_gen : forall mm sub fl l fuel t0 rest,
    flags_ok fl = true -> mm <> [] -> ascending (map fst mm) -> Forall pair_ok mm ->
    build_gsub1 mm = sub -> ends_list t0 = true ->
    (length (flag_toks fl l ++ seq1_toks U F (length mm) mm true l ++ t0 :: rest) < fuel)%nat ->
    read_gsub1 F endl fuel (tk TColon [58] l :: flag_toks fl l ++ seq1_toks U F (length mm) mm true l ++ t0 :: rest)
    = POk (mkLookup 1 fl [sub], t0 :: rest).
  Proof.
    intros mm sub fl l fuel t0 rest Hfl Hn Ha Hm Hb Ht Hf. unfold read_gsub1.
    destruct mm as [|e mm']; [congruence|].
    unfold bind at 1. rewrite header_ok'; auto; [| |clear - Hf; fuel_tac].
    2:{ destruct (seq1_toks_head (length mm') e mm' l) as (th & tts & Eh & Ah).
        cbn [length]. rewrite Eh. cbn [app]. eauto. }
    unfold bind at 1.
    rewrite (gsub1_loop_ok (length (e :: mm')) (e :: mm') l fuel [] t0 rest); auto.
    - cbn [app is_nil]. unfold ret, mk_lookup. rewrite Hb. reflexivity.
    - intros d e0 [].
    - clear - Hf. fuel_tac.
  Qed.

  Lemma read_gsub1_1_ok : forall cov delta fl l fuel t0 rest,
    flags_ok fl = true -> sub_wf F (Gsub1_1 cov delta) = true -> ends_list t0 = true ->
    (length (flag_toks fl l ++ sub_toks U F (Gsub1_1 cov delta) l ++ t0 :: rest) < fuel)%nat ->
    read_gsub1 F endl fuel (tk TColon [58] l :: flag_toks fl l ++ sub_toks U F (Gsub1_1 cov delta) l ++ t0 :: rest)
    = POk (mkLookup 1 fl [Gsub1_1 cov delta], t0 :: rest).
  Proof.
    intros cov delta fl l fuel t0 rest Hfl W Ht Hf. cbn [sub_wf] in W. split_wf W.
    assert (Ha : ascending cov) by (apply ascendingb_spec; assumption).
    assert (Hc : Forall (fun g => g < num_glyphs F) cov) by (apply gids_ok_forall; assumption).
    assert (Hd : Forall (fun g => g < num_glyphs F) (map (fun k => (k + delta) mod 65536) cov))
      by (apply gids_ok_forall; assumption).
    assert (Hdl : delta < 65536) by lia.
    assert (Hn : cov <> []) by (destruct cov; [discriminate|congruence]).
    destruct HF_all as (Hnum & _).
    unfold sub_toks in *. cbv zeta in *.
    rewrite stable_sort_sorted in * by (apply (ascending_ss_map (fun k => (k + delta) mod 65536)); exact Ha).
    set (mm := map (fun k => (k, (k + delta) mod 65536)) cov) in *.
    assert (Ek : map fst mm = cov).
    { unfold mm. rewrite map_map. cbn [fst]. apply map_id. }
    apply read_gsub1_gen; auto.
    - unfold mm. destruct cov; [congruence|discriminate].
    - rewrite Ek. exact Ha.
    - unfold mm. clear - Hc Hd. induction cov; cbn in *; constructor.
      + inversion Hc; inversion Hd; subst. split; auto.
      + inversion Hc; inversion Hd; subst. auto.
    - unfold build_gsub1. rewrite Ek. rewrite sort_uniq_ascending by auto.
      assert (Ecd : forall k, k < 65536 -> delta16 k ((k + delta) mod 65536) = delta).
      { intros k Hk. unfold delta16. lia. }
      assert (Hc6 : Forall (fun g => g < 65536) cov) by (eapply Forall_impl; [|exact Hc]; intros; cbn in *; lia).
      destruct cov as [|g cov']; [congruence|]. unfold mm. cbn [map const_delta].
      inversion Hc6 as [|? ? Hg6 Hc6']; subst. rewrite (Ecd g) by auto.
      assert (Ecs : forallb (fun p : N * N => delta16 (fst p) (snd p) =? delta)
                      (map (fun k => (k, (k + delta) mod 65536)) cov') = true).
      { apply forallb_forall. intros p Hp. apply in_map_iff in Hp. destruct Hp as (k & E & Hk). subst p.
        cbn [fst snd]. rewrite Ecd; [apply N.eqb_refl|]. rewrite Forall_forall in Hc6'. auto. }
      rewrite Ecs. reflexivity.
  Qed.

  Lemma read_gsub1_2_ok : forall cov subst fl l fuel t0 rest,
    flags_ok fl = true -> sub_wf F (Gsub1_2 cov subst) = true -> ends_list t0 = true ->
    (length (flag_toks fl l ++ sub_toks U F (Gsub1_2 cov subst) l ++ t0 :: rest) < fuel)%nat ->
    read_gsub1 F endl fuel (tk TColon [58] l :: flag_toks fl l ++ sub_toks U F (Gsub1_2 cov subst) l ++ t0 :: rest)
    = POk (mkLookup 1 fl [Gsub1_2 cov subst], t0 :: rest).
  Proof.
    intros cov subst fl l fuel t0 rest Hfl W Ht Hf. cbn [sub_wf] in W. split_wf W.
    assert (Ha : ascending cov) by (apply ascendingb_spec; assumption).
    assert (Hc : Forall (fun g => g < num_glyphs F) cov) by (apply gids_ok_forall; assumption).
    assert (Hd : Forall (fun g => g < num_glyphs F) subst) by (apply gids_ok_forall; assumption).
    assert (Hl : length cov = length subst) by (apply Nat.eqb_eq; assumption).
    match goal with Hx : negb (const_delta _) = true |- _ => apply negb_true_iff in Hx; rename Hx into Hcd end.
    unfold sub_toks in *. cbv zeta in *.
    rewrite stable_sort_sorted in * by (apply ascending_ss_combine; exact Ha).
    assert (Hn : combine cov subst <> []) by (destruct (combine cov subst); [discriminate|congruence]).
    apply read_gsub1_gen; auto.
    - rewrite map_fst_combine by auto. exact Ha.
    - apply (Forall_combine (fun g => g < num_glyphs F) (fun g => g < num_glyphs F)); auto.
    - unfold build_gsub1. rewrite Hcd. rewrite map_fst_combine by auto.
      rewrite sort_uniq_ascending by auto. rewrite map_get_combine by auto. reflexivity.
  Qed.

  (* ---- the end of the stream: GPOS descriptions do not end in "\n" ---- *)
  Definition norm (ts : list token) : list token :=
    match ts with [t] => if is_syn_eof endl t then [] else ts | _ => ts end.

  Lemma norm_idem : forall ts, norm (norm ts) = norm ts.
  Proof.
    intros [|t [|t' r]]; cbn; auto. destruct (is_syn_eof endl t) eqn:E; cbn; auto. rewrite E. reflexivity.
  Qed.

  Lemma peek_norm_typ : forall ts, ttyp (peek_tok endl (norm ts)) = ttyp (peek_tok endl ts).
  Proof.
    intros [|t [|t' r]]; cbn; auto. destruct (is_syn_eof endl t) eqn:E; cbn; auto.
    unfold is_syn_eof in E. repeat (apply andb_true_iff in E; destruct E as [E ?]).
    destruct (ttyp t); cbn in E; try discriminate. reflexivity.
  Qed.

  Lemma read_unread : forall ts,
    read endl ts = POk (peek_tok endl ts, tl ts) /\ unread endl (peek_tok endl ts) (tl ts) = POk (tt, norm ts).
  Proof.
    intros [|t [|t' r]]; cbn; split; auto.
    - unfold is_syn_eof. cbn. rewrite N.eqb_refl. reflexivity.
    - destruct (is_syn_eof endl t); reflexivity.
  Qed.

  Lemma optional_miss_n : forall ty ts, ityp_eqb (ttyp (peek_tok endl ts)) ty = false ->
    optional endl ty ts = POk (false, norm ts).
  Proof.
    intros ty ts H. destruct (read_unread ts) as [R W]. unfold optional, bind. rewrite R, H, W. reflexivity.
  Qed.

  Lemma norm_cons2 : forall t t' r, norm (t :: t' :: r) = t :: t' :: r.
  Proof. reflexivity. Qed.

  Lemma norm_cons_ne : forall t r, ityp_eqb (ttyp t) TEOF = false -> norm (t :: r) = t :: r.
  Proof. intros t [|t' r] H; cbn; auto. unfold is_syn_eof. rewrite H. reflexivity. Qed.

  (* ---- value records ---- *)
  Lemma read_int16_hit : forall z l ts, int16_ok z = true ->
    read_int16 endl (tk TInt (digits_signed z) l :: ts) = POk (z, ts).
  Proof.
    intros z l ts H. unfold read_int16, bind, read. cbn [ttyp ityp_eqb tval].
    rewrite atoi_digits_signed. unfold int16_ok in H.
    assert (E : ((z <? -32768)%Z || (32767 <? z)%Z) = false) by lia. rewrite E. reflexivity.
  Qed.

  Lemma rvl_x : forall f v z l ts, int16_ok z = true ->
    read_value_loop endl (S f) v (tk TIdent k_x l :: tk TInt (digits_signed z) l :: ts)
    = read_value_loop endl f (mkV z (v_y v) (v_dx v)) ts.
  Proof.
    intros. cbn [read_value_loop]. unfold bind at 1. cbn [read]. 
    change (is_ident (tk TIdent k_x l) k_x) with true. cbv iota.
    unfold bind at 1. rewrite read_int16_hit by auto. reflexivity.
  Qed.
  Lemma rvl_y : forall f v z l ts, int16_ok z = true ->
    read_value_loop endl (S f) v (tk TIdent k_y l :: tk TInt (digits_signed z) l :: ts)
    = read_value_loop endl f (mkV (v_x v) z (v_dx v)) ts.
  Proof.
    intros. cbn [read_value_loop]. unfold bind at 1. cbn [read].
    change (is_ident (tk TIdent k_y l) k_x) with false.
    change (is_ident (tk TIdent k_y l) k_y) with true. cbv iota.
    unfold bind at 1. rewrite read_int16_hit by auto. reflexivity.
  Qed.
  Lemma rvl_dx : forall f v z l ts, int16_ok z = true ->
    read_value_loop endl (S f) v (tk TIdent k_dx l :: tk TInt (digits_signed z) l :: ts)
    = read_value_loop endl f (mkV (v_x v) (v_y v) z) ts.
  Proof.
    intros. cbn [read_value_loop]. unfold bind at 1. cbn [read].
    change (is_ident (tk TIdent k_dx l) k_x) with false.
    change (is_ident (tk TIdent k_dx l) k_y) with false.
    change (is_ident (tk TIdent k_dx l) k_dx) with true. cbv iota.
    unfold bind at 1. rewrite read_int16_hit by auto. reflexivity.
  Qed.

  Lemma is_ident_typ : forall t s, ityp_eqb (ttyp t) TIdent = false -> is_ident t s = false.
  Proof. intros t s H. unfold is_ident. rewrite H. reflexivity. Qed.

  Lemma rvl_end : forall f v ts0, ityp_eqb (ttyp (peek_tok endl ts0)) TIdent = false ->
    read_value_loop endl (S f) v ts0 = POk (v, norm ts0).
  Proof.
    intros f v ts0 H. destruct (read_unread ts0) as [R W]. cbn [read_value_loop]. unfold bind at 1.
    rewrite R. rewrite !is_ident_typ by auto. unfold bind. rewrite W. reflexivity.
  Qed.

  Lemma value_ok : forall a l fuel ts0,
    vrec_ok a = true -> ityp_eqb (ttyp (peek_tok endl ts0)) TIdent = false ->
    (length (value_toks a l) < fuel)%nat ->
    exists ts', read_value_record endl fuel (value_toks a l ++ ts0) = POk (a, ts') /\ norm ts' = norm ts0.
  Proof.
    intros a l fuel ts0 Hv Ht Hf. destruct a as [v|].
    2:{ exists ts0. split; reflexivity. }
    cbn [vrec_ok] in Hv. repeat (apply andb_true_iff in Hv; destruct Hv as [Hv ?]).
    apply negb_true_iff in Hv. exists (norm ts0). split; [|apply norm_idem].
    unfold read_value_record, value_toks in *. destruct v as [x y dx]. cbn [v_x v_y v_dx] in *.
    destruct (x =? 0)%Z eqn:Ex, (y =? 0)%Z eqn:Ey, (dx =? 0)%Z eqn:Ed; cbn [andb] in Hv; try discriminate;
      cbn [app is_nil] in *;
      (unfold bind at 1; rewrite optional_ident_miss by reflexivity);
      unfold bind at 1.
    - destruct fuel as [|[|fu]]; try (cbn in Hf; lia).
      rewrite rvl_dx by auto. rewrite rvl_end by auto. unfold ret, vrec_norm. cbn [v_x v_y v_dx].
      rewrite Ed. apply Z.eqb_eq in Ex, Ey. subst. reflexivity.
    - destruct fuel as [|[|fu]]; try (cbn in Hf; lia).
      rewrite rvl_y by auto. rewrite rvl_end by auto. unfold ret, vrec_norm. cbn [v_x v_y v_dx].
      rewrite Ey. apply Z.eqb_eq in Ex, Ed. subst. reflexivity.
    - destruct fuel as [|[|[|fu]]]; try (cbn in Hf; lia).
      rewrite rvl_y by auto. rewrite rvl_dx by auto. rewrite rvl_end by auto.
      unfold ret, vrec_norm. cbn [v_x v_y v_dx].
      rewrite Ey. apply Z.eqb_eq in Ex. subst. reflexivity.
    - destruct fuel as [|[|fu]]; try (cbn in Hf; lia).
      rewrite rvl_x by auto. rewrite rvl_end by auto. unfold ret, vrec_norm. cbn [v_x v_y v_dx].
      rewrite Ex. apply Z.eqb_eq in Ey, Ed. subst. reflexivity.
    - destruct fuel as [|[|[|fu]]]; try (cbn in Hf; lia).
      rewrite rvl_x by auto. rewrite rvl_dx by auto. rewrite rvl_end by auto.
      unfold ret, vrec_norm. cbn [v_x v_y v_dx].
      rewrite Ex. apply Z.eqb_eq in Ey. subst. reflexivity.
    - destruct fuel as [|[|[|fu]]]; try (cbn in Hf; lia).
      rewrite rvl_x by auto. rewrite rvl_y by auto. rewrite rvl_end by auto.
      unfold ret, vrec_norm. cbn [v_x v_y v_dx].
      rewrite Ex. apply Z.eqb_eq in Ed. subst. reflexivity.
    - destruct fuel as [|[|[|[|fu]]]]; try (cbn in Hf; lia).
      rewrite rvl_x by auto. rewrite rvl_y by auto. rewrite rvl_dx by auto. rewrite rvl_end by auto.
      unfold ret, vrec_norm. cbn [v_x v_y v_dx]. rewrite Ex. reflexivity.
  Qed.

  (* ---- GPOS1 ---- *)
  Lemma norm_eq_cons : forall ts t r, norm ts = t :: r -> ts = t :: r.
  Proof.
    intros [|t1 [|t2 r']] t r H; cbn in H; auto. destruct (is_syn_eof endl t1); [discriminate|auto].
  Qed.

  Lemma peek_typ_same : forall a b, norm a = norm b -> ttyp (peek_tok endl a) = ttyp (peek_tok endl b).
  Proof. intros a b H. rewrite <- (peek_norm_typ a), <- (peek_norm_typ b), H. reflexivity. Qed.

  Lemma set_key_new : forall {B} g (v : B) res, assoc g res = None -> set_key g v res = res ++ [(g, v)].
  Proof.
    intros B g v res. induction res as [|[k x] r IH]; intros H; cbn in *; auto.
    destruct (k =? g); [discriminate|]. rewrite IH by auto. reflexivity.
  Qed.

  (* what may follow a GPOS1 subtable: "||", "\n" or the end *)
  Definition ends_sub (ts0 : list token) : Prop :=
    let ty := ttyp (peek_tok endl ts0) in
    ityp_eqb ty TIdent = false /\ ityp_eqb ty TComma = false.

  Lemma ends_sub_same : forall a b, norm a = norm b -> ends_sub b -> ends_sub a.
  Proof. intros a b H [X Y]. unfold ends_sub. rewrite (peek_typ_same a b H). auto. Qed.

  Lemma gpos1_2_loop_ok : forall es l fuel res ts0,
    es <> [] ->
    ascending (map fst es) ->
    Forall (fun e => fst e < num_glyphs F /\ vrec_ok (snd e) = true) es ->
    (forall d e, In d res -> In e es -> fst d < fst e) ->
    ends_sub ts0 ->
    (length (entries_toks U F value_toks es true l ++ ts0) < fuel)%nat ->
    exists ts', gpos1_2_loop F endl fuel res (entries_toks U F value_toks es true l ++ ts0)
                = POk (res ++ es, ts') /\ norm ts' = norm ts0.
  Proof.
    induction es as [|[g x] es IH]; intros l fuel res ts0 Hn Ha He Hres Hts Hf; [congruence|].
    destruct fuel as [|[|fu]]; try (cbn in Hf; fuel_tac).
    inversion He as [|? ? Hg Hes]; subst. destruct Hg as [Hg Hx]. cbn [fst snd] in Hg, Hx.
    cbn [entries_toks app gpos1_2_loop]. rewrite <- !app_assoc. cbn [app].
    unfold bind at 1. rewrite rgl_one by (auto; reflexivity).
    unfold bind at 1. rewrite required_hit by reflexivity.
    assert (Hkey : assoc g res = None).
    { apply assoc_none_lt. apply Forall_forall. intros d Hd. apply (Hres d (g, x)); auto. left. reflexivity. }
    destruct es as [|e' es'].
    - cbn [entries_toks app].
      destruct (value_ok x l (S (S fu)) ts0 Hx (proj1 Hts)) as (ts' & Ev & En);
        [clear - Hf; cbn [entries_toks] in Hf; fuel_tac|].
      unfold bind at 1. rewrite Ev. unfold bind at 1.
      destruct (ends_sub_same ts' ts0 En Hts) as [_ Hc].
      rewrite optional_miss_n by auto. unfold ret. rewrite set_key_new by auto.
      eexists. split; [reflexivity|]. rewrite norm_idem. exact En.
    - rewrite entries_toks_false. cbn [app].
      destruct (value_ok x l (S (S fu)) (t_comma l :: entries_toks U F value_toks (e' :: es') true l ++ ts0) Hx eq_refl)
        as (ts' & Ev & En); [clear - Hf; cbn [entries_toks] in Hf; fuel_tac|].
      rewrite norm_cons_ne in En by reflexivity. apply norm_eq_cons in En. subst ts'.
      unfold bind at 1. rewrite Ev. unfold bind at 1. rewrite optional_hit by reflexivity.
      unfold bind at 1.
      assert (Hopt : optional endl TEOL (entries_toks U F value_toks (e' :: es') true l ++ ts0)
                     = POk (false, entries_toks U F value_toks (e' :: es') true l ++ ts0)).
      { destruct e' as [g' x']. cbn [entries_toks app].
        destruct (after_flags_props _ (after_flags_glyph_tok g' l)) as [A B].
        apply optional_miss; auto. }
      rewrite Hopt. rewrite set_key_new by auto.
      destruct (IH l (S fu) (res ++ [(g, x)]) ts0) as (ts'' & E2 & N2); auto.
      + discriminate.
      + apply (ascending_tail g). exact Ha.
      + intros d e Hd Hin. apply in_app_or in Hd. destruct Hd as [Hd|Hd].
        * apply Hres; auto. right. exact Hin.
        * destruct Hd as [Hd|[]]. subst d. cbn [fst].
          assert (HL : Forall (fun y => g < y) (map fst (e' :: es')))
            by (apply (ascending_lt_all (map fst (e' :: es')) g); exact Ha).
          rewrite Forall_forall in HL. apply HL. apply in_map. exact Hin.
      + clear - Hf. destruct e' as [g' x']. cbn [entries_toks] in *. fuel_tac.
      + exists ts''. split; auto. rewrite <- app_assoc in E2. exact E2.
  Qed.

  Definition gpos_sub_ok (s : subtable) : Prop := is_gpos s = true /\ sub_wf F s = true.

  Lemma sub_toks_head_gpos : forall s l, gpos_sub_ok s -> exists t ts,
    sub_toks U F s l = t :: ts /\ after_flags t = true.
  Proof.
    intros s l [Hg Hw]. destruct s; try discriminate; unfold sub_toks.
    - unfold gs_toks. cbn [app]. eexists. eexists. split; reflexivity.
    - cbn [sub_wf] in Hw. split_wf Hw.
      assert (Hl : length cov = length adj) by (apply Nat.eqb_eq; assumption).
      assert (Hn : cov <> []) by (destruct cov; [discriminate|congruence]).
      destruct (combine_cons cov adj Hn Hl) as (g & r & cov' & adj' & Ec & Er & Ecb). rewrite Ecb.
      cbn [entries_toks app]. eexists. eexists. split; [reflexivity|apply after_flags_glyph_tok].
  Qed.

  (* one subtable, as read inside gpos1_loop *)
  Lemma gpos1_sub_ok : forall s l fuel ts0, gpos_sub_ok s -> ends_sub ts0 ->
    (length (sub_toks U F s l ++ ts0) < fuel)%nat ->
    exists ts',
      (nxt <- read endl ;; unread endl nxt ;;;
       (if ityp_eqb (ttyp nxt) TLBr then
          fr <- read_glyph_set F endl fuel ;;
          required endl TArrow ;;;
          adj <- read_value_record endl fuel ;;
          ret (Gpos1_1 (uniq (isort fr)) adj)
        else
          res <- gpos1_2_loop F endl fuel [] ;;
          ret (Gpos1_2 (build_cov res) (map (fun g => get_or0 None g res) (build_cov res))))) (sub_toks U F s l ++ ts0)
      = POk (s, ts') /\ norm ts' = norm ts0.
  Proof.
    intros s l fuel ts0 [Hg Hw] Hts Hf. destruct s; try discriminate; unfold sub_toks in *.
    - (* Gpos1_1 *)
      cbn [sub_wf] in Hw. split_wf Hw.
      assert (Ha : ascending cov) by (apply ascendingb_spec; assumption).
      assert (Eg : (gs_toks U F cov l ++ [t_arrow l] ++ value_toks adj l) ++ ts0
                   = tk TLBr [91] l :: (gl_toks U F cov l ++ tk TRBr [93] l :: t_arrow l :: value_toks adj l ++ ts0)).
      { unfold gs_toks. cbn [app]. rewrite <- !app_assoc. reflexivity. }
      assert (Eg2 : tk TLBr [91] l :: (gl_toks U F cov l ++ tk TRBr [93] l :: t_arrow l :: value_toks adj l ++ ts0)
                    = gs_toks U F cov l ++ (t_arrow l :: value_toks adj l ++ ts0)).
      { unfold gs_toks. cbn [app]. rewrite <- app_assoc. reflexivity. }
      rewrite Eg in *. unfold bind at 1. cbn [read]. unfold bind at 1.
      rewrite unread_cons by reflexivity. cbn [ttyp ityp_eqb].
      rewrite Eg2. unfold bind at 1.
      rewrite rgs_ok; auto; [|clear - Hf; fuel_tac].
      unfold bind at 1. rewrite required_hit by reflexivity.
      destruct (value_ok adj l fuel ts0) as (ts' & Ev & En); auto; [apply Hts|clear - Hf; fuel_tac|].
      unfold bind at 1. rewrite Ev. unfold ret. rewrite sort_uniq_ascending by auto.
      exists ts'. auto.
    - (* Gpos1_2 *)
      cbn [sub_wf] in Hw. split_wf Hw.
      assert (Ha : ascending cov) by (apply ascendingb_spec; assumption).
      assert (Hc : Forall (fun g => g < num_glyphs F) cov) by (apply gids_ok_forall; assumption).
      assert (Hl : length cov = length adj) by (apply Nat.eqb_eq; assumption).
      assert (Hn : cov <> []) by (destruct cov; [discriminate|congruence]).
      destruct (combine_cons cov adj Hn Hl) as (g & r & cov' & adj' & Ec & Er & Ecb).
      assert (Eh : exists t ts, entries_toks U F value_toks (combine cov adj) true l ++ ts0 = t :: ts
                               /\ ityp_eqb (ttyp t) TEOF = false /\ ityp_eqb (ttyp t) TLBr = false).
      { rewrite Ecb. cbn [entries_toks app]. eexists. eexists. split; [reflexivity|].
        destruct (glyph_tok_typ g l) as [E|[E|E]]; rewrite E; auto. }
      destruct Eh as (t & ts & Et & Et1 & Et2). rewrite Et.
      unfold bind at 1. cbn [read]. unfold bind at 1. rewrite unread_cons by auto. rewrite Et2.
      rewrite <- Et.
      destruct (gpos1_2_loop_ok (combine cov adj) l fuel [] ts0) as (ts' & El & En); auto.
      + rewrite Ecb. discriminate.
      + rewrite map_fst_combine by auto. exact Ha.
      + apply (Forall_combine (fun g => g < num_glyphs F) (fun a => vrec_ok a = true)); auto.
        apply forallb_Forall. assumption.
      + intros d e [].
      + unfold bind at 1. rewrite El. cbn [app]. unfold ret. cbv zeta.
        rewrite build_cov_combine by auto. rewrite map_get_combine by auto. exists ts'. auto.
  Qed.

  Lemma loop_body_assoc : forall {A B C D} (m : P A) (u : A -> P B) (i : A -> P C) (k : C -> P D) ts,
    (a <- m ;; u a ;;; (c <- i a ;; k c)) ts = (c <- (a <- m ;; u a ;;; i a) ;; k c) ts.
  Proof.
    intros. unfold bind. destruct (m ts) as [[a ts1]| | | |]; auto.
    destruct (u a ts1) as [[b ts2]| | | |]; auto.
  Qed.

  Definition ends_gpos (ts0 : list token) : Prop :=
    let ty := ttyp (peek_tok endl ts0) in
    ityp_eqb ty TIdent = false /\ ityp_eqb ty TComma = false /\ ityp_eqb ty TOr = false.

  Lemma ends_gpos_sub : forall ts0, ends_gpos ts0 -> ends_sub ts0.
  Proof. intros ts0 (A & B & C). split; auto. Qed.

  Lemma gpos1_loop_ok : forall subs hdr s l fuel acc ts0,
    Forall gpos_sub_ok (s :: subs) -> ends_gpos ts0 ->
    (length (sub_toks U F s l ++ subs_toks U F hdr subs false (l + sub_dl s) ++ ts0) < fuel)%nat ->
    exists ts', gpos1_loop F endl fuel acc (sub_toks U F s l ++ subs_toks U F hdr subs false (l + sub_dl s) ++ ts0)
                = POk (acc ++ s :: subs, ts') /\ norm ts' = norm ts0.
  Proof.
    induction subs as [|s' r IH]; intros hdr s l fuel acc ts0 Hs Hts Hf;
      (destruct fuel as [|fu]; [cbn in Hf; lia|]);
      inversion Hs as [|? ? Hs1 Hsr]; subst; cbn [gpos1_loop]; rewrite loop_body_assoc.
    - cbn [subs_toks app] in *.
      destruct (gpos1_sub_ok s l (S fu) ts0 Hs1 (ends_gpos_sub _ Hts) Hf) as (ts' & Es & En).
      unfold bind at 1. rewrite Es. unfold bind at 1.
      destruct Hts as (A & B & C). rewrite optional_miss_n by (rewrite (peek_typ_same ts' ts0 En); exact C).
      unfold ret. eexists. split; [reflexivity|]. rewrite norm_idem. exact En.
    - cbn [subs_toks app] in *. rewrite <- !app_assoc in *. cbn [app] in *.
      assert (Es' : forall f l1, sub_toksp U F s' f l1 = sub_toks U F s' l1).
      { intros. inversion Hsr as [|? ? [G _] _]; subst. destruct s'; try discriminate; reflexivity. }
      assert (Ed' : forall f, sub_dlp s' f = sub_dl s').
      { intros. inversion Hsr as [|? ? [G _] _]; subst. destruct s'; try discriminate; reflexivity. }
      rewrite Es', Ed' in *.
      set (l0 := l + sub_dl s) in *.
      set (X := tk TOr [124; 124] l0 :: tk TEOL [10] l0 :: sub_toks U F s' (l0 + 1) ++ subs_toks U F hdr r false (l0 + 1 + sub_dl s') ++ ts0) in *.
      assert (HX : ends_sub X) by (split; reflexivity).
      destruct (gpos1_sub_ok s l (S fu) X Hs1 HX Hf) as (ts' & Es & En).
      unfold X in En. rewrite norm_cons2 in En. apply norm_eq_cons in En. subst ts'.
      unfold bind at 1. rewrite Es. unfold bind at 1. rewrite optional_hit by reflexivity.
      unfold bind at 1. rewrite optional_hit by reflexivity.
      destruct (IH hdr s' (l0 + 1) fu (acc ++ [s]) ts0 Hsr Hts) as (ts'' & E2 & N2).
      + clear - Hf. unfold X in Hf. fuel_tac.
      + exists ts''. split; auto. rewrite E2. rewrite <- app_assoc. reflexivity.
  Qed.

  Lemma read_gpos1_ok : forall lk l fuel ts0,
    gpos_lookup_wf F lk = true -> ends_gpos ts0 ->
    (length (lookup_toks U F k_GPOS lk l ++ ts0) < fuel)%nat ->
    exists ts', read_gpos1 F endl fuel (tl (lookup_toks U F k_GPOS lk l) ++ ts0) = POk (lk, ts')
                /\ norm ts' = norm ts0.
  Proof.
    intros lk l fuel ts0 W Hts Hf. unfold gpos_lookup_wf in W. split_wf W.
    destruct lk as [ty fl subs]. cbn [l_type l_flags l_subs] in *.
    apply N.eqb_eq in H1. subst ty.
    destruct subs as [|s subs]; [discriminate|].
    assert (Hs : Forall gpos_sub_ok (s :: subs)).
    { apply forallb_Forall in H. eapply Forall_impl; [|exact H]. cbn. intros a Ha.
      apply andb_true_iff in Ha. split; tauto. }
    unfold lookup_toks, hdr_toks in *. cbn [l_type l_flags l_subs subs_toks app tl] in *.
    rewrite <- !app_assoc in *. cbn [app] in *.
    unfold read_gpos1. unfold bind at 1.
    inversion Hs as [|? ? Hs1 _]; subst.
    assert (Es : forall f l1, sub_toksp U F s f l1 = sub_toks U F s l1)
      by (intros; destruct Hs1 as [G _]; destruct s; try discriminate; reflexivity).
    assert (Ed : forall f, sub_dlp s f = sub_dl s)
      by (intros; destruct Hs1 as [G _]; destruct s; try discriminate; reflexivity).
    rewrite Es, Ed in *.
    destruct (sub_toks_head_gpos s l Hs1) as (t & ts & Et & At).
    rewrite header_ok'; auto; [| |clear - Hf; fuel_tac].
    2:{ rewrite Et. cbn [app]. eauto. }
    destruct (gpos1_loop_ok subs (fun l0 => tk TIdent (k_GPOS ++ digits 1) l0 :: tk TColon [58] l0 :: flag_toks fl l0) s l fuel [] ts0 Hs Hts)
      as (ts' & El & En).
    - clear - Hf. fuel_tac.
    - unfold bind at 1. rewrite El. cbn [app]. unfold ret, mk_lookup. exists ts'. auto.
  Qed.

  (* ---- nested-action lists inside a lookup ---- *)
  Lemma acts_ok_forall : forall acts, acts_ok acts = true ->
    Forall (fun a => fst a < 65536 /\ snd a < 65536) acts.
  Proof.
    intros acts H. unfold acts_ok in H. apply forallb_Forall in H. eapply Forall_impl; [|exact H].
    cbn. intros a Ha. apply andb_true_iff in Ha. lia.
  Qed.

  Lemma read_nested_exact : forall acts l fuel res t0 rest,
    acts_ok acts = true -> ityp_eqb (ttyp t0) TInt = false -> ityp_eqb (ttyp t0) TEOF = false ->
    (length (nested_toks acts l) < fuel)%nat ->
    read_nested endl fuel res (nested_toks acts l ++ t0 :: rest) = POk (res ++ acts, t0 :: rest).
  Proof.
    induction acts as [|[li si] acts IH]; intros l fuel res t0 rest Ha Ht He Hf;
      (destruct fuel as [|fu]; [cbn in Hf; lia|]).
    - unfold nested_toks. cbn [map concat app read_nested]. unfold bind at 1. cbn [read]. rewrite Ht. cbn [negb].
      unfold bind. rewrite unread_cons by auto. rewrite app_nil_r. reflexivity.
    - pose proof (acts_ok_forall _ Ha) as Hb. inversion Hb as [|? ? Hb1 Hb2]; subst. cbn [fst snd] in Hb1. destruct Hb1 as [H1 H2].
      assert (Ha' : acts_ok acts = true).
      { unfold acts_ok in *. cbn [forallb] in Ha. apply andb_true_iff in Ha. tauto. }
      unfold nested_toks. cbn [map concat fst snd app read_nested]. fold (nested_toks acts l).
      unfold bind at 1. cbn [read ttyp ityp_eqb negb tval]. rewrite atoi_digits_nat.
      assert (E1 : ((Z.of_N li <? 0)%Z || (65536 <=? Z.of_N li)%Z) = false) by lia. rewrite E1.
      unfold bind at 1. unfold required, bind at 1. cbn [read ttyp ityp_eqb ret].
      unfold bind at 1. cbn [read ttyp ityp_eqb negb tval]. rewrite atoi_digits_nat.
      assert (E2 : ((Z.of_N si <? 0)%Z || (65536 <=? Z.of_N si)%Z) = false) by lia. rewrite E2.
      rewrite !N2Z.id. rewrite IH; auto.
      + rewrite <- app_assoc. reflexivity.
      + unfold nested_toks in *. cbn [map concat app length] in Hf. cbn [length] in Hf. lia.
  Qed.

  (* ---- GSUB5, format 1 ---- *)
  Definition ctx_rule_ok (e : N * (list N * actions)) : Prop :=
    gids_ok F (fst e :: fst (snd e)) = true /\ acts_ok (snd (snd e)) = true.

  Lemma ctx1_toks_false : forall e mm l,
    ctx1_toks U F (e :: mm) false l = t_comma l :: ctx1_toks U F (e :: mm) true l.
  Proof. intros [g [i a]] mm l. reflexivity. Qed.

  Lemma ends_list_not_int : forall t, ends_list t = true -> ityp_eqb (ttyp t) TInt = false.
  Proof.
    intros t H. unfold ends_list in H. apply andb_true_iff in H. destruct H as [H _].
    destruct (ttyp t); cbn in *; auto; discriminate.
  Qed.

  Lemma ctx1_loop_ok : forall mm l fuel data t0 rest,
    mm <> [] -> Forall ctx_rule_ok mm -> ends_list t0 = true ->
    (length (ctx1_toks U F mm true l ++ t0 :: rest) < fuel)%nat ->
    ctx1_loop F endl fuel data (ctx1_toks U F mm true l ++ t0 :: rest) = POk (data ++ mm, t0 :: rest).
  Proof.
    induction mm as [|[g [inp acts]] mm IH]; intros l fuel data t0 rest Hn Hm Ht Hf; [congruence|].
    destruct fuel as [|f]; [cbn in Hf; lia|].
    destruct (ends_list_props _ Ht) as (Hstop & Hnc & Hne). pose proof (ends_list_not_int _ Ht) as Hni.
    inversion Hm as [|? ? Hk Hmm]; subst. destruct Hk as [Hk Ho]. cbn [fst snd] in Hk, Ho.
    cbn [ctx1_toks app ctx1_loop]. rewrite <- !app_assoc. cbn [app].
    unfold bind at 1.
    rewrite (rgl_gl (g :: inp) l (S f) (t_arrow l)); auto; [|clear - Hf; cbn [ctx1_toks] in Hf; fuel_tac].
    unfold bind at 1. rewrite required_hit by reflexivity.
    unfold bind at 1.
    destruct mm as [|e' mm'].
    - cbn [ctx1_toks app]. rewrite app_nil_r.
      rewrite read_nested_exact; auto; [|clear - Hf; cbn [ctx1_toks] in Hf; fuel_tac].
      cbn [app]. unfold bind at 1. rewrite optional_miss by auto. reflexivity.
    - rewrite ctx1_toks_false. cbn [app]. rewrite <- app_assoc. cbn [app].
      rewrite read_nested_exact; auto; [|clear - Hf; cbn [ctx1_toks] in Hf; fuel_tac].
      cbn [app]. unfold bind at 1. rewrite optional_hit by reflexivity.
      unfold bind at 1.
      assert (Hopt : forall ts, optional endl TEOL (ctx1_toks U F (e' :: mm') true l ++ ts)
                                = POk (false, ctx1_toks U F (e' :: mm') true l ++ ts)).
      { intros ts. destruct e' as [k' [c' o']]. cbn [ctx1_toks app].
        destruct (gl_toks_head k' c' l) as (t & tt' & E & A). rewrite E. cbn [app].
        destruct (after_flags_props _ A) as [A1 A2]. apply optional_miss; auto. }
      rewrite Hopt.
      replace (data ++ (g, (inp, acts)) :: e' :: mm') with ((data ++ [(g, (inp, acts))]) ++ e' :: mm')
        by (rewrite <- app_assoc; reflexivity).
      apply IH; auto; [discriminate|].
      clear - Hf. destruct e' as [k' [c' o']]. cbn [ctx1_toks] in *. fuel_tac.
  Qed.

  (* ---- GSUB5, format 2: class names ---- *)
  Definition cls_name (c : N) : list N := if c =? 0 then [] else cname c.

  Lemma read_class_names_ok : forall cs l fuel acc t0 rest,
    ityp_eqb (ttyp t0) TColon = false -> ityp_eqb (ttyp t0) TEOF = false ->
    (length cs < fuel)%nat ->
    read_class_names endl fuel acc (concat (map (fun x => class_toks x l) cs) ++ t0 :: rest)
    = POk (acc ++ map cls_name cs, t0 :: rest).
  Proof.
    induction cs as [|c cs IH]; intros l fuel acc t0 rest Ht He Hf; (destruct fuel as [|f]; [cbn in Hf; lia|]).
    - cbn [map concat app read_class_names]. unfold bind at 1. unfold peek, bind at 1. cbn [read].
      unfold bind at 1. rewrite unread_cons by auto. unfold ret at 1. rewrite Ht. rewrite app_nil_r. reflexivity.
    - cbn [map concat read_class_names]. rewrite <- app_assoc.
      assert (Hc : exists r', class_toks c l = t_colon l :: r') by (unfold class_toks; destruct (c =? 0); eauto).
      destruct Hc as (r' & Ec). rewrite Ec. cbn [app].
      unfold bind at 1. unfold peek, bind at 1. cbn [read]. unfold bind at 1.
      rewrite unread_cons by reflexivity. unfold ret at 1. cbn [ttyp t_colon ityp_eqb].
      unfold bind at 1. unfold read_class_name. unfold bind at 1. rewrite required_hit by reflexivity.
      unfold class_toks in Ec. unfold cls_name. destruct (c =? 0) eqn:E0; inversion Ec; subst; cbn [app].
      + unfold bind at 1. cbn [read ttyp t_colon]. unfold ret at 1.
        rewrite IH; auto; [|cbn in Hf; lia]. cbn [map]. rewrite <- app_assoc. reflexivity.
      + unfold bind at 1. cbn [read ttyp]. unfold bind at 1. rewrite required_hit by reflexivity.
        unfold ret at 1. cbn [tval].
        rewrite IH; auto; [|cbn in Hf; lia]. cbn [map]. rewrite <- app_assoc. reflexivity.
  Qed.

  Fixpoint seqN (i : N) (n : nat) : list N := match n with O => [] | S k => i :: seqN (i + 1) k end.

  Lemma cname_inj : forall a b, cname a = cname b -> a = b.
  Proof. intros a b H. unfold cname in H. inversion H. apply digits_inj; auto. Qed.

  Lemma class_index_cname : forall n i c, i <= c -> c < i + N.of_nat n ->
    class_index_from (map cname (seqN i n)) i (cname c) = Some c.
  Proof.
    induction n as [|n IH]; intros i c H1 H2; [lia|]. cbn [seqN map class_index_from].
    destruct (list_eqb (cname i) (cname c)) eqn:E.
    - apply list_eqb_spec in E. apply cname_inj in E. congruence.
    - apply IH; [|lia]. destruct (N.eq_dec i c) as [X|X]; [subst; rewrite list_eqb_refl in E; discriminate|lia].
  Qed.

  Lemma classes_of_cnames : forall k cs, Forall (fun c => c <= N.of_nat k) cs ->
    classes_of (map cname (seqN 1 k)) (map cls_name cs) = Some cs.
  Proof.
    intros k. induction cs as [|c cs IH]; intros H; [reflexivity|]. inversion H; subst.
    cbn [map classes_of]. rewrite IH by auto. unfold class_of, cls_name.
    destruct (c =? 0) eqn:E0.
    - cbn [is_nil]. apply N.eqb_eq in E0. subst. reflexivity.
    - unfold cname at 1. cbn [is_nil]. rewrite class_index_cname by lia. reflexivity.
  Qed.

  Lemma ctx2_toks_false : forall e mm l,
    ctx2_toks (e :: mm) false l = t_comma l :: ctx2_toks (e :: mm) true l.
  Proof. intros [g [i a]] mm l. reflexivity. Qed.

  Definition crule_ok (k : nat) (e : N * (list N * actions)) : Prop :=
    Forall (fun c => c <= N.of_nat k) (fst e :: fst (snd e)) /\ acts_ok (snd (snd e)) = true.

  Lemma class_toks_len : forall cs l, (length cs <= length (concat (map (fun x => class_toks x l) cs)))%nat.
  Proof.
    induction cs as [|c cs IH]; intros l; cbn [map concat length]; [lia|]. rewrite app_length.
    specialize (IH l).
    assert (X : (1 <= length (class_toks c l))%nat) by (unfold class_toks; destruct (c =? 0); cbn; lia). lia.
  Qed.

  Lemma ctx2_loop_ok : forall mm k l fuel data t0 rest,
    mm <> [] -> Forall (crule_ok k) mm -> ends_list t0 = true ->
    (length (ctx2_toks mm true l ++ t0 :: rest) < fuel)%nat ->
    ctx2_loop endl fuel (map cname (seqN 1 k)) data (ctx2_toks mm true l ++ t0 :: rest)
    = POk (data ++ mm, t0 :: rest).
  Proof.
    induction mm as [|[c [inp acts]] mm IH]; intros k l fuel data t0 rest Hn Hm Ht Hf; [congruence|].
    destruct fuel as [|f]; [cbn in Hf; lia|].
    destruct (ends_list_props _ Ht) as (Hstop & Hnc & Hne). pose proof (ends_list_not_int _ Ht) as Hni.
    inversion Hm as [|? ? Hk Hmm]; subst. destruct Hk as [Hk Ho]. cbn [fst snd] in Hk, Ho.
    cbn [ctx2_toks app ctx2_loop]. rewrite <- !app_assoc. cbn [app].
    unfold bind at 1.
    rewrite (read_class_names_ok (c :: inp) l (S f) [] (t_arrow l)); try reflexivity;
      [|pose proof (class_toks_len (c :: inp) l) as Hcl; clear - Hf Hcl; cbn [ctx2_toks] in Hf; fuel_tac].
    unfold bind at 1. rewrite required_hit by reflexivity.
    unfold bind at 1. cbn [app map is_nil].
    assert (Ecl : classes_of (map cname (seqN 1 k)) (cls_name c :: map cls_name inp) = Some (c :: inp))
      by (apply (classes_of_cnames k (c :: inp)); exact Hk).
    destruct mm as [|e' mm'].
    - cbn [ctx2_toks app]. rewrite app_nil_r.
      rewrite read_nested_exact; auto; [|clear - Hf; cbn [ctx2_toks] in Hf; fuel_tac].
      rewrite Ecl. unfold bind at 1. rewrite optional_miss by auto. reflexivity.
    - rewrite ctx2_toks_false. cbn [app]. rewrite <- app_assoc. cbn [app].
      rewrite read_nested_exact; auto; [|clear - Hf; cbn [ctx2_toks] in Hf; fuel_tac].
      rewrite Ecl. unfold bind at 1. rewrite optional_hit by reflexivity.
      unfold bind at 1.
      assert (Hopt : forall ts, optional endl TEOL (ctx2_toks (e' :: mm') true l ++ ts)
                                = POk (false, ctx2_toks (e' :: mm') true l ++ ts)).
      { intros ts. destruct e' as [c' [i' a']]. cbn [ctx2_toks app map concat].
        assert (Hc : exists r', class_toks c' l = t_colon l :: r')
          by (unfold class_toks; destruct (c' =? 0); eauto).
        destruct Hc as (r' & Ec). rewrite Ec. cbn [app]. apply optional_miss; reflexivity. }
      rewrite Hopt.
      replace (data ++ (c, (inp, acts)) :: e' :: mm') with ((data ++ [(c, (inp, acts))]) ++ e' :: mm')
        by (rewrite <- app_assoc; reflexivity).
      apply IH; auto; [discriminate|].
      clear - Hf. destruct e' as [c' [i' a']]. cbn [ctx2_toks] in *. fuel_tac.
  Qed.

  (* ---- GSUB5, format 3: coverage sets up to "->" ---- *)
  Lemma ctx3_sets_ok : forall sets l fuel acc rest,
    sets <> [] -> Forall (fun s => ascending s /\ gids_ok F s = true) sets ->
    (length (concat (map (fun s => gs_toks U F s l) sets)) < fuel)%nat ->
    ctx3_sets F endl fuel acc (concat (map (fun s => gs_toks U F s l) sets) ++ t_arrow l :: rest)
    = POk (acc ++ sets, rest).
  Proof.
    induction sets as [|s sets IH]; intros l fuel acc rest Hn Hs Hf; [congruence|].
    destruct fuel as [|f]; [cbn in Hf; lia|].
    inversion Hs as [|? ? H1 H2]; subst. destruct H1 as [Ha Hg].
    cbn [map concat ctx3_sets]. rewrite <- app_assoc.
    unfold bind at 1. rewrite rgs_ok; auto; [|clear - Hf; cbn [map concat] in Hf; unfold gs_toks in Hf; fuel_tac].
    destruct sets as [|s' sets'].
    - cbn [map concat app]. unfold bind at 1. rewrite optional_hit by reflexivity. reflexivity.
    - cbn [map concat]. unfold gs_toks at 1. cbn [app].
      unfold bind at 1. rewrite optional_miss by reflexivity.
      change (tk TLBr [91] l :: (gl_toks U F s' l ++ [tk TRBr [93] l]) ++ concat (map (fun s0 => gs_toks U F s0 l) sets') ++ t_arrow l :: rest)
        with ((gs_toks U F s' l ++ concat (map (fun s0 => gs_toks U F s0 l) sets')) ++ t_arrow l :: rest).
      replace (acc ++ s :: s' :: sets') with ((acc ++ [s]) ++ s' :: sets') by (rewrite <- app_assoc; reflexivity).
      apply (IH l f (acc ++ [s]) rest); auto; [discriminate|].
      clear - Hf. cbn [map concat] in *. unfold gs_toks in Hf at 1. fuel_tac.
  Qed.

  (* ---- GSUB5: class definitions ---- *)
  Lemma seqN_snoc : forall n i, seqN i (S n) = seqN i n ++ [i + N.of_nat n].
  Proof.
    induction n as [|n IH]; intros i.
    - cbn. rewrite N.add_0_r. reflexivity.
    - change (seqN i (S (S n))) with (i :: seqN (i + 1) (S n)). rewrite IH. cbn [seqN app].
      f_equal. f_equal. f_equal. lia.
  Qed.

  Lemma cname_fresh : forall n i c, i + N.of_nat n <= c ->
    existsb (list_eqb (cname c)) (map cname (seqN i n)) = false.
  Proof.
    induction n as [|n IH]; intros i c H; [reflexivity|]. cbn [seqN map existsb].
    rewrite IH by lia. rewrite list_eqb_neq; [reflexivity|]. intros E. apply cname_inj in E. lia.
  Qed.

  Lemma nodupN_app_disjoint : forall a b, nodupN (a ++ b) = true ->
    forall g, In g b -> existsb (N.eqb g) a = false.
  Proof.
    induction a as [|x a IH]; intros b H g Hg; [reflexivity|].
    cbn [app nodupN] in H. apply andb_true_iff in H. destruct H as [H1 H2].
    cbn [existsb]. rewrite (IH b H2 g Hg). apply negb_true_iff in H1.
    destruct (g =? x) eqn:E; [|reflexivity]. apply N.eqb_eq in E. subst.
    assert (X : existsb (N.eqb x) (a ++ b) = true).
    { apply existsb_exists. exists x. split; [apply in_or_app; right; auto|apply N.eqb_refl]. }
    congruence.
  Qed.

  Lemma nodupN_app_l : forall a b, nodupN (a ++ b) = true -> nodupN a = true.
  Proof.
    induction a as [|x a IH]; intros b H; [reflexivity|].
    cbn [app nodupN] in *. apply andb_true_iff in H. destruct H as [H1 H2].
    rewrite (IH b H2), andb_true_r. apply negb_true_iff in H1. apply negb_true_iff.
    destruct (existsb (N.eqb x) a) eqn:E; [|reflexivity].
    apply existsb_exists in E. destruct E as (y & Hy & Ey).
    assert (X : existsb (N.eqb x) (a ++ b) = true).
    { apply existsb_exists. exists y. split; [apply in_or_app; left; auto|auto]. }
    congruence.
  Qed.

  Definition class_ok (gl : list N) : Prop := gl <> [] /\ ascending gl /\ gids_ok F gl = true.

  Lemma seqctx_classes : forall post pre l fu subs X,
    Forall class_ok post ->
    nodupN (concat (pre ++ post)) = true ->
    (length (defcls_toks U F k_class post (N.of_nat (length pre) + 1) l) <= length post + fu)%nat ->
    seqctx_loop F endl (length post + fu) (map cname (seqN 1 (length pre))) pre subs
      (defcls_toks U F k_class post (N.of_nat (length pre) + 1) l ++ X)
    = seqctx_loop F endl fu (map cname (seqN 1 (length pre + length post))) (pre ++ post) subs
        X.
  Proof.
    induction post as [|gl post IH]; intros pre l fu subs X Hc Hd Hf.
    - cbn [length defcls_toks app]. rewrite Nat.add_0_r, app_nil_r. reflexivity.
    - inversion Hc as [|? ? Hg Hc']; subst. destruct Hg as (Hn & Ha & Hg).
      cbn [length defcls_toks]. rewrite <- !app_assoc. cbn [app plus seqctx_loop].
      unfold bind at 1. unfold peek, bind at 1. cbn [read]. unfold bind at 1.
      rewrite unread_cons by reflexivity. unfold ret at 1.
      change (is_ident (tk TIdent k_class l) k_class) with true. cbv iota.
      unfold bind at 1. unfold parse_class_def.
      unfold bind at 1. rewrite read_identifier_hit.
      unfold bind at 1. rewrite required_hit by reflexivity.
      unfold bind at 1. rewrite read_identifier_hit.
      unfold bind at 1. rewrite required_hit by reflexivity.
      unfold bind at 1. rewrite optional_hit by reflexivity.
      unfold bind at 1. rewrite rgs_ok; auto;
        [|clear - Hf; cbn [defcls_toks] in Hf; unfold gs_toks in Hf; fuel_tac].
      destruct gl as [|g0 gl']; [congruence|]. cbn [is_nil]. unfold ret at 1. cbn [fst snd].
      rewrite cname_fresh by lia.
      assert (Eov : existsb (fun g => existsb (N.eqb g) (concat pre)) (g0 :: gl') = false).
      { destruct (existsb _ (g0 :: gl')) eqn:E; [|reflexivity]. apply existsb_exists in E.
        destruct E as (g & Hin & Eg). rewrite concat_app in Hd. cbn [concat] in Hd. rewrite app_assoc in Hd.
        apply nodupN_app_l in Hd. rewrite (nodupN_app_disjoint _ _ Hd g Hin) in Eg. discriminate. }
      rewrite Eov. unfold bind at 1. rewrite optional_hit by reflexivity.
      replace (map cname (seqN 1 (length pre)) ++ [cname (N.of_nat (length pre) + 1)])
        with (map cname (seqN 1 (length (pre ++ [g0 :: gl'])))).
      2:{ rewrite app_length. cbn [length]. rewrite Nat.add_1_r. rewrite seqN_snoc, map_app. cbn [map].
          f_equal. f_equal. f_equal. lia. }
      replace (N.of_nat (length pre) + 1 + 1) with (N.of_nat (length (pre ++ [g0 :: gl'])) + 1)
        by (rewrite app_length; cbn [length]; lia).
      rewrite (IH (pre ++ [g0 :: gl']) (l + 1) fu subs X); auto.
      + rewrite app_length. cbn [length]. rewrite <- app_assoc. cbn [app].
        replace (length pre + 1 + length post)%nat with (length pre + S (length post))%nat by lia. reflexivity.
      + rewrite <- app_assoc. exact Hd.
      + clear - Hf. cbn [defcls_toks] in Hf. rewrite app_length. cbn [length].
        replace (N.of_nat (length pre + 1) + 1) with (N.of_nat (length pre) + 1 + 1) by lia. fuel_tac.
  Qed.

  (* ---- GSUB5: one subtable, then the list ---- *)
  Hypothesis HK : no_class_names F = true.

  Lemma raw_name_not_class : forall g, raw_name F g <> k_class.
  Proof.
    intros g E. unfold raw_name in E. unfold no_class_names in HK. rewrite forallb_forall in HK.
    destruct (nth_in_or_default (N.to_nat g) (f_names F) []) as [Hin|Hd].
    - specialize (HK _ Hin). rewrite E in HK. rewrite list_eqb_refl in HK. discriminate.
    - rewrite Hd in E. discriminate.
  Qed.

  Lemma name_tok_not_class : forall g l, is_ident (name_tok F g l) k_class = false.
  Proof.
    intros g l. unfold name_tok. destruct (is_nil (raw_name F g)); [reflexivity|].
    unfold is_ident. cbn [ttyp tval ityp_eqb andb]. apply list_eqb_neq. apply raw_name_not_class.
  Qed.

  Lemma glyph_tok_not_class : forall g l, is_ident (glyph_tok U F g l) k_class = false.
  Proof.
    intros g l. unfold glyph_tok. destruct (list_eqb _ _); [apply name_tok_not_class|].
    destruct (negb _); [reflexivity|apply name_tok_not_class].
  Qed.

  (* the first item of a glyph list: a glyph, never a keyword, "/" or "[" *)
  Lemma gl_toks_head' : forall g gs l, exists t ts, gl_toks U F (g :: gs) l = t :: ts /\
    after_flags t = true /\ is_ident t k_class = false /\
    ityp_eqb (ttyp t) TSlash = false /\ ityp_eqb (ttyp t) TLBr = false.
  Proof.
    intros g gs l. destruct gs as [|g' gs].
    - cbn. eexists. eexists. split; [reflexivity|]. split; [apply after_flags_glyph_tok|].
      split; [apply glyph_tok_not_class|]. destruct (glyph_tok_typ g l) as [E|[E|E]]; rewrite E; auto.
    - unfold gl_toks. cbv beta iota. destruct (forallb _ _).
      + eexists. eexists. repeat split; reflexivity.
      + cbn [map]. eexists. eexists. split; [reflexivity|]. split; [apply after_flags_name_tok|].
        split; [apply name_tok_not_class|]. destruct (name_tok_typ g l) as [E|E]; rewrite E; auto.
  Qed.

  Definition nclasses (c : ctx_sub) : nat :=
    match c with SeqCtx2 _ classes _ => length classes | _ => 0%nat end.

  Lemma defcls_len : forall kw classes i l, (length classes <= length (defcls_toks U F kw classes i l))%nat.
  Proof.
    intros kw classes. induction classes as [|gl r IH]; intros i l; cbn [defcls_toks length]; [lia|].
    rewrite !app_length. specialize (IH (i + 1) (l + 1)). cbn [length]. lia.
  Qed.

  Lemma nclasses_len : forall c l, (nclasses c <= length (ctx_toks U F c l))%nat.
  Proof.
    intros [cov rules|cov classes rules|input acts] l; cbn [nclasses]; try lia.
    unfold ctx_toks. rewrite app_length. pose proof (defcls_len k_class classes 1 l). lia.
  Qed.

  Definition ctx_cont (fu : nat) (subs : list subtable) (c : ctx_sub) : P (list subtable) :=
    b <- optional endl TOr ;;
    if b then (optional endl TEOL ;;; seqctx_loop F endl fu [] [] (subs ++ [Ctx c])) else ret (subs ++ [Ctx c]).

  Ltac split_wf' H := repeat (apply andb_true_iff in H; destruct H as [H ?]).

  Lemma seqctx_step : forall c l fu subs t1 rest,
    ctx_wf F c = true -> ends_list t1 = true ->
    (length (ctx_toks U F c l ++ t1 :: rest) < nclasses c + S fu)%nat ->
    seqctx_loop F endl (nclasses c + S fu) [] [] subs (ctx_toks U F c l ++ t1 :: rest)
    = ctx_cont fu subs c (t1 :: rest).
  Proof.
    intros c l fu subs t1 rest W Ht Hf.
    destruct (ends_list_props _ Ht) as (Hstop & Hnc & Hne). pose proof (ends_list_not_int _ Ht) as Hni.
    destruct c as [cov rules|cov classes rules|input acts]; cbn [ctx_wf] in W; split_wf' W;
      cbn [nclasses plus] in *; unfold ctx_toks in *.
    - (* format 1 *)
      assert (Ha : ascending cov) by (apply ascendingb_spec; assumption).
      assert (Hc : Forall (fun g => g < num_glyphs F) cov) by (apply gids_ok_forall; assumption).
      assert (Hl : length cov = length rules) by (apply Nat.eqb_eq; assumption).
      match goal with Hx : forallb _ rules = true |- _ => apply forallb_Forall in Hx; rename Hx into W0 end.
      assert (Hne' : Forall (fun r => r <> []) rules).
      { eapply Forall_impl; [|exact W0]. cbn. intros a Hx. apply andb_true_iff in Hx. destruct Hx as [X _].
        destruct a; [discriminate|congruence]. }
      rewrite flat_rules_groups in *.
      assert (Hgn : exists g inp acts mm, groups cov rules = (g, (inp, acts)) :: mm).
      { destruct cov as [|g cov']; [discriminate|]. destruct rules as [|r rules']; [discriminate|].
        inversion Hne'; subst. destruct r as [|[i a] r']; [congruence|]. rewrite groups_cons. cbn. eauto. }
      destruct Hgn as (g & inp & acts & mm & Eg).
      assert (Hall : Forall ctx_rule_ok (groups cov rules)).
      { apply Forall_forall. intros [key [i a]] Hin. unfold groups in Hin.
        apply in_concat in Hin. destruct Hin as (grp & Hgrp & Hin). apply in_map_iff in Hgrp.
        destruct Hgrp as ([k ls] & E & Hcb). subst grp. cbn [fst snd] in Hin.
        apply in_map_iff in Hin. destruct Hin as (lg & E & Hlg). inversion E; subst; clear E.
        pose proof (in_combine_l _ _ _ _ Hcb) as Hk. pose proof (in_combine_r _ _ _ _ Hcb) as Hls.
        rewrite Forall_forall in Hc, W0. specialize (Hc _ Hk). specialize (W0 _ Hls). cbn in W0.
        apply andb_true_iff in W0. destruct W0 as [_ W0]. rewrite forallb_forall in W0.
        specialize (W0 _ Hlg). apply andb_true_iff in W0. destruct W0 as [Wa Wb]. cbn [fst snd] in Wa, Wb.
        split; cbn [fst snd]; auto. unfold gids_ok in *. cbn [forallb]. rewrite Wa.
        assert (E : (key <? num_glyphs F) = true) by lia. rewrite E. reflexivity. }
      cbn [seqctx_loop].
      assert (Eh : exists t ts, ctx1_toks U F (groups cov rules) true l ++ t1 :: rest = t :: ts /\
                   ityp_eqb (ttyp t) TEOF = false /\ is_ident t k_class = false /\
                   ityp_eqb (ttyp t) TSlash = false /\ ityp_eqb (ttyp t) TLBr = false).
      { rewrite Eg. cbn [ctx1_toks app]. destruct (gl_toks_head' g inp l) as (t & ts & E & A & B & C & D).
        rewrite E. cbn [app]. exists t. eexists. split; [reflexivity|].
        destruct (after_flags_props _ A). auto. }
      destruct Eh as (t & ts & Et & E1 & E2 & E3 & E4). rewrite Et.
      unfold bind at 1. unfold peek, bind at 1. cbn [read]. unfold bind at 1.
      rewrite unread_cons by auto. unfold ret at 1. rewrite E2, E3, E4. rewrite <- Et.
      unfold bind at 1. unfold bind at 1.
      rewrite (ctx1_loop_ok (groups cov rules) l (S fu) [] t1 rest); auto; [|rewrite Eg; discriminate].
      cbn [app]. unfold ret at 1. cbv zeta. unfold build_cov.
      destruct (groups_keys cov rules Ha Hl Hne') as [K1 K2]. rewrite K1, K2.
      rewrite vals_of_groups by auto. reflexivity.
    - (* format 2 *)
      assert (Ha : ascending cov) by (apply ascendingb_spec; assumption).
      match goal with Hx : (length rules =? S (length classes))%nat = true |- _ => apply Nat.eqb_eq in Hx; rename Hx into Hlr end.
      match goal with Hx : forallb _ classes = true |- _ => apply forallb_Forall in Hx; rename Hx into Wc end.
      assert (Hcl : Forall class_ok classes).
      { eapply Forall_impl; [|exact Wc]. cbn. intros a Hx. split_wf' Hx. repeat split; auto.
        - destruct a; [discriminate|congruence].
        - apply ascendingb_spec; auto. }
      set (k := length classes) in *.
      set (l' := l + N.of_nat k) in *.
      set (mm := flat_rules (index_from 0 rules)) in *.
      assert (Hmne : mm <> []).
      { match goal with Hx : negb (is_nil (concat rules)) = true |- _ => rename Hx into Hn end.
        unfold mm. clear - Hn. generalize 0. induction rules as [|rs r IH]; intros i; [discriminate|].
        cbn [index_from]. unfold flat_rules. cbn [map concat fst snd]. destruct rs as [|x rs'].
        - cbn [map app]. apply IH. exact Hn.
        - discriminate. }
      assert (Hmm : Forall (crule_ok k) mm).
      { match goal with Hx : forallb (forallb _) rules = true |- _ => rename Hx into Wr end.
        unfold mm. apply Forall_forall. intros [c [i a]] Hin. unfold flat_rules in Hin.
        apply in_concat in Hin. destruct Hin as (grp & Hgrp & Hin). apply in_map_iff in Hgrp.
        destruct Hgrp as ([c' rs] & E & Hidx). subst grp. cbn [fst snd] in Hin.
        apply in_map_iff in Hin. destruct Hin as (r & E & Hr). inversion E; subst; clear E.
        assert (Hrs : In rs rules /\ c < N.of_nat (length rules)).
        { clear - Hidx. assert (G : forall j, In (c, rs) (index_from j rules) -> In rs rules /\ j <= c /\ c < j + N.of_nat (length rules)).
          { clear. induction rules as [|x r IH]; intros j Hj; [contradiction|]. cbn [index_from] in Hj. destruct Hj as [Hj|Hj].
            - inversion Hj; subst. split; [left; auto|cbn [length]; lia].
            - destruct (IH (j + 1) Hj) as (A & B & C). split; [right; auto|cbn [length]; lia]. }
          destruct (G 0 Hidx) as (A & B & C). split; auto. }
        destruct Hrs as [Hrs Hcl']. rewrite forallb_forall in Wr. specialize (Wr _ Hrs).
        rewrite forallb_forall in Wr. specialize (Wr _ Hr). apply andb_true_iff in Wr. destruct Wr as [Wa Wb].
        cbn [fst snd] in *. split; [|exact Wb]. constructor.
        { rewrite Hlr in Hcl'. cbn [fst]. lia. }
        apply forallb_Forall in Wa. eapply Forall_impl; [|exact Wa]. cbn. intros x Hx. lia. }
      rewrite <- !app_assoc in *. cbn [app] in *.
      pose proof (seqctx_classes classes [] l (S fu) subs
                    (t_slash l' :: gl_toks U F cov l' ++ t_slash l' :: ctx2_toks mm true l' ++ t1 :: rest)) as Hcls.
      cbn [length app seqN map] in Hcls. change (N.of_nat 0 + 1) with 1 in Hcls. fold k in Hcls.
      rewrite Hcls; auto; [|clear - Hf; pose proof (defcls_len k_class classes 1 l); fuel_tac].
      clear Hcls. cbn [plus seqctx_loop].
      unfold bind at 1. unfold peek, bind at 1. cbn [read]. unfold bind at 1.
      rewrite unread_cons by reflexivity. unfold ret at 1.
      change (is_ident (t_slash l') k_class) with false. cbn [ttyp t_slash ityp_eqb].
      unfold bind at 1. unfold bind at 1. rewrite required_hit by reflexivity.
      unfold bind at 1.
      rewrite (rgl_gl cov l' (S fu) (t_slash l')); auto;
        [|clear - Hf; pose proof (defcls_len k_class classes 1 l); fuel_tac].
      unfold bind at 1. rewrite required_hit by reflexivity.
      unfold bind at 1.
      rewrite (ctx2_loop_ok mm k l' (S fu) [] t1 rest); auto;
        [|clear - Hf; pose proof (defcls_len k_class classes 1 l); fuel_tac].
      cbn [app]. unfold ret at 1. rewrite sort_uniq_ascending by auto.
      rewrite map_length.
      assert (Esl : forall n i, length (seqN i n) = n) by (induction n; intros; cbn; auto).
      rewrite Esl. fold k. rewrite <- Hlr.
      assert (Ev : map (fun c => vals_of (N.of_nat c) mm) (seq 0 (length rules)) = rules).
      { rewrite <- (vals_of_index rules 0) at 2. apply map_ext. intros c. rewrite N.add_0_l. reflexivity. }
      rewrite Ev. reflexivity.
    - (* format 3 *)
      match goal with Hx : forallb _ input = true |- _ => apply forallb_Forall in Hx; rename Hx into Wi end.
      assert (Hs : Forall (fun s => ascending s /\ gids_ok F s = true) input).
      { eapply Forall_impl; [|exact Wi]. cbn. intros a Hx. apply andb_true_iff in Hx. destruct Hx.
        split; auto. apply ascendingb_spec; auto. }
      assert (Hn : input <> []) by (destruct input; [discriminate|congruence]).
      rewrite <- !app_assoc in *. cbn [app seqctx_loop] in *.
      assert (Eh : exists ts, concat (map (fun s => gs_toks U F s l) input) ++ t_arrow l :: nested_toks acts l ++ t1 :: rest
                              = tk TLBr [91] l :: ts).
      { destruct input as [|s r]; [congruence|]. cbn [map concat]. unfold gs_toks at 1. cbn [app]. eauto. }
      destruct Eh as (ts & Et). rewrite Et.
      unfold bind at 1. unfold peek, bind at 1. cbn [read]. unfold bind at 1.
      rewrite unread_cons by reflexivity. unfold ret at 1.
      change (is_ident (tk TLBr [91] l) k_class) with false. cbn [ttyp ityp_eqb]. rewrite <- Et.
      unfold bind at 1. unfold bind at 1.
      rewrite ctx3_sets_ok; auto; [|clear - Hf; fuel_tac].
      cbn [app]. unfold bind at 1.
      rewrite read_nested_exact; auto; try (clear - Hf; fuel_tac).
  Qed.

  (* ---- parse(): whole descriptions ---- *)
  Lemma ends_list_eol : forall l, ends_list (tk TEOL [10] l) = true.
  Proof. reflexivity. Qed.

  Lemma gsub_one_old : forall lk l fu acc t0 rest,
    gsub_lookup_wf F lk = true -> ends_list t0 = true ->
    (length (lookup_toks U F k_GSUB lk l ++ t0 :: rest) < S (S fu))%nat ->
    parse_loop F endl (S (S fu)) acc (lookup_toks U F k_GSUB lk l ++ t0 :: rest)
    = parse_loop F endl (S fu) (acc ++ [lk]) (t0 :: rest).
  Proof.
    intros lk l fu acc t0 rest Hlk Ht Hf.
    unfold gsub_lookup_wf in Hlk. apply andb_true_iff in Hlk. destruct Hlk as [Hfl Hlk].
    destruct lk as [ty fl subs]. cbn [l_type l_flags l_subs] in *.
    destruct subs as [|s [|s' subs']]; try discriminate.
    split_wf Hlk.
    match goal with Hx : (sub_type s =? ty) = true |- _ => apply N.eqb_eq in Hx; subst ty end.
    assert (Hwf : sub_wf F s = true) by assumption.
    unfold lookup_toks, hdr_toks in *.
    cbn [l_subs l_type l_flags subs_toks app] in *.
    rewrite <- !app_assoc in *. cbn [app] in *.
    destruct s as [p|h|c|cov delta|cov subst|cov repl|cov alts|cov repl|cov adj|cov adj]; try discriminate;
      cbn [sub_type sub_toksp] in *; cbn [parse_loop]; unfold bind at 1; cbn [read ttyp tval];
      [ change (list_eqb (k_GSUB ++ digits 1) k_GSUB1) with true
      | change (list_eqb (k_GSUB ++ digits 1) k_GSUB1) with true
      | change (list_eqb (k_GSUB ++ digits 2) k_GSUB1) with false;
        change (list_eqb (k_GSUB ++ digits 2) k_GSUB2) with true
      | change (list_eqb (k_GSUB ++ digits 3) k_GSUB1) with false;
        change (list_eqb (k_GSUB ++ digits 3) k_GSUB2) with false;
        change (list_eqb (k_GSUB ++ digits 3) k_GSUB3) with true
      | change (list_eqb (k_GSUB ++ digits 4) k_GSUB1) with false;
        change (list_eqb (k_GSUB ++ digits 4) k_GSUB2) with false;
        change (list_eqb (k_GSUB ++ digits 4) k_GSUB3) with false;
        change (list_eqb (k_GSUB ++ digits 4) k_GSUB4) with true ];
      cbv iota; unfold bind at 1.
    + rewrite read_gsub1_1_ok; auto. clear - Hf. fuel_tac.
    + rewrite read_gsub1_2_ok; auto. clear - Hf. fuel_tac.
    + rewrite read_gsub2_ok; auto. clear - Hf. fuel_tac.
    + rewrite read_gsub3_ok; auto. clear - Hf. fuel_tac.
    + rewrite read_gsub4_ok; auto. clear - Hf. fuel_tac.
  Qed.

  (* a list of lookups, each parsed by `one` *)
  Lemma lookup_toks_len : forall kw lk l, l_subs lk <> [] -> (2 <= length (lookup_toks U F kw lk l))%nat.
  Proof.
    intros kw lk l H. unfold lookup_toks. destruct (l_subs lk) as [|s r]; [congruence|].
    cbn [subs_toks]. unfold hdr_toks. cbn [app length]. lia.
  Qed.

  Lemma gsub_list_ok : forall (wf : lookup -> Prop),
    (forall lk, wf lk -> l_subs lk <> []) ->
    (forall (lk : lookup) (l : N) (fu : nat) (acc : list lookup) (lx : N) (rest : list token), wf lk ->
       (length (lookup_toks U F k_GSUB lk l ++ tk TEOL [10%N] lx :: rest) < S (S fu))%nat ->
       parse_loop F endl (S (S fu)) acc (lookup_toks U F k_GSUB lk l ++ tk TEOL [10] lx :: rest)
       = parse_loop F endl (S fu) (acc ++ [lk]) (tk TEOL [10] lx :: rest)) ->
    forall ll l fuel acc e, Forall wf ll ->
    (length (gsub_toks U F ll l ++ [tk TEOF [] e]) < fuel)%nat ->
    parse_loop F endl fuel acc (gsub_toks U F ll l ++ [tk TEOF [] e]) = POk (acc ++ ll, []).
  Proof.
    intros wf Hne Hone. induction ll as [|lk r IH]; intros l fuel acc e H Hf.
    - destruct fuel; [cbn in Hf; lia|]. cbn. rewrite app_nil_r. reflexivity.
    - inversion H as [|? ? Hlk Hr]; subst.
      destruct fuel as [|[|fu]]; try (cbn in Hf; fuel_tac).
      cbn [gsub_toks] in *. rewrite <- !app_assoc in *. cbn [app] in *.
      rewrite Hone; [|exact Hlk|clear - Hf; fuel_tac].
      destruct fu as [|fu']; [exfalso; clear - Hf; fuel_tac|].
      change (parse_loop F endl (S (S fu')) (acc ++ [lk])
                (tk TEOL [10] (l + subs_dl (l_subs lk)) :: gsub_toks U F r (l + subs_dl (l_subs lk) + 1) ++ [tk TEOF [] e]))
        with (parse_loop F endl (S fu') (acc ++ [lk]) (gsub_toks U F r (l + subs_dl (l_subs lk) + 1) ++ [tk TEOF [] e])).
      rewrite IH; auto; [rewrite <- app_assoc; reflexivity|].
      pose proof (lookup_toks_len k_GSUB lk l (Hne lk Hlk)) as Hl2. clear - Hf Hl2. fuel_tac.
  Qed.

  Lemma gsub_parse_ok : forall ll l fuel acc e,
    Forall (fun lk => gsub_lookup_wf F lk = true) ll ->
    (length (gsub_toks U F ll l ++ [tk TEOF [] e]) < fuel)%nat ->
    parse_loop F endl fuel acc (gsub_toks U F ll l ++ [tk TEOF [] e]) = POk (acc ++ ll, []).
  Proof.
    apply (gsub_list_ok (fun lk => gsub_lookup_wf F lk = true)).
    - intros lk H E. unfold gsub_lookup_wf in H. rewrite E in H. rewrite andb_false_r in H. discriminate.
    - intros. apply gsub_one_old; auto.
  Qed.

  (* ---- GSUB5 lookups ---- *)
  Lemma ctx_toks_head : forall c l, ctx_wf F c = true ->
    exists t ts, ctx_toks U F c l = t :: ts /\ after_flags t = true.
  Proof.
    intros c l W. destruct c as [cov rules|cov classes rules|input acts]; cbn [ctx_wf] in W; split_wf' W;
      unfold ctx_toks.
    - match goal with Hx : forallb _ rules = true |- _ => apply forallb_Forall in Hx; rename Hx into W0 end.
      destruct cov as [|g cov']; [discriminate|]. destruct rules as [|r rules']; [discriminate|].
      inversion W0 as [|? ? Hr _]; subst. apply andb_true_iff in Hr. destruct Hr as [Hr _].
      destruct r as [|[i a] r']; [discriminate|]. cbn [combine]. unfold flat_rules. cbn [map concat fst snd app ctx1_toks].
      destruct (gl_toks_head g i l) as (t & ts & E & A). rewrite E. cbn [app]. eauto.
    - destruct classes as [|gl r]; cbn [defcls_toks app]; eexists; eexists; split; reflexivity.
    - destruct input as [|s r]; [discriminate|]. cbn [map concat]. unfold gs_toks at 1. cbn [app].
      eexists. eexists. split; reflexivity.
  Qed.

  Lemma seqctx_loop_ok : forall cs hdr c l fuel acc t0 rest,
    Forall (fun c => ctx_wf F c = true) (c :: cs) ->
    ends_list t0 = true -> ityp_eqb (ttyp t0) TOr = false ->
    (length (ctx_toks U F c l ++ subs_toks U F hdr (map Ctx cs) false (l + ctx_dl c) ++ t0 :: rest) < fuel)%nat ->
    seqctx_loop F endl fuel [] [] acc (ctx_toks U F c l ++ subs_toks U F hdr (map Ctx cs) false (l + ctx_dl c) ++ t0 :: rest)
    = POk (acc ++ Ctx c :: map Ctx cs, t0 :: rest).
  Proof.
    induction cs as [|c' cs IH]; intros hdr c l fuel acc t0 rest Hw Ht Hto Hf;
      inversion Hw as [|? ? Hc Hcs]; subst;
      pose proof (nclasses_len c l) as Hk.
    - cbn [map subs_toks app] in *.
      replace fuel with (nclasses c + S (fuel - nclasses c - 1))%nat by (clear - Hf Hk; fuel_tac).
      rewrite seqctx_step; auto; [|clear - Hf Hk; fuel_tac].
      unfold ctx_cont. unfold bind at 1. destruct (ends_list_props _ Ht) as (A & B & C).
      rewrite optional_miss by auto. reflexivity.
    - cbn [map subs_toks] in *. cbn [sub_toksp sub_dlp sub_toks sub_dl] in *. rewrite <- !app_assoc in *. cbn [app] in *.
      set (l0 := l + ctx_dl c) in *.
      replace fuel with (nclasses c + S (fuel - nclasses c - 1))%nat by (clear - Hf Hk; fuel_tac).
      rewrite seqctx_step; auto; [|clear - Hf Hk; fuel_tac].
      unfold ctx_cont. unfold bind at 1. rewrite optional_hit by reflexivity.
      unfold bind at 1. rewrite optional_hit by reflexivity.
      rewrite (IH hdr c' (l0 + 1) _ (acc ++ [Ctx c]) t0 rest); auto.
      + rewrite <- app_assoc. reflexivity.
      + clear - Hf Hk. fuel_tac.
  Qed.

  Lemma ctx_subs_shape : forall subs,
    forallb (fun s => match s with Ctx c => ctx_wf F c | _ => false end) subs = true ->
    exists cs, subs = map Ctx cs /\ Forall (fun c => ctx_wf F c = true) cs.
  Proof.
    induction subs as [|s r IH]; intros H.
    - exists []. split; auto.
    - cbn [forallb] in H. apply andb_true_iff in H. destruct H as [H1 H2].
      destruct (IH H2) as (cs & E & Hc). destruct s; try discriminate. exists (c :: cs). subst. split; auto.
  Qed.

  Lemma gsub_one_ctx : forall lk l fu acc t0 rest,
    ctx_lookup_wf F lk = true -> ends_list t0 = true -> ityp_eqb (ttyp t0) TOr = false ->
    (length (lookup_toks U F k_GSUB lk l ++ t0 :: rest) < S (S fu))%nat ->
    parse_loop F endl (S (S fu)) acc (lookup_toks U F k_GSUB lk l ++ t0 :: rest)
    = parse_loop F endl (S fu) (acc ++ [lk]) (t0 :: rest).
  Proof.
    intros lk l fu acc t0 rest Hlk Ht Hto Hf.
    unfold ctx_lookup_wf in Hlk. split_wf Hlk.
    destruct lk as [ty fl subs]. cbn [l_type l_flags l_subs] in *.
    match goal with Hx : (ty =? 5) = true |- _ => apply N.eqb_eq in Hx; subst ty end.
    match goal with Hx : forallb _ subs = true |- _ => destruct (ctx_subs_shape _ Hx) as (cs & Es & Hcs) end.
    subst subs. destruct cs as [|c cs]; [discriminate|].
    unfold lookup_toks, hdr_toks in *. cbn [l_subs l_type l_flags map subs_toks sub_toksp sub_dlp sub_toks sub_dl app] in *.
    rewrite <- !app_assoc in *. cbn [app] in *.
    cbn [parse_loop]. unfold bind at 1. cbn [read ttyp tval].
    change (list_eqb (k_GSUB ++ digits 5) k_GSUB1) with false.
    change (list_eqb (k_GSUB ++ digits 5) k_GSUB2) with false.
    change (list_eqb (k_GSUB ++ digits 5) k_GSUB3) with false.
    change (list_eqb (k_GSUB ++ digits 5) k_GSUB4) with false.
    change (list_eqb (k_GSUB ++ digits 5) k_GSUB5) with true. cbv iota.
    unfold bind at 1. unfold read_seqctx. unfold bind at 1.
    inversion Hcs as [|? ? Hc _]; subst.
    rewrite header_ok'; auto; [| |clear - Hf; fuel_tac].
    2:{ destruct (ctx_toks_head c l Hc) as (t & ts & E & A). rewrite E. cbn [app]. eauto. }
    unfold bind at 1.
    rewrite (seqctx_loop_ok cs _ c l (S (S fu)) [] t0 rest); auto; try (clear - Hf; fuel_tac).
  Qed.

  Lemma gsub5_parse_ok : forall ll l fuel acc e,
    Forall (fun lk => gsub_lookup_wf5 F lk = true) ll ->
    (length (gsub_toks U F ll l ++ [tk TEOF [] e]) < fuel)%nat ->
    parse_loop F endl fuel acc (gsub_toks U F ll l ++ [tk TEOF [] e]) = POk (acc ++ ll, []).
  Proof.
    apply (gsub_list_ok (fun lk => gsub_lookup_wf5 F lk = true)).
    { intros lk H E. unfold gsub_lookup_wf5, gsub_lookup_wf, ctx_lookup_wf in H. rewrite E in H.
      cbn [is_nil negb] in H. rewrite !andb_false_r in H. discriminate. }
    intros lk l fu acc lx rest Hw Hf. unfold gsub_lookup_wf5 in Hw. apply orb_true_iff in Hw.
    destruct Hw as [Hw|Hw]; [apply gsub_one_old; auto|].
    apply gsub_one_ctx; auto.
  Qed.

  (* ================= GSUB6 ================= *)
  Hypothesis HK6 : no_chain_names F = true.

  Lemma chain_peek_nobar : forall t ts, ityp_eqb (ttyp t) TBar = false -> ityp_eqb (ttyp t) TEOF = false ->
    chain_peek endl (t :: ts) = POk ((t, ttyp t), t :: ts).
  Proof.
    intros t ts Hb He. unfold chain_peek. unfold bind at 1. cbn [read]. rewrite Hb.
    unfold bind at 1. unfold ret at 1. unfold bind at 1. rewrite unread_cons by auto. reflexivity.
  Qed.

  Lemma chain_peek_bar : forall l t2 ts, ityp_eqb (ttyp t2) TEOF = false ->
    chain_peek endl (t_bar l :: t2 :: ts) = POk ((t_bar l, ttyp t2), t_bar l :: t2 :: ts).
  Proof.
    intros l t2 ts He. unfold chain_peek. unfold bind at 1. cbn [read ttyp t_bar ityp_eqb].
    unfold bind at 1. unfold bind at 1. unfold peek, bind at 1. cbn [read]. unfold bind at 1.
    rewrite unread_cons by auto. unfold ret at 1. unfold ret at 1. unfold bind at 1.
    rewrite unread_cons by reflexivity. reflexivity.
  Qed.

  Lemma raw_name_not_chain : forall g, raw_name F g <> k_inputclass /\ raw_name F g <> k_backtrackclass
                                       /\ raw_name F g <> k_lookaheadclass.
  Proof.
    intros g. unfold raw_name. unfold no_chain_names in HK6. rewrite forallb_forall in HK6.
    destruct (nth_in_or_default (N.to_nat g) (f_names F) []) as [Hin|Hd].
    - specialize (HK6 _ Hin). repeat (apply andb_true_iff in HK6; destruct HK6 as [HK6 ?]).
      repeat match goal with H : negb _ = true |- _ => apply negb_true_iff in H end.
      repeat split; intros E; rewrite E in *; rewrite list_eqb_refl in *; discriminate.
    - rewrite Hd. repeat split; discriminate.
  Qed.

  Definition not_chain_kw (t : token) : Prop :=
    is_ident t k_inputclass = false /\ is_ident t k_backtrackclass = false /\ is_ident t k_lookaheadclass = false.

  Lemma name_tok_not_chain : forall g l, not_chain_kw (name_tok F g l).
  Proof.
    intros g l. unfold name_tok, not_chain_kw. destruct (is_nil (raw_name F g)); [repeat split; reflexivity|].
    destruct (raw_name_not_chain g) as (A & B & C).
    unfold is_ident. cbn [ttyp tval ityp_eqb andb]. repeat split; apply list_eqb_neq; auto.
  Qed.

  Lemma glyph_tok_not_chain : forall g l, not_chain_kw (glyph_tok U F g l).
  Proof.
    intros g l. unfold glyph_tok. destruct (list_eqb _ _); [apply name_tok_not_chain|].
    destruct (negb _); [repeat split; reflexivity|apply name_tok_not_chain].
  Qed.

  Lemma gl_toks_head6 : forall g gs l, exists t ts, gl_toks U F (g :: gs) l = t :: ts /\
    after_flags t = true /\ not_chain_kw t /\ ityp_eqb (ttyp t) TBar = false /\
    ityp_eqb (ttyp t) TSlash = false /\ ityp_eqb (ttyp t) TLBr = false.
  Proof.
    intros g gs l. destruct gs as [|g' gs].
    - cbn. eexists. eexists. split; [reflexivity|]. split; [apply after_flags_glyph_tok|].
      split; [apply glyph_tok_not_chain|]. destruct (glyph_tok_typ g l) as [E|[E|E]]; rewrite E; auto.
    - unfold gl_toks. cbv beta iota. destruct (forallb _ _).
      + eexists. eexists. repeat split; reflexivity.
      + cbn [map]. eexists. eexists. split; [reflexivity|]. split; [apply after_flags_name_tok|].
        split; [apply name_tok_not_chain|]. destruct (name_tok_typ g l) as [E|E]; rewrite E; auto.
  Qed.

  (* ---- format 1 ---- *)
  Definition crule1_ok (e : N * chain_rule) : Prop :=
    gids_ok F (rev (fst (fst (fst (snd e))))) = true /\ gids_ok F (fst e :: snd (fst (fst (snd e)))) = true
    /\ gids_ok F (snd (fst (snd e))) = true /\ acts_ok (snd (snd e)) = true.

  Lemma chain1_toks_false : forall e mm l,
    chain1_toks U F (e :: mm) false l = t_comma l :: chain1_toks U F (e :: mm) true l.
  Proof. intros [g [[[b i] la] a]] mm l. reflexivity. Qed.

  Lemma chain1_head : forall e mm l ts, exists t r,
    chain1_toks U F (e :: mm) true l ++ ts = t :: r /\
    ityp_eqb (ttyp t) TEOL = false /\ ityp_eqb (ttyp t) TEOF = false.
  Proof.
    intros [g [[[b i] la] a]] mm l ts. cbn [chain1_toks app].
    destruct (rev b) as [|x xs].
    - cbn [gl_toks app]. eexists. eexists. split; [reflexivity|]. split; reflexivity.
    - destruct (gl_toks_head6 x xs l) as (t & r & E & A & _). rewrite E. cbn [app].
      destruct (after_flags_props _ A). eauto.
  Qed.

  Lemma chain1_loop_ok : forall mm l fuel data t0 rest,
    mm <> [] -> Forall crule1_ok mm -> ends_list t0 = true ->
    (length (chain1_toks U F mm true l ++ t0 :: rest) < fuel)%nat ->
    chain1_loop F endl fuel data (chain1_toks U F mm true l ++ t0 :: rest) = POk (data ++ mm, t0 :: rest).
  Proof.
    induction mm as [|[g [[[bt inp] la] acts]] mm IH]; intros l fuel data t0 rest Hn Hm Ht Hf; [congruence|].
    destruct fuel as [|f]; [cbn in Hf; lia|].
    destruct (ends_list_props _ Ht) as (Hstop & Hnc & Hne). pose proof (ends_list_not_int _ Ht) as Hni.
    inversion Hm as [|? ? Hk Hmm]; subst. destruct Hk as (Hb & Hi & Hl & Ho). cbn [fst snd] in *.
    cbn [chain1_toks app chain1_loop]. repeat (progress (rewrite <- ?app_assoc; cbn [app])).
    unfold bind at 1.
    rewrite (rgl_gl (rev bt) l (S f) (t_bar l)); auto; [|clear - Hf; cbn [chain1_toks] in Hf; fuel_tac].
    unfold bind at 1. rewrite required_hit by reflexivity.
    unfold bind at 1.
    rewrite (rgl_gl (g :: inp) l (S f) (t_bar l)); auto; [|clear - Hf; cbn [chain1_toks] in Hf; fuel_tac].
    unfold bind at 1. rewrite required_hit by reflexivity.
    unfold bind at 1.
    rewrite (rgl_gl la l (S f) (t_arrow l)); auto; [|clear - Hf; cbn [chain1_toks] in Hf; fuel_tac].
    unfold bind at 1. rewrite required_hit by reflexivity.
    unfold bind at 1. rewrite rev_involutive.
    destruct mm as [|e' mm'].
    - cbn [chain1_toks app]. rewrite ?app_nil_r.
      rewrite read_nested_exact; auto; [|clear - Hf; cbn [chain1_toks] in Hf; fuel_tac].
      cbn [app]. unfold bind at 1. rewrite optional_miss by auto. reflexivity.
    - rewrite chain1_toks_false. cbn [app]. rewrite <- ?app_assoc. cbn [app].
      rewrite read_nested_exact; auto; [|clear - Hf; cbn [chain1_toks] in Hf; fuel_tac].
      cbn [app]. unfold bind at 1. rewrite optional_hit by reflexivity.
      unfold bind at 1.
      destruct (chain1_head e' mm' l (t0 :: rest)) as (th & tr & Eh & A1 & A2).
      assert (Hopt : optional endl TEOL (chain1_toks U F (e' :: mm') true l ++ t0 :: rest)
                     = POk (false, chain1_toks U F (e' :: mm') true l ++ t0 :: rest)).
      { rewrite Eh. apply optional_miss; auto. }
      rewrite Hopt.
      rewrite IH; auto; [rewrite <- app_assoc; reflexivity|discriminate|].
      clear - Hf. destruct e' as [g' [[[b' i'] l'] a']]. cbn [chain1_toks] in *. fuel_tac.
  Qed.

  (* ---- format 2 ---- *)
  Definition crule2_ok (kb ki kl : nat) (e : N * chain_rule) : Prop :=
    Forall (fun c => c <= N.of_nat kb) (rev (fst (fst (fst (snd e)))))
    /\ Forall (fun c => c <= N.of_nat ki) (fst e :: snd (fst (fst (snd e))))
    /\ Forall (fun c => c <= N.of_nat kl) (snd (fst (snd e))) /\ acts_ok (snd (snd e)) = true.

  Lemma chain2_toks_false : forall e mm l,
    chain2_toks (e :: mm) false l = t_comma l :: chain2_toks (e :: mm) true l.
  Proof. intros [g [[[b i] la] a]] mm l. reflexivity. Qed.

  Lemma chain2_head : forall e mm l ts, exists t r,
    chain2_toks (e :: mm) true l ++ ts = t :: r /\
    ityp_eqb (ttyp t) TEOL = false /\ ityp_eqb (ttyp t) TEOF = false.
  Proof.
    intros [g [[[b i] la] a]] mm l ts. cbn [chain2_toks app]. unfold cls_toks.
    destruct (rev b) as [|x xs].
    - cbn [map concat app]. eexists. eexists. split; [reflexivity|]. split; reflexivity.
    - cbn [map concat]. unfold class_toks at 1. destruct (x =? 0); cbn [app]; eexists; eexists; split; try reflexivity; split; reflexivity.
  Qed.

  Lemma cls_toks_len : forall cs l, (length cs <= length (cls_toks cs l))%nat.
  Proof. intros. apply class_toks_len. Qed.

  Lemma chain2_loop_ok : forall mm kb ki kl l fuel data t0 rest,
    mm <> [] -> Forall (crule2_ok kb ki kl) mm -> ends_list t0 = true ->
    (length (chain2_toks mm true l ++ t0 :: rest) < fuel)%nat ->
    chain2_loop endl fuel (map cname (seqN 1 kb)) (map cname (seqN 1 ki)) (map cname (seqN 1 kl)) data
      (chain2_toks mm true l ++ t0 :: rest)
    = POk (data ++ mm, t0 :: rest).
  Proof.
    induction mm as [|[c [[[bt inp] la] acts]] mm IH]; intros kb ki kl l fuel data t0 rest Hn Hm Ht Hf; [congruence|].
    destruct fuel as [|f]; [cbn in Hf; lia|].
    destruct (ends_list_props _ Ht) as (Hstop & Hnc & Hne). pose proof (ends_list_not_int _ Ht) as Hni.
    inversion Hm as [|? ? Hk Hmm]; subst. destruct Hk as (Hb & Hi & Hl & Ho). cbn [fst snd] in *.
    cbn [chain2_toks app chain2_loop]. unfold cls_toks. repeat (progress (rewrite <- ?app_assoc; cbn [app])).
    pose proof (cls_toks_len (rev bt) l) as L1. pose proof (cls_toks_len (c :: inp) l) as L2.
    pose proof (cls_toks_len la l) as L3. unfold cls_toks in L1, L2, L3.
    unfold bind at 1.
    rewrite (read_class_names_ok (rev bt) l (S f) [] (t_bar l)); try reflexivity;
      [|clear - Hf L1; cbn [chain2_toks] in Hf; unfold cls_toks in Hf; fuel_tac].
    unfold bind at 1. rewrite required_hit by reflexivity.
    unfold bind at 1.
    rewrite (read_class_names_ok (c :: inp) l (S f) [] (t_bar l)); try reflexivity;
      [|clear - Hf L2; cbn [chain2_toks] in Hf; unfold cls_toks in Hf; fuel_tac].
    unfold bind at 1. rewrite required_hit by reflexivity.
    unfold bind at 1.
    rewrite (read_class_names_ok la l (S f) [] (t_arrow l)); try reflexivity;
      [|clear - Hf L3; cbn [chain2_toks] in Hf; unfold cls_toks in Hf; fuel_tac].
    unfold bind at 1. rewrite required_hit by reflexivity.
    unfold bind at 1. cbn [app map is_nil].
    assert (E1 : classes_of (map cname (seqN 1 ki)) (cls_name c :: map cls_name inp) = Some (c :: inp))
      by (apply (classes_of_cnames ki (c :: inp)); exact Hi).
    assert (E2 : classes_of (map cname (seqN 1 kb)) (map cls_name (rev bt)) = Some (rev bt))
      by (apply classes_of_cnames; exact Hb).
    assert (E3 : classes_of (map cname (seqN 1 kl)) (map cls_name la) = Some la)
      by (apply classes_of_cnames; exact Hl).
    destruct mm as [|e' mm'].
    - cbn [chain2_toks app]. rewrite ?app_nil_r.
      rewrite read_nested_exact; auto; [|clear - Hf; cbn [chain2_toks] in Hf; fuel_tac].
      rewrite E1, E2, E3. rewrite rev_involutive. unfold bind at 1. rewrite optional_miss by auto. reflexivity.
    - rewrite chain2_toks_false. cbn [app]. rewrite <- ?app_assoc. cbn [app].
      rewrite read_nested_exact; auto; [|clear - Hf; cbn [chain2_toks] in Hf; fuel_tac].
      rewrite E1, E2, E3. rewrite rev_involutive. unfold bind at 1. rewrite optional_hit by reflexivity.
      unfold bind at 1.
      destruct (chain2_head e' mm' l (t0 :: rest)) as (th & tr & Eh & A1 & A2).
      assert (Hopt : optional endl TEOL (chain2_toks (e' :: mm') true l ++ t0 :: rest)
                     = POk (false, chain2_toks (e' :: mm') true l ++ t0 :: rest)).
      { rewrite Eh. apply optional_miss; auto. }
      rewrite Hopt.
      rewrite IH; auto; [rewrite <- app_assoc; reflexivity|discriminate|].
      clear - Hf. destruct e' as [g' [[[b' i'] l'] a']]. cbn [chain2_toks] in *. fuel_tac.
  Qed.

  (* ---- format 3 ---- *)
  Definition set_ok (s : list N) : Prop := ascending s /\ gids_ok F s = true.

  Lemma sets_until_ok : forall sets stop tstop l fuel acc rest,
    Forall set_ok sets -> ttyp tstop = stop -> ityp_eqb TLBr stop = false ->
    (length (sets_toks U F sets l) < fuel)%nat ->
    sets_until F endl fuel stop acc (sets_toks U F sets l ++ tstop :: rest) = POk (acc ++ sets, rest).
  Proof.
    induction sets as [|s sets IH]; intros stop tstop l fuel acc rest Hs Et Hst Hf;
      (destruct fuel as [|f]; [cbn in Hf; lia|]); unfold sets_toks in *.
    - cbn [map concat app sets_until]. unfold bind at 1. rewrite optional_hit.
      + rewrite app_nil_r. reflexivity.
      + rewrite Et. destruct stop; reflexivity.
    - inversion Hs as [|? ? H1 H2]; subst. destruct H1 as [Ha Hg].
      cbn [map concat sets_until]. rewrite <- app_assoc. unfold gs_toks at 1. cbn [app].
      unfold bind at 1. rewrite optional_miss; [|cbn [ttyp]; exact Hst|reflexivity].
      change (tk TLBr [91] l :: (gl_toks U F s l ++ [tk TRBr [93] l]) ++ concat (map (fun s0 => gs_toks U F s0 l) sets) ++ tstop :: rest)
        with (gs_toks U F s l ++ (concat (map (fun s0 => gs_toks U F s0 l) sets) ++ tstop :: rest)).
      unfold bind at 1. rewrite rgs_ok; auto; [|clear - Hf; cbn [map concat] in Hf; unfold gs_toks in Hf at 1; fuel_tac].
      rewrite (IH (ttyp tstop) tstop l f (acc ++ [s]) rest); auto.
      + rewrite <- app_assoc. reflexivity.
      + clear - Hf. cbn [map concat] in Hf. unfold gs_toks in Hf at 1. fuel_tac.
  Qed.

  Lemma sets_then_ok : forall sets stop tstop l fuel acc rest,
    sets <> [] -> Forall set_ok sets -> ttyp tstop = stop -> ityp_eqb TLBr stop = false ->
    (length (sets_toks U F sets l) < fuel)%nat ->
    sets_then F endl fuel stop acc (sets_toks U F sets l ++ tstop :: rest) = POk (acc ++ sets, rest).
  Proof.
    induction sets as [|s sets IH]; intros stop tstop l fuel acc rest Hn Hs Et Hst Hf; [congruence|].
    destruct fuel as [|f]; [cbn in Hf; lia|]. unfold sets_toks in *.
    inversion Hs as [|? ? H1 H2]; subst. destruct H1 as [Ha Hg].
    cbn [map concat sets_then]. rewrite <- app_assoc.
    unfold bind at 1. rewrite rgs_ok; auto; [|clear - Hf; cbn [map concat] in Hf; unfold gs_toks in Hf at 1; fuel_tac].
    destruct sets as [|s' sets'].
    - cbn [map concat app]. unfold bind at 1. rewrite optional_hit; [reflexivity|].
      destruct (ttyp tstop); reflexivity.
    - cbn [map concat]. unfold gs_toks at 1. cbn [app].
      unfold bind at 1. rewrite optional_miss; [|cbn [ttyp]; exact Hst|reflexivity].
      change (tk TLBr [91] l :: (gl_toks U F s' l ++ [tk TRBr [93] l]) ++ concat (map (fun s0 => gs_toks U F s0 l) sets') ++ tstop :: rest)
        with ((gs_toks U F s' l ++ concat (map (fun s0 => gs_toks U F s0 l) sets')) ++ tstop :: rest).
      replace (acc ++ s :: s' :: sets') with ((acc ++ [s]) ++ s' :: sets') by (rewrite <- app_assoc; reflexivity).
      apply (IH (ttyp tstop) tstop l f (acc ++ [s]) rest); auto; [discriminate|].
      clear - Hf. cbn [map concat] in *. unfold gs_toks in Hf at 1. fuel_tac.
  Qed.

  (* ---- class definitions of the three tables ---- *)
  Lemma def_class_ok : forall kw gl pre l fuel rest,
    class_ok gl -> nodupN (concat (pre ++ [gl])) = true ->
    (length (gl_toks U F gl l) < fuel)%nat ->
    def_class F endl fuel (map cname (seqN 1 (length pre)), pre)
      (tk TIdent kw l :: t_colon l :: tk TIdent (cname (N.of_nat (length pre) + 1)) l :: t_colon l
         :: tk TEqual [61] l :: gs_toks U F gl l ++ tk TEOL [10] l :: rest)
    = POk ((map cname (seqN 1 (S (length pre))), pre ++ [gl]), rest).
  Proof.
    intros kw gl pre l fuel rest (Hn & Ha & Hg) Hd Hf. unfold def_class.
    unfold bind at 1. unfold parse_class_def.
    unfold bind at 1. rewrite read_identifier_hit.
    unfold bind at 1. rewrite required_hit by reflexivity.
    unfold bind at 1. rewrite read_identifier_hit.
    unfold bind at 1. rewrite required_hit by reflexivity.
    unfold bind at 1. rewrite optional_hit by reflexivity.
    unfold bind at 1. rewrite rgs_ok; auto.
    destruct gl as [|g0 gl']; [congruence|]. cbn [is_nil]. unfold ret at 1. cbn [fst snd].
    rewrite cname_fresh by lia.
    assert (Eov : existsb (fun g => existsb (N.eqb g) (concat pre)) (g0 :: gl') = false).
    { destruct (existsb _ (g0 :: gl')) eqn:E; [|reflexivity]. apply existsb_exists in E.
      destruct E as (g & Hin & Eg). rewrite concat_app in Hd. cbn [concat] in Hd. rewrite app_nil_r in Hd.
      rewrite (nodupN_app_disjoint _ _ Hd g Hin) in Eg. discriminate. }
    rewrite Eov. unfold bind at 1. rewrite optional_hit by reflexivity. unfold ret.
    rewrite seqN_snoc, map_app. cbn [map].
    replace (1 + N.of_nat (length pre)) with (N.of_nat (length pre) + 1) by lia. reflexivity.
  Qed.

  Lemma chain_classes_bc : forall post pre l fu ic lc subs X,
    Forall class_ok post ->
    nodupN (concat (pre ++ post)) = true ->
    (length (defcls_toks U F k_backtrackclass post (N.of_nat (length pre) + 1) l) <= length post + fu)%nat ->
    chainctx_loop F endl (length post + fu) ic (map cname (seqN 1 (length pre)), pre) lc subs
      (defcls_toks U F k_backtrackclass post (N.of_nat (length pre) + 1) l ++ X)
    = chainctx_loop F endl fu ic (map cname (seqN 1 (length pre + length post)), pre ++ post) lc subs X.
  Proof.
    induction post as [|gl post IH]; intros pre l fu ic lc subs X Hc Hd Hf.
    - cbn [length defcls_toks app]. rewrite Nat.add_0_r, app_nil_r. reflexivity.
    - inversion Hc as [|? ? Hg Hc']; subst.
      cbn [length defcls_toks]. rewrite <- !app_assoc. cbn [app plus chainctx_loop].
      unfold bind at 1. rewrite chain_peek_nobar by reflexivity. cbv zeta. cbn [fst snd].
      change (is_ident (tk TIdent k_backtrackclass l) k_inputclass) with false.
      change (is_ident (tk TIdent k_backtrackclass l) k_backtrackclass) with true. cbv iota.
      unfold bind at 1.
      rewrite (def_class_ok k_backtrackclass gl pre l _ (defcls_toks U F k_backtrackclass post (N.of_nat (length pre) + 1 + 1) (l + 1) ++ X)); auto.
      + replace (N.of_nat (length pre) + 1 + 1) with (N.of_nat (length (pre ++ [gl])) + 1)
          by (rewrite app_length; cbn [length]; lia).
        replace (S (length pre)) with (length (pre ++ [gl])) by (rewrite app_length; cbn [length]; lia).
        rewrite (IH (pre ++ [gl]) (l + 1) fu ic lc subs X); auto.
        * rewrite app_length. cbn [length]. rewrite <- app_assoc. cbn [app].
          replace (length pre + 1 + length post)%nat with (length pre + S (length post))%nat by lia. reflexivity.
        * rewrite <- app_assoc. exact Hd.
        * clear - Hf. cbn [defcls_toks] in Hf. rewrite app_length. cbn [length].
          replace (N.of_nat (length pre + 1) + 1) with (N.of_nat (length pre) + 1 + 1) by lia. fuel_tac.
      + rewrite concat_app in *. cbn [concat] in *. rewrite app_nil_r. rewrite app_assoc in Hd.
        apply nodupN_app_l in Hd. exact Hd.
      + clear - Hf. cbn [defcls_toks] in Hf. unfold gs_toks in Hf. fuel_tac.
  Qed.

  Lemma chain_classes_ic : forall post pre l fu bc lc subs X,
    Forall class_ok post ->
    nodupN (concat (pre ++ post)) = true ->
    (length (defcls_toks U F k_inputclass post (N.of_nat (length pre) + 1) l) <= length post + fu)%nat ->
    chainctx_loop F endl (length post + fu) (map cname (seqN 1 (length pre)), pre) bc lc subs
      (defcls_toks U F k_inputclass post (N.of_nat (length pre) + 1) l ++ X)
    = chainctx_loop F endl fu (map cname (seqN 1 (length pre + length post)), pre ++ post) bc lc subs X.
  Proof.
    induction post as [|gl post IH]; intros pre l fu bc lc subs X Hc Hd Hf.
    - cbn [length defcls_toks app]. rewrite Nat.add_0_r, app_nil_r. reflexivity.
    - inversion Hc as [|? ? Hg Hc']; subst.
      cbn [length defcls_toks]. rewrite <- !app_assoc. cbn [app plus chainctx_loop].
      unfold bind at 1. rewrite chain_peek_nobar by reflexivity. cbv zeta. cbn [fst snd].
      change (is_ident (tk TIdent k_inputclass l) k_inputclass) with true. cbv iota.
      unfold bind at 1.
      rewrite (def_class_ok k_inputclass gl pre l _ (defcls_toks U F k_inputclass post (N.of_nat (length pre) + 1 + 1) (l + 1) ++ X)); auto.
      + replace (N.of_nat (length pre) + 1 + 1) with (N.of_nat (length (pre ++ [gl])) + 1)
          by (rewrite app_length; cbn [length]; lia).
        replace (S (length pre)) with (length (pre ++ [gl])) by (rewrite app_length; cbn [length]; lia).
        rewrite (IH (pre ++ [gl]) (l + 1) fu bc lc subs X); auto.
        * rewrite app_length. cbn [length]. rewrite <- app_assoc. cbn [app].
          replace (length pre + 1 + length post)%nat with (length pre + S (length post))%nat by lia. reflexivity.
        * rewrite <- app_assoc. exact Hd.
        * clear - Hf. cbn [defcls_toks] in Hf. rewrite app_length. cbn [length].
          replace (N.of_nat (length pre + 1) + 1) with (N.of_nat (length pre) + 1 + 1) by lia. fuel_tac.
      + rewrite concat_app in *. cbn [concat] in *. rewrite app_nil_r. rewrite app_assoc in Hd.
        apply nodupN_app_l in Hd. exact Hd.
      + clear - Hf. cbn [defcls_toks] in Hf. unfold gs_toks in Hf. fuel_tac.
  Qed.

  Lemma chain_classes_lc : forall post pre l fu ic bc subs X,
    Forall class_ok post ->
    nodupN (concat (pre ++ post)) = true ->
    (length (defcls_toks U F k_lookaheadclass post (N.of_nat (length pre) + 1) l) <= length post + fu)%nat ->
    chainctx_loop F endl (length post + fu) ic bc (map cname (seqN 1 (length pre)), pre) subs
      (defcls_toks U F k_lookaheadclass post (N.of_nat (length pre) + 1) l ++ X)
    = chainctx_loop F endl fu ic bc (map cname (seqN 1 (length pre + length post)), pre ++ post) subs X.
  Proof.
    induction post as [|gl post IH]; intros pre l fu ic bc subs X Hc Hd Hf.
    - cbn [length defcls_toks app]. rewrite Nat.add_0_r, app_nil_r. reflexivity.
    - inversion Hc as [|? ? Hg Hc']; subst.
      cbn [length defcls_toks]. rewrite <- !app_assoc. cbn [app plus chainctx_loop].
      unfold bind at 1. rewrite chain_peek_nobar by reflexivity. cbv zeta. cbn [fst snd].
      change (is_ident (tk TIdent k_lookaheadclass l) k_inputclass) with false.
      change (is_ident (tk TIdent k_lookaheadclass l) k_backtrackclass) with false.
      change (is_ident (tk TIdent k_lookaheadclass l) k_lookaheadclass) with true. cbv iota.
      unfold bind at 1.
      rewrite (def_class_ok k_lookaheadclass gl pre l _ (defcls_toks U F k_lookaheadclass post (N.of_nat (length pre) + 1 + 1) (l + 1) ++ X)); auto.
      + replace (N.of_nat (length pre) + 1 + 1) with (N.of_nat (length (pre ++ [gl])) + 1)
          by (rewrite app_length; cbn [length]; lia).
        replace (S (length pre)) with (length (pre ++ [gl])) by (rewrite app_length; cbn [length]; lia).
        rewrite (IH (pre ++ [gl]) (l + 1) fu ic bc subs X); auto.
        * rewrite app_length. cbn [length]. rewrite <- app_assoc. cbn [app].
          replace (length pre + 1 + length post)%nat with (length pre + S (length post))%nat by lia. reflexivity.
        * rewrite <- app_assoc. exact Hd.
        * clear - Hf. cbn [defcls_toks] in Hf. rewrite app_length. cbn [length].
          replace (N.of_nat (length pre + 1) + 1) with (N.of_nat (length pre) + 1 + 1) by lia. fuel_tac.
      + rewrite concat_app in *. cbn [concat] in *. rewrite app_nil_r. rewrite app_assoc in Hd.
        apply nodupN_app_l in Hd. exact Hd.
      + clear - Hf. cbn [defcls_toks] in Hf. unfold gs_toks in Hf. fuel_tac.
  Qed.

  (* ---- one chained subtable, then the list ---- *)
  Definition nclasses6 (h : chain_sub) : nat :=
    match h with Chain2 _ b i l _ => (length b + (length i + length l))%nat | _ => 0%nat end.

  Lemma nclasses6_len : forall h l, (nclasses6 h <= length (chain_toks U F h l))%nat.
  Proof.
    intros [cov rules|cov b i la rules|bt input la acts] l; cbn [nclasses6]; try lia.
    unfold chain_toks. cbv zeta. rewrite !app_length.
    pose proof (defcls_len k_backtrackclass b 1 l).
    pose proof (defcls_len k_inputclass i 1 (l + N.of_nat (length b))).
    pose proof (defcls_len k_lookaheadclass la 1 (l + N.of_nat (length b) + N.of_nat (length i))). lia.
  Qed.

  Definition e3 : ctable := ([], []).
  Definition chain_cont (fu : nat) (subs : list subtable) (h : chain_sub) : P (list subtable) :=
    b <- optional endl TOr ;;
    if b then (optional endl TEOL ;;; chainctx_loop F endl fu e3 e3 e3 (subs ++ [Chn h])) else ret (subs ++ [Chn h]).

  Lemma classes_wf_ok : forall classes, classes_wf F classes = true ->
    Forall class_ok classes /\ nodupN (concat classes) = true.
  Proof.
    intros classes H. unfold classes_wf in H. apply andb_true_iff in H. destruct H as [H1 H2]. split; auto.
    apply forallb_Forall in H1. eapply Forall_impl; [|exact H1]. cbn. intros a Hx. split_wf' Hx.
    repeat split; auto; [destruct a; [discriminate|congruence]|apply ascendingb_spec; auto].
  Qed.

  Lemma le_all_forall : forall k cs, le_all k cs = true -> Forall (fun c => c <= N.of_nat k) cs.
  Proof.
    intros k cs H. unfold le_all in H. apply forallb_Forall in H. eapply Forall_impl; [|exact H].
    cbn. intros; lia.
  Qed.

  Lemma sets_forall : forall sets, forallb (fun s => ascendingb s && gids_ok F s) sets = true -> Forall set_ok sets.
  Proof.
    intros sets H. apply forallb_Forall in H. eapply Forall_impl; [|exact H]. cbn. intros a Hx.
    apply andb_true_iff in Hx. destruct Hx. split; auto. apply ascendingb_spec; auto.
  Qed.

  Lemma seqN_length : forall n i, length (seqN i n) = n.
  Proof. induction n; intros; cbn; auto. Qed.

  Lemma chain_step : forall h l fu subs t1 rest,
    chain_wf F h = true -> ends_list t1 = true ->
    (length (chain_toks U F h l ++ t1 :: rest) < nclasses6 h + S fu)%nat ->
    chainctx_loop F endl (nclasses6 h + S fu) e3 e3 e3 subs (chain_toks U F h l ++ t1 :: rest)
    = chain_cont fu subs h (t1 :: rest).
  Proof.
    intros h l fu subs t1 rest W Ht Hf.
    destruct (ends_list_props _ Ht) as (Hstop & Hnc & Hne). pose proof (ends_list_not_int _ Ht) as Hni.
    destruct h as [cov rules|cov btc inc lac rules|bt input la acts]; cbn [chain_wf] in W; split_wf' W;
      cbn [nclasses6 plus] in *; unfold chain_toks in *.
    - (* format 1 *)
      assert (Ha : ascending cov) by (apply ascendingb_spec; assumption).
      assert (Hc : Forall (fun g => g < num_glyphs F) cov) by (apply gids_ok_forall; assumption).
      assert (Hl : length cov = length rules) by (apply Nat.eqb_eq; assumption).
      match goal with Hx : forallb _ rules = true |- _ => apply forallb_Forall in Hx; rename Hx into W0 end.
      assert (Hne' : Forall (fun r => r <> []) rules).
      { eapply Forall_impl; [|exact W0]. cbn. intros a Hx. apply andb_true_iff in Hx. destruct Hx as [X _].
        destruct a; [discriminate|congruence]. }
      rewrite flat_rules_groups in *.
      assert (Hgn : exists e mm, groups cov rules = e :: mm).
      { destruct cov as [|g cov']; [discriminate|]. destruct rules as [|r rules']; [discriminate|].
        inversion Hne'; subst. destruct r as [|x r']; [congruence|]. rewrite groups_cons. cbn. eauto. }
      destruct Hgn as (e & mm & Eg).
      assert (Hall : Forall crule1_ok (groups cov rules)).
      { apply Forall_forall. intros [key r] Hin. unfold groups in Hin.
        apply in_concat in Hin. destruct Hin as (grp & Hgrp & Hin). apply in_map_iff in Hgrp.
        destruct Hgrp as ([k ls] & E & Hcb). subst grp. cbn [fst snd] in Hin.
        apply in_map_iff in Hin. destruct Hin as (lg & E & Hlg). inversion E; subst; clear E.
        pose proof (in_combine_l _ _ _ _ Hcb) as Hk. pose proof (in_combine_r _ _ _ _ Hcb) as Hls.
        rewrite Forall_forall in Hc, W0. specialize (Hc _ Hk). specialize (W0 _ Hls). cbn in W0.
        apply andb_true_iff in W0. destruct W0 as [_ W0]. rewrite forallb_forall in W0.
        specialize (W0 _ Hlg). split_wf' W0. unfold crule1_ok. cbn [fst snd].
        repeat split; auto.
        - unfold gids_ok in *. rewrite forallb_forall in *. intros x Hx. apply W0. apply in_rev. exact Hx.
        - unfold gids_ok in *. cbn [forallb]. assert (E : (key <? num_glyphs F) = true) by lia. rewrite E. auto. }
      cbn [chainctx_loop].
      assert (Epk : exists pk, chain_peek endl (chain1_toks U F (groups cov rules) true l ++ t1 :: rest)
                      = POk (pk, chain1_toks U F (groups cov rules) true l ++ t1 :: rest)
                      /\ not_chain_kw (fst pk) /\ ityp_eqb (snd pk) TSlash = false /\ ityp_eqb (snd pk) TLBr = false).
      { rewrite Eg. destruct e as [g [[[b i] la0] a]]. cbn [chain1_toks app].
        destruct (gl_toks_head6 g i l) as (t2 & r2 & E2 & A2 & K2 & B2 & S2 & L2). 
        destruct (rev b) as [|x xs].
        - change (gl_toks U F [] l) with (@nil token). cbn [app]. rewrite E2. cbn [app]. eexists. split.
          + apply chain_peek_bar. destruct (after_flags_props _ A2). auto.
          + cbn [fst snd]. split; [repeat split; reflexivity|split; auto].
        - destruct (gl_toks_head6 x xs l) as (t3 & r3 & E3 & A3 & K3 & B3 & S3 & L3). rewrite E3. cbn [app].
          eexists. split.
          + apply chain_peek_nobar; auto. destruct (after_flags_props _ A3). auto.
          + cbn [fst snd]. split; [exact K3|split; auto]. }
      destruct Epk as (pk & Epk & (K1 & K2 & K3) & S1 & L1).
      unfold bind at 1. rewrite Epk. cbv zeta. rewrite K1, K2, K3, S1, L1.
      unfold bind at 1. unfold bind at 1.
      rewrite (chain1_loop_ok (groups cov rules) l (S fu) [] t1 rest); auto; [|rewrite Eg; discriminate].
      cbn [app]. unfold ret at 1. cbv zeta. unfold build_cov.
      destruct (groups_keys cov rules Ha Hl Hne') as [G1 G2]. rewrite G1, G2.
      rewrite vals_of_groups by auto. reflexivity.
    - (* format 2 *)
      assert (Ha : ascending cov) by (apply ascendingb_spec; assumption).
      match goal with Hx : (length rules =? S (length inc))%nat = true |- _ => apply Nat.eqb_eq in Hx; rename Hx into Hlr end.
      match goal with Hx : classes_wf F btc = true |- _ => destruct (classes_wf_ok _ Hx) as [Hb1 Hb2] end.
      match goal with Hx : classes_wf F inc = true |- _ => destruct (classes_wf_ok _ Hx) as [Hi1 Hi2] end.
      match goal with Hx : classes_wf F lac = true |- _ => destruct (classes_wf_ok _ Hx) as [Hl1 Hl2] end.
      set (kb := length btc) in *. set (ki := length inc) in *. set (kl := length lac) in *.
      set (l1 := l + N.of_nat kb) in *. set (l2 := l1 + N.of_nat ki) in *. set (l3 := l2 + N.of_nat kl) in *.
      set (mm := flat_rules (index_from 0 rules)) in *.
      assert (Hmne : mm <> []).
      { match goal with Hx : negb (is_nil (concat rules)) = true |- _ => rename Hx into Hn end.
        unfold mm. clear - Hn. generalize 0. induction rules as [|rs r IH]; intros i; [discriminate|].
        cbn [index_from]. unfold flat_rules. cbn [map concat fst snd]. destruct rs as [|x rs'].
        - cbn [map app]. apply IH. exact Hn.
        - discriminate. }
      assert (Hmm : Forall (crule2_ok kb ki kl) mm).
      { match goal with Hx : forallb (forallb _) rules = true |- _ => rename Hx into Wr end.
        unfold mm. apply Forall_forall. intros [c r] Hin. unfold flat_rules in Hin.
        apply in_concat in Hin. destruct Hin as (grp & Hgrp & Hin). apply in_map_iff in Hgrp.
        destruct Hgrp as ([c' rs] & E & Hidx). subst grp. cbn [fst snd] in Hin.
        apply in_map_iff in Hin. destruct Hin as (r' & E & Hr). inversion E; subst; clear E.
        assert (Hrs : In rs rules /\ c < N.of_nat (length rules)).
        { clear - Hidx. assert (G : forall j, In (c, rs) (index_from j rules) -> In rs rules /\ j <= c /\ c < j + N.of_nat (length rules)).
          { clear. induction rules as [|x r IH]; intros j Hj; [contradiction|]. cbn [index_from] in Hj. destruct Hj as [Hj|Hj].
            - inversion Hj; subst. split; [left; auto|cbn [length]; lia].
            - destruct (IH (j + 1) Hj) as (A & B & C). split; [right; auto|cbn [length]; lia]. }
          destruct (G 0 Hidx) as (A & B & C). split; auto. }
        destruct Hrs as [Hrs Hcl']. rewrite forallb_forall in Wr. specialize (Wr _ Hrs).
        rewrite forallb_forall in Wr. specialize (Wr _ Hr). split_wf' Wr.
        unfold crule2_ok. cbn [fst snd]. repeat split; auto.
        - apply Forall_rev. apply le_all_forall. assumption.
        - constructor; [rewrite Hlr in Hcl'; lia|]. apply le_all_forall. assumption.
        - apply le_all_forall. assumption. }
      repeat (progress (rewrite <- ?app_assoc in *; cbn [app] in * )).
      pose proof (defcls_len k_backtrackclass btc 1 l) as D1.
      pose proof (defcls_len k_inputclass inc 1 l1) as D2.
      pose proof (defcls_len k_lookaheadclass lac 1 l2) as D3. fold kb in D1. fold ki in D2. fold kl in D3.
      replace (kb + (ki + kl) + S fu)%nat with (kb + (ki + (kl + S fu)))%nat in * by lia.
      pose proof (chain_classes_bc btc [] l (ki + (kl + S fu)) e3 e3 subs) as P1.
      cbn [length app seqN map] in P1. change (N.of_nat 0 + 1) with 1 in P1. fold kb in P1.
      unfold e3 at 2. rewrite P1; auto; [|clear - Hf D1 D2 D3; fuel_tac]. clear P1.
      pose proof (chain_classes_ic inc [] l1 (kl + S fu) (map cname (seqN 1 kb), btc) e3 subs) as P2.
      cbn [length app seqN map] in P2. change (N.of_nat 0 + 1) with 1 in P2. fold ki in P2.
      unfold e3 at 1. rewrite P2; auto; [|clear - Hf D1 D2 D3; fuel_tac]. clear P2.
      pose proof (chain_classes_lc lac [] l2 (S fu) (map cname (seqN 1 ki), inc) (map cname (seqN 1 kb), btc) subs) as P3.
      cbn [length app seqN map] in P3. change (N.of_nat 0 + 1) with 1 in P3. fold kl in P3.
      unfold e3 at 1. rewrite P3; auto; [|clear - Hf D1 D2 D3; fuel_tac]. clear P3.
      cbn [plus chainctx_loop].
      unfold bind at 1. rewrite chain_peek_nobar by reflexivity. cbv zeta. cbn [fst snd].
      change (is_ident (t_slash l3) k_inputclass) with false.
      change (is_ident (t_slash l3) k_backtrackclass) with false.
      change (is_ident (t_slash l3) k_lookaheadclass) with false. cbn [ttyp t_slash ityp_eqb].
      unfold bind at 1. unfold bind at 1. rewrite required_hit by reflexivity.
      unfold bind at 1.
      rewrite (rgl_gl cov l3 (S fu) (t_slash l3)); auto; [|clear - Hf D1 D2 D3; fuel_tac].
      unfold bind at 1. rewrite required_hit by reflexivity.
      unfold bind at 1.
      rewrite (chain2_loop_ok mm kb ki kl l3 (S fu) [] t1 rest); auto; [|clear - Hf D1 D2 D3; fuel_tac].
      cbn [app]. unfold ret at 1. rewrite sort_uniq_ascending by auto.
      rewrite map_length, seqN_length. rewrite <- Hlr.
      assert (Ev : map (fun c => vals_of (N.of_nat c) mm) (seq 0 (length rules)) = rules).
      { rewrite <- (vals_of_index rules 0) at 2. apply map_ext. intros c. rewrite N.add_0_l. reflexivity. }
      rewrite Ev. reflexivity.
    - (* format 3 *)
      assert (Hb : Forall set_ok (rev bt)) by (apply Forall_rev; apply sets_forall; assumption).
      assert (Hi : Forall set_ok input) by (apply sets_forall; assumption).
      assert (Hl : Forall set_ok la) by (apply sets_forall; assumption).
      assert (Hn : input <> []) by (destruct input; [discriminate|congruence]).
      repeat (progress (rewrite <- ?app_assoc in *; cbn [app] in * )).
      cbn [chainctx_loop].
      assert (Epk : exists pk, chain_peek endl (sets_toks U F (rev bt) l ++ t_bar l :: sets_toks U F input l ++ t_bar l :: sets_toks U F la l ++ t_arrow l :: nested_toks acts l ++ t1 :: rest)
                      = POk (pk, sets_toks U F (rev bt) l ++ t_bar l :: sets_toks U F input l ++ t_bar l :: sets_toks U F la l ++ t_arrow l :: nested_toks acts l ++ t1 :: rest)
                      /\ not_chain_kw (fst pk) /\ ityp_eqb (snd pk) TSlash = false /\ ityp_eqb (snd pk) TLBr = true).
      { destruct (rev bt) as [|s r].
        - cbn [sets_toks map concat app]. destruct input as [|s' r']; [congruence|].
          unfold sets_toks at 1. cbn [map concat]. unfold gs_toks at 1. cbn [app].
          eexists. split; [apply chain_peek_bar; reflexivity|]. cbn [fst snd]. repeat split; reflexivity.
        - unfold sets_toks at 1 3. cbn [map concat]. unfold gs_toks at 1 3. cbn [app].
          eexists. split; [apply chain_peek_nobar; reflexivity|]. cbn [fst snd]. repeat split; reflexivity. }
      destruct Epk as (pk & Epk & (K1 & K2 & K3) & S1 & L1).
      unfold bind at 1. rewrite Epk. cbv zeta. rewrite K1, K2, K3, S1, L1.
      unfold bind at 1. unfold bind at 1.
      rewrite (sets_until_ok (rev bt) TBar (t_bar l)); auto; [|clear - Hf; fuel_tac].
      unfold bind at 1.
      rewrite (sets_then_ok input TBar (t_bar l)); auto; [|clear - Hf; fuel_tac].
      unfold bind at 1.
      rewrite (sets_until_ok la TArrow (t_arrow l)); auto; [|clear - Hf; fuel_tac].
      unfold bind at 1. cbn [app].
      rewrite read_nested_exact; auto; try (clear - Hf; fuel_tac).
      unfold ret at 1. rewrite rev_involutive. reflexivity.
  Qed.

  Lemma chain_toks_head : forall h l, chain_wf F h = true ->
    exists t ts, chain_toks U F h l = t :: ts /\ after_flags t = true.
  Proof.
    intros h l W. destruct h as [cov rules|cov b i la rules|bt input la acts]; cbn [chain_wf] in W; split_wf' W;
      unfold chain_toks; cbv zeta.
    - match goal with Hx : forallb _ rules = true |- _ => apply forallb_Forall in Hx; rename Hx into W0 end.
      destruct cov as [|g cov']; [discriminate|]. destruct rules as [|r rules']; [discriminate|].
      inversion W0 as [|? ? Hr _]; subst. apply andb_true_iff in Hr. destruct Hr as [Hr _].
      destruct r as [|[[[b i] la] a] r']; [discriminate|]. cbn [combine]. unfold flat_rules.
      cbn [map concat fst snd app chain1_toks].
      destruct (rev b) as [|x xs].
      + change (gl_toks U F [] l) with (@nil token). cbn [app]. eexists. eexists. split; reflexivity.
      + destruct (gl_toks_head x xs l) as (t & ts & E & A). rewrite E. cbn [app]. eauto.
    - destruct b as [|gl r]; [destruct i as [|gl r]; [destruct la as [|gl r]|]|]; cbn [defcls_toks app];
        eexists; eexists; split; reflexivity.
    - destruct (rev bt) as [|s r].
      + cbn [sets_toks map concat app]. eexists. eexists. split; reflexivity.
      + unfold sets_toks at 1. cbn [map concat]. unfold gs_toks at 1. cbn [app]. eexists. eexists. split; reflexivity.
  Qed.

  Lemma chain_loop_ok : forall hs hdr h l fuel acc t0 rest,
    Forall (fun h => chain_wf F h = true) (h :: hs) ->
    ends_list t0 = true -> ityp_eqb (ttyp t0) TOr = false ->
    (length (chain_toks U F h l ++ subs_toks U F hdr (map Chn hs) false (l + chain_dl h) ++ t0 :: rest) < fuel)%nat ->
    chainctx_loop F endl fuel e3 e3 e3 acc (chain_toks U F h l ++ subs_toks U F hdr (map Chn hs) false (l + chain_dl h) ++ t0 :: rest)
    = POk (acc ++ Chn h :: map Chn hs, t0 :: rest).
  Proof.
    induction hs as [|h' hs IH]; intros hdr h l fuel acc t0 rest Hw Ht Hto Hf;
      inversion Hw as [|? ? Hc Hcs]; subst;
      pose proof (nclasses6_len h l) as Hk.
    - cbn [map subs_toks app] in *.
      replace fuel with (nclasses6 h + S (fuel - nclasses6 h - 1))%nat by (clear - Hf Hk; fuel_tac).
      rewrite chain_step; auto; [|clear - Hf Hk; fuel_tac].
      unfold chain_cont. unfold bind at 1. destruct (ends_list_props _ Ht) as (A & B & C).
      rewrite optional_miss by auto. reflexivity.
    - cbn [map subs_toks] in *. cbn [sub_toksp sub_dlp sub_toks sub_dl] in *. rewrite <- !app_assoc in *. cbn [app] in *.
      set (l0 := l + chain_dl h) in *.
      replace fuel with (nclasses6 h + S (fuel - nclasses6 h - 1))%nat by (clear - Hf Hk; fuel_tac).
      rewrite chain_step; auto; [|clear - Hf Hk; fuel_tac].
      unfold chain_cont. unfold bind at 1. rewrite optional_hit by reflexivity.
      unfold bind at 1. rewrite optional_hit by reflexivity.
      rewrite (IH hdr h' (l0 + 1) _ (acc ++ [Chn h]) t0 rest); auto.
      + rewrite <- app_assoc. reflexivity.
      + clear - Hf Hk. fuel_tac.
  Qed.

  Lemma chain_subs_shape : forall subs,
    forallb (fun s => match s with Chn h => chain_wf F h | _ => false end) subs = true ->
    exists hs, subs = map Chn hs /\ Forall (fun h => chain_wf F h = true) hs.
  Proof.
    induction subs as [|s r IH]; intros H.
    - exists []. split; auto.
    - cbn [forallb] in H. apply andb_true_iff in H. destruct H as [H1 H2].
      destruct (IH H2) as (hs & E & Hc). destruct s; try discriminate. exists (h :: hs). subst. split; auto.
  Qed.

  Lemma gsub_one_chain : forall lk l fu acc t0 rest,
    chain_lookup_wf F lk = true -> ends_list t0 = true -> ityp_eqb (ttyp t0) TOr = false ->
    (length (lookup_toks U F k_GSUB lk l ++ t0 :: rest) < S (S fu))%nat ->
    parse_loop F endl (S (S fu)) acc (lookup_toks U F k_GSUB lk l ++ t0 :: rest)
    = parse_loop F endl (S fu) (acc ++ [lk]) (t0 :: rest).
  Proof.
    intros lk l fu acc t0 rest Hlk Ht Hto Hf.
    unfold chain_lookup_wf in Hlk. split_wf Hlk.
    destruct lk as [ty fl subs]. cbn [l_type l_flags l_subs] in *.
    match goal with Hx : (ty =? 6) = true |- _ => apply N.eqb_eq in Hx; subst ty end.
    match goal with Hx : forallb _ subs = true |- _ => destruct (chain_subs_shape _ Hx) as (hs & Es & Hcs) end.
    subst subs. destruct hs as [|h hs]; [discriminate|].
    unfold lookup_toks, hdr_toks in *. cbn [l_subs l_type l_flags map subs_toks sub_toksp sub_dlp sub_toks sub_dl app] in *.
    rewrite <- !app_assoc in *. cbn [app] in *.
    cbn [parse_loop]. unfold bind at 1. cbn [read ttyp tval].
    change (list_eqb (k_GSUB ++ digits 6) k_GSUB1) with false.
    change (list_eqb (k_GSUB ++ digits 6) k_GSUB2) with false.
    change (list_eqb (k_GSUB ++ digits 6) k_GSUB3) with false.
    change (list_eqb (k_GSUB ++ digits 6) k_GSUB4) with false.
    change (list_eqb (k_GSUB ++ digits 6) k_GSUB5) with false.
    change (list_eqb (k_GSUB ++ digits 6) k_GSUB6) with true. cbv iota.
    unfold bind at 1. unfold read_chainctx. unfold bind at 1.
    inversion Hcs as [|? ? Hc _]; subst.
    rewrite header_ok'; auto; [| |clear - Hf; fuel_tac].
    2:{ destruct (chain_toks_head h l Hc) as (t & ts & E & A). rewrite E. cbn [app]. eauto. }
    unfold bind at 1. fold e3.
    rewrite (chain_loop_ok hs _ h l (S (S fu)) [] t0 rest); auto; try (clear - Hf; fuel_tac).
  Qed.

  Lemma gsub6_parse_ok : forall ll l fuel acc e,
    Forall (fun lk => gsub_lookup_wf6 F lk = true) ll ->
    (length (gsub_toks U F ll l ++ [tk TEOF [] e]) < fuel)%nat ->
    parse_loop F endl fuel acc (gsub_toks U F ll l ++ [tk TEOF [] e]) = POk (acc ++ ll, []).
  Proof.
    apply (gsub_list_ok (fun lk => gsub_lookup_wf6 F lk = true)).
    { intros lk H E. unfold gsub_lookup_wf6, gsub_lookup_wf5, gsub_lookup_wf, ctx_lookup_wf, chain_lookup_wf in H.
      rewrite E in H. cbn [is_nil negb] in H. rewrite !andb_false_r in H. discriminate. }
    intros lk l fu acc lx rest Hw Hf. unfold gsub_lookup_wf6 in Hw. apply orb_true_iff in Hw.
    destruct Hw as [Hw|Hw]; [|apply gsub_one_chain; auto].
    unfold gsub_lookup_wf5 in Hw. apply orb_true_iff in Hw.
    destruct Hw as [Hw|Hw]; [apply gsub_one_old; auto|apply gsub_one_ctx; auto].
  Qed.

  Lemma gpos_head : forall lk l, gpos_lookup_wf F lk = true ->
    lookup_toks U F k_GPOS lk l = tk TIdent k_GPOS1 l :: tl (lookup_toks U F k_GPOS lk l).
  Proof.
    intros lk l W. unfold gpos_lookup_wf in W. split_wf W.
    destruct lk as [ty fl subs]. cbn [l_type l_flags l_subs] in *.
    match goal with Hx : (ty =? 1) = true |- _ => apply N.eqb_eq in Hx; subst ty end.
    destruct subs; [discriminate|]. reflexivity.
  Qed.

  (* ================= GPOS3 ================= *)
  (* the header when the lookup's text continues on the next line *)
  Lemma rlf_list_nl : forall (nvs : list (list N * N)) l fuel acc lx t0 rest,
    Forall (fun nv => flag_of_name builder_parseFlags (fst nv) = Some (snd nv)) nvs ->
    (length nvs < fuel)%nat ->
    read_lookup_flags endl fuel acc
      (concat (map (fun nv => [t_hyphen l; tk TIdent (fst nv) l]) nvs) ++ tk TEOL [10] lx :: t0 :: rest)
    = POk (fold_left (fun a nv => N.lor a (snd nv)) nvs acc, t0 :: rest).
  Proof.
    induction nvs as [|[nm v] nvs IH]; intros l fuel acc lx t0 rest Hn Hf;
      (destruct fuel; [cbn in Hf; lia|]).
    - cbn [map concat app fold_left read_lookup_flags].
      unfold bind at 1. rewrite optional_miss by reflexivity.
      unfold bind at 1. rewrite optional_hit by reflexivity. reflexivity.
    - inversion Hn as [|? ? Hv Hn']; subst. cbn [fst snd] in Hv.
      cbn [map concat app fold_left read_lookup_flags].
      unfold bind at 1. rewrite optional_hit by reflexivity.
      unfold bind at 1. rewrite read_identifier_hit. cbn [fst snd].
      rewrite Hv. apply IH; auto. cbn in Hf. lia.
  Qed.

  Lemma header_ok_nl : forall fl l fuel lx t0 rest, flags_ok fl = true -> after_flags t0 = true ->
    (length (flag_toks fl l) < fuel)%nat ->
    lookup_header endl fuel (tk TColon [58] l :: flag_toks fl l ++ tk TEOL [10] lx :: t0 :: rest) = POk (fl, t0 :: rest).
  Proof.
    intros fl l fuel lx t0 rest Hfl Ht Hf. unfold lookup_header.
    unfold bind at 1. rewrite optional_hit by reflexivity.
    destruct (after_flags_props _ Ht) as [A B].
    assert (Ah : ityp_eqb (ttyp t0) THyphen = false).
    { unfold after_flags in Ht. repeat (apply andb_true_iff in Ht; destruct Ht as [Ht ?]).
      apply negb_true_iff in Ht. exact Ht. }
    assert (E1 : flag_toks fl l = concat (map (fun nv => [t_hyphen l; tk TIdent (fst nv) l]) (flag_nvs fl))).
    { pose proof Hfl as Hc. apply flags_cases in Hc. repeat (destruct Hc as [Hc|Hc]); subst fl; reflexivity. }
    assert (E2 : fold_left (fun a nv => N.lor a (snd nv)) (flag_nvs fl) 0 = fl).
    { pose proof Hfl as Hc. apply flags_cases in Hc. repeat (destruct Hc as [Hc|Hc]); subst fl; reflexivity. }
    assert (E3 : Forall (fun nv => flag_of_name builder_parseFlags (fst nv) = Some (snd nv)) (flag_nvs fl)).
    { pose proof Hfl as Hc. apply flags_cases in Hc. repeat (destruct Hc as [Hc|Hc]); subst fl; repeat constructor. }
    assert (E4 : (length (flag_nvs fl) <= length (flag_toks fl l))%nat).
    { pose proof Hfl as Hc. apply flags_cases in Hc. repeat (destruct Hc as [Hc|Hc]); subst fl; cbn; lia. }
    unfold bind at 1.
    destruct (flag_nvs fl) as [|nv nvs] eqn:En.
    - rewrite E1. cbn [map concat app]. rewrite optional_hit by reflexivity.
      destruct fuel; [cbn in Hf; lia|]. cbn [read_lookup_flags].
      unfold bind at 1. rewrite optional_miss by auto.
      unfold bind at 1. rewrite optional_miss by auto. cbn [fold_left] in E2. subst fl. reflexivity.
    - rewrite E1. cbn [map concat app]. rewrite optional_miss by reflexivity.
      change (t_hyphen l :: tk TIdent (fst nv) l :: concat (map (fun nv0 => [t_hyphen l; tk TIdent (fst nv0) l]) nvs) ++ tk TEOL [10] lx :: t0 :: rest)
        with (concat (map (fun nv0 => [t_hyphen l; tk TIdent (fst nv0) l]) (nv :: nvs)) ++ tk TEOL [10] lx :: t0 :: rest).
      rewrite rlf_list_nl; auto; [rewrite E2; reflexivity|lia].
  Qed.

  Lemma read_int16_hit' : forall v z l ts, atoi v = Some z -> int16_ok z = true ->
    read_int16 endl (tk TInt v l :: ts) = POk (z, ts).
  Proof.
    intros v z l ts Ha H. unfold read_int16, bind, read. cbn [ttyp ityp_eqb tval]. rewrite Ha.
    unfold int16_ok in H. assert (E : ((z <? -32768)%Z || (32767 <? z)%Z) = false) by lia. rewrite E. reflexivity.
  Qed.

  Definition rec_toks (g : N) (r : anchor * anchor) (l : N) : list token :=
    [glyph_tok U F g l; t_colon l; tk TInt (digits_z (fst (fst r))) l; t_comma l; tk TInt (digits_z (snd (fst r))) l;
     tk TIdent k_to l; tk TInt (digits_z (fst (snd r))) l; t_comma l; tk TInt (digits_z (snd (snd r))) l].

  Lemma gpos3_toks_cons : forall g r recs first j0 l,
    gpos3_toks U F ((g, r) :: recs) first j0 l
    = (if j0 then [] else [t_semi l]) ++ (if first || negb j0 then [tk TEOL [10] l] else [])
        ++ rec_toks g r (if first || negb j0 then l + 1 else l)
        ++ gpos3_toks U F recs first false (if first || negb j0 then l + 1 else l).
  Proof. intros g [[x1 y1] [x2 y2]] recs first j0 l. reflexivity. Qed.

  Lemma gpos3_toks_first_irrel : forall recs f1 f2 l,
    gpos3_toks U F recs f1 false l = gpos3_toks U F recs f2 false l.
  Proof.
    induction recs as [|[g r] recs IH]; intros f1 f2 l; [reflexivity|].
    rewrite !gpos3_toks_cons. cbn [negb]. rewrite !orb_true_r. rewrite (IH f1 f2). reflexivity.
  Qed.

  Definition rec_ok (e : N * (anchor * anchor)) : Prop :=
    fst e < num_glyphs F /\ anchor_ok (fst (snd e)) = true /\ anchor_ok (snd (snd e)) = true.

  (* what may follow the records of a Gpos3 subtable *)
  Definition ends3 (ts0 : list token) : Prop :=
    ityp_eqb (ttyp (peek_tok endl ts0)) TSemi = false.

  Lemma gpos3_recs_ok : forall recs g r l fuel data ts0,
    ascending (map fst ((g, r) :: recs)) -> Forall rec_ok ((g, r) :: recs) ->
    (forall d e, In d data -> In e ((g, r) :: recs) -> fst d < fst e) ->
    ends3 ts0 ->
    (length (rec_toks g r l ++ gpos3_toks U F recs false false l ++ ts0) < fuel)%nat ->
    exists ts', gpos3_recs F endl fuel data (rec_toks g r l ++ gpos3_toks U F recs false false l ++ ts0)
                = POk (data ++ (g, r) :: recs, ts') /\ norm ts' = norm ts0.
  Proof.
    induction recs as [|[g' r'] recs IH]; intros g r l fuel data ts0 Ha Hr Hd Hts Hf;
      (destruct fuel as [|[|fu]]; [cbn in Hf; lia|cbn in Hf; lia|]);
      inversion Hr as [|? ? Hg Hrs]; subst; destruct Hg as (Hg & He & Hx); cbn [fst snd] in Hg, He, Hx;
      destruct r as [[x1 y1] [x2 y2]]; unfold anchor_ok in He, Hx; cbn [fst snd] in He, Hx;
      apply andb_true_iff in He; apply andb_true_iff in Hx; destruct He as [He1 He2]; destruct Hx as [Hx1 Hx2];
      unfold rec_toks; cbn [fst snd app gpos3_recs];
      (assert (Hkey : assoc g data = None)
         by (apply assoc_none_lt; apply Forall_forall; intros d Hdi; apply (Hd d (g, (x1, y1, (x2, y2)))); auto; left; reflexivity));
      unfold bind at 1; unfold read_glyph; unfold bind at 1; rewrite rgl_one by (auto; reflexivity);
      unfold ret at 1; unfold bind at 1; rewrite optional_hit by reflexivity;
      unfold bind at 1; rewrite (read_int16_hit' _ x1) by (auto; apply atoi_digits_z);
      unfold bind at 1; rewrite required_hit by reflexivity;
      unfold bind at 1; rewrite (read_int16_hit' _ y1) by (auto; apply atoi_digits_z);
      unfold bind at 1; unfold required_ident, bind at 1; cbn [read];
      change (is_ident (tk TIdent k_to l) k_to) with true; cbv iota; unfold ret at 1;
      unfold bind at 1; rewrite (read_int16_hit' _ x2) by (auto; apply atoi_digits_z);
      unfold bind at 1; rewrite required_hit by reflexivity;
      unfold bind at 1; rewrite (read_int16_hit' _ y2) by (auto; apply atoi_digits_z);
      rewrite set_key_new by auto.
    - cbn [gpos3_toks app]. unfold bind at 1. rewrite optional_miss_n by exact Hts.
      unfold ret. eexists. split; [reflexivity|apply norm_idem].
    - rewrite gpos3_toks_cons. cbn [orb negb app].
      unfold bind at 1. rewrite optional_hit by reflexivity.
      unfold bind at 1. rewrite optional_hit by reflexivity.
      destruct (IH g' r' (l + 1) (S fu) (data ++ [(g, (x1, y1, (x2, y2)))]) ts0) as (ts' & E & Nn); auto.
      + apply (ascending_tail g). exact Ha.
      + intros d e Hdi Hei. apply in_app_or in Hdi. destruct Hdi as [Hdi|Hdi].
        * apply Hd; auto. right. exact Hei.
        * destruct Hdi as [Hdi|[]]. subst d. cbn [fst].
          assert (HL : Forall (fun y => g < y) (map fst ((g', r') :: recs)))
            by (apply (ascending_lt_all (map fst ((g', r') :: recs)) g); exact Ha).
          rewrite Forall_forall in HL. apply HL. apply in_map. exact Hei.
      + clear - Hf. rewrite gpos3_toks_cons in Hf. cbn [orb negb app] in Hf. unfold rec_toks in *. fuel_tac.
      + exists ts'. split; auto. rewrite <- app_assoc in E. exact E.
  Qed.

  Definition g3_ok (p : pos_sub) : Prop := pos_wf F p = true /\ match p with Gpos3_1 _ _ => True | _ => False end.

  Lemma gpos3_dl_first_irrel : forall recs f1 f2, gpos3_dl recs f1 false = gpos3_dl recs f2 false.
  Proof.
    induction recs as [|e recs IH]; intros f1 f2; [reflexivity|]. cbn [gpos3_dl negb]. rewrite !orb_true_r.
    rewrite (IH f1 f2). reflexivity.
  Qed.

  Lemma g3_shape : forall p l, g3_ok p -> exists g r recs,
    pos_toks U F p false l = rec_toks g r l ++ gpos3_toks U F recs false false l
    /\ pos_toks U F p true l = tk TEOL [10] l :: pos_toks U F p false (l + 1)
    /\ pos_dl p true = 1 + pos_dl p false
    /\ p = Gpos3_1 (g :: map fst recs) (r :: map snd recs)
    /\ ascending (map fst ((g, r) :: recs)) /\ Forall rec_ok ((g, r) :: recs).
  Proof.
    intros p l [W Wp]. destruct p as [cov records|]; [|contradiction]. cbn [pos_wf] in W. split_wf W.
    assert (Ha : ascending cov) by (apply ascendingb_spec; assumption).
    assert (Hc : Forall (fun g => g < num_glyphs F) cov) by (apply gids_ok_forall; assumption).
    assert (Hl : length cov = length records) by (apply Nat.eqb_eq; assumption).
    match goal with Hx : forallb _ records = true |- _ => apply forallb_Forall in Hx; rename Hx into Wr end.
    destruct cov as [|g cov']; [discriminate|]. destruct records as [|r recs']; [discriminate|].
    exists g, r, (combine cov' recs'). cbn [length] in Hl.
    assert (Hl' : length cov' = length recs') by lia.
    unfold pos_toks, pos_dl. cbn [combine]. rewrite !gpos3_toks_cons. cbn [orb negb app gpos3_dl].
    rewrite (gpos3_toks_first_irrel _ true false). rewrite (gpos3_dl_first_irrel _ true false).
    split; [reflexivity|]. split; [reflexivity|]. split; [cbn; lia|]. split; [|split].
    - rewrite map_fst_combine by auto.
      assert (E : map snd (combine cov' recs') = recs').
      { clear - Hl'. revert recs' Hl'. induction cov'; destruct recs'; cbn; intros; try discriminate; auto.
        f_equal. apply IHcov'. lia. }
      rewrite E. reflexivity.
    - cbn [map fst]. rewrite map_fst_combine by auto. exact Ha.
    - assert (G : Forall (fun e : N * (anchor * anchor) => fst e < num_glyphs F /\ (anchor_ok (fst (snd e)) && anchor_ok (snd (snd e))) = true)
                    (combine (g :: cov') (r :: recs'))).
      { apply (Forall_combine (fun g => g < num_glyphs F) (fun r : anchor * anchor => (anchor_ok (fst r) && anchor_ok (snd r)) = true)); auto. }
      cbn [combine] in G. eapply Forall_impl; [|exact G]. intros e [A B]. apply andb_true_iff in B.
      unfold rec_ok. tauto.
  Qed.

  Definition ends_gpos3 (ts0 : list token) : Prop := ends_gpos ts0 /\ ends3 ts0.

  Lemma gpos3_loop_ok : forall ps hdr p l fuel acc ts0,
    Forall g3_ok (p :: ps) -> ends_gpos3 ts0 ->
    (length (pos_toks U F p false l ++ subs_toks U F hdr (map Pos ps) false (l + pos_dl p false) ++ ts0) < fuel)%nat ->
    exists ts', gpos3_loop F endl fuel acc (pos_toks U F p false l ++ subs_toks U F hdr (map Pos ps) false (l + pos_dl p false) ++ ts0)
                = POk (acc ++ map Pos (p :: ps), ts') /\ norm ts' = norm ts0.
  Proof.
    induction ps as [|p' ps IH]; intros hdr p l fuel acc ts0 Hs [Hts H3] Hf;
      (destruct fuel as [|fu]; [cbn in Hf; lia|]);
      inversion Hs as [|? ? Hp Hps]; subst;
      destruct (g3_shape p l Hp) as (g & r & recs & Et & _ & _ & Ep & Ha & Hr);
      cbn [gpos3_loop]; rewrite Et in *.
    - cbn [map subs_toks app] in *. rewrite <- app_assoc in *.
      destruct (gpos3_recs_ok recs g r l (S fu) [] ts0 Ha Hr) as (ts' & E & Nn); auto; [intros d e []|].
      unfold bind at 1. rewrite E. cbn [app]. cbv zeta.
      destruct Hts as (A & B & C). unfold bind at 1.
      rewrite optional_miss_n by (rewrite (peek_typ_same ts' ts0 Nn); exact C).
      unfold ret. eexists. split; [|rewrite norm_idem; exact Nn].
      assert (Hl : length (g :: map fst recs) = length (r :: map snd recs)) by (cbn; rewrite !map_length; reflexivity).
      assert (Ec : combine (g :: map fst recs) (r :: map snd recs) = (g, r) :: recs).
      { cbn [combine]. f_equal. clear. induction recs as [|[a b] rs IHr]; cbn; auto. f_equal; auto. }
      rewrite <- Ec. rewrite build_cov_combine; auto; try (cbn [map fst] in Ha; exact Ha).
      rewrite map_get_combine; auto; try (cbn [map fst] in Ha; exact Ha). subst p. reflexivity.
    - cbn [map subs_toks] in *. cbn [sub_toksp sub_dlp] in *. rewrite <- !app_assoc in *. cbn [app] in *.
      set (l0 := l + pos_dl p false) in *.
      set (X := tk TOr [124; 124] l0 :: tk TEOL [10] l0 :: pos_toks U F p' false (l0 + 1)
                  ++ subs_toks U F hdr (map Pos ps) false (l0 + 1 + pos_dl p' false) ++ ts0) in *.
      destruct (gpos3_recs_ok recs g r l (S fu) [] X Ha Hr) as (ts' & E & Nn); auto;
        [intros d e []|reflexivity|].
      unfold X in Nn. rewrite norm_cons2 in Nn. apply norm_eq_cons in Nn. subst ts'.
      unfold bind at 1. rewrite E. cbn [app]. cbv zeta.
      unfold bind at 1. rewrite optional_hit by reflexivity.
      unfold bind at 1. rewrite optional_hit by reflexivity.
      assert (Hl : length (g :: map fst recs) = length (r :: map snd recs)) by (cbn; rewrite !map_length; reflexivity).
      assert (Ec : combine (g :: map fst recs) (r :: map snd recs) = (g, r) :: recs).
      { cbn [combine]. f_equal. clear. induction recs as [|[a b] rs IHr]; cbn; auto. f_equal; auto. }
      rewrite <- Ec. rewrite build_cov_combine; auto; try (cbn [map fst] in Ha; exact Ha).
      rewrite map_get_combine; auto; try (cbn [map fst] in Ha; exact Ha). rewrite <- Ep.
      destruct (IH hdr p' (l0 + 1) fu (acc ++ [Pos p]) ts0 Hps (conj Hts H3)) as (ts'' & E2 & N2).
      + clear - Hf. unfold X in Hf. unfold rec_toks in Hf. fuel_tac.
      + exists ts''. split; auto. rewrite E2. rewrite <- app_assoc. reflexivity.
  Qed.

  Lemma g3_subs_shape : forall subs,
    forallb (fun s => match s with Pos (Gpos3_1 c r) => pos_wf F (Gpos3_1 c r) | _ => false end) subs = true ->
    exists ps, subs = map Pos ps /\ Forall g3_ok ps.
  Proof.
    induction subs as [|s r IH]; intros H.
    - exists []. split; auto.
    - cbn [forallb] in H. apply andb_true_iff in H. destruct H as [H1 H2].
      destruct (IH H2) as (ps & E & Hc). destruct s as [p| | | | | | | | |]; try discriminate.
      destruct p as [c r0|]; [|discriminate]. exists (Gpos3_1 c r0 :: ps). subst. split; auto. constructor; auto. split; auto.
  Qed.

  Lemma gpos_one_3 : forall lk l fu acc ts0, gpos3_lookup_wf F lk = true -> ends_gpos3 ts0 ->
    (length (lookup_toks U F k_GPOS lk l ++ ts0) < S (S fu))%nat ->
    exists ts', parse_loop F endl (S (S fu)) acc (lookup_toks U F k_GPOS lk l ++ ts0)
                = parse_loop F endl (S fu) (acc ++ [lk]) ts' /\ norm ts' = norm ts0.
  Proof.
    intros lk l fu acc ts0 Hlk Hts Hf. unfold gpos3_lookup_wf in Hlk. split_wf Hlk.
    destruct lk as [ty fl subs]. cbn [l_type l_flags l_subs] in *.
    match goal with Hx : (ty =? 3) = true |- _ => apply N.eqb_eq in Hx; subst ty end.
    match goal with Hx : forallb _ subs = true |- _ => destruct (g3_subs_shape _ Hx) as (ps & Es & Hps) end.
    subst subs. destruct ps as [|p ps]; [discriminate|].
    inversion Hps as [|? ? Hp _]; subst.
    destruct (g3_shape p l Hp) as (g & r & recs & Et & Et1 & Ed1 & _).
    unfold lookup_toks, hdr_toks in *. cbn [l_subs l_type l_flags map subs_toks sub_toksp sub_dlp app] in *.
    rewrite Et1, Ed1 in *. rewrite <- !app_assoc in *. cbn [app] in *.
    replace (l + (1 + pos_dl p false)) with (l + 1 + pos_dl p false) in * by lia.
    cbn [parse_loop]. unfold bind at 1. cbn [read ttyp tval].
    change (list_eqb (k_GPOS ++ digits 3) k_GSUB1) with false. change (list_eqb (k_GPOS ++ digits 3) k_GSUB2) with false.
    change (list_eqb (k_GPOS ++ digits 3) k_GSUB3) with false. change (list_eqb (k_GPOS ++ digits 3) k_GSUB4) with false.
    change (list_eqb (k_GPOS ++ digits 3) k_GSUB5) with false. change (list_eqb (k_GPOS ++ digits 3) k_GSUB6) with false.
    change (list_eqb (k_GPOS ++ digits 3) k_GPOS1) with false. change (list_eqb (k_GPOS ++ digits 3) k_GPOS2) with false.
    change (list_eqb (k_GPOS ++ digits 3) k_GPOS3) with true. cbv iota.
    unfold bind at 1. unfold read_gpos3. unfold bind at 1.
    destruct (g3_shape p (l + 1) Hp) as (g2 & r2 & recs2 & Et2 & _).
    assert (Eh : exists t ts, pos_toks U F p false (l + 1) = t :: ts /\ after_flags t = true).
    { rewrite Et2. unfold rec_toks. cbn [app]. eexists. eexists. split; [reflexivity|apply after_flags_glyph_tok]. }
    destruct Eh as (t & ts & Eh & Ah). rewrite Eh in *. cbn [app] in *.
    rewrite header_ok_nl; auto; [|clear - Hf; fuel_tac].
    change (t :: ts ++ subs_toks U F (fun l0 => tk TIdent (k_GPOS ++ digits 3) l0 :: tk TColon [58] l0 :: flag_toks fl l0) (map Pos ps) false (l + 1 + pos_dl p false) ++ ts0)
      with ((t :: ts) ++ subs_toks U F (fun l0 => tk TIdent (k_GPOS ++ digits 3) l0 :: tk TColon [58] l0 :: flag_toks fl l0) (map Pos ps) false (l + 1 + pos_dl p false) ++ ts0).
    rewrite <- Eh in *.
    destruct (gpos3_loop_ok ps (fun l0 => tk TIdent (k_GPOS ++ digits 3) l0 :: tk TColon [58] l0 :: flag_toks fl l0) p (l + 1) (S (S fu)) [] ts0 Hps Hts) as (ts' & El & En).
    - rewrite Eh. clear - Hf. fuel_tac.
    - unfold bind at 1. rewrite El. cbn [app]. unfold ret, mk_lookup. exists ts'. auto.
  Qed.

  (* ================= GPOS4 ================= *)
  (* the loops of readGpos4 (and readGpos2, format 2) swallow the newline after
     their last line *)
  Definition skip_eol (ts : list token) : list token :=
    match ts with t :: r => if ityp_eqb (ttyp t) TEOL then r else ts | [] => [] end.

  Lemma optional_eol_skip : forall ts, exists b ts',
    optional endl TEOL ts = POk (b, ts') /\ norm ts' = norm (skip_eol ts).
  Proof.
    intros [|t r].
    - exists false, (norm []). split; [apply optional_miss_n; reflexivity|reflexivity].
    - cbn [skip_eol]. destruct (ityp_eqb (ttyp t) TEOL) eqn:E.
      + exists true, r. split; [apply optional_hit; exact E|reflexivity].
      + exists false, (norm (t :: r)). split; [apply optional_miss_n; exact E|apply norm_idem].
  Qed.

  Lemma is_ident_norm : forall ts s, is_ident (peek_tok endl (norm ts)) s = is_ident (peek_tok endl ts) s.
  Proof.
    intros [|t [|t' r]] s; cbn; auto. destruct (is_syn_eof endl t) eqn:E; cbn; auto.
    unfold is_syn_eof in E. repeat (apply andb_true_iff in E; destruct E as [E ?]).
    unfold is_ident. destruct (ttyp t); cbn in E; try discriminate. reflexivity.
  Qed.

  Lemma peek_ident_same : forall a b s, norm a = norm b ->
    is_ident (peek_tok endl a) s = is_ident (peek_tok endl b) s.
  Proof. intros a b s H. rewrite <- (is_ident_norm a), <- (is_ident_norm b), H. reflexivity. Qed.

  Lemma optional_ident_miss_n : forall s ts, is_ident (peek_tok endl ts) s = false ->
    optional_ident endl s ts = POk (false, norm ts).
  Proof.
    intros s ts H. destruct (read_unread ts) as [R W]. unfold optional_ident, bind. rewrite R, H, W. reflexivity.
  Qed.

  Lemma optional_ident_hit : forall s l ts, optional_ident endl s (tk TIdent s l :: ts) = POk (true, ts).
  Proof.
    intros s l ts. unfold optional_ident, bind, read, is_ident. cbn [ttyp tval ityp_eqb].
    rewrite list_eqb_refl. reflexivity.
  Qed.

  Lemma read_uint16_hit : forall c l ts, c < 65536 ->
    read_uint16 endl (tk TInt (digits c) l :: ts) = POk (c, ts).
  Proof.
    intros c l ts H. unfold read_uint16, bind, read. cbn [ttyp ityp_eqb tval]. rewrite atoi_digits_nat.
    assert (E : ((Z.of_N c <? 0)%Z || (65535 <? Z.of_N c)%Z) = false) by lia. rewrite E.
    rewrite N2Z.id. reflexivity.
  Qed.

  Lemma lines_toks_app_gen : forall a b first l,
    lines_toks (a ++ b) first l
    = lines_toks a first l ++ lines_toks b (if is_nil a then first else true) (l + lines_dl (length a) first).
  Proof.
    induction a as [|it r IH]; intros b first l.
    - cbn. rewrite N.add_0_r. reflexivity.
    - cbn [app lines_toks lines_dl length is_nil]. rewrite IH. rewrite <- !app_assoc.
      f_equal. f_equal. f_equal.
      assert (E : (if is_nil r then true else true) = true) by (destruct r; reflexivity). rewrite E.
      f_equal. destruct first; lia.
  Qed.

  Lemma not_after_ok : forall gl g, (forall q, last_opt gl = Some q -> q < g) -> not_after gl g = false.
  Proof.
    intros gl g H. unfold not_after. destruct (last_opt gl) as [q|]; auto.
    specialize (H q eq_refl). apply N.leb_gt. exact H.
  Qed.

  Definition mark_ok (e : N * (N * anchor)) : Prop :=
    fst e < num_glyphs F /\ fst (snd e) < 65536 /\ anchor_ok (snd (snd e)) = true.

  Lemma gpos4_marks_ok : forall ms m l fuel gl ma tail,
    Forall mark_ok (m :: ms) -> ascending (map fst (m :: ms)) ->
    (forall q, last_opt gl = Some q -> q < fst m) ->
    is_ident (peek_tok endl (skip_eol tail)) k_mark = false ->
    (length (lines_toks (map (mark_toks U F) (m :: ms)) false l ++ tail) < fuel)%nat ->
    exists ts', gpos4_marks F endl fuel gl ma (lines_toks (map (mark_toks U F) (m :: ms)) false l ++ tail)
                = POk ((gl ++ map fst (m :: ms), ma ++ map snd (m :: ms)), ts')
                /\ norm ts' = norm (skip_eol tail).
  Proof.
    induction ms as [|m' ms IH]; intros m l fuel gl ma tail Hm Ha Hl Ht Hf;
      (destruct fuel as [|[|fu]]; [cbn in Hf; lia|cbn in Hf; lia|]);
      inversion Hm as [|? ? Hm1 Hms]; subst; destruct Hm1 as (Hg & Hc & Hxy);
      destruct m as [g [cls [x y]]]; cbn [fst snd] in Hg, Hc, Hxy, Hl;
      unfold anchor_ok in Hxy; cbn [fst snd] in Hxy; apply andb_true_iff in Hxy; destruct Hxy as [Hx Hy];
      cbn [map lines_toks app]; unfold mark_toks at 1; cbn [fst snd app gpos4_marks];
      unfold bind at 1; rewrite optional_ident_hit; cbv iota;
      unfold bind at 1; unfold read_glyph; unfold bind at 1; rewrite rgl_one by (auto; reflexivity);
      unfold ret at 1; rewrite (not_after_ok gl g Hl);
      unfold bind at 1; rewrite optional_hit by reflexivity;
      unfold bind at 1; rewrite read_uint16_hit by exact Hc;
      unfold bind at 1; rewrite required_hit by reflexivity;
      unfold bind at 1; rewrite (read_int16_hit' _ x) by (auto; apply atoi_digits_z);
      unfold bind at 1; rewrite required_hit by reflexivity;
      unfold bind at 1; rewrite (read_int16_hit' _ y) by (auto; apply atoi_digits_z);
      unfold bind at 1; rewrite optional_hit by reflexivity.
    - cbn [lines_toks app]. destruct (optional_eol_skip tail) as (b & ts1 & E1 & N1).
      unfold bind at 1. rewrite E1. cbn [gpos4_marks].
      unfold bind at 1. rewrite optional_ident_miss_n by (rewrite (peek_ident_same ts1 (skip_eol tail)); auto).
      unfold ret. eexists. split; [reflexivity|]. rewrite norm_idem. exact N1.
    - cbn [map lines_toks app]. unfold bind at 1. rewrite optional_hit by reflexivity.
      destruct (IH m' (l + 1) (S fu) (gl ++ [g]) (ma ++ [(cls, (x, y))]) tail Hms) as (ts' & E & Nn); auto.
      + apply (ascending_tail g). exact Ha.
      + intros q Hq. rewrite last_opt_app in Hq. injection Hq as Hq. subst q.
        assert (HL : Forall (fun y => g < y) (map fst (m' :: ms)))
          by (apply (ascending_lt_all (map fst (m' :: ms)) g); exact Ha).
        inversion HL; auto.
      + clear - Hf. cbn [map lines_toks app] in *. unfold mark_toks in *. fuel_tac.
      + exists ts'. split; auto. rewrite <- !app_assoc in E. exact E.
  Qed.

  Lemma gpos4_anchors_ok : forall an i0 l rest, Forall (fun a => anchor_ok a = true) an ->
    gpos4_anchors endl (length an) i0 (concat (map (fun a => anchor_toks a l) an) ++ t_semi l :: rest)
    = POk (an, t_semi l :: rest).
  Proof.
    induction an as [|[x y] an IH]; intros i0 l rest H; [reflexivity|].
    inversion H as [|? ? Ha Hr]; subst. unfold anchor_ok in Ha. cbn [fst snd] in Ha.
    apply andb_true_iff in Ha. destruct Ha as [Hx Hy].
    cbn [length gpos4_anchors map concat]. unfold anchor_toks at 1. cbn [fst snd app].
    assert (E0 : ((if i0 then ret false else optional endl TComma) ;;;
                  required endl TAt ;;; x0 <- read_int16 endl ;; required endl TComma ;;; y0 <- read_int16 endl ;;
                  r <- gpos4_anchors endl (length an) false ;; ret ((x0, y0) :: r))
                 (t_at l :: tk TInt (digits_z x) l :: t_comma l :: tk TInt (digits_z y) l
                    :: concat (map (fun a => anchor_toks a l) an) ++ t_semi l :: rest)
               = (required endl TAt ;;; x0 <- read_int16 endl ;; required endl TComma ;;; y0 <- read_int16 endl ;;
                  r <- gpos4_anchors endl (length an) false ;; ret ((x0, y0) :: r))
                 (t_at l :: tk TInt (digits_z x) l :: t_comma l :: tk TInt (digits_z y) l
                    :: concat (map (fun a => anchor_toks a l) an) ++ t_semi l :: rest)).
    { destruct i0; unfold bind at 1; [reflexivity|]. rewrite optional_miss by reflexivity. reflexivity. }
    rewrite E0.
    unfold bind at 1. rewrite required_hit by reflexivity.
    unfold bind at 1. rewrite (read_int16_hit' _ x) by (auto; apply atoi_digits_z).
    unfold bind at 1. rewrite required_hit by reflexivity.
    unfold bind at 1. rewrite (read_int16_hit' _ y) by (auto; apply atoi_digits_z).
    unfold bind at 1. rewrite IH by auto. reflexivity.
  Qed.

  Definition base_ok (nc : nat) (e : N * list anchor) : Prop :=
    fst e < num_glyphs F /\ length (snd e) = nc /\ Forall (fun a => anchor_ok a = true) (snd e).

  Lemma gpos4_bases_ok : forall bs b l fuel nc gl ba tail,
    Forall (base_ok nc) (b :: bs) -> ascending (map fst (b :: bs)) ->
    (forall q, last_opt gl = Some q -> q < fst b) ->
    is_ident (peek_tok endl (skip_eol tail)) k_base = false ->
    (length (lines_toks (map (base_toks U F) (b :: bs)) false l ++ tail) < fuel)%nat ->
    exists ts', gpos4_bases F endl fuel nc gl ba (lines_toks (map (base_toks U F) (b :: bs)) false l ++ tail)
                = POk ((gl ++ map fst (b :: bs), ba ++ map snd (b :: bs)), ts')
                /\ norm ts' = norm (skip_eol tail).
  Proof.
    induction bs as [|b' bs IH]; intros b l fuel nc gl ba tail Hb Ha Hl Ht Hf;
      (destruct fuel as [|[|fu]]; [cbn in Hf; lia|cbn in Hf; lia|]);
      inversion Hb as [|? ? Hb1 Hbs]; subst; destruct Hb1 as (Hg & Hn & Han);
      destruct b as [g an]; cbn [fst snd] in Hg, Hn, Han, Hl; subst nc;
      cbn [map lines_toks app]; unfold base_toks at 1; cbn [fst snd app gpos4_bases];
      rewrite <- !app_assoc; cbn [app];
      unfold bind at 1; rewrite optional_ident_hit; cbv iota;
      unfold bind at 1; unfold read_glyph; unfold bind at 1; rewrite rgl_one by (auto; reflexivity);
      unfold ret at 1; rewrite (not_after_ok gl g Hl);
      unfold bind at 1; rewrite optional_hit by reflexivity;
      unfold bind at 1; rewrite gpos4_anchors_ok by exact Han;
      unfold bind at 1; rewrite optional_hit by reflexivity.
    - cbn [lines_toks app]. destruct (optional_eol_skip tail) as (b0 & ts1 & E1 & N1).
      unfold bind at 1. rewrite E1. cbn [gpos4_bases].
      unfold bind at 1. rewrite optional_ident_miss_n by (rewrite (peek_ident_same ts1 (skip_eol tail)); auto).
      unfold ret. eexists. split; [reflexivity|]. rewrite norm_idem. exact N1.
    - cbn [map lines_toks app]. unfold bind at 1. rewrite optional_hit by reflexivity.
      destruct (IH b' (l + 1) (S fu) (length an) (gl ++ [g]) (ba ++ [an]) tail Hbs) as (ts' & E & Nn); auto.
      + apply (ascending_tail g). exact Ha.
      + intros q Hq. rewrite last_opt_app in Hq. injection Hq as Hq. subst q.
        assert (HL : Forall (fun y => g < y) (map fst (b' :: bs)))
          by (apply (ascending_lt_all (map fst (b' :: bs)) g); exact Ha).
        inversion HL; auto.
      + clear - Hf. cbn [map lines_toks app] in *. unfold base_toks in *. fuel_tac.
      + exists ts'. split; auto. rewrite <- !app_assoc in E. exact E.
  Qed.

  Definition g4_ok (p : pos_sub) : Prop :=
    pos_wf F p = true /\ match p with Gpos4_1 _ _ _ _ => True | _ => False end.
  Definition ends4 (ts0 : list token) : Prop :=
    is_ident (peek_tok endl (skip_eol ts0)) k_mark = false
    /\ is_ident (peek_tok endl (skip_eol ts0)) k_base = false.

  Lemma map_snd_combine : forall {A B} (a : list A) (b : list B),
    length a = length b -> map snd (combine a b) = b.
  Proof. induction a; destruct b; cbn; intros; try discriminate; auto. f_equal. apply IHa. lia. Qed.

  (* the body of the subtable loop of readGpos4 *)
  Lemma gpos4_sub_ok : forall mc ma bc ba l fuel ts0,
    g4_ok (Gpos4_1 mc ma bc ba) -> ends4 ts0 ->
    (length (pos_toks U F (Gpos4_1 mc ma bc ba) false l ++ ts0) < fuel)%nat ->
    exists ts1 ts',
      gpos4_marks F endl fuel [] [] (pos_toks U F (Gpos4_1 mc ma bc ba) false l ++ ts0) = POk ((mc, ma), ts1)
      /\ classes_complete (map fst ma) = true
      /\ gpos4_bases F endl fuel (num_classes (map fst ma)) [] [] ts1 = POk ((bc, ba), ts')
      /\ norm ts' = norm (skip_eol ts0).
  Proof.
    intros mc ma bc ba l fuel ts0 [W _] [Hk1 Hk2] Hf. cbn [pos_wf] in W. split_wf W.
    assert (Hmc : Forall (fun g => g < num_glyphs F) mc) by (apply gids_ok_forall; assumption).
    assert (Hbc : Forall (fun g => g < num_glyphs F) bc) by (apply gids_ok_forall; assumption).
    assert (Am : ascending mc) by (apply ascendingb_spec; assumption).
    assert (Ab : ascending bc) by (apply ascendingb_spec; assumption).
    assert (Lm : length mc = length ma) by (apply Nat.eqb_eq; assumption).
    assert (Lb : length bc = length ba) by (apply Nat.eqb_eq; assumption).
    assert (Hma : Forall (fun m : N * anchor => ((fst m <? 65536) && anchor_ok (snd m)) = true) ma)
      by (apply forallb_Forall; assumption).
    assert (Hba : Forall (fun an : list anchor => ((length an =? num_classes (map fst ma))%nat && forallb anchor_ok an) = true) ba)
      by (apply forallb_Forall; assumption).
    assert (Hcc : classes_complete (map fst ma) = true) by assumption.
    assert (Mk : Forall mark_ok (combine mc ma)).
    { pose proof (Forall_combine (fun g => g < num_glyphs F) _ mc ma Hmc Hma) as G.
      eapply Forall_impl; [|exact G]. intros e [A B]. apply andb_true_iff in B. destruct B as [B1 B2].
      unfold mark_ok. repeat split; auto. apply N.ltb_lt. exact B1. }
    assert (Bk : Forall (base_ok (num_classes (map fst ma))) (combine bc ba)).
    { pose proof (Forall_combine (fun g => g < num_glyphs F) _ bc ba Hbc Hba) as G.
      eapply Forall_impl; [|exact G]. intros e [A B]. apply andb_true_iff in B. destruct B as [B1 B2].
      unfold base_ok. repeat split; auto. apply Nat.eqb_eq. exact B1.
      apply forallb_Forall in B2. exact B2. }
    unfold pos_toks, gpos4_items in *.
    destruct (combine mc ma) as [|m ms] eqn:Ecm.
    { destruct mc; [discriminate|]. destruct ma; [discriminate|discriminate]. }
    assert (Efm : map fst (m :: ms) = mc) by (rewrite <- Ecm; apply map_fst_combine; auto).
    assert (Esm : map snd (m :: ms) = ma) by (rewrite <- Ecm; apply map_snd_combine; auto).
    assert (Efb : map fst (combine bc ba) = bc) by (apply map_fst_combine; auto).
    assert (Esb : map snd (combine bc ba) = ba) by (apply map_snd_combine; auto).
    rewrite lines_toks_app_gen in *. cbn [is_nil map] in Hf |- *. rewrite <- app_assoc in *.
    set (lm := l + lines_dl (length (mark_toks U F m :: map (mark_toks U F) ms)) false) in *.
    destruct (combine bc ba) as [|b bs] eqn:Ecb.
    - (* no base glyphs *)
      change (lines_toks (map (base_toks U F) []) true lm ++ ts0) with ts0 in *.
      destruct (gpos4_marks_ok ms m l fuel [] [] ts0 Mk) as (ts1 & E1 & N1); auto.
      { rewrite Efm. exact Am. }
      { intros q Hq. discriminate Hq. }
      exists ts1. cbn [app] in E1. rewrite Efm, Esm in E1.
      destruct fuel as [|fu]; [cbn in Hf; lia|].
      eexists. split; [exact E1|]. split; [exact Hcc|]. cbn [gpos4_bases].
      unfold bind at 1. rewrite optional_ident_miss_n by (rewrite (peek_ident_same ts1 (skip_eol ts0)); auto).
      unfold ret. cbn [map] in Efb, Esb. rewrite <- Efb, <- Esb. split; [reflexivity|].
      rewrite norm_idem. exact N1.
    - set (tail := lines_toks (map (base_toks U F) (b :: bs)) true lm ++ ts0) in *.
      assert (Etl : tail = tk TEOL [10] lm :: (base_toks U F b (lm + 1) ++ lines_toks (map (base_toks U F) bs) true (lm + 1) ++ ts0))
        by (unfold tail; cbn [map lines_toks app]; rewrite <- app_assoc; reflexivity).
      destruct (gpos4_marks_ok ms m l fuel [] [] tail Mk) as (ts1 & E1 & N1); auto.
      { rewrite Efm. exact Am. }
      { intros q Hq. discriminate Hq. }
      cbn [app] in E1. rewrite Efm, Esm in E1.
      assert (Ets : ts1 = base_toks U F b (lm + 1) ++ lines_toks (map (base_toks U F) bs) true (lm + 1) ++ ts0).
      { rewrite Etl in N1. cbn [skip_eol ttyp ityp_eqb] in N1. unfold base_toks in N1 at 1. cbn [app] in N1.
        rewrite norm_cons2 in N1. apply norm_eq_cons in N1. rewrite N1. unfold base_toks. reflexivity. }
      exists ts1.
      destruct (gpos4_bases_ok bs b (lm + 1) fuel (num_classes (map fst ma)) [] [] ts0 Bk) as (ts' & E2 & N2); auto.
      { rewrite Efb. exact Ab. }
      { intros q Hq. discriminate Hq. }
      { clear - Hf Etl. rewrite Etl in Hf. rewrite app_length in Hf. cbn [length] in Hf.
        cbn [map lines_toks app]. rewrite <- app_assoc. lia. }
      exists ts'. split; [exact E1|]. split; [exact Hcc|]. split; [|exact N2].
      rewrite Ets. rewrite Efb, Esb in E2. cbn [map lines_toks app] in E2. rewrite <- app_assoc in E2. exact E2.
  Qed.

  (* one GPOS lookup inside parse(): the generic list lemma *)
  (* what follows a lookup in the text written by ExplainGpos: the end, or a
     newline and the next lookup *)
  Definition ends_top (ts0 : list token) : Prop :=
    (exists e, ts0 = [tk TEOF [] e])
    \/ (exists e ty l2 more, ts0 = tk TEOL [10] e :: tk TIdent (k_GPOS ++ digits ty) l2 :: tk TColon [58] l2 :: more).
  Lemma ends_top_gpos : forall ts0, ends_top ts0 -> ends_gpos ts0.
  Proof.
    intros ts0 [(e & H)|(e & ty & l2 & more & H)]; subst; unfold ends_gpos; cbn; repeat split; reflexivity.
  Qed.
  Lemma ends_top_gpos3 : forall ts0, ends_top ts0 -> ends_gpos3 ts0.
  Proof.
    intros ts0 H. split; [apply ends_top_gpos; auto|].
    destruct H as [(e & H)|(e & ty & l2 & more & H)]; subst; unfold ends3; reflexivity.
  Qed.
  Lemma ends_top_gpos4 : forall ts0, ends_top ts0 ->
    ends4 ts0 /\ ityp_eqb (ttyp (peek_tok endl (skip_eol ts0))) TOr = false.
  Proof.
    intros ts0 [(e & H)|(e & ty & l2 & more & H)]; subst; unfold ends4; cbn; repeat split; reflexivity.
  Qed.

  Lemma gpos_toks_head : forall lk r l X, l_subs lk <> [] ->
    exists more, gpos_toks U F (lk :: r) l ++ X
                 = tk TIdent (k_GPOS ++ digits (l_type lk)) l :: tk TColon [58] l :: more.
  Proof.
    intros lk r l X H. destruct r; cbn [gpos_toks]; unfold lookup_toks; destruct (l_subs lk) as [|s ss]; try congruence;
      cbn [subs_toks]; unfold hdr_toks; cbn [app]; eexists; reflexivity.
  Qed.

  Lemma gpos_list_ok : forall (wf : lookup -> Prop),
    (forall lk, wf lk -> l_subs lk <> []) ->
    (forall (lk : lookup) (l : N) (fu : nat) (acc : list lookup) (ts0 : list token), wf lk -> ends_top ts0 ->
       (length (lookup_toks U F k_GPOS lk l ++ ts0) < S (S fu))%nat ->
       exists ts', parse_loop F endl (S (S fu)) acc (lookup_toks U F k_GPOS lk l ++ ts0)
                   = parse_loop F endl (S fu) (acc ++ [lk]) ts'
                   /\ (norm ts' = norm ts0 \/ norm ts' = norm (skip_eol ts0))) ->
    forall ll l fuel acc e, Forall wf ll ->
    (length (gpos_toks U F ll l ++ [tk TEOF [] e]) < fuel)%nat ->
    exists ts', parse_loop F endl fuel acc (gpos_toks U F ll l ++ [tk TEOF [] e]) = POk (acc ++ ll, ts').
  Proof.
    intros wf Hne Hone. induction ll as [|lk r IH]; intros l fuel acc e H Hf.
    - destruct fuel; [cbn in Hf; lia|]. cbn. rewrite app_nil_r. eexists. reflexivity.
    - inversion H as [|? ? Hlk Hr]; subst.
      pose proof (lookup_toks_len k_GPOS lk l (Hne lk Hlk)) as Hl2.
      destruct r as [|lk2 r'].
      + cbn [gpos_toks] in *.
        destruct fuel as [|[|fu]]; try (exfalso; clear - Hf Hl2; fuel_tac).
        destruct (Hone lk l fu acc [tk TEOF [] e] Hlk) as (ts' & Er & En); [left; eexists; reflexivity|exact Hf|].
        assert (En' : norm ts' = norm [tk TEOF [] e]) by (destruct En as [En|En]; exact En).
        rewrite Er. cbn [parse_loop]. unfold bind at 1.
        destruct (read_unread ts') as [R _]. rewrite R.
        rewrite (peek_typ_same ts' [tk TEOF [] e] En'). cbn [peek_tok ttyp]. unfold ret. eauto.
      + assert (Eg : gpos_toks U F (lk :: lk2 :: r') l
                     = lookup_toks U F k_GPOS lk l ++ [tk TEOL [10] (l + subs_dl (l_subs lk))]
                         ++ gpos_toks U F (lk2 :: r') (l + subs_dl (l_subs lk) + 1)) by reflexivity.
        rewrite Eg in *. clear Eg. rewrite <- !app_assoc in *. cbn [app] in *.
        set (rest := gpos_toks U F (lk2 :: r') (l + subs_dl (l_subs lk) + 1) ++ [tk TEOF [] e]) in *.
        inversion Hr as [|? ? Hlk2 _]; subst.
        destruct (gpos_toks_head lk2 r' (l + subs_dl (l_subs lk) + 1) [tk TEOF [] e] (Hne lk2 Hlk2)) as (more & Em).
        fold rest in Em.
        destruct fuel as [|[|fu]]; try (exfalso; clear - Hf Hl2; fuel_tac).
        destruct (Hone lk l fu acc (tk TEOL [10] (l + subs_dl (l_subs lk)) :: rest) Hlk) as (ts' & Er & En);
          [right; rewrite Em; do 4 eexists; reflexivity|exact Hf|].
        rewrite Er.
        destruct fu as [|fu']; [exfalso; clear - Hf Hl2; fuel_tac|].
        assert (Hf2 : (length rest < S fu')%nat) by (clear - Hf Hl2; fuel_tac).
        destruct En as [En|En].
        * rewrite norm_cons_ne in En by reflexivity. apply norm_eq_cons in En. subst ts'.
          change (parse_loop F endl (S (S fu')) (acc ++ [lk]) (tk TEOL [10] (l + subs_dl (l_subs lk)) :: rest))
            with (parse_loop F endl (S fu') (acc ++ [lk]) rest).
          destruct (IH (l + subs_dl (l_subs lk) + 1) (S fu') (acc ++ [lk]) e Hr) as (ts'' & E2); [exact Hf2|].
          exists ts''. unfold rest. rewrite <- app_assoc in E2. exact E2.
        * cbn [skip_eol ttyp ityp_eqb] in En. rewrite Em in En. rewrite norm_cons2 in En.
          apply norm_eq_cons in En. rewrite <- Em in En. subst ts'.
          destruct (IH (l + subs_dl (l_subs lk) + 1) (S (S fu')) (acc ++ [lk]) e Hr) as (ts'' & E2); [unfold rest in Hf2; lia|].
          exists ts''. unfold rest. rewrite <- app_assoc in E2. exact E2.
  Qed.

  (* ---- GPOS4: the subtable loop and the lookup ---- *)
  Lemma gpos4_loop_ok : forall ps hdr p l fuel acc ts0,
    Forall g4_ok (p :: ps) -> ends4 ts0 -> ityp_eqb (ttyp (peek_tok endl (skip_eol ts0))) TOr = false ->
    (length (pos_toks U F p false l ++ subs_toks U F hdr (map Pos ps) false (l + pos_dl p false) ++ ts0) < fuel)%nat ->
    exists ts', gpos4_loop F endl fuel acc (pos_toks U F p false l ++ subs_toks U F hdr (map Pos ps) false (l + pos_dl p false) ++ ts0)
                = POk (acc ++ map Pos (p :: ps), ts') /\ norm ts' = norm (skip_eol ts0).
  Proof.
    induction ps as [|p' ps IH]; intros hdr p l fuel acc ts0 Hs Hts Hor Hf;
      (destruct fuel as [|fu]; [cbn in Hf; lia|]);
      inversion Hs as [|? ? Hp Hps]; subst;
      (destruct p as [|mc ma bc ba]; [destruct Hp as [_ []]|]).
    - cbn [map subs_toks app] in *.
      destruct (gpos4_sub_ok mc ma bc ba l (S fu) ts0 Hp Hts Hf) as (ts1 & ts2 & E1 & Hcc & E2 & N2).
      change (gpos4_loop F endl (S fu) acc) with
        (fun ts => (mm <- gpos4_marks F endl (S fu) [] [] ;;
           if classes_complete (map fst (snd mm)) then
             bb <- gpos4_bases F endl (S fu) (num_classes (map fst (snd mm))) [] [] ;;
             b <- optional endl TOr ;;
             if b then (optional endl TEOL ;;; gpos4_loop F endl fu (acc ++ [Pos (Gpos4_1 (fst mm) (snd mm) (fst bb) (snd bb))]))
             else ret (acc ++ [Pos (Gpos4_1 (fst mm) (snd mm) (fst bb) (snd bb))])
           else fatal endl) ts).
      cbv beta. unfold bind at 1. rewrite E1. cbn [fst snd]. rewrite Hcc.
      unfold bind at 1. rewrite E2. cbn [fst snd].
      unfold bind at 1. rewrite optional_miss_n by (rewrite (peek_typ_same ts2 (skip_eol ts0) N2); exact Hor).
      unfold ret. eexists. split; [reflexivity|]. rewrite norm_idem. exact N2.
    - cbn [map subs_toks] in *. cbn [sub_toksp sub_dlp] in *. rewrite <- !app_assoc in *. cbn [app] in *.
      set (l0 := l + pos_dl (Gpos4_1 mc ma bc ba) false) in *.
      set (X := tk TOr [124; 124] l0 :: tk TEOL [10] l0 :: pos_toks U F p' false (l0 + 1)
                  ++ subs_toks U F hdr (map Pos ps) false (l0 + 1 + pos_dl p' false) ++ ts0) in *.
      assert (HX : ends4 X) by (split; reflexivity).
      destruct (gpos4_sub_ok mc ma bc ba l (S fu) X Hp HX Hf) as (ts1 & ts2 & E1 & Hcc & E2 & N2).
      assert (Ex : ts2 = X).
      { unfold X in N2. cbn [skip_eol ttyp ityp_eqb] in N2. rewrite norm_cons2 in N2. apply norm_eq_cons in N2. exact N2. }
      subst ts2.
      change (gpos4_loop F endl (S fu) acc) with
        (fun ts => (mm <- gpos4_marks F endl (S fu) [] [] ;;
           if classes_complete (map fst (snd mm)) then
             bb <- gpos4_bases F endl (S fu) (num_classes (map fst (snd mm))) [] [] ;;
             b <- optional endl TOr ;;
             if b then (optional endl TEOL ;;; gpos4_loop F endl fu (acc ++ [Pos (Gpos4_1 (fst mm) (snd mm) (fst bb) (snd bb))]))
             else ret (acc ++ [Pos (Gpos4_1 (fst mm) (snd mm) (fst bb) (snd bb))])
           else fatal endl) ts).
      cbv beta. unfold bind at 1. rewrite E1. cbn [fst snd]. rewrite Hcc.
      unfold bind at 1. rewrite E2. cbn [fst snd]. unfold X at 1.
      unfold bind at 1. rewrite optional_hit by reflexivity.
      unfold bind at 1. rewrite optional_hit by reflexivity.
      destruct (IH hdr p' (l0 + 1) fu (acc ++ [Pos (Gpos4_1 mc ma bc ba)]) ts0 Hps Hts Hor) as (ts'' & E3 & N3).
      + clear - Hf. unfold X in Hf. rewrite app_length in Hf. cbn [length] in Hf. lia.
      + exists ts''. split; auto. rewrite E3. rewrite <- app_assoc. reflexivity.
  Qed.

  Lemma g4_subs_shape : forall subs,
    forallb (fun s => match s with Pos (Gpos4_1 a b c d) => pos_wf F (Gpos4_1 a b c d) | _ => false end) subs = true ->
    exists ps, subs = map Pos ps /\ Forall g4_ok ps.
  Proof.
    induction subs as [|s r IH]; intros H.
    - exists []. split; auto.
    - cbn [forallb] in H. apply andb_true_iff in H. destruct H as [H1 H2].
      destruct (IH H2) as (ps & E & Hc). destruct s as [p| | | | | | | | |]; try discriminate.
      destruct p as [|a b c d]; [discriminate|]. exists (Gpos4_1 a b c d :: ps). subst. split; auto.
      constructor; auto. split; auto.
  Qed.

  Lemma g4_first : forall p l, g4_ok p ->
    pos_toks U F p true l = tk TEOL [10] l :: pos_toks U F p false (l + 1)
    /\ pos_dl p true = 1 + pos_dl p false
    /\ exists ts, pos_toks U F p false (l + 1) = tk TIdent k_mark (l + 1) :: ts.
  Proof.
    intros p l [W Wp]. destruct p as [|mc ma bc ba]; [contradiction|]. cbn [pos_wf] in W. split_wf W.
    unfold pos_toks, pos_dl, gpos4_items.
    destruct mc as [|g mc]; [discriminate|]. destruct ma as [|m ma]; [discriminate|].
    cbn [combine map app lines_toks length lines_dl Nat.add]. split; [reflexivity|]. split; [lia|].
    unfold mark_toks at 1. cbn [app]. eexists. reflexivity.
  Qed.

  Lemma gpos_one_4 : forall lk l fu acc ts0, gpos4_lookup_wf F lk = true ->
    ends4 ts0 -> ityp_eqb (ttyp (peek_tok endl (skip_eol ts0))) TOr = false ->
    (length (lookup_toks U F k_GPOS lk l ++ ts0) < S (S fu))%nat ->
    exists ts', parse_loop F endl (S (S fu)) acc (lookup_toks U F k_GPOS lk l ++ ts0)
                = parse_loop F endl (S fu) (acc ++ [lk]) ts' /\ norm ts' = norm (skip_eol ts0).
  Proof.
    intros lk l fu acc ts0 Hlk Hts Hor Hf. unfold gpos4_lookup_wf in Hlk. split_wf Hlk.
    destruct lk as [ty fl subs]. cbn [l_type l_flags l_subs] in *.
    match goal with Hx : (ty =? 4) = true |- _ => apply N.eqb_eq in Hx; subst ty end.
    match goal with Hx : forallb _ subs = true |- _ => destruct (g4_subs_shape _ Hx) as (ps & Es & Hps) end.
    subst subs. destruct ps as [|p ps]; [discriminate|].
    inversion Hps as [|? ? Hp _]; subst.
    destruct (g4_first p l Hp) as (Et1 & Ed1 & ts & Eh).
    unfold lookup_toks, hdr_toks in *. cbn [l_subs l_type l_flags map subs_toks sub_toksp sub_dlp app] in *.
    rewrite Et1, Ed1 in *. rewrite <- !app_assoc in *. cbn [app] in *.
    replace (l + (1 + pos_dl p false)) with (l + 1 + pos_dl p false) in * by lia.
    cbn [parse_loop]. unfold bind at 1. cbn [read ttyp tval].
    change (list_eqb (k_GPOS ++ digits 4) k_GSUB1) with false. change (list_eqb (k_GPOS ++ digits 4) k_GSUB2) with false.
    change (list_eqb (k_GPOS ++ digits 4) k_GSUB3) with false. change (list_eqb (k_GPOS ++ digits 4) k_GSUB4) with false.
    change (list_eqb (k_GPOS ++ digits 4) k_GSUB5) with false. change (list_eqb (k_GPOS ++ digits 4) k_GSUB6) with false.
    change (list_eqb (k_GPOS ++ digits 4) k_GPOS1) with false. change (list_eqb (k_GPOS ++ digits 4) k_GPOS2) with false.
    change (list_eqb (k_GPOS ++ digits 4) k_GPOS3) with false. change (list_eqb (k_GPOS ++ digits 4) k_GPOS4) with true.
    cbv iota.
    unfold bind at 1. unfold read_gpos4. unfold bind at 1.
    rewrite Eh in *. cbn [app] in *.
    rewrite header_ok_nl; auto; [|clear - Hf; fuel_tac].
    change (tk TIdent k_mark (l + 1) :: ts ++ subs_toks U F (fun l0 => tk TIdent (k_GPOS ++ digits 4) l0 :: tk TColon [58] l0 :: flag_toks fl l0) (map Pos ps) false (l + 1 + pos_dl p false) ++ ts0)
      with ((tk TIdent k_mark (l + 1) :: ts) ++ subs_toks U F (fun l0 => tk TIdent (k_GPOS ++ digits 4) l0 :: tk TColon [58] l0 :: flag_toks fl l0) (map Pos ps) false (l + 1 + pos_dl p false) ++ ts0).
    rewrite <- Eh.
    destruct (gpos4_loop_ok ps (fun l0 => tk TIdent (k_GPOS ++ digits 4) l0 :: tk TColon [58] l0 :: flag_toks fl l0) p (l + 1) (S (S fu)) [] ts0 Hps Hts Hor) as (ts' & El & En).
    - rewrite Eh. clear - Hf. fuel_tac.
    - unfold bind at 1. rewrite El. cbn [app]. unfold ret, mk_lookup. exists ts'. auto.
  Qed.

  Lemma gpos_one_1 : forall lk l fu acc ts0, gpos_lookup_wf F lk = true -> ends_gpos ts0 ->
    (length (lookup_toks U F k_GPOS lk l ++ ts0) < S (S fu))%nat ->
    exists ts', parse_loop F endl (S (S fu)) acc (lookup_toks U F k_GPOS lk l ++ ts0)
                = parse_loop F endl (S fu) (acc ++ [lk]) ts' /\ norm ts' = norm ts0.
  Proof.
    intros lk l fu acc ts0 Hlk Hts Hf.
    destruct (read_gpos1_ok lk l (S (S fu)) ts0 Hlk Hts Hf) as (ts' & Er & En).
    exists ts'. split; auto. rewrite (gpos_head lk l Hlk). cbn [app parse_loop].
    unfold bind at 1. cbn [read ttyp tval].
    change (list_eqb k_GPOS1 k_GSUB1) with false. change (list_eqb k_GPOS1 k_GSUB2) with false.
    change (list_eqb k_GPOS1 k_GSUB3) with false. change (list_eqb k_GPOS1 k_GSUB4) with false.
    change (list_eqb k_GPOS1 k_GSUB5) with false. change (list_eqb k_GPOS1 k_GSUB6) with false.
    change (list_eqb k_GPOS1 k_GPOS1) with true. cbv iota.
    unfold bind at 1. rewrite Er. reflexivity.
  Qed.

  Lemma gpos_parse_ok : forall ll l fuel acc e,
    Forall (fun lk => gpos_lookup_wf F lk = true) ll ->
    (length (gpos_toks U F ll l ++ [tk TEOF [] e]) < fuel)%nat ->
    exists ts', parse_loop F endl fuel acc (gpos_toks U F ll l ++ [tk TEOF [] e]) = POk (acc ++ ll, ts').
  Proof.
    apply (gpos_list_ok (fun lk => gpos_lookup_wf F lk = true)).
    - intros lk H E. unfold gpos_lookup_wf in H. rewrite E in H. cbn [is_nil negb] in H.
      rewrite andb_false_r in H. discriminate.
    - intros lk l fu acc ts0 H Ht Hf.
      destruct (gpos_one_1 lk l fu acc ts0 H (ends_top_gpos _ Ht) Hf) as (ts' & E1 & E2). exists ts'. auto.
  Qed.

  Lemma gpos_all_parse_ok : forall ll l fuel acc e,
    Forall (fun lk => gpos_lookup_wf_all F lk = true) ll ->
    (length (gpos_toks U F ll l ++ [tk TEOF [] e]) < fuel)%nat ->
    exists ts', parse_loop F endl fuel acc (gpos_toks U F ll l ++ [tk TEOF [] e]) = POk (acc ++ ll, ts').
  Proof.
    apply (gpos_list_ok (fun lk => gpos_lookup_wf_all F lk = true)).
    - intros lk H E. unfold gpos_lookup_wf_all, gpos_lookup_wf, gpos3_lookup_wf, gpos4_lookup_wf in H. rewrite E in H.
      cbn [is_nil negb] in H. rewrite ?andb_false_r in H. discriminate.
    - intros lk l fu acc ts0 H Ht Hf. unfold gpos_lookup_wf_all in H.
      repeat (apply orb_true_iff in H; destruct H as [H|H]).
      + destruct (gpos_one_1 lk l fu acc ts0 H (ends_top_gpos _ Ht) Hf) as (ts' & E1 & E2). exists ts'. auto.
      + destruct (gpos_one_3 lk l fu acc ts0 H (ends_top_gpos3 _ Ht) Hf) as (ts' & E1 & E2). exists ts'. auto.
      + destruct (ends_top_gpos4 _ Ht) as [T1 T2].
        destruct (gpos_one_4 lk l fu acc ts0 H T1 T2 Hf) as (ts' & E1 & E2). exists ts'. auto.
  Qed.
End Parse.

(* ------------------------------------------------------------------ *)
(* The round trip                                                      *)

Lemma end_line_app : forall ts t, end_line (ts ++ [t]) = tline t.
Proof. intros. unfold end_line. rewrite last_opt_app. reflexivity. Qed.

Theorem parse_explain_gsub : forall U F ll,
  font_wf U F = true -> Forall (fun lk => gsub_lookup_wf F lk = true) ll ->
  M_parse U F (M_explain_gsub U F ll) = POk ll.
Proof.
  intros U F ll HF Hll. unfold M_parse. rewrite (ProofsExplain.lex_explain_gsub U F HF ll Hll).
  unfold M_parse_tokens. rewrite (gsub_parse_ok U F HF); auto. 
Qed.

Theorem parse_explain_gsub5 : forall U F ll,
  font_wf U F = true -> no_class_names F = true ->
  Forall (fun lk => gsub_lookup_wf5 F lk = true) ll ->
  M_parse U F (M_explain_gsub U F ll) = POk ll.
Proof.
  intros U F ll HF HK Hll. unfold M_parse. rewrite (ProofsExplain.lex_explain_gsub5 U F HF ll Hll).
  unfold M_parse_tokens. rewrite (gsub5_parse_ok U F HF _ HK); auto.
Qed.

Theorem parse_explain_gsub6 : forall U F ll,
  font_wf U F = true -> no_class_names F = true -> no_chain_names F = true ->
  Forall (fun lk => gsub_lookup_wf6 F lk = true) ll ->
  M_parse U F (M_explain_gsub U F ll) = POk ll.
Proof.
  intros U F ll HF HK HK6 Hll. unfold M_parse. rewrite (ProofsExplain.lex_explain_gsub6 U F HF ll Hll).
  unfold M_parse_tokens. rewrite (gsub6_parse_ok U F HF _ HK HK6); auto.
Qed.

Theorem parse_explain_gpos : forall U F ll,
  font_wf U F = true -> Forall (fun lk => gpos_lookup_wf F lk = true) ll ->
  M_parse U F (M_explain_gpos U F ll) = POk ll.
Proof.
  intros U F ll HF Hll. unfold M_parse. rewrite (ProofsExplain.lex_explain_gpos U F HF ll Hll).
  unfold M_parse_tokens.
  destruct (gpos_parse_ok U F HF (end_line (gpos_toks U F ll 1 ++ [tk TEOF [] (1 + gpos_dl ll)])) ll 1
              (S (S (length (gpos_toks U F ll 1 ++ [tk TEOF [] (1 + gpos_dl ll)])))) [] (1 + gpos_dl ll) Hll)
    as (ts' & E); [lia|]. rewrite E. reflexivity.
Qed.

Theorem parse_explain_gpos_all : forall U F ll,
  font_wf U F = true -> Forall (fun lk => gpos_lookup_wf_all F lk = true) ll ->
  M_parse U F (M_explain_gpos U F ll) = POk ll.
Proof.
  intros U F ll HF Hll. unfold M_parse. rewrite (ProofsExplain.lex_explain_gpos_all U F HF ll Hll).
  unfold M_parse_tokens.
  destruct (gpos_all_parse_ok U F HF (end_line (gpos_toks U F ll 1 ++ [tk TEOF [] (1 + gpos_dl ll)])) ll 1
              (S (S (length (gpos_toks U F ll 1 ++ [tk TEOF [] (1 + gpos_dl ll)])))) [] (1 + gpos_dl ll) Hll)
    as (ts' & E); [lia|]. rewrite E. reflexivity.
Qed.
