(* C19/Render.v — the item stream the lexer produces for the text written by
   M_explain, defined directly on the lookup structures.  This is a proof
   device: ProofsExplain shows  M_lex (M_explain ll) = these items,
   ProofsParse shows that M_parse_tokens maps them back to ll. *)
From Coq Require Import List NArith ZArith Bool Arith.
From Gen Require Import C19.
From C19 Require Import Model.
Import ListNotations.
Import K.
Local Open Scope N_scope.

Notation tk := mkTok.

Section Render.
  Variable U : uclass.
  Variable F : font.

  Definition raw_name (g : N) : list N := nth (N.to_nat g) (f_names F) [].

  Definition name_tok (g : N) (l : N) : token :=
    if is_nil (raw_name g) then tk TInt (digits g) l else tk TIdent (raw_name g) l.

  Definition glyph_tok (g : N) (l : N) : token :=
    if list_eqb (34 :: name_of F g ++ [34]) (mapped U F g) then name_tok g l
    else if negb (is_nil (mapped U F g)) then tk TString (mapped U F g) l
    else name_tok g l.

  Definition gl_toks (gs : list N) (l : N) : list token :=
    match gs with
    | [] => []
    | [g] => [glyph_tok g l]
    | _ =>
        if forallb (fun g => negb (is_nil (mapped U F g))) gs
        then [tk TString (34 :: concat (map (fun g => match mapped_rune U F g with Some r => quote_body r | None => [] end) gs) ++ [34]) l]
        else map (fun g => name_tok g l) gs
    end.

  Definition gs_toks (gs : list N) (l : N) : list token :=
    tk TLBr [91] l :: gl_toks gs l ++ [tk TRBr [93] l].

  Definition flag_toks (fl : N) (l : N) : list token :=
    concat (map (fun p => if N.land fl (fst p) =? 0 then []
                          else [tk THyphen [45] l; tk TIdent (tl (tl (snd p))) l]) builder_explainFlags).

  Definition t_arrow (l : N) := tk TArrow [45; 62] l.
  Definition t_comma (l : N) := tk TComma [44] l.
  Definition t_hyphen (l : N) := tk THyphen [45] l.

  Fixpoint seq1_toks (fuel : nat) (mm : list (N * N)) (first : bool) (l : N) : list token :=
    match fuel with
    | O => []
    | S k =>
        match mm with
        | [] => []
        | (f, t) :: rest =>
            let rl := if (2 <? length mm)%nat then S (run_len f rest (delta16 f t)) else 1%nat in
            (if first then [] else [t_comma l]) ++
            if (2 <? rl)%nat then
              let '(fl, tl) := nth (rl - 1) mm (f, t) in
              [name_tok f l; t_hyphen l; name_tok fl l; t_arrow l; name_tok t l; t_hyphen l; name_tok tl l]
                ++ seq1_toks k (skipn rl mm) false l
            else
              [glyph_tok f l; t_arrow l; glyph_tok t l] ++ seq1_toks k rest false l
        end
    end.

  Fixpoint seq4_toks (mm : list (N * (list N * N))) (first : bool) (l : N) : list token :=
    match mm with
    | [] => []
    | (key, (comps, out)) :: rest =>
        (if first then [] else [t_comma l]) ++ gl_toks (key :: comps) l ++ [t_arrow l; glyph_tok out l]
          ++ seq4_toks rest false l
    end.

  Fixpoint entries_toks {B} (w : B -> N -> list token) (es : list (N * B)) (first : bool) (l : N) : list token :=
    match es with
    | [] => []
    | (g, x) :: r =>
        (if first then [] else [t_comma l]) ++ [glyph_tok g l; t_arrow l] ++ w x l ++ entries_toks w r false l
    end.

  Definition value_toks (a : option vrec) (l : N) : list token :=
    match a with
    | None => [tk TIdent k_us l]
    | Some v =>
        let parts :=
          (if (v_x v =? 0)%Z then [] else [tk TIdent k_x l; tk TInt (digits_signed (v_x v)) l]) ++
          (if (v_y v =? 0)%Z then [] else [tk TIdent k_y l; tk TInt (digits_signed (v_y v)) l]) ++
          (if (v_dx v =? 0)%Z then [] else [tk TIdent k_dx l; tk TInt (digits_signed (v_dx v)) l]) in
        if is_nil parts then [tk TIdent k_us l] else parts
    end.

  (* nested actions "1@0 2@1" *)
  Definition nested_toks (acts : list (N * N)) (l : N) : list token :=
    concat (map (fun a => [tk TInt (digits (fst a)) l; tk TAt [64] l; tk TInt (digits (snd a)) l]) acts).

  (* context rules over glyph sequences: "A B -> 1@0, C -> " *)
  Fixpoint ctx1_toks (mm : list (N * (list N * actions))) (first : bool) (l : N) : list token :=
    match mm with
    | [] => []
    | (g, (inp, acts)) :: r =>
        (if first then [] else [t_comma l]) ++ gl_toks (g :: inp) l ++ [t_arrow l] ++ nested_toks acts l
          ++ ctx1_toks r false l
    end.

  Definition t_colon (l : N) := tk TColon [58] l.
  Definition cname (i : N) : list N := 99 :: digits i.          (* "c<i>" *)
  Definition class_toks (c : N) (l : N) : list token :=
    if c =? 0 then [t_colon l; t_colon l] else [t_colon l; tk TIdent (cname c) l; t_colon l].
  Fixpoint ctx2_toks (mm : list (N * (list N * actions))) (first : bool) (l : N) : list token :=
    match mm with
    | [] => []
    | (c, (inp, acts)) :: r =>
        (if first then [] else [t_comma l]) ++ concat (map (fun x => class_toks x l) (c :: inp))
          ++ [t_arrow l] ++ nested_toks acts l ++ ctx2_toks r false l
    end.
  (* class definitions, one per line *)
  Fixpoint defcls_toks (kw : list N) (classes : list (list N)) (i : N) (l : N) : list token :=
    match classes with
    | [] => []
    | gl :: r =>
        [tk TIdent kw l; t_colon l; tk TIdent (cname i) l; t_colon l; tk TEqual [61] l] ++ gs_toks gl l
          ++ [tk TEOL [10] l] ++ defcls_toks kw r (i + 1) (l + 1)
    end.
  Definition t_slash (l : N) := tk TSlash [47] l.

  Definition ctx_dl (c : ctx_sub) : N :=
    match c with SeqCtx2 _ classes _ => N.of_nat (length classes) | _ => 0 end.
  Definition ctx_toks (c : ctx_sub) (l : N) : list token :=
    match c with
    | SeqCtx1 cov rules => ctx1_toks (flat_rules (combine cov rules)) true l
    | SeqCtx2 cov classes rules =>
        let l' := l + N.of_nat (length classes) in
        defcls_toks k_class classes 1 l ++ [t_slash l'] ++ gl_toks cov l' ++ [t_slash l']
          ++ ctx2_toks (flat_rules (index_from 0 rules)) true l'
    | SeqCtx3 input acts => concat (map (fun s => gs_toks s l) input) ++ [t_arrow l] ++ nested_toks acts l
    end.

  Definition t_bar (l : N) := tk TBar [124] l.
  Fixpoint chain1_toks (mm : list (N * chain_rule)) (first : bool) (l : N) : list token :=
    match mm with
    | [] => []
    | (g, (bt, inp, la, acts)) :: r =>
        (if first then [] else [t_comma l]) ++ gl_toks (rev bt) l ++ [t_bar l] ++ gl_toks (g :: inp) l
          ++ [t_bar l] ++ gl_toks la l ++ [t_arrow l] ++ nested_toks acts l ++ chain1_toks r false l
    end.
  Definition cls_toks (cs : list N) (l : N) : list token := concat (map (fun x => class_toks x l) cs).
  Fixpoint chain2_toks (mm : list (N * chain_rule)) (first : bool) (l : N) : list token :=
    match mm with
    | [] => []
    | (c, (bt, inp, la, acts)) :: r =>
        (if first then [] else [t_comma l]) ++ cls_toks (rev bt) l ++ [t_bar l] ++ cls_toks (c :: inp) l
          ++ [t_bar l] ++ cls_toks la l ++ [t_arrow l] ++ nested_toks acts l ++ chain2_toks r false l
    end.
  Definition sets_toks (sets : list (list N)) (l : N) : list token :=
    concat (map (fun s => gs_toks s l) sets).

  Definition chain_dl (h : chain_sub) : N :=
    match h with
    | Chain2 _ btc inc lac _ => N.of_nat (length btc) + N.of_nat (length inc) + N.of_nat (length lac)
    | _ => 0
    end.
  Definition chain_toks (h : chain_sub) (l : N) : list token :=
    match h with
    | Chain1 cov rules => chain1_toks (flat_rules (combine cov rules)) true l
    | Chain2 cov btc inc lac rules =>
        let l1 := l + N.of_nat (length btc) in
        let l2 := l1 + N.of_nat (length inc) in
        let l3 := l2 + N.of_nat (length lac) in
        defcls_toks k_backtrackclass btc 1 l ++ defcls_toks k_inputclass inc 1 l1
          ++ defcls_toks k_lookaheadclass lac 1 l2 ++ [t_slash l3] ++ gl_toks cov l3 ++ [t_slash l3]
          ++ chain2_toks (flat_rules (index_from 0 rules)) true l3
    | Chain3 bt input la acts =>
        sets_toks (rev bt) l ++ [t_bar l] ++ sets_toks input l ++ [t_bar l] ++ sets_toks la l
          ++ [t_arrow l] ++ nested_toks acts l
    end.

  (* Gpos3_1 records; the first record of a first subtable starts a new line *)
  Definition t_semi (l : N) := tk TSemi [59] l.
  Fixpoint gpos3_toks (recs : list (N * (anchor * anchor))) (first j0 : bool) (l : N) : list token :=
    match recs with
    | [] => []
    | (g, ((x1, y1), (x2, y2))) :: r =>
        let l' := if first || negb j0 then l + 1 else l in
        (if j0 then [] else [t_semi l]) ++ (if first || negb j0 then [tk TEOL [10] l] else [])
          ++ [glyph_tok g l'; t_colon l'; tk TInt (digits_z x1) l'; t_comma l'; tk TInt (digits_z y1) l';
              tk TIdent k_to l'; tk TInt (digits_z x2) l'; t_comma l'; tk TInt (digits_z y2) l']
          ++ gpos3_toks r first false l'
    end.
  Definition t_at (l : N) := tk TAt [64] l.
  Definition mark_toks (e : N * (N * anchor)) (l : N) : list token :=
    [tk TIdent k_mark l; glyph_tok (fst e) l; t_colon l; tk TInt (digits (fst (snd e))) l; t_at l;
     tk TInt (digits_z (fst (snd (snd e)))) l; t_comma l; tk TInt (digits_z (snd (snd (snd e)))) l; t_semi l].
  Definition anchor_toks (a : anchor) (l : N) : list token :=
    [t_at l; tk TInt (digits_z (fst a)) l; t_comma l; tk TInt (digits_z (snd a)) l].
  Definition base_toks (e : N * list anchor) (l : N) : list token :=
    tk TIdent k_base l :: glyph_tok (fst e) l :: t_colon l :: concat (map (fun a => anchor_toks a l) (snd e)) ++ [t_semi l].
  Fixpoint lines_toks (items : list (N -> list token)) (first : bool) (l : N) : list token :=
    match items with
    | [] => []
    | it :: r =>
        let l' := if first then l + 1 else l in
        (if first then [tk TEOL [10] l] else []) ++ it l' ++ lines_toks r true l'
    end.
  Fixpoint lines_dl (n : nat) (first : bool) : N :=
    match n with
    | O => 0
    | S k => (if first then 1 else 0) + lines_dl k true
    end.
  Definition gpos4_items (mc : list N) (ma : list (N * anchor)) (bc : list N) (ba : list (list anchor)) : list (N -> list token) :=
    map mark_toks (combine mc ma) ++ map base_toks (combine bc ba).
  Definition pos_toks (p : pos_sub) (first : bool) (l : N) : list token :=
    match p with
    | Gpos3_1 cov records => gpos3_toks (combine cov records) first true l
    | Gpos4_1 mc ma bc ba => lines_toks (gpos4_items mc ma bc ba) first l
    end.
  Fixpoint gpos3_dl (recs : list (N * (anchor * anchor))) (first j0 : bool) : N :=
    match recs with
    | [] => 0
    | _ :: r => (if first || negb j0 then 1 else 0) + gpos3_dl r first false
    end.
  Definition pos_dl (p : pos_sub) (first : bool) : N :=
    match p with
    | Gpos3_1 cov records => gpos3_dl (combine cov records) first true
    | Gpos4_1 mc ma bc ba => lines_dl (length (combine mc ma) + length (combine bc ba)) first
    end.

  Definition sub_toks (s : subtable) (l : N) : list token :=
    match s with
    | Pos _ => []
    | Chn h => chain_toks h l
    | Ctx c => ctx_toks c l
    | Gsub1_1 cov delta =>
        let mm := stable_sort (map (fun k => (k, (k + delta) mod 65536)) cov) in
        seq1_toks (length mm) mm true l
    | Gsub1_2 cov subst =>
        let mm := stable_sort (combine cov subst) in
        seq1_toks (length mm) mm true l
    | Gsub2_1 cov repl => entries_toks gl_toks (combine cov repl) true l
    | Gsub3_1 cov alts => entries_toks gs_toks (combine cov alts) true l
    | Gsub4_1 cov repl =>
        seq4_toks (stable_sort (concat (map (fun p => map (fun lg => (fst p, lg)) (snd p)) (combine cov repl)))) true l
    | Gpos1_1 cov adj => gs_toks cov l ++ [t_arrow l] ++ value_toks adj l
    | Gpos1_2 cov adj => entries_toks value_toks (combine cov adj) true l
    end.

  (* lines a subtable's own text spans beyond its first (class definitions) *)
  Definition sub_dl (s : subtable) : N := match s with Ctx c => ctx_dl c | Chn h => chain_dl h | _ => 0 end.

  (* a subtable at position i of its lookup (first <-> i = 0) *)
  Definition sub_toksp (s : subtable) (first : bool) (l : N) : list token :=
    match s with Pos p => pos_toks p first l | _ => sub_toks s l end.
  Definition sub_dlp (s : subtable) (first : bool) : N :=
    match s with Pos p => pos_dl p first | _ => sub_dl s end.

  (* subtables; each " ||\n\t" starts a new line *)
  Fixpoint subs_toks (hdr : N -> list token) (subs : list subtable) (first : bool) (l : N) : list token :=
    match subs with
    | [] => []
    | s :: r =>
        (if first then hdr l ++ sub_toksp s true l ++ subs_toks hdr r false (l + sub_dlp s true)
         else [tk TOr [124; 124] l; tk TEOL [10] l] ++ sub_toksp s false (l + 1)
                ++ subs_toks hdr r false (l + 1 + sub_dlp s false))
    end.
  Fixpoint subs_lines (subs : list subtable) : N :=
    match subs with [] => 0 | s :: r => 1 + sub_dlp s false + subs_lines r end.
  Definition subs_dl (subs : list subtable) : N :=
    match subs with [] => 0 | s :: r => sub_dlp s true + subs_lines r end.

  Definition hdr_toks (kw : list N) (lk : lookup) (l : N) : list token :=
    [tk TIdent (kw ++ digits (l_type lk)) l; tk TColon [58] l] ++ flag_toks (l_flags lk) l.

  Definition lookup_toks (kw : list N) (lk : lookup) (l : N) : list token :=
    subs_toks (hdr_toks kw lk) (l_subs lk) true l.

  (* ExplainGsub: every lookup is followed by "\n" *)
  Fixpoint gsub_toks (ll : list lookup) (l : N) : list token :=
    match ll with
    | [] => []
    | lk :: r =>
        lookup_toks k_GSUB lk l ++ [tk TEOL [10] (l + subs_dl (l_subs lk))]
          ++ gsub_toks r (l + subs_dl (l_subs lk) + 1)
    end.
  Fixpoint gsub_dl (ll : list lookup) : N :=
    match ll with [] => 0 | lk :: r => subs_dl (l_subs lk) + 1 + gsub_dl r end.

  (* ExplainGpos joined with "\n" *)
  Fixpoint gpos_toks (ll : list lookup) (l : N) : list token :=
    match ll with
    | [] => []
    | [lk] => lookup_toks k_GPOS lk l
    | lk :: r =>
        lookup_toks k_GPOS lk l ++ [tk TEOL [10] (l + subs_dl (l_subs lk))]
          ++ gpos_toks r (l + subs_dl (l_subs lk) + 1)
    end.
  Fixpoint gpos_dl (ll : list lookup) : N :=
    match ll with [] => 0 | [lk] => subs_dl (l_subs lk) | lk :: r => subs_dl (l_subs lk) + 1 + gpos_dl r end.
End Render.
