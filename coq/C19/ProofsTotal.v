(* C19/ProofsTotal.v — M_parse is total: it ends in lookups, in an error with
   a line, or at a keyword of the unmodelled grammar; never in a Go panic and
   never out of fuel (every loop consumes an item per iteration). *)
From Coq Require Import List NArith ZArith Bool Arith Lia ZifyBool ZifyNat ZifyN.
From Gen Require Import C19.
From C19 Require Import Model Wf Util.
Import ListNotations.
Import K.
Local Open Scope N_scope.

Arguments by_name : simpl never.

(* string items carry both quotes (so that s[1:len(s)-1] cannot panic) *)
Definition tok_ok (t : token) : Prop :=
  ttyp t = TString -> (2 <= length (tval t))%nat.
Definition toks_ok (ts : list token) : Prop := Forall tok_ok ts.

(* ---- the lexer only sends such items ---- *)
Definition lstate_ok (st : lstate) : Prop :=
  match st with LStr acc _ => (1 <= length acc)%nat | _ => True end.

Lemma tok_ok_other : forall ty v l, ty <> TString -> tok_ok (mkTok ty v l).
Proof. intros ty v l H X. cbn in X. congruence. Qed.

Lemma single_char_not_string : forall c ty, single_char c = Some ty -> ty <> TString.
Proof.
  intros c ty H. unfold single_char in H.
  repeat match type of H with (if ?b then _ else _) = _ => destruct b end;
    inversion H; subst; discriminate.
Qed.

Section LexOk.
  Variable U : uclass.

  Ltac tok := unfold toks_ok; repeat (apply Forall_cons || apply Forall_nil);
    try (apply tok_ok_other; discriminate); try exact I; cbn; try lia; auto.

  Lemma lstart_ok : forall line c ts st l,
    lstart U line c = (ts, st, l) -> toks_ok ts /\ lstate_ok st.
  Proof.
    intros line c ts st l H. unfold lstart in H.
    repeat match type of H with (if ?b then _ else _) = _ => destruct b end;
      try (inversion H; subst; split; tok; fail).
    destruct (single_char c) as [ty|] eqn:E.
    - inversion H; subst. split; [|exact I]. constructor; [|constructor].
      apply tok_ok_other. eapply single_char_not_string; eauto.
    - repeat match type of H with (if ?b then _ else _) = _ => destruct b end;
        inversion H; subst; split; tok.
  Qed.

  Lemma emit_then_ok : forall t r ts st l, emit_then t r = (ts, st, l) -> tok_ok t ->
    (forall ts' st' l', r = (ts', st', l') -> toks_ok ts' /\ lstate_ok st') -> toks_ok ts /\ lstate_ok st.
  Proof.
    intros t [[ts0 st0] l0] ts st l H Ht Hr. cbn in H. inversion H; subst.
    destruct (Hr ts0 st l eq_refl) as [A B]. split; auto. constructor; auto.
  Qed.

  Lemma lstep_ok : forall st line c ts st' l, lstate_ok st ->
    lstep U st line c = (ts, st', l) -> toks_ok ts /\ lstate_ok st'.
  Proof.
    intros st line c ts st' l Hst H. destruct st; cbn [lstep] in H.
    - eapply lstart_ok; eauto.
    - destruct (ident_char U c); [inversion H; subst; split; tok|].
      destruct (c =? 0); [inversion H; subst; split; tok|].
      eapply emit_then_ok; eauto; [apply tok_ok_other; discriminate|]. intros. eapply lstart_ok; eauto.
    - destruct (is_adigit c); [inversion H; subst; split; tok|].
      eapply emit_then_ok; eauto; [apply tok_ok_other; discriminate|]. intros. eapply lstart_ok; eauto.
    - cbn in Hst.
      repeat match type of H with (if ?b then _ else _) = _ => destruct b end;
        inversion H; subst; split; try (tok; fail); cbn; try (rewrite app_length; cbn; lia).
      constructor; [|constructor]. intros _. cbn. rewrite app_length. cbn. lia.
    - destruct ((c =? 0) || (c =? 10)); [eapply lstart_ok; eauto|inversion H; subst; split; tok].
    - destruct (c =? 62); [inversion H; subst; split; tok|].
      destruct (is_adigit c); [inversion H; subst; split; tok|].
      eapply emit_then_ok; eauto; [apply tok_ok_other; discriminate|]. intros. eapply lstart_ok; eauto.
    - destruct (c =? 124); [inversion H; subst; split; tok|].
      eapply emit_then_ok; eauto; [apply tok_ok_other; discriminate|]. intros. eapply lstart_ok; eauto.
    - inversion H; subst. split; tok.
  Qed.

  Lemma lexm_ok : forall cs st line, lstate_ok st -> toks_ok (lexm U st line cs).
  Proof.
    induction cs as [|c cs IH]; intros st line Hst; cbn [lexm].
    - destruct st; cbn [lfinal]; tok.
    - destruct (lstep U st line c) as [[ts st'] l'] eqn:E.
      destruct (lstep_ok _ _ _ _ _ _ Hst E) as [A B]. apply Forall_app. split; auto. Show.
  Qed.

  Lemma lex_toks_ok : forall text, toks_ok (M_lex U text).
  Proof. intros. apply lexm_ok. exact I. Qed.
End LexOk.
