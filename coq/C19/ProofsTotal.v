(* C19/ProofsTotal.v — M_parse is total: it ends in lookups, in an error with
   a line, or at a keyword of the unmodelled grammar; never in a Go panic and
   never out of fuel (every loop consumes an item per iteration). *)
From Coq Require Import List NArith ZArith Bool Arith Lia ZifyBool ZifyNat ZifyN.
From Gen Require Import C19.
From C19 Require Import Model Wf Util.
Import ListNotations.
Import K.
Local Open Scope N_scope.

Arguments by_name : simpl never.

(* string items carry both quotes (so that s[1:len(s)-1] cannot panic) *)
Definition tok_ok (t : token) : Prop :=
  ttyp t = TString -> (2 <= length (tval t))%nat.
Definition toks_ok (ts : list token) : Prop := Forall tok_ok ts.

(* ---- the lexer only sends such items ---- *)
Definition lstate_ok (st : lstate) : Prop :=
  match st with LStr acc _ => (1 <= length acc)%nat | _ => True end.

Lemma tok_ok_other : forall ty v l, ty <> TString -> tok_ok (mkTok ty v l).
Proof. intros ty v l H X. cbn in X. congruence. Qed.

Lemma single_char_not_string : forall c ty, single_char c = Some ty -> ty <> TString.
Proof.
  intros c ty H. unfold single_char in H.
  repeat match type of H with (if ?b then _ else _) = _ => destruct b end;
    inversion H; subst; discriminate.
Qed.

Section LexOk.
  Variable U : uclass.

  Ltac tok := unfold toks_ok; repeat (apply Forall_cons || apply Forall_nil);
    try (apply tok_ok_other; discriminate); try exact I; cbn; try lia; auto.

  Lemma lstart_ok : forall line c ts st l,
    lstart U line c = (ts, st, l) -> toks_ok ts /\ lstate_ok st.
  Proof.
    intros line c ts st l H. unfold lstart in H.
    repeat match type of H with (if ?b then _ else _) = _ => destruct b end;
      try (inversion H; subst; split; tok; fail).
    destruct (single_char c) as [ty|] eqn:E.
    - inversion H; subst. split; [|exact I]. constructor; [|constructor].
      apply tok_ok_other. eapply single_char_not_string; eauto.
    - repeat match type of H with (if ?b then _ else _) = _ => destruct b end;
        inversion H; subst; split; tok.
  Qed.

  Lemma emit_then_ok : forall t r ts st l, emit_then t r = (ts, st, l) -> tok_ok t ->
    (forall ts' st' l', r = (ts', st', l') -> toks_ok ts' /\ lstate_ok st') -> toks_ok ts /\ lstate_ok st.
  Proof.
    intros t [[ts0 st0] l0] ts st l H Ht Hr. cbn in H. inversion H; subst.
    destruct (Hr ts0 st l eq_refl) as [A B]. split; auto. constructor; auto.
  Qed.

  Lemma lstep_ok : forall st line c ts st' l, lstate_ok st ->
    lstep U st line c = (ts, st', l) -> toks_ok ts /\ lstate_ok st'.
  Proof.
    intros st line c ts st' l Hst H. destruct st; cbn [lstep] in H.
    - eapply lstart_ok; eauto.
    - destruct (ident_char U c); [inversion H; subst; split; tok|].
      destruct (c =? 0); [inversion H; subst; split; tok|].
      eapply emit_then_ok; eauto; [apply tok_ok_other; discriminate|]. intros. eapply lstart_ok; eauto.
    - destruct (is_adigit c); [inversion H; subst; split; tok|].
      eapply emit_then_ok; eauto; [apply tok_ok_other; discriminate|]. intros. eapply lstart_ok; eauto.
    - cbn in Hst.
      repeat match type of H with (if ?b then _ else _) = _ => destruct b end;
        inversion H; subst; split; try (tok; fail); cbn; try (rewrite app_length; cbn; lia).
      constructor; [|constructor]. intros _. cbn. rewrite app_length. cbn. lia.
    - destruct ((c =? 0) || (c =? 10)); [eapply lstart_ok; eauto|inversion H; subst; split; tok].
    - destruct (c =? 62); [inversion H; subst; split; tok|].
      destruct (is_adigit c); [inversion H; subst; split; tok|].
      eapply emit_then_ok; eauto; [apply tok_ok_other; discriminate|]. intros. eapply lstart_ok; eauto.
    - destruct (c =? 124); [inversion H; subst; split; tok|].
      eapply emit_then_ok; eauto; [apply tok_ok_other; discriminate|]. intros. eapply lstart_ok; eauto.
    - inversion H; subst. split; tok.
  Qed.

  Lemma lexm_ok : forall cs st line, lstate_ok st -> toks_ok (lexm U st line cs).
  Proof.
    induction cs as [|c cs IH]; intros st line Hst; cbn [lexm].
    - destruct st; cbn [lfinal]; tok.
    - destruct (lstep U st line c) as [[ts st'] l'] eqn:E.
      destruct (lstep_ok _ _ _ _ _ _ Hst E) as [A B]. apply Forall_app. split; auto. apply IH. exact B.
  Qed.

  Lemma lex_toks_ok : forall text, toks_ok (M_lex U text).
  Proof. intros. apply lexm_ok. exact I. Qed.
End LexOk.

(* ---- the parser ---- *)
Section Total.
  Variable F : font.
  Variable endl : N.
  (* maxp.numGlyphs is a uint16; no cmap entry points at glyph 65535 (for such
     an entry the uint16 loop of a range "x-y" in readGlyphList would not end) *)
  Hypothesis Hnum : num_glyphs F <= 65535.
  Hypothesis Hcm : Forall (fun p => snd p <> 65535) (f_cmap F).
  (* a set of line numbers that contains the line of every item and endl *)
  Variable Lok : N -> Prop.
  Hypothesis Hendl : Lok endl.

  Definition tokL (t : token) : Prop := tok_ok t /\ Lok (tline t).
  Definition toksL (ts : list token) : Prop := Forall tokL ts.

  Definition good {A} (n : nat) (r : presult (A * list token)) : Prop :=
    match r with
    | POk (_, ts') => toksL ts' /\ (length ts' <= n)%nat
    | PErr l => Lok l
    | PUnmodelled => True
    | PPanic | PFuel => False
    end.

  Lemma good_weaken : forall {A} n n' (r : presult (A * list token)), (n <= n')%nat -> good n r -> good n' r.
  Proof. intros A n n' [[a ts]|l| | |] H G; cbn in *; auto. destruct G. split; auto. lia. Qed.

  Lemma good_bind : forall {A B} (m : P A) (f : A -> P B) ts k n,
    good k (m ts) ->
    (forall a ts', toksL ts' -> (length ts' <= k)%nat -> good n (f a ts')) ->
    good n (bind m f ts).
  Proof.
    intros A B m f ts k n G H. unfold bind. destruct (m ts) as [[a ts']|l| | |]; cbn in G; auto.
    destruct G. apply H; auto.
  Qed.

  Lemma good_ret : forall {A} (a : A) ts n, toksL ts -> (length ts <= n)%nat -> good n (ret a ts).
  Proof. intros. cbn. auto. Qed.
  Lemma syn_ok : tokL (syn_eof endl).
  Proof. split; [intros X; discriminate X|exact Hendl]. Qed.

  Lemma peek_ok : forall ts, toksL ts -> tokL (peek_tok endl ts).
  Proof. intros [|t r] H; cbn; [apply syn_ok|]. inversion H; auto. Qed.

  Lemma tl_ok0 : forall ts, toksL ts -> toksL (tl ts).
  Proof. intros [|t r] H; cbn; auto. inversion H; auto. Qed.

  Lemma good_fatal : forall {A} ts n, toksL ts -> good n (@fatal endl A ts).
  Proof. intros A ts n H. cbn. apply (peek_ok ts H). Qed.

  Ltac gf := first [exact I | (apply good_fatal; auto; try (apply tl_ok0; auto))].

  Lemma read_eq : forall ts, read endl ts = POk (peek_tok endl ts, tl ts).
  Proof. intros [|t r]; reflexivity. Qed.

  Lemma tl_ok : forall ts, toksL ts -> toksL (tl ts).
  Proof. intros [|t r] H; cbn; auto. inversion H; auto. Qed.

  Lemma peek_not_eof_len : forall ts, ttyp (peek_tok endl ts) <> TEOF -> S (length (tl ts)) = length ts.
  Proof. intros [|t r] H; cbn in *; [congruence|reflexivity]. Qed.

  (* pushing back the item just read never makes the stream longer *)
  Lemma unread_peek : forall ts, toksL ts ->
    exists ts', unread endl (peek_tok endl ts) (tl ts) = POk (tt, ts') /\ toksL ts' /\ (length ts' <= length ts)%nat.
  Proof.
    intros [|t [|t' r]] H; cbn.
    - unfold is_syn_eof. cbn. rewrite N.eqb_refl. exists []. repeat split; auto.
    - destruct (is_syn_eof endl t); eexists; repeat split; eauto; try constructor.
    - eexists. repeat split; eauto.
  Qed.

  Lemma optional_good : forall ty ts, ityp_eqb (TEOF) ty = false -> toksL ts ->
    match optional endl ty ts with
    | POk (b, ts') => toksL ts' /\ (if b then (S (length ts') <= length ts)%nat else (length ts' <= length ts)%nat)
    | _ => False
    end.
  Proof.
    intros ty ts Hty H. unfold optional, bind. rewrite read_eq.
    destruct (ityp_eqb (ttyp (peek_tok endl ts)) ty) eqn:E.
    - cbn. split; [apply tl_ok; auto|]. rewrite peek_not_eof_len; auto.
      intros X. rewrite X in E. congruence.
    - destruct (unread_peek ts H) as (ts' & Eu & Ok & Len). rewrite Eu. cbn. auto.
  Qed.

  Lemma good_bind_opt : forall {B} ty (f : bool -> P B) ts k n,
    ityp_eqb TEOF ty = false -> toksL ts -> (length ts <= k)%nat ->
    (forall ts', toksL ts' -> (S (length ts') <= k)%nat -> good n (f true ts')) ->
    (forall ts', toksL ts' -> (length ts' <= k)%nat -> good n (f false ts')) ->
    good n (bind (optional endl ty) f ts).
  Proof.
    intros B ty f ts k n Hty Hok Hl Ht Hf. pose proof (optional_good ty ts Hty Hok) as G.
    unfold bind. destruct (optional endl ty ts) as [[b ts']|l| | |]; try contradiction.
    destruct G as [G1 G2]. destruct b; [apply Ht|apply Hf]; auto; lia.
  Qed.

  Lemma optional_ident_good : forall s ts, toksL ts ->
    match optional_ident endl s ts with
    | POk (b, ts') => toksL ts' /\ (if b then (S (length ts') <= length ts)%nat else (length ts' <= length ts)%nat)
    | _ => False
    end.
  Proof.
    intros s ts H. unfold optional_ident, bind. rewrite read_eq.
    destruct (is_ident (peek_tok endl ts) s) eqn:E.
    - cbn. split; [apply tl_ok; auto|]. rewrite peek_not_eof_len; auto.
      intros X. unfold is_ident in E. rewrite X in E. discriminate.
    - destruct (unread_peek ts H) as (ts' & Eu & Ok & Len). rewrite Eu. cbn. auto.
  Qed.

  Lemma required_good : forall ty ts k, ityp_eqb TEOF ty = false -> toksL ts -> (length ts <= S k)%nat ->
    good k (required endl ty ts).
  Proof.
    intros ty ts k Hty H Hl. unfold required, bind. rewrite read_eq.
    destruct (ityp_eqb (ttyp (peek_tok endl ts)) ty) eqn:E; [|gf].
    cbn. split; [apply tl_ok; auto|].
    assert (X : ttyp (peek_tok endl ts) <> TEOF) by (intros X; rewrite X in E; congruence).
    apply peek_not_eof_len in X. lia.
  Qed.

  Lemma read_identifier_good : forall ts k, toksL ts -> (length ts <= S k)%nat ->
    good k (read_identifier endl ts).
  Proof.
    intros ts k H Hl. unfold read_identifier, bind. rewrite read_eq.
    destruct (ityp_eqb (ttyp (peek_tok endl ts)) TIdent) eqn:E; [|gf].
    cbn. split; [apply tl_ok; auto|].
    assert (X : ttyp (peek_tok endl ts) <> TEOF) by (intros X; rewrite X in E; discriminate).
    apply peek_not_eof_len in X. lia.
  Qed.

  Lemma rlf_good : forall fuel flags ts n, toksL ts -> (length ts <= n)%nat -> (n < fuel)%nat ->
    good n (read_lookup_flags endl fuel flags ts).
  Proof.
    induction fuel as [|f IH]; intros flags ts n H Hl Hf; [lia|]. cbn [read_lookup_flags].
    apply (good_bind_opt THyphen _ ts n n); auto.
    - intros ts1 O1 L1. apply (good_bind _ _ _ (n - 1)%nat).
      + apply read_identifier_good; auto. lia.
      + intros nm ts2 O2 L2. destruct (flag_of_name builder_parseFlags nm); [|gf].
        apply (good_weaken (n - 1)%nat); [lia|]. apply IH; auto. lia.
    - intros ts1 O1 L1. apply (good_bind_opt TEOL _ ts1 n n); auto; intros; apply good_ret; auto; lia.
  Qed.

  (* ---- glyph lists ---- *)
  Lemma by_name_from_bound : forall names i nm acc g,
    by_name_from names i nm acc = Some g ->
    acc = Some g \/ (i <= g /\ g < i + N.of_nat (length names)).
  Proof.
    induction names as [|n r IH]; intros i nm acc g H; cbn [by_name_from] in H; auto.
    apply IH in H. destruct H as [H|H].
    - destruct (negb (is_nil n) && list_eqb n nm); auto. inversion H; subst. right. cbn [length]. lia.
    - right. cbn [length]. lia.
  Qed.

  Lemma by_name_bound : forall nm g, by_name F nm = Some g -> g <> 65535.
  Proof.
    intros nm g H. unfold by_name in H. apply by_name_from_bound in H. destruct H as [H|H]; [discriminate|].
    rewrite firstn_length in H. lia.
  Qed.

  Lemma lookup_runes_bound : forall rs gs, lookup_runes F rs = Some gs -> Forall (fun g => g <> 65535) gs.
  Proof.
    induction rs as [|r rs IH]; intros gs H; cbn [lookup_runes] in H.
    - inversion H. constructor.
    - destruct (cmap_lookup F r =? 0) eqn:E0; [discriminate|].
      destruct (lookup_runes F rs) as [l|] eqn:El; [|discriminate]. inversion H; subst.
      constructor; [|apply IH; auto].
      unfold cmap_lookup in *. clear - Hcm E0. induction (f_cmap F) as [|[k v] cm IHc]; cbn in *; [lia|].
      inversion Hcm; subst. destruct (k =? r); auto.
  Qed.

  Lemma classify_bound : forall t next, classify F t = GNext next -> Forall (fun g => g <> 65535) next.
  Proof.
    intros t next H. unfold classify in H. destruct (ttyp t); try discriminate.
    - destruct (by_name F (tval t)) eqn:E; [|discriminate]. inversion H; subst.
      constructor; [|constructor]. eapply by_name_bound; eauto.
    - destruct (atoi (tval t)) as [x|]; [|discriminate].
      destruct ((x <? 0)%Z || (65536 <=? x)%Z || (Z.of_N (num_glyphs F) <=? x)%Z) eqn:E; [discriminate|].
      inversion H; subst. constructor; [|constructor]. lia.
    - destruct (decode_string (tval t)); [|discriminate].
      destruct (lookup_runes F l) eqn:E; [|discriminate]. inversion H; subst.
      eapply lookup_runes_bound; eauto.
  Qed.

  Lemma add_gids_no_loop : forall next res hy, Forall (fun g => g <> 65535) next ->
    add_gids res hy next <> AddLoop.
  Proof.
    induction next as [|g r IH]; intros res hy H; cbn [add_gids]; [discriminate|].
    inversion H; subst. destruct hy; [|apply IH; auto].
    destruct (last_opt res); [|discriminate].
    unfold range_to. destruct (g <? n); [apply IH; auto|].
    destruct (n <? g); [|apply IH; auto].
    assert (E : (g =? 65535) = false) by lia. rewrite E. apply IH; auto.
  Qed.

  Lemma classify_no_panic : forall t, tok_ok t -> classify F t <> GPanic.
  Proof.
    intros t H. unfold classify. destruct (ttyp t) eqn:E; try discriminate.
    - destruct (by_name F (tval t)); discriminate.
    - destruct (atoi (tval t)); [|discriminate]. destruct (_ || _); discriminate.
    - specialize (H E). unfold decode_string. destruct (tval t) as [|a [|b r]]; cbn in H; try lia.
      destruct (lookup_runes F _); discriminate.
  Qed.

  Lemma classify_eof : forall t, ttyp t = TEOF -> classify F t = GDone.
  Proof. intros t H. unfold classify. rewrite H. reflexivity. Qed.

  Lemma rgl_good : forall fuel res hy ts n, toksL ts -> (length ts <= n)%nat -> (n < fuel)%nat ->
    good n (read_glyph_list_loop F endl fuel res hy ts).
  Proof.
    induction fuel as [|f IH]; intros res hy ts n H Hl Hf; [lia|]. cbn [read_glyph_list_loop].
    unfold bind at 1. rewrite read_eq.
    pose proof (peek_ok ts H) as Hp. pose proof (classify_no_panic _ (proj1 Hp)) as Hnp.
    assert (Hstrict : ttyp (peek_tok endl ts) <> TEOF -> (length (tl ts) <= n - 1)%nat /\ (n - 1 < f)%nat).
    { intros X. apply peek_not_eof_len in X. lia. }
    destruct (classify F (peek_tok endl ts)) as [next| | | |] eqn:Ec; try congruence.
    - assert (X : ttyp (peek_tok endl ts) <> TEOF).
      { intros X. rewrite (classify_eof _ X) in Ec. discriminate. }
      destruct (Hstrict X) as [L1 L2].
      pose proof (add_gids_no_loop next res hy (classify_bound _ _ Ec)) as Hnl.
      destruct (add_gids res hy next) as [res' hy'| |]; try congruence; [|gf].
      apply (good_weaken (n - 1)%nat); [lia|]. apply IH; auto. apply tl_ok; auto.
    - assert (X : ttyp (peek_tok endl ts) <> TEOF).
      { intros X. rewrite (classify_eof _ X) in Ec. discriminate. }
      destruct (Hstrict X) as [L1 L2].
      destruct hy; [gf|]. apply (good_weaken (n - 1)%nat); [lia|]. apply IH; auto. apply tl_ok; auto.
    - destruct (unread_peek ts H) as (ts' & Eu & Ok & Len). unfold bind. rewrite Eu.
      destruct hy; [gf|]. apply good_ret; auto. lia.
    - gf.
  Qed.

  Lemma rgs_good : forall fuel ts n, toksL ts -> (length ts <= n)%nat -> (n < fuel)%nat ->
    good n (read_glyph_set F endl fuel ts).
  Proof.
    intros fuel ts n H Hl Hf. unfold read_glyph_set.
    apply (good_bind _ _ _ n). { apply (good_weaken (n - 1)%nat); [lia|]. apply required_good; auto. lia. }
    intros _ ts1 O1 L1. apply (good_bind _ _ _ n). { apply rgl_good; auto. }
    intros res ts2 O2 L2. apply (good_bind _ _ _ n). { apply (good_weaken (n - 1)%nat); [lia|]. apply required_good; auto. lia. }
    intros _ ts3 O3 L3. apply good_ret; auto.
  Qed.

  (* ---- value records ---- *)
  Lemma read_int16_good : forall ts k, toksL ts -> (length ts <= S k)%nat -> good k (read_int16 endl ts).
  Proof.
    intros ts k H Hl. unfold read_int16, bind. rewrite read_eq.
    destruct (ityp_eqb (ttyp (peek_tok endl ts)) TInt) eqn:E; [|gf].
    destruct (atoi _); [|gf]. destruct (_ || _); [gf|].
    cbn. split; [apply tl_ok; auto|].
    assert (X : ttyp (peek_tok endl ts) <> TEOF) by (intros X; rewrite X in E; discriminate).
    apply peek_not_eof_len in X. lia.
  Qed.

  Lemma is_ident_not_eof : forall t s, is_ident t s = true -> ttyp t <> TEOF.
  Proof. intros t s H X. unfold is_ident in H. rewrite X in H. discriminate. Qed.

  Lemma rvl_good : forall fuel v ts n, toksL ts -> (length ts <= n)%nat -> (n < fuel)%nat ->
    good n (read_value_loop endl fuel v ts).
  Proof.
    induction fuel as [|f IH]; intros v ts n H Hl Hf; [lia|]. cbn [read_value_loop].
    unfold bind at 1. rewrite read_eq.
    assert (Hstep : forall s (g : Z -> vrec), is_ident (peek_tok endl ts) s = true ->
              good n ((x <- read_int16 endl ;; read_value_loop endl f (g x)) (tl ts))).
    { intros s g Hi. pose proof (peek_not_eof_len ts (is_ident_not_eof _ _ Hi)) as L.
      apply (good_bind _ _ _ (n - 2)%nat).
      - apply read_int16_good; [apply tl_ok; auto|lia].
      - intros x ts2 O2 L2. apply (good_weaken (n - 2)%nat); [lia|]. apply IH; auto. lia. }
    destruct (is_ident (peek_tok endl ts) k_x) eqn:E1; [eapply Hstep; eauto|].
    destruct (is_ident (peek_tok endl ts) k_y) eqn:E2; [eapply Hstep; eauto|].
    destruct (is_ident (peek_tok endl ts) k_dx) eqn:E3; [eapply Hstep; eauto|].
    destruct (unread_peek ts H) as (ts' & Eu & Ok & Len). unfold bind. rewrite Eu.
    apply good_ret; auto. lia.
  Qed.

  Lemma rvr_good : forall fuel ts n, toksL ts -> (length ts <= n)%nat -> (n < fuel)%nat ->
    good n (read_value_record endl fuel ts).
  Proof.
    intros fuel ts n H Hl Hf. unfold read_value_record.
    pose proof (optional_ident_good k_us ts H) as G. unfold bind at 1.
    destruct (optional_ident endl k_us ts) as [[b ts1]|l| | |]; try contradiction.
    destruct G as [O1 L1]. destruct b.
    - apply good_ret; auto. lia.
    - apply (good_bind _ _ _ n). { apply rvl_good; auto. lia. }
      intros v ts2 O2 L2. apply good_ret; auto.
  Qed.

  Lemma header_good : forall fuel ts n, toksL ts -> (length ts <= n)%nat -> (n < fuel)%nat ->
    good n (lookup_header endl fuel ts).
  Proof.
    intros fuel ts n H Hl Hf. unfold lookup_header.
    assert (K : forall ts1, toksL ts1 -> (length ts1 <= n)%nat ->
                good n ((optional endl TEOL ;;; read_lookup_flags endl fuel 0) ts1)).
    { intros ts1 O1 L1. apply (good_bind_opt TEOL _ ts1 n n); auto; intros ts2 O2 L2; apply rlf_good; auto; lia. }
    apply (good_bind_opt TColon _ ts n n); auto; intros ts1 O1 L1; apply K; auto; lia.
  Qed.

  (* ---- lookups ---- *)
  Definition goodlt {A} (n : nat) (r : presult (A * list token)) : Prop :=
    match r with
    | POk (_, ts') => toksL ts' /\ (S (length ts') <= n)%nat
    | PErr l => Lok l
    | PUnmodelled => True
    | PPanic | PFuel => False
    end.

  Lemma goodlt_fatal : forall {A} ts n, toksL ts -> goodlt n (@fatal endl A ts).
  Proof. intros A ts n H. cbn. apply (peek_ok ts H). Qed.

  Lemma good_bind_lt : forall {A B} (m : P A) (f : A -> P B) ts k n,
    goodlt k (m ts) ->
    (forall a ts', toksL ts' -> (S (length ts') <= k)%nat -> good n (f a ts')) ->
    good n (bind m f ts).
  Proof.
    intros A B m f ts k n G H. unfold bind. destruct (m ts) as [[a ts']|l| | |]; cbn in G; auto.
    destruct G. apply H; auto.
  Qed.

  Lemma required_lt : forall ty ts k, ityp_eqb TEOF ty = false -> toksL ts -> (length ts <= k)%nat ->
    goodlt k (required endl ty ts).
  Proof.
    intros ty ts k Hty H Hl. unfold required, bind. rewrite read_eq.
    destruct (ityp_eqb (ttyp (peek_tok endl ts)) ty) eqn:E; [|apply goodlt_fatal; apply tl_ok0; auto].
    cbn. split; [apply tl_ok; auto|].
    assert (X : ttyp (peek_tok endl ts) <> TEOF) by (intros X; rewrite X in E; congruence).
    apply peek_not_eof_len in X. lia.
  Qed.

  Lemma rgl_good' : forall fuel ts n, toksL ts -> (length ts <= n)%nat -> (n < fuel)%nat ->
    good n (read_glyph_list F endl fuel ts).
  Proof. intros. apply rgl_good; auto. Qed.

  Ltac tail_comma IH n :=
    match goal with O : toksL ?ts, L : (S (length ?ts) <= n)%nat |- _ => idtac end.

  Lemma gsub1_loop_good : forall fuel res ts n, toksL ts -> (length ts <= n)%nat -> (n < fuel)%nat ->
    good n (gsub1_loop F endl fuel res ts).
  Proof.
    induction fuel as [|f IH]; intros res ts n H Hl Hf; [lia|]. cbn [gsub1_loop].
    apply (good_bind _ _ _ n); [apply rgl_good'; auto|]. intros fr ts1 O1 L1.
    apply (good_bind_lt _ _ _ n); [apply required_lt; auto|]. intros _ ts2 O2 L2.
    apply (good_bind _ _ _ (length ts2)); [apply rgl_good'; auto; lia|]. intros to ts3 O3 L3.
    destruct (negb _); [gf|]. destruct (add_pairs _ _ _); [|gf].
    apply (good_bind_opt TComma _ ts3 (length ts2) n); auto.
    - intros ts4 O4 L4. apply (good_bind_opt TEOL _ ts4 (length ts4) n); auto;
        intros ts5 O5 L5; apply (good_weaken (length ts5)); try lia; apply IH; auto; lia.
    - intros ts4 O4 L4. apply good_ret; auto. lia.
  Qed.

  Lemma read_gsub1_good : forall fuel ts n, toksL ts -> (length ts <= n)%nat -> (n < fuel)%nat ->
    good n (read_gsub1 F endl fuel ts).
  Proof.
    intros fuel ts n H Hl Hf. unfold read_gsub1.
    apply (good_bind _ _ _ n); [apply header_good; auto|]. intros fl ts1 O1 L1.
    apply (good_bind _ _ _ n); [apply gsub1_loop_good; auto|]. intros res ts2 O2 L2.
    destruct (is_nil res); [gf|apply good_ret; auto].
  Qed.

  Lemma gsub2_loop_good : forall fuel data ts n, toksL ts -> (length ts <= n)%nat -> (n < fuel)%nat ->
    good n (gsub2_loop F endl fuel data ts).
  Proof.
    induction fuel as [|f IH]; intros data ts n H Hl Hf; [lia|]. cbn [gsub2_loop].
    apply (good_bind _ _ _ n); [apply rgl_good'; auto|]. intros fr ts1 O1 L1.
    destruct fr as [|g [|g' fr']]; try gf.
    apply (good_bind_lt _ _ _ n); [apply required_lt; auto|]. intros _ ts2 O2 L2.
    apply (good_bind _ _ _ (length ts2)); [apply rgl_good'; auto; lia|]. intros to ts3 O3 L3.
    destruct (is_nil to).
    { unfold bind. rewrite read_eq. gf. }
    destruct (has_key g data); [gf|].
    apply (good_bind_opt TComma _ ts3 (length ts2) n); auto.
    - intros ts4 O4 L4. apply (good_bind_opt TEOL _ ts4 (length ts4) n); auto;
        intros ts5 O5 L5; apply (good_weaken (length ts5)); try lia; apply IH; auto; lia.
    - intros ts4 O4 L4. apply good_ret; auto. lia.
  Qed.

  Lemma read_gsub2_good : forall fuel ts n, toksL ts -> (length ts <= n)%nat -> (n < fuel)%nat ->
    good n (read_gsub2 F endl fuel ts).
  Proof.
    intros fuel ts n H Hl Hf. unfold read_gsub2.
    apply (good_bind _ _ _ n); [apply header_good; auto|]. intros fl ts1 O1 L1.
    apply (good_bind _ _ _ n); [apply gsub2_loop_good; auto|]. intros res ts2 O2 L2.
    destruct (is_nil res); [gf|apply good_ret; auto].
  Qed.

  Lemma gsub3_loop_good : forall fuel data ts n, toksL ts -> (length ts <= n)%nat -> (n < fuel)%nat ->
    good n (gsub3_loop F endl fuel data ts).
  Proof.
    induction fuel as [|f IH]; intros data ts n H Hl Hf; [lia|]. cbn [gsub3_loop].
    apply (good_bind _ _ _ n); [apply rgl_good'; auto|]. intros fr ts1 O1 L1.
    destruct fr as [|g [|g' fr']]; try gf.
    apply (good_bind_lt _ _ _ n); [apply required_lt; auto|]. intros _ ts2 O2 L2.
    apply (good_bind _ _ _ (length ts2)); [apply rgs_good; auto; lia|]. intros to ts3 O3 L3.
    destruct (has_key g data); [gf|].
    apply (good_bind_opt TComma _ ts3 (length ts2) n); auto.
    - intros ts4 O4 L4. apply (good_bind_opt TEOL _ ts4 (length ts4) n); auto;
        intros ts5 O5 L5; apply (good_weaken (length ts5)); try lia; apply IH; auto; lia.
    - intros ts4 O4 L4. apply good_ret; auto. lia.
  Qed.

  Lemma read_gsub3_good : forall fuel ts n, toksL ts -> (length ts <= n)%nat -> (n < fuel)%nat ->
    good n (read_gsub3 F endl fuel ts).
  Proof.
    intros fuel ts n H Hl Hf. unfold read_gsub3.
    apply (good_bind _ _ _ n); [apply header_good; auto|]. intros fl ts1 O1 L1.
    apply (good_bind _ _ _ n); [apply gsub3_loop_good; auto|]. intros res ts2 O2 L2.
    destruct (is_nil res); [gf|apply good_ret; auto].
  Qed.

  Lemma gsub4_loop_good : forall fuel data ts n, toksL ts -> (length ts <= n)%nat -> (n < fuel)%nat ->
    good n (gsub4_loop F endl fuel data ts).
  Proof.
    induction fuel as [|f IH]; intros data ts n H Hl Hf; [lia|]. cbn [gsub4_loop].
    apply (good_bind _ _ _ n); [apply rgl_good'; auto|]. intros fr ts1 O1 L1.
    destruct fr as [|key comps].
    { unfold bind. rewrite read_eq. gf. }
    apply (good_bind_lt _ _ _ n); [apply required_lt; auto|]. intros _ ts2 O2 L2.
    apply (good_bind _ _ _ (length ts2)); [apply rgl_good'; auto; lia|]. intros to ts3 O3 L3.
    destruct to as [|out [|o' to']]; try gf.
    apply (good_bind_opt TComma _ ts3 (length ts2) n); auto.
    - intros ts4 O4 L4. apply (good_bind_opt TEOL _ ts4 (length ts4) n); auto;
        intros ts5 O5 L5; apply (good_weaken (length ts5)); try lia; apply IH; auto; lia.
    - intros ts4 O4 L4. apply good_ret; auto. lia.
  Qed.

  Lemma read_gsub4_good : forall fuel ts n, toksL ts -> (length ts <= n)%nat -> (n < fuel)%nat ->
    good n (read_gsub4 F endl fuel ts).
  Proof.
    intros fuel ts n H Hl Hf. unfold read_gsub4.
    apply (good_bind _ _ _ n); [apply header_good; auto|]. intros fl ts1 O1 L1.
    apply (good_bind _ _ _ n); [apply gsub4_loop_good; auto|]. intros res ts2 O2 L2.
    apply good_ret; auto.
  Qed.

  Lemma gpos1_2_loop_good : forall fuel res ts n, toksL ts -> (length ts <= n)%nat -> (n < fuel)%nat ->
    good n (gpos1_2_loop F endl fuel res ts).
  Proof.
    induction fuel as [|f IH]; intros res ts n H Hl Hf; [lia|]. cbn [gpos1_2_loop].
    apply (good_bind _ _ _ n); [apply rgl_good'; auto|]. intros fr ts1 O1 L1.
    destruct fr as [|g [|g' fr']]; try gf.
    apply (good_bind_lt _ _ _ n); [apply required_lt; auto|]. intros _ ts2 O2 L2.
    apply (good_bind _ _ _ (length ts2)); [apply rvr_good; auto; lia|]. intros adj ts3 O3 L3.
    apply (good_bind_opt TComma _ ts3 (length ts2) n); auto.
    - intros ts4 O4 L4. apply (good_bind_opt TEOL _ ts4 (length ts4) n); auto;
        intros ts5 O5 L5; apply (good_weaken (length ts5)); try lia; apply IH; auto; lia.
    - intros ts4 O4 L4. apply good_ret; auto. lia.
  Qed.

  Lemma gpos1_loop_good : forall fuel subs ts n, toksL ts -> (length ts <= n)%nat -> (n < fuel)%nat ->
    good n (gpos1_loop F endl fuel subs ts).
  Proof.
    induction fuel as [|f IH]; intros subs ts n H Hl Hf; [lia|]. cbn [gpos1_loop].
    unfold bind at 1. rewrite read_eq. unfold bind at 1.
    destruct (unread_peek ts H) as (ts0 & Eu & O0 & L0). rewrite Eu.
    apply (good_bind _ _ _ n).
    - destruct (ityp_eqb (ttyp (peek_tok endl ts)) TLBr).
      + apply (good_bind _ _ _ n); [apply rgs_good; auto; lia|]. intros fr ts1 O1 L1.
        apply (good_bind_lt _ _ _ n); [apply required_lt; auto|]. intros _ ts2 O2 L2.
        apply (good_bind _ _ _ n); [apply rvr_good; auto; lia|]. intros adj ts3 O3 L3.
        apply good_ret; auto.
      + apply (good_bind _ _ _ n); [apply gpos1_2_loop_good; auto; lia|]. intros res ts1 O1 L1.
        apply good_ret; auto.
    - intros sub ts1 O1 L1.
      apply (good_bind_opt TOr _ ts1 n n); auto.
      + intros ts4 O4 L4. apply (good_bind_opt TEOL _ ts4 (length ts4) n); auto;
          intros ts5 O5 L5; apply (good_weaken (length ts5)); try lia; apply IH; auto; lia.
      + intros ts4 O4 L4. apply good_ret; auto.
  Qed.

  Lemma read_gpos1_good : forall fuel ts n, toksL ts -> (length ts <= n)%nat -> (n < fuel)%nat ->
    good n (read_gpos1 F endl fuel ts).
  Proof.
    intros fuel ts n H Hl Hf. unfold read_gpos1.
    apply (good_bind _ _ _ n); [apply header_good; auto|]. intros fl ts1 O1 L1.
    apply (good_bind _ _ _ n); [apply gpos1_loop_good; auto|]. intros res ts2 O2 L2.
    apply good_ret; auto.
  Qed.

  Lemma read_nested_good : forall fuel res ts n, toksL ts -> (length ts <= n)%nat -> (n < fuel)%nat ->
    good n (read_nested endl fuel res ts).
  Proof.
    induction fuel as [|f IH]; intros res ts n H Hl Hf; [lia|]. cbn [read_nested].
    unfold bind at 1. rewrite read_eq.
    destruct (negb (ityp_eqb (ttyp (peek_tok endl ts)) TInt)) eqn:E.
    - destruct (unread_peek ts H) as (ts' & Eu & Ok & Len). unfold bind. rewrite Eu. apply good_ret; auto. lia.
    - assert (X : ttyp (peek_tok endl ts) <> TEOF).
      { intros X. rewrite X in E. discriminate. }
      pose proof (peek_not_eof_len ts X) as L1. pose proof (tl_ok0 ts H) as O1.
      destruct (atoi _); [|gf]. destruct (_ || _); [gf|].
      apply (good_bind_lt _ _ _ (length (tl ts))); [apply required_lt; auto|]. intros _ ts2 O2 L2.
      unfold bind at 1. rewrite read_eq.
      destruct (negb (ityp_eqb (ttyp (peek_tok endl ts2)) TInt)) eqn:E2; [gf|].
      destruct (atoi _); [|gf]. destruct (_ || _); [gf|].
      assert (L3 : (length (tl ts2) <= length ts2)%nat) by (destruct ts2; cbn; lia).
      apply (good_weaken (length (tl ts2))); [lia|].
      apply IH; [apply tl_ok0; auto|lia|lia].
  Qed.

  (* ---- GSUB5 ---- *)
  Lemma goodlt_bind1 : forall {A B} (m : P A) (f : A -> P B) ts k n,
    goodlt k (m ts) -> (k <= n)%nat ->
    (forall a ts', toksL ts' -> (S (length ts') <= k)%nat -> good (length ts') (f a ts')) ->
    goodlt n (bind m f ts).
  Proof.
    intros A B m f ts k n G Hk H. unfold bind. destruct (m ts) as [[a ts']|l| | |]; cbn in G; auto.
    destruct G as [G1 G2]. specialize (H a ts' G1 G2).
    destruct (f a ts') as [[b ts'']|l| | |]; cbn in *; auto. destruct H. split; auto. lia.
  Qed.

  Lemma goodlt_good : forall {A} n (r : presult (A * list token)), goodlt n r -> good n r.
  Proof. intros A n [[a ts]|l| | |] G; cbn in *; auto. destruct G. split; auto. lia. Qed.

  Lemma read_identifier_lt : forall ts k, toksL ts -> (length ts <= k)%nat -> goodlt k (read_identifier endl ts).
  Proof.
    intros ts k H Hl. unfold read_identifier, bind. rewrite read_eq.
    destruct (ityp_eqb (ttyp (peek_tok endl ts)) TIdent) eqn:E; [|apply goodlt_fatal; apply tl_ok0; auto].
    cbn. split; [apply tl_ok; auto|].
    assert (X : ttyp (peek_tok endl ts) <> TEOF) by (intros X; rewrite X in E; discriminate).
    apply peek_not_eof_len in X. lia.
  Qed.

  Lemma peek_good : forall ts, toksL ts ->
    exists ts', peek endl ts = POk (peek_tok endl ts, ts') /\ toksL ts' /\ (length ts' <= length ts)%nat.
  Proof.
    intros ts H. unfold peek, bind. rewrite read_eq.
    destruct (unread_peek ts H) as (ts' & Eu & Ok & Len). rewrite Eu. cbn. exists ts'. auto.
  Qed.

  Lemma rgs_lt : forall fuel ts n, toksL ts -> (length ts <= n)%nat -> (n < fuel)%nat ->
    goodlt n (read_glyph_set F endl fuel ts).
  Proof.
    intros fuel ts n H Hl Hf. unfold read_glyph_set.
    apply (goodlt_bind1 _ _ _ n n); [apply required_lt; auto|lia|]. intros _ ts1 O1 L1.
    apply (good_bind _ _ _ (length ts1)); [apply rgl_good; auto; lia|]. intros res ts2 O2 L2.
    apply (good_bind _ _ _ (length ts2)); [apply goodlt_good; apply required_lt; auto|]. intros _ ts3 O3 L3.
    apply good_ret; auto. lia.
  Qed.

  Lemma parse_class_def_lt : forall fuel ts n, toksL ts -> (length ts <= n)%nat -> (n < fuel)%nat ->
    goodlt n (parse_class_def F endl fuel ts).
  Proof.
    intros fuel ts n H Hl Hf. unfold parse_class_def.
    apply (goodlt_bind1 _ _ _ n n); [apply read_identifier_lt; auto|lia|]. intros _ ts1 O1 L1.
    apply (good_bind _ _ _ (length ts1)); [apply goodlt_good; apply required_lt; auto|]. intros _ ts2 O2 L2.
    apply (good_bind _ _ _ (length ts2)); [apply goodlt_good; apply read_identifier_lt; auto|]. intros nm ts3 O3 L3.
    apply (good_bind _ _ _ (length ts3)); [apply goodlt_good; apply required_lt; auto|]. intros _ ts4 O4 L4.
    apply (good_bind_opt TEqual _ ts4 (length ts4) (length ts1)); auto; intros ts5 O5 L5;
      (apply (good_bind _ _ _ (length ts5)); [apply rgs_good; auto; lia|]; intros gl ts6 O6 L6;
       destruct (is_nil gl); [gf|apply good_ret; auto; lia]).
  Qed.

  Lemma read_class_name_lt : forall ts n, toksL ts -> (length ts <= n)%nat ->
    goodlt n (read_class_name endl ts).
  Proof.
    intros ts n H Hl. unfold read_class_name.
    apply (goodlt_bind1 _ _ _ n n); [apply required_lt; auto|lia|]. intros _ ts1 O1 L1.
    unfold bind at 1. rewrite read_eq. pose proof (tl_ok0 ts1 O1) as O2.
    assert (L2 : (length (tl ts1) <= length ts1)%nat) by (destruct ts1; cbn; lia).
    destruct (ttyp (peek_tok endl ts1)); try gf.
    - apply good_ret; auto.
    - apply (good_bind _ _ _ (length (tl ts1))); [apply goodlt_good; apply required_lt; auto|].
      intros _ ts3 O3 L3. apply good_ret; auto. lia.
  Qed.

  Lemma rcn_good : forall fuel acc ts n, toksL ts -> (length ts <= n)%nat -> (n < fuel)%nat ->
    good n (read_class_names endl fuel acc ts).
  Proof.
    induction fuel as [|f IH]; intros acc ts n H Hl Hf; [lia|]. cbn [read_class_names].
    destruct (peek_good ts H) as (ts1 & Ep & O1 & L1). unfold bind at 1. rewrite Ep.
    destruct (ityp_eqb (ttyp (peek_tok endl ts)) TColon); [|apply good_ret; auto; lia].
    apply (good_bind_lt _ _ _ (length ts1)); [apply read_class_name_lt; auto|]. intros nm ts2 O2 L2.
    apply (good_weaken (length ts2)); [lia|]. apply IH; auto. lia.
  Qed.

  Lemma ctx1_loop_good : forall fuel data ts n, toksL ts -> (length ts <= n)%nat -> (n < fuel)%nat ->
    good n (ctx1_loop F endl fuel data ts).
  Proof.
    induction fuel as [|f IH]; intros data ts n H Hl Hf; [lia|]. cbn [ctx1_loop].
    apply (good_bind _ _ _ n); [apply rgl_good'; auto|]. intros inp ts1 O1 L1.
    apply (good_bind_lt _ _ _ n); [apply required_lt; auto|]. intros _ ts2 O2 L2.
    apply (good_bind _ _ _ (length ts2)); [apply read_nested_good; auto; lia|]. intros acts ts3 O3 L3.
    destruct inp as [|key rest].
    { unfold bind. rewrite read_eq. gf. }
    apply (good_bind_opt TComma _ ts3 (length ts2) n); auto.
    - intros ts4 O4 L4. apply (good_bind_opt TEOL _ ts4 (length ts4) n); auto;
        intros ts5 O5 L5; apply (good_weaken (length ts5)); try lia; apply IH; auto; lia.
    - intros ts4 O4 L4. apply good_ret; auto. lia.
  Qed.

  Lemma ctx2_loop_good : forall fuel names data ts n, toksL ts -> (length ts <= n)%nat -> (n < fuel)%nat ->
    good n (ctx2_loop endl fuel names data ts).
  Proof.
    induction fuel as [|f IH]; intros names data ts n H Hl Hf; [lia|]. cbn [ctx2_loop].
    apply (good_bind _ _ _ n); [apply rcn_good; auto|]. intros nms ts1 O1 L1.
    apply (good_bind_lt _ _ _ n); [apply required_lt; auto|]. intros _ ts2 O2 L2.
    apply (good_bind _ _ _ (length ts2)); [apply read_nested_good; auto; lia|]. intros acts ts3 O3 L3.
    destruct (is_nil nms); [gf|]. destruct (classes_of names nms) as [[|c rest]|]; try gf.
    apply (good_bind_opt TComma _ ts3 (length ts2) n); auto.
    - intros ts4 O4 L4. apply (good_bind_opt TEOL _ ts4 (length ts4) n); auto;
        intros ts5 O5 L5; apply (good_weaken (length ts5)); try lia; apply IH; auto; lia.
    - intros ts4 O4 L4. apply good_ret; auto. lia.
  Qed.

  Lemma ctx3_sets_good : forall fuel acc ts n, toksL ts -> (length ts <= n)%nat -> (n < fuel)%nat ->
    good n (ctx3_sets F endl fuel acc ts).
  Proof.
    induction fuel as [|f IH]; intros acc ts n H Hl Hf; [lia|]. cbn [ctx3_sets].
    apply (good_bind_lt _ _ _ n); [apply rgs_lt; auto|]. intros gs ts1 O1 L1.
    apply (good_bind_opt TArrow _ ts1 (length ts1) n); auto.
    - intros ts2 O2 L2. apply good_ret; auto. lia.
    - intros ts2 O2 L2. apply (good_weaken (length ts2)); [lia|]. apply IH; auto. lia.
  Qed.

  Lemma seqctx_loop_good : forall fuel names classes subs ts n,
    toksL ts -> (length ts <= n)%nat -> (n < fuel)%nat ->
    good n (seqctx_loop F endl fuel names classes subs ts).
  Proof.
    induction fuel as [|f IH]; intros names classes subs ts n H Hl Hf; [lia|]. cbn [seqctx_loop].
    destruct (peek_good ts H) as (ts1 & Ep & O1 & L1). unfold bind at 1. rewrite Ep.
    destruct (is_ident (peek_tok endl ts) k_class).
    - apply (good_bind_lt _ _ _ (length ts1)); [apply parse_class_def_lt; auto; lia|]. intros d ts2 O2 L2.
      destruct (existsb _ names); [gf|]. destruct (existsb _ (snd d)); [gf|].
      apply (good_bind_opt TEOL _ ts2 (length ts2) n); auto;
        intros ts3 O3 L3; apply (good_weaken (length ts3)); try lia; apply IH; auto; lia.
    - assert (Hk : forall (r : subtable * list (list N) * list (list N)) ts2, toksL ts2 -> (length ts2 <= length ts1)%nat ->
                good n ((let '(sub, names', classes') := r in
                         b <- optional endl TOr ;;
                         if b then (optional endl TEOL ;;; seqctx_loop F endl f names' classes' (subs ++ [sub]))
                         else ret (subs ++ [sub])) ts2)).
      { intros [[sub names'] classes'] ts2 O2 L2.
        apply (good_bind_opt TOr _ ts2 (length ts2) n); auto.
        - intros ts3 O3 L3. apply (good_bind_opt TEOL _ ts3 (length ts3) n); auto;
            intros ts4 O4 L4; apply (good_weaken (length ts4)); try lia; apply IH; auto; lia.
        - intros ts3 O3 L3. apply good_ret; auto. lia. }
      apply (good_bind _ _ _ (length ts1)); [|intros r ts2 O2 L2; apply Hk; auto].
      destruct (ityp_eqb (ttyp (peek_tok endl ts)) TSlash).
      + apply (good_bind _ _ _ (length ts1)); [apply goodlt_good; apply required_lt; auto|]. intros _ ts2 O2 L2.
        apply (good_bind _ _ _ (length ts2)); [apply rgl_good'; auto; lia|]. intros first ts3 O3 L3.
        apply (good_bind _ _ _ (length ts3)); [apply goodlt_good; apply required_lt; auto|]. intros _ ts4 O4 L4.
        apply (good_bind _ _ _ (length ts4)); [apply ctx2_loop_good; auto; lia|]. intros data ts5 O5 L5.
        apply good_ret; auto. lia.
      + destruct (ityp_eqb (ttyp (peek_tok endl ts)) TLBr).
        * apply (good_bind _ _ _ (length ts1)); [apply ctx3_sets_good; auto; lia|]. intros sets ts2 O2 L2.
          apply (good_bind _ _ _ (length ts2)); [apply read_nested_good; auto; lia|]. intros acts ts3 O3 L3.
          apply good_ret; auto. lia.
        * apply (good_bind _ _ _ (length ts1)); [apply ctx1_loop_good; auto; lia|]. intros data ts2 O2 L2.
          apply good_ret; auto.
  Qed.

  Lemma read_seqctx_good : forall fuel ty ts n, toksL ts -> (length ts <= n)%nat -> (n < fuel)%nat ->
    good n (read_seqctx F endl fuel ty ts).
  Proof.
    intros fuel ty ts n H Hl Hf. unfold read_seqctx.
    apply (good_bind _ _ _ n); [apply header_good; auto|]. intros fl ts1 O1 L1.
    apply (good_bind _ _ _ n); [apply seqctx_loop_good; auto|]. intros res ts2 O2 L2.
    apply good_ret; auto.
  Qed.

  (* ---- GSUB6 ---- *)
  Lemma chain_peek_good : forall ts, toksL ts ->
    exists pk ts', chain_peek endl ts = POk (pk, ts') /\ toksL ts' /\ (length ts' <= length ts)%nat.
  Proof.
    intros ts H. unfold chain_peek. unfold bind at 1. rewrite read_eq.
    destruct (ityp_eqb (ttyp (peek_tok endl ts)) TBar) eqn:E.
    - assert (X : ttyp (peek_tok endl ts) <> TEOF) by (intros X; rewrite X in E; discriminate).
      pose proof (peek_not_eof_len ts X) as L. pose proof (tl_ok0 ts H) as O1.
      destruct (peek_good (tl ts) O1) as (ts1 & Ep & O2 & L2).
      unfold bind at 1. unfold bind at 1. rewrite Ep. unfold ret at 1. unfold bind at 1.
      assert (Hu : exists ts2, unread endl (peek_tok endl ts) ts1 = POk (tt, ts2) /\ toksL ts2 /\ (length ts2 <= S (length ts1))%nat).
      { pose proof (peek_ok ts H) as Hp. destruct ts1 as [|a b]; cbn [unread].
        - destruct (is_syn_eof endl (peek_tok endl ts)); eexists; repeat split; eauto; try constructor; auto; cbn; lia.
        - eexists. repeat split; eauto. constructor; auto. }
      destruct Hu as (ts2 & Eu & O3 & L3). rewrite Eu. unfold ret. eexists. eexists. repeat split; eauto. lia.
    - unfold bind at 1. unfold ret at 1. unfold bind at 1.
      destruct (unread_peek ts H) as (ts' & Eu & Ok & Len). rewrite Eu. unfold ret. eexists. eexists. eauto.
  Qed.

  Lemma def_class_lt : forall fuel st ts n, toksL ts -> (length ts <= n)%nat -> (n < fuel)%nat ->
    goodlt n (def_class F endl fuel st ts).
  Proof.
    intros fuel st ts n H Hl Hf. unfold def_class.
    apply (goodlt_bind1 _ _ _ n n); [apply parse_class_def_lt; auto|lia|]. intros d ts1 O1 L1.
    destruct (existsb _ (fst st)); [gf|]. destruct (existsb _ (snd d)); [gf|].
    apply (good_bind_opt TEOL _ ts1 (length ts1) (length ts1)); auto; intros ts2 O2 L2; apply good_ret; auto; lia.
  Qed.

  Lemma chain1_loop_good : forall fuel data ts n, toksL ts -> (length ts <= n)%nat -> (n < fuel)%nat ->
    good n (chain1_loop F endl fuel data ts).
  Proof.
    induction fuel as [|f IH]; intros data ts n H Hl Hf; [lia|]. cbn [chain1_loop].
    apply (good_bind _ _ _ n); [apply rgl_good'; auto|]. intros bt ts1 O1 L1.
    apply (good_bind_lt _ _ _ n); [apply required_lt; auto|]. intros _ ts2 O2 L2.
    apply (good_bind _ _ _ (length ts2)); [apply rgl_good'; auto; lia|]. intros inp ts3 O3 L3.
    apply (good_bind _ _ _ (length ts3)); [apply goodlt_good; apply required_lt; auto|]. intros _ ts4 O4 L4.
    apply (good_bind _ _ _ (length ts4)); [apply rgl_good'; auto; lia|]. intros la ts5 O5 L5.
    apply (good_bind _ _ _ (length ts5)); [apply goodlt_good; apply required_lt; auto|]. intros _ ts6 O6 L6.
    apply (good_bind _ _ _ (length ts6)); [apply read_nested_good; auto; lia|]. intros acts ts7 O7 L7.
    destruct inp as [|key rest].
    { unfold bind. rewrite read_eq. gf. }
    apply (good_bind_opt TComma _ ts7 (length ts2) n); auto; try lia.
    - intros ts8 O8 L8. apply (good_bind_opt TEOL _ ts8 (length ts8) n); auto;
        intros ts9 O9 L9; apply (good_weaken (length ts9)); try lia; apply IH; auto; lia.
    - intros ts8 O8 L8. apply good_ret; auto. lia.
  Qed.

  Lemma chain2_loop_good : forall fuel btn inn lan data ts n, toksL ts -> (length ts <= n)%nat -> (n < fuel)%nat ->
    good n (chain2_loop endl fuel btn inn lan data ts).
  Proof.
    induction fuel as [|f IH]; intros btn inn lan data ts n H Hl Hf; [lia|]. cbn [chain2_loop].
    apply (good_bind _ _ _ n); [apply rcn_good; auto|]. intros bnm ts1 O1 L1.
    apply (good_bind_lt _ _ _ n); [apply required_lt; auto|]. intros _ ts2 O2 L2.
    apply (good_bind _ _ _ (length ts2)); [apply rcn_good; auto; lia|]. intros inm ts3 O3 L3.
    apply (good_bind _ _ _ (length ts3)); [apply goodlt_good; apply required_lt; auto|]. intros _ ts4 O4 L4.
    apply (good_bind _ _ _ (length ts4)); [apply rcn_good; auto; lia|]. intros lnm ts5 O5 L5.
    apply (good_bind _ _ _ (length ts5)); [apply goodlt_good; apply required_lt; auto|]. intros _ ts6 O6 L6.
    apply (good_bind _ _ _ (length ts6)); [apply read_nested_good; auto; lia|]. intros acts ts7 O7 L7.
    destruct (is_nil inm); [gf|].
    destruct (classes_of inn inm) as [[|c rest]|]; try gf.
    destruct (classes_of btn bnm) as [bc|]; try gf.
    destruct (classes_of lan lnm) as [lc|]; try gf.
    apply (good_bind_opt TComma _ ts7 (length ts2) n); auto; try lia.
    - intros ts8 O8 L8. apply (good_bind_opt TEOL _ ts8 (length ts8) n); auto;
        intros ts9 O9 L9; apply (good_weaken (length ts9)); try lia; apply IH; auto; lia.
    - intros ts8 O8 L8. apply good_ret; auto. lia.
  Qed.

  Lemma sets_until_good : forall fuel stop acc ts n, ityp_eqb TEOF stop = false ->
    toksL ts -> (length ts <= n)%nat -> (n < fuel)%nat ->
    good n (sets_until F endl fuel stop acc ts).
  Proof.
    induction fuel as [|f IH]; intros stop acc ts n Hs H Hl Hf; [lia|]. cbn [sets_until].
    apply (good_bind_opt stop _ ts n n); auto.
    - intros ts1 O1 L1. apply good_ret; auto. lia.
    - intros ts1 O1 L1. apply (good_bind_lt _ _ _ n); [apply rgs_lt; auto|]. intros gs ts2 O2 L2.
      apply (good_weaken (length ts2)); [lia|]. apply IH; auto. lia.
  Qed.

  Lemma sets_then_good : forall fuel stop acc ts n, ityp_eqb TEOF stop = false ->
    toksL ts -> (length ts <= n)%nat -> (n < fuel)%nat ->
    good n (sets_then F endl fuel stop acc ts).
  Proof.
    induction fuel as [|f IH]; intros stop acc ts n Hs H Hl Hf; [lia|]. cbn [sets_then].
    apply (good_bind_lt _ _ _ n); [apply rgs_lt; auto|]. intros gs ts1 O1 L1.
    apply (good_bind_opt stop _ ts1 (length ts1) n); auto.
    - intros ts2 O2 L2. apply good_ret; auto. lia.
    - intros ts2 O2 L2. apply (good_weaken (length ts2)); [lia|]. apply IH; auto. lia.
  Qed.

  Lemma chainctx_loop_good : forall fuel ic bc lc subs ts n,
    toksL ts -> (length ts <= n)%nat -> (n < fuel)%nat ->
    good n (chainctx_loop F endl fuel ic bc lc subs ts).
  Proof.
    induction fuel as [|f IH]; intros ic bc lc subs ts n H Hl Hf; [lia|]. cbn [chainctx_loop].
    destruct (chain_peek_good ts H) as (pk & ts1 & Ep & O1 & L1). unfold bind at 1. rewrite Ep.
    assert (Hcls : forall st (k : ctable -> P (list subtable)),
               (forall st' ts2, toksL ts2 -> (S (length ts2) <= length ts1)%nat -> good n (k st' ts2)) ->
               good n ((st' <- def_class F endl (S f) st ;; k st') ts1)).
    { intros st k Hk. apply (good_bind_lt _ _ _ (length ts1)); [apply def_class_lt; auto; lia|].
      intros st' ts2 O2 L2. apply Hk; auto. }
    cbv zeta.
    destruct (is_ident (fst pk) k_inputclass).
    { apply Hcls. intros st' ts2 O2 L2. apply (good_weaken (length ts2)); [lia|]. apply IH; auto. lia. }
    destruct (is_ident (fst pk) k_backtrackclass).
    { apply Hcls. intros st' ts2 O2 L2. apply (good_weaken (length ts2)); [lia|]. apply IH; auto. lia. }
    destruct (is_ident (fst pk) k_lookaheadclass).
    { apply Hcls. intros st' ts2 O2 L2. apply (good_weaken (length ts2)); [lia|]. apply IH; auto. lia. }
    assert (Hk : forall (r : subtable * ctable * ctable * ctable) ts2, toksL ts2 -> (length ts2 <= length ts1)%nat ->
              good n ((let '(sub, ic', bc', lc') := r in
                       b <- optional endl TOr ;;
                       if b then (optional endl TEOL ;;; chainctx_loop F endl f ic' bc' lc' (subs ++ [sub]))
                       else ret (subs ++ [sub])) ts2)).
    { intros [[[sub ic'] bc'] lc'] ts2 O2 L2.
      apply (good_bind_opt TOr _ ts2 (length ts2) n); auto.
      - intros ts3 O3 L3. apply (good_bind_opt TEOL _ ts3 (length ts3) n); auto;
          intros ts4 O4 L4; apply (good_weaken (length ts4)); try lia; apply IH; auto; lia.
      - intros ts3 O3 L3. apply good_ret; auto. lia. }
    apply (good_bind _ _ _ (length ts1)); [|intros r ts2 O2 L2; apply Hk; auto].
    destruct (ityp_eqb (snd pk) TSlash).
    - apply (good_bind _ _ _ (length ts1)); [apply goodlt_good; apply required_lt; auto|]. intros _ ts2 O2 L2.
      apply (good_bind _ _ _ (length ts2)); [apply rgl_good'; auto; lia|]. intros first ts3 O3 L3.
      apply (good_bind _ _ _ (length ts3)); [apply goodlt_good; apply required_lt; auto|]. intros _ ts4 O4 L4.
      apply (good_bind _ _ _ (length ts4)); [apply chain2_loop_good; auto; lia|]. intros data ts5 O5 L5.
      apply good_ret; auto. lia.
    - destruct (ityp_eqb (snd pk) TLBr).
      + apply (good_bind _ _ _ (length ts1)); [apply sets_until_good; auto; lia|]. intros bt ts2 O2 L2.
        apply (good_bind _ _ _ (length ts2)); [apply sets_then_good; auto; lia|]. intros inp ts3 O3 L3.
        apply (good_bind _ _ _ (length ts3)); [apply sets_until_good; auto; lia|]. intros la ts4 O4 L4.
        apply (good_bind _ _ _ (length ts4)); [apply read_nested_good; auto; lia|]. intros acts ts5 O5 L5.
        apply good_ret; auto. lia.
      + apply (good_bind _ _ _ (length ts1)); [apply chain1_loop_good; auto; lia|]. intros data ts2 O2 L2.
        apply good_ret; auto.
  Qed.

  Lemma read_chainctx_good : forall fuel ty ts n, toksL ts -> (length ts <= n)%nat -> (n < fuel)%nat ->
    good n (read_chainctx F endl fuel ty ts).
  Proof.
    intros fuel ty ts n H Hl Hf. unfold read_chainctx.
    apply (good_bind _ _ _ n); [apply header_good; auto|]. intros fl ts1 O1 L1.
    apply (good_bind _ _ _ n); [apply chainctx_loop_good; auto|]. intros res ts2 O2 L2.
    apply good_ret; auto.
  Qed.

  (* ---- GPOS3 ---- *)
  Lemma read_glyph_good : forall fuel ts n, toksL ts -> (length ts <= n)%nat -> (n < fuel)%nat ->
    good n (read_glyph F endl fuel ts).
  Proof.
    intros fuel ts n H Hl Hf. unfold read_glyph.
    apply (good_bind _ _ _ n); [apply rgl_good'; auto|]. intros gids ts1 O1 L1.
    destruct gids as [|g [|g' r]]; try gf. apply good_ret; auto.
  Qed.

  Lemma read_int16_lt : forall ts k, toksL ts -> (length ts <= k)%nat -> goodlt k (read_int16 endl ts).
  Proof.
    intros ts k H Hl. unfold read_int16, bind. rewrite read_eq.
    destruct (ityp_eqb (ttyp (peek_tok endl ts)) TInt) eqn:E; [|apply goodlt_fatal; apply tl_ok0; auto].
    destruct (atoi _); [|apply goodlt_fatal; apply tl_ok0; auto].
    destruct (_ || _); [apply goodlt_fatal; apply tl_ok0; auto|].
    cbn. split; [apply tl_ok; auto|].
    assert (X : ttyp (peek_tok endl ts) <> TEOF) by (intros X; rewrite X in E; discriminate).
    apply peek_not_eof_len in X. lia.
  Qed.

  Lemma required_ident_lt : forall s ts k, toksL ts -> (length ts <= k)%nat -> goodlt k (required_ident endl s ts).
  Proof.
    intros s ts k H Hl. unfold required_ident, bind. rewrite read_eq.
    destruct (is_ident (peek_tok endl ts) s) eqn:E; [|apply goodlt_fatal; apply tl_ok0; auto].
    cbn. split; [apply tl_ok; auto|].
    pose proof (peek_not_eof_len ts (is_ident_not_eof _ _ E)). lia.
  Qed.

  Lemma gpos3_recs_good : forall fuel data ts n, toksL ts -> (length ts <= n)%nat -> (n < fuel)%nat ->
    good n (gpos3_recs F endl fuel data ts).
  Proof.
    induction fuel as [|f IH]; intros data ts n H Hl Hf; [lia|]. cbn [gpos3_recs].
    apply (good_bind _ _ _ n); [apply read_glyph_good; auto|]. intros g ts1 O1 L1.
    apply (good_bind_opt TColon _ ts1 n n); auto; intros ts2 O2 L2;
      (apply (good_bind_lt _ _ _ n); [apply read_int16_lt; auto; lia|]; intros x1 ts3 O3 L3;
       apply (good_bind _ _ _ (length ts3)); [apply goodlt_good; apply required_lt; auto|]; intros _ ts4 O4 L4;
       apply (good_bind _ _ _ (length ts4)); [apply goodlt_good; apply read_int16_lt; auto|]; intros y1 ts5 O5 L5;
       apply (good_bind _ _ _ (length ts5)); [apply goodlt_good; apply required_ident_lt; auto|]; intros _ ts6 O6 L6;
       apply (good_bind _ _ _ (length ts6)); [apply goodlt_good; apply read_int16_lt; auto|]; intros x2 ts7 O7 L7;
       apply (good_bind _ _ _ (length ts7)); [apply goodlt_good; apply required_lt; auto|]; intros _ ts8 O8 L8;
       apply (good_bind _ _ _ (length ts8)); [apply goodlt_good; apply read_int16_lt; auto|]; intros y2 ts9 O9 L9;
       apply (good_bind_opt TSemi _ ts9 (length ts9) n); auto;
       [intros ts10 O10 L10; apply (good_bind_opt TEOL _ ts10 (length ts10) n); auto;
          intros ts11 O11 L11; apply (good_weaken (length ts11)); try lia; apply IH; auto; lia
       |intros ts10 O10 L10; apply good_ret; auto; lia]).
  Qed.

  Lemma gpos3_loop_good : forall fuel subs ts n, toksL ts -> (length ts <= n)%nat -> (n < fuel)%nat ->
    good n (gpos3_loop F endl fuel subs ts).
  Proof.
    induction fuel as [|f IH]; intros subs ts n H Hl Hf; [lia|]. cbn [gpos3_loop].
    apply (good_bind _ _ _ n); [apply gpos3_recs_good; auto|]. intros data ts1 O1 L1. cbv zeta.
    apply (good_bind_opt TOr _ ts1 n n); auto.
    - intros ts2 O2 L2. apply (good_bind_opt TEOL _ ts2 (length ts2) n); auto;
        intros ts3 O3 L3; apply (good_weaken (length ts3)); try lia; apply IH; auto; lia.
    - intros ts2 O2 L2. apply good_ret; auto.
  Qed.

  Lemma read_gpos3_good : forall fuel ts n, toksL ts -> (length ts <= n)%nat -> (n < fuel)%nat ->
    good n (read_gpos3 F endl fuel ts).
  Proof.
    intros fuel ts n H Hl Hf. unfold read_gpos3.
    apply (good_bind _ _ _ n); [apply header_good; auto|]. intros fl ts1 O1 L1.
    apply (good_bind _ _ _ n); [apply gpos3_loop_good; auto|]. intros res ts2 O2 L2.
    apply good_ret; auto.
  Qed.

  (* ---- GPOS4 ---- *)
  Lemma good_bind_optid : forall {B} s (f : bool -> P B) ts k n,
    toksL ts -> (length ts <= k)%nat ->
    (forall ts', toksL ts' -> (S (length ts') <= k)%nat -> good n (f true ts')) ->
    (forall ts', toksL ts' -> (length ts' <= k)%nat -> good n (f false ts')) ->
    good n (bind (optional_ident endl s) f ts).
  Proof.
    intros B s f ts k n Hok Hl Ht Hf. pose proof (optional_ident_good s ts Hok) as G. unfold bind.
    destruct (optional_ident endl s ts) as [[b ts1]|l| | |]; try contradiction.
    destruct G as [O1 L1]. destruct b; [apply Ht|apply Hf]; auto; lia.
  Qed.

  Lemma read_uint16_lt : forall ts k, toksL ts -> (length ts <= k)%nat -> goodlt k (read_uint16 endl ts).
  Proof.
    intros ts k H Hl. unfold read_uint16, bind. rewrite read_eq.
    destruct (ityp_eqb (ttyp (peek_tok endl ts)) TInt) eqn:E; [|apply goodlt_fatal; apply tl_ok0; auto].
    destruct (atoi _); [|apply goodlt_fatal; apply tl_ok0; auto].
    destruct (_ || _); [apply goodlt_fatal; apply tl_ok0; auto|].
    cbn. split; [apply tl_ok; auto|].
    assert (X : ttyp (peek_tok endl ts) <> TEOF) by (intros X; rewrite X in E; discriminate).
    apply peek_not_eof_len in X. lia.
  Qed.

  Lemma gpos4_marks_good : forall fuel gl ma ts n, toksL ts -> (length ts <= n)%nat -> (n < fuel)%nat ->
    good n (gpos4_marks F endl fuel gl ma ts).
  Proof.
    induction fuel as [|f IH]; intros gl ma ts n H Hl Hf; [lia|]. cbn [gpos4_marks].
    apply (good_bind_optid _ _ ts n n); auto; [|intros ts1 O1 L1; apply good_ret; auto].
    intros ts1 O1 L1.
    apply (good_bind _ _ _ (length ts1)); [apply read_glyph_good; auto; lia|]. intros g ts2 O2 L2.
    destruct (not_after gl g); [gf|].
    apply (good_bind_opt TColon _ ts2 (length ts2) n); auto; intros ts3 O3 L3;
      (apply (good_bind_lt _ _ _ (length ts3)); [apply read_uint16_lt; auto|]; intros cls ts4 O4 L4;
       apply (good_bind _ _ _ (length ts4)); [apply goodlt_good; apply required_lt; auto|]; intros _ ts5 O5 L5;
       apply (good_bind _ _ _ (length ts5)); [apply goodlt_good; apply read_int16_lt; auto|]; intros x ts6 O6 L6;
       apply (good_bind _ _ _ (length ts6)); [apply goodlt_good; apply required_lt; auto|]; intros _ ts7 O7 L7;
       apply (good_bind _ _ _ (length ts7)); [apply goodlt_good; apply read_int16_lt; auto|]; intros y ts8 O8 L8;
       apply (good_bind_opt TSemi _ ts8 (length ts8) n); auto; intros ts9 O9 L9;
       apply (good_bind_opt TEOL _ ts9 (length ts9) n); auto; intros ts10 O10 L10;
       apply (good_weaken (length ts10)); try lia; apply IH; auto; lia).
  Qed.

  Lemma gpos4_anchors_good : forall nc i0 ts n, toksL ts -> (length ts <= n)%nat ->
    good n (gpos4_anchors endl nc i0 ts).
  Proof.
    induction nc as [|nc IH]; intros i0 ts n H Hl; cbn [gpos4_anchors]; [apply good_ret; auto|].
    assert (K : forall ts1, toksL ts1 -> (length ts1 <= n)%nat ->
      good n ((required endl TAt ;;; x <- read_int16 endl ;; required endl TComma ;;; y <- read_int16 endl ;;
               r <- gpos4_anchors endl nc false ;; ret ((x, y) :: r)) ts1)).
    { intros ts1 O1 L1.
      apply (good_bind _ _ _ n); [apply goodlt_good; apply required_lt; auto|]. intros _ ts2 O2 L2.
      apply (good_bind _ _ _ n); [apply goodlt_good; apply read_int16_lt; auto|]. intros x ts3 O3 L3.
      apply (good_bind _ _ _ n); [apply goodlt_good; apply required_lt; auto|]. intros _ ts4 O4 L4.
      apply (good_bind _ _ _ n); [apply goodlt_good; apply read_int16_lt; auto|]. intros y ts5 O5 L5.
      apply (good_bind _ _ _ n); [apply IH; auto|]. intros r ts6 O6 L6. apply good_ret; auto. }
    destruct i0.
    - unfold bind at 1. unfold ret at 1. apply K; auto.
    - apply (good_bind_opt TComma _ ts n n); auto; intros ts1 O1 L1; apply K; auto; lia.
  Qed.

  Lemma gpos4_bases_good : forall fuel nc gl ba ts n, toksL ts -> (length ts <= n)%nat -> (n < fuel)%nat ->
    good n (gpos4_bases F endl fuel nc gl ba ts).
  Proof.
    induction fuel as [|f IH]; intros nc gl ba ts n H Hl Hf; [lia|]. cbn [gpos4_bases].
    apply (good_bind_optid _ _ ts n n); auto; [|intros ts1 O1 L1; apply good_ret; auto].
    intros ts1 O1 L1.
    apply (good_bind _ _ _ (length ts1)); [apply read_glyph_good; auto; lia|]. intros g ts2 O2 L2.
    destruct (not_after gl g); [gf|].
    apply (good_bind_opt TColon _ ts2 (length ts2) n); auto; intros ts3 O3 L3;
      (apply (good_bind _ _ _ (length ts3)); [apply gpos4_anchors_good; auto|]; intros an ts4 O4 L4;
       apply (good_bind_opt TSemi _ ts4 (length ts4) n); auto; intros ts9 O9 L9;
       apply (good_bind_opt TEOL _ ts9 (length ts9) n); auto; intros ts10 O10 L10;
       apply (good_weaken (length ts10)); try lia; apply IH; auto; lia).
  Qed.

  Lemma gpos4_loop_good : forall fuel subs ts n, toksL ts -> (length ts <= n)%nat -> (n < fuel)%nat ->
    good n (gpos4_loop F endl fuel subs ts).
  Proof.
    induction fuel as [|f IH]; intros subs ts n H Hl Hf; [lia|]. cbn [gpos4_loop].
    apply (good_bind _ _ _ n); [apply gpos4_marks_good; auto|]. intros mm ts1 O1 L1.
    destruct (classes_complete _); [|gf].
    apply (good_bind _ _ _ n); [apply gpos4_bases_good; auto|]. intros bb ts2 O2 L2. cbv zeta.
    apply (good_bind_opt TOr _ ts2 n n); auto.
    - intros ts3 O3 L3. apply (good_bind_opt TEOL _ ts3 (length ts3) n); auto;
        intros ts4 O4 L4; apply (good_weaken (length ts4)); try lia; apply IH; auto; lia.
    - intros ts3 O3 L3. apply good_ret; auto.
  Qed.

  Lemma read_gpos4_good : forall fuel ts n, toksL ts -> (length ts <= n)%nat -> (n < fuel)%nat ->
    good n (read_gpos4 F endl fuel ts).
  Proof.
    intros fuel ts n H Hl Hf. unfold read_gpos4.
    apply (good_bind _ _ _ n); [apply header_good; auto|]. intros fl ts1 O1 L1.
    apply (good_bind _ _ _ n); [apply gpos4_loop_good; auto|]. intros res ts2 O2 L2.
    apply good_ret; auto.
  Qed.

  Lemma parse_loop_good : forall fuel acc ts n, toksL ts -> (length ts <= n)%nat -> (n < fuel)%nat ->
    good n (parse_loop F endl fuel acc ts).
  Proof.
    induction fuel as [|f IH]; intros acc ts n H Hl Hf; [lia|]. cbn [parse_loop].
    unfold bind at 1. rewrite read_eq.
    assert (Hs : ttyp (peek_tok endl ts) <> TEOF -> toksL (tl ts) /\ (S (length (tl ts)) <= n)%nat).
    { intros X. apply peek_not_eof_len in X. split; [apply tl_ok; auto|lia]. }
    assert (Hk : forall (rd : nat -> P lookup),
               (forall ts' n', toksL ts' -> (length ts' <= n')%nat -> (n' < S f)%nat -> good n' (rd (S f) ts')) ->
               ttyp (peek_tok endl ts) <> TEOF ->
               good n ((l <- rd (S f) ;; parse_loop F endl f (acc ++ [l])) (tl ts))).
    { intros rd Hrd X. destruct (Hs X) as [O1 L1].
      apply (good_bind _ _ _ (length (tl ts))); [apply Hrd; auto; lia|]. intros l ts2 O2 L2.
      apply (good_weaken (length ts2)); [lia|]. apply IH; auto. lia. }
    destruct (ttyp (peek_tok endl ts)) eqn:E; try gf.
    - apply good_ret; [apply tl_ok; auto|]. destruct ts; cbn in *; lia.
    - destruct Hs as [O1 L1]; [discriminate|]. apply (good_weaken (length (tl ts))); [lia|]. apply IH; auto. lia.
    - assert (X : TIdent <> TEOF) by discriminate.
      repeat match goal with |- context [if ?b then _ else _] => destruct b end; try gf.
      + apply (Hk (read_gsub1 F endl)); auto. intros; apply read_gsub1_good; auto.
      + apply (Hk (read_gsub2 F endl)); auto. intros; apply read_gsub2_good; auto.
      + apply (Hk (read_gsub3 F endl)); auto. intros; apply read_gsub3_good; auto.
      + apply (Hk (read_gsub4 F endl)); auto. intros; apply read_gsub4_good; auto.
      + apply (Hk (fun fu => read_seqctx F endl fu 5)); auto. intros; apply read_seqctx_good; auto.
      + apply (Hk (fun fu => read_chainctx F endl fu 6)); auto. intros; apply read_chainctx_good; auto.
      + apply (Hk (read_gpos1 F endl)); auto. intros; apply read_gpos1_good; auto.
      + apply (Hk (read_gpos3 F endl)); auto. intros; apply read_gpos3_good; auto.
      + apply (Hk (read_gpos4 F endl)); auto. intros; apply read_gpos4_good; auto.
    - destruct Hs as [O1 L1]; [discriminate|]. apply (good_weaken (length (tl ts))); [lia|]. apply IH; auto. lia.
  Qed.

End Total.

(* Parse of any text, over any font without a cmap entry for glyph 65535:
   lookups, an error with a line, or a keyword of the unmodelled grammar *)
Definition total_font_ok (F : font) : Prop :=
  num_glyphs F <= 65535 /\ Forall (fun p => snd p <> 65535) (f_cmap F).

Definition total_result (Lok : N -> Prop) (r : presult (list lookup)) : Prop :=
  match r with
  | POk _ | PUnmodelled => True
  | PErr l => Lok l
  | PPanic | PFuel => False
  end.

Theorem parse_tokens_total : forall F ts (Lok : N -> Prop), total_font_ok F -> toks_ok ts ->
  Forall (fun t => Lok (tline t)) ts -> Lok (end_line ts) ->
  total_result Lok (M_parse_tokens F ts).
Proof.
  intros F ts Lok [Hn Hc] H HL He. unfold M_parse_tokens.
  assert (HT : toksL Lok ts).
  { unfold toksL, tokL, toks_ok in *. rewrite Forall_forall in *. intros t Ht. split; [apply H; auto|apply HL; auto]. }
  pose proof (parse_loop_good F (end_line ts) Hn Hc Lok He (S (S (length ts))) [] ts (length ts) HT (le_n _)) as G.
  assert (L : (length ts < S (S (length ts)))%nat) by lia. specialize (G L).
  destruct (parse_loop F (end_line ts) (S (S (length ts))) [] ts) as [[ll ts']|l| | |];
    cbn in G; cbn; auto.
Qed.

Theorem nested_tokens_total : forall ts (Lok : N -> Prop), toks_ok ts ->
  Forall (fun t => Lok (tline t)) ts -> Lok (end_line ts) ->
  match read_nested (end_line ts) (S (S (length ts))) [] ts with
  | POk _ | PUnmodelled => True | PErr l => Lok l | PPanic | PFuel => False end.
Proof.
  intros ts Lok H HL He.
  assert (HT : toksL Lok ts).
  { unfold toksL, tokL, toks_ok in *. rewrite Forall_forall in *. intros t Ht. split; [apply H; auto|apply HL; auto]. }
  assert (H0 : num_glyphs (mkFont [] []) <= 65535) by (cbn; lia).
  pose proof (read_nested_good (mkFont [] []) (end_line ts) H0 Lok He (S (S (length ts))) [] ts (length ts) HT (le_n _)) as G.
  assert (L : (length ts < S (S (length ts)))%nat) by lia. specialize (G L).
  destruct (read_nested (end_line ts) (S (S (length ts))) [] ts) as [[ll ts']|l| | |]; cbn in G; cbn; auto.
Qed.

(* ---- line numbers of the lexer's items ---- *)
Definition newlines (cs : list N) : N := N.of_nat (count_occ N.eq_dec cs 10).

Section LexLines.
  Variable U : uclass.

  Lemma lstart_line : forall line c ts st l, lstart U line c = (ts, st, l) ->
    Forall (fun t => tline t = line) ts /\ (l = line \/ (l = line + 1 /\ c = 10)) /\ (st = LDone -> ts <> []).
  Proof.
    intros line c ts st l H. unfold lstart in H.
    destruct (c =? 0); [inversion H; subst; repeat split; auto; discriminate|].
    destruct (c =? 10) eqn:E10.
    { apply N.eqb_eq in E10. inversion H; subst. repeat split; auto; discriminate. }
    repeat match type of H with (if ?b then _ else _) = _ => destruct b end;
      try (inversion H; subst; repeat split; auto; discriminate).
    destruct (single_char c); [inversion H; subst; repeat split; auto; discriminate|].
    repeat match type of H with (if ?b then _ else _) = _ => destruct b end;
      inversion H; subst; repeat split; auto; discriminate.
  Qed.

  Lemma lstep_line : forall st line c ts st' l, lstep U st line c = (ts, st', l) ->
    Forall (fun t => tline t = line) ts /\ (l = line \/ (l = line + 1 /\ c = 10))
    /\ (st <> LDone -> st' = LDone -> ts <> []).
  Proof.
    intros st line c ts st' l H.
    assert (ET : forall t r, emit_then t r = (ts, st', l) -> tline t = line ->
              (forall ts0 st0 l0, r = (ts0, st0, l0) ->
                 Forall (fun t => tline t = line) ts0 /\ (l0 = line \/ (l0 = line + 1 /\ c = 10)) /\ (st0 = LDone -> ts0 <> [])) ->
              Forall (fun t => tline t = line) ts /\ (l = line \/ (l = line + 1 /\ c = 10)) /\ (st <> LDone -> st' = LDone -> ts <> [])).
    { intros t [[ts0 st0] l0] He Ht Hr. cbn in He. inversion He; subst.
      destruct (Hr ts0 st' l eq_refl) as (A & B & C). repeat split; auto. discriminate. }
    destruct st; cbn [lstep] in H.
    - destruct (lstart_line _ _ _ _ _ H) as (A & B & C). repeat split; auto.
    - destruct (ident_char U c); [inversion H; subst; repeat split; auto; discriminate|].
      destruct (c =? 0); [inversion H; subst; repeat split; auto; discriminate|].
      eapply ET; eauto. intros. eapply lstart_line; eauto.
    - destruct (is_adigit c); [inversion H; subst; repeat split; auto; discriminate|].
      eapply ET; eauto. intros. eapply lstart_line; eauto.
    - repeat match type of H with (if ?b then _ else _) = _ => destruct b end;
        inversion H; subst; repeat split; auto; discriminate.
    - destruct ((c =? 0) || (c =? 10)).
      + destruct (lstart_line _ _ _ _ _ H) as (A & B & C). repeat split; auto.
      + inversion H; subst; repeat split; auto; discriminate.
    - destruct (c =? 62); [inversion H; subst; repeat split; auto; discriminate|].
      destruct (is_adigit c); [inversion H; subst; repeat split; auto; discriminate|].
      eapply ET; eauto. intros. eapply lstart_line; eauto.
    - destruct (c =? 124); [inversion H; subst; repeat split; auto; discriminate|].
      eapply ET; eauto. intros. eapply lstart_line; eauto.
    - inversion H; subst. repeat split; auto; intros X; congruence.
  Qed.

  Lemma newlines_cons : forall c cs, newlines (c :: cs) = newlines cs + (if c =? 10 then 1 else 0).
  Proof.
    intros c cs. unfold newlines. cbn [count_occ]. destruct (N.eq_dec c 10) as [E|E].
    - subst. cbn. lia.
    - assert (X : (c =? 10) = false) by lia. rewrite X. lia.
  Qed.

  Lemma lexm_lines : forall cs st line,
    Forall (fun t => line <= tline t <= line + newlines cs) (lexm U st line cs).
  Proof.
    induction cs as [|c cs IH]; intros st line; cbn [lexm].
    - unfold newlines. cbn. destruct st; cbn; repeat constructor; cbn; lia.
    - destruct (lstep U st line c) as [[ts st'] l'] eqn:E.
      destruct (lstep_line _ _ _ _ _ _ E) as (A & B & _). rewrite newlines_cons.
      apply Forall_app. split.
      + eapply Forall_impl; [|exact A]. intros t Ht. cbn in Ht. lia.
      + eapply Forall_impl; [|apply IH]. intros t Ht. cbn in Ht.
        destruct B as [B|[B1 B2]]; subst.
        * lia.
        * rewrite N.eqb_refl. lia.
  Qed.

  Lemma lexm_nonempty : forall cs st line, st <> LDone -> lexm U st line cs <> [].
  Proof.
    induction cs as [|c cs IH]; intros st line H; cbn [lexm].
    - destruct st; cbn; congruence.
    - destruct (lstep U st line c) as [[ts st'] l'] eqn:E.
      destruct (lstep_line _ _ _ _ _ _ E) as (_ & _ & C).
      destruct ts as [|t ts']; [|discriminate]. cbn [app]. apply IH.
      intros X. apply (C H X). reflexivity.
  Qed.

  Lemma lex_lines : forall text,
    Forall (fun t => 1 <= tline t <= 1 + newlines text) (M_lex U text)
    /\ 1 <= end_line (M_lex U text) <= 1 + newlines text.
  Proof.
    intros text. pose proof (lexm_lines text LStart 1) as H. split; [exact H|].
    unfold end_line, last_opt. fold (M_lex U text) in H.
    pose proof (lexm_nonempty text LStart 1 ltac:(discriminate)) as Hn. fold (M_lex U text) in Hn.
    destruct (rev (M_lex U text)) as [|t r] eqn:Er.
    - exfalso. apply Hn. rewrite <- (rev_involutive (M_lex U text)), Er. reflexivity.
    - rewrite Forall_forall in H. apply H. apply in_rev. rewrite Er. left. reflexivity.
  Qed.
End LexLines.

(* P1 parse_total: Parse of ANY text, over any font without a cmap entry for
   glyph 65535, ends in lookups, in an error whose line lies inside the text,
   or at a keyword of the unmodelled grammar; it never panics and no loop
   runs for ever *)
Theorem parse_total_text : forall U F text, total_font_ok F ->
  total_result (fun l => 1 <= l <= 1 + newlines text) (M_parse U F text).
Proof.
  intros U F text HF. unfold M_parse. destruct (lex_lines U text) as [A B].
  apply parse_tokens_total; auto. apply lex_toks_ok.
Qed.

Theorem parse_nested_total_text : forall U text,
  match M_parse_nested U text with
  | POk _ | PUnmodelled => True
  | PErr l => 1 <= l <= 1 + newlines text
  | PPanic | PFuel => False
  end.
Proof.
  intros U text. unfold M_parse_nested. destruct (lex_lines U text) as [A B].
  pose proof (nested_tokens_total (M_lex U text) (fun l => 1 <= l <= 1 + newlines text) (lex_toks_ok U text) A B) as G.
  destruct (read_nested _ _ _ _) as [[r ts']|l| | |]; auto.
Qed.
