(* C19/Model.v — executable model of the lookup description language of
   opentype/gtab/builder: the lexer (lexer.go), the parser (parser.go) and the
   explainer (explain.go) for the fragment
     lookup flags, glyph lists / ranges / names / quoted strings via the cmap,
     GSUB1, GSUB2, GSUB3, GSUB4, GPOS1.
   Texts, glyph names and token values are lists of code points (N).
   The model mirrors the repaired code (fixes/C19-*.diff applied to /repo).
   Definitions only; proofs are in Proofs*.v. *)
From Coq Require Import List NArith ZArith Bool Arith.
From Coq Require String Ascii.
From Gen Require Import C19.
Import ListNotations.
Local Open Scope N_scope.

(* ------------------------------------------------------------------ *)
(* Characters                                                          *)

(* the constant strings of the three Go files, as code point lists *)
Module K.
  Import String Ascii.
  Local Open Scope string_scope.
  Definition s2l (s : string) : list N := List.map N_of_ascii (list_ascii_of_string s).
  Definition k_x := Eval compute in s2l "x".
  Definition k_y := Eval compute in s2l "y".
  Definition k_dx := Eval compute in s2l "dx".
  Definition k_us := Eval compute in s2l "_".
  Definition k_GSUB := Eval compute in s2l "GSUB".
  Definition k_GPOS := Eval compute in s2l "GPOS".
  Definition k_GSUB1 := Eval compute in s2l "GSUB1".
  Definition k_GSUB2 := Eval compute in s2l "GSUB2".
  Definition k_GSUB3 := Eval compute in s2l "GSUB3".
  Definition k_GSUB4 := Eval compute in s2l "GSUB4".
  Definition k_GSUB5 := Eval compute in s2l "GSUB5".
  Definition k_GSUB6 := Eval compute in s2l "GSUB6".
  Definition k_GPOS1 := Eval compute in s2l "GPOS1".
  Definition k_GPOS2 := Eval compute in s2l "GPOS2".
  Definition k_GPOS3 := Eval compute in s2l "GPOS3".
  Definition k_GPOS4 := Eval compute in s2l "GPOS4".
  Definition k_arrow := Eval compute in s2l " -> ".
  Definition k_comma := Eval compute in s2l ", ".
  Definition k_to := Eval compute in s2l "to".
  Definition k_mark := Eval compute in s2l "mark".
  Definition k_base := Eval compute in s2l "base".
  Definition k_first := Eval compute in s2l "first".
  Definition k_second := Eval compute in s2l "second".
  Definition k_class := Eval compute in s2l "class".
  Definition k_inputclass := Eval compute in s2l "inputclass".
  Definition k_backtrackclass := Eval compute in s2l "backtrackclass".
  Definition k_lookaheadclass := Eval compute in s2l "lookaheadclass".
  Definition k_or := Eval compute in [32; 124; 124; 10; 9].      (* " ||\n\t" *)
End K.
Import K.

(* The Unicode tables of package unicode (IsLetter, IsDigit, IsSpace,
   IsPrint) are an external black box: for code points >= 128 the model is
   parameterised by four arbitrary predicates; ASCII is concrete. *)
Record uclass : Type := mkU {
  u_letter : N -> bool; u_digit : N -> bool; u_space : N -> bool; u_print : N -> bool }.

Definition in_range (a b c : N) : bool := (a <=? c) && (c <=? b).

Section Chars.
  Variable U : uclass.
  Definition is_letter (c : N) : bool :=
    if c <? 128 then in_range 65 90 c || in_range 97 122 c else u_letter U c.
  Definition is_adigit (c : N) : bool := in_range 48 57 c.       (* '0' <= r <= '9' *)
  Definition is_udigit (c : N) : bool :=                         (* unicode.IsDigit *)
    if c <? 128 then is_adigit c else u_digit U c.
  Definition is_space (c : N) : bool :=
    if c <? 128 then in_range 9 13 c || (c =? 32) else u_space U c.
  Definition is_print (c : N) : bool :=
    if c <? 128 then in_range 32 126 c else u_print U c.
  Definition ident_start (c : N) : bool := is_letter c || (c =? 46) || (c =? 95).
  Definition ident_char (c : N) : bool := ident_start c || is_udigit c.
End Chars.

(* ------------------------------------------------------------------ *)
(* Tokens (lexer.go: itemType, item)                                   *)

Inductive ityp : Type :=
| TError | TEOF | TEOL | TAmp | TArrow | TAt | TBar | TColon | TComma | TEqual
| THyphen | TIdent | TInt | TOr | TSemi | TSlash | TRBr | TLBr | TString.

Definition ityp_code (t : ityp) : N :=
  match t with
  | TError => builder_itemError | TEOF => builder_itemEOF | TEOL => builder_itemEOL
  | TAmp => builder_itemAmpersand | TArrow => builder_itemArrow | TAt => builder_itemAt
  | TBar => builder_itemBar | TColon => builder_itemColon | TComma => builder_itemComma
  | TEqual => builder_itemEqual | THyphen => builder_itemHyphen
  | TIdent => builder_itemIdentifier | TInt => builder_itemInteger | TOr => builder_itemOr
  | TSemi => builder_itemSemicolon | TSlash => builder_itemSlash
  | TRBr => builder_itemSquareBracketClose | TLBr => builder_itemSquareBracketOpen
  | TString => builder_itemString
  end.

Definition all_ityp : list ityp :=
  [TError; TEOF; TEOL; TAmp; TArrow; TAt; TBar; TColon; TComma; TEqual;
   THyphen; TIdent; TInt; TOr; TSemi; TSlash; TRBr; TLBr; TString].

Definition ityp_eqb (a b : ityp) : bool :=
  match a, b with
  | TError, TError | TEOF, TEOF | TEOL, TEOL | TAmp, TAmp | TArrow, TArrow
  | TAt, TAt | TBar, TBar | TColon, TColon | TComma, TComma | TEqual, TEqual
  | THyphen, THyphen | TIdent, TIdent | TInt, TInt | TOr, TOr | TSemi, TSemi
  | TSlash, TSlash | TRBr, TRBr | TLBr, TLBr | TString, TString => true
  | _, _ => false
  end.

(* singleCharTokens; tied to the Go table by Proofs.single_char_tie *)
Definition single_char (c : N) : option ityp :=
  if c =? 44 then Some TComma else if c =? 59 then Some TSemi
  else if c =? 58 then Some TColon else if c =? 91 then Some TLBr
  else if c =? 93 then Some TRBr else if c =? 64 then Some TAt
  else if c =? 47 then Some TSlash else if c =? 38 then Some TAmp
  else if c =? 61 then Some TEqual else None.

Record token : Type := mkTok { ttyp : ityp; tval : list N; tline : N }.

(* ------------------------------------------------------------------ *)
(* M_lex: the state functions of lexer.go as a character transducer.
   A state records which state function is running and the text of the
   current item; "backup" of a rune is modelled by handing the rune to the
   start state.  rune 0 is the lexer's eof marker, also inside the input.
   Values of EOF and error items are not observable and are left empty. *)

Inductive lstate : Type :=
| LStart
| LIdent (acc : list N)
| LInt (acc : list N)
| LStr (acc : list N) (esc : bool)
| LComment
| LHyphen
| LBar
| LDone.

Section Lexer.
  Variable U : uclass.

  Definition lstart (line c : N) : list token * lstate * N :=
    if c =? 0 then ([mkTok TEOF [] line], LDone, line)
    else if c =? 10 then ([mkTok TEOL [10] line], LStart, line + 1)
    else if is_space U c then ([], LStart, line)
    else if ident_start U c then ([], LIdent [c], line)
    else if c =? 34 then ([], LStr [c] false, line)
    else if is_adigit c || (c =? 43) then ([], LInt [c], line)
    else match single_char c with
         | Some ty => ([mkTok ty [c] line], LStart, line)
         | None =>
             if c =? 45 then ([], LHyphen, line)
             else if c =? 124 then ([], LBar, line)
             else if c =? 35 then ([], LComment, line)
             else ([mkTok TError [] line], LDone, line)
         end.

  Definition emit_then (t : token) (r : list token * lstate * N) : list token * lstate * N :=
    let '(ts, st, l) := r in (t :: ts, st, l).

  Definition lstep (st : lstate) (line c : N) : list token * lstate * N :=
    match st with
    | LStart => lstart line c
    | LIdent acc =>
        if ident_char U c then ([], LIdent (acc ++ [c]), line)
        else if c =? 0 then ([mkTok TIdent (acc ++ [c]) line], LStart, line)
        else emit_then (mkTok TIdent acc line) (lstart line c)
    | LInt acc =>
        if is_adigit c then ([], LInt (acc ++ [c]), line)
        else emit_then (mkTok TInt acc line) (lstart line c)
    | LStr acc esc =>
        if (c =? 0) || (c =? 10) then ([mkTok TError [] line], LDone, line)
        else if esc then ([], LStr (acc ++ [c]) false, line)
        else if c =? 92 then ([], LStr (acc ++ [c]) true, line)
        else if c =? 34 then ([mkTok TString (acc ++ [c]) line], LStart, line)
        else ([], LStr (acc ++ [c]) false, line)
    | LComment =>
        if (c =? 0) || (c =? 10) then lstart line c else ([], LComment, line)
    | LHyphen =>
        if c =? 62 then ([mkTok TArrow [45; 62] line], LStart, line)
        else if is_adigit c then ([], LInt [45; c], line)
        else emit_then (mkTok THyphen [45] line) (lstart line c)
    | LBar =>
        if c =? 124 then ([mkTok TOr [124; 124] line], LStart, line)
        else emit_then (mkTok TBar [124] line) (lstart line c)
    | LDone => ([], LDone, line)
    end.

  Definition lfinal (st : lstate) (line : N) : list token :=
    match st with
    | LStart | LComment => [mkTok TEOF [] line]
    | LIdent acc => [mkTok TIdent acc line; mkTok TEOF [] line]
    | LInt acc => [mkTok TInt acc line; mkTok TEOF [] line]
    | LStr _ _ => [mkTok TError [] line]
    | LHyphen => [mkTok THyphen [45] line; mkTok TEOF [] line]
    | LBar => [mkTok TBar [124] line; mkTok TEOF [] line]
    | LDone => []
    end.

  Fixpoint lexm (st : lstate) (line : N) (cs : list N) : list token :=
    match cs with
    | [] => lfinal st line
    | c :: r => let '(ts, st', line') := lstep st line c in ts ++ lexm st' line' r
    end.

  Definition M_lex (text : list N) : list token := lexm LStart 1 text.
End Lexer.

(* ------------------------------------------------------------------ *)
(* Fonts: glyph-name table (index = glyph id, [] = no name) and the best
   cmap subtable as a finite map rune -> gid (strictly ascending runes). *)

Record font : Type := mkFont { f_names : list (list N); f_cmap : list (N * N) }.

Definition num_glyphs (F : font) : N := N.of_nat (length (f_names F)).

Fixpoint list_eqb (a b : list N) : bool :=
  match a, b with
  | [], [] => true
  | x :: a', y :: b' => (x =? y) && list_eqb a' b'
  | _, _ => false
  end.

Definition is_nil {A} (l : list A) : bool := match l with [] => true | _ => false end.

(* Parse: byName[glyphName] = i for i = 0 .. glyph.ID(numGlyphs)-1, later
   glyphs overwrite earlier ones *)
Fixpoint by_name_from (names : list (list N)) (i : N) (nm : list N) (acc : option N) : option N :=
  match names with
  | [] => acc
  | n :: r => by_name_from r (i + 1) nm (if negb (is_nil n) && list_eqb n nm then Some i else acc)
  end.
Definition by_name (F : font) (nm : list N) : option N :=
  by_name_from (firstn (N.to_nat (num_glyphs F mod 65536)) (f_names F)) 0 nm None.

Fixpoint cmap_lookup_l (cm : list (N * N)) (r : N) : N :=
  match cm with
  | [] => 0
  | (k, g) :: rest => if k =? r then g else cmap_lookup_l rest r
  end.
Definition cmap_lookup (F : font) (r : N) : N := cmap_lookup_l (f_cmap F) r.

(* ------------------------------------------------------------------ *)
(* Lookup lists (the part of gtab.LookupList the fragment speaks about).
   coverage.Table / coverage.Set are the glyph lists in coverage-index order. *)

Record vrec : Type := mkV { v_x : Z; v_y : Z; v_dx : Z }.   (* XPlacement, YPlacement, XAdvance *)

(* nested actions: (LookupListIndex, SequenceIndex) *)
Definition actions : Type := list (N * N).

(* contextual subtables (GSUB5).  classdef.Table is the list of the glyph
   lists of class 1, 2, ... (each ascending); Rules are indexed by coverage
   index (format 1) or by the class of the first glyph (format 2) and hold
   (Input without its first element, Actions). *)
Inductive ctx_sub : Type :=
| SeqCtx1 (cov : list N) (rules : list (list (list N * actions)))
| SeqCtx2 (cov : list N) (classes : list (list N)) (rules : list (list (list N * actions)))
| SeqCtx3 (input : list (list N)) (acts : actions).

(* chained contextual subtables (GSUB6).  A rule is
   (((Backtrack, Input without its first element), Lookahead), Actions);
   Backtrack is stored in reverse reading order, as in the font file. *)
Definition chain_rule : Type := (list N * list N * list N * actions)%type.
Inductive chain_sub : Type :=
| Chain1 (cov : list N) (rules : list (list chain_rule))
| Chain2 (cov : list N) (btc inc lac : list (list N)) (rules : list (list chain_rule))
| Chain3 (bt input la : list (list N)) (acts : actions).

(* GPOS subtables beyond type 1.  An anchor is (X, Y); an entry/exit record
   is ((X1, Y1), (X2, Y2)). *)
Definition anchor : Type := (Z * Z)%type.
Inductive pos_sub : Type :=
| Gpos3_1 (cov : list N) (records : list (anchor * anchor))
(* mark-to-base attachment: mark glyphs with (class, anchor), base glyphs with
   one anchor per mark class *)
| Gpos4_1 (mcov : list N) (marks : list (N * anchor)) (bcov : list N) (bases : list (list anchor)).

Inductive subtable : Type :=
| Pos (p : pos_sub)
| Chn (h : chain_sub)
| Ctx (c : ctx_sub)
| Gsub1_1 (cov : list N) (delta : N)
| Gsub1_2 (cov : list N) (subst : list N)
| Gsub2_1 (cov : list N) (repl : list (list N))
| Gsub3_1 (cov : list N) (alts : list (list N))
| Gsub4_1 (cov : list N) (repl : list (list (list N * N)))      (* ligatures: (In, Out) *)
| Gpos1_1 (cov : list N) (adj : option vrec)
| Gpos1_2 (cov : list N) (adj : list (option vrec)).

Record lookup : Type := mkLookup { l_type : N; l_flags : N; l_subs : list subtable }.

(* ------------------------------------------------------------------ *)
(* Small list utilities mirroring the Go helpers                       *)

Fixpoint insert_sorted (x : N) (l : list N) : list N :=
  match l with
  | [] => [x]
  | y :: r => if x <=? y then x :: l else y :: insert_sorted x r
  end.
Definition isort (l : list N) : list N := fold_right insert_sorted [] l.

(* unique: removes adjacent duplicates *)
Fixpoint uniq (l : list N) : list N :=
  match l with
  | [] => []
  | x :: r => match r with
              | [] => [x]
              | y :: _ => if x =? y then uniq r else x :: uniq r
              end
  end.

Definition last_opt {A} (l : list A) : option A :=
  match rev l with [] => None | x :: _ => Some x end.

Fixpoint assoc {B} (k : N) (l : list (N * B)) : option B :=
  match l with
  | [] => None
  | (k', v) :: r => if k' =? k then Some v else assoc k r
  end.

Definition has_key {B} (k : N) (l : list (N * B)) : bool :=
  match assoc k l with Some _ => true | None => false end.

(* ------------------------------------------------------------------ *)
(* Numbers                                                             *)

(* strconv.Atoi restricted to what its callers can observe: optional sign,
   at least one digit, digits only.  (Values beyond int64 make Atoi fail;
   every caller treats failure and "out of 16-bit range" alike.) *)
Fixpoint atoi_digits (ds : list N) (acc : N) : option N :=
  match ds with
  | [] => Some acc
  | d :: r => if is_adigit d then atoi_digits r (10 * acc + (d - 48)) else None
  end.
Definition atoi (s : list N) : option Z :=
  match s with
  | [] => None
  | c :: r =>
      if c =? 43 then (if is_nil r then None else option_map Z.of_N (atoi_digits r 0))
      else if c =? 45 then (if is_nil r then None else option_map (fun n => (- Z.of_N n)%Z) (atoi_digits r 0))
      else option_map Z.of_N (atoi_digits s 0)
  end.

(* fmt "%d" of a non-negative number *)
Fixpoint digits_aux (fuel : nat) (n : N) (acc : list N) : list N :=
  match fuel with
  | O => acc
  | S f => let d := 48 + n mod 10 in
           let q := n / 10 in
           if q =? 0 then d :: acc else digits_aux f q (d :: acc)
  end.
Definition digits (n : N) : list N := digits_aux (S (N.size_nat n)) n [].
(* "%+d" *)
Definition digits_signed (z : Z) : list N :=
  match z with
  | Z0 => 43 :: digits 0
  | Zpos p => 43 :: digits (Npos p)
  | Zneg p => 45 :: digits (Npos p)
  end.

(* "%d" *)
Definition digits_z (z : Z) : list N :=
  match z with
  | Z0 => digits 0
  | Zpos p => digits (Npos p)
  | Zneg p => 45 :: digits (Npos p)
  end.

(* ------------------------------------------------------------------ *)
(* M_parse                                                             *)

Inductive presult (A : Type) : Type :=
| POk (a : A)
| PErr (line : N)        (* *parseError, next.line *)
| PPanic                 (* a Go panic that is not a *parseError *)
| PFuel                  (* model fuel exhausted / non-terminating Go loop *)
| PUnmodelled.           (* GSUB5, GSUB6, GPOS2-4: outside the modelled grammar *)
Arguments POk {A} a.
Arguments PErr {A} line.
Arguments PPanic {A}.
Arguments PFuel {A}.
Arguments PUnmodelled {A}.

(* parser state: backlog (top first) followed by the items still to come from
   the lexer, as one list *)
Definition P (A : Type) : Type := list token -> presult (A * list token).

Definition ret {A} (a : A) : P A := fun ts => POk (a, ts).
Definition bind {A B} (m : P A) (f : A -> P B) : P B :=
  fun ts => match m ts with
            | POk (a, ts') => f a ts'
            | PErr l => PErr l
            | PPanic => PPanic
            | PFuel => PFuel
            | PUnmodelled => PUnmodelled
            end.
Notation "x <- m ;; f" := (bind m (fun x => f)) (at level 61, m at next level, right associativity).
Notation "m ;;; f" := (bind m (fun _ => f)) (at level 61, right associativity).

(* decodeString *)
Fixpoint decode_body (s : list N) (esc : bool) : list N :=
  match s with
  | [] => []
  | r :: rest =>
      if esc then
        (if r =? 110 then 10 else if r =? 114 then 13 else if r =? 116 then 9 else r)
          :: decode_body rest false
      else if r =? 92 then decode_body rest true
      else r :: decode_body rest false
  end.
Definition decode_string (s : list N) : option (list N) :=   (* None: s[1:len(s)-1] panics *)
  match s with
  | [] | [_] => None
  | _ :: r => Some (decode_body (removelast r) false)
  end.

(* readGlyphList: ranges.  None = the uint16 loop `for i := start+1; i <= gid`
   never ends (gid = 65535). *)
Fixpoint seq_up (from : N) (n : nat) : list N :=
  match n with O => [] | S k => from :: seq_up (from + 1) k end.
Fixpoint seq_down (from : N) (n : nat) : list N :=      (* from, from-1, ... *)
  match n with O => [] | S k => from :: seq_down (from - 1) k end.
Definition range_to (start gid : N) : option (list N) :=
  if gid <? start then Some (seq_down (start - 1) (N.to_nat (start - gid)))
  else if start <? gid then
    (if gid =? 65535 then None else Some (seq_up (start + 1) (N.to_nat (gid - start))))
  else Some [].

Inductive add_res : Type := AddOk (res : list N) (hy : bool) | AddInvalid | AddLoop.
Fixpoint add_gids (res : list N) (hy : bool) (next : list N) : add_res :=
  match next with
  | [] => AddOk res hy
  | g :: r =>
      if hy then
        match last_opt res with
        | None => AddInvalid
        | Some start =>
            match range_to start g with
            | None => AddLoop
            | Some l => add_gids (res ++ l) false r
            end
        end
      else add_gids (res ++ [g]) false r
  end.

Section Parser.
  Variable F : font.
  Variable endl : N.     (* line of the last item the lexer sends (p.line once the channel is closed) *)

  Definition syn_eof : token := mkTok TEOF [] endl.
  Definition is_syn_eof (t : token) : bool :=
    ityp_eqb (ttyp t) TEOF && is_nil (tval t) && (tline t =? endl).

  (* readItem *)
  Definition read : P token :=
    fun ts => match ts with [] => POk (syn_eof, []) | t :: r => POk (t, r) end.
  (* p.backlog = append(p.backlog, t); an item{itemEOF, p.line} pushed back on
     a closed channel is indistinguishable from reading the channel again *)
  Definition unread (t : token) : P unit :=
    fun ts => match ts with
              | [] => if is_syn_eof t then POk (tt, []) else POk (tt, [t])
              | _ => POk (tt, t :: ts)
              end.
  Definition peek_tok (ts : list token) : token :=
    match ts with [] => syn_eof | t :: _ => t end.
  (* fatal: panic(&parseError{next: p.peek()}) *)
  Definition fatal {A} : P A := fun ts => PErr (tline (peek_tok ts)).
  Definition out_of_fuel {A} : P A := fun _ => PFuel.
  Definition gopanic {A} : P A := fun _ => PPanic.

  Definition is_ident (t : token) (s : list N) : bool :=
    ityp_eqb (ttyp t) TIdent && list_eqb (tval t) s.

  Definition optional (ty : ityp) : P bool :=
    t <- read ;; if ityp_eqb (ttyp t) ty then ret true else (unread t ;;; ret false).
  Definition required (ty : ityp) : P unit :=
    t <- read ;; if ityp_eqb (ttyp t) ty then ret tt else fatal.
  Definition optional_ident (s : list N) : P bool :=
    t <- read ;; if is_ident t s then ret true else (unread t ;;; ret false).
  Definition read_identifier : P (list N) :=
    t <- read ;; if ityp_eqb (ttyp t) TIdent then ret (tval t) else fatal.

  (* readLookupFlags; the names and bits are the regenerated table *)
  Fixpoint flag_of_name (tbl : list (list N * N)) (nm : list N) : option N :=
    match tbl with
    | [] => None
    | (s, v) :: r => if list_eqb s nm then Some v else flag_of_name r nm
    end.
  Fixpoint read_lookup_flags (fuel : nat) (flags : N) : P N :=
    match fuel with
    | O => out_of_fuel
    | S f =>
        b <- optional THyphen ;;
        if b then
          nm <- read_identifier ;;
          match flag_of_name builder_parseFlags nm with
          | Some v => read_lookup_flags f (N.lor flags v)
          | None => fatal
          end
        else (optional TEOL ;;; ret flags)
    end.

  (* readGlyphList *)
  Fixpoint lookup_runes (rs : list N) : option (list N) :=     (* None: rune not mapped *)
    match rs with
    | [] => Some []
    | r :: rest =>
        let g := cmap_lookup F r in
        if g =? 0 then None
        else match lookup_runes rest with Some l => Some (g :: l) | None => None end
    end.

  Inductive gl_item : Type := GNext (next : list N) | GHyphen | GDone | GFatal | GPanic.
  Definition classify (t : token) : gl_item :=
    match ttyp t with
    | TIdent => match by_name F (tval t) with Some g => GNext [g] | None => GDone end
    | TString =>
        match decode_string (tval t) with
        | None => GPanic
        | Some rs => match lookup_runes rs with Some gs => GNext gs | None => GFatal end
        end
    | TInt =>
        match atoi (tval t) with
        | Some x => if (x <? 0)%Z || (65536 <=? x)%Z || (Z.of_N (num_glyphs F) <=? x)%Z
                    then GFatal else GNext [Z.to_N x]
        | None => GFatal
        end
    | THyphen => GHyphen
    | _ => GDone
    end.

  Fixpoint read_glyph_list_loop (fuel : nat) (res : list N) (hy : bool) : P (list N) :=
    match fuel with
    | O => out_of_fuel
    | S f =>
        t <- read ;;
        match classify t with
        | GNext next =>
            match add_gids res hy next with
            | AddOk res' hy' => read_glyph_list_loop f res' hy'
            | AddInvalid => fatal
            | AddLoop => out_of_fuel
            end
        | GHyphen => if hy then fatal else read_glyph_list_loop f res true
        | GDone => unread t ;;; (if hy then fatal else ret res)
        | GFatal => fatal
        | GPanic => gopanic
        end
    end.
  Definition read_glyph_list (fuel : nat) : P (list N) := read_glyph_list_loop fuel [] false.

  Definition read_glyph_set (fuel : nat) : P (list N) :=
    required TLBr ;;; res <- read_glyph_list fuel ;; required TRBr ;;; ret (uniq (isort res)).

  (* readInteger / readInt16 *)
  Definition read_int16 : P Z :=
    t <- read ;;
    if ityp_eqb (ttyp t) TInt then
      match atoi (tval t) with
      | Some x => if (x <? -32768)%Z || (32767 <? x)%Z then fatal else ret x
      | None => fatal
      end
    else fatal.

  (* readGposValueRecord *)
  Definition vrec_norm (v : vrec) : option vrec :=
    if (v_x v =? 0)%Z && (v_y v =? 0)%Z && (v_dx v =? 0)%Z then None else Some v.
  Fixpoint read_value_loop (fuel : nat) (v : vrec) : P vrec :=
    match fuel with
    | O => out_of_fuel
    | S f =>
        t <- read ;;
        if is_ident t k_x then (x <- read_int16 ;; read_value_loop f (mkV x (v_y v) (v_dx v)))
        else if is_ident t k_y then (x <- read_int16 ;; read_value_loop f (mkV (v_x v) x (v_dx v)))
        else if is_ident t k_dx then (x <- read_int16 ;; read_value_loop f (mkV (v_x v) (v_y v) x))
        else (unread t ;;; ret v)
    end.
  Definition read_value_record (fuel : nat) : P (option vrec) :=
    b <- optional_ident k_us ;;
    if b then ret None
    else (v <- read_value_loop fuel (mkV 0 0 0) ;; ret (vrec_norm v)).

  Definition lookup_header (fuel : nat) : P N :=
    optional TColon ;;; optional TEOL ;;; read_lookup_flags fuel 0.

  Definition mk_lookup (ty flags : N) (subs : list subtable) : lookup := mkLookup ty flags subs.

  (* ---- GSUB1 ---- *)
  Fixpoint add_pairs (res : list (N * N)) (fr to : list N) : option (list (N * N)) :=
    match fr, to with
    | f :: fr', t :: to' => if has_key f res then None else add_pairs (res ++ [(f, t)]) fr' to'
    | _, _ => Some res
    end.
  Definition delta16 (fr to : N) : N := (to + 65536 - fr) mod 65536.
  Definition const_delta (res : list (N * N)) : bool :=
    match res with
    | [] => true
    | (f, t) :: r => forallb (fun p => delta16 (fst p) (snd p) =? delta16 f t) r
    end.
  Definition get_or0 {B} (d : B) (k : N) (l : list (N * B)) : B :=
    match assoc k l with Some v => v | None => d end.
  Definition build_gsub1 (res : list (N * N)) : subtable :=
    let cov := uniq (isort (map fst res)) in
    if const_delta res
    then Gsub1_1 cov (match res with [] => 0 | (f, t) :: _ => delta16 f t end)
    else Gsub1_2 cov (map (fun g => get_or0 0 g res) cov).

  Fixpoint gsub1_loop (fuel : nat) (res : list (N * N)) : P (list (N * N)) :=
    match fuel with
    | O => out_of_fuel
    | S f =>
        fr <- read_glyph_list fuel ;;
        required TArrow ;;;
        to <- read_glyph_list fuel ;;
        if negb (length fr =? length to)%nat then fatal
        else match add_pairs res fr to with
             | None => fatal
             | Some res' =>
                 b <- optional TComma ;;
                 if b then (optional TEOL ;;; gsub1_loop f res') else ret res'
             end
    end.
  Definition read_gsub1 (fuel : nat) : P lookup :=
    flags <- lookup_header fuel ;;
    res <- gsub1_loop fuel [] ;;
    if is_nil res then fatal else ret (mk_lookup 1 flags [build_gsub1 res]).

  (* ---- GSUB2 / GSUB3 ---- *)
  Definition build_cov {B} (data : list (N * B)) : list N := uniq (isort (map fst data)).

  Fixpoint gsub2_loop (fuel : nat) (data : list (N * list N)) : P (list (N * list N)) :=
    match fuel with
    | O => out_of_fuel
    | S f =>
        fr <- read_glyph_list fuel ;;
        match fr with
        | [g] =>
            required TArrow ;;;
            to <- read_glyph_list fuel ;;
            if is_nil to then (read ;;; fatal)
            else if has_key g data then fatal
            else
              b <- optional TComma ;;
              if b then (optional TEOL ;;; gsub2_loop f (data ++ [(g, to)])) else ret (data ++ [(g, to)])
        | _ => fatal
        end
    end.
  Definition read_gsub2 (fuel : nat) : P lookup :=
    flags <- lookup_header fuel ;;
    data <- gsub2_loop fuel [] ;;
    if is_nil data then fatal
    else let cov := build_cov data in
         ret (mk_lookup 2 flags [Gsub2_1 cov (map (fun g => get_or0 [] g data) cov)]).

  Fixpoint gsub3_loop (fuel : nat) (data : list (N * list N)) : P (list (N * list N)) :=
    match fuel with
    | O => out_of_fuel
    | S f =>
        fr <- read_glyph_list fuel ;;
        match fr with
        | [g] =>
            required TArrow ;;;
            to <- read_glyph_set fuel ;;
            if has_key g data then fatal
            else
              b <- optional TComma ;;
              if b then (optional TEOL ;;; gsub3_loop f (data ++ [(g, to)])) else ret (data ++ [(g, to)])
        | _ => fatal
        end
    end.
  Definition read_gsub3 (fuel : nat) : P lookup :=
    flags <- lookup_header fuel ;;
    data <- gsub3_loop fuel [] ;;
    if is_nil data then fatal
    else let cov := build_cov data in
         ret (mk_lookup 3 flags [Gsub3_1 cov (map (fun g => get_or0 [] g data) cov)]).

  (* ---- GSUB4 ---- *)
  Definition ligs_of (g : N) (data : list (N * (list N * N))) : list (list N * N) :=
    map snd (filter (fun p => fst p =? g) data).
  Fixpoint gsub4_loop (fuel : nat) (data : list (N * (list N * N))) : P (list (N * (list N * N))) :=
    match fuel with
    | O => out_of_fuel
    | S f =>
        fr <- read_glyph_list fuel ;;
        match fr with
        | [] => read ;;; fatal
        | key :: comps =>
            required TArrow ;;;
            to <- read_glyph_list fuel ;;
            match to with
            | [out] =>
                b <- optional TComma ;;
                if b then (optional TEOL ;;; gsub4_loop f (data ++ [(key, (comps, out))]))
                else ret (data ++ [(key, (comps, out))])
            | _ => fatal
            end
        end
    end.
  Definition read_gsub4 (fuel : nat) : P lookup :=
    flags <- lookup_header fuel ;;
    data <- gsub4_loop fuel [] ;;
    let cov := build_cov data in
    ret (mk_lookup 4 flags [Gsub4_1 cov (map (fun g => ligs_of g data) cov)]).

  (* ---- GPOS1 ---- *)
  Fixpoint set_key {B} (k : N) (v : B) (l : list (N * B)) : list (N * B) :=
    match l with
    | [] => [(k, v)]
    | (k', v') :: r => if k' =? k then (k, v) :: r else (k', v') :: set_key k v r
    end.
  Fixpoint gpos1_2_loop (fuel : nat) (res : list (N * option vrec)) : P (list (N * option vrec)) :=
    match fuel with
    | O => out_of_fuel
    | S f =>
        gids <- read_glyph_list fuel ;;
        match gids with
        | [g] =>
            required TArrow ;;;
            adj <- read_value_record fuel ;;
            b <- optional TComma ;;
            if b then (optional TEOL ;;; gpos1_2_loop f (set_key g adj res)) else ret (set_key g adj res)
        | _ => fatal
        end
    end.
  Fixpoint gpos1_loop (fuel : nat) (subs : list subtable) : P (list subtable) :=
    match fuel with
    | O => out_of_fuel
    | S f =>
        nxt <- read ;; unread nxt ;;;                    (* p.peek() *)
        sub <- (if ityp_eqb (ttyp nxt) TLBr then
                  fr <- read_glyph_set fuel ;;
                  required TArrow ;;;
                  adj <- read_value_record fuel ;;
                  ret (Gpos1_1 (uniq (isort fr)) adj)
                else
                  res <- gpos1_2_loop fuel [] ;;
                  let cov := build_cov res in
                  ret (Gpos1_2 cov (map (fun g => get_or0 None g res) cov))) ;;
        b <- optional TOr ;;
        if b then (optional TEOL ;;; gpos1_loop f (subs ++ [sub])) else ret (subs ++ [sub])
    end.
  Definition read_gpos1 (fuel : nat) : P lookup :=
    flags <- lookup_header fuel ;;
    subs <- gpos1_loop fuel [] ;;
    ret (mk_lookup 1 flags subs).

  (* ---- nested-action lists "1@0 2@1": readNestedLookups.  An action is
     (LookupListIndex, SequenceIndex). ---- *)
  Fixpoint read_nested (fuel : nat) (res : list (N * N)) : P (list (N * N)) :=
    match fuel with
    | O => out_of_fuel
    | S f =>
        t <- read ;;
        if negb (ityp_eqb (ttyp t) TInt) then (unread t ;;; ret res)
        else
          match atoi (tval t) with
          | None => fatal
          | Some x =>
              if (x <? 0)%Z || (65536 <=? x)%Z then fatal
              else
                required TAt ;;;
                t2 <- read ;;
                if negb (ityp_eqb (ttyp t2) TInt) then fatal
                else
                  match atoi (tval t2) with
                  | None => fatal
                  | Some y =>
                      if (y <? 0)%Z || (65536 <=? y)%Z then fatal
                      else read_nested f (res ++ [(Z.to_N x, Z.to_N y)])
                  end
          end
    end.

  (* ---- GSUB5 (readSeqCtx) ---- *)
  Definition peek : P token := t <- read ;; unread t ;;; ret t.

  (* parseClassDef; the keyword has been peeked *)
  Definition parse_class_def (fuel : nat) : P (list N * list N) :=
    read_identifier ;;; required TColon ;;;
    nm <- read_identifier ;;
    required TColon ;;; optional TEqual ;;;
    gl <- read_glyph_set fuel ;;
    if is_nil gl then fatal else ret (nm, gl).

  Definition read_class_name : P (list N) :=
    required TColon ;;;
    t <- read ;;
    match ttyp t with
    | TIdent => required TColon ;;; ret (tval t)
    | TColon => ret []
    | _ => fatal
    end.
  Fixpoint read_class_names (fuel : nat) (acc : list (list N)) : P (list (list N)) :=
    match fuel with
    | O => out_of_fuel
    | S f =>
        nxt <- peek ;;
        if ityp_eqb (ttyp nxt) TColon then (n <- read_class_name ;; read_class_names f (acc ++ [n]))
        else ret acc
    end.

  (* inputClassIdx: class names in the order of their definition; the class
     of the i-th name is i+1.  (The uint16 class counter cannot wrap: classes
     are non-empty and pairwise disjoint sets of 16-bit glyph ids.) *)
  Fixpoint class_index_from (names : list (list N)) (i : N) (nm : list N) : option N :=
    match names with
    | [] => None
    | n :: r => if list_eqb n nm then Some i else class_index_from r (i + 1) nm
    end.
  (* the class for a name in a rule: "" is class 0, unknown names are an error *)
  Definition class_of (names : list (list N)) (nm : list N) : option N :=
    if is_nil nm then Some 0 else class_index_from names 1 nm.
  Fixpoint classes_of (names : list (list N)) (nms : list (list N)) : option (list N) :=
    match nms with
    | [] => Some []
    | nm :: r => match class_of names nm, classes_of names r with
                 | Some c, Some l => Some (c :: l)
                 | _, _ => None
                 end
    end.

  Definition vals_of {B} (k : N) (data : list (N * B)) : list B :=
    map snd (filter (fun p => fst p =? k) data).

  (* format 1: glyph sequences *)
  Fixpoint ctx1_loop (fuel : nat) (data : list (N * (list N * actions))) : P (list (N * (list N * actions))) :=
    match fuel with
    | O => out_of_fuel
    | S f =>
        inp <- read_glyph_list fuel ;;
        required TArrow ;;;
        acts <- read_nested fuel [] ;;
        match inp with
        | [] => read ;;; fatal
        | key :: rest =>
            b <- optional TComma ;;
            if b then (optional TEOL ;;; ctx1_loop f (data ++ [(key, (rest, acts))]))
            else ret (data ++ [(key, (rest, acts))])
        end
    end.

  (* format 2: class sequences *)
  Fixpoint ctx2_loop (fuel : nat) (names : list (list N)) (data : list (N * (list N * actions)))
    : P (list (N * (list N * actions))) :=
    match fuel with
    | O => out_of_fuel
    | S f =>
        nms <- read_class_names fuel [] ;;
        required TArrow ;;;
        acts <- read_nested fuel [] ;;
        if is_nil nms then fatal
        else match classes_of names nms with
             | None => fatal
             | Some [] => fatal
             | Some (c :: rest) =>
                 b <- optional TComma ;;
                 if b then (optional TEOL ;;; ctx2_loop f names (data ++ [(c, (rest, acts))]))
                 else ret (data ++ [(c, (rest, acts))])
             end
    end.

  (* format 3: coverage sets up to "->" *)
  Fixpoint ctx3_sets (fuel : nat) (acc : list (list N)) : P (list (list N)) :=
    match fuel with
    | O => out_of_fuel
    | S f =>
        gs <- read_glyph_set fuel ;;
        b <- optional TArrow ;;
        if b then ret (acc ++ [gs]) else ctx3_sets f (acc ++ [gs])
    end.

  Fixpoint seqctx_loop (fuel : nat) (names : list (list N)) (classes : list (list N)) (subs : list subtable)
    : P (list subtable) :=
    match fuel with
    | O => out_of_fuel
    | S f =>
        nxt <- peek ;;
        if is_ident nxt k_class then
          d <- parse_class_def fuel ;;
          if existsb (list_eqb (fst d)) names then fatal
          else if existsb (fun g => existsb (N.eqb g) (concat classes)) (snd d) then fatal
          else (optional TEOL ;;; seqctx_loop f (names ++ [fst d]) (classes ++ [snd d]) subs)
        else
          r <- (if ityp_eqb (ttyp nxt) TSlash then
                  required TSlash ;;;
                  first <- read_glyph_list fuel ;;
                  required TSlash ;;;
                  data <- ctx2_loop fuel names [] ;;
                  ret (Ctx (SeqCtx2 (uniq (isort first)) classes
                              (map (fun c => vals_of (N.of_nat c) data) (seq 0 (S (length names))))),
                       @nil (list N), @nil (list N))
                else if ityp_eqb (ttyp nxt) TLBr then
                  sets <- ctx3_sets fuel [] ;;
                  acts <- read_nested fuel [] ;;
                  ret (Ctx (SeqCtx3 sets acts), names, classes)
                else
                  data <- ctx1_loop fuel [] ;;
                  let cov := build_cov data in
                  ret (Ctx (SeqCtx1 cov (map (fun g => vals_of g data) cov)), names, classes)) ;;
          let '(sub, names', classes') := r in
          b <- optional TOr ;;
          if b then (optional TEOL ;;; seqctx_loop f names' classes' (subs ++ [sub]))
          else ret (subs ++ [sub])
    end.
  Definition read_seqctx (fuel : nat) (ty : N) : P lookup :=
    flags <- lookup_header fuel ;;
    subs <- seqctx_loop fuel [] [] [] ;;
    ret (mk_lookup ty flags subs).

  (* ---- GSUB6 (readChainedSeqCtx) ---- *)
  (* next := p.readItem(); nextType := next.typ;
     if nextType == itemBar { nextType = p.peek().typ }; p.backlog = append(p.backlog, next) *)
  Definition chain_peek : P (token * ityp) :=
    nxt <- read ;;
    ty <- (if ityp_eqb (ttyp nxt) TBar then (t2 <- peek ;; ret (ttyp t2)) else ret (ttyp nxt)) ;;
    unread nxt ;;; ret (nxt, ty).

  (* one class table: names and glyph lists in the order of definition *)
  Definition ctable : Type := (list (list N) * list (list N))%type.
  Definition def_class (fuel : nat) (st : ctable) : P ctable :=
    d <- parse_class_def fuel ;;
    if existsb (list_eqb (fst d)) (fst st) then fatal
    else if existsb (fun g => existsb (N.eqb g) (concat (snd st))) (snd d) then fatal
    else (optional TEOL ;;; ret (fst st ++ [fst d], snd st ++ [snd d])).

  Fixpoint chain1_loop (fuel : nat) (data : list (N * chain_rule)) : P (list (N * chain_rule)) :=
    match fuel with
    | O => out_of_fuel
    | S f =>
        bt <- read_glyph_list fuel ;;
        required TBar ;;;
        inp <- read_glyph_list fuel ;;
        required TBar ;;;
        la <- read_glyph_list fuel ;;
        required TArrow ;;;
        acts <- read_nested fuel [] ;;
        match inp with
        | [] => read ;;; fatal
        | key :: rest =>
            b <- optional TComma ;;
            if b then (optional TEOL ;;; chain1_loop f (data ++ [(key, (rev bt, rest, la, acts))]))
            else ret (data ++ [(key, (rev bt, rest, la, acts))])
        end
    end.

  Fixpoint chain2_loop (fuel : nat) (btn inn lan : list (list N)) (data : list (N * chain_rule))
    : P (list (N * chain_rule)) :=
    match fuel with
    | O => out_of_fuel
    | S f =>
        bnm <- read_class_names fuel [] ;;
        required TBar ;;;
        inm <- read_class_names fuel [] ;;
        required TBar ;;;
        lnm <- read_class_names fuel [] ;;
        required TArrow ;;;
        acts <- read_nested fuel [] ;;
        if is_nil inm then fatal
        else match classes_of inn inm, classes_of btn bnm, classes_of lan lnm with
             | Some (c :: rest), Some bc, Some lc =>
                 b <- optional TComma ;;
                 if b then (optional TEOL ;;; chain2_loop f btn inn lan (data ++ [(c, (rev bc, rest, lc, acts))]))
                 else ret (data ++ [(c, (rev bc, rest, lc, acts))])
             | _, _, _ => fatal
             end
    end.

  (* format 3: sets up to "|" (possibly none), sets up to "|" (at least one),
     sets up to "->" (possibly none) *)
  Fixpoint sets_until (fuel : nat) (stop : ityp) (acc : list (list N)) : P (list (list N)) :=
    match fuel with
    | O => out_of_fuel
    | S f =>
        b <- optional stop ;;
        if b then ret acc else (gs <- read_glyph_set fuel ;; sets_until f stop (acc ++ [gs]))
    end.
  Fixpoint sets_then (fuel : nat) (stop : ityp) (acc : list (list N)) : P (list (list N)) :=
    match fuel with
    | O => out_of_fuel
    | S f =>
        gs <- read_glyph_set fuel ;;
        b <- optional stop ;;
        if b then ret (acc ++ [gs]) else sets_then f stop (acc ++ [gs])
    end.

  Fixpoint chainctx_loop (fuel : nat) (ic bc lc : ctable) (subs : list subtable) : P (list subtable) :=
    match fuel with
    | O => out_of_fuel
    | S f =>
        pk <- chain_peek ;;
        let nxt := fst pk in
        let ty := snd pk in
        if is_ident nxt k_inputclass then (ic' <- def_class fuel ic ;; chainctx_loop f ic' bc lc subs)
        else if is_ident nxt k_backtrackclass then (bc' <- def_class fuel bc ;; chainctx_loop f ic bc' lc subs)
        else if is_ident nxt k_lookaheadclass then (lc' <- def_class fuel lc ;; chainctx_loop f ic bc lc' subs)
        else
          r <- (if ityp_eqb ty TSlash then
                  required TSlash ;;;
                  first <- read_glyph_list fuel ;;
                  required TSlash ;;;
                  data <- chain2_loop fuel (fst bc) (fst ic) (fst lc) [] ;;
                  ret (Chn (Chain2 (uniq (isort first)) (snd bc) (snd ic) (snd lc)
                              (map (fun c => vals_of (N.of_nat c) data) (seq 0 (S (length (fst ic)))))),
                       (@nil (list N), @nil (list N)), (@nil (list N), @nil (list N)), (@nil (list N), @nil (list N)))
                else if ityp_eqb ty TLBr then
                  bt <- sets_until fuel TBar [] ;;
                  inp <- sets_then fuel TBar [] ;;
                  la <- sets_until fuel TArrow [] ;;
                  acts <- read_nested fuel [] ;;
                  ret (Chn (Chain3 (rev bt) inp la acts), ic, bc, lc)
                else
                  data <- chain1_loop fuel [] ;;
                  let cov := build_cov data in
                  ret (Chn (Chain1 cov (map (fun g => vals_of g data) cov)), ic, bc, lc)) ;;
          let '(sub, ic', bc', lc') := r in
          b <- optional TOr ;;
          if b then (optional TEOL ;;; chainctx_loop f ic' bc' lc' (subs ++ [sub]))
          else ret (subs ++ [sub])
    end.
  Definition read_chainctx (fuel : nat) (ty : N) : P lookup :=
    flags <- lookup_header fuel ;;
    subs <- chainctx_loop fuel ([], []) ([], []) ([], []) [] ;;
    ret (mk_lookup ty flags subs).

  (* ---- GPOS3 (readGpos3) ---- *)
  (* readGlyph *)
  Definition read_glyph (fuel : nat) : P N :=
    gids <- read_glyph_list fuel ;;
    match gids with [g] => ret g | _ => fatal end.
  (* requiredIdentifier *)
  Definition required_ident (s : list N) : P unit :=
    t <- read ;; if is_ident t s then ret tt else fatal.

  Fixpoint gpos3_recs (fuel : nat) (data : list (N * (anchor * anchor))) : P (list (N * (anchor * anchor))) :=
    match fuel with
    | O => out_of_fuel
    | S f =>
        g <- read_glyph fuel ;;
        optional TColon ;;;
        x1 <- read_int16 ;; required TComma ;;; y1 <- read_int16 ;;
        required_ident k_to ;;;
        x2 <- read_int16 ;; required TComma ;;; y2 <- read_int16 ;;
        b <- optional TSemi ;;
        if b then (optional TEOL ;;; gpos3_recs f (set_key g ((x1, y1), (x2, y2)) data))
        else ret (set_key g ((x1, y1), (x2, y2)) data)
    end.
  Fixpoint gpos3_loop (fuel : nat) (subs : list subtable) : P (list subtable) :=
    match fuel with
    | O => out_of_fuel
    | S f =>
        data <- gpos3_recs fuel [] ;;
        let cov := build_cov data in
        let sub := Pos (Gpos3_1 cov (map (fun g => get_or0 ((0, 0), (0, 0))%Z g data) cov)) in
        b <- optional TOr ;;
        if b then (optional TEOL ;;; gpos3_loop f (subs ++ [sub])) else ret (subs ++ [sub])
    end.
  Definition read_gpos3 (fuel : nat) : P lookup :=
    flags <- lookup_header fuel ;;
    subs <- gpos3_loop fuel [] ;;
    ret (mk_lookup 3 flags subs).

  (* ---- GPOS4 (readGpos4) ---- *)
  Definition read_uint16 : P N :=
    t <- read ;;
    if ityp_eqb (ttyp t) TInt then
      match atoi (tval t) with
      | Some x => if (x <? 0)%Z || (65535 <? x)%Z then fatal else ret (Z.to_N x)
      | None => fatal
      end
    else fatal.
  (* len(gs) > 0 && gs[len(gs)-1] >= gid *)
  Definition not_after (gl : list N) (g : N) : bool :=
    match last_opt gl with Some q => g <=? q | None => false end.
  Fixpoint gpos4_marks (fuel : nat) (gl : list N) (ma : list (N * anchor)) : P (list N * list (N * anchor)) :=
    match fuel with
    | O => out_of_fuel
    | S f =>
        b <- optional_ident k_mark ;;
        if b then
          g <- read_glyph fuel ;;
          if not_after gl g then fatal
          else
            optional TColon ;;;
            cls <- read_uint16 ;; required TAt ;;; x <- read_int16 ;; required TComma ;;; y <- read_int16 ;;
            optional TSemi ;;; optional TEOL ;;;
            gpos4_marks f (gl ++ [g]) (ma ++ [(cls, (x, y))])
        else ret (gl, ma)
    end.
  (* numClasses := len(classesSeen); every class below it must have been seen *)
  Definition num_classes (cl : list N) : nat := length (uniq (isort cl)).
  Definition classes_complete (cl : list N) : bool :=
    forallb (fun c => existsb (N.eqb (N.of_nat c)) cl) (seq 0 (num_classes cl)).
  Fixpoint gpos4_anchors (n : nat) (i0 : bool) : P (list anchor) :=
    match n with
    | O => ret []
    | S n' =>
        (if i0 then ret false else optional TComma) ;;;
        required TAt ;;; x <- read_int16 ;; required TComma ;;; y <- read_int16 ;;
        r <- gpos4_anchors n' false ;; ret ((x, y) :: r)
    end.
  Fixpoint gpos4_bases (fuel : nat) (nc : nat) (gl : list N) (ba : list (list anchor)) : P (list N * list (list anchor)) :=
    match fuel with
    | O => out_of_fuel
    | S f =>
        b <- optional_ident k_base ;;
        if b then
          g <- read_glyph fuel ;;
          if not_after gl g then fatal
          else
            optional TColon ;;;
            an <- gpos4_anchors nc true ;;
            optional TSemi ;;; optional TEOL ;;;
            gpos4_bases f nc (gl ++ [g]) (ba ++ [an])
        else ret (gl, ba)
    end.
  Fixpoint gpos4_loop (fuel : nat) (subs : list subtable) : P (list subtable) :=
    match fuel with
    | O => out_of_fuel
    | S f =>
        mm <- gpos4_marks fuel [] [] ;;
        if classes_complete (map fst (snd mm)) then
          bb <- gpos4_bases fuel (num_classes (map fst (snd mm))) [] [] ;;
          let sub := Pos (Gpos4_1 (fst mm) (snd mm) (fst bb) (snd bb)) in
          b <- optional TOr ;;
          if b then (optional TEOL ;;; gpos4_loop f (subs ++ [sub])) else ret (subs ++ [sub])
        else fatal
    end.
  Definition read_gpos4 (fuel : nat) : P lookup :=
    flags <- lookup_header fuel ;;
    subs <- gpos4_loop fuel [] ;;
    ret (mk_lookup 4 flags subs).

  (* ---- parse() ---- *)
  Definition unmodelled {A} : P A := fun _ => PUnmodelled.
  Fixpoint parse_loop (fuel : nat) (acc : list lookup) : P (list lookup) :=
    match fuel with
    | O => out_of_fuel
    | S f =>
        t <- read ;;
        match ttyp t with
        | TEOF => ret acc
        | TError => fatal
        | TSemi | TEOL => parse_loop f acc
        | TIdent =>
            if list_eqb (tval t) k_GSUB1 then (l <- read_gsub1 fuel ;; parse_loop f (acc ++ [l]))
            else if list_eqb (tval t) k_GSUB2 then (l <- read_gsub2 fuel ;; parse_loop f (acc ++ [l]))
            else if list_eqb (tval t) k_GSUB3 then (l <- read_gsub3 fuel ;; parse_loop f (acc ++ [l]))
            else if list_eqb (tval t) k_GSUB4 then (l <- read_gsub4 fuel ;; parse_loop f (acc ++ [l]))
            else if list_eqb (tval t) k_GSUB5 then (l <- read_seqctx fuel 5 ;; parse_loop f (acc ++ [l]))
            else if list_eqb (tval t) k_GSUB6 then (l <- read_chainctx fuel 6 ;; parse_loop f (acc ++ [l]))
            else if list_eqb (tval t) k_GPOS1 then (l <- read_gpos1 fuel ;; parse_loop f (acc ++ [l]))
            else if list_eqb (tval t) k_GPOS2 then unmodelled
            else if list_eqb (tval t) k_GPOS3 then (l <- read_gpos3 fuel ;; parse_loop f (acc ++ [l]))
            else if list_eqb (tval t) k_GPOS4 then (l <- read_gpos4 fuel ;; parse_loop f (acc ++ [l]))
            else fatal
        | _ => fatal
        end
    end.
End Parser.

Definition end_line (ts : list token) : N :=
  match last_opt ts with Some t => tline t | None => 0 end.

Definition M_parse_tokens (F : font) (ts : list token) : presult (list lookup) :=
  match parse_loop F (end_line ts) (S (S (length ts))) [] ts with
  | POk (ll, _) => POk ll
  | PErr l => PErr l
  | PPanic => PPanic
  | PFuel => PFuel
  | PUnmodelled => PUnmodelled
  end.

(* Parse(fontInfo, input) *)
Definition M_parse (U : uclass) (F : font) (text : list N) : presult (list lookup) :=
  M_parse_tokens F (M_lex U text).

(* ------------------------------------------------------------------ *)
(* M_explain                                                           *)

(* explainNested *)
Fixpoint M_explain_nested (acts : list (N * N)) : list N :=
  match acts with
  | [] => []
  | [(li, si)] => digits li ++ 64 :: digits si
  | (li, si) :: r => digits li ++ 64 :: digits si ++ 32 :: M_explain_nested r
  end.

Section Explain.
  Variable U : uclass.
  Variable F : font.

  (* newExplainer: names[i] *)
  Definition name_of (g : N) : list N :=
    let n := nth (N.to_nat g) (f_names F) [] in
    if is_nil n then digits g else n.

  (* newExplainer: mapped[gid] = %q of the last printable rune mapped to gid *)
  Definition quote_body (r : N) : list N := if (r =? 34) || (r =? 92) then [92; r] else [r].
  Fixpoint mapped_rune_l (cm : list (N * N)) (g : N) (acc : option N) : option N :=
    match cm with
    | [] => acc
    | (r, g') :: rest =>
        mapped_rune_l rest g (if (g' =? g) && negb (g' =? 0) && is_print U r then Some r else acc)
    end.
  Definition mapped_rune (g : N) : option N := mapped_rune_l (f_cmap F) g None.
  Definition mapped (g : N) : list N :=         (* [] = not mapped *)
    match mapped_rune g with Some r => 34 :: quote_body r ++ [34] | None => [] end.

  (* writeGlyph *)
  Definition write_glyph (g : N) : list N :=
    if list_eqb (34 :: name_of g ++ [34]) (mapped g) then name_of g
    else if negb (is_nil (mapped g)) then mapped g
    else name_of g.          (* names[gid] is never empty *)

  Fixpoint join_sp (l : list (list N)) : list N :=
    match l with
    | [] => []
    | [x] => x
    | x :: r => x ++ 32 :: join_sp r
    end.

  (* writeGlyphList *)
  Definition write_glyph_list (gs : list N) : list N :=
    match gs with
    | [] => []
    | [g] => write_glyph g
    | _ =>
        if forallb (fun g => negb (is_nil (mapped g))) gs
        then 34 :: concat (map (fun g => match mapped_rune g with Some r => quote_body r | None => [] end) gs) ++ [34]
        else join_sp (map name_of gs)
    end.
  Definition write_glyph_set (gs : list N) : list N := 91 :: write_glyph_list gs ++ [93].

  (* explainFlags, from the regenerated table *)
  Definition explain_flags (fl : N) : list N :=
    concat (map (fun p => if N.land fl (fst p) =? 0 then [] else snd p) builder_explainFlags).

  (* rangeEnd *)
  Definition range_end (g : N) : list N :=
    match name_of g with
    | c :: _ => if is_adigit c then 45 :: 32 :: name_of g else 45 :: name_of g
    | [] => [45]
    end.

  (* explainSeqMappings for single-glyph mappings (GSUB1): sorted by the
     source glyph; runs of more than two consecutive sources with a constant
     difference (glyph.ID arithmetic, mod 2^16) are written as ranges *)
  Fixpoint run_len (f : N) (rest : list (N * N)) (delta : N) : nat :=
    match rest with
    | (f', t') :: r =>
        if (f' =? (f + 1) mod 65536) && (t' =? (f' + delta) mod 65536)
        then S (run_len f' r delta) else 0%nat
    | [] => 0%nat
    end.
  Fixpoint explain_seq1 (fuel : nat) (mm : list (N * N)) (sep : list N) : list N :=
    match fuel with
    | O => []
    | S k =>
        match mm with
        | [] => []
        | (f, t) :: rest =>
            let rl := if (2 <? length mm)%nat then S (run_len f rest (delta16 f t)) else 1%nat in
            if (2 <? rl)%nat then
              let '(fl, tl) := nth (rl - 1) mm (f, t) in
              sep ++ name_of f ++ range_end fl ++ k_arrow ++ name_of t ++ range_end tl
                  ++ explain_seq1 k (skipn rl mm) (k_comma)
            else
              sep ++ write_glyph_list [f] ++ k_arrow ++ write_glyph_list [t]
                  ++ explain_seq1 k rest (k_comma)
        end
    end.

  (* sort.SliceStable by the first source glyph *)
  Fixpoint insert_by_key {B} (x : N * B) (l : list (N * B)) : list (N * B) :=
    match l with
    | [] => [x]
    | y :: r => if fst x <=? fst y then x :: l else y :: insert_by_key x r
    end.
  Definition stable_sort {B} (l : list (N * B)) : list (N * B) :=
    fold_right insert_by_key [] l.

  (* explainSeqMappings without ranges (GSUB4): from = key :: comps, to = [out] *)
  Fixpoint explain_seq4 (mm : list (N * (list N * N))) (sep : list N) : list N :=
    match mm with
    | [] => []
    | (key, (comps, out)) :: rest =>
        sep ++ write_glyph_list (key :: comps) ++ k_arrow ++ write_glyph_list [out]
            ++ explain_seq4 rest (k_comma)
    end.

  (* entries "g -> X" separated by ", ", first one preceded by a space *)
  Fixpoint explain_entries {B} (w : B -> list N) (l : list (N * B)) (first : bool) : list N :=
    match l with
    | [] => []
    | (g, x) :: r =>
        (if first then [32] else k_comma) ++ write_glyph g ++ k_arrow ++ w x
          ++ explain_entries w r false
    end.

  (* writeValueRecord (YAdvance and the device offsets are outside the language) *)
  Definition write_value_record (a : option vrec) : list N :=
    match a with
    | None => [95]
    | Some v =>
        let parts :=
          (if (v_x v =? 0)%Z then [] else [120 :: digits_signed (v_x v)]) ++
          (if (v_y v =? 0)%Z then [] else [121 :: digits_signed (v_y v)]) ++
          (if (v_dx v =? 0)%Z then [] else [100 :: 120 :: digits_signed (v_dx v)]) in
        if is_nil parts then [95] else join_sp parts
    end.

  (* writeClassList *)
  Definition write_class_list (cs : list N) : list N :=
    concat (map (fun c => if c =? 0 then [32; 58; 58] else [32; 58; 99] ++ digits c ++ [58]) cs).

  (* defineClasses *)
  Fixpoint define_classes (kw : list N) (classes : list (list N)) (i : N) : list N :=
    match classes with
    | [] => []
    | gl :: r => 32 :: kw ++ [32; 58; 99] ++ digits i ++ [58; 32; 61; 32] ++ write_glyph_set gl ++ [10; 9]
                   ++ define_classes kw r (i + 1)
    end.

  (* explainSeqContext1: rules in coverage order *)
  Fixpoint explain_ctx1 (mm : list (N * (list N * actions))) (first : bool) : list N :=
    match mm with
    | [] => []
    | (g, (inp, acts)) :: r =>
        (if first then [32] else k_comma) ++ write_glyph_list (g :: inp) ++ k_arrow ++ M_explain_nested acts
          ++ explain_ctx1 r false
    end.

  (* the rules of explainSeqContext2, by class of the first glyph *)
  Fixpoint explain_ctx2 (mm : list (N * (list N * actions))) (first : bool) : list N :=
    match mm with
    | [] => []
    | (c, (inp, acts)) :: r =>
        (if first then [] else [44]) ++ write_class_list (c :: inp) ++ k_arrow ++ M_explain_nested acts
          ++ explain_ctx2 r false
    end.

  Fixpoint index_from {B} (i : N) (l : list B) : list (N * B) :=
    match l with [] => [] | x :: r => (i, x) :: index_from (i + 1) r end.
  Definition flat_rules {B} (keyed : list (N * list B)) : list (N * B) :=
    concat (map (fun p => map (fun x => (fst p, x)) (snd p)) keyed).

  (* explainSeqContext3 *)
  Fixpoint join_sets (sets : list (list N)) : list N :=
    match sets with
    | [] => []
    | [x] => write_glyph_set x
    | x :: r => write_glyph_set x ++ 32 :: join_sets r
    end.

  Definition explain_ctx (c : ctx_sub) : list N :=
    match c with
    | SeqCtx1 cov rules => explain_ctx1 (flat_rules (combine cov rules)) true
    | SeqCtx2 cov classes rules =>
        define_classes k_class classes 1 ++ [47] ++ write_glyph_list cov ++ [47]
          ++ explain_ctx2 (flat_rules (index_from 0 rules)) true
    | SeqCtx3 input acts => join_sets input ++ k_arrow ++ M_explain_nested acts
    end.

  (* explainChainedSeqContext1 *)
  Definition k_bar : list N := [32; 124; 32].      (* " | " *)
  Fixpoint explain_chain1 (mm : list (N * chain_rule)) (first : bool) : list N :=
    match mm with
    | [] => []
    | (g, (bt, inp, la, acts)) :: r =>
        (if first then [32] else k_comma) ++ write_glyph_list (rev bt) ++ k_bar ++ write_glyph_list (g :: inp)
          ++ k_bar ++ write_glyph_list la ++ k_arrow ++ M_explain_nested acts ++ explain_chain1 r false
    end.
  (* the rules of explainChainedSeqContext2 *)
  Fixpoint explain_chain2 (mm : list (N * chain_rule)) (first : bool) : list N :=
    match mm with
    | [] => []
    | (c, (bt, inp, la, acts)) :: r =>
        (if first then [] else [44]) ++ write_class_list (rev bt) ++ k_bar ++ write_class_list (c :: inp)
          ++ k_bar ++ write_class_list la ++ k_arrow ++ M_explain_nested acts ++ explain_chain2 r false
    end.
  (* explainChainedSeqContext3 *)
  Definition sp_sets (sets : list (list N)) : list N :=
    concat (map (fun s => 32 :: write_glyph_set s) sets).

  Definition explain_chain (h : chain_sub) : list N :=
    match h with
    | Chain1 cov rules => explain_chain1 (flat_rules (combine cov rules)) true
    | Chain2 cov btc inc lac rules =>
        define_classes k_backtrackclass btc 1 ++ define_classes k_inputclass inc 1
          ++ define_classes k_lookaheadclass lac 1 ++ [47] ++ write_glyph_list cov ++ [47]
          ++ explain_chain2 (flat_rules (index_from 0 rules)) true
    | Chain3 bt input la acts =>
        join_sets (rev bt) ++ [32; 124] ++ sp_sets input ++ [32; 124] ++ sp_sets la ++ k_arrow
          ++ M_explain_nested acts
    end.

  Definition explain_subtable (s : subtable) : list N :=
    match s with
    | Pos _ => []
    | Chn h => explain_chain h
    | Ctx c => explain_ctx c
    | Gsub1_1 cov delta =>
        let mm := stable_sort (map (fun k => (k, (k + delta) mod 65536)) cov) in
        explain_seq1 (length mm) mm [32]
    | Gsub1_2 cov subst =>
        let mm := stable_sort (combine cov subst) in
        explain_seq1 (length mm) mm [32]
    | Gsub2_1 cov repl => explain_entries write_glyph_list (combine cov repl) true
    | Gsub3_1 cov alts => explain_entries write_glyph_set (combine cov alts) true
    | Gsub4_1 cov repl =>
        let mm := stable_sort (concat (map (fun p => map (fun lg => (fst p, lg)) (snd p)) (combine cov repl))) in
        explain_seq4 mm [32]
    | Gpos1_1 cov adj => 32 :: write_glyph_set cov ++ k_arrow ++ write_value_record adj
    | Gpos1_2 cov adj => explain_entries write_value_record (combine cov adj) true
    end.

  (* Gpos3_1: "\n\tA: 1,1 to 2,2;\n\tB: ..."; the first record of a later
     subtable follows " ||\n\t" directly *)
  Fixpoint explain_gpos3 (recs : list (N * (anchor * anchor))) (first : bool) (j0 : bool) : list N :=
    match recs with
    | [] => []
    | (g, ((x1, y1), (x2, y2))) :: r =>
        (if j0 then [] else [59]) ++ (if first || negb j0 then [10; 9] else [])
          ++ write_glyph g ++ [58; 32] ++ digits_z x1 ++ [44] ++ digits_z y1 ++ 32 :: k_to ++ [32]
          ++ digits_z x2 ++ [44] ++ digits_z y2 ++ explain_gpos3 r first false
    end.
  (* Gpos4_1: one line per mark and per base glyph, each started by "\n\t"
     except the very first of a later subtable *)
  Fixpoint explain_lines (items : list (list N)) (first : bool) : list N :=
    match items with
    | [] => []
    | it :: r => (if first then [10; 9] else []) ++ it ++ explain_lines r true
    end.
  Definition explain_mark (e : N * (N * anchor)) : list N :=
    k_mark ++ [32] ++ write_glyph (fst e) ++ [58; 32] ++ digits (fst (snd e)) ++ [64]
      ++ digits_z (fst (snd (snd e))) ++ [44] ++ digits_z (snd (snd (snd e))) ++ [59].
  Definition explain_anchor (a : anchor) : list N :=
    [32; 64] ++ digits_z (fst a) ++ [44] ++ digits_z (snd a).
  Definition explain_base (e : N * list anchor) : list N :=
    k_base ++ [32] ++ write_glyph (fst e) ++ [58] ++ concat (map explain_anchor (snd e)) ++ [59].
  Definition explain_pos (p : pos_sub) (first : bool) : list N :=
    match p with
    | Gpos3_1 cov records => explain_gpos3 (combine cov records) first true
    | Gpos4_1 mc ma bc ba =>
        explain_lines (map explain_mark (combine mc ma) ++ map explain_base (combine bc ba)) first
    end.
  (* a subtable at position i (first <-> i = 0) of its lookup *)
  Definition explain_subtablep (s : subtable) (first : bool) : list N :=
    match s with
    | Pos p => explain_pos p first
    | _ => explain_subtable s
    end.

  (* subtables of one lookup: header before the first, " ||\n\t" between *)
  Fixpoint explain_subs (hdr : list N) (subs : list subtable) (first : bool) : list N :=
    match subs with
    | [] => []
    | s :: r =>
        (if first then hdr else k_or) ++ explain_subtablep s first ++ explain_subs hdr r false
    end.
  Definition explain_lookup (kw : list N) (l : lookup) : list N :=
    explain_subs (kw ++ digits (l_type l) ++ [58] ++ explain_flags (l_flags l)) (l_subs l) true.

  (* ExplainGsub: every lookup followed by "\n" *)
  Definition M_explain_gsub (ll : list lookup) : list N :=
    concat (map (fun l => explain_lookup k_GSUB l ++ [10]) ll).
  (* ExplainGpos: one string per lookup; callers join them with "\n" *)
  Fixpoint join_nl (l : list (list N)) : list N :=
    match l with
    | [] => []
    | [x] => x
    | x :: r => x ++ 10 :: join_nl r
    end.
  Definition M_explain_gpos (ll : list lookup) : list N :=
    join_nl (map (explain_lookup k_GPOS) ll).
End Explain.

(* ------------------------------------------------------------------ *)
(* readNestedLookups on the items of a text *)
Definition M_parse_nested (U : uclass) (text : list N) : presult (list (N * N)) :=
  let ts := M_lex U text in
  match read_nested (end_line ts) (S (S (length ts))) [] ts with
  | POk (r, _) => POk r
  | PErr l => PErr l
  | PPanic => PPanic
  | PFuel => PFuel
  | PUnmodelled => PUnmodelled
  end.

