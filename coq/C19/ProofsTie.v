(* C19/ProofsTie.v — the concrete tables of the model agree with the tables
   regenerated from lexer.go on this run *)
From Coq Require Import List NArith ZArith Bool Arith Lia ZifyBool.
From Gen Require Import C19.
From C19 Require Import Model Util.
Import ListNotations.
Local Open Scope N_scope.

(* singleCharTokens *)
Lemma single_char_tie : forall c,
  option_map ityp_code (single_char c) = assoc c builder_singleCharTokens.
Proof.
  intros c. unfold single_char.
  repeat match goal with
         | |- context [if ?x =? ?k then _ else _] =>
             let E := fresh "E" in destruct (x =? k) eqn:E;
             [apply N.eqb_eq in E; subst; vm_compute; reflexivity|]
         end.
  cbn [option_map]. unfold builder_singleCharTokens. cbn [assoc].
  repeat match goal with
         | |- context [?k =? c] => let E' := fresh "E" in
             assert (E' : (k =? c) = false) by lia; rewrite E'; clear E'
         end.
  reflexivity.
Qed.

(* the item types are pairwise distinct numbers (the iota block of lexer.go) *)
Lemma ityp_codes_distinct : NoDup (map ityp_code all_ityp).
Proof.
  vm_compute. repeat (constructor; [cbn; intros H; repeat (destruct H as [H|H]; [discriminate H|]); exact H|]).
  constructor.
Qed.

Lemma all_ityp_complete : forall t, In t all_ityp.
Proof. intros t. destruct t; cbn; tauto. Qed.

(* 5.A-19: every lookup flag name written by explainFlags for IgnoreBaseGlyphs,
   IgnoreLigatures, IgnoreMarks is a name readLookupFlags maps to the same bit *)
Lemma flag_names_agree :
  forallb (fun p => if existsb (N.eqb (fst p)) [2; 4; 8]
                    then match flag_of_name builder_parseFlags (tl (tl (snd p))) with
                         | Some v => v =? fst p
                         | None => false
                         end
                    else true) builder_explainFlags = true.
Proof. vm_compute. reflexivity. Qed.
