(* C19/ProofsNested.v — nested-action lists: explainNested / readNestedLookups *)
From Coq Require Import List NArith ZArith Bool Arith Lia ZifyBool ZifyNat ZifyN.
From Gen Require Import C19.
From C19 Require Import Model Wf Util ProofsLex Render.
Import ListNotations.
Local Open Scope N_scope.

Arguments digits : simpl never.

Section Nested.
  Variable U : uclass.

  Lemma LxH_at : LxH U [64] (fun l => [tk TAt [64] l]) 0.
  Proof. intros line rest. cbn. rewrite N.add_0_r. reflexivity. Qed.
  Lemma LxH_sp' : LxH U [32] (fun _ => []) 0.
  Proof. intros line rest. cbn. rewrite N.add_0_r. reflexivity. Qed.

  Lemma Lx_action : forall li si,
    Lx U (digits li ++ 64 :: digits si) (fun l => [tk TInt (digits li) l; tk TAt [64] l; tk TInt (digits si) l]) 0.
  Proof.
    intros li si. change (64 :: digits si) with ([64] ++ digits si). eapply Lx_ext.
    - apply Lx_app; [apply Lx_digits| |reflexivity]. apply LxH_app_Lx; [apply LxH_at|apply Lx_digits].
    - intros l. cbn. rewrite !N.add_0_r. reflexivity.
    - reflexivity.
  Qed.

  Lemma Lx_nested : forall acts, Lx U (M_explain_nested acts) (nested_toks acts) 0.
  Proof.
    induction acts as [|[li si] acts IH].
    - apply Lx_nil.
    - destruct acts as [|a acts'].
      + cbn [M_explain_nested]. unfold nested_toks. cbn [map concat fst snd]. eapply Lx_ext; [apply Lx_action| |reflexivity].
        intros l. rewrite app_nil_r. reflexivity.
      + change (M_explain_nested ((li, si) :: a :: acts'))
          with (digits li ++ 64 :: digits si ++ 32 :: M_explain_nested (a :: acts')).
        replace (digits li ++ 64 :: digits si ++ 32 :: M_explain_nested (a :: acts'))
          with ((digits li ++ 64 :: digits si) ++ ([32] ++ M_explain_nested (a :: acts')))
          by (rewrite <- app_assoc; reflexivity).
        eapply Lx_ext.
        * apply Lx_app; [apply Lx_action| |reflexivity]. apply LxH_app_Lx; [apply LxH_sp'|exact IH].
        * intros l. unfold nested_toks. cbn [map concat fst snd app]. rewrite !N.add_0_r. reflexivity.
        * reflexivity.
  Qed.

  Lemma read_nested_ok : forall endl acts l fuel res t0 rest,
    Forall (fun a => fst a < 65536 /\ snd a < 65536) acts ->
    ityp_eqb (ttyp t0) TInt = false ->
    (length (nested_toks acts l ++ t0 :: rest) < fuel)%nat ->
    exists ts', read_nested endl fuel res (nested_toks acts l ++ t0 :: rest) = POk (res ++ acts, ts').
  Proof.
    induction acts as [|[li si] acts IH]; intros l fuel res t0 rest Ha Ht Hf;
      (destruct fuel as [|fu]; [cbn in Hf; lia|]).
    - unfold nested_toks. cbn [map concat app read_nested]. unfold bind at 1. cbn [read]. rewrite Ht. cbn [negb].
      assert (Hu : exists ts', unread endl t0 rest = POk (tt, ts'))
        by (destruct rest; cbn; [destruct (is_syn_eof endl t0)|]; eauto).
      destruct Hu as (ts' & Eu). unfold bind. rewrite Eu. rewrite app_nil_r. eexists. reflexivity.
    - inversion Ha as [|? ? Hb Ha']; subst. cbn [fst snd] in Hb. destruct Hb as [H1 H2].
      unfold nested_toks. cbn [map concat fst snd app read_nested]. fold (nested_toks acts l).
      unfold bind at 1. cbn [read ttyp ityp_eqb negb tval]. rewrite atoi_digits_nat.
      assert (E1 : ((Z.of_N li <? 0)%Z || (65536 <=? Z.of_N li)%Z) = false) by lia. rewrite E1.
      unfold bind at 1. unfold required, bind at 1. cbn [read ttyp ityp_eqb ret].
      unfold bind at 1. cbn [read ttyp ityp_eqb negb tval]. rewrite atoi_digits_nat.
      assert (E2 : ((Z.of_N si <? 0)%Z || (65536 <=? Z.of_N si)%Z) = false) by lia. rewrite E2.
      rewrite !N2Z.id.
      destruct (IH l fu (res ++ [(li, si)]) t0 rest Ha' Ht) as (ts' & E).
      + unfold nested_toks in *. cbn [map concat app length] in Hf. cbn [length] in Hf. lia.
      + exists ts'. rewrite E. rewrite <- app_assoc. reflexivity.
  Qed.

  Theorem nested_roundtrip : forall acts,
    Forall (fun a => fst a < 65536 /\ snd a < 65536) acts ->
    M_parse_nested U (M_explain_nested acts) = POk acts.
  Proof.
    intros acts H. unfold M_parse_nested.
    assert (E : M_lex U (M_explain_nested acts) = nested_toks acts 1 ++ [tk TEOF [] 1]).
    { unfold M_lex. rewrite <- (app_nil_r (M_explain_nested acts)).
      rewrite (Lx_nested acts 1 [] I). reflexivity. }
    rewrite E.
    destruct (read_nested_ok (end_line (nested_toks acts 1 ++ [tk TEOF [] 1])) acts 1
                (S (S (length (nested_toks acts 1 ++ [tk TEOF [] 1])))) [] (tk TEOF [] 1) [] H eq_refl) as (ts' & Er); [lia|].
    rewrite Er. reflexivity.
  Qed.
End Nested.
