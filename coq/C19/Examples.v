From Coq Require Import List NArith ZArith Bool Arith Lia.
From Gen Require Import C19.
From C19 Require Import Model.
Import ListNotations.
Local Open Scope N_scope.
