(* C19/Examples.v — non-vacuity: concrete fonts and lookup lists meeting every
   hypothesis of every theorem of Props.v, the theorems' conclusions evaluated
   on them, and witnesses of the behaviour of the code before the repairs. *)
From Coq Require Import List NArith ZArith Bool Arith Lia.
From Gen Require Import C19.
From C19 Require Import Model Wf Protocol ProofsTotal.
Import ListNotations.
Import K.
Local Open Scope N_scope.

(* unicode tables: a few code points >= 128, everything else unclassified *)
Definition U0 : uclass :=
  mkU (fun c => (c =? 233) || (c =? 937)) (fun _ => false) (fun c => c =? 160)
      (fun c => (c =? 233) || (c =? 937) || (c =? 8594)).

(* .notdef A B C f_i uni0041 (no name) (no name) e-acute x ; cmap: quote->1 A->1 B->2 b->2 U+00A0->3 e-acute->8 *)
Definition F0 : font :=
  mkFont [[46;110;111;116;100;101;102]; [65]; [66]; [67]; [102;95;105];
          [117;110;105;48;48;52;49]; []; []; [233]; [120]]
         [(34, 1); (65, 1); (66, 2); (98, 2); (160, 3); (233, 8)].
(* a font without glyph names and without mappings *)
Definition F1 : font := mkFont (repeat [] 12) [].

Example F0_wf : font_wf U0 F0 = true.  Proof. vm_compute. reflexivity. Qed.
Example F1_wf : font_wf U0 F1 = true.  Proof. vm_compute. reflexivity. Qed.
Example F0_total_ok : total_font_ok F0.
Proof. split; [vm_compute; discriminate|repeat constructor; cbn; discriminate]. Qed.

(* GSUB lookups of every modelled type, with ranges, strings, names, numbers
   and all three flags *)
Definition LG : list lookup :=
  [ mkLookup 1 14 [Gsub1_1 [1; 2; 3; 6] 3];
    mkLookup 1 0  [Gsub1_2 [1; 2; 3; 4; 8] [5; 6; 7; 0; 1]];
    mkLookup 2 4  [Gsub2_1 [1; 7] [[1; 2]; [9; 6; 2]]];
    mkLookup 3 8  [Gsub3_1 [2; 8] [[1; 2; 3]; []]];
    mkLookup 4 2  [Gsub4_1 [1; 2; 3] [[([2; 8], 4); ([], 5)]; [([], 6)]; [([7], 7)]]] ].
Definition LP : list lookup :=
  [ mkLookup 1 6 [Gpos1_1 [1; 2; 6] (Some (mkV 0 (-10) 32767)); Gpos1_2 [2; 9] [None; Some (mkV (-32768) 0 0)]];
    mkLookup 1 0 [Gpos1_2 [8] [Some (mkV 1 2 3)]; Gpos1_1 [] None] ].

(* GSUB5: glyph sequences, classes, coverage sets; three subtables in one lookup *)
Definition LC : list lookup :=
  [ mkLookup 5 8 [Ctx (SeqCtx1 [1; 4] [[([2; 3], [(1, 0); (2, 1)]); ([], [])]; [([9], [(65535, 3)])]]);
                  Ctx (SeqCtx2 [1; 2] [[3; 5]; [1]] [[([1; 2], [(0, 0)])]; []; [([], []); ([0; 2], [(7, 1)])]]);
                  Ctx (SeqCtx3 [[1; 2]; []; [9]] [(3, 0)])];
    mkLookup 5 0 [Ctx (SeqCtx2 [] [] [[([0], [])]])];
    mkLookup 1 2 [Gsub1_1 [1; 2; 3] 1] ].
Example F0_no_class : no_class_names F0 = true.  Proof. vm_compute. reflexivity. Qed.
Example LC_wf : forallb (gsub_lookup_wf5 F0) LC = true.  Proof. vm_compute. reflexivity. Qed.
Example LC_roundtrip : M_parse U0 F0 (M_explain_gsub U0 F0 LC) = POk LC.
Proof. vm_compute. reflexivity. Qed.
Example LC_roundtrip_unnamed : M_parse U0 F1 (M_explain_gsub U0 F1 LC) = POk LC.
Proof. vm_compute. reflexivity. Qed.

(* GSUB6: chained context, three forms *)
Definition LH : list lookup :=
  [ mkLookup 6 4 [Chn (Chain1 [1; 4] [[([2; 3], [1], [], [(1, 0)]); ([], [], [9; 8], [])]; [([], [2], [3], [(2, 1)])]]);
                  Chn (Chain2 [2] [[3]] [[1; 2]; [5]] [] [[([1; 0], [2], [0], [(0, 0)])]; []; [([], [], [], [])]]);
                  Chn (Chain3 [[1]; [2; 3]] [[4]] [] [(3, 0)]);
                  Chn (Chain3 [] [[]; [5]] [[6]; [7]] [])];
    mkLookup 5 0 [Ctx (SeqCtx3 [[1]] [])] ].
Example F0_no_chain : no_chain_names F0 = true.  Proof. vm_compute. reflexivity. Qed.
Example LH_wf : forallb (gsub_lookup_wf6 F0) LH = true.  Proof. vm_compute. reflexivity. Qed.
Example LH_roundtrip : M_parse U0 F0 (M_explain_gsub U0 F0 LH) = POk LH.
Proof. vm_compute. reflexivity. Qed.
Example LH_roundtrip_unnamed : M_parse U0 F1 (M_explain_gsub U0 F1 LH) = POk LH.
Proof. vm_compute. reflexivity. Qed.

Definition LP3 : list lookup :=
  [ mkLookup 3 2 [Pos (Gpos3_1 [1; 4] [((0, -3), (10, 0)); ((-32768, 32767), (1, 1))]%Z); Pos (Gpos3_1 [2] [((5, 6), (7, 8))]%Z)];
    mkLookup 1 0 [Gpos1_2 [8] [Some (mkV 1 2 3)]];
    mkLookup 3 0 [Pos (Gpos3_1 [7] [((0, 0), (0, 0))]%Z)] ].
Example LP3_wf : forallb (gpos_lookup_wf_all F0) LP3 = true.  Proof. vm_compute. reflexivity. Qed.
Example LP3_roundtrip : M_parse U0 F0 (M_explain_gpos U0 F0 LP3) = POk LP3.
Proof. vm_compute. reflexivity. Qed.

(* GPOS4 *)
Definition LP4 : list lookup :=
  [ mkLookup 4 4 [Pos (Gpos4_1 [1; 3] [(1, (0, -3)%Z); (0, (10, 0)%Z)] [2; 5] [[(1, 1); (2, 2)]; [(-32768, 32767); (0, 0)]]%Z);
                  Pos (Gpos4_1 [4] [(0, (7, 8)%Z)] [] [])];
    mkLookup 1 0 [Gpos1_2 [8] [Some (mkV 1 2 3)]];
    mkLookup 4 0 [Pos (Gpos4_1 [7] [(0, (0, 0)%Z)] [7] [[(5, 5)]]%Z)] ].
Example LP4_wf : forallb (gpos_lookup_wf_all F0) LP4 = true.
Proof. vm_compute. reflexivity. Qed.
Example LP4_roundtrip : M_parse U0 F0 (M_explain_gpos U0 F0 LP4) = POk LP4.
Proof. vm_compute. reflexivity. Qed.

Example LG_wf : forallb (gsub_lookup_wf F0) LG = true.  Proof. vm_compute. reflexivity. Qed.
Example LP_wf : forallb (gpos_lookup_wf F0) LP = true.  Proof. vm_compute. reflexivity. Qed.
Example LG_wf1 : forallb (gsub_lookup_wf F1) LG = true.  Proof. vm_compute. reflexivity. Qed.

(* the round trip, computed *)
Example LG_roundtrip : M_parse U0 F0 (M_explain_gsub U0 F0 LG) = POk LG.
Proof. vm_compute. reflexivity. Qed.
Example LP_roundtrip : M_parse U0 F0 (M_explain_gpos U0 F0 LP) = POk LP.
Proof. vm_compute. reflexivity. Qed.
Example LG_roundtrip_unnamed : M_parse U0 F1 (M_explain_gsub U0 F1 LG) = POk LG.
Proof. vm_compute. reflexivity. Qed.

(* the description contains what the statement talks about: flags, a range
   with numeric ends, a quoted string, a name *)
Example LG_text_unnamed_range :
  firstn 34 (M_explain_gsub U0 F1 LG)
  = [71;83;85;66;49;58;32;45;109;97;114;107;115;32;45;98;97;115;101;32;45;108;105;103;115;32;49;45;32;51;32;45;62;32].
  (* "GSUB1: -marks -base -ligs 1- 3 -> " *)
Proof. vm_compute. reflexivity. Qed.

(* ---- the code before the repairs, replayed on the parser model ---- *)
Import String.
Local Open Scope string_scope.
Definition txt (s : String.string) : list N := s2l s.

(* 5.A-19: explainFlags wrote "-lig"; the parser knows "ligs" only *)
Example old_flag_name_rejected :
  M_parse U0 F0 (txt "GSUB1: -lig A -> B
") = PErr 1.
Proof. vm_compute. reflexivity. Qed.
Example new_flag_name_accepted :
  M_parse U0 F0 (txt "GSUB1: -ligs A -> B
") = POk [mkLookup 1 4 [Gsub1_1 [1] 1]].
Proof. vm_compute. reflexivity. Qed.

(* ranges between glyphs without names were written "3-5": the lexer reads "-5" as one integer *)
Example old_numeric_range_rejected :
  M_parse U0 F1 (txt "GSUB1: 3-5 -> 7-9
") = PErr 1.
Proof. vm_compute. reflexivity. Qed.
Example old_numeric_range_tokens :
  map ttyp (M_lex U0 (txt "3-5")) = [TInt; TInt; TEOF].
Proof. vm_compute. reflexivity. Qed.

(* GSUB4 mappings were abbreviated to ranges, which the ligature syntax does not have *)
Example old_gsub4_range_rejected :
  M_parse U0 F0 (txt "GSUB4: A-C -> B-f_i
") = PErr 1.
Proof. vm_compute. reflexivity. Qed.

(* %q of a non-printable rune: " " is read back as the runes u 0 0 a 0 *)
Example old_nonprintable_quote_rejected :
  M_parse U0 F0 (txt "GSUB1: "" "" -> A
") = PErr 1.
Proof. vm_compute. reflexivity. Qed.
(* now glyph 3 (mapped from U+00A0 only) is written by name *)
Example nonprintable_written_by_name :
  M_explain_gsub U0 F0 [mkLookup 1 0 [Gsub1_1 [3] 1]] = txt "GSUB1: C -> f_i
".
Proof. vm_compute. reflexivity. Qed.

(* errors carry the line of the offending position, also at the end of the input *)
Example error_line_at_end :
  M_parse U0 F0 (txt "

GSUB1: A") = PErr 3.
Proof. vm_compute. reflexivity. Qed.
Example error_line_lexer :
  M_parse U0 F0 (txt "
GSUB1: A -> !") = PErr 2.
Proof. vm_compute. reflexivity. Qed.

(* nested-action lists *)
Example nested_example :
  M_parse_nested U0 (M_explain_nested [(1, 0); (65535, 12); (0, 65535)]) = POk [(1, 0); (65535, 12); (0, 65535)]
  /\ M_explain_nested [(1, 0); (65535, 12)] = txt "1@0 65535@12"
  /\ M_parse_nested U0 (txt "1@0 65536@1") = PErr 1
  /\ M_parse_nested U0 (txt "1@0 2@
") = PErr 2.
Proof. vm_compute. repeat split. Qed.

(* the protocol model is not vacuous: a complete run of the repaired code *)
Example protocol_run : reach false (init 1) (mkP LClosed HNone PDone).
Proof.
  unfold init. eapply r_step; [apply s_item|]. eapply r_step; [apply s_item|].
  eapply r_step; [apply s_return|]. eapply r_step; [apply s_lclose|]. apply r_refl.
Qed.
