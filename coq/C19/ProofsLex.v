(* C19/ProofsLex.v — a small calculus for the lexer model: which texts, read
   from the start state, yield which items, and when such texts compose. *)
From Coq Require Import List NArith ZArith Bool Arith Lia ZifyBool ZifyNat ZifyN.
From Gen Require Import C19.
From C19 Require Import Model Wf Util.
Import ListNotations.
Local Open Scope N_scope.

Arguments digits : simpl never.
Arguments name_of : simpl never.

Section Lex.
  Variable U : uclass.

  Notation tk := mkTok.

  (* a rune that ends every pending item and is then read from the start state *)
  Definition hardsep (c : N) : bool :=
    negb (ident_char U c) && negb (c =? 62) && negb (c =? 124) && negb (c =? 0).

  Definition rest_ok (rest : list N) : Prop :=
    match rest with [] => True | c :: _ => hardsep c = true end.

  Lemma hardsep_not_digit : forall c, hardsep c = true -> is_adigit c = false.
  Proof.
    intros c H. unfold hardsep in H. destruct (is_adigit c) eqn:E; auto.
    assert (X : ident_char U c = true).
    { unfold ident_char, is_udigit. apply is_adigit_spec in E.
      assert (L : (c <? 128) = true) by lia. rewrite L.
      assert (E' : is_adigit c = true) by (apply is_adigit_spec; lia). rewrite E'. apply orb_true_r. }
    rewrite X in H. discriminate.
  Qed.

  Definition flush (st : lstate) (line : N) : option (list token) :=
    match st with
    | LStart => Some []
    | LIdent acc => Some [tk TIdent acc line]
    | LInt acc => Some [tk TInt acc line]
    | LHyphen => Some [tk THyphen [45] line]
    | LBar => Some [tk TBar [124] line]
    | _ => None
    end.

  Lemma lstep_flush : forall st line c fl,
    flush st line = Some fl -> hardsep c = true ->
    lstep U st line c = let '(ts, st', l') := lstart U line c in (fl ++ ts, st', l').
  Proof.
    intros st line c fl Hf Hs. pose proof (hardsep_not_digit _ Hs) as Hd.
    unfold hardsep in Hs. repeat (apply andb_true_iff in Hs; destruct Hs as [Hs ?]).
    apply negb_true_iff in Hs. repeat match goal with H : negb _ = true |- _ => apply negb_true_iff in H end.
    destruct st; cbn in Hf; inversion Hf; subst; clear Hf; cbn [lstep].
    - destruct (lstart U line c) as [[a b] d]. reflexivity.
    - rewrite Hs. rewrite H. unfold emit_then. destruct (lstart U line c) as [[a b] d]. reflexivity.
    - rewrite Hd. unfold emit_then. destruct (lstart U line c) as [[a b] d]. reflexivity.
    - rewrite H1, Hd. unfold emit_then. destruct (lstart U line c) as [[a b] d]. reflexivity.
    - rewrite H0. unfold emit_then. destruct (lstart U line c) as [[a b] d]. reflexivity.
  Qed.

  Lemma lfinal_flush : forall st line fl,
    flush st line = Some fl -> lfinal st line = fl ++ lfinal LStart line.
  Proof. intros st line fl H. destruct st; cbn in H; inversion H; subst; reflexivity. Qed.

  (* a pending state followed by anything acceptable behaves like the start
     state after its item has been sent *)
  Lemma lexm_flush : forall st line fl rest,
    flush st line = Some fl -> rest_ok rest ->
    lexm U st line rest = fl ++ lexm U LStart line rest.
  Proof.
    intros st line fl rest Hf Hr. destruct rest as [|c r].
    - cbn [lexm]. apply lfinal_flush. exact Hf.
    - cbn [lexm]. rewrite (lstep_flush _ _ _ _ Hf Hr). cbn [lstep].
      destruct (lstart U line c) as [[a b] d]. rewrite app_assoc. reflexivity.
  Qed.

  (* ---- the two judgements ---- *)
  (* Lx: delimited by a following hard separator (or the end of the text) *)
  Definition Lx (s : list N) (tks : N -> list token) (dl : N) : Prop :=
    forall line rest, rest_ok rest ->
      lexm U LStart line (s ++ rest) = tks line ++ lexm U LStart (line + dl) rest.
  (* LxH: self-delimiting *)
  Definition LxH (s : list N) (tks : N -> list token) (dl : N) : Prop :=
    forall line rest,
      lexm U LStart line (s ++ rest) = tks line ++ lexm U LStart (line + dl) rest.

  Lemma LxH_Lx : forall s t d, LxH s t d -> Lx s t d.
  Proof. intros s t d H line rest _. apply H. Qed.

  Lemma rest_ok_app : forall a b, rest_ok a -> rest_ok b -> rest_ok (a ++ b).
  Proof. intros a b Ha Hb. destruct a; cbn; auto. Qed.

  Lemma Lx_nil : Lx [] (fun _ => []) 0.
  Proof. intros line rest _. cbn. rewrite N.add_0_r. reflexivity. Qed.
  Lemma LxH_nil : LxH [] (fun _ => []) 0.
  Proof. intros line rest. cbn. rewrite N.add_0_r. reflexivity. Qed.

  Lemma Lx_app : forall s1 t1 d1 s2 t2 d2,
    Lx s1 t1 d1 -> Lx s2 t2 d2 -> rest_ok s2 ->
    Lx (s1 ++ s2) (fun l => t1 l ++ t2 (l + d1)) (d1 + d2).
  Proof.
    intros s1 t1 d1 s2 t2 d2 H1 H2 Hs line rest Hr.
    rewrite <- app_assoc. rewrite H1 by (apply rest_ok_app; auto).
    rewrite H2 by auto. rewrite <- app_assoc. rewrite N.add_assoc. reflexivity.
  Qed.

  Lemma LxH_app_Lx : forall s1 t1 d1 s2 t2 d2,
    LxH s1 t1 d1 -> Lx s2 t2 d2 ->
    Lx (s1 ++ s2) (fun l => t1 l ++ t2 (l + d1)) (d1 + d2).
  Proof.
    intros s1 t1 d1 s2 t2 d2 H1 H2 line rest Hr.
    rewrite <- app_assoc. rewrite H1. rewrite H2 by auto.
    rewrite <- app_assoc. rewrite N.add_assoc. reflexivity.
  Qed.

  Lemma LxH_app : forall s1 t1 d1 s2 t2 d2,
    LxH s1 t1 d1 -> LxH s2 t2 d2 ->
    LxH (s1 ++ s2) (fun l => t1 l ++ t2 (l + d1)) (d1 + d2).
  Proof.
    intros s1 t1 d1 s2 t2 d2 H1 H2 line rest.
    rewrite <- app_assoc. rewrite H1. rewrite H2.
    rewrite <- app_assoc. rewrite N.add_assoc. reflexivity.
  Qed.

  Lemma Lx_app_LxH : forall s1 t1 d1 s2 t2 d2,
    Lx s1 t1 d1 -> LxH s2 t2 d2 -> rest_ok s2 -> s2 <> [] ->
    LxH (s1 ++ s2) (fun l => t1 l ++ t2 (l + d1)) (d1 + d2).
  Proof.
    intros s1 t1 d1 s2 t2 d2 H1 H2 Hs Hn line rest.
    rewrite <- app_assoc. rewrite H1.
    - rewrite H2. rewrite <- app_assoc. rewrite N.add_assoc. reflexivity.
    - destruct s2; [congruence|]. exact Hs.
  Qed.

  Lemma Lx_ext : forall s t t' d d', Lx s t d -> (forall l, t l = t' l) -> d = d' -> Lx s t' d'.
  Proof. intros s t t' d d' H E Ed line rest Hr. subst. rewrite <- E. apply H; auto. Qed.
  Lemma LxH_ext : forall s t t' d d', LxH s t d -> (forall l, t l = t' l) -> d = d' -> LxH s t' d'.
  Proof. intros s t t' d d' H E Ed line rest. subst. rewrite <- E. apply H; auto. Qed.

  (* ---- atoms ---- *)

  Lemma lexm_ident_run : forall cs acc line rest,
    forallb (ident_char U) cs = true ->
    lexm U (LIdent acc) line (cs ++ rest) = lexm U (LIdent (acc ++ cs)) line rest.
  Proof.
    induction cs as [|c r IH]; intros acc line rest H; cbn [app].
    - rewrite app_nil_r. reflexivity.
    - cbn in H. apply andb_true_iff in H. destruct H as [H1 H2].
      cbn [lexm lstep]. rewrite H1. cbn [app]. rewrite IH by auto. rewrite <- app_assoc. reflexivity.
  Qed.

  Lemma Lx_ident : forall nm, wf_name U nm = true -> Lx nm (fun l => [tk TIdent nm l]) 0.
  Proof.
    intros nm H line rest Hr. destruct nm as [|c r]; [discriminate|].
    cbn in H. repeat (apply andb_true_iff in H; destruct H as [H ?]).
    repeat match goal with H : negb _ = true |- _ => apply negb_true_iff in H end.
    cbn [app lexm lstep]. unfold lstart. rewrite H, H3, H2, H1. cbn [app].
    rewrite lexm_ident_run by auto. rewrite N.add_0_r.
    rewrite (lexm_flush (LIdent ([c] ++ r)) line _ rest eq_refl Hr). reflexivity.
  Qed.

  Lemma lexm_int_run : forall cs acc line rest,
    forallb is_adigit cs = true ->
    lexm U (LInt acc) line (cs ++ rest) = lexm U (LInt (acc ++ cs)) line rest.
  Proof.
    induction cs as [|c r IH]; intros acc line rest H; cbn [app].
    - rewrite app_nil_r. reflexivity.
    - cbn in H. apply andb_true_iff in H. destruct H as [H1 H2].
      cbn [lexm lstep]. rewrite H1. cbn [app]. rewrite IH by auto. rewrite <- app_assoc. reflexivity.
  Qed.

  Lemma lstart_digit : forall line c, is_adigit c = true -> lstart U line c = ([], LInt [c], line).
  Proof.
    intros line c H. pose proof H as H'. apply is_adigit_spec in H'. unfold lstart.
    assert (E0 : (c =? 0) = false) by lia. assert (E1 : (c =? 10) = false) by lia.
    assert (E2 : is_space U c = false).
    { unfold is_space, in_range. assert (L : (c <? 128) = true) by lia. rewrite L. lia. }
    assert (E3 : ident_start U c = false).
    { unfold ident_start, is_letter, in_range. assert (L : (c <? 128) = true) by lia. rewrite L. lia. }
    assert (E4 : (c =? 34) = false) by lia.
    rewrite E0, E1, E2, E3, E4, H. reflexivity.
  Qed.

  Lemma Lx_int : forall c r, is_adigit c = true -> forallb is_adigit r = true ->
    Lx (c :: r) (fun l => [tk TInt (c :: r) l]) 0.
  Proof.
    intros c r Hc Hr line rest Hrest. cbn [app lexm lstep]. rewrite lstart_digit by auto. cbn [app].
    rewrite lexm_int_run by auto. rewrite N.add_0_r.
    rewrite (lexm_flush (LInt ([c] ++ r)) line _ rest eq_refl Hrest). reflexivity.
  Qed.

  Lemma Lx_digits : forall n, Lx (digits n) (fun l => [tk TInt (digits n) l]) 0.
  Proof.
    intros n. destruct (digits_head n) as (c & r & E & Hc & Hr). rewrite E. apply Lx_int; auto.
  Qed.

  (* "+123" / "-123" *)
  Lemma Lx_signed : forall z, Lx (digits_signed z) (fun l => [tk TInt (digits_signed z) l]) 0.
  Proof.
    intros z line rest Hrest.
    assert (G : forall n, lexm U LStart line ((43 :: digits n) ++ rest)
                          = [tk TInt (43 :: digits n) line] ++ lexm U LStart (line + 0) rest).
    { intros n. cbn [app lexm lstep]. unfold lstart. cbn. 
      rewrite lexm_int_run by apply digits_all. rewrite N.add_0_r.
      rewrite (lexm_flush (LInt ([43] ++ digits n)) line _ rest eq_refl Hrest). reflexivity. }
    destruct z as [|p|p]; unfold digits_signed; [apply G|apply G|].
    destruct (digits_head (Npos p)) as (c & r & E & Hc & Hr). rewrite E.
    assert (E62 : (c =? 62) = false) by (pose proof Hc as Hc'; apply is_adigit_spec in Hc'; lia).
    cbn [app lexm lstep]. unfold lstart. cbn. rewrite E62, Hc. cbn [app].
    rewrite lexm_int_run by auto. rewrite N.add_0_r.
    rewrite (lexm_flush (LInt ([45; c] ++ r)) line _ rest eq_refl Hrest). reflexivity.
  Qed.

  (* quoted strings: the body is a concatenation of quote_body r, r printable *)
  Definition str_rune (r : N) : bool := negb (r =? 0) && negb (r =? 10).

  Lemma lexm_str_rune : forall r acc line rest, str_rune r = true ->
    lexm U (LStr acc false) line (quote_body r ++ rest) = lexm U (LStr (acc ++ quote_body r) false) line rest.
  Proof.
    intros r acc line rest H. unfold str_rune in H. apply andb_true_iff in H. destruct H as [H0 H1].
    apply negb_true_iff in H0, H1. unfold quote_body.
    destruct ((r =? 34) || (r =? 92)) eqn:E.
    - cbn [app lexm lstep]. cbn. rewrite H0, H1. cbn. rewrite <- app_assoc. reflexivity.
    - apply orb_false_iff in E. destruct E as [E1 E2].
      cbn [app lexm lstep]. rewrite H0, H1, E1, E2. cbn. reflexivity.
  Qed.

  Lemma lexm_str_runes : forall rs acc line rest, forallb str_rune rs = true ->
    lexm U (LStr acc false) line (concat (map quote_body rs) ++ rest)
    = lexm U (LStr (acc ++ concat (map quote_body rs)) false) line rest.
  Proof.
    induction rs as [|r rs IH]; intros acc line rest H; cbn [map concat app].
    - rewrite app_nil_r. reflexivity.
    - cbn in H. apply andb_true_iff in H. destruct H as [H1 H2].
      rewrite <- app_assoc. rewrite lexm_str_rune by auto. rewrite IH by auto.
      rewrite <- app_assoc. reflexivity.
  Qed.

  Definition quoted (rs : list N) : list N := 34 :: concat (map quote_body rs) ++ [34].

  Lemma LxH_quoted : forall rs, forallb str_rune rs = true ->
    LxH (quoted rs) (fun l => [tk TString (quoted rs) l]) 0.
  Proof.
    intros rs H line rest. unfold quoted. cbn [app lexm lstep]. unfold lstart. cbn.
    rewrite <- app_assoc. rewrite lexm_str_runes by auto. cbn [app lexm lstep]. cbn.
    rewrite N.add_0_r. reflexivity.
  Qed.
End Lex.
