(* C19/Wf.v — the fragment: which fonts and lookup lists the round-trip
   theorem speaks about.  Boolean definitions (decidable, see Examples.v). *)
From Coq Require Import List NArith ZArith Bool Arith.
From Gen Require Import C19.
From C19 Require Import Model.
Import ListNotations.
Local Open Scope N_scope.

Fixpoint ascendingb (l : list N) : bool :=
  match l with
  | [] => true
  | x :: r => match r with [] => true | y :: _ => x <? y end && ascendingb r
  end.

Fixpoint nodupb (l : list (list N)) : bool :=
  match l with
  | [] => true
  | x :: r => negb (existsb (list_eqb x) r) && nodupb r
  end.

Fixpoint nodupN (l : list N) : bool :=
  match l with
  | [] => true
  | x :: r => negb (existsb (N.eqb x) r) && nodupN r
  end.

Definition acts_ok (a : actions) : bool :=
  forallb (fun p => (fst p <? 65536) && (snd p <? 65536)) a.

Section Wf.
  Variable U : uclass.
  Variable F : font.

  (* a glyph name the lexer reads back as one identifier: it starts with a
     letter, '.' or '_' and continues with letters, digits, '.' or '_' *)
  Definition wf_name (nm : list N) : bool :=
    match nm with
    | [] => false
    | c :: r => negb (c =? 0) && negb (c =? 10) && negb (is_space U c) && ident_start U c
                && forallb (ident_char U) r
    end.

  Definition names_ok : bool := forallb (fun n => is_nil n || wf_name n) (f_names F).
  Definition names_distinct : bool := nodupb (filter (fun n => negb (is_nil n)) (f_names F)).
  (* the cmap is a finite map (strictly ascending runes) into the font's glyphs *)
  Definition cmap_ok : bool :=
    ascendingb (map fst (f_cmap F)) && forallb (fun p => snd p <? num_glyphs F) (f_cmap F).
  (* maxp.numGlyphs is a uint16 *)
  Definition font_wf : bool :=
    (num_glyphs F <=? 65535) && names_ok && names_distinct && cmap_ok.

  Definition gids_ok (gs : list N) : bool := forallb (fun g => g <? num_glyphs F) gs.

  Definition int16_ok (z : Z) : bool := (-32768 <=? z)%Z && (z <=? 32767)%Z.
  (* value records as the parser produces them: nil, or some non-zero field *)
  Definition vrec_ok (a : option vrec) : bool :=
    match a with
    | None => true
    | Some v => negb ((v_x v =? 0)%Z && (v_y v =? 0)%Z && (v_dx v =? 0)%Z)
                && int16_ok (v_x v) && int16_ok (v_y v) && int16_ok (v_dx v)
    end.

  (* contextual subtables in the form the parser produces *)
  Definition ctx_wf (c : ctx_sub) : bool :=
    match c with
    | SeqCtx1 cov rules =>
        negb (is_nil cov) && ascendingb cov && (length cov =? length rules)%nat && gids_ok cov
        && forallb (fun rs => negb (is_nil rs)
                              && forallb (fun r => gids_ok (fst r) && acts_ok (snd r)) rs) rules
    | SeqCtx2 cov classes rules =>
        ascendingb cov && gids_ok cov
        && forallb (fun c => negb (is_nil c) && ascendingb c && gids_ok c) classes
        && nodupN (concat classes)
        && (length rules =? S (length classes))%nat
        && forallb (forallb (fun r => forallb (fun c => c <=? N.of_nat (length classes)) (fst r)
                                      && acts_ok (snd r))) rules
        && negb (is_nil (concat rules))
    | SeqCtx3 input acts =>
        negb (is_nil input) && forallb (fun s => ascendingb s && gids_ok s) input && acts_ok acts
    end.

  Definition classes_wf (classes : list (list N)) : bool :=
    forallb (fun c => negb (is_nil c) && ascendingb c && gids_ok c) classes && nodupN (concat classes).
  Definition le_all (k : nat) (cs : list N) : bool := forallb (fun c => c <=? N.of_nat k) cs.

  (* chained contextual subtables in the form the parser produces *)
  Definition chain_wf (h : chain_sub) : bool :=
    match h with
    | Chain1 cov rules =>
        negb (is_nil cov) && ascendingb cov && (length cov =? length rules)%nat && gids_ok cov
        && forallb (fun rs => negb (is_nil rs)
             && forallb (fun r : chain_rule =>
                  gids_ok (fst (fst (fst r))) && gids_ok (snd (fst (fst r))) && gids_ok (snd (fst r))
                  && acts_ok (snd r)) rs) rules
    | Chain2 cov btc inc lac rules =>
        ascendingb cov && gids_ok cov && classes_wf btc && classes_wf inc && classes_wf lac
        && (length rules =? S (length inc))%nat
        && forallb (forallb (fun r : chain_rule =>
              le_all (length btc) (fst (fst (fst r))) && le_all (length inc) (snd (fst (fst r)))
              && le_all (length lac) (snd (fst r)) && acts_ok (snd r))) rules
        && negb (is_nil (concat rules))
    | Chain3 bt input la acts =>
        negb (is_nil input)
        && forallb (fun s => ascendingb s && gids_ok s) bt
        && forallb (fun s => ascendingb s && gids_ok s) input
        && forallb (fun s => ascendingb s && gids_ok s) la && acts_ok acts
    end.

  (* no glyph is called like one of the class keywords of GSUB6 *)
  Definition no_chain_names : bool :=
    forallb (fun n => negb (list_eqb n K.k_inputclass) && negb (list_eqb n K.k_backtrackclass)
                      && negb (list_eqb n K.k_lookaheadclass)) (f_names F).

  Definition anchor_ok (a : anchor) : bool := int16_ok (fst a) && int16_ok (snd a).
  (* GPOS2-4 subtables in the form the parser produces *)
  Definition pos_wf (p : pos_sub) : bool :=
    match p with
    | Gpos3_1 cov records =>
        negb (is_nil cov) && ascendingb cov && (length cov =? length records)%nat && gids_ok cov
        && forallb (fun r => anchor_ok (fst r) && anchor_ok (snd r)) records
    | Gpos4_1 mc ma bc ba =>
        negb (is_nil mc) && ascendingb mc && (length mc =? length ma)%nat && gids_ok mc
        && forallb (fun m => (fst m <? 65536) && anchor_ok (snd m)) ma
        && classes_complete (map fst ma)
        && ascendingb bc && (length bc =? length ba)%nat && gids_ok bc
        && forallb (fun an => (length an =? num_classes (map fst ma))%nat && forallb anchor_ok an) ba
    end.

  (* no glyph is called "class" (the word starts a class definition in GSUB5) *)
  Definition no_class_names : bool :=
    forallb (fun n => negb (list_eqb n K.k_class)) (f_names F).

  (* subtables in the form the parser produces (what the language can express) *)
  Definition sub_wf (s : subtable) : bool :=
    match s with
    | Pos p => pos_wf p
    | Chn h => chain_wf h
    | Ctx c => ctx_wf c
    | Gsub1_1 cov delta =>
        negb (is_nil cov) && ascendingb cov && gids_ok cov && (delta <? 65536)
        && gids_ok (map (fun k => (k + delta) mod 65536) cov)
    | Gsub1_2 cov subst =>
        ascendingb cov && (length cov =? length subst)%nat && gids_ok cov && gids_ok subst
        && negb (const_delta (combine cov subst))
    | Gsub2_1 cov repl =>
        negb (is_nil cov) && ascendingb cov && (length cov =? length repl)%nat && gids_ok cov
        && forallb (fun r => negb (is_nil r) && gids_ok r) repl
    | Gsub3_1 cov alts =>
        negb (is_nil cov) && ascendingb cov && (length cov =? length alts)%nat && gids_ok cov
        && forallb (fun a => ascendingb a && gids_ok a) alts
    | Gsub4_1 cov repl =>
        negb (is_nil cov) && ascendingb cov && (length cov =? length repl)%nat && gids_ok cov
        && forallb (fun ls => negb (is_nil ls)
                              && forallb (fun lg => gids_ok (fst lg) && (snd lg <? num_glyphs F)) ls) repl
    | Gpos1_1 cov adj => ascendingb cov && gids_ok cov && vrec_ok adj
    | Gpos1_2 cov adj =>
        negb (is_nil cov) && ascendingb cov && (length cov =? length adj)%nat && gids_ok cov
        && forallb vrec_ok adj
    end.

  (* all subsets of IgnoreBaseGlyphs (2), IgnoreLigatures (4), IgnoreMarks (8) *)
  Definition flags_ok (fl : N) : bool := existsb (N.eqb fl) [0; 2; 4; 6; 8; 10; 12; 14].

  Definition sub_type (s : subtable) : N :=
    match s with
    | Pos (Gpos3_1 _ _) => 3
    | Pos (Gpos4_1 _ _ _ _) => 4
    | Chn _ => 6
    | Ctx _ => 5
    | Gsub1_1 _ _ | Gsub1_2 _ _ => 1
    | Gsub2_1 _ _ => 2
    | Gsub3_1 _ _ => 3
    | Gsub4_1 _ _ => 4
    | Gpos1_1 _ _ | Gpos1_2 _ _ => 1
    end.
  Definition is_ctx (s : subtable) : bool := match s with Ctx _ | Chn _ | Pos _ => true | _ => false end.
  Definition is_gpos (s : subtable) : bool :=
    match s with Gpos1_1 _ _ | Gpos1_2 _ _ => true | _ => false end.

  (* GSUB1-4: one subtable of the lookup's type *)
  Definition gsub_lookup_wf (lk : lookup) : bool :=
    flags_ok (l_flags lk) &&
    match l_subs lk with
    | [s] => negb (is_gpos s) && negb (is_ctx s) && (sub_type s =? l_type lk) && sub_wf s
    | _ => false
    end.
  (* GSUB5: one or more contextual subtables *)
  Definition ctx_lookup_wf (lk : lookup) : bool :=
    flags_ok (l_flags lk) && (l_type lk =? 5) && negb (is_nil (l_subs lk))
    && forallb (fun s => match s with Ctx c => ctx_wf c | _ => false end) (l_subs lk).
  (* GSUB1-5 *)
  Definition gsub_lookup_wf5 (lk : lookup) : bool := gsub_lookup_wf lk || ctx_lookup_wf lk.
  (* GSUB6: one or more chained contextual subtables *)
  Definition chain_lookup_wf (lk : lookup) : bool :=
    flags_ok (l_flags lk) && (l_type lk =? 6) && negb (is_nil (l_subs lk))
    && forallb (fun s => match s with Chn h => chain_wf h | _ => false end) (l_subs lk).
  (* GSUB1-6 *)
  Definition gsub_lookup_wf6 (lk : lookup) : bool := gsub_lookup_wf5 lk || chain_lookup_wf lk.

  (* GPOS3: one or more subtables *)
  Definition gpos3_lookup_wf (lk : lookup) : bool :=
    flags_ok (l_flags lk) && (l_type lk =? 3) && negb (is_nil (l_subs lk))
    && forallb (fun s => match s with Pos (Gpos3_1 c r) => pos_wf (Gpos3_1 c r) | _ => false end) (l_subs lk).

  Definition gpos4_lookup_wf (lk : lookup) : bool :=
    flags_ok (l_flags lk) && (l_type lk =? 4) && negb (is_nil (l_subs lk))
    && forallb (fun s => match s with Pos (Gpos4_1 a b c d) => pos_wf (Gpos4_1 a b c d) | _ => false end) (l_subs lk).

  (* GPOS1: one or more subtables *)
  Definition gpos_lookup_wf (lk : lookup) : bool :=
    flags_ok (l_flags lk) && (l_type lk =? 1) && negb (is_nil (l_subs lk))
    && forallb (fun s => is_gpos s && sub_wf s) (l_subs lk).

  (* the GPOS fragment of the round-trip theorem *)
  Definition gpos_lookup_wf_all (lk : lookup) : bool :=
    gpos_lookup_wf lk || gpos3_lookup_wf lk || gpos4_lookup_wf lk.
End Wf.
