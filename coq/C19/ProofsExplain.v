(* C19/ProofsExplain.v — the lexer reads the text written by M_explain as the
   item stream of Render.v. *)
From Coq Require Import List NArith ZArith Bool Arith Lia ZifyBool ZifyNat ZifyN.
From Gen Require Import C19.
From C19 Require Import Model Wf Util ProofsLex Render.
Import ListNotations.
Import K.
Local Open Scope N_scope.

Arguments digits : simpl never.
Arguments name_of : simpl never.
Arguments digits_signed : simpl never.

Section Explain.
  Variable U : uclass.
  Variable F : font.
  Hypothesis HF : font_wf U F = true.

  Notation Lx := (Lx U).
  Notation LxH := (LxH U).
  Notation rest_ok := (rest_ok U).

  (* ---- literals ---- *)
  Ltac lit := intros line rest; cbn; rewrite ?N.add_0_r; reflexivity.

  Lemma LxH_sp : LxH [32] (fun _ => []) 0.           Proof. lit. Qed.
  Lemma LxH_arrow : LxH k_arrow (fun l => [t_arrow l]) 0.   Proof. lit. Qed.
  Lemma LxH_comma : LxH k_comma (fun l => [t_comma l]) 0.   Proof. lit. Qed.
  Lemma LxH_lbr : LxH [91] (fun l => [tk TLBr [91] l]) 0.   Proof. lit. Qed.
  Lemma LxH_rbr : LxH [93] (fun l => [tk TRBr [93] l]) 0.   Proof. lit. Qed.
  Lemma LxH_colon : LxH [58] (fun l => [tk TColon [58] l]) 0.   Proof. lit. Qed.
  Lemma LxH_or : LxH k_or (fun l => [tk TOr [124; 124] l; tk TEOL [10] l]) 1.   Proof. lit. Qed.
  Lemma LxH_nl : LxH [10] (fun l => [tk TEOL [10] l]) 1.   Proof. lit. Qed.
  Lemma LxH_hy_sp : LxH [45; 32] (fun l => [t_hyphen l]) 0.   Proof. lit. Qed.

  Lemma hs_sp : hardsep U 32 = true. Proof. reflexivity. Qed.
  Lemma hs_comma : hardsep U 44 = true. Proof. reflexivity. Qed.
  Lemma hs_hy : hardsep U 45 = true. Proof. reflexivity. Qed.
  Lemma hs_plus : hardsep U 43 = true. Proof. reflexivity. Qed.
  Lemma hs_rbr : hardsep U 93 = true. Proof. reflexivity. Qed.
  Lemma hs_colon : hardsep U 58 = true. Proof. reflexivity. Qed.
  Lemma hs_nl : hardsep U 10 = true. Proof. reflexivity. Qed.

  (* ---- facts about the font ---- *)
  Lemma HF_all : num_glyphs F <= 65535 /\ names_ok U F = true /\ names_distinct F = true /\ cmap_ok F = true.
  Proof.
    pose proof HF as H. unfold font_wf in H. repeat (apply andb_true_iff in H; destruct H as [H ?]).
    repeat split; auto. lia.
  Qed.
  Lemma HF_num : num_glyphs F <= 65535.  Proof. apply HF_all. Qed.
  Lemma HF_names : names_ok U F = true.  Proof. apply HF_all. Qed.
  Lemma HF_distinct : names_distinct F = true.  Proof. apply HF_all. Qed.
  Lemma HF_cmap : cmap_ok F = true.  Proof. apply HF_all. Qed.

  Lemma raw_name_wf : forall g, g < num_glyphs F -> raw_name F g <> [] -> wf_name U (raw_name F g) = true.
  Proof.
    intros g Hg Hn. pose proof HF_names as H. unfold names_ok in H. rewrite forallb_forall in H.
    unfold raw_name in *. specialize (H (nth (N.to_nat g) (f_names F) [])).
    assert (I : In (nth (N.to_nat g) (f_names F) []) (f_names F)).
    { apply nth_In. unfold num_glyphs in Hg. lia. }
    specialize (H I). apply orb_true_iff in H. destruct H as [H|H]; auto.
    destruct (nth (N.to_nat g) (f_names F) []); [congruence|discriminate].
  Qed.

  Lemma name_of_raw : forall g, name_of F g = if is_nil (raw_name F g) then digits g else raw_name F g.
  Proof. reflexivity. Qed.

  Lemma Lx_name : forall g, g < num_glyphs F -> Lx (name_of F g) (fun l => [name_tok F g l]) 0.
  Proof.
    intros g Hg. rewrite name_of_raw. unfold name_tok.
    destruct (raw_name F g) as [|c r] eqn:E; cbn [is_nil].
    - apply Lx_digits.
    - apply Lx_ident. rewrite <- E. apply raw_name_wf; auto. congruence.
  Qed.

  (* ---- the cmap side ---- *)
  Lemma mapped_rune_l_spec : forall cm g acc r,
    mapped_rune_l U cm g acc = Some r ->
    acc = Some r \/ (In (r, g) cm /\ g <> 0 /\ is_print U r = true).
  Proof.
    induction cm as [|[r' g'] cm IH]; intros g acc r H; cbn in H; auto.
    apply IH in H. destruct H as [H|H].
    - destruct ((g' =? g) && negb (g' =? 0) && is_print U r') eqn:E; auto.
      inversion H; subst. repeat (apply andb_true_iff in E; destruct E as [E ?]).
      apply N.eqb_eq in E. apply negb_true_iff in H1. apply N.eqb_neq in H1. subst.
      right. repeat split; auto. left. reflexivity.
    - right. destruct H as (H1 & H2 & H3). repeat split; auto. right. exact H1.
  Qed.

  Lemma mapped_rune_spec : forall g r, mapped_rune U F g = Some r ->
    In (r, g) (f_cmap F) /\ g <> 0 /\ is_print U r = true.
  Proof.
    intros g r H. unfold mapped_rune in H. apply mapped_rune_l_spec in H.
    destruct H as [H|H]; [discriminate|exact H].
  Qed.

  Lemma print_str_rune : forall r, is_print U r = true -> str_rune r = true.
  Proof.
    intros r H. unfold str_rune. unfold is_print, in_range in H.
    destruct (r <? 128) eqn:E; lia.
  Qed.

  Lemma mapped_quoted : forall g,
    mapped U F g = match mapped_rune U F g with Some r => quoted [r] | None => [] end.
  Proof.
    intros g. unfold mapped, quoted. destruct (mapped_rune U F g); auto.
    cbn [map concat]. rewrite app_nil_r. reflexivity.
  Qed.

  Lemma Lx_glyph : forall g, g < num_glyphs F -> Lx (write_glyph U F g) (fun l => [glyph_tok U F g l]) 0.
  Proof.
    intros g Hg. unfold write_glyph, glyph_tok.
    destruct (list_eqb (34 :: name_of F g ++ [34]) (mapped U F g)); [apply Lx_name; auto|].
    destruct (is_nil (mapped U F g)) eqn:E; cbn [negb]; [apply Lx_name; auto|].
    rewrite mapped_quoted in *. destruct (mapped_rune U F g) as [r|] eqn:Er; [|discriminate].
    apply LxH_Lx. apply LxH_quoted. cbn. rewrite andb_true_r.
    apply print_str_rune. apply mapped_rune_spec in Er. tauto.
  Qed.

  (* pieces joined by single spaces *)
  Lemma Lx_join : forall (ps : list (list N * (N -> list token))),
    ps <> [] -> Forall (fun p => Lx (fst p) (snd p) 0) ps ->
    Lx (join_sp (map fst ps)) (fun l => concat (map (fun p => snd p l) ps)) 0.
  Proof.
    induction ps as [|p ps IH]; intros Hn Hall; [congruence|].
    inversion Hall as [|? ? Hp Hps]; subst. destruct ps as [|q ps].
    - cbn. eapply Lx_ext; [exact Hp| |reflexivity]. intros l. rewrite app_nil_r. reflexivity.
    - change (join_sp (map fst (p :: q :: ps))) with (fst p ++ ([32] ++ join_sp (map fst (q :: ps)))).
      eapply Lx_ext.
      + apply Lx_app; [exact Hp| |exact hs_sp].
        apply LxH_app_Lx; [apply LxH_sp|]. apply IH; [discriminate|exact Hps].
      + intros l. cbn. rewrite !N.add_0_r. reflexivity.
      + reflexivity.
  Qed.

  Lemma gids_ok_forall : forall gs, gids_ok F gs = true -> Forall (fun g => g < num_glyphs F) gs.
  Proof.
    intros gs H. unfold gids_ok in H. rewrite forallb_forall in H. apply Forall_forall.
    intros x Hx. specialize (H x Hx). lia.
  Qed.

  Lemma Lx_names : forall gs, gs <> [] -> Forall (fun g => g < num_glyphs F) gs ->
    Lx (join_sp (map (name_of F) gs)) (fun l => map (fun g => name_tok F g l) gs) 0.
  Proof.
    intros gs Hn Hg.
    pose (ps := map (fun g => (name_of F g, fun l => [name_tok F g l])) gs).
    assert (E1 : map fst ps = map (name_of F) gs).
    { unfold ps. rewrite map_map. reflexivity. }
    assert (E2 : forall l, concat (map (fun p => snd p l) ps) = map (fun g => name_tok F g l) gs).
    { intros l. unfold ps. rewrite map_map. cbn. clear. induction gs; cbn; auto. f_equal; auto. }
    rewrite <- E1. eapply Lx_ext; [|exact E2|reflexivity]. apply Lx_join.
    - unfold ps. destruct gs; [congruence|discriminate].
    - unfold ps. apply Forall_forall. intros p Hp. apply in_map_iff in Hp.
      destruct Hp as (g & Eg & Hin). subst p. cbn. apply Lx_name. rewrite Forall_forall in Hg. auto.
  Qed.

  Definition body_of (g : N) : list N :=
    match mapped_rune U F g with Some r => quote_body r | None => [] end.

  Lemma bodies_quoted : forall gs,
    forallb (fun g => negb (is_nil (mapped U F g))) gs = true ->
    exists rs, concat (map body_of gs) = concat (map quote_body rs) /\ forallb str_rune rs = true
               /\ map (fun g => mapped_rune U F g) gs = map Some rs.
  Proof.
    induction gs as [|g gs IH]; intros H.
    - exists []. auto.
    - cbn [forallb] in H. apply andb_true_iff in H. destruct H as [H1 H2]. destruct (IH H2) as (rs & E & S & M).
      unfold mapped in H1. destruct (mapped_rune U F g) as [r|] eqn:Er; [|discriminate].
      exists (r :: rs). cbn [map concat forallb]. split; [|split].
      + unfold body_of at 1. rewrite Er. rewrite E. reflexivity.
      + rewrite S, andb_true_r. apply print_str_rune. apply mapped_rune_spec in Er. tauto.
      + rewrite Er, M. reflexivity.
  Qed.

  Lemma Lx_glyph_list : forall gs, gids_ok F gs = true ->
    Lx (write_glyph_list U F gs) (gl_toks U F gs) 0.
  Proof.
    intros gs Hg. pose proof (gids_ok_forall _ Hg) as Hf.
    destruct gs as [|g [|g' gs]].
    - apply Lx_nil.
    - cbn. inversion Hf; subst. apply Lx_glyph; auto.
    - unfold write_glyph_list, gl_toks. cbv beta iota.
      destruct (forallb (fun g0 => negb (is_nil (mapped U F g0))) (g :: g' :: gs)) eqn:E.
      + destruct (bodies_quoted _ E) as (rs & Eq & S & _). fold body_of.
        rewrite Eq. apply LxH_Lx. apply (LxH_quoted U rs S).
      + apply Lx_names; [discriminate|exact Hf].
  Qed.

  Lemma rest_ok_glyph_set : forall gs, rest_ok (write_glyph_set U F gs).
  Proof. intros. reflexivity. Qed.

  Lemma LxH_glyph_set : forall gs, gids_ok F gs = true ->
    LxH (write_glyph_set U F gs) (gs_toks U F gs) 0.
  Proof.
    intros gs Hg. unfold write_glyph_set, gs_toks.
    change (91 :: write_glyph_list U F gs ++ [93]) with ([91] ++ (write_glyph_list U F gs ++ [93])).
    eapply LxH_ext.
    - apply LxH_app; [apply LxH_lbr|].
      apply Lx_app_LxH; [apply Lx_glyph_list; auto|apply LxH_rbr|exact hs_rbr|discriminate].
    - intros l. cbn. rewrite !N.add_0_r. reflexivity.
    - reflexivity.
  Qed.

  (* ---- lookup flags: checked against the regenerated tables ---- *)
  Lemma flags_cases : forall fl, flags_ok fl = true ->
    fl = 0 \/ fl = 2 \/ fl = 4 \/ fl = 6 \/ fl = 8 \/ fl = 10 \/ fl = 12 \/ fl = 14.
  Proof.
    intros fl H. unfold flags_ok in H. cbn [existsb] in H.
    repeat (apply orb_true_iff in H; destruct H as [H|H]); try discriminate; apply N.eqb_eq in H; tauto.
  Qed.

  Lemma Lx_flags : forall fl, flags_ok fl = true -> Lx (explain_flags fl) (flag_toks fl) 0.
  Proof.
    intros fl H. apply flags_cases in H.
    repeat (destruct H as [H|H]); subst fl; intros line rest Hr; cbn;
      try match goal with |- context [lexm U (LIdent ?a) ?l rest] =>
            rewrite (lexm_flush U (LIdent a) l _ rest eq_refl Hr) end;
      rewrite ?N.add_0_r; reflexivity.
  Qed.

  Lemma rest_ok_flags : forall fl, flags_ok fl = true -> rest_ok (explain_flags fl).
  Proof.
    intros fl H. apply flags_cases in H. repeat (destruct H as [H|H]); subst fl; reflexivity.
  Qed.

  (* ---- value records ---- *)
  Lemma Lx_kw_signed : forall kw z, wf_name U kw = true ->
    Lx (kw ++ digits_signed z) (fun l => [tk TIdent kw l; tk TInt (digits_signed z) l]) 0.
  Proof.
    intros kw z Hk. eapply Lx_ext.
    - apply Lx_app; [apply Lx_ident; exact Hk|apply Lx_signed|].
      destruct z; reflexivity.
    - intros l. cbn. rewrite N.add_0_r. reflexivity.
    - reflexivity.
  Qed.

  Definition vpart (kw : list N) (z : Z) : list N * (N -> list token) :=
    (kw ++ digits_signed z, fun l => [tk TIdent kw l; tk TInt (digits_signed z) l]).

  Lemma Lx_vparts : forall ps, ps <> [] ->
    Forall (fun p => exists kw z, p = vpart kw z /\ wf_name U kw = true) ps ->
    Lx (join_sp (map fst ps)) (fun l => concat (map (fun p => snd p l) ps)) 0.
  Proof.
    intros ps Hn H. apply Lx_join; auto. eapply Forall_impl; [|exact H].
    intros p (kw & z & E & Hk). subst p. cbn. apply Lx_kw_signed; auto.
  Qed.

  Lemma Lx_value : forall a, Lx (write_value_record a) (value_toks a) 0.
  Proof.
    intros [v|]; [|apply (Lx_ident U k_us); reflexivity].
    unfold write_value_record, value_toks.
    assert (Kx : wf_name U k_x = true) by reflexivity.
    assert (Ky : wf_name U k_y = true) by reflexivity.
    assert (Kd : wf_name U k_dx = true) by reflexivity.
    destruct (v_x v =? 0)%Z, (v_y v =? 0)%Z, (v_dx v =? 0)%Z; cbn [app is_nil].
    - apply (Lx_ident U k_us); reflexivity.
    - eapply Lx_ext; [apply (Lx_vparts [vpart k_dx (v_dx v)])| |reflexivity];
        [discriminate|repeat constructor; eauto|intros l; reflexivity].
    - eapply Lx_ext; [apply (Lx_vparts [vpart k_y (v_y v)])| |reflexivity];
        [discriminate|repeat constructor; eauto|intros l; reflexivity].
    - eapply Lx_ext; [apply (Lx_vparts [vpart k_y (v_y v); vpart k_dx (v_dx v)])| |reflexivity];
        [discriminate|repeat constructor; eauto|intros l; reflexivity].
    - eapply Lx_ext; [apply (Lx_vparts [vpart k_x (v_x v)])| |reflexivity];
        [discriminate|repeat constructor; eauto|intros l; reflexivity].
    - eapply Lx_ext; [apply (Lx_vparts [vpart k_x (v_x v); vpart k_dx (v_dx v)])| |reflexivity];
        [discriminate|repeat constructor; eauto|intros l; reflexivity].
    - eapply Lx_ext; [apply (Lx_vparts [vpart k_x (v_x v); vpart k_y (v_y v)])| |reflexivity];
        [discriminate|repeat constructor; eauto|intros l; reflexivity].
    - eapply Lx_ext; [apply (Lx_vparts [vpart k_x (v_x v); vpart k_y (v_y v); vpart k_dx (v_dx v)])| |reflexivity];
        [discriminate|repeat constructor; eauto|intros l; reflexivity].
  Qed.

  (* ---- GSUB1 mappings with ranges ---- *)
  Lemma ident_start_not_digit : forall c, ident_start U c = true -> is_adigit c = false.
  Proof.
    intros c H. destruct (is_adigit c) eqn:E; auto. apply is_adigit_spec in E.
    unfold ident_start, is_letter, in_range in H. assert (L : (c <? 128) = true) by lia.
    rewrite L in H. lia.
  Qed.

  Lemma Lx_hy_ident : forall nm, wf_name U nm = true ->
    Lx (45 :: nm) (fun l => [t_hyphen l; tk TIdent nm l]) 0.
  Proof.
    intros nm H line rest Hr. destruct nm as [|c r]; [discriminate|].
    cbn in H. repeat (apply andb_true_iff in H; destruct H as [H ?]).
    repeat match goal with H : negb _ = true |- _ => apply negb_true_iff in H end.
    pose proof (ident_start_not_digit _ H1) as Hd.
    assert (E62 : (c =? 62) = false).
    { destruct (c =? 62) eqn:E; auto. apply N.eqb_eq in E. subst. discriminate. }
    cbn [app lexm]. change (lstep U LStart line 45) with (@nil token, LHyphen, line). cbn [app lexm lstep].
    rewrite E62, Hd. unfold emit_then, lstart. rewrite H, H3, H2, H1. cbn [app].
    rewrite lexm_ident_run by auto. rewrite N.add_0_r.
    rewrite (lexm_flush U (LIdent ([c] ++ r)) line _ rest eq_refl Hr). reflexivity.
  Qed.

  Lemma Lx_range_end : forall g, g < num_glyphs F ->
    Lx (range_end F g) (fun l => [t_hyphen l; name_tok F g l]) 0.
  Proof.
    intros g Hg. unfold range_end, name_tok. rewrite name_of_raw.
    destruct (raw_name F g) as [|c r] eqn:E; cbn [is_nil].
    - destruct (digits_head g) as (c & r & Ed & Hc & Hr). rewrite Ed. rewrite Hc. rewrite <- Ed.
      change (45 :: 32 :: digits g) with ([45; 32] ++ digits g).
      eapply Lx_ext; [apply LxH_app_Lx; [apply LxH_hy_sp|apply Lx_digits]| |reflexivity].
      intros l. cbn. rewrite N.add_0_r. reflexivity.
    - assert (W : wf_name U (c :: r) = true) by (rewrite <- E; apply raw_name_wf; auto; congruence).
      assert (Hd : is_adigit c = false).
      { apply ident_start_not_digit. cbn in W. repeat (apply andb_true_iff in W; destruct W as [W ?]). auto. }
      rewrite Hd. apply Lx_hy_ident. exact W.
  Qed.

  Lemma rest_ok_range_end : forall g, rest_ok (range_end F g).
  Proof.
    intros g. unfold range_end. destruct (name_of F g) as [|c r]; [reflexivity|].
    destruct (is_adigit c); reflexivity.
  Qed.

  Definition sep_first (sep : list N) (first : bool) : Prop :=
    (sep = [32] /\ first = true) \/ (sep = k_comma /\ first = false).

  Lemma LxH_sep : forall sep first, sep_first sep first ->
    LxH sep (fun l => if first then [] else [t_comma l]) 0 /\ rest_ok sep /\ sep <> [].
  Proof.
    intros sep first [[? ?]|[? ?]]; subst; repeat split; try discriminate.
    - apply LxH_sp.
    - apply LxH_comma.
  Qed.

  Definition pair_ok (p : N * N) : Prop := fst p < num_glyphs F /\ snd p < num_glyphs F.

  Lemma Lx_seq1 : forall fuel mm sep first, sep_first sep first -> Forall pair_ok mm ->
    Lx (explain_seq1 U F fuel mm sep) (seq1_toks U F fuel mm first) 0
    /\ rest_ok (explain_seq1 U F fuel mm sep).
  Proof.
    induction fuel as [|k IH]; intros mm sep first Hs Hm.
    - split; [apply Lx_nil|exact I].
    - destruct mm as [|[f t] rest]; [split; [apply Lx_nil|exact I]|].
      destruct (LxH_sep _ _ Hs) as (Hsep & Hsr & Hsn).
      inversion Hm as [|? ? Hft Hrest]; subst. destruct Hft as [Hf Ht]. cbn [fst snd] in Hf, Ht.
      cbn [explain_seq1 seq1_toks].
      set (rl := if (2 <? length ((f, t) :: rest))%nat then S (run_len f rest (delta16 f t)) else 1%nat).
      destruct (2 <? rl)%nat eqn:Erl.
      + destruct (nth (rl - 1) ((f, t) :: rest) (f, t)) as [fl tl] eqn:En.
        assert (Hn : pair_ok (fl, tl)).
        { rewrite <- En. destruct (nth_in_or_default (rl - 1) ((f, t) :: rest) (f, t)) as [Hin|Hd].
          - rewrite Forall_forall in Hm. apply Hm. exact Hin.
          - rewrite Hd. split; auto. }
        destruct Hn as [Hfl Htl]. cbn [fst snd] in Hfl, Htl.
        assert (Hsk : Forall pair_ok (skipn rl ((f, t) :: rest))).
        { apply Forall_forall. intros x Hx. rewrite Forall_forall in Hm. apply Hm.
          rewrite <- (firstn_skipn rl). apply in_or_app. right. exact Hx. }
        destruct (IH (skipn rl ((f, t) :: rest)) k_comma false (or_intror (conj eq_refl eq_refl)) Hsk) as [IH1 IH2].
        split.
        * eapply Lx_ext.
          -- apply LxH_app_Lx; [exact Hsep|].
             apply Lx_app; [apply Lx_name; exact Hf| |apply rest_ok_app; [apply rest_ok_range_end|reflexivity]].
             apply Lx_app; [apply Lx_range_end; exact Hfl| |reflexivity].
             apply LxH_app_Lx; [apply LxH_arrow|].
             apply Lx_app; [apply Lx_name; exact Ht| |apply rest_ok_app; [apply rest_ok_range_end|exact IH2]].
             apply Lx_app; [apply Lx_range_end; exact Htl|exact IH1|exact IH2].
          -- intros l. cbn. rewrite !N.add_0_r. destruct first; reflexivity.
          -- reflexivity.
        * destruct sep; [congruence|]. exact Hsr.
      + destruct (IH rest k_comma false (or_intror (conj eq_refl eq_refl)) Hrest) as [IH1 IH2].
        split.
        * eapply Lx_ext.
          -- apply LxH_app_Lx; [exact Hsep|].
             apply Lx_app; [apply (Lx_glyph_list [f]); cbn; rewrite andb_true_r; lia| |reflexivity].
             apply LxH_app_Lx; [apply LxH_arrow|].
             apply Lx_app; [apply (Lx_glyph_list [t]); cbn; rewrite andb_true_r; lia|exact IH1|exact IH2].
          -- intros l. cbn. rewrite !N.add_0_r. destruct first; reflexivity.
          -- reflexivity.
        * destruct sep; [congruence|]. exact Hsr.
  Qed.
End Explain.
