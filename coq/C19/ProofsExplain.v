(* C19/ProofsExplain.v — the lexer reads the text written by M_explain as the
   item stream of Render.v. *)
From Coq Require Import List NArith ZArith Bool Arith Lia ZifyBool ZifyNat ZifyN.
From Gen Require Import C19.
From C19 Require Import Model Wf Util ProofsLex Render ProofsNested.
Import ListNotations.
Import K.
Local Open Scope N_scope.

Arguments digits : simpl never.
Arguments name_of : simpl never.
Arguments digits_signed : simpl never.

Section Explain.
  Variable U : uclass.
  Variable F : font.
  Hypothesis HF : font_wf U F = true.

  Notation Lx := (Lx U).
  Notation LxH := (LxH U).
  Notation rest_ok := (rest_ok U).

  (* ---- literals ---- *)
  Ltac lit := intros line rest; cbn; rewrite ?N.add_0_r; reflexivity.

  Lemma LxH_sp : LxH [32] (fun _ => []) 0.           Proof. lit. Qed.
  Lemma LxH_arrow : LxH k_arrow (fun l => [t_arrow l]) 0.   Proof. lit. Qed.
  Lemma LxH_comma : LxH k_comma (fun l => [t_comma l]) 0.   Proof. lit. Qed.
  Lemma LxH_lbr : LxH [91] (fun l => [tk TLBr [91] l]) 0.   Proof. lit. Qed.
  Lemma LxH_rbr : LxH [93] (fun l => [tk TRBr [93] l]) 0.   Proof. lit. Qed.
  Lemma LxH_colon : LxH [58] (fun l => [tk TColon [58] l]) 0.   Proof. lit. Qed.
  Lemma LxH_or : LxH k_or (fun l => [tk TOr [124; 124] l; tk TEOL [10] l]) 1.   Proof. lit. Qed.
  Lemma LxH_nl : LxH [10] (fun l => [tk TEOL [10] l]) 1.   Proof. lit. Qed.
  Lemma LxH_hy_sp : LxH [45; 32] (fun l => [t_hyphen l]) 0.   Proof. lit. Qed.

  Lemma hs_sp : hardsep U 32 = true. Proof. reflexivity. Qed.
  Lemma hs_comma : hardsep U 44 = true. Proof. reflexivity. Qed.
  Lemma hs_hy : hardsep U 45 = true. Proof. reflexivity. Qed.
  Lemma hs_plus : hardsep U 43 = true. Proof. reflexivity. Qed.
  Lemma hs_rbr : hardsep U 93 = true. Proof. reflexivity. Qed.
  Lemma hs_colon : hardsep U 58 = true. Proof. reflexivity. Qed.
  Lemma hs_nl : hardsep U 10 = true. Proof. reflexivity. Qed.

  (* ---- facts about the font ---- *)
  Lemma HF_all : num_glyphs F <= 65535 /\ names_ok U F = true /\ names_distinct F = true /\ cmap_ok F = true.
  Proof.
    pose proof HF as H. unfold font_wf in H. repeat (apply andb_true_iff in H; destruct H as [H ?]).
    repeat split; auto. lia.
  Qed.
  Lemma HF_num : num_glyphs F <= 65535.  Proof. apply HF_all. Qed.
  Lemma HF_names : names_ok U F = true.  Proof. apply HF_all. Qed.
  Lemma HF_distinct : names_distinct F = true.  Proof. apply HF_all. Qed.
  Lemma HF_cmap : cmap_ok F = true.  Proof. apply HF_all. Qed.

  Lemma raw_name_wf : forall g, g < num_glyphs F -> raw_name F g <> [] -> wf_name U (raw_name F g) = true.
  Proof.
    intros g Hg Hn. pose proof HF_names as H. unfold names_ok in H. rewrite forallb_forall in H.
    unfold raw_name in *. specialize (H (nth (N.to_nat g) (f_names F) [])).
    assert (I : In (nth (N.to_nat g) (f_names F) []) (f_names F)).
    { apply nth_In. unfold num_glyphs in Hg. lia. }
    specialize (H I). apply orb_true_iff in H. destruct H as [H|H]; auto.
    destruct (nth (N.to_nat g) (f_names F) []); [congruence|discriminate].
  Qed.

  Lemma name_of_raw : forall g, name_of F g = if is_nil (raw_name F g) then digits g else raw_name F g.
  Proof. reflexivity. Qed.

  Lemma Lx_name : forall g, g < num_glyphs F -> Lx (name_of F g) (fun l => [name_tok F g l]) 0.
  Proof.
    intros g Hg. rewrite name_of_raw. unfold name_tok.
    destruct (raw_name F g) as [|c r] eqn:E; cbn [is_nil].
    - apply Lx_digits.
    - apply Lx_ident. rewrite <- E. apply raw_name_wf; auto. congruence.
  Qed.

  (* ---- the cmap side ---- *)
  Lemma mapped_rune_l_spec : forall cm g acc r,
    mapped_rune_l U cm g acc = Some r ->
    acc = Some r \/ (In (r, g) cm /\ g <> 0 /\ is_print U r = true).
  Proof.
    induction cm as [|[r' g'] cm IH]; intros g acc r H; cbn in H; auto.
    apply IH in H. destruct H as [H|H].
    - destruct ((g' =? g) && negb (g' =? 0) && is_print U r') eqn:E; auto.
      inversion H; subst. repeat (apply andb_true_iff in E; destruct E as [E ?]).
      apply N.eqb_eq in E. apply negb_true_iff in H1. apply N.eqb_neq in H1. subst.
      right. repeat split; auto. left. reflexivity.
    - right. destruct H as (H1 & H2 & H3). repeat split; auto. right. exact H1.
  Qed.

  Lemma mapped_rune_spec : forall g r, mapped_rune U F g = Some r ->
    In (r, g) (f_cmap F) /\ g <> 0 /\ is_print U r = true.
  Proof.
    intros g r H. unfold mapped_rune in H. apply mapped_rune_l_spec in H.
    destruct H as [H|H]; [discriminate|exact H].
  Qed.

  Lemma print_str_rune : forall r, is_print U r = true -> str_rune r = true.
  Proof.
    intros r H. unfold str_rune. unfold is_print, in_range in H.
    destruct (r <? 128) eqn:E; lia.
  Qed.

  Lemma mapped_quoted : forall g,
    mapped U F g = match mapped_rune U F g with Some r => quoted [r] | None => [] end.
  Proof.
    intros g. unfold mapped, quoted. destruct (mapped_rune U F g); auto.
    cbn [map concat]. rewrite app_nil_r. reflexivity.
  Qed.

  Lemma Lx_glyph : forall g, g < num_glyphs F -> Lx (write_glyph U F g) (fun l => [glyph_tok U F g l]) 0.
  Proof.
    intros g Hg. unfold write_glyph, glyph_tok.
    destruct (list_eqb (34 :: name_of F g ++ [34]) (mapped U F g)); [apply Lx_name; auto|].
    destruct (is_nil (mapped U F g)) eqn:E; cbn [negb]; [apply Lx_name; auto|].
    rewrite mapped_quoted in *. destruct (mapped_rune U F g) as [r|] eqn:Er; [|discriminate].
    apply LxH_Lx. apply LxH_quoted. cbn. rewrite andb_true_r.
    apply print_str_rune. apply mapped_rune_spec in Er. tauto.
  Qed.

  (* pieces joined by single spaces *)
  Lemma Lx_join : forall (ps : list (list N * (N -> list token))),
    ps <> [] -> Forall (fun p => Lx (fst p) (snd p) 0) ps ->
    Lx (join_sp (map fst ps)) (fun l => concat (map (fun p => snd p l) ps)) 0.
  Proof.
    induction ps as [|p ps IH]; intros Hn Hall; [congruence|].
    inversion Hall as [|? ? Hp Hps]; subst. destruct ps as [|q ps].
    - cbn. eapply Lx_ext; [exact Hp| |reflexivity]. intros l. rewrite app_nil_r. reflexivity.
    - change (join_sp (map fst (p :: q :: ps))) with (fst p ++ ([32] ++ join_sp (map fst (q :: ps)))).
      eapply Lx_ext.
      + apply Lx_app; [exact Hp| |exact hs_sp].
        apply LxH_app_Lx; [apply LxH_sp|]. apply IH; [discriminate|exact Hps].
      + intros l. cbn. rewrite !N.add_0_r. reflexivity.
      + reflexivity.
  Qed.

  Lemma gids_ok_forall : forall gs, gids_ok F gs = true -> Forall (fun g => g < num_glyphs F) gs.
  Proof.
    intros gs H. unfold gids_ok in H. rewrite forallb_forall in H. apply Forall_forall.
    intros x Hx. specialize (H x Hx). lia.
  Qed.

  Lemma Lx_names : forall gs, gs <> [] -> Forall (fun g => g < num_glyphs F) gs ->
    Lx (join_sp (map (name_of F) gs)) (fun l => map (fun g => name_tok F g l) gs) 0.
  Proof.
    intros gs Hn Hg.
    pose (ps := map (fun g => (name_of F g, fun l => [name_tok F g l])) gs).
    assert (E1 : map fst ps = map (name_of F) gs).
    { unfold ps. rewrite map_map. reflexivity. }
    assert (E2 : forall l, concat (map (fun p => snd p l) ps) = map (fun g => name_tok F g l) gs).
    { intros l. unfold ps. rewrite map_map. cbn. clear. induction gs; cbn; auto. f_equal; auto. }
    rewrite <- E1. eapply Lx_ext; [|exact E2|reflexivity]. apply Lx_join.
    - unfold ps. destruct gs; [congruence|discriminate].
    - unfold ps. apply Forall_forall. intros p Hp. apply in_map_iff in Hp.
      destruct Hp as (g & Eg & Hin). subst p. cbn. apply Lx_name. rewrite Forall_forall in Hg. auto.
  Qed.

  Definition body_of (g : N) : list N :=
    match mapped_rune U F g with Some r => quote_body r | None => [] end.

  Lemma bodies_quoted : forall gs,
    forallb (fun g => negb (is_nil (mapped U F g))) gs = true ->
    exists rs, concat (map body_of gs) = concat (map quote_body rs) /\ forallb str_rune rs = true
               /\ map (fun g => mapped_rune U F g) gs = map Some rs.
  Proof.
    induction gs as [|g gs IH]; intros H.
    - exists []. auto.
    - cbn [forallb] in H. apply andb_true_iff in H. destruct H as [H1 H2]. destruct (IH H2) as (rs & E & S & M).
      unfold mapped in H1. destruct (mapped_rune U F g) as [r|] eqn:Er; [|discriminate].
      exists (r :: rs). cbn [map concat forallb]. split; [|split].
      + unfold body_of at 1. rewrite Er. rewrite E. reflexivity.
      + rewrite S, andb_true_r. apply print_str_rune. apply mapped_rune_spec in Er. tauto.
      + rewrite Er, M. reflexivity.
  Qed.

  Lemma Lx_glyph_list : forall gs, gids_ok F gs = true ->
    Lx (write_glyph_list U F gs) (gl_toks U F gs) 0.
  Proof.
    intros gs Hg. pose proof (gids_ok_forall _ Hg) as Hf.
    destruct gs as [|g [|g' gs]].
    - apply Lx_nil.
    - cbn. inversion Hf; subst. apply Lx_glyph; auto.
    - unfold write_glyph_list, gl_toks. cbv beta iota.
      destruct (forallb (fun g0 => negb (is_nil (mapped U F g0))) (g :: g' :: gs)) eqn:E.
      + destruct (bodies_quoted _ E) as (rs & Eq & S & _). fold body_of.
        rewrite Eq. apply LxH_Lx. apply (LxH_quoted U rs S).
      + apply Lx_names; [discriminate|exact Hf].
  Qed.

  Lemma rest_ok_glyph_set : forall gs, rest_ok (write_glyph_set U F gs).
  Proof. intros. reflexivity. Qed.

  Lemma LxH_glyph_set : forall gs, gids_ok F gs = true ->
    LxH (write_glyph_set U F gs) (gs_toks U F gs) 0.
  Proof.
    intros gs Hg. unfold write_glyph_set, gs_toks.
    change (91 :: write_glyph_list U F gs ++ [93]) with ([91] ++ (write_glyph_list U F gs ++ [93])).
    eapply LxH_ext.
    - apply LxH_app; [apply LxH_lbr|].
      apply Lx_app_LxH; [apply Lx_glyph_list; auto|apply LxH_rbr|exact hs_rbr|discriminate].
    - intros l. cbn. rewrite !N.add_0_r. reflexivity.
    - reflexivity.
  Qed.

  (* ---- lookup flags: checked against the regenerated tables ---- *)
  Lemma flags_cases : forall fl, flags_ok fl = true ->
    fl = 0 \/ fl = 2 \/ fl = 4 \/ fl = 6 \/ fl = 8 \/ fl = 10 \/ fl = 12 \/ fl = 14.
  Proof.
    intros fl H. unfold flags_ok in H. cbn [existsb] in H.
    repeat (apply orb_true_iff in H; destruct H as [H|H]); try discriminate; apply N.eqb_eq in H; tauto.
  Qed.

  Lemma Lx_flags : forall fl, flags_ok fl = true -> Lx (explain_flags fl) (flag_toks fl) 0.
  Proof.
    intros fl H. apply flags_cases in H.
    repeat (destruct H as [H|H]); subst fl; intros line rest Hr; cbn;
      try match goal with |- context [lexm U (LIdent ?a) ?l rest] =>
            rewrite (lexm_flush U (LIdent a) l _ rest eq_refl Hr) end;
      rewrite ?N.add_0_r; reflexivity.
  Qed.

  Lemma rest_ok_flags : forall fl, flags_ok fl = true -> rest_ok (explain_flags fl).
  Proof.
    intros fl H. apply flags_cases in H. repeat (destruct H as [H|H]); subst fl; reflexivity.
  Qed.

  (* ---- value records ---- *)
  Lemma Lx_kw_signed : forall kw z, wf_name U kw = true ->
    Lx (kw ++ digits_signed z) (fun l => [tk TIdent kw l; tk TInt (digits_signed z) l]) 0.
  Proof.
    intros kw z Hk. eapply Lx_ext.
    - apply Lx_app; [apply Lx_ident; exact Hk|apply Lx_signed|].
      destruct z; reflexivity.
    - intros l. cbn. rewrite N.add_0_r. reflexivity.
    - reflexivity.
  Qed.

  Definition vpart (kw : list N) (z : Z) : list N * (N -> list token) :=
    (kw ++ digits_signed z, fun l => [tk TIdent kw l; tk TInt (digits_signed z) l]).

  Lemma Lx_vparts : forall ps, ps <> [] ->
    Forall (fun p => exists kw z, p = vpart kw z /\ wf_name U kw = true) ps ->
    Lx (join_sp (map fst ps)) (fun l => concat (map (fun p => snd p l) ps)) 0.
  Proof.
    intros ps Hn H. apply Lx_join; auto. eapply Forall_impl; [|exact H].
    intros p (kw & z & E & Hk). subst p. cbn. apply Lx_kw_signed; auto.
  Qed.

  Lemma Lx_value : forall a, Lx (write_value_record a) (value_toks a) 0.
  Proof.
    intros [v|]; [|apply (Lx_ident U k_us); reflexivity].
    unfold write_value_record, value_toks.
    assert (Kx : wf_name U k_x = true) by reflexivity.
    assert (Ky : wf_name U k_y = true) by reflexivity.
    assert (Kd : wf_name U k_dx = true) by reflexivity.
    destruct (v_x v =? 0)%Z, (v_y v =? 0)%Z, (v_dx v =? 0)%Z; cbn [app is_nil].
    - apply (Lx_ident U k_us); reflexivity.
    - eapply Lx_ext; [apply (Lx_vparts [vpart k_dx (v_dx v)])| |reflexivity];
        [discriminate|repeat constructor; eauto|intros l; reflexivity].
    - eapply Lx_ext; [apply (Lx_vparts [vpart k_y (v_y v)])| |reflexivity];
        [discriminate|repeat constructor; eauto|intros l; reflexivity].
    - eapply Lx_ext; [apply (Lx_vparts [vpart k_y (v_y v); vpart k_dx (v_dx v)])| |reflexivity];
        [discriminate|repeat constructor; eauto|intros l; reflexivity].
    - eapply Lx_ext; [apply (Lx_vparts [vpart k_x (v_x v)])| |reflexivity];
        [discriminate|repeat constructor; eauto|intros l; reflexivity].
    - eapply Lx_ext; [apply (Lx_vparts [vpart k_x (v_x v); vpart k_dx (v_dx v)])| |reflexivity];
        [discriminate|repeat constructor; eauto|intros l; reflexivity].
    - eapply Lx_ext; [apply (Lx_vparts [vpart k_x (v_x v); vpart k_y (v_y v)])| |reflexivity];
        [discriminate|repeat constructor; eauto|intros l; reflexivity].
    - eapply Lx_ext; [apply (Lx_vparts [vpart k_x (v_x v); vpart k_y (v_y v); vpart k_dx (v_dx v)])| |reflexivity];
        [discriminate|repeat constructor; eauto|intros l; reflexivity].
  Qed.

  (* ---- GSUB1 mappings with ranges ---- *)
  Lemma ident_start_not_digit : forall c, ident_start U c = true -> is_adigit c = false.
  Proof.
    intros c H. destruct (is_adigit c) eqn:E; auto. apply is_adigit_spec in E.
    unfold ident_start, is_letter, in_range in H. assert (L : (c <? 128) = true) by lia.
    rewrite L in H. lia.
  Qed.

  Lemma Lx_hy_ident : forall nm, wf_name U nm = true ->
    Lx (45 :: nm) (fun l => [t_hyphen l; tk TIdent nm l]) 0.
  Proof.
    intros nm H line rest Hr. destruct nm as [|c r]; [discriminate|].
    cbn in H. repeat (apply andb_true_iff in H; destruct H as [H ?]).
    repeat match goal with H : negb _ = true |- _ => apply negb_true_iff in H end.
    pose proof (ident_start_not_digit _ H1) as Hd.
    assert (E62 : (c =? 62) = false).
    { destruct (c =? 62) eqn:E; auto. apply N.eqb_eq in E. subst. discriminate. }
    cbn [app lexm]. change (lstep U LStart line 45) with (@nil token, LHyphen, line). cbn [app lexm lstep].
    rewrite E62, Hd. unfold emit_then, lstart. rewrite H, H3, H2, H1. cbn [app].
    rewrite lexm_ident_run by auto. rewrite N.add_0_r.
    rewrite (lexm_flush U (LIdent ([c] ++ r)) line _ rest eq_refl Hr). reflexivity.
  Qed.

  Lemma Lx_range_end : forall g, g < num_glyphs F ->
    Lx (range_end F g) (fun l => [t_hyphen l; name_tok F g l]) 0.
  Proof.
    intros g Hg. unfold range_end, name_tok. rewrite name_of_raw.
    destruct (raw_name F g) as [|c r] eqn:E; cbn [is_nil].
    - destruct (digits_head g) as (c & r & Ed & Hc & Hr). rewrite Ed. rewrite Hc. rewrite <- Ed.
      change (45 :: 32 :: digits g) with ([45; 32] ++ digits g).
      eapply Lx_ext; [apply LxH_app_Lx; [apply LxH_hy_sp|apply Lx_digits]| |reflexivity].
      intros l. cbn. rewrite N.add_0_r. reflexivity.
    - assert (W : wf_name U (c :: r) = true) by (rewrite <- E; apply raw_name_wf; auto; congruence).
      assert (Hd : is_adigit c = false).
      { apply ident_start_not_digit. cbn in W. repeat (apply andb_true_iff in W; destruct W as [W ?]). auto. }
      rewrite Hd. apply Lx_hy_ident. exact W.
  Qed.

  Lemma rest_ok_range_end : forall g, rest_ok (range_end F g).
  Proof.
    intros g. unfold range_end. destruct (name_of F g) as [|c r]; [reflexivity|].
    destruct (is_adigit c); reflexivity.
  Qed.

  Definition sep_first (sep : list N) (first : bool) : Prop :=
    (sep = [32] /\ first = true) \/ (sep = k_comma /\ first = false).

  Lemma LxH_sep : forall sep first, sep_first sep first ->
    LxH sep (fun l => if first then [] else [t_comma l]) 0 /\ rest_ok sep /\ sep <> [].
  Proof.
    intros sep first [[? ?]|[? ?]]; subst; repeat split; try discriminate.
    - apply LxH_sp.
    - apply LxH_comma.
  Qed.

  Definition pair_ok (p : N * N) : Prop := fst p < num_glyphs F /\ snd p < num_glyphs F.

  Lemma Lx_seq1 : forall fuel mm sep first, sep_first sep first -> Forall pair_ok mm ->
    Lx (explain_seq1 U F fuel mm sep) (seq1_toks U F fuel mm first) 0
    /\ rest_ok (explain_seq1 U F fuel mm sep).
  Proof.
    induction fuel as [|k IH]; intros mm sep first Hs Hm.
    - split; [apply Lx_nil|exact I].
    - destruct mm as [|[f t] rest]; [split; [apply Lx_nil|exact I]|].
      destruct (LxH_sep _ _ Hs) as (Hsep & Hsr & Hsn).
      inversion Hm as [|? ? Hft Hrest]; subst. destruct Hft as [Hf Ht]. cbn [fst snd] in Hf, Ht.
      cbn [explain_seq1 seq1_toks].
      set (rl := if (2 <? length ((f, t) :: rest))%nat then S (run_len f rest (delta16 f t)) else 1%nat).
      destruct (2 <? rl)%nat eqn:Erl.
      + destruct (nth (rl - 1) ((f, t) :: rest) (f, t)) as [fl tl] eqn:En.
        assert (Hn : pair_ok (fl, tl)).
        { rewrite <- En. destruct (nth_in_or_default (rl - 1) ((f, t) :: rest) (f, t)) as [Hin|Hd].
          - rewrite Forall_forall in Hm. apply Hm. exact Hin.
          - rewrite Hd. split; auto. }
        destruct Hn as [Hfl Htl]. cbn [fst snd] in Hfl, Htl.
        assert (Hsk : Forall pair_ok (skipn rl ((f, t) :: rest))).
        { apply Forall_forall. intros x Hx. rewrite Forall_forall in Hm. apply Hm.
          rewrite <- (firstn_skipn rl). apply in_or_app. right. exact Hx. }
        destruct (IH (skipn rl ((f, t) :: rest)) k_comma false (or_intror (conj eq_refl eq_refl)) Hsk) as [IH1 IH2].
        split.
        * eapply Lx_ext.
          -- apply LxH_app_Lx; [exact Hsep|].
             apply Lx_app; [apply Lx_name; exact Hf| |apply rest_ok_app; [apply rest_ok_range_end|reflexivity]].
             apply Lx_app; [apply Lx_range_end; exact Hfl| |reflexivity].
             apply LxH_app_Lx; [apply LxH_arrow|].
             apply Lx_app; [apply Lx_name; exact Ht| |apply rest_ok_app; [apply rest_ok_range_end|exact IH2]].
             apply Lx_app; [apply Lx_range_end; exact Htl|exact IH1|exact IH2].
          -- intros l. cbn. rewrite !N.add_0_r. destruct first; reflexivity.
          -- reflexivity.
        * destruct sep; [congruence|]. exact Hsr.
      + destruct (IH rest k_comma false (or_intror (conj eq_refl eq_refl)) Hrest) as [IH1 IH2].
        split.
        * eapply Lx_ext.
          -- apply LxH_app_Lx; [exact Hsep|].
             apply Lx_app; [apply (Lx_glyph_list [f]); cbn; rewrite andb_true_r; lia| |reflexivity].
             apply LxH_app_Lx; [apply LxH_arrow|].
             apply Lx_app; [apply (Lx_glyph_list [t]); cbn; rewrite andb_true_r; lia|exact IH1|exact IH2].
          -- intros l. cbn. rewrite !N.add_0_r. destruct first; reflexivity.
          -- reflexivity.
        * destruct sep; [congruence|]. exact Hsr.
  Qed.

  (* ---- GSUB4 mappings ---- *)
  Definition lig_ok (p : N * (list N * N)) : Prop :=
    gids_ok F (fst p :: fst (snd p)) = true /\ snd (snd p) < num_glyphs F.

  Lemma Lx_seq4 : forall mm sep first, sep_first sep first -> Forall lig_ok mm ->
    Lx (explain_seq4 U F mm sep) (seq4_toks U F mm first) 0 /\ rest_ok (explain_seq4 U F mm sep).
  Proof.
    induction mm as [|[key [comps out]] rest IH]; intros sep first Hs Hm.
    - split; [apply Lx_nil|exact I].
    - destruct (LxH_sep _ _ Hs) as (Hsep & Hsr & Hsn).
      inversion Hm as [|? ? Hk Hrest]; subst. destruct Hk as [Hk Ho]. cbn [fst snd] in Hk, Ho.
      destruct (IH k_comma false (or_intror (conj eq_refl eq_refl)) Hrest) as [IH1 IH2].
      cbn [explain_seq4 seq4_toks]. split.
      + eapply Lx_ext.
        * apply LxH_app_Lx; [exact Hsep|].
          apply Lx_app; [apply Lx_glyph_list; exact Hk| |reflexivity].
          apply LxH_app_Lx; [apply LxH_arrow|].
          apply Lx_app; [apply (Lx_glyph_list [out]); cbn; rewrite andb_true_r; lia|exact IH1|exact IH2].
        * intros l. cbn [app]. rewrite !N.add_0_r. reflexivity.
        * reflexivity.
      + destruct sep; [congruence|]. exact Hsr.
  Qed.

  (* ---- "g -> X" entries ---- *)
  Lemma Lx_entries : forall {B} (w : B -> list N) (wt : B -> N -> list token) (P : B -> Prop),
    (forall x, P x -> Lx (w x) (wt x) 0) ->
    forall es first, Forall (fun e => fst e < num_glyphs F /\ P (snd e)) es ->
    Lx (explain_entries U F w es first) (entries_toks U F wt es first) 0
    /\ rest_ok (explain_entries U F w es first).
  Proof.
    intros B w wt P Hw. induction es as [|[g x] es IH]; intros first He.
    - split; [apply Lx_nil|exact I].
    - inversion He as [|? ? Hg Hes]; subst. destruct Hg as [Hg Hx]. cbn [fst snd] in Hg, Hx.
      destruct (IH false Hes) as [IH1 IH2]. cbn [explain_entries entries_toks]. split.
      + eapply Lx_ext.
        * apply (LxH_app_Lx U (if first then [32] else k_comma) (fun l => if first then [] else [t_comma l]) 0);
            [destruct first; [apply LxH_sp|apply LxH_comma]|].
          apply Lx_app; [apply Lx_glyph; exact Hg| |reflexivity].
          apply LxH_app_Lx; [apply LxH_arrow|].
          apply Lx_app; [apply Hw; exact Hx|exact IH1|exact IH2].
        * intros l. cbn [app]. rewrite !N.add_0_r. destruct first; reflexivity.
        * reflexivity.
      + destruct first; reflexivity.
  Qed.

  (* ---- subtables ---- *)
  Ltac split_wf H := repeat (apply andb_true_iff in H; destruct H as [H ?]).

  Lemma adigit_ident_char : forall c, is_adigit c = true -> ident_char U c = true.
  Proof.
    intros c H. unfold ident_char, is_udigit. pose proof H as H'. apply is_adigit_spec in H'.
    assert (L : (c <? 128) = true) by lia. rewrite L, H. apply orb_true_r.
  Qed.

  (* ---- contextual subtables (GSUB5) ---- *)
  Lemma LxH_slash : LxH [47] (fun l => [t_slash l]) 0.   Proof. lit. Qed.
  Lemma LxH_sp_colon : LxH [32; 58] (fun l => [t_colon l]) 0.   Proof. lit. Qed.
  Lemma LxH_nocls : LxH [32; 58; 58] (fun l => [t_colon l; t_colon l]) 0.   Proof. lit. Qed.
  Lemma LxH_colon_eq : LxH [58; 32; 61; 32] (fun l => [t_colon l; tk TEqual [61] l]) 0.   Proof. lit. Qed.
  Lemma LxH_nl_tab : LxH [10; 9] (fun l => [tk TEOL [10] l]) 1.   Proof. lit. Qed.
  Lemma LxH_comma1 : LxH [44] (fun l => [t_comma l]) 0.   Proof. lit. Qed.
  Lemma hs_slash : hardsep U 47 = true. Proof. reflexivity. Qed.

  Lemma wf_cname : forall i, wf_name U (cname i) = true.
  Proof.
    intros i. unfold cname. cbn. apply forallb_forall. intros c Hc.
    apply adigit_ident_char. pose proof (digits_all i) as Hd. rewrite forallb_forall in Hd. auto.
  Qed.

  Lemma LxH_class : forall c, LxH (if c =? 0 then [32; 58; 58] else [32; 58; 99] ++ digits c ++ [58]) (class_toks c) 0.
  Proof.
    intros c. unfold class_toks. destruct (c =? 0); [apply LxH_nocls|].
    change ([32; 58; 99] ++ digits c ++ [58]) with ([32; 58] ++ (cname c ++ [58])).
    eapply LxH_ext.
    - apply LxH_app; [apply LxH_sp_colon|].
      apply Lx_app_LxH; [apply Lx_ident; apply wf_cname|apply LxH_colon|exact hs_colon|discriminate].
    - intros l. cbn. rewrite !N.add_0_r. reflexivity.
    - reflexivity.
  Qed.

  Lemma LxH_class_list : forall cs,
    LxH (write_class_list cs) (fun l => concat (map (fun x => class_toks x l) cs)) 0.
  Proof.
    induction cs as [|c cs IH]; [apply LxH_nil|].
    unfold write_class_list in *. cbn [map concat]. eapply LxH_ext.
    - apply LxH_app; [apply LxH_class|exact IH].
    - intros l. cbn. rewrite !N.add_0_r. reflexivity.
    - reflexivity.
  Qed.

  Definition rule_ok (r : list N * actions) : Prop := gids_ok F (fst r) = true.

  Lemma Lx_ctx1 : forall mm first,
    Forall (fun e => fst e < num_glyphs F /\ gids_ok F (fst (snd e)) = true) mm ->
    Lx (explain_ctx1 U F mm first) (ctx1_toks U F mm first) 0 /\ rest_ok (explain_ctx1 U F mm first).
  Proof.
    induction mm as [|[g [inp acts]] mm IH]; intros first Hm.
    - split; [apply Lx_nil|exact I].
    - inversion Hm as [|? ? Hg Hmm]; subst. destruct Hg as [Hg Hi]. cbn [fst snd] in Hg, Hi.
      destruct (IH false Hmm) as [IH1 IH2]. cbn [explain_ctx1 ctx1_toks]. split.
      + eapply Lx_ext.
        * apply (LxH_app_Lx U (if first then [32] else k_comma) (fun l => if first then [] else [t_comma l]) 0);
            [destruct first; [apply LxH_sp|apply LxH_comma]|].
          apply Lx_app; [apply (Lx_glyph_list (g :: inp)); unfold gids_ok in *; cbn [forallb];
                         rewrite Hi; assert (E : (g <? num_glyphs F) = true) by lia; rewrite E; reflexivity
                        | |reflexivity].
          apply LxH_app_Lx; [apply LxH_arrow|].
          apply Lx_app; [apply Lx_nested|exact IH1|exact IH2].
        * intros l. cbn [app]. rewrite !N.add_0_r. destruct first; reflexivity.
        * reflexivity.
      + destruct first; reflexivity.
  Qed.

  Lemma Lx_ctx2 : forall mm first,
    Lx (explain_ctx2 mm first) (ctx2_toks mm first) 0 /\ (first = false -> rest_ok (explain_ctx2 mm first)).
  Proof.
    induction mm as [|[c [inp acts]] mm IH]; intros first.
    - split; [apply Lx_nil|intros; exact I].
    - destruct (IH false) as [IH1 IH2]. specialize (IH2 eq_refl). cbn [explain_ctx2 ctx2_toks]. split.
      + eapply Lx_ext.
        * apply (LxH_app_Lx U (if first then [] else [44]) (fun l => if first then [] else [t_comma l]) 0);
            [destruct first; [apply LxH_nil|apply LxH_comma1]|].
          apply LxH_app_Lx; [apply LxH_class_list|].
          apply LxH_app_Lx; [apply LxH_arrow|].
          apply Lx_app; [apply Lx_nested|exact IH1|exact IH2].
        * intros l. cbn [app]. rewrite !N.add_0_r. destruct first; reflexivity.
        * reflexivity.
      + intros E. subst. reflexivity.
  Qed.

  Lemma LxH_defcls : forall kw classes i, wf_name U kw = true ->
    Forall (fun gl => gids_ok F gl = true) classes ->
    LxH (define_classes U F kw classes i) (defcls_toks U F kw classes i) (N.of_nat (length classes)).
  Proof.
    intros kw classes. induction classes as [|gl r IH]; intros i Hk Hc; [apply LxH_nil|].
    inversion Hc as [|? ? Hg Hr]; subst. cbn [define_classes defcls_toks].
    change (32 :: kw ++ [32; 58; 99] ++ digits i ++ [58; 32; 61; 32] ++ write_glyph_set U F gl ++ [10; 9] ++ define_classes U F kw r (i + 1))
      with ([32] ++ (kw ++ ([32; 58] ++ (cname i ++ ([58; 32; 61; 32] ++ (write_glyph_set U F gl ++ ([10; 9] ++ define_classes U F kw r (i + 1)))))))).
    eapply LxH_ext.
    - apply LxH_app; [apply LxH_sp|].
      apply Lx_app_LxH; [apply Lx_ident; exact Hk| |reflexivity|discriminate].
      apply LxH_app; [apply LxH_sp_colon|].
      apply Lx_app_LxH; [apply Lx_ident; apply wf_cname| |reflexivity|discriminate].
      apply LxH_app; [apply LxH_colon_eq|].
      apply LxH_app; [apply LxH_glyph_set; exact Hg|].
      apply LxH_app; [apply LxH_nl_tab|apply IH; auto].
    - intros l. cbn [app]. rewrite !N.add_0_r. unfold gs_toks. cbn [app]. rewrite <- !app_assoc. cbn [app].
      reflexivity.
    - cbn [length]. lia.
  Qed.

  Lemma LxH_sets : forall sets, sets <> [] -> Forall (fun s => gids_ok F s = true) sets ->
    LxH (join_sets U F sets) (fun l => concat (map (fun s => gs_toks U F s l) sets)) 0.
  Proof.
    induction sets as [|s r IH]; intros Hn Hs; [congruence|].
    inversion Hs as [|? ? H1 H2]; subst. destruct r as [|s' r'].
    - cbn [join_sets map concat]. eapply LxH_ext; [apply LxH_glyph_set; exact H1| |reflexivity].
      intros l. rewrite app_nil_r. reflexivity.
    - change (join_sets U F (s :: s' :: r')) with (write_glyph_set U F s ++ ([32] ++ join_sets U F (s' :: r'))).
      eapply LxH_ext.
      + apply LxH_app; [apply LxH_glyph_set; exact H1|].
        apply LxH_app; [apply LxH_sp|apply IH; [discriminate|exact H2]].
      + intros l. cbn [map concat app]. rewrite !N.add_0_r. reflexivity.
      + reflexivity.
  Qed.

  Lemma flat_rules_forall : forall {B} (P : N -> Prop) (Q : B -> Prop) (keyed : list (N * list B)),
    Forall (fun p => P (fst p) /\ Forall Q (snd p)) keyed ->
    Forall (fun e => P (fst e) /\ Q (snd e)) (flat_rules keyed).
  Proof.
    intros B P Q keyed H. unfold flat_rules. apply Forall_forall. intros [k x] Hin.
    apply in_concat in Hin. destruct Hin as (grp & Hg & Hin). apply in_map_iff in Hg.
    destruct Hg as ([k' xs] & E & Hk). subst grp. apply in_map_iff in Hin. destruct Hin as (y & E & Hy).
    inversion E; subst. rewrite Forall_forall in H. destruct (H _ Hk) as [A B0]. cbn in *.
    split; auto. rewrite Forall_forall in B0. auto.
  Qed.

  Lemma Lx_ctx : forall c, ctx_wf F c = true ->
    Lx (explain_ctx U F c) (ctx_toks U F c) (ctx_dl c) /\ rest_ok (explain_ctx U F c).
  Proof.
    intros c W. destruct c as [cov rules|cov classes rules|input acts]; cbn [ctx_wf] in W; split_wf W;
      unfold explain_ctx, ctx_toks, ctx_dl.
    - (* SeqCtx1 *)
      assert (Hc : Forall (fun g => g < num_glyphs F) cov) by (apply gids_ok_forall; assumption).
      apply Lx_ctx1.
      apply (flat_rules_forall (fun g => g < num_glyphs F) (fun r : list N * actions => gids_ok F (fst r) = true)).
      apply (Forall_combine (fun g => g < num_glyphs F)
               (fun rs : list (list N * actions) => Forall (fun r => gids_ok F (fst r) = true) rs)); auto.
      match goal with Hx : forallb _ rules = true |- _ => apply forallb_Forall in Hx;
        eapply Forall_impl; [|exact Hx] end.
      cbn. intros rs Hx. apply andb_true_iff in Hx. destruct Hx as [_ Hx]. apply forallb_Forall in Hx.
      eapply Forall_impl; [|exact Hx]. cbn. intros r Hr. apply andb_true_iff in Hr. tauto.
    - (* SeqCtx2 *)
      assert (Hcl : Forall (fun gl => gids_ok F gl = true) classes).
      { match goal with Hx : forallb _ classes = true |- _ => apply forallb_Forall in Hx;
          eapply Forall_impl; [|exact Hx] end.
        cbn. intros a Hx. apply andb_true_iff in Hx. tauto. }
      destruct (Lx_ctx2 (flat_rules (index_from 0 rules)) true) as [R1 _].
      assert (Hne : flat_rules (index_from 0 rules) <> []).
      { match goal with Hx : negb (is_nil (concat rules)) = true |- _ => rename Hx into Hn end.
        clear - Hn. generalize 0. induction rules as [|rs r IH]; intros i; [discriminate|].
        cbn [index_from]. unfold flat_rules. cbn [map concat fst snd]. destruct rs as [|x rs'].
        - cbn [map app]. apply IH. exact Hn.
        - discriminate. }
      split.
      + eapply Lx_ext.
        * apply LxH_app_Lx; [apply (LxH_defcls k_class classes 1); [reflexivity|exact Hcl]|].
          apply LxH_app_Lx; [apply LxH_slash|].
          apply Lx_app; [apply Lx_glyph_list; assumption| |exact hs_slash].
          apply LxH_app_Lx; [apply LxH_slash|exact R1].
        * intros l. cbn [app]. rewrite ?N.add_0_r. reflexivity.
        * lia.
      + destruct classes; reflexivity.
    - (* SeqCtx3 *)
      assert (Hs : Forall (fun s => gids_ok F s = true) input).
      { match goal with Hx : forallb _ input = true |- _ => apply forallb_Forall in Hx;
          eapply Forall_impl; [|exact Hx] end.
        cbn. intros a Hx. apply andb_true_iff in Hx. tauto. }
      assert (Hn : input <> []) by (destruct input; [discriminate|congruence]).
      split.
      + eapply Lx_ext.
        * apply LxH_app_Lx; [apply LxH_sets; auto|].
          apply LxH_app_Lx; [apply LxH_arrow|apply Lx_nested].
        * intros l. cbn [app]. rewrite !N.add_0_r. reflexivity.
        * reflexivity.
      + destruct input as [|s r]; [congruence|]. destruct r; reflexivity.
  Qed.

  (* ---- chained contextual subtables (GSUB6) ---- *)
  Lemma LxH_bar : LxH k_bar (fun l => [t_bar l]) 0.   Proof. lit. Qed.
  Lemma Lx_sp_bar : Lx [32; 124] (fun l => [t_bar l]) 0.
  Proof.
    intros line rest Hr. cbn [app lexm]. change (lstep U LStart line 32) with (@nil token, LStart, line).
    cbn [app lexm]. change (lstep U LStart line 124) with (@nil token, LBar, line). cbn [app].
    rewrite (lexm_flush U LBar line _ rest eq_refl Hr). rewrite N.add_0_r. reflexivity.
  Qed.

  Lemma gids_ok_rev : forall gs, gids_ok F gs = true -> gids_ok F (rev gs) = true.
  Proof.
    intros gs H. unfold gids_ok in *. rewrite forallb_forall in *. intros x Hx. apply H. apply in_rev. exact Hx.
  Qed.

  Definition crule1_ok (e : N * chain_rule) : Prop :=
    fst e < num_glyphs F /\ gids_ok F (fst (fst (fst (snd e)))) = true
    /\ gids_ok F (snd (fst (fst (snd e)))) = true /\ gids_ok F (snd (fst (snd e))) = true.

  Lemma Lx_chain1 : forall mm first, Forall crule1_ok mm ->
    Lx (explain_chain1 U F mm first) (chain1_toks U F mm first) 0 /\ rest_ok (explain_chain1 U F mm first).
  Proof.
    induction mm as [|[g [[[bt inp] la] acts]] mm IH]; intros first Hm.
    - split; [apply Lx_nil|exact I].
    - inversion Hm as [|? ? Hg Hmm]; subst. destruct Hg as (Hg & Hb & Hi & Hl). cbn [fst snd] in *.
      destruct (IH false Hmm) as [IH1 IH2]. cbn [explain_chain1 chain1_toks]. split.
      + eapply Lx_ext.
        * apply (LxH_app_Lx U (if first then [32] else k_comma) (fun l => if first then [] else [t_comma l]) 0);
            [destruct first; [apply LxH_sp|apply LxH_comma]|].
          apply Lx_app; [apply Lx_glyph_list; apply gids_ok_rev; exact Hb| |reflexivity].
          apply LxH_app_Lx; [apply LxH_bar|].
          apply Lx_app; [apply (Lx_glyph_list (g :: inp)); unfold gids_ok in *; cbn [forallb];
                         rewrite Hi; assert (E : (g <? num_glyphs F) = true) by lia; rewrite E; reflexivity
                        | |reflexivity].
          apply LxH_app_Lx; [apply LxH_bar|].
          apply Lx_app; [apply Lx_glyph_list; exact Hl| |reflexivity].
          apply LxH_app_Lx; [apply LxH_arrow|].
          apply Lx_app; [apply Lx_nested|exact IH1|exact IH2].
        * intros l. cbn [app]. rewrite !N.add_0_r. rewrite <- ?app_assoc. cbn [app]. destruct first; reflexivity.
        * reflexivity.
      + destruct first; reflexivity.
  Qed.

  Lemma Lx_chain2 : forall mm first,
    Lx (explain_chain2 mm first) (chain2_toks mm first) 0 /\ (first = false -> rest_ok (explain_chain2 mm first)).
  Proof.
    induction mm as [|[c [[[bt inp] la] acts]] mm IH]; intros first.
    - split; [apply Lx_nil|intros; exact I].
    - destruct (IH false) as [IH1 IH2]. specialize (IH2 eq_refl). cbn [explain_chain2 chain2_toks]. split.
      + eapply Lx_ext.
        * apply (LxH_app_Lx U (if first then [] else [44]) (fun l => if first then [] else [t_comma l]) 0);
            [destruct first; [apply LxH_nil|apply LxH_comma1]|].
          apply LxH_app_Lx; [apply LxH_class_list|].
          apply LxH_app_Lx; [apply LxH_bar|].
          apply LxH_app_Lx; [apply LxH_class_list|].
          apply LxH_app_Lx; [apply LxH_bar|].
          apply LxH_app_Lx; [apply LxH_class_list|].
          apply LxH_app_Lx; [apply LxH_arrow|].
          apply Lx_app; [apply Lx_nested|exact IH1|exact IH2].
        * intros l. cbn [app]. rewrite !N.add_0_r. unfold cls_toks. rewrite <- ?app_assoc. cbn [app].
          destruct first; reflexivity.
        * reflexivity.
      + intros E. subst. reflexivity.
  Qed.

  Lemma LxH_sp_sets : forall sets, Forall (fun s => gids_ok F s = true) sets ->
    LxH (sp_sets U F sets) (sets_toks U F sets) 0.
  Proof.
    induction sets as [|s r IH]; intros H; [apply LxH_nil|].
    inversion H as [|? ? H1 H2]; subst. unfold sp_sets, sets_toks in *. cbn [map concat].
    change (32 :: write_glyph_set U F s) with ([32] ++ write_glyph_set U F s). rewrite <- app_assoc.
    eapply LxH_ext.
    - apply LxH_app; [apply LxH_sp|]. apply LxH_app; [apply LxH_glyph_set; exact H1|apply IH; exact H2].
    - intros l. cbn [app]. rewrite !N.add_0_r. reflexivity.
    - reflexivity.
  Qed.

  Lemma LxH_join_sets : forall sets, Forall (fun s => gids_ok F s = true) sets ->
    LxH (join_sets U F sets) (sets_toks U F sets) 0.
  Proof.
    intros sets H. destruct sets as [|s r]; [apply LxH_nil|]. apply LxH_sets; [discriminate|exact H].
  Qed.

  Lemma sets_ok_forall : forall sets, forallb (fun s => ascendingb s && gids_ok F s) sets = true ->
    Forall (fun s => gids_ok F s = true) sets.
  Proof.
    intros sets H. apply forallb_Forall in H. eapply Forall_impl; [|exact H]. cbn. intros a Hx.
    apply andb_true_iff in Hx. tauto.
  Qed.

  Lemma classes_wf_forall : forall classes, classes_wf F classes = true ->
    Forall (fun gl => gids_ok F gl = true) classes.
  Proof.
    intros classes H. unfold classes_wf in H. apply andb_true_iff in H. destruct H as [H _].
    apply forallb_Forall in H. eapply Forall_impl; [|exact H]. cbn. intros a Hx.
    apply andb_true_iff in Hx. tauto.
  Qed.

  Lemma flat_index_nonempty : forall {B} (rules : list (list B)) i,
    negb (is_nil (concat rules)) = true -> flat_rules (index_from i rules) <> [].
  Proof.
    intros B rules. induction rules as [|rs r IH]; intros i Hn; [discriminate|].
    cbn [index_from]. unfold flat_rules. cbn [map concat fst snd]. destruct rs as [|x rs'].
    - cbn [map app]. apply IH. exact Hn.
    - discriminate.
  Qed.

  Lemma Lx_chain : forall h, chain_wf F h = true ->
    Lx (explain_chain U F h) (chain_toks U F h) (chain_dl h) /\ rest_ok (explain_chain U F h).
  Proof.
    intros h W. destruct h as [cov rules|cov btc inc lac rules|bt input la acts]; cbn [chain_wf] in W; split_wf W;
      unfold explain_chain, chain_toks, chain_dl.
    - (* Chain1 *)
      assert (Hc : Forall (fun g => g < num_glyphs F) cov) by (apply gids_ok_forall; assumption).
      apply Lx_chain1.
      match goal with Hx : forallb _ rules = true |- _ => apply forallb_Forall in Hx; rename Hx into W0 end.
      apply Forall_forall. intros [k r] Hin. unfold flat_rules in Hin.
      apply in_concat in Hin. destruct Hin as (grp & Hgrp & Hin). apply in_map_iff in Hgrp.
      destruct Hgrp as ([k' rs] & E & Hcb). subst grp. cbn [fst snd] in Hin.
      apply in_map_iff in Hin. destruct Hin as (r' & E & Hr). inversion E; subst; clear E.
      pose proof (in_combine_l _ _ _ _ Hcb) as Hk. pose proof (in_combine_r _ _ _ _ Hcb) as Hrs.
      rewrite Forall_forall in Hc, W0. specialize (Hc _ Hk). specialize (W0 _ Hrs). cbn in W0.
      apply andb_true_iff in W0. destruct W0 as [_ W0]. rewrite forallb_forall in W0.
      specialize (W0 _ Hr). split_wf W0. unfold crule1_ok. cbn [fst snd]. auto.
    - (* Chain2 *)
      destruct (Lx_chain2 (flat_rules (index_from 0 rules)) true) as [R1 _].
      split.
      + eapply Lx_ext.
        * apply LxH_app_Lx; [apply (LxH_defcls k_backtrackclass btc 1); [reflexivity|apply classes_wf_forall; assumption]|].
          apply LxH_app_Lx; [apply (LxH_defcls k_inputclass inc 1); [reflexivity|apply classes_wf_forall; assumption]|].
          apply LxH_app_Lx; [apply (LxH_defcls k_lookaheadclass lac 1); [reflexivity|apply classes_wf_forall; assumption]|].
          apply LxH_app_Lx; [apply LxH_slash|].
          apply Lx_app; [apply Lx_glyph_list; assumption| |exact hs_slash].
          apply LxH_app_Lx; [apply LxH_slash|exact R1].
        * intros l. cbn [app]. rewrite ?N.add_0_r. rewrite <- ?app_assoc. cbn [app]. rewrite ?N.add_assoc. reflexivity.
        * lia.
      + destruct btc; [destruct inc; [destruct lac|]|]; reflexivity.
    - (* Chain3 *)
      assert (Hb : Forall (fun s => gids_ok F s = true) (rev bt)).
      { apply Forall_rev. apply sets_ok_forall; assumption. }
      assert (Hi : Forall (fun s => gids_ok F s = true) input) by (apply sets_ok_forall; assumption).
      assert (Hl : Forall (fun s => gids_ok F s = true) la) by (apply sets_ok_forall; assumption).
      assert (Hn : input <> []) by (destruct input; [discriminate|congruence]).
      split.
      + eapply Lx_ext.
        * apply LxH_app_Lx; [apply LxH_join_sets; exact Hb|].
          apply Lx_app; [apply Lx_sp_bar| |destruct input; [congruence|reflexivity]].
          apply LxH_app_Lx; [apply LxH_sp_sets; exact Hi|].
          apply Lx_app; [apply Lx_sp_bar| |destruct la; reflexivity].
          apply LxH_app_Lx; [apply LxH_sp_sets; exact Hl|].
          apply LxH_app_Lx; [apply LxH_arrow|apply Lx_nested].
        * intros l. cbn [app]. rewrite !N.add_0_r. reflexivity.
        * reflexivity.
      + destruct (rev bt) as [|s r]; [reflexivity|]. destruct r; reflexivity.
  Qed.

  Lemma Lx_subtable : forall s, sub_wf F s = true ->
    Lx (explain_subtable U F s) (sub_toks U F s) (sub_dl s) /\ rest_ok (explain_subtable U F s).
  Proof.
    intros s W. destruct s as [p|h|c|cov delta|cov subst|cov repl|cov alts|cov repl|cov adj|cov adj];
      [split; [apply Lx_nil|exact I]|apply Lx_chain; exact W|apply Lx_ctx; exact W|..];
      cbn [sub_wf] in W; split_wf W; unfold explain_subtable, sub_toks; cbv beta iota zeta;
      try (assert (Ha : ascending cov) by (apply ascendingb_spec; assumption));
      try (assert (Hc : Forall (fun g => g < num_glyphs F) cov) by (apply gids_ok_forall; assumption)).
    - (* Gsub1_1 *)
      rewrite !stable_sort_sorted by (apply (ascending_ss_map (fun k => (k + delta) mod 65536)); exact Ha).
      apply Lx_seq1; [left; auto|].
      assert (Hd : Forall (fun g => g < num_glyphs F) (map (fun k => (k + delta) mod 65536) cov))
        by (apply gids_ok_forall; assumption).
      clear - Hc Hd. induction cov; cbn in *; constructor.
      + inversion Hc; inversion Hd; subst. split; auto.
      + inversion Hc; inversion Hd; subst. auto.
    - (* Gsub1_2 *)
      rewrite !stable_sort_sorted by (apply ascending_ss_combine; exact Ha).
      apply Lx_seq1; [left; auto|].
      assert (Hd : Forall (fun g => g < num_glyphs F) subst) by (apply gids_ok_forall; assumption).
      apply (Forall_combine (fun g => g < num_glyphs F) (fun g => g < num_glyphs F)); auto.
    - (* Gsub2_1 *)
      apply (Lx_entries (write_glyph_list U F) (gl_toks U F) (fun r => gids_ok F r = true)).
      + intros x Hx. apply Lx_glyph_list; auto.
      + apply (Forall_combine (fun g => g < num_glyphs F) (fun r => gids_ok F r = true)); auto.
        match goal with Hx : forallb _ repl = true |- _ => apply forallb_Forall in Hx;
          eapply Forall_impl; [|exact Hx] end. cbn. intros a Hx.
        apply andb_true_iff in Hx. tauto.
    - (* Gsub3_1 *)
      apply (Lx_entries (write_glyph_set U F) (gs_toks U F) (fun r => gids_ok F r = true)).
      + intros x Hx. apply LxH_Lx. apply LxH_glyph_set; auto.
      + apply (Forall_combine (fun g => g < num_glyphs F) (fun r => gids_ok F r = true)); auto.
        match goal with Hx : forallb _ alts = true |- _ => apply forallb_Forall in Hx;
          eapply Forall_impl; [|exact Hx] end. cbn. intros a Hx.
        apply andb_true_iff in Hx. tauto.
    - (* Gsub4_1 *)
      rewrite !stable_sort_sorted by (apply ss_groups; exact Ha).
      apply Lx_seq4; [left; auto|].
      match goal with Hx : forallb _ repl = true |- _ => apply forallb_Forall in Hx; rename Hx into W0 end.
      apply Forall_forall. intros [key [comps out]] Hin.
      apply in_concat in Hin. destruct Hin as (grp & Hgrp & Hin). apply in_map_iff in Hgrp.
      destruct Hgrp as ([k ls] & E & Hcb). subst grp. cbn [fst snd] in Hin.
      apply in_map_iff in Hin. destruct Hin as (lg & E & Hlg). inversion E; subst; clear E.
      pose proof (in_combine_l _ _ _ _ Hcb) as Hk. pose proof (in_combine_r _ _ _ _ Hcb) as Hls.
      rewrite Forall_forall in Hc, W0. specialize (Hc _ Hk). specialize (W0 _ Hls). cbn in W0.
      apply andb_true_iff in W0. destruct W0 as [_ W0]. rewrite forallb_forall in W0.
      specialize (W0 _ Hlg). apply andb_true_iff in W0. destruct W0 as [Wa Wb].
      cbn [fst snd] in Wa, Wb.
      split; cbn [fst snd]; [|lia]. unfold gids_ok in *. cbn [forallb]. rewrite Wa.
      assert (E : (key <? num_glyphs F) = true) by lia.
      rewrite E. reflexivity.
    - (* Gpos1_1 *)
      split; [|reflexivity].
      change (32 :: write_glyph_set U F cov ++ k_arrow ++ write_value_record adj)
        with ([32] ++ (write_glyph_set U F cov ++ (k_arrow ++ write_value_record adj))).
      eapply Lx_ext.
      + apply LxH_app_Lx; [apply LxH_sp|].
        apply LxH_app_Lx; [apply LxH_glyph_set; assumption|].
        apply LxH_app_Lx; [apply LxH_arrow|apply Lx_value].
      + intros l. cbn. rewrite !N.add_0_r. unfold gs_toks. cbn. rewrite <- app_assoc. reflexivity.
      + reflexivity.
    - (* Gpos1_2 *)
      apply (Lx_entries write_value_record value_toks (fun _ => True)).
      + intros x _. apply Lx_value.
      + apply (Forall_combine (fun g => g < num_glyphs F) (fun _ : option vrec => True)); auto.
        apply Forall_forall. intros; exact I.
  Qed.

  (* ---- GPOS3 ---- *)
  Lemma Lx_digits_z : forall z, Lx (digits_z z) (fun l => [tk TInt (digits_z z) l]) 0.
  Proof.
    intros z. destruct z as [|p|p]; unfold digits_z; try apply Lx_digits.
    intros line rest Hrest. destruct (digits_head (Npos p)) as (c & r & E & Hc & Hr). rewrite E.
    assert (E62 : (c =? 62) = false) by (pose proof Hc as Hc'; apply is_adigit_spec in Hc'; lia).
    cbn [app lexm]. change (lstep U LStart line 45) with (@nil token, LHyphen, line). cbn [app lexm lstep].
    rewrite E62, Hc. cbn [app]. rewrite lexm_int_run by auto. rewrite N.add_0_r.
    rewrite (lexm_flush U (LInt ([45; c] ++ r)) line _ rest eq_refl Hrest). reflexivity.
  Qed.

  Lemma rest_ok_digits_z : forall z r, rest_ok (digits_z z ++ r) -> True.
  Proof. auto. Qed.

  Lemma LxH_colon_sp : LxH [58; 32] (fun l => [t_colon l]) 0.   Proof. lit. Qed.
  Lemma LxH_to : LxH (32 :: k_to ++ [32]) (fun l => [tk TIdent k_to l]) 0.   Proof. lit. Qed.
  Lemma LxH_semi : LxH [59] (fun l => [t_semi l]) 0.   Proof. lit. Qed.
  Lemma hs_semi : hardsep U 59 = true. Proof. reflexivity. Qed.

  Definition anchor_text (a : anchor) : list N := digits_z (fst a) ++ [44] ++ digits_z (snd a).
  Lemma Lx_anchor : forall a, Lx (anchor_text a)
    (fun l => [tk TInt (digits_z (fst a)) l; t_comma l; tk TInt (digits_z (snd a)) l]) 0.
  Proof.
    intros a. unfold anchor_text. eapply Lx_ext.
    - apply Lx_app; [apply Lx_digits_z| |reflexivity]. apply LxH_app_Lx; [apply LxH_comma1|apply Lx_digits_z].
    - intros l. cbn. rewrite !N.add_0_r. reflexivity.
    - reflexivity.
  Qed.

  Lemma Lx_gpos3 : forall recs first j0, Forall (fun e => fst e < num_glyphs F) recs ->
    Lx (explain_gpos3 U F recs first j0) (gpos3_toks U F recs first j0) (gpos3_dl recs first j0)
    /\ (first || negb j0 = true -> rest_ok (explain_gpos3 U F recs first j0)).
  Proof.
    induction recs as [|[g [[x1 y1] [x2 y2]]] recs IH]; intros first j0 Hr.
    - split; [apply Lx_nil|intros; exact I].
    - inversion Hr as [|? ? Hg Hrs]; subst. cbn [fst] in Hg.
      destruct (IH first false Hrs) as [IH1 IH2]. specialize (IH2 ltac:(apply orb_true_r)).
      cbn [explain_gpos3 gpos3_toks gpos3_dl]. split.
      + replace (write_glyph U F g ++ [58; 32] ++ digits_z x1 ++ [44] ++ digits_z y1 ++ 32 :: k_to ++ [32] ++ digits_z x2 ++ [44] ++ digits_z y2 ++ explain_gpos3 U F recs first false)
          with (write_glyph U F g ++ ([58; 32] ++ (anchor_text (x1, y1) ++ ((32 :: k_to ++ [32]) ++ (anchor_text (x2, y2) ++ explain_gpos3 U F recs first false)))))
          by (unfold anchor_text; cbn [fst snd]; rewrite <- !app_assoc; reflexivity).
        eapply Lx_ext.
        * apply (LxH_app_Lx U (if j0 then [] else [59]) (fun l => if j0 then [] else [t_semi l]) 0);
            [destruct j0; [apply LxH_nil|apply LxH_semi]|].
          apply (LxH_app_Lx U (if first || negb j0 then [10; 9] else []) (fun l => if first || negb j0 then [tk TEOL [10] l] else [])
                   (if first || negb j0 then 1 else 0));
            [destruct (first || negb j0); [apply LxH_nl_tab|apply LxH_nil]|].
          apply Lx_app; [apply Lx_glyph; exact Hg| |reflexivity].
          apply LxH_app_Lx; [apply LxH_colon_sp|].
          apply Lx_app; [apply Lx_anchor| |reflexivity].
          apply LxH_app_Lx; [apply LxH_to|].
          apply Lx_app; [apply Lx_anchor|exact IH1|exact IH2].
        * intros l. cbn [app fst snd]. rewrite ?N.add_0_r.
          destruct j0, first; cbn [orb negb app]; rewrite ?N.add_0_r; reflexivity.
        * destruct (first || negb j0); lia.
      + intros Hc. rewrite Hc. destruct j0; reflexivity.
  Qed.

  (* ---- GPOS4 ---- *)
  Lemma LxH_mark_sp : LxH (k_mark ++ [32]) (fun l => [tk TIdent k_mark l]) 0.   Proof. lit. Qed.
  Lemma LxH_base_sp : LxH (k_base ++ [32]) (fun l => [tk TIdent k_base l]) 0.   Proof. lit. Qed.
  Lemma LxH_sp_at : LxH [32; 64] (fun l => [t_at l]) 0.   Proof. lit. Qed.

  Lemma LxH_mark : forall e, fst e < num_glyphs F -> LxH (explain_mark U F e) (mark_toks U F e) 0.
  Proof.
    intros [g [cls [x y]]] Hg. cbn [fst] in Hg. unfold explain_mark, mark_toks. cbn [fst snd].
    replace (k_mark ++ [32] ++ write_glyph U F g ++ [58; 32] ++ digits cls ++ [64] ++ digits_z x ++ [44] ++ digits_z y ++ [59])
      with ((k_mark ++ [32]) ++ ((write_glyph U F g ++ ([58; 32] ++ (digits cls ++ ([64] ++ anchor_text (x, y))))) ++ [59]))
      by (unfold anchor_text; cbn [fst snd]; rewrite <- !app_assoc; reflexivity).
    eapply LxH_ext.
    - apply LxH_app; [apply LxH_mark_sp|].
      apply Lx_app_LxH; [|apply LxH_semi|reflexivity|discriminate].
      apply Lx_app; [apply Lx_glyph; exact Hg| |reflexivity].
      apply LxH_app_Lx; [apply LxH_colon_sp|].
      apply Lx_app; [apply Lx_digits| |reflexivity].
      apply LxH_app_Lx; [apply LxH_at|apply Lx_anchor].
    - intros l. cbn [app fst snd]. rewrite ?N.add_0_r. reflexivity.
    - reflexivity.
  Qed.

  Lemma Lx_anchors : forall an,
    Lx (concat (map explain_anchor an)) (fun l => concat (map (fun a => anchor_toks a l) an)) 0
    /\ rest_ok (concat (map explain_anchor an)).
  Proof.
    induction an as [|a an [IH1 IH2]]; [split; [apply Lx_nil|exact I]|].
    cbn [map concat]. split; [|reflexivity].
    change (explain_anchor a) with ([32; 64] ++ anchor_text a).
    eapply Lx_ext.
    - apply Lx_app; [|exact IH1|exact IH2]. apply LxH_app_Lx; [apply LxH_sp_at|apply Lx_anchor].
    - intros l. cbn [app]. rewrite ?N.add_0_r. reflexivity.
    - reflexivity.
  Qed.

  Lemma LxH_base : forall e, fst e < num_glyphs F -> LxH (explain_base U F e) (base_toks U F e) 0.
  Proof.
    intros [g an] Hg. cbn [fst] in Hg. unfold explain_base, base_toks. cbn [fst snd].
    destruct (Lx_anchors an) as [A1 A2].
    replace (k_base ++ [32] ++ write_glyph U F g ++ [58] ++ concat (map explain_anchor an) ++ [59])
      with ((k_base ++ [32]) ++ ((write_glyph U F g ++ ([58] ++ concat (map explain_anchor an))) ++ [59]))
      by (rewrite <- !app_assoc; reflexivity).
    eapply LxH_ext.
    - apply LxH_app; [apply LxH_base_sp|].
      apply Lx_app_LxH; [|apply LxH_semi|reflexivity|discriminate].
      apply Lx_app; [apply Lx_glyph; exact Hg| |reflexivity].
      apply LxH_app_Lx; [apply LxH_colon|exact A1].
    - intros l. cbn [app]. rewrite ?N.add_0_r. reflexivity.
    - reflexivity.
  Qed.

  Lemma LxH_lines : forall items titems first,
    Forall2 (fun it tt => LxH it tt 0) items titems ->
    LxH (explain_lines items first) (lines_toks titems first) (lines_dl (length items) first).
  Proof.
    intros items titems first H. revert first. induction H as [|it tt items titems Hi Hr IH]; intros first.
    - apply LxH_nil.
    - cbn [explain_lines lines_toks lines_dl length]. eapply LxH_ext.
      + apply (LxH_app U (if first then [10; 9] else []) (fun l => if first then [tk TEOL [10] l] else []) (if first then 1 else 0));
          [destruct first; [apply LxH_nl_tab|apply LxH_nil]|].
        apply LxH_app; [exact Hi|apply (IH true)].
      + intros l. destruct first; cbn [app]; rewrite ?N.add_0_r; reflexivity.
      + destruct first; lia.
  Qed.

  Lemma Forall2_map_same : forall {A B C} (R : B -> C -> Prop) (f : A -> B) (g : A -> C) (P : A -> Prop) xs,
    (forall x, P x -> R (f x) (g x)) -> Forall P xs -> Forall2 R (map f xs) (map g xs).
  Proof. intros A B C R f g P xs H HP. induction HP; cbn; constructor; auto. Qed.

  Lemma Forall_combine_fst : forall {B} (P : N -> Prop) (xs : list N) (ys : list B),
    Forall P xs -> Forall (fun e => P (fst e)) (combine xs ys).
  Proof.
    intros B P xs ys H. apply Forall_forall. intros [x y] Hin. apply in_combine_l in Hin.
    rewrite Forall_forall in H. cbn. auto.
  Qed.

  Lemma Lx_pos : forall p first, pos_wf F p = true ->
    Lx (explain_pos U F p first) (pos_toks U F p first) (pos_dl p first)
    /\ (first = true -> rest_ok (explain_pos U F p first)).
  Proof.
    intros p first W. destruct p as [cov records|mc ma bc ba]; cbn [pos_wf] in W; split_wf W;
      unfold explain_pos, pos_toks, pos_dl.
    - assert (Hc : Forall (fun g => g < num_glyphs F) cov) by (apply gids_ok_forall; assumption).
      destruct (Lx_gpos3 (combine cov records) first true) as [A B].
      + apply Forall_forall. intros [g r] Hin. cbn [fst]. apply in_combine_l in Hin.
        rewrite Forall_forall in Hc. auto.
      + split; auto. intros E. apply B. rewrite E. reflexivity.
    - assert (Hm : Forall (fun g => g < num_glyphs F) mc) by (apply gids_ok_forall; assumption).
      assert (Hb : Forall (fun g => g < num_glyphs F) bc) by (apply gids_ok_forall; assumption).
      split.
      + apply LxH_Lx. eapply LxH_ext.
        * apply (LxH_lines _ (gpos4_items U F mc ma bc ba)). unfold gpos4_items. apply Forall2_app.
          -- apply (Forall2_map_same _ _ _ (fun e => fst e < num_glyphs F)); [apply LxH_mark|].
             apply (Forall_combine_fst (fun g => g < num_glyphs F)); auto.
          -- apply (Forall2_map_same _ _ _ (fun e => fst e < num_glyphs F)); [apply LxH_base|].
             apply (Forall_combine_fst (fun g => g < num_glyphs F)); auto.
        * reflexivity.
        * rewrite app_length, !map_length. reflexivity.
      + intros E. subst first. destruct (map _ _ ++ map _ _); reflexivity.
  Qed.

  Lemma Lx_subtablep : forall s first, sub_wf F s = true ->
    Lx (explain_subtablep U F s first) (sub_toksp U F s first) (sub_dlp s first)
    /\ (first = true -> rest_ok (explain_subtablep U F s first)).
  Proof.
    intros s first W. destruct s as [p| | | | | | | | |];
      try (destruct (Lx_subtable _ W) as [A B]; split; [exact A|intros; exact B]).
    apply Lx_pos. exact W.
  Qed.

  (* ---- lookups ---- *)
  Lemma wf_kw : forall kw n, (kw = k_GSUB \/ kw = k_GPOS) -> wf_name U (kw ++ digits n) = true.
  Proof.
    intros kw n [E|E]; subst; cbn; apply forallb_forall; intros c Hc;
      apply adigit_ident_char; pose proof (digits_all n) as Hd; rewrite forallb_forall in Hd; auto.
  Qed.

  Lemma Lx_hdr : forall kw lk, (kw = k_GSUB \/ kw = k_GPOS) -> flags_ok (l_flags lk) = true ->
    Lx (kw ++ digits (l_type lk) ++ [58] ++ explain_flags (l_flags lk)) (hdr_toks kw lk) 0.
  Proof.
    intros kw lk Hk Hf. rewrite app_assoc. eapply Lx_ext.
    - apply Lx_app; [apply Lx_ident; apply wf_kw; exact Hk| |reflexivity].
      apply LxH_app_Lx; [apply LxH_colon|apply Lx_flags; exact Hf].
    - intros l. unfold hdr_toks. cbn. rewrite !N.add_0_r. reflexivity.
    - reflexivity.
  Qed.

  Section Subs.
    Variable hdr : list N.
    Variable hdrt : N -> list token.
    Hypothesis Hhdr : Lx hdr hdrt 0.

    Lemma Lx_subs_rest : forall subs, Forall (fun s => sub_wf F s = true) subs ->
      Lx (explain_subs U F hdr subs false) (subs_toks U F hdrt subs false) (subs_lines subs)
      /\ rest_ok (explain_subs U F hdr subs false).
    Proof.
      induction subs as [|s r IH]; intros H.
      - split; [apply Lx_nil|exact I].
      - inversion H as [|? ? Hs Hr]; subst. destruct (IH Hr) as [IH1 IH2].
        destruct (Lx_subtablep s false Hs) as [S1 S2]. cbn [explain_subs subs_toks]. split; [|reflexivity].
        eapply Lx_ext.
        + apply LxH_app_Lx; [apply LxH_or|]. apply Lx_app; [exact S1|exact IH1|exact IH2].
        + intros l. cbn [app]. rewrite ?N.add_0_r. reflexivity.
        + cbn [subs_lines]. lia.
    Qed.

    Lemma Lx_subs_first : forall subs, Forall (fun s => sub_wf F s = true) subs ->
      Lx (explain_subs U F hdr subs true) (subs_toks U F hdrt subs true) (subs_dl subs).
    Proof.
      intros subs H. destruct subs as [|s r].
      - apply Lx_nil.
      - inversion H as [|? ? Hs Hr]; subst. destruct (Lx_subs_rest r Hr) as [R1 R2].
        destruct (Lx_subtablep s true Hs) as [S1 S2]. specialize (S2 eq_refl). cbn [explain_subs subs_toks].
        eapply Lx_ext.
        + apply Lx_app; [exact Hhdr| |apply rest_ok_app; [exact S2|exact R2]].
          apply Lx_app; [exact S1|exact R1|exact R2].
        + intros l. cbn [app]. rewrite ?N.add_0_r. reflexivity.
        + unfold subs_dl. lia.
    Qed.
  End Subs.

  Lemma Lx_lookup : forall kw lk, (kw = k_GSUB \/ kw = k_GPOS) -> flags_ok (l_flags lk) = true ->
    Forall (fun s => sub_wf F s = true) (l_subs lk) ->
    Lx (explain_lookup U F kw lk) (lookup_toks U F kw lk) (subs_dl (l_subs lk)).
  Proof.
    intros kw lk Hk Hf Hs. unfold explain_lookup, lookup_toks.
    apply Lx_subs_first; auto. apply Lx_hdr; auto.
  Qed.

  Lemma gsub_lookup_subs : forall lk, gsub_lookup_wf F lk = true ->
    flags_ok (l_flags lk) = true /\ Forall (fun s => sub_wf F s = true) (l_subs lk).
  Proof.
    intros lk H. unfold gsub_lookup_wf in H. apply andb_true_iff in H. destruct H as [H1 H2].
    split; auto. destruct (l_subs lk) as [|s [|s' r]]; try discriminate.
    split_wf H2. repeat constructor. auto.
  Qed.

  Lemma gpos_lookup_subs : forall lk, gpos_lookup_wf F lk = true ->
    flags_ok (l_flags lk) = true /\ Forall (fun s => sub_wf F s = true) (l_subs lk).
  Proof.
    intros lk H. unfold gpos_lookup_wf in H. split_wf H. split; auto.
    apply forallb_Forall in H0. eapply Forall_impl; [|exact H0]. cbn. intros a Ha.
    apply andb_true_iff in Ha. tauto.
  Qed.

  Lemma LxH_gsub : forall ll, Forall (fun lk => gsub_lookup_wf F lk = true) ll ->
    LxH (M_explain_gsub U F ll) (gsub_toks U F ll) (gsub_dl ll).
  Proof.
    induction ll as [|lk r IH]; intros H.
    - apply LxH_nil.
    - inversion H as [|? ? Hlk Hr]; subst. destruct (gsub_lookup_subs lk Hlk) as [Hf Hs].
      unfold M_explain_gsub. cbn [map concat]. fold (M_explain_gsub U F r).
      eapply LxH_ext.
      + apply LxH_app; [|apply IH; exact Hr].
        apply Lx_app_LxH; [apply Lx_lookup; auto|apply LxH_nl|reflexivity|discriminate].
      + intros l. cbn [gsub_toks]. rewrite <- !app_assoc. cbn [app]. rewrite N.add_assoc. reflexivity.
      + cbn [gsub_dl]. lia.
  Qed.

  Lemma ctx_lookup_subs : forall lk, ctx_lookup_wf F lk = true ->
    flags_ok (l_flags lk) = true /\ Forall (fun s => sub_wf F s = true) (l_subs lk).
  Proof.
    intros lk H. unfold ctx_lookup_wf in H. split_wf H. split; auto.
    match goal with Hx : forallb _ (l_subs lk) = true |- _ => apply forallb_Forall in Hx;
      eapply Forall_impl; [|exact Hx] end.
    cbn. intros s Hs. destruct s; try discriminate. exact Hs.
  Qed.

  Lemma gsub5_lookup_subs : forall lk, gsub_lookup_wf5 F lk = true ->
    flags_ok (l_flags lk) = true /\ Forall (fun s => sub_wf F s = true) (l_subs lk).
  Proof.
    intros lk H. unfold gsub_lookup_wf5 in H. apply orb_true_iff in H.
    destruct H; [apply gsub_lookup_subs|apply ctx_lookup_subs]; auto.
  Qed.

  Lemma LxH_gsub5 : forall ll, Forall (fun lk => gsub_lookup_wf5 F lk = true) ll ->
    LxH (M_explain_gsub U F ll) (gsub_toks U F ll) (gsub_dl ll).
  Proof.
    induction ll as [|lk r IH]; intros H.
    - apply LxH_nil.
    - inversion H as [|? ? Hlk Hr]; subst. destruct (gsub5_lookup_subs lk Hlk) as [Hf Hs].
      unfold M_explain_gsub. cbn [map concat]. fold (M_explain_gsub U F r).
      eapply LxH_ext.
      + apply LxH_app; [|apply IH; exact Hr].
        apply Lx_app_LxH; [apply Lx_lookup; auto|apply LxH_nl|reflexivity|discriminate].
      + intros l. cbn [gsub_toks]. rewrite <- !app_assoc. cbn [app]. rewrite N.add_assoc. reflexivity.
      + cbn [gsub_dl]. lia.
  Qed.

  Lemma lex_explain_gsub5 : forall ll, Forall (fun lk => gsub_lookup_wf5 F lk = true) ll ->
    M_lex U (M_explain_gsub U F ll) = gsub_toks U F ll 1 ++ [tk TEOF [] (1 + gsub_dl ll)].
  Proof.
    intros ll H. unfold M_lex. rewrite <- (app_nil_r (M_explain_gsub U F ll)).
    rewrite (LxH_gsub5 ll H 1 []). reflexivity.
  Qed.

  Lemma chain_lookup_subs : forall lk, chain_lookup_wf F lk = true ->
    flags_ok (l_flags lk) = true /\ Forall (fun s => sub_wf F s = true) (l_subs lk).
  Proof.
    intros lk H. unfold chain_lookup_wf in H. split_wf H. split; auto.
    match goal with Hx : forallb _ (l_subs lk) = true |- _ => apply forallb_Forall in Hx;
      eapply Forall_impl; [|exact Hx] end.
    cbn. intros s Hs. destruct s; try discriminate. exact Hs.
  Qed.

  Lemma gsub6_lookup_subs : forall lk, gsub_lookup_wf6 F lk = true ->
    flags_ok (l_flags lk) = true /\ Forall (fun s => sub_wf F s = true) (l_subs lk).
  Proof.
    intros lk H. unfold gsub_lookup_wf6 in H. apply orb_true_iff in H.
    destruct H; [apply gsub5_lookup_subs|apply chain_lookup_subs]; auto.
  Qed.

  Lemma LxH_gsub6 : forall ll, Forall (fun lk => gsub_lookup_wf6 F lk = true) ll ->
    LxH (M_explain_gsub U F ll) (gsub_toks U F ll) (gsub_dl ll).
  Proof.
    induction ll as [|lk r IH]; intros H.
    - apply LxH_nil.
    - inversion H as [|? ? Hlk Hr]; subst. destruct (gsub6_lookup_subs lk Hlk) as [Hf Hs].
      unfold M_explain_gsub. cbn [map concat]. fold (M_explain_gsub U F r).
      eapply LxH_ext.
      + apply LxH_app; [|apply IH; exact Hr].
        apply Lx_app_LxH; [apply Lx_lookup; auto|apply LxH_nl|reflexivity|discriminate].
      + intros l. cbn [gsub_toks]. rewrite <- !app_assoc. cbn [app]. rewrite N.add_assoc. reflexivity.
      + cbn [gsub_dl]. lia.
  Qed.

  Lemma lex_explain_gsub6 : forall ll, Forall (fun lk => gsub_lookup_wf6 F lk = true) ll ->
    M_lex U (M_explain_gsub U F ll) = gsub_toks U F ll 1 ++ [tk TEOF [] (1 + gsub_dl ll)].
  Proof.
    intros ll H. unfold M_lex. rewrite <- (app_nil_r (M_explain_gsub U F ll)).
    rewrite (LxH_gsub6 ll H 1 []). reflexivity.
  Qed.

  Lemma Lx_gpos : forall ll, Forall (fun lk => gpos_lookup_wf F lk = true) ll ->
    Lx (M_explain_gpos U F ll) (gpos_toks U F ll) (gpos_dl ll).
  Proof.
    induction ll as [|lk r IH]; intros H.
    - apply Lx_nil.
    - inversion H as [|? ? Hlk Hr]; subst. destruct (gpos_lookup_subs lk Hlk) as [Hf Hs].
      unfold M_explain_gpos in *. destruct r as [|lk' r'].
      + cbn [map join_nl gpos_toks gpos_dl]. apply Lx_lookup; auto.
      + change (join_nl (map (explain_lookup U F k_GPOS) (lk :: lk' :: r')))
          with (explain_lookup U F k_GPOS lk ++ ([10] ++ join_nl (map (explain_lookup U F k_GPOS) (lk' :: r')))).
        eapply Lx_ext.
        * apply Lx_app; [apply Lx_lookup; auto| |reflexivity].
          apply LxH_app_Lx; [apply LxH_nl|apply IH; exact Hr].
        * intros l. cbn [gpos_toks]. cbn [app]. rewrite ?N.add_assoc. reflexivity.
        * cbn [gpos_dl]. lia.
  Qed.

  (* the two statements used by the round-trip theorem *)
  Lemma lex_explain_gsub : forall ll, Forall (fun lk => gsub_lookup_wf F lk = true) ll ->
    M_lex U (M_explain_gsub U F ll) = gsub_toks U F ll 1 ++ [tk TEOF [] (1 + gsub_dl ll)].
  Proof.
    intros ll H. unfold M_lex. rewrite <- (app_nil_r (M_explain_gsub U F ll)).
    rewrite (LxH_gsub ll H 1 []). reflexivity.
  Qed.

  Lemma lex_explain_gpos : forall ll, Forall (fun lk => gpos_lookup_wf F lk = true) ll ->
    M_lex U (M_explain_gpos U F ll) = gpos_toks U F ll 1 ++ [tk TEOF [] (1 + gpos_dl ll)].
  Proof.
    intros ll H. unfold M_lex. rewrite <- (app_nil_r (M_explain_gpos U F ll)).
    rewrite (Lx_gpos ll H 1 [] I). reflexivity.
  Qed.

  Lemma Lx_gpos_gen : forall (P : lookup -> Prop),
    (forall lk, P lk -> flags_ok (l_flags lk) = true /\ Forall (fun s => sub_wf F s = true) (l_subs lk)) ->
    forall ll, Forall P ll -> Lx (M_explain_gpos U F ll) (gpos_toks U F ll) (gpos_dl ll).
  Proof.
    intros P HP. induction ll as [|lk r IH]; intros H.
    - apply Lx_nil.
    - inversion H as [|? ? Hlk Hr]; subst. destruct (HP lk Hlk) as [Hf Hs].
      unfold M_explain_gpos in *. destruct r as [|lk' r'].
      + cbn [map join_nl gpos_toks gpos_dl]. apply Lx_lookup; auto.
      + change (join_nl (map (explain_lookup U F k_GPOS) (lk :: lk' :: r')))
          with (explain_lookup U F k_GPOS lk ++ ([10] ++ join_nl (map (explain_lookup U F k_GPOS) (lk' :: r')))).
        eapply Lx_ext.
        * apply Lx_app; [apply Lx_lookup; auto| |reflexivity].
          apply LxH_app_Lx; [apply LxH_nl|apply IH; exact Hr].
        * intros l. cbn [gpos_toks]. cbn [app]. rewrite ?N.add_assoc. reflexivity.
        * cbn [gpos_dl]. lia.
  Qed.

  Lemma gpos3_lookup_subs : forall lk, gpos3_lookup_wf F lk = true ->
    flags_ok (l_flags lk) = true /\ Forall (fun s => sub_wf F s = true) (l_subs lk).
  Proof.
    intros lk H. unfold gpos3_lookup_wf in H. split_wf H. split; auto.
    match goal with Hx : forallb _ (l_subs lk) = true |- _ => apply forallb_Forall in Hx;
      eapply Forall_impl; [|exact Hx] end.
    cbn. intros s Hs. destruct s as [p| | | | | | | | |]; try discriminate. destruct p; try discriminate; exact Hs.
  Qed.

  Lemma gpos4_lookup_subs : forall lk, gpos4_lookup_wf F lk = true ->
    flags_ok (l_flags lk) = true /\ Forall (fun s => sub_wf F s = true) (l_subs lk).
  Proof.
    intros lk H. unfold gpos4_lookup_wf in H. split_wf H. split; auto.
    match goal with Hx : forallb _ (l_subs lk) = true |- _ => apply forallb_Forall in Hx;
      eapply Forall_impl; [|exact Hx] end.
    cbn. intros s Hs. destruct s as [p| | | | | | | | |]; try discriminate. destruct p; try discriminate; exact Hs.
  Qed.

  Lemma gpos_all_lookup_subs : forall lk, gpos_lookup_wf_all F lk = true ->
    flags_ok (l_flags lk) = true /\ Forall (fun s => sub_wf F s = true) (l_subs lk).
  Proof.
    intros lk H. unfold gpos_lookup_wf_all in H. repeat (apply orb_true_iff in H; destruct H as [H|H]).
    - apply gpos_lookup_subs; auto.
    - apply gpos3_lookup_subs; auto.
    - apply gpos4_lookup_subs; auto.
  Qed.

  Lemma lex_explain_gpos_all : forall ll, Forall (fun lk => gpos_lookup_wf_all F lk = true) ll ->
    M_lex U (M_explain_gpos U F ll) = gpos_toks U F ll 1 ++ [tk TEOF [] (1 + gpos_dl ll)].
  Proof.
    intros ll H. unfold M_lex. rewrite <- (app_nil_r (M_explain_gpos U F ll)).
    rewrite (Lx_gpos_gen _ gpos_all_lookup_subs ll H 1 [] I). reflexivity.
  Qed.
End Explain.
