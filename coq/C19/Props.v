From Coq Require Import List NArith ZArith Bool Arith Lia.
From Gen Require Import C19.
From C19 Require Import Model Proofs.
Import ListNotations.
Local Open Scope N_scope.

Theorem lex_empty : forall U, M_lex U [] = [mkTok TEOF [] 1].
Proof. reflexivity. Qed.
Print Assumptions lex_empty.
