(* C19/Props.v — the property theorems.  Nothing else. *)
From Coq Require Import List NArith ZArith Bool Arith Lia.
From Gen Require Import C19.
From C19 Require Import Model Wf ProofsParse.
Import ListNotations.
Local Open Scope N_scope.

(* C19, faithful notation (GSUB side): for every classification of the
   non-ASCII code points by package unicode (U), every font whose glyph names
   are distinct identifiers and whose cmap is a finite map into its glyphs, and
   every list of GSUB1-4 lookups in the form the parser produces (all subsets
   of the three lookup flags; format 1.1 / 1.2, 2.1, 3.1, 4.1 subtables over
   glyph lists, ranges, names, numbers and quoted strings): parsing the text
   written by ExplainGsub gives back exactly the lookup list.  No bound on the
   number of glyphs below 65536, of lookups, of mappings or on the lengths. *)
Theorem parse_explain_id_fragment_gsub :
  forall (U : uclass) (F : font) (ll : list lookup),
    font_wf U F = true ->
    Forall (fun lk => gsub_lookup_wf F lk = true) ll ->
    M_parse U F (M_explain_gsub U F ll) = POk ll.
Proof. exact parse_explain_gsub. Qed.
Print Assumptions parse_explain_id_fragment_gsub.

(* the GPOS side: GPOS1 lookups with one or more subtables (formats 1.1 and
   1.2, value records over XPlacement, YPlacement, XAdvance), the descriptions
   joined by newlines as the callers of ExplainGpos do *)
Theorem parse_explain_id_fragment_gpos :
  forall (U : uclass) (F : font) (ll : list lookup),
    font_wf U F = true ->
    Forall (fun lk => gpos_lookup_wf F lk = true) ll ->
    M_parse U F (M_explain_gpos U F ll) = POk ll.
Proof. exact parse_explain_gpos. Qed.
Print Assumptions parse_explain_id_fragment_gpos.
