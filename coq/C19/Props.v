(* C19/Props.v — the property theorems.  Nothing else. *)
From Coq Require Import List NArith ZArith Bool Arith Lia.
From Gen Require Import C19.
From C19 Require Import Model Wf Protocol ProofsParse ProofsTotal ProofsProtocol ProofsTie ProofsNested.
Import ListNotations.
Local Open Scope N_scope.

(* ---- faithful notation ---- *)

(* GSUB side: for every classification of the non-ASCII code points by package
   unicode (U), every font whose glyph names are distinct identifiers and whose
   cmap is a finite map into its (at most 65535) glyphs, and every list of
   GSUB1-4 lookups in the form the parser produces (all subsets of the three
   lookup flags; subtable formats 1.1, 1.2, 2.1, 3.1, 4.1 over glyph names,
   numbers, quoted strings through the cmap, ranges and glyph sets): parsing
   the text written by ExplainGsub gives back exactly the lookup list.  No
   bound on the number of lookups, mappings, or on any length. *)
Theorem parse_explain_id_fragment_gsub :
  forall (U : uclass) (F : font) (ll : list lookup),
    font_wf U F = true ->
    Forall (fun lk => gsub_lookup_wf F lk = true) ll ->
    M_parse U F (M_explain_gsub U F ll) = POk ll.
Proof. exact parse_explain_gsub. Qed.
Print Assumptions parse_explain_id_fragment_gsub.

(* the GSUB fragment enlarged by GSUB5 (contextual substitution) in its three
   forms, several subtables per lookup: glyph sequences "A B -> 1@0, ...",
   classes with their definitions "class :c1: = [...]" and rules over class
   names, coverage sets "[A B] [C] -> 1@0"; each rule with its nested-action
   list.  The font must not have a glyph called "class". *)
Theorem parse_explain_id_fragment_gsub5 :
  forall (U : uclass) (F : font) (ll : list lookup),
    font_wf U F = true -> no_class_names F = true ->
    Forall (fun lk => gsub_lookup_wf5 F lk = true) ll ->
    M_parse U F (M_explain_gsub U F ll) = POk ll.
Proof. exact parse_explain_gsub5. Qed.
Print Assumptions parse_explain_id_fragment_gsub5.

(* ... and by GSUB6 (chained contextual substitution) in its three forms:
   backtrack | input | lookahead over glyph sequences, over classes (with
   backtrackclass / inputclass / lookaheadclass definitions) and over coverage
   sets.  This is the whole GSUB grammar of the language.  No glyph may be
   called like one of the four class keywords. *)
Theorem parse_explain_id_fragment_gsub_all :
  forall (U : uclass) (F : font) (ll : list lookup),
    font_wf U F = true -> no_class_names F = true -> no_chain_names F = true ->
    Forall (fun lk => gsub_lookup_wf6 F lk = true) ll ->
    M_parse U F (M_explain_gsub U F ll) = POk ll.
Proof. exact parse_explain_gsub6. Qed.
Print Assumptions parse_explain_id_fragment_gsub_all.

(* GPOS side: GPOS1 lookups with one or more subtables (formats 1.1 and 1.2,
   value records over XPlacement, YPlacement, XAdvance), the descriptions
   joined by newlines as the callers of ExplainGpos do *)
Theorem parse_explain_id_fragment_gpos :
  forall (U : uclass) (F : font) (ll : list lookup),
    font_wf U F = true ->
    Forall (fun lk => gpos_lookup_wf F lk = true) ll ->
    M_parse U F (M_explain_gpos U F ll) = POk ll.
Proof. exact parse_explain_gpos. Qed.
Print Assumptions parse_explain_id_fragment_gpos.

(* the same with GPOS3 lookups (cursive attachment: entry and exit anchors per
   glyph, one or more subtables) and GPOS4 lookups (mark-to-base attachment:
   mark glyphs with class and anchor, base glyphs with one anchor per class;
   the mark classes are 0..n-1, all used; one or more subtables) in the list *)
Theorem parse_explain_id_fragment_gpos_all :
  forall (U : uclass) (F : font) (ll : list lookup),
    font_wf U F = true ->
    Forall (fun lk => gpos_lookup_wf_all F lk = true) ll ->
    M_parse U F (M_explain_gpos U F ll) = POk ll.
Proof. exact parse_explain_gpos_all. Qed.
Print Assumptions parse_explain_id_fragment_gpos_all.

(* nested-action lists (the "1@0 2@1" of contextual lookups): the text written
   by explainNested is read back by readNestedLookups as the same list, for
   all lists of 16-bit (lookup index, sequence index) pairs *)
Theorem nested_actions_roundtrip :
  forall (U : uclass) (acts : list (N * N)),
    Forall (fun a => fst a < 65536 /\ snd a < 65536) acts ->
    M_parse_nested U (M_explain_nested acts) = POk acts.
Proof. exact nested_roundtrip. Qed.
Print Assumptions nested_actions_roundtrip.

(* the flag names written and read coincide (defect 5.A-19), on the tables
   regenerated from explain.go and parser.go on this run *)
Theorem flag_names_written_are_read :
  forallb (fun p => if existsb (N.eqb (fst p)) [2; 4; 8]
                    then match flag_of_name builder_parseFlags (tl (tl (snd p))) with
                         | Some v => v =? fst p
                         | None => false
                         end
                    else true) builder_explainFlags = true.
Proof. exact flag_names_agree. Qed.
Print Assumptions flag_names_written_are_read.

(* the lexer model's single-character table is lexer.go's singleCharTokens *)
Theorem single_char_table_tied :
  forall c, option_map ityp_code (single_char c) = assoc c builder_singleCharTokens.
Proof. exact single_char_tie. Qed.
Print Assumptions single_char_table_tied.

(* ---- total notation ---- *)

(* Parse of ANY text (any code point sequence), for every unicode
   classification and every font with at most 65535 glyphs and no cmap entry
   for glyph 65535: the result is a lookup list, an error whose line number
   lies inside the text (1 .. 1 + number of newlines), or a keyword of the
   grammar the model does not cover.  Never a Go panic, and the model's fuel
   (number of items + 2) is never exhausted: every loop of the parser
   consumes an item per iteration. *)
Theorem parse_total :
  forall (U : uclass) (F : font) (text : list N),
    total_font_ok F ->
    total_result (fun l => 1 <= l <= 1 + newlines text) (M_parse U F text).
Proof. exact parse_total_text. Qed.
Print Assumptions parse_total.

(* the same for every item stream whose string items carry both quotes (what
   the lexer guarantees, next theorem), with any set of admissible lines *)
Theorem parse_total_items :
  forall (F : font) (ts : list token) (Lok : N -> Prop),
    total_font_ok F -> toks_ok ts ->
    Forall (fun t => Lok (tline t)) ts -> Lok (end_line ts) ->
    total_result Lok (M_parse_tokens F ts).
Proof. exact parse_tokens_total. Qed.
Print Assumptions parse_total_items.

(* readNestedLookups on any text: a list, or an error on a line of the text *)
Theorem parse_nested_total :
  forall (U : uclass) (text : list N),
    match M_parse_nested U text with
    | POk _ | PUnmodelled => True
    | PErr l => 1 <= l <= 1 + newlines text
    | PPanic | PFuel => False
    end.
Proof. exact parse_nested_total_text. Qed.
Print Assumptions parse_nested_total.

Theorem lexer_items_well_formed :
  forall (U : uclass) (text : list N),
    toks_ok (M_lex U text) /\
    Forall (fun t => 1 <= tline t <= 1 + newlines text) (M_lex U text).
Proof. intros. split; [apply lex_toks_ok|apply lex_lines]. Qed.
Print Assumptions lexer_items_well_formed.

(* ---- goroutines: the protocol model of Protocol.v ---- *)

(* drain: from every abort point (any number of items still owed by the
   lexer, any state of a string helper), with or without helper goroutines,
   under every interleaving: there is no infinite run, and a run can only end
   with the lexer goroutine finished and Parse returned (no blocked sender on
   the item channel) *)
Theorem drain_terminates :
  forall (with_helper : bool) (l : lex_st) (h : helper_st),
    Acc (fun s' s => step with_helper s s') (mkP l h PDrain) /\
    (forall s', reach with_helper (mkP l h PDrain) s' -> stuck with_helper s' ->
                lx s' = LClosed /\ ps s' = PDone).
Proof. exact drain_terminates_gen. Qed.
Print Assumptions drain_terminates.

(* every execution of Parse, aborted or not, is finite and ends like that *)
Theorem parse_run_ends :
  forall (with_helper : bool) (n : nat),
    Acc (fun s' s => step with_helper s s') (init n) /\
    (forall s', reach with_helper (init n) s' -> stuck with_helper s' ->
                lx s' = LClosed /\ ps s' = PDone).
Proof. intros. split; [apply no_infinite_run|apply parse_run_ends_gen]. Qed.
Print Assumptions parse_run_ends.

(* the code as found (defect 5.A-20): a run that ends with the decodeString
   helper blocked for ever on a send *)
Theorem helper_leak_refuted :
  exists s', reach true (init 1) s' /\ stuck true s' /\ hp s' = HRun 1.
Proof. exact helper_leak_refuted_gen. Qed.
Print Assumptions helper_leak_refuted.

(* the repaired code (fixes/C19-decode-string.diff): when a run has ended, no
   goroutine of Parse is left *)
Theorem no_goroutine_left :
  forall (n : nat) s',
    reach false (init n) s' -> stuck false s' ->
    lx s' = LClosed /\ hp s' = HNone /\ ps s' = PDone.
Proof. exact no_goroutine_left_gen. Qed.
Print Assumptions no_goroutine_left.
