(* C19/Proofs.v — placeholder, replaced below as the proofs are built *)
From Coq Require Import List NArith ZArith Bool Arith Lia.
From Gen Require Import C19.
From C19 Require Import Model.
Import ListNotations.
Local Open Scope N_scope.

Lemma lexm_nil : forall U st line, lexm U st line [] = lfinal st line.
Proof. reflexivity. Qed.
