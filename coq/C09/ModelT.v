(* C09/ModelT.v — the cmap table: cmap.Decode, Table.Encode, Table.Get,
   Table.GetBest and the encoding-id choice of Font.InstallCMap. *)
From Coq Require Import List NArith ZArith Lia Bool.
From Common Require Import Bytes Outcome.
From Gen Require Import C09.
From C09 Require Import Model Model4.
Import ListNotations.
Local Open Scope N_scope.

(* Key{PlatformID, EncodingID, Language} *)
Definition key := (N * N * N)%type.

Definition key_eqb (a b : key) : bool :=
  let '(p1, e1, l1) := a in let '(p2, e2, l2) := b in (p1 =? p2) && (e1 =? e2) && (l1 =? l2).

(* the order used by Table.Encode *)
Definition key_ltb (a b : key) : bool :=
  let '(p1, e1, l1) := a in let '(p2, e2, l2) := b in
  if negb (p1 =? p2) then p1 <? p2 else if negb (e1 =? e2) then e1 <? e2 else l1 <? l2.

(* a Go map keyed by Key as an association list sorted by key; later
   assignments overwrite *)
Fixpoint tput {V} (k : key) (v : V) (t : list (key * V)) : list (key * V) :=
  match t with
  | [] => [(k, v)]
  | (k', v') :: r =>
      if key_eqb k' k then (k, v) :: r
      else if key_ltb k k' then (k, v) :: t
      else (k', v') :: tput k v r
  end.

Fixpoint tget {V} (k : key) (t : list (key * V)) : option V :=
  match t with
  | [] => None
  | (k', v) :: r => if key_eqb k' k then Some v else tget k r
  end.

(* data[off] etc. with Go's bounds check *)
Definition get8 (d : list N) (off : N) : outcome N :=
  match nth_error d (N.to_nat off) with Some b => Ok b | None => Panic end.
Definition get16 (d : list N) (off : N) : outcome N :=
  a <- get8 d off ;; b <- get8 d (off + 1) ;; Ok (a * 256 + b).
Definition get32 (d : list N) (off : N) : outcome N :=
  a <- get16 d off ;; b <- get16 d (off + 2) ;; Ok (a * 65536 + b).

(* sort.Search(len(segs), func(i) { return o <= segs[i].start }) on the slice
   kept sorted by start: the first index whose start is >= o *)
Fixpoint seg_search (o : N) (segs : list (N * N)) : nat :=
  match segs with
  | [] => O
  | (st, _) :: r => if o <=? st then O else S (seg_search o r)
  end.

Definition insert_at {A} (i : nat) (x : A) (l : list A) : list A :=
  firstn i l ++ x :: skipn i l.

(* one record of the encoding table; state: the occupied byte ranges and the
   result so far.  A subtable is recorded as (offset, length). *)
Definition dec_record (data : list N) (endOfHeader endOfData : N) (i : N)
           (st : list (N * N) * list (key * (N * N)))
  : outcome (list (N * N) * list (key * (N * N))) :=
  let '(segs, res) := st in
  platformID <- get16 data (4 + i * 8) ;;
  if table_maxPlatform <? platformID then Err else
  encodingID <- get16 data (6 + i * 8) ;;
  o <- get32 data (8 + i * 8) ;;
  if (o <? endOfHeader) || ((endOfData + u32 - table_minLength) mod u32 <? o) then Err else
  format <- get16 data o ;;
  hdr <-
    (if (format =? 0) || (format =? 2) || (format =? 4) || (format =? 6) then
       length <- get16 data (o + 2) ;; language <- get16 data (o + 4) ;;
       Ok (table_minLength, length, language)
     else if (format =? 8) || (format =? 10) || (format =? 12) || (format =? 13) then
       if (endOfData + u32 - 12) mod u32 <? o then Err else
       length <- get32 data (o + 4) ;; language <- get16 data (o + 10) ;;
       Ok (12, length, language)
     else if format =? 14 then
       length <- get32 data (o + 2) ;; Ok (table_minLength, length, 0)
     else Err) ;;
  let '(checkLength, length, language) := hdr in
  if (length <? checkLength) || ((endOfData + u32 - o) mod u32 <? length) then Err else
  let language := if platformID =? 1 then language else 0 in
  let idx := seg_search o segs in
  segs' <-
    (if (Nat.eqb idx (List.length segs)) || negb (o =? fst (nth idx segs (0, 0))) then
       if ((0 <? N.of_nat idx) && (o <? snd (nth (idx - 1) segs (0, 0))))
          || (negb (Nat.eqb idx (List.length segs))
              && (fst (nth idx segs (0, 0)) <? (o + length) mod u32))
       then Err
       else Ok (insert_at idx (o, (o + length) mod u32) segs)
     else Ok segs) ;;
  (* res[key] = data[o : o+length] *)
  if ((o + length) mod u32 <? o) || (N.of_nat (List.length data) <? (o + length) mod u32)
  then Panic
  else Ok (segs', tput (platformID, encodingID, language) (o, length) res).

Fixpoint dec_records (data : list N) (endOfHeader endOfData : N) (n : nat) (i : N)
         (st : list (N * N) * list (key * (N * N)))
  : outcome (list (N * N) * list (key * (N * N))) :=
  match n with
  | O => Ok st
  | S n' =>
      st' <- dec_record data endOfHeader endOfData i st ;;
      dec_records data endOfHeader endOfData n' (i + 1) st'
  end.

(* cmap.Decode; the result maps each key to (offset, length) of its subtable *)
Definition M_decode_table (data : list N) : outcome (list (key * (N * N))) :=
  let len := N.of_nat (List.length data) in
  if (len <? 4) || (4294967295 <? len) then Err else
  version <- get16 data 0 ;;
  if negb (version =? 0) then Err else
  numTables <- get16 data 2 ;;
  if len <? 4 + 8 * numTables then Err else
  let endOfHeader := (4 + 8 * numTables) mod u32 in
  let endOfData := len mod u32 in
  st <- dec_records data endOfHeader endOfData (N.to_nat numTables) 0 ([], []) ;;
  Ok (snd st).

Definition sub_bytes (data : list N) (ol : N * N) : list N :=
  firstn (N.to_nat (snd ol)) (skipn (N.to_nat (fst ol)) data).

(* the decoded table with the subtable bytes *)
Definition M_decode_table_bytes (data : list N) : outcome (list (key * list N)) :=
  omap (map (fun kv => (fst kv, sub_bytes data (snd kv)))) (M_decode_table data).

(* ------------------------------------------------------------------ *)
(* Table.Encode on the map given as a list sorted by key               *)

Fixpoint bytes_eqb (a b : list N) : bool :=
  match a, b with
  | [], [] => true
  | x :: a', y :: b' => (x =? y) && bytes_eqb a' b'
  | _, _ => false
  end.

(* for j := 0; j < i; j++ { if bytes.Equal(e.Data, ext[j].Data) {...} }: the
   earlier entries carry their Data (nil once shared) and offset *)
Fixpoint find_equal (d : list N) (prev : list (list N * N)) : option N :=
  match prev with
  | [] => None
  | (d', o) :: r => if bytes_eqb d d' then Some o else find_equal d r
  end.

Fixpoint enc_offsets (prev : list (list N * N)) (pos : N) (ext : list (key * list N))
  : list (list N * N) * N :=
  match ext with
  | [] => (prev, pos)
  | (_, d) :: r =>
      match find_equal d prev with
      | Some o => enc_offsets (prev ++ [([], o)]) pos r
      | None => enc_offsets (prev ++ [(d, pos)]) ((pos + N.of_nat (List.length d)) mod u32) r
      end
  end.

(* one 8-byte encoding record *)
Definition rec_bytes (ke : key * (list N * N)) : list N :=
  let '((p, e, _), (_, o)) := ke in be16 p ++ be16 e ++ be32 o.

Definition M_encode_table (t : list (key * list N)) : outcome (list N) :=
  let numTables := N.of_nat (List.length t) in
  let endOfHeader := (4 + 8 * numTables) mod u32 in
  let '(ext, pos) := enc_offsets [] endOfHeader t in
  (* make([]byte, endOfHeader, pos) panics when pos < endOfHeader *)
  if pos <? endOfHeader then Panic else
  Ok ([0; 0] ++ be16 numTables
      ++ flat_map rec_bytes (combine (map fst t) ext)
      ++ flat_map fst ext).

(* ------------------------------------------------------------------ *)
(* Table.Get                                                          *)

Inductive subtable :=
| SubBytes (d : list N)      (* *Format0 *)
| SubMap (m : amap).         (* Format4 / Format12 *)

Section Get.
Variable macrune : N -> N.   (* mac.DecodeOne(byte(code)) as a number *)

Definition unicode (c : N) : N := c.

(* decoders[format](data, code2rune) *)
Definition M_get_sub (k : key) (data : list N) : outcome subtable :=
  let '(p, e, _) := k in
  if (p =? 1) && negb (e =? 0) then Err else
  let mac := p =? 1 in
  let c2r := if mac then macrune else unicode in
  format <- get16 data 0 ;;
  if format =? 0 then omap SubBytes (M_decode0 data)
  else if format =? 4 then omap SubMap (M_decode4 c2r data)
  else if format =? 6 then omap SubMap (M_decode6 c2r data)
  else if format =? 12 then omap SubMap (M_decode12 mac data)
  else if (format =? 2) || (format =? 8) || (format =? 10) || (format =? 13) || (format =? 14)
  then Err                       (* notImplemented *)
  else Panic.                    (* decoders[format] is nil *)

(* decodeFormat0 when a code2rune function is supplied (Macintosh key), as
   repaired (fixes/C09-format0-mac-code2rune.diff): a *Format0 is indexed by the
   rune itself, so the translated mapping is returned as a Format4
     for c, g := range data { if g != 0 { res[uint16(code2rune(c))] = glyph.ID(g) } } *)
Fixpoint dec0_mac_loop (c : N) (d : list N) (acc : amap) : amap :=
  match d with
  | [] => acc
  | g :: r => dec0_mac_loop (c + 1) r (if g =? 0 then acc else put (macrune c mod u16) g acc)
  end.

Definition M_decode0_mac (data : list N) : outcome amap :=
  if N.of_nat (length data) <? 6 then Panic else
  let d := skipn 6 data in
  if negb (N.of_nat (length d) =? f0_dataLen) then Err else
  Ok (frev (dec0_mac_loop 0 d [])).

(* Table.Get after the key was found, as it is now.  [M_get_sub] above is the
   dispatch for every key except (Macintosh, format 0) - part C10B builds on it
   with its raw key (3,1) - and shows the code as found for that one
   combination: the byte table handed out untranslated (genuine defect
   c09-format0-mac-codes-not-translated). *)
Definition M_get_sub2 (k : key) (data : list N) : outcome subtable :=
  let '(p, e, _) := k in
  if (p =? 1) && (e =? 0) then
    format <- get16 data 0 ;;
    if format =? 0 then omap SubMap (M_decode0_mac data) else M_get_sub k data
  else M_get_sub k data.

Definition M_get (t : list (key * list N)) (k : key) : outcome subtable :=
  match tget k t with
  | None => Err
  | Some d => M_get_sub2 k d
  end.

(* GetBest: the first candidate whose Get succeeds; the index of the candidate *)
Fixpoint getbest_from (t : list (key * list N)) (cands : list (N * N)) (i : N)
  : outcome (N * subtable) :=
  match cands with
  | [] => Err
  | (p, e) :: r =>
      match M_get t (p, e, 0) with
      | Ok s => Ok (i, s)
      | Panic => Panic
      | _ => getbest_from t r (i + 1)
      end
  end.

Definition M_getbest (t : list (key * list N)) : outcome (N * subtable) :=
  getbest_from t getbest_candidates 0.

End Get.

(* Font.InstallCMap: the keys of the new table for a subtable whose CodeRange
   has upper end [high] *)
Definition M_installcmap_keys (high : Z) : list key :=
  map (fun pe => (fst pe, snd pe, 0)) (installcmap_keys high).
