(* C09/Proofs_06.v — the byte encoding table (format 0) and the trimmed table
   mapping (format 6): the decoders return the mapping the specification
   defines. *)
From Coq Require Import List NArith ZArith Lia Bool Arith.
From Coq Require Import ZifyBool ZifyNat ZifyN.
From Common Require Import Bytes Outcome.
From Gen Require Import C09.
From C09 Require Import Model Model4 Util Proofs_4dec Proofs_T.
Import ListNotations.
Ltac Zify.zify_post_hook ::= Z.div_mod_to_equations.
Local Open Scope N_scope.

Lemma nth_skipn {A} (l : list A) k i d : nth i (skipn k l) d = nth (k + i) l d.
Proof.
  revert l. induction k as [|k IH]; intros l; [reflexivity|].
  destruct l as [|x r]; [now destruct i|]. cbn [skipn plus nth]. apply IH.
Qed.

(* ---------- format 0 ---------- *)

Lemma decode0_spec data d :
  M_decode0 data = Ok d ->
  N.of_nat (length data) = 262 /\ d = skipn 6 data /\
  (forall c, c < 256 -> M_lookup0 d (Z.of_N c) = Ok (S_lookup0 data c)) /\
  (forall c, 256 <= c -> M_lookup0 d (Z.of_N c) = Ok 0 /\ S_lookup0 data c = 0).
Proof.
  unfold M_decode0. change f0_dataLen with 256.
  destruct (N.of_nat (length data) <? 6) eqn:E1; [discriminate|].
  destruct (negb (N.of_nat (length (skipn 6 data)) =? 256)) eqn:E2; [discriminate|].
  intros H. apply Ok_inj in H. subst d. apply negb_false_iff, N.eqb_eq in E2. rewrite skipn_length in E2.
  split; [lia|]. split; [reflexivity|]. split.
  - intros c Hc. unfold M_lookup0, S_lookup0.
    replace (255 <? Z.of_N c)%Z with false by lia. replace (Z.of_N c <? 0)%Z with false by lia.
    replace (c <? 256) with true by lia.
    rewrite nth_skipn. do 2 f_equal. lia.
  - intros c Hc. unfold M_lookup0, S_lookup0.
    replace (255 <? Z.of_N c)%Z with true by lia. replace (c <? 256) with false by lia. auto.
Qed.

Lemma decode0_encode0 d lang :
  N.of_nat (length d) = 256 -> M_decode0 (M_encode0 d lang) = Ok d.
Proof.
  intros H. unfold M_decode0, M_encode0. change f0_dataLen with 256.
  rewrite !app_length, be16_length. cbn [length].
  replace (N.of_nat (4 + (2 + length d)) <? 6) with false by lia.
  change (skipn 6 ([0; 0; 1; 6] ++ be16 lang ++ d)) with d.
  replace (negb (N.of_nat (length d) =? 256)) with false by lia. reflexivity.
Qed.

(* ---------- format 6 ---------- *)

Lemma dec6_loop_spec first n : forall d i acc,
  length d = (2 * n)%nat -> desc acc -> keys_lt acc (i + first) ->
  i + first + N.of_nat n <= 65536 ->
  let acc1 := dec6_loop idc i first d acc in
  desc acc1 /\ keys_lt acc1 (i + first + N.of_nat n) /\
  forall c, lookup acc1 c
            = if (i + first <=? c) && (c <? i + first + N.of_nat n)
              then rd16 (skipn (2 * N.to_nat (c - (i + first))) d) else lookup acc c.
Proof.
  induction n as [|n IH]; intros d i acc Hl Hd Hk Hn; cbv zeta.
  - destruct d; [|discriminate Hl]. cbn [dec6_loop]. rewrite N.add_0_r.
    split; [assumption|]. split; [assumption|]. intros c.
    replace ((i + first <=? c) && (c <? i + first)) with false by lia. reflexivity.
  - destruct d as [|a [|b r]]; try (cbn [length] in Hl; lia).
    cbn [dec6_loop].
    set (gid := a * 256 + b).
    set (acc0 := if gid =? 0 then acc else put (idc (i + first) mod u16) gid acc).
    assert (Hkey : idc (i + first) mod u16 = i + first) by (unfold idc, u16; lia).
    assert (Hd0 : desc acc0).
    { subst acc0. destruct (gid =? 0); [assumption|]. now apply desc_put. }
    assert (Hk0 : keys_lt acc0 (i + 1 + first)).
    { subst acc0. destruct (gid =? 0).
      - apply keys_lt_weaken with (i + first); [assumption|lia].
      - rewrite Hkey. apply keys_lt_put; [|lia].
        apply keys_lt_weaken with (i + first); [assumption|lia]. }
    pose proof (IH r (i + 1) acc0 ltac:(cbn [length] in Hl; lia) Hd0 Hk0 ltac:(lia)) as H.
    cbv zeta in H. destruct H as (H1 & H2 & H3).
    split; [exact H1|]. split.
    + replace (i + first + N.of_nat (S n)) with (i + 1 + first + N.of_nat n) by lia. exact H2.
    + intros c. rewrite H3.
      destruct ((i + 1 + first <=? c) && (c <? i + 1 + first + N.of_nat n)) eqn:E1.
      * replace ((i + first <=? c) && (c <? i + first + N.of_nat (S n))) with true by lia.
        replace (2 * N.to_nat (c - (i + first)))%nat
          with (S (S (2 * N.to_nat (c - (i + 1 + first))))) by lia.
        reflexivity.
      * destruct (N.eq_dec c (i + first)) as [->|Hne].
        -- replace ((i + first <=? i + first) && (i + first <? i + first + N.of_nat (S n)))
             with true by lia.
           rewrite N.sub_diag. replace (2 * N.to_nat 0)%nat with 0%nat by lia.
           cbn [skipn]. change (rd16 (a :: b :: r)) with gid.
           subst acc0. destruct (gid =? 0) eqn:E0.
           ++ rewrite (lookup_keys_lt acc (i + first) (i + first)) by (assumption || lia). lia.
           ++ rewrite Hkey, lookup_put, N.eqb_refl. reflexivity.
        -- replace ((i + first <=? c) && (c <? i + first + N.of_nat (S n))) with false by lia.
           subst acc0. destruct (gid =? 0); [reflexivity|].
           rewrite Hkey, lookup_put. replace (i + first =? c) with false by lia. reflexivity.
Qed.

Lemma skipn_firstn_rd16 (l : list N) k n :
  (k + 2 <= n)%nat -> rd16 (skipn k (firstn n l)) = rd16 (skipn k l).
Proof.
  intros H. rewrite skipn_firstn_comm. apply rd16_firstn. lia.
Qed.

Lemma decode6_spec data m :
  M_decode6 idc data = Ok m ->
  sorted_keys m = true /\ forall c, lookup m c = S_lookup6 data c.
Proof.
  unfold M_decode6. change f6_minLen with 10. change f6_maxCodeEnd with 65536.
  set (len := N.of_nat (length data)).
  destruct (len <? 10) eqn:E1; [discriminate|].
  set (first := rd16 (skipn 6 data)). set (count := rd16 (skipn 8 data)).
  destruct (65536 <? first + count) eqn:E2; [discriminate|].
  set (data' := if (len =? 10 + 2 * count + 2)
                   && (nth (N.to_nat (10 + 2 * count)) data 1 =? 0)
                   && (nth (N.to_nat (10 + 2 * count + 1)) data 1 =? 0)
                then firstn (N.to_nat (10 + 2 * count)) data else data).
  destruct (negb (N.of_nat (length data') =? 10 + 2 * count)) eqn:E3; [discriminate|].
  apply negb_false_iff, N.eqb_eq in E3.
  intros H0. apply Ok_inj in H0. subst m.
  assert (Hl : length (skipn 10 data') = (2 * N.to_nat count)%nat) by (rewrite skipn_length; lia).
  pose proof (dec6_loop_spec first (N.to_nat count) (skipn 10 data') 0 [] Hl I I ltac:(lia)) as H.
  cbv zeta in H. destruct H as (H1 & H2 & H3).
  rewrite frev_rev. split; [now apply sorted_keys_rev_desc|].
  intros c. rewrite lookup_rev_desc by assumption. rewrite H3.
  unfold S_lookup6. fold first count. cbn [lookup].
  replace (0 + first) with first by lia.
  replace (c <? first + N.of_nat (N.to_nat count)) with (c <? first + count) by lia.
  destruct ((first <=? c) && (c <? first + count)) eqn:Ein; [|reflexivity].
  rewrite skipn_skipn'.
  replace (10 + 2 * N.to_nat (c - first))%nat with (N.to_nat (10 + 2 * (c - first))) by lia.
  subst data'.
  destruct ((len =? 10 + 2 * count + 2)
            && (nth (N.to_nat (10 + 2 * count)) data 1 =? 0)
            && (nth (N.to_nat (10 + 2 * count + 1)) data 1 =? 0)); [|reflexivity].
  apply skipn_firstn_rd16. lia.
Qed.
