(* C09: the Lookup methods of the 16-bit map type (cmap.Format4, which is also
   what decodeFormat6 returns).  Mirrors cmap/format4.go Format4.Lookup. *)
From Coq Require Import List NArith ZArith Bool.
From C09 Require Import Model.
Import ListNotations.
Local Open Scope N_scope.

(* Format4.Lookup as repaired (fix: range test before the map access): a rune
   outside 0..0xFFFF is not in the Basic Multilingual Plane -> glyph 0;
   otherwise the Go map access cmap[uint16(r)] (absent key = 0) *)
Definition M_lookup4 (m : amap) (r : Z) : N :=
  if ((r <? 0) || (65535 <? r))%Z then 0 else lookup m (Z.to_N r).

(* Format4.Lookup as found: cmap[uint16(r)], the conversion truncates *)
Definition M_lookup4_found (m : amap) (r : Z) : N :=
  lookup m (Z.to_N (r mod 65536)).

(* the mapping a 16-bit subtable format defines on ALL code points: its
   specification lookup on 0..0xFFFF, glyph 0 above *)
Definition S_lookup16_full (spec : N -> N) (c : N) : N :=
  if c <=? 65535 then spec c else 0.
