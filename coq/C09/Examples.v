(* C09/Examples.v — non-vacuity: concrete values satisfying the hypotheses of
   the theorems, evaluated with vm_compute, and refutation witnesses. *)
From Coq Require Import List NArith ZArith Bool Lia.
From Common Require Import Bytes Outcome.
From Gen Require Import C09.
From C09 Require Import Model.
Import ListNotations.
Local Open Scope N_scope.

Definition ex12 : amap := [(10, 65535); (11, 0); (12, 1); (65, 7); (66, 8); (1114111, 9)].

Example ex12_hyps :
  sorted_keys ex12 = true /\
  forallb (fun p => (fst p <? 4294967295) && (snd p <? 65536)) ex12 = true.
Proof. vm_compute. split; reflexivity. Qed.

Example ex12_roundtrip : M_decode12 false (M_encode12 ex12 3) = Ok ex12.
Proof. vm_compute. reflexivity. Qed.

(* the glyph id run 65535 -> 0 is not merged into one group (before the fix
   fixes/C09-format12-gid-wrap-run.diff it was, and a specification-conforming
   reader then saw glyph 65536 for code 11) *)
Example ex12_groups :
  M_segs12 ex12 = [(10, 10, 65535); (11, 12, 0); (65, 66, 7); (1114111, 1114111, 9)].
Proof. vm_compute. reflexivity. Qed.

Example ex12_spec_lookup :
  map (S_lookup12 (M_encode12 ex12 0)) [9; 10; 11; 12; 13; 65; 66; 67; 1114111]
  = [0; 65535; 0; 1; 0; 7; 8; 0; 9].
Proof. vm_compute. reflexivity. Qed.

(* a map containing the key 0xFFFFFFFF is outside the theorem: the decoder
   rejects endCharCode = 0xFFFFFFFF *)
Example format12_key_ffffffff_refuted :
  M_decode12 false (M_encode12 [(4294967295, 1)] 0) = Err.
Proof. vm_compute. reflexivity. Qed.

(* ------------------------------------------------------------------ *)
(* format 4                                                           *)
From C09 Require Import Model4 ModelT.

(* a map with a delta run, a gap, unrelated glyph ids, a glyph id wrapping
   past 65535 and code 0xFFFF mapped *)
Definition ex4 : amap :=
  [(32, 1); (33, 2); (34, 3); (35, 4); (36, 5); (40, 900); (41, 17); (42, 5000); (43, 3);
   (100, 65535); (101, 0); (102, 1); (65535, 77)].
Definition m4 : N -> N := lookup ex4.

(* hypothesis "glyph ids are 16 bit" *)
Example ex4_gid16 : forallb (fun p => snd p <? 65536) ex4 = true.
Proof. vm_compute. reflexivity. Qed.

(* a path: always follow the first / always the last proposed edge *)
Fixpoint walk (pick : list seg4 -> option seg4) (fuel : nat) (v : N) : list seg4 :=
  match fuel with
  | O => []
  | S f => match pick (M_edges m4 v) with
           | None => []
           | Some s => s :: walk pick f (M_edge_to s)
           end
  end.
Definition first_edge (l : list seg4) := match l with [] => None | s :: _ => Some s end.
Definition last_edge (l : list seg4) := match rev l with [] => None | s :: _ => Some s end.
Definition ex4_path_a := walk first_edge 40 0.
Definition ex4_path_b := walk last_edge 40 0.

Example ex4_paths_differ : ex4_path_a <> ex4_path_b /\ existsb s_vals ex4_path_b = true.
Proof. split; [vm_compute; discriminate|vm_compute; reflexivity]. Qed.

(* hypotheses of format4_any_path_correct hold for both *)
Example ex4_path_hyps :
  path_ok m4 0 ex4_path_a = true /\ path_ok m4 0 ex4_path_b = true /\
  (emit4_size m4 ex4_path_a <=? 65535) = true /\ (emit4_size m4 ex4_path_b <=? 65535) = true.
Proof. vm_compute. repeat split; reflexivity. Qed.

(* and the conclusion, evaluated: the specification lookup on the emitted
   bytes gives the map on all 65536 codes *)
Definition all_codes_ok (segs : list seg4) : bool :=
  match M_emit4 m4 segs 0 with
  | Ok b => N.eqb (N.peano_rect (fun _ => N) 0
                     (fun c bad => match S_lookup4 b c with
                                   | Some g => if g =? m4 c then bad else bad + 1
                                   | None => bad + 1 end) 65536) 0
  | _ => false
  end.
Example ex4_lookup_all : all_codes_ok ex4_path_a = true /\ all_codes_ok ex4_path_b = true.
Proof. vm_compute. split; reflexivity. Qed.

(* the library's decoder on the emitted bytes returns the non-zero entries *)
Example ex4_decode :
  match M_emit4 m4 ex4_path_b 0 with
  | Ok b => M_decode4 (fun c => c) b = Ok (filter (fun p => negb (snd p =? 0)) ex4)
  | _ => False
  end.
Proof. vm_compute. reflexivity. Qed.

(* the repaired decoder adds idDelta to glyphIdArray values (before
   fixes/C09-format4-iddelta-with-rangeoffset.diff it returned 65 -> 10) *)
Definition ex4_iddelta : list N :=
  [0;4; 0;36; 0;0; 0;4; 0;4; 0;1; 0;0;  0;66; 255;255;  0;0;  0;65; 255;255;  0;5; 0;1;  0;4; 0;0;  0;10; 0;0].
Example ex4_iddelta_decode :
  M_decode4 (fun c => c) ex4_iddelta = Ok [(65, 15)] /\
  S_lookup4 ex4_iddelta 65 = Some 15 /\ S_lookup4 ex4_iddelta 66 = Some 0.
Proof. vm_compute. repeat split; reflexivity. Qed.

(* the tolerated invalid last segment: specification undefined, decoder 0 *)
Definition ex4_badlast : list N :=
  [0;4; 0;24; 0;0; 0;2; 0;2; 0;0; 0;0;  255;255;  0;0;  255;255;  0;0;  255;254].
Example ex4_badlast_decode :
  M_decode4 (fun c => c) ex4_badlast = Ok [] /\ S_lookup4 ex4_badlast 65535 = None.
Proof. vm_compute. split; reflexivity. Qed.

(* Outside the quantifier (DESIGN 5.C): 8191 isolated codes need 8192
   segments = 65552 bytes; Encode does not panic and the 16-bit Length field
   silently holds 16.  The theorem's hypothesis emit4_size <= 65535 is exactly
   what excludes this. *)
Definition m_big (c : N) : N :=
  if (c mod 8 =? 0) && (c <? 65528) then (c / 8 * 7 + 1) mod 65536 else 0.
Fixpoint walk_big (fuel : nat) (v : N) : list seg4 :=
  match fuel with
  | O => []
  | S f => match M_edges m_big v with
           | [] => []
           | s :: _ => s :: walk_big f (M_edge_to s)
           end
  end.
Definition big_segs : list seg4 := walk_big (N.to_nat 9000) 0.
Definition on_ok {A} (o : outcome A) (f : A -> bool) : bool :=
  match o with Ok a => f a | _ => false end.
Definition big_check : bool :=
  path_ok m_big 0 big_segs && (emit4_size m_big big_segs =? 65552) &&
  on_ok (M_emit4 m_big big_segs 0)
        (fun b => (N.of_nat (length b) =? 65552) &&
                  match word_at b 2 with Some l => l =? 16 | None => false end).
Example format4_length_wraps_beyond_64k : big_check = true.
Proof. vm_cast_no_check (eq_refl true). Qed.

(* ------------------------------------------------------------------ *)
(* table level                                                        *)

Definition ex_f6 : list N := [0;6; 0;12; 0;0; 0;65; 0;1; 0;9].
Definition ex_table : list N :=
  [0;0; 0;2;  0;0; 0;3; 0;0;0;20;  0;3; 0;1; 0;0;0;20] ++ ex_f6.
Example ex_table_decode :
  M_decode_table ex_table = Ok [((0, 3, 0), (20, 12)); ((3, 1, 0), (20, 12))].
Proof. vm_compute. reflexivity. Qed.
Example ex_table_best :
  match M_decode_table_bytes ex_table with
  | Ok t => M_getbest (fun c => c) t = Ok (2, SubMap [(65, 9)])
  | _ => False
  end.
Proof. vm_compute. reflexivity. Qed.
Example ex_table_encode :
  M_encode_table [((0, 3, 0), ex_f6); ((3, 1, 0), ex_f6)] = Ok ex_table.
Proof. vm_compute. reflexivity. Qed.

(* hypotheses of table_roundtrip on a table with a shared subtable and a Mac
   subtable carrying its own language *)
From C09 Require Import Proofs_Trt.
Definition ex_f6_mac : list N := [0;6; 0;12; 0;5; 0;65; 0;1; 0;9].
Definition ex_t : list (key * list N) :=
  [((0, 3, 0), ex_f6); ((1, 0, 5), ex_f6_mac); ((3, 1, 0), ex_f6)].
Example ex_t_hyps : keys_sorted (map fst ex_t) = true /\ Forall wf_entry ex_t.
Proof.
  split; [reflexivity|].
  repeat constructor; cbn; try lia;
    (eexists; eexists; eexists; split; [reflexivity|]; cbn; repeat split; lia).
Qed.
Definition ex_t_bytes : list N :=
  match M_encode_table ex_t with Ok b => b | _ => [] end.
Example ex_t_roundtrip :
  M_encode_table ex_t = Ok ex_t_bytes /\ M_decode_table_bytes ex_t_bytes = Ok ex_t /\
  N.of_nat (length ex_t_bytes) = 4 + 8 * 3 + 12 + 12 /\ distinct_len [] ex_t = 24.
Proof. vm_compute. repeat split; reflexivity. Qed.
