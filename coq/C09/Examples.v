(* C09/Examples.v — non-vacuity: concrete values satisfying the hypotheses of
   the theorems, evaluated with vm_compute, and refutation witnesses. *)
From Coq Require Import List NArith ZArith Bool Lia.
From Common Require Import Bytes Outcome.
From Gen Require Import C09.
From C09 Require Import Model.
Import ListNotations.
Local Open Scope N_scope.

Definition ex12 : amap := [(10, 65535); (11, 0); (12, 1); (65, 7); (66, 8); (1114111, 9)].

Example ex12_hyps :
  sorted_keys ex12 = true /\
  forallb (fun p => (fst p <? 4294967295) && (snd p <? 65536)) ex12 = true.
Proof. vm_compute. split; reflexivity. Qed.

Example ex12_roundtrip : M_decode12 false (M_encode12 ex12 3) = Ok ex12.
Proof. vm_compute. reflexivity. Qed.

(* the glyph id run 65535 -> 0 is not merged into one group (before the fix
   fixes/C09-format12-gid-wrap-run.diff it was, and a specification-conforming
   reader then saw glyph 65536 for code 11) *)
Example ex12_groups :
  M_segs12 ex12 = [(10, 10, 65535); (11, 12, 0); (65, 66, 7); (1114111, 1114111, 9)].
Proof. vm_compute. reflexivity. Qed.

Example ex12_spec_lookup :
  map (S_lookup12 (M_encode12 ex12 0)) [9; 10; 11; 12; 13; 65; 66; 67; 1114111]
  = [0; 65535; 0; 1; 0; 7; 8; 0; 9].
Proof. vm_compute. reflexivity. Qed.

(* a map containing the key 0xFFFFFFFF is outside the theorem: the decoder
   rejects endCharCode = 0xFFFFFFFF *)
Example format12_key_ffffffff_refuted :
  M_decode12 false (M_encode12 [(4294967295, 1)] 0) = Err.
Proof. vm_compute. reflexivity. Qed.
