(* C09/Proofs_4spec.v — the format-4 specification lookup on a subtable given
   as a list of 16-bit words equals a search over the four parallel arrays
   (word level).  Both the encoder theorem and the decoder theorem are proved
   against the word-level search [Wsearch]; this file is the bridge to the
   byte-level definition S_lookup4. *)
From Coq Require Import List NArith ZArith Lia Bool Arith.
From Coq Require Import ZifyBool ZifyNat ZifyN.
From Common Require Import Bytes Outcome.
From Gen Require Import C09.
From C09 Require Import Model Model4 Util.
Import ListNotations.
Ltac Zify.zify_post_hook ::= Z.div_mod_to_equations.
Local Open Scope N_scope.

(* the search over endCode / startCode / idDelta / idRangeOffset in lockstep;
   [rs ++ gia] are the words from the current idRangeOffset entry onwards, so
   that  *(idRangeOffset[i]/2 + (c - startCode[i]) + &idRangeOffset[i])  is
   element  ro/2 + (c - s)  of that list *)
Fixpoint Wsearch (es ss ds rs gia : list N) (c : N) : option N :=
  match es, ss, ds, rs with
  | e :: es', s :: ss', d :: ds', ro :: rs' =>
      if e <? c then Wsearch es' ss' ds' rs' gia c
      else if c <? s then Some 0
      else if ro =? 0 then Some ((c + d) mod u16)
      else
        match nth_error (rs ++ gia) (N.to_nat (ro / 2 + (c - s))) with
        | None => None
        | Some g => if g =? 0 then Some 0 else Some ((g + d) mod u16)
        end
  | [], _, _, _ => Some 0
  | _, _, _, _ => None
  end.

Definition words_ok (ws : list N) : Prop := Forall (fun w => w < 65536) ws.

Lemma skipn_flat_be16 j : forall ws,
  skipn (2 * j) (flat_map be16 ws) = flat_map be16 (skipn j ws).
Proof.
  induction j as [|j IH]; intros ws; [reflexivity|].
  destruct ws as [|w r]; [reflexivity|].
  replace (2 * S j)%nat with (S (S (2 * j))) by lia.
  cbn [flat_map skipn]. unfold be16 at 1. cbn [app skipn]. apply IH.
Qed.

Lemma word_at_words ws j :
  words_ok ws -> word_at (flat_map be16 ws) (2 * N.of_nat j) = nth_error ws j.
Proof.
  intros Hok. unfold word_at.
  replace (N.to_nat (2 * N.of_nat j)) with (2 * j)%nat by lia.
  rewrite skipn_flat_be16.
  assert (Hok' : words_ok (skipn j ws)).
  { unfold words_ok in *. rewrite Forall_forall in *. intros x Hx. apply Hok.
    rewrite <- (firstn_skipn j ws). apply in_or_app. now right. }
  rewrite <- (firstn_skipn j ws) at 2.
  destruct (skipn j ws) as [|w r] eqn:E.
  - cbn [flat_map]. symmetry. apply nth_error_None.
    rewrite app_nil_r, firstn_length.
    assert (length (skipn j ws) = 0%nat) by now rewrite E.
    rewrite skipn_length in H. lia.
  - cbn [flat_map]. unfold be16 at 1. cbn [app].
    inversion Hok' as [|? ? Hw _]; subst.
    assert (Hj : (j <= length ws)%nat).
    { destruct (Nat.le_gt_cases j (length ws)); [assumption|].
      rewrite skipn_all2 in E by lia. discriminate. }
    rewrite nth_error_app2 by (rewrite firstn_length; lia).
    rewrite firstn_length. replace (j - Nat.min j (length ws))%nat with 0%nat by lia.
    cbn [nth_error]. f_equal. lia.
Qed.

Lemma nth_error_app_off {A} (a b : list A) j k :
  k = (length a + j)%nat -> nth_error (a ++ b) k = nth_error b j.
Proof. intros ->. rewrite nth_error_app2 by lia. f_equal. lia. Qed.

Lemma skipn_cons_nth {A} (l : list A) i x :
  nth_error l i = Some x -> skipn i l = x :: skipn (S i) l.
Proof.
  revert l. induction i as [|i IH]; intros l H; destruct l as [|y r]; try discriminate.
  - cbn in H. injection H as ->. reflexivity.
  - cbn [nth_error] in H. cbn [skipn]. now apply IH.
Qed.

Lemma nth_error_lt {A} (l : list A) i : (i < length l)%nat -> exists x, nth_error l i = Some x.
Proof.
  intros H. destruct (nth_error l i) eqn:E; [eauto|].
  apply nth_error_None in E. lia.
Qed.

Section Bridge.
Variables (h7 es ss ds rs gia : list N) (pad : N) (n : nat).
Hypothesis Hh : length h7 = 7%nat.
Hypothesis Hes : length es = n.
Hypothesis Hss : length ss = n.
Hypothesis Hds : length ds = n.
Hypothesis Hrs : length rs = n.
Hypothesis Hx2 : nth_error h7 3 = Some (2 * N.of_nat n).

Let ws := h7 ++ es ++ [pad] ++ ss ++ ds ++ rs ++ gia.
Hypothesis Hok : words_ok ws.
Let b := flat_map be16 ws.

Lemma ws_es i : (i < n)%nat -> nth_error ws (7 + i) = nth_error es i.
Proof.
  intros Hi. unfold ws. rewrite (nth_error_app_off h7 _ i) by lia.
  apply nth_error_app1. lia.
Qed.

Lemma ws_ss i : (i < n)%nat -> nth_error ws (8 + n + i) = nth_error ss i.
Proof.
  intros Hi. unfold ws.
  rewrite (nth_error_app_off h7 _ (1 + n + i)) by lia.
  rewrite (nth_error_app_off es _ (1 + i)) by lia.
  rewrite (nth_error_app_off [pad] _ i) by (cbn [length]; lia).
  apply nth_error_app1. lia.
Qed.

Lemma ws_ds i : (i < n)%nat -> nth_error ws (8 + 2 * n + i) = nth_error ds i.
Proof.
  intros Hi. unfold ws.
  rewrite (nth_error_app_off h7 _ (1 + 2 * n + i)) by lia.
  rewrite (nth_error_app_off es _ (1 + n + i)) by lia.
  rewrite (nth_error_app_off [pad] _ (n + i)) by (cbn [length]; lia).
  rewrite (nth_error_app_off ss _ i) by lia.
  apply nth_error_app1. lia.
Qed.

Lemma ws_tail j : nth_error ws (8 + 3 * n + j) = nth_error (rs ++ gia) j.
Proof.
  unfold ws.
  rewrite (nth_error_app_off h7 _ (1 + 3 * n + j)) by lia.
  rewrite (nth_error_app_off es _ (1 + 2 * n + j)) by lia.
  rewrite (nth_error_app_off [pad] _ (2 * n + j)) by (cbn [length]; lia).
  rewrite (nth_error_app_off ss _ (n + j)) by lia.
  rewrite (nth_error_app_off ds _ j) by lia.
  reflexivity.
Qed.

Lemma ws_rs i : (i < n)%nat -> nth_error ws (8 + 3 * n + i) = nth_error rs i.
Proof. intros Hi. rewrite ws_tail. apply nth_error_app1. lia. Qed.

Lemma word_b j : word_at b (2 * N.of_nat j) = nth_error ws j.
Proof. apply word_at_words. exact Hok. Qed.

Lemma S_search4_W c k : forall i, (i + k = n)%nat ->
  S_search4 b (2 * N.of_nat n) c k (N.of_nat i)
  = Wsearch (skipn i es) (skipn i ss) (skipn i ds) (skipn i rs) gia c.
Proof.
  induction k as [|k IH]; intros i Hik.
  - assert (i = n) as -> by lia.
    rewrite (skipn_all2 es) by lia. reflexivity.
  - assert (Hi : (i < n)%nat) by lia.
    destruct (nth_error_lt es i ltac:(lia)) as [e He].
    destruct (nth_error_lt ss i ltac:(lia)) as [s Hs].
    destruct (nth_error_lt ds i ltac:(lia)) as [d Hd].
    destruct (nth_error_lt rs i ltac:(lia)) as [ro Hro].
    rewrite (skipn_cons_nth es i e He), (skipn_cons_nth ss i s Hs),
            (skipn_cons_nth ds i d Hd), (skipn_cons_nth rs i ro Hro).
    cbn [S_search4 Wsearch].
    replace (14 + 2 * N.of_nat i) with (2 * N.of_nat (7 + i)) by lia.
    replace (16 + 2 * N.of_nat n + 2 * N.of_nat i) with (2 * N.of_nat (8 + n + i)) by lia.
    replace (16 + 2 * (2 * N.of_nat n) + 2 * N.of_nat i) with (2 * N.of_nat (8 + 2 * n + i)) by lia.
    replace (16 + 3 * (2 * N.of_nat n) + 2 * N.of_nat i) with (2 * N.of_nat (8 + 3 * n + i)) by lia.
    rewrite !word_b, ws_es, ws_ss, ws_ds, ws_rs by assumption.
    rewrite He, Hs, Hd, Hro.
    destruct (e <? c) eqn:Ec.
    + replace (N.of_nat i + 1) with (N.of_nat (S i)) by lia. apply IH. lia.
    + destruct (c <? s) eqn:Es; [reflexivity|].
      destruct (ro =? 0) eqn:Er; [reflexivity|].
      replace (2 * N.of_nat (8 + 3 * n + i) + 2 * (ro / 2 + (c - s)))
        with (2 * N.of_nat (8 + 3 * n + (i + N.to_nat (ro / 2 + (c - s))))) by lia.
      rewrite word_b, ws_tail.
      replace (ro :: skipn (S i) rs) with (skipn i rs) by (now apply skipn_cons_nth).
      assert (Ht : nth_error (rs ++ gia) (i + N.to_nat (ro / 2 + (c - s)))
                   = nth_error (skipn i rs ++ gia) (N.to_nat (ro / 2 + (c - s)))).
      { rewrite <- (firstn_skipn i rs) at 1. rewrite <- app_assoc.
        apply nth_error_app_off. rewrite firstn_length. lia. }
      rewrite Ht. reflexivity.
Qed.

Lemma S_lookup4_W c : S_lookup4 b c = Wsearch es ss ds rs gia c.
Proof.
  unfold S_lookup4.
  replace 6 with (2 * N.of_nat 3) by lia.
  rewrite word_b. unfold ws. rewrite nth_error_app1 by lia. rewrite Hx2.
  replace (N.to_nat (2 * N.of_nat n / 2)) with n by lia.
  exact (S_search4_W c n 0%nat ltac:(lia)).
Qed.

End Bridge.
