(* C09/Model4.v — format 4.

   S_lookup4    the lookup as the OpenType text defines it, on the bytes
   M_edges      mirror of makeSegments.AppendEdges
   M_emit4      mirror of the assembly in Format4.Encode for a given segment list
   M_decode4    mirror of decodeFormat4 (with the fix
                fixes/C09-format4-iddelta-with-rangeoffset.diff applied)

   A Go map[uint16]glyph.ID is a total function m : N -> N here (0 = absent);
   the type invariant "glyph ids are 16 bit" (m c < 65536) is a hypothesis of
   the theorems. *)
From Coq Require Import List NArith ZArith Lia Bool.
From Common Require Import Bytes Outcome.
From Gen Require Import C09.
From C09 Require Import Model.
Import ListNotations.
Local Open Scope N_scope.

Record seg4 := mkSeg { s_first : N; s_last : N; s_delta : N; s_vals : bool }.

(* ------------------------------------------------------------------ *)
(* the specification lookup                                           *)

(* the 16-bit big-endian word at byte offset [off]; None outside the table *)
Definition word_at (b : list N) (off : N) : option N :=
  match skipn (N.to_nat off) b with
  | x :: y :: _ => Some (x * 256 + y)
  | _ => None
  end.

(* "search for the first endCode that is greater than or equal to the
   character code; if the corresponding startCode is less than or equal to the
   character code, use idDelta / idRangeOffset, otherwise return the missing
   glyph.  If idRangeOffset is not 0:
       glyphId = *(idRangeOffset[i]/2 + (c - startCode[i]) + &idRangeOffset[i])
   and if that value is not 0, idDelta[i] is added (modulo 65536); if
   idRangeOffset is 0, glyphId = (c + idDelta[i]) modulo 65536."
   Layout: endCode at 14, reservedPad, startCode at 16+segCountX2, idDelta at
   16+2*segCountX2, idRangeOffset at 16+3*segCountX2.  None = the
   specification prescribes an access outside the subtable. *)
Fixpoint S_search4 (b : list N) (segX2 c : N) (n : nat) (i : N) : option N :=
  match n with
  | O => Some 0
  | S n' =>
      match word_at b (14 + 2 * i) with
      | None => None
      | Some e =>
          if e <? c then S_search4 b segX2 c n' (i + 1)
          else
            match word_at b (16 + segX2 + 2 * i) with
            | None => None
            | Some s =>
                if c <? s then Some 0
                else
                  match word_at b (16 + 2 * segX2 + 2 * i), word_at b (16 + 3 * segX2 + 2 * i) with
                  | Some d, Some ro =>
                      if ro =? 0 then Some ((c + d) mod u16)
                      else
                        match word_at b (16 + 3 * segX2 + 2 * i + 2 * (ro / 2 + (c - s))) with
                        | None => None
                        | Some g => if g =? 0 then Some 0 else Some ((g + d) mod u16)
                        end
                  | _, _ => None
                  end
            end
      end
  end.

Definition S_lookup4 (b : list N) (c : N) : option N :=
  match word_at b 6 with
  | None => None
  | Some segX2 => S_search4 b segX2 c (N.to_nat (segX2 / 2)) 0
  end.

(* the header fields the specification prescribes for segCount segments *)
Definition S_searchRange (segCount : N) : N := 2 * 2 ^ N.log2 segCount.
Definition S_entrySelector (segCount : N) : N := N.log2 segCount.
Definition S_rangeShift (segCount : N) : N := 2 * segCount - S_searchRange segCount.

(* ------------------------------------------------------------------ *)
(* makeSegments.AppendEdges                                           *)

Section Encode.
Variable m : N -> N.

(* uint16(ms[c]) - uint16(c) *)
Definition gdelta (c : N) : N := (m c + u16 - c mod u16) mod u16.

(* for start < 0xFFFF && ms[start] == 0 { start++ } *)
Fixpoint skip0 (fuel : nat) (s : N) : N :=
  match fuel with
  | O => s
  | S f => if (s <? 65535) && (m s =? 0) then skip0 f (s + 1) else s
  end.

(* for end < 0xFFFF && uint16(ms[end])-uint16(end) == delta { end++ } *)
Fixpoint drun (delta : N) (fuel : nat) (e : N) : N :=
  match fuel with
  | O => e
  | S f => if (e <? 65535) && (gdelta e =? delta) then drun delta f (e + 1) else e
  end.

(* the loop that proposes an explicit-value segment; state: end, prevDelta,
   numDelta, numNotdef.  uint16(end-5), uint16(end-uint32(numNotdef)-1). *)
Fixpoint vloop (start : N) (fuel : nat) (e prevDelta numDelta numNotdef : N) : seg4 :=
  match fuel with
  | O => mkSeg start (((e + u32 - numNotdef - 1) mod u32) mod u16) 0 true
  | S f =>
      if e <? 65535 then
        let g := m e in
        let d := gdelta e in
        let pd := if d =? prevDelta then prevDelta else d in
        let nd := if d =? prevDelta then numDelta + 1 else 1 + numNotdef in
        let nn := if g =? 0 then numNotdef + 1 else 0 in
        if (nd =? 5) || (nn =? 5)
        then mkSeg start (((e + u32 - 5) mod u32) mod u16) 0 true
        else vloop start f (e + 1) pd nd nn
      else mkSeg start (((e + u32 - numNotdef - 1) mod u32) mod u16) 0 true
  end.

Definition M_edges (v : N) : list seg4 :=
  if 65535 <? v then []
  else
    let fuel := N.to_nat (65536 - v) in
    let start := skip0 fuel v in
    let delta := gdelta start in
    if start =? 65535 then [mkSeg 65535 65535 delta false]
    else
      let e := drun delta fuel (start + 1) in
      let s1 := mkSeg start (((e + u32 - 1) mod u32) mod u16) delta false in
      if (4 <=? (e + u32 - start) mod u32) || (start =? 65534) then [s1]
      else [s1; vloop start fuel (start + 1) delta 1 0].

(* makeSegments.To and makeSegments.Length *)
Definition M_edge_to (s : seg4) : N := s_last s + 1.
Definition M_edge_len (s : seg4) : N :=
  if s_vals s then 4 + ((s_last s + u16 - s_first s) mod u16 + 1) else 4.

(* ------------------------------------------------------------------ *)
(* Format4.Encode, the part after the shortest-path call              *)

(* for c := uint32(s.first); c <= uint32(s.last); c++ { append(cmap[uint16(c)]) } *)
Fixpoint vals (n : nat) (c : N) : list N :=
  match n with
  | O => []
  | S k => m c :: vals k (c + 1)
  end.

Definition seg_vals (s : seg4) : list N :=
  vals (N.to_nat (s_last s + 1 - s_first s)) (s_first s).

(* idRangeOffset and glyphIdArray; rem = len(segments) - i, glen =
   len(GlyphIDArray) so far; panic("too many mappings") when an offset does
   not fit 16 bits *)
Fixpoint emit_ro (segs : list seg4) (rem glen : N) : outcome (list N * list N) :=
  match segs with
  | [] => Ok ([], [])
  | s :: r =>
      if s_vals s then
        let offs := 2 * (rem + glen) in
        if f4_maxRangeOffset <? offs then Panic
        else
          let v := seg_vals s in
          match emit_ro r (rem - 1) (glen + N.of_nat (length v)) with
          | Ok (ros, gia) => Ok (offs :: ros, v ++ gia)
          | Err => Err | Panic => Panic | OutOfFuel => OutOfFuel
          end
      else
        match emit_ro r (rem - 1) glen with
        | Ok (ros, gia) => Ok (0 :: ros, gia)
        | Err => Err | Panic => Panic | OutOfFuel => OutOfFuel
        end
  end.

(* the 16-bit words of the subtable *)
Definition emit4_words (segs : list seg4) (lang : N) (ros gia : list N) : list N :=
  let n := N.of_nat (length segs) in
  let sel := N.size n in                                 (* bits.Len(uint(segCount)) *)
  let len := (2 * (8 + 4 * n + N.of_nat (length gia))) mod u16 in
  let scx2 := (2 * n) mod u16 in
  let sr := (2 ^ sel) mod u16 in                         (* uint16: 1 << sel *)
  let es := (sel + u16 - 1) mod u16 in                   (* uint16(sel - 1) *)
  let rs := (scx2 + u16 - sr) mod u16 in                 (* SegCountX2 - SearchRange *)
  [4; len; lang; scx2; sr; es; rs]
    ++ map s_last segs ++ [0] ++ map s_first segs ++ map s_delta segs ++ ros ++ gia.

Definition M_emit4 (segs : list seg4) (lang : N) : outcome (list N) :=
  match emit_ro segs (N.of_nat (length segs)) 0 with
  | Ok (ros, gia) => Ok (flat_map be16 (emit4_words segs lang ros gia))
  | Err => Err | Panic => Panic | OutOfFuel => OutOfFuel
  end.

(* the byte size the encoder computes for a segment list (before the
   truncation to 16 bits) *)
Definition gia_len (segs : list seg4) : N :=
  fold_right (fun s a => (if s_vals s then N.of_nat (length (seg_vals s)) else 0) + a) 0 segs.
Definition emit4_size (segs : list seg4) : N :=
  2 * (8 + 4 * N.of_nat (length segs) + gia_len segs).

(* a path of the graph: consecutive edges proposed by M_edges from vertex v
   to vertex 0x10000 *)
Definition seg_eqb (a b : seg4) : bool :=
  (s_first a =? s_first b) && (s_last a =? s_last b) && (s_delta a =? s_delta b)
  && Bool.eqb (s_vals a) (s_vals b).

Fixpoint path_ok (v : N) (segs : list seg4) : bool :=
  match segs with
  | [] => v =? 65536
  | s :: r => existsb (seg_eqb s) (M_edges v) && path_ok (M_edge_to s) r
  end.

End Encode.

(* ------------------------------------------------------------------ *)
(* decodeFormat4                                                      *)

Fixpoint to_words (l : list N) : list N :=
  match l with
  | a :: b :: r => (a * 256 + b) :: to_words r
  | _ => []
  end.

(* l[lo:hi] with Go's bounds check *)
Definition slice {A} (l : list A) (lo hi : N) : outcome (list A) :=
  if (lo <=? hi) && (hi <=? N.of_nat (length l))
  then Ok (firstn (N.to_nat (hi - lo)) (skipn (N.to_nat lo) l))
  else Panic.

Section Decode.
Variable c2r : N -> N.     (* code2rune *)

(* cmap[uint16(code2rune(int(idx)))] = c *)
Definition store (idx v : N) (acc : amap) : amap := put (c2r idx mod u16) v acc.

(* for idx := start; idx < end; idx++ { c := uint16(idx) + delta; if c != 0 {...} } *)
Fixpoint dfill (n : nat) (idx delta : N) (acc : amap) : amap :=
  match n with
  | O => acc
  | S n' =>
      let c := (idx mod u16 + delta) mod u16 in
      dfill n' (idx + 1) delta (if c =? 0 then acc else store idx c acc)
  end.

(* for idx := start; idx < end; idx++ { c := glyphIDArray[d+int(idx-start)];
   if c != 0 { c += idDelta[k] }; if c != 0 {...} };  [vs] = glyphIDArray[d:] *)
Fixpoint vfill (n : nat) (idx delta : N) (vs : list N) (acc : amap) : outcome amap :=
  match n with
  | O => Ok acc
  | S n' =>
      match vs with
      | [] => Panic
      | g :: vs' =>
          let c := if g =? 0 then 0 else (g + delta) mod u16 in
          vfill n' (idx + 1) delta vs' (if c =? 0 then acc else store idx c acc)
      end
  end.

Fixpoint dec4_loop (segCount glen : N) (gia : list N) (k : N) (es ss ds rs : list N)
         (prevEnd : N) (acc : amap) : outcome amap :=
  match es with
  | [] => Ok acc
  | e :: es' =>
      match ss, ds, rs with
      | s :: ss', d :: ds', ro :: rs' =>
          let end_ := e + 1 in
          if (s <? prevEnd) || (end_ <=? s) then Err
          else if ro =? 0 then
            dec4_loop segCount glen gia (k + 1) es' ss' ds' rs' end_
                      (dfill (N.to_nat (end_ - s)) s d acc)
          else
            let dz := (Z.of_N ro / 2 - (Z.of_N segCount - Z.of_N k))%Z in
            if (dz <? 0)%Z || (Z.of_N glen <? dz + Z.of_N (end_ - s))%Z then
              (* some fonts seem to have invalid data for the last segment *)
              if s =? 65535 then dec4_loop segCount glen gia (k + 1) es' ss' ds' rs' end_ acc
              else Err
            else
              match vfill (N.to_nat (end_ - s)) s d (skipn (Z.to_nat dz) gia) acc with
              | Ok acc' => dec4_loop segCount glen gia (k + 1) es' ss' ds' rs' end_ acc'
              | Err => Err | Panic => Panic | OutOfFuel => OutOfFuel
              end
      | _, _, _ => Panic
      end
  end.

Definition M_decode4 (data : list N) : outcome amap :=
  let len := N.of_nat (length data) in
  if negb (len mod 2 =? 0) || (len <? f4_minLen) then Err else
  let segX2 := rd16 (skipn 6 data) in
  if negb (segX2 mod 2 =? 0) || (len <? 4 * segX2 + 16) then Err else
  let segCount := segX2 / 2 in
  let words := to_words (skipn 14 data) in
  let nw := N.of_nat (length words) in
  endCode <- slice words 0 segCount ;;
  startCode <- slice words (segCount + 1) (2 * segCount + 1) ;;
  idDelta <- slice words (2 * segCount + 1) (3 * segCount + 1) ;;
  idRangeOffset <- slice words (3 * segCount + 1) (4 * segCount + 1) ;;
  gia <- slice words (4 * segCount + 1) nw ;;
  omap (@frev (N * N))
       (dec4_loop segCount (N.of_nat (length gia)) gia 0 endCode startCode idDelta idRangeOffset 0 []).

End Decode.
