(* C09/Props.v — the property theorems.  Nothing but statements here; the
   proofs are in Proofs_*.v. *)
From Coq Require Import List NArith ZArith Bool Lia.
From Common Require Import Bytes Outcome.
From Gen Require Import C09.
From C09 Require Import Model Util Proofs_12.
Import ListNotations.
Local Open Scope N_scope.

(* Format 12 round trip: for every map uint32 -> glyph given as a strictly
   sorted association list with at most 65536 entries (keys below 0xFFFFFFFF,
   glyph ids 16 bit) and every language value, the library's decoder applied to
   the encoder's output returns exactly the map. *)
Theorem format12_roundtrip :
  forall (m : amap) (lang : N),
    sorted_keys m = true ->
    Forall (fun p => fst p < 4294967295 /\ snd p < 65536) m ->
    N.of_nat (length m) <= 65536 ->
    M_decode12 false (M_encode12 m lang) = Ok m.
Proof. intros m lang Hs Hb Hl. exact (decode12_encode12 m lang Hs Hb Hl). Qed.
Print Assumptions format12_roundtrip.

(* The groups written are sorted, disjoint and minimal (no two neighbouring
   groups could be merged), and expanding them gives back the map. *)
Theorem format12_groups :
  forall (m : amap),
    sorted_keys m = true ->
    Forall (fun p => fst p < 4294967295 /\ snd p < 65536) m ->
    segs12_ok None (M_segs12 m) = true /\ flat_map expand12 (M_segs12 m) = m.
Proof. intros m Hs Hb. split; [exact (segs12_ok_enc m Hs Hb)|exact (segs12_expand m Hb)]. Qed.
Print Assumptions format12_groups.
