(* C09/Props.v — the property theorems.  Nothing but statements here; the
   proofs are in Proofs_*.v.  Constants come from Gen/C09.v, regenerated from
   /repo on every run. *)
From Coq Require Import List NArith ZArith Bool Lia.
From Common Require Import Bytes Outcome.
From Gen Require Import C09.
From C09 Require Import Model Model4 ModelT Util Proofs_12 Proofs_4edges Proofs_4spec
  Proofs_4emit Proofs_4dec Proofs_4rt Proofs_T Proofs_06 Proofs_Trt ModelLk Proofs_lk.
Import ListNotations.
Local Open Scope N_scope.

(* ================================================================== *)
(* Format 12                                                          *)

(* Round trip: for every map uint32 -> glyph given as a strictly sorted
   association list with at most 65536 entries (keys below 0xFFFFFFFF, glyph
   ids 16 bit) and every language value, the library's decoder applied to the
   encoder's output returns exactly the map. *)
Theorem format12_roundtrip :
  forall (m : amap) (lang : N),
    sorted_keys m = true ->
    Forall (fun p => fst p < 4294967295 /\ snd p < 65536) m ->
    N.of_nat (length m) <= 65536 ->
    M_decode12 false (M_encode12 m lang) = Ok m.
Proof. intros m lang Hs Hb Hl. exact (decode12_encode12 m lang Hs Hb Hl). Qed.
Print Assumptions format12_roundtrip.

(* An independent, specification-conforming reader (S_lookup12: groups
   searched in order, glyph = startGlyphID + (c - startCharCode), no
   truncation) sees the map's glyph for EVERY code point, and glyph 0 for
   unmapped ones. *)
Theorem format12_spec_reader :
  forall (m : amap) (lang c : N),
    sorted_keys m = true ->
    Forall (fun p => fst p < 4294967295 /\ snd p < 65536) m ->
    N.of_nat (length m) <= 65536 ->
    S_lookup12 (M_encode12 m lang) c = lookup m c.
Proof. intros m lang c Hs Hb Hl. exact (spec12_encode12 m lang c Hs Hb Hl). Qed.
Print Assumptions format12_spec_reader.

(* The groups written are sorted, disjoint and minimal (no two neighbouring
   groups could be merged), and expanding them gives back the map. *)
Theorem format12_groups :
  forall (m : amap),
    sorted_keys m = true ->
    Forall (fun p => fst p < 4294967295 /\ snd p < 65536) m ->
    segs12_ok None (M_segs12 m) = true /\ flat_map expand12 (M_segs12 m) = m.
Proof. intros m Hs Hb. split; [exact (segs12_ok_enc m Hs Hb)|exact (segs12_expand m Hb)]. Qed.
Print Assumptions format12_groups.

(* Segmented tables found in files: whenever the decoder accepts a byte
   string, the map it returns is sorted, has at most 65536 entries and gives,
   for every code point, the glyph the specification defines. *)
Theorem decode12_agrees_with_spec :
  forall (mac : bool) (data : list N) (m : amap),
    Forall (fun b => b < 256) data ->
    M_decode12 mac data = Ok m ->
    sorted_keys m = true /\ N.of_nat (length m) <= 65536 /\
    forall c, lookup m c = S_lookup12 data c.
Proof. intros mac data m Hb H. exact (decode12_spec mac data m Hb H). Qed.
Print Assumptions decode12_agrees_with_spec.

Theorem decode12_total :
  forall (mac : bool) (data : list N), M_decode12 mac data <> Panic.
Proof. exact decode12_no_panic. Qed.
Print Assumptions decode12_total.

(* ================================================================== *)
(* Format 4                                                           *)

(* P1 edges_progress: for every map and every vertex v <= 0xFFFF the graph
   handed to the shortest-path search has an edge at v, every edge ends
   strictly after v and inside the code space, and therefore a path from v to
   0x10000 exists (the search cannot fail) and every path is finite. *)
Theorem edges_progress :
  forall (m : N -> N), (forall c, m c < 65536) ->
  forall v, v <= 65535 ->
    M_edges m v <> [] /\
    (forall s, In s (M_edges m v) -> v < M_edge_to s /\ M_edge_to s <= 65536) /\
    exists segs, path m v segs.
Proof.
  intros m Hm v Hv. split; [exact (edges_nonempty m v Hv)|]. split.
  - intros s Hs. exact (edges_forward m Hm v s Hv Hs).
  - apply (path_exists m Hm). lia.
Qed.
Print Assumptions edges_progress.

(* Every proposed edge is a correct segment: it starts at or after the vertex,
   the codes skipped before it are unmapped, a delta segment satisfies
   (c + idDelta) mod 65536 = m c on all its codes, and an explicit-value
   segment has idDelta 0. *)
Theorem edges_correct :
  forall (m : N -> N), (forall c, m c < 65536) ->
  forall v s, v <= 65535 -> In s (M_edges m v) -> edge_ok m v s.
Proof. intros m Hm v s Hv Hs. exact (edges_sound m Hm v s Hv Hs). Qed.
Print Assumptions edges_correct.

(* P1 format4_any_path_correct: for every map m : uint16 -> glyph, EVERY path
   segs from 0 to 0x10000 built from M_edges edges whose emitted size fits the
   16-bit length field, and every language value: the assembly does not panic,
   the byte length is the computed size, the specification lookup on the bytes
   returns m c for all 65536 codes (0 for unmapped codes, glyph ids wrapping
   modulo 65536 and code 0xFFFF included), the last segment ends at 0xFFFF and
   the header fields are the specification's formulas.  Because the statement
   holds for every path, the shortest-path package is not in the trusted base. *)
Theorem format4_any_path_correct :
  forall (m : N -> N), (forall c, m c < 65536) ->
  forall (segs : list seg4) (lang : N),
    lang < 65536 ->
    path m 0 segs ->
    emit4_size m segs <= 65535 ->
    let n := N.of_nat (length segs) in
    exists b,
      M_emit4 m segs lang = Ok b /\
      N.of_nat (length b) = emit4_size m segs /\
      (forall c, c <= 65535 -> S_lookup4 b c = Some (m c)) /\
      s_last (last segs (mkSeg 0 0 0 false)) = 65535 /\
      word_at b 0 = Some 4 /\                          (* format *)
      word_at b 2 = Some (N.of_nat (length b)) /\      (* length *)
      word_at b 4 = Some lang /\                       (* language *)
      word_at b 6 = Some (2 * n) /\                    (* segCountX2 *)
      word_at b 8 = Some (S_searchRange n) /\
      word_at b 10 = Some (S_entrySelector n) /\
      word_at b 12 = Some (S_rangeShift n) /\
      word_at b (14 + 2 * n) = Some 0.                 (* reservedPad *)
Proof.
  intros m Hm segs lang Hl Hp Hs.
  apply (emit4_correct m Hm segs lang); [|assumption|assumption].
  apply (path_wf m Hm); [lia|assumption].
Qed.
Print Assumptions format4_any_path_correct.

(* The same for the boolean path checker that the harness's model run applies
   to the segmentation found in the implementation's output. *)
Theorem format4_checked_output_correct :
  forall (m : N -> N), (forall c, m c < 65536) ->
  forall (segs : list seg4) (lang : N),
    lang < 65536 -> path_ok m 0 segs = true -> emit4_size m segs <= 65535 ->
    exists b, M_emit4 m segs lang = Ok b /\
              forall c, c <= 65535 -> S_lookup4 b c = Some (m c).
Proof.
  intros m Hm segs lang Hl Hp Hs.
  destruct (emit4_correct m Hm segs lang) as (b & H1 & _ & H3 & _); [|assumption|assumption|eauto].
  apply (path_wf m Hm); [lia|]. now apply path_ok_sound.
Qed.
Print Assumptions format4_checked_output_correct.

(* P1 decode4_agrees_with_spec: whenever decodeFormat4 (code2rune = unicode)
   accepts a byte string, the map it returns is sorted, has at most 65536
   entries, and for every code gives the glyph the specification lookup
   defines.  The one documented tolerance: a final segment 0xFFFF..0xFFFF whose
   idRangeOffset points outside the glyphIdArray is treated as unmapped ("some
   fonts seem to have invalid data for the last segment"). *)
Theorem decode4_agrees_with_spec :
  forall (data : list N) (m' : amap),
    Forall (fun b => b < 256) data ->
    M_decode4 (fun c => c) data = Ok m' ->
    sorted_keys m' = true /\ N.of_nat (length m') <= 65536 /\
    forall c g, c <= 65535 -> S_lookup4 data c = Some g ->
      lookup m' c = g \/ (c = 65535 /\ lookup m' c = 0).
Proof. intros data m' Hb H. exact (decode4_spec data m' Hb H). Qed.
Print Assumptions decode4_agrees_with_spec.

(* Encoder and decoder together: the library's decoder accepts the bytes
   emitted for every path that fits and returns the map: the same glyph for
   every code, 0xFFFF included, glyph 0 for unmapped codes. *)
Theorem format4_roundtrip :
  forall (m : N -> N), (forall c, m c < 65536) ->
  forall (segs : list seg4) (lang : N),
    lang < 65536 -> path m 0 segs -> emit4_size m segs <= 65535 ->
    exists b m',
      M_emit4 m segs lang = Ok b /\
      M_decode4 (fun c => c) b = Ok m' /\
      sorted_keys m' = true /\
      (forall c, c <= 65535 -> lookup m' c = m c).
Proof.
  intros m Hm segs lang Hl Hp Hs.
  assert (Hwf : wf_segs m 0 segs) by (apply (path_wf m Hm); [lia|assumption]).
  destruct (emit4_correct m Hm segs lang Hwf Hl Hs) as (b & H1 & _).
  destruct (decode4_emit4 m Hm segs lang b Hwf Hl Hs H1) as (m' & D1 & D2 & D3).
  exists b, m'. repeat split; assumption.
Qed.
Print Assumptions format4_roundtrip.

(* "gives the same glyph for EVERY code point and glyph 0 for every unmapped
   one", all code points queried: Format4.Lookup (M_lookup4, the method behind
   Subtable.Lookup for format 4 and format 6 subtables) on the map decoded from
   the emitted bytes gives m c for c <= 0xFFFF and glyph 0 for every other code
   point (no bound: also beyond U+10FFFF) and for negative runes. *)
Theorem format4_roundtrip_all_code_points :
  forall (m : N -> N), (forall c, m c < 65536) ->
  forall (segs : list seg4) (lang : N),
    lang < 65536 -> path m 0 segs -> emit4_size m segs <= 65535 ->
    exists b m',
      M_emit4 m segs lang = Ok b /\
      M_decode4 (fun c => c) b = Ok m' /\
      (forall c, M_lookup4 m' (Z.of_N c) = S_lookup16_full m c) /\
      (forall r, (r < 0)%Z -> M_lookup4 m' r = 0).
Proof.
  intros m Hm segs lang Hl Hp Hs.
  destruct (format4_roundtrip m Hm segs lang Hl Hp Hs) as (b & m' & H1 & H2 & _ & H4).
  exists b, m'. repeat split; try assumption.
  - intros c. apply lookup4_full. exact H4.
  - intros r Hr. apply lookup4_outside. now left.
Qed.
Print Assumptions format4_roundtrip_all_code_points.

Theorem lookup4_outside_bmp_is_notdef :
  forall (m : amap) (r : Z), (r < 0 \/ 65535 < r)%Z -> M_lookup4 m r = 0.
Proof. exact lookup4_outside. Qed.
Print Assumptions lookup4_outside_bmp_is_notdef.

(* the code as found (cmap[uint16(r)]) answered a supplementary code point
   with the glyph of its low 16 bits: genuine defect, repaired in /repo
   (findings/C09.json c09-lookup-beyond-bmp) *)
Theorem lookup4_as_found_refuted :
  exists (m : amap) (r : Z), (65535 < r <= 1114111)%Z /\ M_lookup4_found m r <> 0 /\ M_lookup4 m r = 0.
Proof. exact lookup4_found_wraps. Qed.
Print Assumptions lookup4_as_found_refuted.

(* P1 (C02 part): decodeFormat4 never panics, for any bytes and any code2rune. *)
Theorem decode4_total :
  forall (c2r : N -> N) (data : list N), M_decode4 c2r data <> Panic.
Proof. exact decode4_no_panic. Qed.
Print Assumptions decode4_total.

(* ================================================================== *)
(* Formats 0 and 6                                                    *)

(* P2: the byte encoding table decodes to the mapping the specification
   defines (glyphIdArray[c] for c < 256, glyph 0 otherwise); Encode/decode
   round trip. *)
Theorem format0_spec :
  forall (data d : list N),
    M_decode0 data = Ok d ->
    N.of_nat (length data) = 262 /\
    (forall c, c < 256 -> M_lookup0 d (Z.of_N c) = Ok (S_lookup0 data c)) /\
    (forall c, 256 <= c -> M_lookup0 d (Z.of_N c) = Ok 0 /\ S_lookup0 data c = 0).
Proof. intros data d H. destruct (decode0_spec data d H) as (H1 & _ & H3 & H4). auto. Qed.
Print Assumptions format0_spec.

Theorem format0_roundtrip :
  forall (d : list N) (lang : N),
    N.of_nat (length d) = 256 -> M_decode0 (M_encode0 d lang) = Ok d.
Proof. exact decode0_encode0. Qed.
Print Assumptions format0_roundtrip.

(* P2: the trimmed table mapping decodes (code2rune = unicode) to the mapping
   the specification defines: glyphIdArray[c - firstCode] inside
   [firstCode, firstCode + entryCount), glyph 0 outside; an excess 0x0000 at the
   end of the subtable is tolerated and changes nothing. *)
Theorem format6_spec :
  forall (data : list N) (m : amap),
    M_decode6 (fun c => c) data = Ok m ->
    sorted_keys m = true /\ forall c, lookup m c = S_lookup6 data c.
Proof. intros data m H. exact (decode6_spec data m H). Qed.
Print Assumptions format6_spec.

(* P1 (C02 part): decodeFormat6 never panics; decodeFormat0 does not panic on
   inputs of at least 6 bytes (cmap.Decode only hands out subtables of at least
   10 bytes, see get_total; the function itself slices data[6:] unguarded). *)
Theorem decode6_total :
  forall (c2r : N -> N) (data : list N), M_decode6 c2r data <> Panic.
Proof. exact decode6_no_panic. Qed.
Print Assumptions decode6_total.

Theorem decode0_total :
  forall (data : list N), 6 <= N.of_nat (length data) -> M_decode0 data <> Panic.
Proof.
  intros data H. unfold M_decode0.
  replace (N.of_nat (length data) <? 6) with false by lia.
  destruct (negb _); discriminate.
Qed.
Print Assumptions decode0_total.

(* ================================================================== *)
(* The cmap table                                                     *)

(* P1 (C02 part): cmap.Decode never panics; every subtable it returns lies
   inside the table, has at least 10 bytes and one of the format values
   0,2,4,6,8,10,12,13,14; Table.Get on a decoded table never panics (this is
   where decodeFormat0's unguarded data[6:] and the nil entries of the decoder
   table are shown unreachable). *)
Theorem decode_table_total :
  forall (data : list N),
    M_decode_table data <> Panic /\
    forall t, M_decode_table data = Ok t ->
      Forall (fun kv => 10 <= snd (snd kv) /\
                        fst (snd kv) + snd (snd kv) <= N.of_nat (length data) /\
                        valid_format (rd16 (skipn (N.to_nat (fst (snd kv))) data)) = true) t.
Proof. intros data. exact (decode_table_inv data). Qed.
Print Assumptions decode_table_total.

Theorem get_total :
  forall (macrune : N -> N) (data : list N) (t : list (key * list N)) (k : key),
    M_decode_table_bytes data = Ok t -> M_get macrune t k <> Panic.
Proof. intros mr data t k H. exact (get_no_panic mr data t k H). Qed.
Print Assumptions get_total.

(* P2 table_roundtrip: for every table (a Go map keyed by (platform, encoding,
   language), canonicalised as a list strictly sorted in Table.Encode's order)
   whose entries are subtables cmap.Decode can return - wf_entry: platform <= 4,
   encoding id 16 bit, at least 10 bytes, one of the formats 0,2,4,6 / 8,10,12,13
   / 14 with its length field equal to its length (and >= 12 for the 32-bit
   formats), and the key's language equal to the subtable's own language field
   for platform 1 and 0 otherwise - with at most 65535 records and a total size
   below 2^32:  Encode does not panic, Decode of the result returns exactly the
   table (all keys, all subtable bytes, each found at its recorded offset), and
   the encoded length is the header plus every DISTINCT subtable once (equal
   subtables are shared). *)
Theorem table_roundtrip :
  forall (t : list (key * list N)),
    keys_sorted (map fst t) = true ->
    Forall wf_entry t ->
    N.of_nat (length t) <= 65535 ->
    4 + 8 * N.of_nat (length t) + N.of_nat (length (flat_map snd t)) < 4294967296 ->
    exists b,
      M_encode_table t = Ok b /\
      M_decode_table_bytes b = Ok t /\
      N.of_nat (length b) = 4 + 8 * N.of_nat (length t) + distinct_len [] t.
Proof. intros t H1 H2 H3 H4. exact (table_roundtrip_lemma t H1 H2 H3 H4). Qed.
Print Assumptions table_roundtrip.

(* P1 getbest_preference: GetBest returns the subtable of the FIRST entry of
   the candidate list found in cmap.go that is present (with language 0) and
   decodable; it fails only if none is; it never panics on a decoded table. *)
Theorem getbest_preference :
  forall (macrune : N -> N) (t : list (key * list N)),
    (forall i s, M_getbest macrune t = Ok (i, s) ->
       exists j pe, i = N.of_nat j /\ nth_error getbest_candidates j = Some pe /\
         M_get macrune t (fst pe, snd pe, 0) = Ok s /\
         forall j' pe', (j' < j)%nat -> nth_error getbest_candidates j' = Some pe' ->
                        ~ usable macrune t pe') /\
    (M_getbest macrune t = Err ->
       forall pe, In pe getbest_candidates -> ~ usable macrune t pe) /\
    ((forall k, M_get macrune t k <> Panic) -> M_getbest macrune t <> Panic).
Proof.
  intros mr t. split; [|split].
  - intros i s H. destruct (getbest_from_spec mr t _ 0 i s H) as (j & pe & H1 & H2 & H3 & H4).
    exists j, pe. split; [lia|]. split; [assumption|]. split; assumption.
  - intros H. exact (getbest_from_none mr t _ 0 H).
  - intros H. exact (getbest_from_no_panic mr t _ 0 H).
Qed.
Print Assumptions getbest_preference.

(* ... and that list prefers full Unicode (3,10), (0,4) over BMP (3,1), (0,3)
   over the legacy Macintosh encoding (1,0). *)
Theorem getbest_order :
  getbest_candidates = [(3, 10); (0, 4); (3, 1); (0, 3); (1, 0)].
Proof. reflexivity. Qed.
Print Assumptions getbest_order.

(* InstallCMap: encoding ids (0,3)+(3,1) for maps inside the BMP, (0,4)+(3,10)
   as soon as a code above 0xFFFF is mapped; language 0. *)
Theorem installcmap_ids :
  forall high : Z,
    ((high <= 65535)%Z -> M_installcmap_keys high = [(0, 3, 0); (3, 1, 0)]) /\
    ((65535 < high)%Z -> M_installcmap_keys high = [(0, 4, 0); (3, 10, 0)]).
Proof.
  intros high. unfold M_installcmap_keys, installcmap_keys. split; intros H.
  - replace (65535 <? high)%Z with false by lia. reflexivity.
  - replace (65535 <? high)%Z with true by lia. reflexivity.
Qed.
Print Assumptions installcmap_ids.
