(* C09/Proofs_4rt.v — format 4 round trip through the library's own decoder:
   decodeFormat4 accepts the bytes emitted for every path that fits and
   returns the map (every code exactly, including 0xFFFF). *)
From Coq Require Import List NArith ZArith Lia Bool Arith.
From Coq Require Import ZifyBool ZifyNat ZifyN.
From Common Require Import Bytes Outcome.
From Gen Require Import C09.
From C09 Require Import Model Model4 Util Proofs_4edges Proofs_4spec Proofs_4emit Proofs_4dec.
Import ListNotations.
Ltac Zify.zify_post_hook ::= Z.div_mod_to_equations.
Local Open Scope N_scope.

Section RT.
Variable m : N -> N.
Hypothesis Hm : gid16 m.

Lemma nth_vals n f j : (j < n)%nat -> nth j (vals m n f) 0 = m (f + N.of_nat j).
Proof. intros Hj. apply nth_error_nth. now apply nth_error_vals. Qed.

Lemma dec4_loop_emit (sc : N) segs : forall v k pre acc G,
  wf_segs m v segs ->
  N.of_nat (length segs) + k = sc ->
  G = pre ++ gia_of m segs ->
  2 * (N.of_nat (length segs) + N.of_nat (length pre) + gia_len m segs) <= 65535 ->
  desc acc -> keys_lt acc v ->
  exists acc',
    dec4_loop idc sc (N.of_nat (length G)) G k
      (map s_last segs) (map s_first segs) (map s_delta segs)
      (ros_of m segs (N.of_nat (length segs)) (N.of_nat (length pre))) v acc = Ok acc' /\
    desc acc' /\ keys_lt acc' 65536 /\
    forall c, lookup acc' c = if (v <=? c) && (c <=? 65535) then m c else lookup acc c.
Proof.
  induction segs as [|s r IH]; intros v k pre acc G Hwf Hk HG Hsz Hd Hkl.
  - cbn [wf_segs] in Hwf. subst v. exists acc. cbn [map dec4_loop].
    split; [reflexivity|]. split; [assumption|]. split; [assumption|].
    intros c. replace ((65536 <=? c) && (c <=? 65535)) with false by lia. reflexivity.
  - cbn [wf_segs] in Hwf. destruct Hwf as (Hv & Hedge & Hwf).
    destruct Hedge as (E1 & E2 & E3 & E4 & E5 & E6 & E7).
    rewrite gia_len_cons in Hsz. cbn [length] in Hk, Hsz.
    cbn [map ros_of dec4_loop length]. cbv zeta.
    replace ((s_first s <? v) || (s_last s + 1 <=? s_first s)) with false by lia.
    assert (Hcnt : s_first s + N.of_nat (N.to_nat (s_last s + 1 - s_first s)) = s_last s + 1) by lia.
    assert (Hkl' : keys_lt acc (s_first s)) by (apply keys_lt_weaken with v; assumption).
    (* after this segment *)
    assert (Hnext : forall acc1 pre1,
      G = pre1 ++ gia_of m r -> N.of_nat (length pre1) = N.of_nat (length pre) + vlen m s ->
      desc acc1 -> keys_lt acc1 (s_last s + 1) ->
      (forall c, lookup acc1 c = if (s_first s <=? c) && (c <? s_last s + 1) then m c else lookup acc c) ->
      exists acc',
        dec4_loop idc sc (N.of_nat (length G)) G (k + 1)
          (map s_last r) (map s_first r) (map s_delta r)
          (ros_of m r (N.of_nat (S (length r)) - 1) (N.of_nat (length pre) + vlen m s))
          (s_last s + 1) acc1 = Ok acc' /\
        desc acc' /\ keys_lt acc' 65536 /\
        forall c, lookup acc' c = if (v <=? c) && (c <=? 65535) then m c else lookup acc c).
    { intros acc1 pre1 HG1 Hp1 Hd1 Hk1 Hl1.
      destruct (IH (s_last s + 1) (k + 1) pre1 acc1 G Hwf ltac:(lia) HG1 ltac:(lia) Hd1 Hk1)
        as (acc' & L1 & L2 & L3 & L4).
      exists acc'.
      replace (N.of_nat (S (length r)) - 1) with (N.of_nat (length r)) by lia.
      rewrite <- Hp1. split; [exact L1|]. split; [exact L2|]. split; [exact L3|].
      intros c. rewrite L4, Hl1.
      destruct ((s_last s + 1 <=? c) && (c <=? 65535)) eqn:Ea.
      - replace ((v <=? c) && (c <=? 65535)) with true by lia. reflexivity.
      - destruct ((s_first s <=? c) && (c <? s_last s + 1)) eqn:Eb.
        + replace ((v <=? c) && (c <=? 65535)) with true by lia. reflexivity.
        + destruct ((v <=? c) && (c <=? 65535)) eqn:Ec; [|reflexivity].
          (* the gap before the segment *)
          rewrite (lookup_keys_lt acc v c) by (assumption || lia).
          symmetry. apply E5. lia. }
    unfold vlen in *. destruct (s_vals s) eqn:Ev.
    + (* explicit values *)
      replace (2 * (N.of_nat (S (length r)) + N.of_nat (length pre)) =? 0) with false by lia.
      set (dz := (Z.of_N (2 * (N.of_nat (S (length r)) + N.of_nat (length pre))) / 2
                  - (Z.of_N sc - Z.of_N k))%Z).
      assert (Hdz : dz = Z.of_nat (length pre)) by (subst dz; lia).
      assert (HGl : length G = (length pre + length (seg_vals m s) + length (gia_of m r))%nat).
      { rewrite HG. unfold gia_of. cbn [flat_map]. unfold vwords at 1. rewrite Ev.
        rewrite !app_length. lia. }
      assert (Hvl : length (seg_vals m s) = N.to_nat (s_last s + 1 - s_first s))
        by (unfold seg_vals; apply vals_length).
      replace ((dz <? 0)%Z || (Z.of_N (N.of_nat (length G)) <? dz + Z.of_N (s_last s + 1 - s_first s))%Z)
        with false by lia.
      assert (Hskip : skipn (Z.to_nat dz) G = seg_vals m s ++ gia_of m r).
      { rewrite HG, Hdz, Nat2Z.id. unfold gia_of. cbn [flat_map]. unfold vwords at 1. rewrite Ev.
        now apply skipn_app_exact. }
      rewrite Hskip.
      destruct (vfill_spec (N.to_nat (s_last s + 1 - s_first s)) (s_first s) (s_delta s)
                  (seg_vals m s ++ gia_of m r) acc Hd Hkl' ltac:(lia)
                  ltac:(rewrite app_length; lia)) as (acc1 & V0 & V1 & V2 & V3).
      rewrite V0. rewrite Hcnt in V2, V3.
      apply (Hnext acc1 (pre ++ seg_vals m s)); try assumption.
      * rewrite HG. unfold gia_of. cbn [flat_map]. unfold vwords at 1. rewrite Ev.
        now rewrite app_assoc.
      * rewrite app_length. lia.
      * intros c. rewrite V3.
        destruct ((s_first s <=? c) && (c <? s_last s + 1)) eqn:Ein; [|reflexivity].
        rewrite app_nth1 by lia. unfold seg_vals. rewrite nth_vals by lia.
        replace (s_first s + N.of_nat (N.to_nat (c - s_first s))) with c by lia.
        unfold vval. rewrite (E7 eq_refl). pose proof (Hm c).
        destruct (m c =? 0) eqn:Eg; [lia|]. unfold u16. lia.
    + (* delta segment *)
      cbn [N.eqb].
      pose proof (dfill_spec (N.to_nat (s_last s + 1 - s_first s)) (s_first s) (s_delta s) acc
                    Hd Hkl' ltac:(lia)) as HF.
      cbv zeta in HF. destruct HF as (F1 & F2 & F3). rewrite Hcnt in F2, F3.
      apply (Hnext _ pre); try assumption.
      * rewrite HG. unfold gia_of. cbn [flat_map]. unfold vwords at 1. rewrite Ev. reflexivity.
      * lia.
      * intros c. rewrite F3.
        destruct ((s_first s <=? c) && (c <? s_last s + 1)) eqn:Ein; [|reflexivity].
        apply E6; [reflexivity|lia].
Qed.

(* the whole decoder on the emitted bytes *)
Lemma decode4_emit4 segs lang b :
  wf_segs m 0 segs -> lang < 65536 -> emit4_size m segs <= 65535 ->
  M_emit4 m segs lang = Ok b ->
  exists m', M_decode4 idc b = Ok m' /\ sorted_keys m' = true /\
             forall c, c <= 65535 -> lookup m' c = m c.
Proof.
  intros Hwf Hlang Hsz Hb.
  assert (Hne : M_decode4 idc b <> Err \/ M_decode4 idc b = Err) by
    (destruct (M_decode4 idc b); auto; left; discriminate).
  (* unfold the emission *)
  unfold emit4_size in Hsz.
  unfold M_emit4 in Hb. rewrite (emit_ro_ok m) in Hb by lia.
  set (n := length segs) in *.
  set (ros := ros_of m segs (N.of_nat n) 0) in *. set (gia := gia_of m segs) in *.
  assert (Hgl : N.of_nat (length gia) = gia_len m segs) by apply gia_of_length.
  apply Ok_inj in Hb.
  (* run the decoder model directly on b = flat_map be16 ws *)
  set (ws := emit4_words segs lang ros gia) in *.
  assert (Hwl : N.of_nat (length ws) = 8 + 4 * N.of_nat n + gia_len m segs).
  { subst ws. unfold emit4_words. rewrite !app_length, !map_length. subst ros. rewrite ros_of_length.
    cbn [length]. fold n. lia. }
  assert (Hbl : N.of_nat (length b) = 2 * N.of_nat (length ws)).
  { rewrite <- Hb. rewrite (length_flat_map_const be16 2) by apply be16_length. lia. }
  assert (Hbytes : Forall (fun x => x < 256) b) by (rewrite <- Hb; apply flat_be16_bytes).
  assert (Hev : Nat.even (length b) = true).
  { rewrite Nat.even_spec. exists (length ws). lia. }
  assert (Hws : to_words b = ws).
  { (* words are 16 bit: shown by the emission theorem's side conditions *)
    destruct (wf_segs_fields m 0 segs Hwf) as (W1 & W2 & W3).
    assert (Hok : words_ok ws).
    { subst ws. unfold emit4_words, words_ok. repeat (apply Forall_app; split).
      - unfold u16. repeat constructor; lia.
      - exact W1.
      - repeat constructor.
      - exact W2.
      - exact W3.
      - subst ros. apply ros_of_ok. lia.
      - apply gia_of_ok. exact Hm. }
    rewrite <- Hb. clear - Hok. induction ws as [|w r IH]; [reflexivity|].
    inversion Hok as [|? ? Hw Hr]; subst. cbn [flat_map]. unfold be16 at 1. cbn [app to_words].
    rewrite IH by assumption. f_equal. lia. }
  (* the decoder's own checks *)
  assert (Hn1 : 1 <= N.of_nat n).
  { destruct (wf_segs_last m 0 segs Hwf ltac:(lia)) as [Hnn _]. subst n.
    destruct segs; [congruence|cbn [length]; lia]. }
  unfold M_decode4. change f4_minLen with 16.
  set (len := N.of_nat (length b)).
  replace (negb (len mod 2 =? 0) || (len <? 16)) with false by (subst len; lia).
  assert (Hx2 : rd16 (skipn 6 b) = 2 * N.of_nat n).
  { change 6%nat with (2 * 3)%nat. rewrite (rd16_skipn_words b 3) by lia. rewrite Hws. subst ws. unfold emit4_words.
    cbn [app nth]. fold n. unfold u16. apply N.mod_small. lia. }
  rewrite Hx2.
  replace (negb (2 * N.of_nat n mod 2 =? 0) || (len <? 4 * (2 * N.of_nat n) + 16)) with false
    by (subst len; lia).
  replace (2 * N.of_nat n / 2) with (N.of_nat n) by lia.
  assert (Hwords : to_words (skipn 14 b) = skipn 7 ws).
  { rewrite <- Hws. change 14%nat with (2 * 7)%nat. exact (to_words_skipn 7 b). }
  rewrite Hwords.
  (* the seven header words are dropped; what remains are the arrays *)
  assert (Hrest : skipn 7 ws = map s_last segs ++ [0] ++ map s_first segs ++ map s_delta segs ++ ros ++ gia)
    by reflexivity.
  rewrite Hrest.
  set (A := map s_last segs). set (B := map s_first segs). set (C := map s_delta segs).
  assert (LA : length A = n) by (subst A; apply map_length).
  assert (LB : length B = n) by (subst B; apply map_length).
  assert (LC : length C = n) by (subst C; apply map_length).
  assert (LR : length ros = n) by (subst ros; apply ros_of_length).
  set (words := A ++ [0] ++ B ++ C ++ ros ++ gia).
  assert (Lw : length words = (4 * n + 1 + length gia)%nat).
  { subst words. rewrite !app_length. cbn [length]. lia. }
  rewrite (slice_ok words 0 (N.of_nat n)) by lia.
  rewrite (slice_ok words (N.of_nat n + 1) (2 * N.of_nat n + 1)) by lia.
  rewrite (slice_ok words (2 * N.of_nat n + 1) (3 * N.of_nat n + 1)) by lia.
  rewrite (slice_ok words (3 * N.of_nat n + 1) (4 * N.of_nat n + 1)) by lia.
  rewrite (slice_ok words (4 * N.of_nat n + 1) (N.of_nat (length words))) by lia.
  cbn [obind].
  replace (N.to_nat (N.of_nat n - 0)) with n by lia.
  replace (N.to_nat (2 * N.of_nat n + 1 - (N.of_nat n + 1))) with n by lia.
  replace (N.to_nat (3 * N.of_nat n + 1 - (2 * N.of_nat n + 1))) with n by lia.
  replace (N.to_nat (4 * N.of_nat n + 1 - (3 * N.of_nat n + 1))) with n by lia.
  change (N.to_nat 0) with 0%nat. cbn [skipn].
  replace (N.to_nat (N.of_nat n + 1)) with (n + 1)%nat by lia.
  replace (N.to_nat (2 * N.of_nat n + 1)) with (n + 1 + n)%nat by lia.
  replace (N.to_nat (3 * N.of_nat n + 1)) with (n + 1 + n + n)%nat by lia.
  replace (N.to_nat (4 * N.of_nat n + 1)) with (n + 1 + n + n + n)%nat by lia.
  assert (S1 : firstn n words = A) by (subst words; now apply firstn_app_exact).
  assert (K1 : skipn (n + 1) words = B ++ C ++ ros ++ gia).
  { subst words. change (A ++ [0] ++ B ++ C ++ ros ++ gia) with (A ++ [0] ++ (B ++ C ++ ros ++ gia)).
    rewrite app_assoc. apply skipn_app_exact. rewrite app_length. cbn [length]. lia. }
  assert (K2 : skipn (n + 1 + n) words = C ++ ros ++ gia).
  { replace (n + 1 + n)%nat with ((n + 1) + n)%nat by lia. rewrite <- skipn_skipn'. rewrite K1.
    now apply skipn_app_exact. }
  assert (K3 : skipn (n + 1 + n + n) words = ros ++ gia).
  { replace (n + 1 + n + n)%nat with ((n + 1 + n) + n)%nat by lia. rewrite <- skipn_skipn'. rewrite K2.
    now apply skipn_app_exact. }
  assert (K4 : skipn (n + 1 + n + n + n) words = gia).
  { replace (n + 1 + n + n + n)%nat with ((n + 1 + n + n) + n)%nat by lia. rewrite <- skipn_skipn'.
    rewrite K3. now apply skipn_app_exact. }
  rewrite S1, K1, K2, K3, K4.
  rewrite (firstn_app_exact B) by assumption.
  rewrite (firstn_app_exact C) by assumption.
  rewrite (firstn_app_exact ros) by assumption.
  rewrite firstn_all2 by lia.
  destruct (dec4_loop_emit (N.of_nat n) segs 0 0 [] [] gia Hwf ltac:(fold n; lia) eq_refl
              ltac:(fold n; cbn [length]; lia) I I) as (acc & L1 & L2 & L3 & L4).
  fold n in L1. cbn [length] in L1. change (N.of_nat 0) with 0 in L1. fold ros A B C in L1.
  rewrite L1. unfold omap. cbn [obind]. rewrite frev_rev.
  eexists. split; [reflexivity|]. split; [now apply sorted_keys_rev_desc|].
  intros c Hc. rewrite lookup_rev_desc by assumption. rewrite L4.
  replace ((0 <=? c) && (c <=? 65535)) with true by lia. reflexivity.
Qed.

End RT.
