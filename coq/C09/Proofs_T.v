(* C09/Proofs_T.v — cmap.Decode never panics and returns only subtables that
   Table.Get can handle without panicking; GetBest returns the first usable
   candidate; InstallCMap's encoding ids. *)
From Coq Require Import List NArith ZArith Lia Bool Arith.
From Coq Require Import ZifyBool ZifyNat ZifyN.
From Common Require Import Bytes Outcome.
From Gen Require Import C09.
From C09 Require Import Model Model4 ModelT Util Proofs_12 Proofs_4spec Proofs_4dec.
Import ListNotations.
Ltac Zify.zify_post_hook ::= Z.div_mod_to_equations.
Local Open Scope N_scope.

(* ---------- bounds-checked reads ---------- *)

Lemma get8_ok d off : off < N.of_nat (length d) -> exists b, get8 d off = Ok b.
Proof.
  intros H. unfold get8. destruct (nth_error d (N.to_nat off)) eqn:E; [eauto|].
  apply nth_error_None in E. lia.
Qed.

Lemma get16_ok d off : off + 2 <= N.of_nat (length d) -> exists v, get16 d off = Ok v.
Proof.
  intros H. unfold get16.
  destruct (get8_ok d off ltac:(lia)) as [a ->].
  destruct (get8_ok d (off + 1) ltac:(lia)) as [b ->]. cbn [obind]. eauto.
Qed.

Lemma get32_ok d off : off + 4 <= N.of_nat (length d) -> exists v, get32 d off = Ok v.
Proof.
  intros H. unfold get32.
  destruct (get16_ok d off ltac:(lia)) as [a ->].
  destruct (get16_ok d (off + 2) ltac:(lia)) as [b ->]. cbn [obind]. eauto.
Qed.

Lemma get8_nth d off b : get8 d off = Ok b -> nth_error d (N.to_nat off) = Some b.
Proof. unfold get8. destruct (nth_error d (N.to_nat off)); [now intros [= ->]|discriminate]. Qed.

Lemma get16_rd16 d off v : get16 d off = Ok v -> rd16 (skipn (N.to_nat off) d) = v.
Proof.
  unfold get16. intros H. apply obind_ok in H. destruct H as (a & Ha & H).
  apply obind_ok in H. destruct H as (b & Hb & H). injection H as <-.
  apply get8_nth in Ha, Hb.
  replace (N.to_nat (off + 1)) with (S (N.to_nat off)) in Hb by lia.
  rewrite (skipn_cons_nth d (N.to_nat off) a Ha).
  rewrite (skipn_cons_nth d (S (N.to_nat off)) b Hb). reflexivity.
Qed.

(* ---------- cmap.Decode ---------- *)

Definition valid_format (f : N) : bool :=
  (f =? 0) || (f =? 2) || (f =? 4) || (f =? 6) || (f =? 8) || (f =? 10) || (f =? 12) || (f =? 13) || (f =? 14).

(* what Decode guarantees about a returned subtable (offset, length) *)
Definition sub_ok (data : list N) (ol : N * N) : Prop :=
  10 <= snd ol /\ fst ol + snd ol <= N.of_nat (length data) /\
  valid_format (rd16 (skipn (N.to_nat (fst ol)) data)) = true.

Lemma tput_forall {V} (P : V -> Prop) k v (t : list (key * V)) :
  P v -> Forall (fun kv => P (snd kv)) t -> Forall (fun kv => P (snd kv)) (tput k v t).
Proof.
  intros Hv. induction t as [|[k' v'] r IH]; intros Ht; cbn [tput].
  - constructor; [exact Hv|constructor].
  - inversion Ht as [|? ? H1 H2]; subst.
    destruct (key_eqb k' k); [constructor; assumption|].
    destruct (key_ltb k k'); [constructor; assumption|].
    constructor; [assumption|]. now apply IH.
Qed.

Lemma table_consts : table_minLength = 10 /\ table_maxPlatform = 4.
Proof. split; reflexivity. Qed.

Lemma dec_record_inv data eoh i st :
  let len := N.of_nat (length data) in
  12 <= len -> len <= 4294967295 -> 4 + 8 * (i + 1) <= len ->
  Forall (fun kv => sub_ok data (snd kv)) (snd st) ->
  dec_record data eoh len i st <> Panic /\
  forall st', dec_record data eoh len i st = Ok st' ->
              Forall (fun kv => sub_ok data (snd kv)) (snd st').
Proof.
  intros len H12 Hmax Hi Hres. destruct st as [segs res]. cbn [snd] in Hres.
  unfold dec_record. destruct table_consts as [-> ->].
  destruct (get16_ok data (4 + i * 8) ltac:(lia)) as [pid ->]. cbn [obind].
  destruct (4 <? pid); [split; [discriminate|discriminate]|].
  destruct (get16_ok data (6 + i * 8) ltac:(lia)) as [eid ->]. cbn [obind].
  destruct (get32_ok data (8 + i * 8) ltac:(lia)) as [o ->]. cbn [obind].
  replace ((len + u32 - 10) mod u32) with (len - 10) by (unfold u32; lia).
  destruct ((o <? eoh) || (len - 10 <? o)) eqn:Eo; [split; discriminate|].
  apply orb_false_iff in Eo. destruct Eo as [_ Eo].
  assert (Ho : o + 10 <= len) by lia.
  destruct (get16_ok data o ltac:(lia)) as [format Hf]. rewrite Hf. cbn [obind].
  pose proof (get16_rd16 _ _ _ Hf) as Hfmt.
  (* the three header layouts *)
  assert (Hhdr : forall (hdr : outcome (N * N * N)),
    hdr <> Panic ->
    (forall cl l la, hdr = Ok (cl, l, la) -> 10 <= cl /\ valid_format format = true) ->
    (obind hdr (fun hdr0 =>
       let '(checkLength, length0, language) := hdr0 in
       if (length0 <? checkLength) || ((len + u32 - o) mod u32 <? length0) then Err else
       let language0 := if pid =? 1 then language else 0 in
       let idx := seg_search o segs in
       segs' <-
         (if (Nat.eqb idx (List.length segs)) || negb (o =? fst (nth idx segs (0, 0))) then
            if ((0 <? N.of_nat idx) && (o <? snd (nth (idx - 1) segs (0, 0))))
               || (negb (Nat.eqb idx (List.length segs))
                   && (fst (nth idx segs (0, 0)) <? (o + length0) mod u32))
            then Err
            else Ok (insert_at idx (o, (o + length0) mod u32) segs)
          else Ok segs) ;;
       if ((o + length0) mod u32 <? o) || (N.of_nat (List.length data) <? (o + length0) mod u32)
       then Panic
       else Ok (segs', tput (pid, eid, language0) (o, length0) res))) <> Panic /\
    forall st', obind hdr (fun hdr0 =>
       let '(checkLength, length0, language) := hdr0 in
       if (length0 <? checkLength) || ((len + u32 - o) mod u32 <? length0) then Err else
       let language0 := if pid =? 1 then language else 0 in
       let idx := seg_search o segs in
       segs' <-
         (if (Nat.eqb idx (List.length segs)) || negb (o =? fst (nth idx segs (0, 0))) then
            if ((0 <? N.of_nat idx) && (o <? snd (nth (idx - 1) segs (0, 0))))
               || (negb (Nat.eqb idx (List.length segs))
                   && (fst (nth idx segs (0, 0)) <? (o + length0) mod u32))
            then Err
            else Ok (insert_at idx (o, (o + length0) mod u32) segs)
          else Ok segs) ;;
       if ((o + length0) mod u32 <? o) || (N.of_nat (List.length data) <? (o + length0) mod u32)
       then Panic
       else Ok (segs', tput (pid, eid, language0) (o, length0) res)) = Ok st' ->
      Forall (fun kv => sub_ok data (snd kv)) (snd st')).
  { intros hdr Hnp Hok. destruct hdr as [[[cl l] la]| | |]; cbn [obind];
      [|split; discriminate|congruence|split; discriminate].
    destruct (Hok cl l la eq_refl) as [Hcl Hvf].
    replace ((len + u32 - o) mod u32) with (len - o) by (unfold u32; lia).
    destruct ((l <? cl) || (len - o <? l)) eqn:El; [split; discriminate|].
    apply orb_false_iff in El. destruct El as [El1 El2].
    cbv zeta.
    replace ((o + l) mod u32) with (o + l) by (unfold u32; lia).
    match goal with |- context [obind ?x _] => destruct x as [segs'| | |] eqn:Es end; cbn [obind];
      [|split; discriminate| |split; discriminate].
    - fold len. replace ((o + l <? o) || (len <? o + l)) with false by lia.
      split; [discriminate|]. intros st' [= <-]. cbn [snd].
      apply tput_forall; [|exact Hres].
      unfold sub_ok. cbn [fst snd]. rewrite Hfmt. repeat split; [lia|lia|exact Hvf].
    - exfalso. revert Es.
      destruct (_ || _); [destruct (_ || _); discriminate|discriminate]. }
  destruct ((format =? 0) || (format =? 2) || (format =? 4) || (format =? 6)) eqn:F1.
  - destruct (get16_ok data (o + 2) ltac:(lia)) as [l ->].
    destruct (get16_ok data (o + 4) ltac:(lia)) as [la ->]. cbn [obind].
    apply (Hhdr (Ok (10, l, la))); [discriminate|].
    intros cl l0 la0 [= <- <- <-]. split; [lia|].
    unfold valid_format. repeat (apply orb_true_iff in F1; destruct F1 as [F1|F1]);
      rewrite F1; rewrite ?orb_true_r; reflexivity.
  - destruct ((format =? 8) || (format =? 10) || (format =? 12) || (format =? 13)) eqn:F2.
    + replace ((len + u32 - 12) mod u32) with (len - 12) by (unfold u32; lia).
      destruct (len - 12 <? o) eqn:E12; [apply (Hhdr Err); [discriminate|discriminate]|].
      destruct (get32_ok data (o + 4) ltac:(lia)) as [l ->].
      destruct (get16_ok data (o + 10) ltac:(lia)) as [la ->]. cbn [obind].
      apply (Hhdr (Ok (12, l, la))); [discriminate|].
      intros cl l0 la0 [= <- <- <-]. split; [lia|].
      unfold valid_format. repeat (apply orb_true_iff in F2; destruct F2 as [F2|F2]);
        rewrite F2; rewrite ?orb_true_r; reflexivity.
    + destruct (format =? 14) eqn:F3.
      * destruct (get32_ok data (o + 2) ltac:(lia)) as [l ->]. cbn [obind].
        apply (Hhdr (Ok (10, l, 0))); [discriminate|].
        intros cl l0 la0 [= <- <- <-]. split; [lia|].
        unfold valid_format. rewrite F3. rewrite ?orb_true_r. reflexivity.
      * apply (Hhdr Err); [discriminate|discriminate].
Qed.

Lemma dec_records_inv data eoh n : forall i st,
  let len := N.of_nat (length data) in
  len <= 4294967295 -> 4 + 8 * (i + N.of_nat n) <= len ->
  Forall (fun kv => sub_ok data (snd kv)) (snd st) ->
  dec_records data eoh len n i st <> Panic /\
  forall st', dec_records data eoh len n i st = Ok st' ->
              Forall (fun kv => sub_ok data (snd kv)) (snd st').
Proof.
  induction n as [|n IH]; intros i st len Hmax Hi Hres; cbn [dec_records].
  - split; [discriminate|]. now intros st' [= <-].
  - destruct (dec_record_inv data eoh i st ltac:(fold len; lia) Hmax ltac:(fold len; lia) Hres) as [Hnp Hok].
    fold len in Hnp, Hok.
    destruct (dec_record data eoh len i st) as [st1| | |] eqn:E1; cbn [obind];
      [|split; discriminate|congruence|split; discriminate].
    apply IH; [assumption|lia|]. now apply Hok.
Qed.

Lemma decode_table_inv data :
  M_decode_table data <> Panic /\
  forall t, M_decode_table data = Ok t -> Forall (fun kv => sub_ok data (snd kv)) t.
Proof.
  unfold M_decode_table. set (len := N.of_nat (length data)).
  destruct ((len <? 4) || (4294967295 <? len)) eqn:E1; [split; discriminate|].
  apply orb_false_iff in E1. destruct E1 as [E1 E2].
  destruct (get16_ok data 0 ltac:(fold len; lia)) as [version ->]. cbn [obind].
  destruct (negb (version =? 0)); [split; discriminate|].
  destruct (get16_ok data 2 ltac:(fold len; lia)) as [nt Hnt]. rewrite Hnt. cbn [obind].
  destruct (len <? 4 + 8 * nt) eqn:E3; [split; discriminate|].
  replace (len mod u32) with len by (unfold u32; lia).
  destruct (dec_records_inv data ((4 + 8 * nt) mod u32) (N.to_nat nt) 0 ([], [])
              ltac:(fold len; lia) ltac:(fold len; lia) ltac:(constructor)) as [Hnp Hok].
  fold len in Hnp, Hok.
  destruct (dec_records data ((4 + 8 * nt) mod u32) len (N.to_nat nt) 0 ([], [])) as [st| | |] eqn:E;
    cbn [obind]; [|split; discriminate|congruence|split; discriminate].
  split; [discriminate|]. intros t [= <-]. now apply Hok.
Qed.

(* ---------- Table.Get on a decoded table ---------- *)

Lemma decode6_no_panic c2r data : M_decode6 c2r data <> Panic.
Proof.
  unfold M_decode6.
  repeat match goal with |- (if ?c then _ else _) <> _ => destruct c; [discriminate|] end.
  discriminate.
Qed.

Lemma get_sub_no_panic mr k d :
  10 <= N.of_nat (length d) -> valid_format (rd16 d) = true -> M_get_sub mr k d <> Panic.
Proof.
  intros Hl Hv. unfold M_get_sub. destruct k as [[p e] l].
  destruct ((p =? 1) && negb (e =? 0)); [discriminate|].
  destruct (get16_ok d 0 ltac:(lia)) as [format Hf]. rewrite Hf. cbn [obind].
  apply get16_rd16 in Hf. cbn [N.to_nat skipn] in Hf. rewrite Hf in Hv.
  destruct (format =? 0) eqn:F0.
  { unfold omap. apply obind_not_panic; [|discriminate].
    unfold M_decode0. replace (N.of_nat (length d) <? 6) with false by lia.
    destruct (negb _); discriminate. }
  destruct (format =? 4) eqn:F4.
  { unfold omap. apply obind_not_panic; [apply decode4_no_panic|discriminate]. }
  destruct (format =? 6) eqn:F6.
  { unfold omap. apply obind_not_panic; [apply decode6_no_panic|discriminate]. }
  destruct (format =? 12) eqn:F12.
  { unfold omap. apply obind_not_panic; [apply decode12_no_panic|discriminate]. }
  destruct ((format =? 2) || (format =? 8) || (format =? 10) || (format =? 13) || (format =? 14)) eqn:E;
    [discriminate|].
  exfalso. unfold valid_format in Hv.
  repeat (apply orb_false_iff in E; destruct E as [E ?]).
  repeat (apply orb_true_iff in Hv; destruct Hv as [Hv|Hv]); lia.
Qed.

Lemma decode0_mac_no_panic mr d : 6 <= N.of_nat (length d) -> M_decode0_mac mr d <> Panic.
Proof.
  intros H. unfold M_decode0_mac. replace (N.of_nat (length d) <? 6) with false by lia.
  destruct (negb _); discriminate.
Qed.

Lemma get_sub2_no_panic mr k d :
  10 <= N.of_nat (length d) -> valid_format (rd16 d) = true -> M_get_sub2 mr k d <> Panic.
Proof.
  intros Hl Hv. unfold M_get_sub2. destruct k as [[p e] l].
  destruct ((p =? 1) && (e =? 0)); [|now apply get_sub_no_panic].
  destruct (get16_ok d 0 ltac:(lia)) as [format Hf]. rewrite Hf. cbn [obind].
  destruct (format =? 0); [|now apply get_sub_no_panic].
  unfold omap. apply obind_not_panic; [apply decode0_mac_no_panic; lia|discriminate].
Qed.

Lemma tget_map {V W} (f : V -> W) k (t : list (key * V)) :
  tget k (map (fun kv => (fst kv, f (snd kv))) t) = option_map f (tget k t).
Proof.
  induction t as [|[k' v] r IH]; [reflexivity|]. cbn [map tget fst snd].
  destruct (key_eqb k' k); [reflexivity|exact IH].
Qed.

Lemma tget_forall {V} (P : V -> Prop) k (t : list (key * V)) v :
  Forall (fun kv => P (snd kv)) t -> tget k t = Some v -> P v.
Proof.
  induction t as [|[k' v'] r IH]; intros Ht H; [discriminate|].
  inversion Ht as [|? ? H1 H2]; subst. cbn [tget] in H.
  destruct (key_eqb k' k); [injection H as <-; exact H1|now apply IH].
Qed.

Lemma sub_bytes_length data ol :
  fst ol + snd ol <= N.of_nat (length data) -> N.of_nat (length (sub_bytes data ol)) = snd ol.
Proof. intros H. unfold sub_bytes. rewrite firstn_length, skipn_length. lia. Qed.

Lemma rd16_firstn l n : (2 <= n)%nat -> rd16 (firstn n l) = rd16 l.
Proof.
  intros Hn. destruct n as [|[|n]]; try lia.
  destruct l as [|a [|b r]]; reflexivity.
Qed.

(* P1 (C02 part): Decode never panics and Get never panics on what Decode returns *)
Lemma get_no_panic mr data t k :
  M_decode_table_bytes data = Ok t -> M_get mr t k <> Panic.
Proof.
  intros H. unfold M_decode_table_bytes, omap in H. apply obind_ok in H.
  destruct H as (t0 & Ht0 & H). injection H as <-.
  destruct (decode_table_inv data) as [_ Hinv]. specialize (Hinv t0 Ht0).
  unfold M_get. rewrite (tget_map (sub_bytes data)).
  destruct (tget k t0) as [ol|] eqn:E; cbn [option_map]; [|discriminate].
  pose proof (tget_forall (sub_ok data) k t0 ol Hinv E) as (S1 & S2 & S3).
  apply get_sub2_no_panic.
  - rewrite sub_bytes_length by assumption. assumption.
  - unfold sub_bytes. rewrite rd16_firstn by lia. exact S3.
Qed.

(* ---------- GetBest ---------- *)

Definition usable mr (t : list (key * list N)) (pe : N * N) : Prop :=
  exists s, M_get mr t (fst pe, snd pe, 0) = Ok s.

Lemma getbest_from_spec mr t cands : forall i0 i s,
  getbest_from mr t cands i0 = Ok (i, s) ->
  exists j pe, i = i0 + N.of_nat j /\ nth_error cands j = Some pe /\
    M_get mr t (fst pe, snd pe, 0) = Ok s /\
    forall j' pe', (j' < j)%nat -> nth_error cands j' = Some pe' -> ~ usable mr t pe'.
Proof.
  induction cands as [|[p e] r IH]; intros i0 i s H; cbn [getbest_from] in H; [discriminate|].
  destruct (M_get mr t (p, e, 0)) as [s0| | |] eqn:E.
  - injection H as <- <-. exists 0%nat, (p, e). repeat split; [lia|assumption|].
    intros j' pe' Hj. lia.
  - apply IH in H. destruct H as (j & pe & H1 & H2 & H3 & H4).
    exists (S j), pe. repeat split; [lia|assumption|assumption|].
    intros j' pe' Hj Hn. destruct j' as [|j'].
    + cbn in Hn. injection Hn as <-. intros [s' Hs']. cbn [fst snd] in Hs'. congruence.
    + apply (H4 j' pe'); [lia|assumption].
  - discriminate.
  - apply IH in H. destruct H as (j & pe & H1 & H2 & H3 & H4).
    exists (S j), pe. repeat split; [lia|assumption|assumption|].
    intros j' pe' Hj Hn. destruct j' as [|j'].
    + cbn in Hn. injection Hn as <-. intros [s' Hs']. cbn [fst snd] in Hs'. congruence.
    + apply (H4 j' pe'); [lia|assumption].
Qed.

Lemma getbest_from_none mr t cands : forall i0,
  getbest_from mr t cands i0 = Err -> forall pe, In pe cands -> ~ usable mr t pe.
Proof.
  induction cands as [|[p e] r IH]; intros i0 H pe Hin; [destruct Hin|].
  cbn [getbest_from] in H.
  destruct (M_get mr t (p, e, 0)) as [s0| | |] eqn:E; try discriminate.
  - destruct Hin as [<-|Hin]; [intros [s' Hs']; cbn [fst snd] in Hs'; congruence|].
    now apply (IH _ H).
  - destruct Hin as [<-|Hin]; [intros [s' Hs']; cbn [fst snd] in Hs'; congruence|].
    now apply (IH _ H).
Qed.

Lemma getbest_from_no_panic mr t cands : forall i0,
  (forall k, M_get mr t k <> Panic) -> getbest_from mr t cands i0 <> Panic.
Proof.
  induction cands as [|[p e] r IH]; intros i0 H; cbn [getbest_from]; [discriminate|].
  destruct (M_get mr t (p, e, 0)) eqn:E; try discriminate; try (apply IH; assumption).
  exfalso. now apply (H (p, e, 0)).
Qed.
