(* C09/Proofs_12.v — format 12: round trip, group structure, agreement of the
   decoder with the specification lookup, totality and allocation bound. *)
From Coq Require Import List NArith ZArith Lia Bool Arith.
From Coq Require Import ZifyBool ZifyNat ZifyN.
From Common Require Import Bytes Outcome.
From Gen Require Import C09.
From C09 Require Import Model Util.
Import ListNotations.
Ltac Zify.zify_post_hook ::= Z.div_mod_to_equations.
Local Open Scope N_scope.

(* the constants of decodeFormat12 as regenerated from the source *)
Lemma f12_consts :
  f12_maxSegments = 1000000 /\ f12_maxEntries = 65536 /\ f12_maxGid = 65535 /\
  f12_maxGidEnd = 65535 /\ f12_badEnd = 4294967295 /\ f12_minLen = 16.
Proof. repeat split; reflexivity. Qed.

(* ---------- expansion of groups ---------- *)

Fixpoint expand_n (n : nat) (c g : N) : amap :=
  match n with
  | O => []
  | S n' => (c, g) :: expand_n n' (c + 1) (g + 1)
  end.

Definition expand12 (s : seg12) : amap :=
  let '(a, b, g) := s in expand_n (N.to_nat (b - a + 1)) a g.

Lemma expand_n_snoc n c g :
  expand_n (S n) c g = expand_n n c g ++ [(c + N.of_nat n, g + N.of_nat n)].
Proof.
  revert c g. induction n as [|n IH]; intros c g.
  - cbn [expand_n app N.of_nat]. now rewrite !N.add_0_r.
  - change (expand_n (S (S n)) c g) with ((c, g) :: expand_n (S n) (c + 1) (g + 1)).
    rewrite IH. cbn [expand_n app].
    replace (c + 1 + N.of_nat n) with (c + N.of_nat (S n)) by lia.
    replace (g + 1 + N.of_nat n) with (g + N.of_nat (S n)) by lia.
    reflexivity.
Qed.

Lemma expand_n_length n c g : length (expand_n n c g) = n.
Proof. revert c g. induction n as [|n IH]; intros; cbn [expand_n length]; [reflexivity|]. now rewrite IH. Qed.

(* all keys / glyph ids of a map are in range *)
Definition bounded (kmax gmax : N) (m : amap) : Prop :=
  Forall (fun p => fst p < kmax /\ snd p < gmax) m.

(* grouping followed by expansion is the identity *)
Lemma group12_expand rest : forall fk fg (d : nat),
  bounded (u32 - 1) u16 rest -> fk + N.of_nat d < u32 - 1 ->
  flat_map expand12 (group12 (fk, fg) (fk + N.of_nat d, fg + N.of_nat d) rest)
  = expand_n (S d) fk fg ++ rest.
Proof.
  induction rest as [|[k g] r IH]; intros fk fg d Hb Hk.
  - cbn [group12 flat_map fst snd expand12 app]. rewrite !app_nil_r.
    replace (N.to_nat (fk + N.of_nat d - fk + 1)) with (S d) by lia. reflexivity.
  - inversion Hb as [|? ? [Hk1 Hg1] Hb']; subst. cbn [fst snd] in *.
    cbn [group12 fst snd].
    replace ((fk + N.of_nat d + 1) mod u32) with (fk + N.of_nat d + 1) by (unfold u32 in *; lia).
    destruct ((k =? fk + N.of_nat d + 1) && (g =? fg + N.of_nat d + 1)) eqn:E.
    + apply andb_true_iff in E. destruct E as [E1 E2].
      apply N.eqb_eq in E1, E2. subst k g.
      replace (fk + N.of_nat d + 1) with (fk + N.of_nat (S d)) by lia.
      replace (fg + N.of_nat d + 1) with (fg + N.of_nat (S d)) by lia.
      rewrite IH; [|assumption|lia].
      rewrite (expand_n_snoc (S d)). rewrite <- app_assoc. reflexivity.
    + cbn [flat_map expand12].
      replace (N.to_nat (fk + N.of_nat d - fk + 1)) with (S d) by lia.
      specialize (IH k g O Hb').
      cbn [N.of_nat] in IH. rewrite !N.add_0_r in IH.
      rewrite IH by lia. cbn [expand_n app]. reflexivity.
Qed.

Lemma segs12_expand m : bounded (u32 - 1) u16 m -> flat_map expand12 (M_segs12 m) = m.
Proof.
  destruct m as [|[k g] r]; intros Hb; [reflexivity|].
  inversion Hb as [|? ? [Hk1 Hg1] Hb']; subst. cbn [fst snd] in *.
  unfold M_segs12.
  pose proof (group12_expand r k g O Hb') as H. cbn [N.of_nat] in H.
  rewrite !N.add_0_r in H. rewrite H by lia. reflexivity.
Qed.

(* ---------- the groups produced by the encoder are well formed ---------- *)

Fixpoint chain (first : bool) (prevEnd : N) (ss : list seg12) : Prop :=
  match ss with
  | [] => True
  | (a, b, g) :: r =>
      a <= b /\ b < u32 - 1 /\ g + (b - a) <= 65535 /\ (first = true \/ prevEnd < a) /\
      chain false b r
  end.

Lemma group12_chain rest : forall fk fg (d : nat) first pe,
  sorted_from (fk + N.of_nat d) rest = true -> bounded (u32 - 1) u16 rest ->
  fk + N.of_nat d < u32 - 1 -> fg + N.of_nat d <= 65535 ->
  (first = true \/ pe < fk) ->
  chain first pe (group12 (fk, fg) (fk + N.of_nat d, fg + N.of_nat d) rest).
Proof.
  induction rest as [|[k g] r IH]; intros fk fg d first pe Hs Hb Hk Hg Hp.
  - cbn [group12 chain fst snd]. repeat split; try lia. assumption.
  - inversion Hb as [|? ? [Hk1 Hg1] Hb']; subst. cbn [fst snd] in *.
    cbn [sorted_from] in Hs. apply andb_true_iff in Hs. destruct Hs as [Hs1 Hs2].
    cbn [group12 fst snd].
    replace ((fk + N.of_nat d + 1) mod u32) with (fk + N.of_nat d + 1) by (unfold u32 in *; lia).
    destruct ((k =? fk + N.of_nat d + 1) && (g =? fg + N.of_nat d + 1)) eqn:E.
    + apply andb_true_iff in E. destruct E as [E1 E2].
      apply N.eqb_eq in E1, E2. subst k g.
      replace (fk + N.of_nat d + 1) with (fk + N.of_nat (S d)) in * by lia.
      replace (fg + N.of_nat d + 1) with (fg + N.of_nat (S d)) in * by lia.
      apply IH; try assumption; unfold u16 in *; lia.
    + cbn [chain]. repeat split; try lia; [assumption|].
      specialize (IH k g O false (fk + N.of_nat d)).
      cbn [N.of_nat] in IH. rewrite !N.add_0_r in IH.
      apply IH; try assumption; unfold u16 in *; try lia; try (right; lia).
Qed.

Lemma segs12_chain m :
  sorted_keys m = true -> bounded (u32 - 1) u16 m -> chain true 0 (M_segs12 m).
Proof.
  destruct m as [|[k g] r]; intros Hs Hb; [exact I|].
  inversion Hb as [|? ? [Hk1 Hg1] Hb']; subst. cbn [fst snd sorted_keys] in *.
  unfold M_segs12.
  pose proof (group12_chain r k g O true 0) as H. cbn [N.of_nat] in H.
  rewrite !N.add_0_r in H. apply H; try assumption; unfold u16 in *; try lia; try (now left).
Qed.

(* sorted, disjoint, minimal *)
Definition prev_ok (prev : option seg12) (fk fg : N) : Prop :=
  match prev with
  | None => True
  | Some (a', b', g') => b' < fk /\ ~ (fk = b' + 1 /\ fg = g' + (b' - a') + 1)
  end.

Lemma seg_ok_head prev fk fg b r :
  fk <= b -> prev_ok prev fk fg -> segs12_ok (Some (fk, b, fg)) r = true ->
  segs12_ok prev ((fk, b, fg) :: r) = true.
Proof.
  intros Hb Hp Hr. cbn [segs12_ok]. rewrite Hr, andb_true_r.
  apply andb_true_iff. split; [lia|].
  destruct prev as [[[a' b'] g']|]; [|reflexivity].
  destruct Hp as [Hp1 Hp2]. apply andb_true_iff. split; [lia|].
  apply negb_true_iff. apply andb_false_iff.
  destruct (N.eq_dec fk (b' + 1)) as [->|]; [|left; lia].
  right. apply N.eqb_neq. intros ->. apply Hp2. split; reflexivity.
Qed.

Lemma group12_ok rest : forall fk fg (d : nat) prev,
  sorted_from (fk + N.of_nat d) rest = true ->
  bounded (u32 - 1) u16 rest -> fk + N.of_nat d < u32 - 1 ->
  prev_ok prev fk fg ->
  segs12_ok prev (group12 (fk, fg) (fk + N.of_nat d, fg + N.of_nat d) rest) = true.
Proof.
  induction rest as [|[k g] r IH]; intros fk fg d prev Hs Hb Hk Hp.
  - cbn [group12 fst snd]. apply seg_ok_head; [lia|assumption|reflexivity].
  - inversion Hb as [|? ? [Hk1 Hg1] Hb']; subst. cbn [fst snd] in *.
    cbn [sorted_from] in Hs. apply andb_true_iff in Hs. destruct Hs as [Hs1 Hs2].
    cbn [group12 fst snd].
    replace ((fk + N.of_nat d + 1) mod u32) with (fk + N.of_nat d + 1) by (unfold u32 in *; lia).
    destruct ((k =? fk + N.of_nat d + 1) && (g =? fg + N.of_nat d + 1)) eqn:E.
    + apply andb_true_iff in E. destruct E as [E1 E2].
      apply N.eqb_eq in E1, E2. subst k g.
      replace (fk + N.of_nat d + 1) with (fk + N.of_nat (S d)) in * by lia.
      replace (fg + N.of_nat d + 1) with (fg + N.of_nat (S d)) in * by lia.
      apply IH; assumption.
    + apply seg_ok_head; [lia|assumption|].
      specialize (IH k g O (Some (fk, fk + N.of_nat d, fg))).
      cbn [N.of_nat] in IH. rewrite !N.add_0_r in IH.
      apply IH; try assumption.
      cbn [prev_ok]. split; [lia|].
      intros [H1 H2]. subst k g.
      replace (fk + N.of_nat d - fk) with (N.of_nat d) in E by lia.
      rewrite !N.eqb_refl in E. discriminate.
Qed.

Lemma segs12_ok_enc m :
  sorted_keys m = true -> bounded (u32 - 1) u16 m -> segs12_ok None (M_segs12 m) = true.
Proof.
  destruct m as [|[k g] r]; intros Hs Hb; [reflexivity|].
  inversion Hb as [|? ? [Hk1 Hg1] Hb']; subst. cbn [fst snd sorted_keys] in *.
  unfold M_segs12.
  pose proof (group12_ok r k g O None) as H. cbn [N.of_nat] in H.
  rewrite !N.add_0_r in H. apply H; try assumption. exact I.
Qed.

(* ---------- decoding the encoder's output ---------- *)

Lemma keys_lt_expand n : forall c g acc,
  keys_lt acc c -> keys_lt (rev (expand_n n c g) ++ acc) (c + N.of_nat n).
Proof.
  induction n as [|n IH]; intros c g acc H.
  - cbn [expand_n rev app N.of_nat]. now rewrite N.add_0_r.
  - cbn [expand_n rev]. rewrite <- app_assoc. cbn [app].
    replace (c + N.of_nat (S n)) with (c + 1 + N.of_nat n) by lia.
    apply IH. cbn [keys_lt]. split; [lia|]. apply keys_lt_weaken with c; [assumption|lia].
Qed.

Lemma fill12_expand n : forall c s g acc,
  keys_lt acc c -> s <= c -> g + (c - s) + N.of_nat n <= 65536 ->
  fill12 n c s g acc = rev (expand_n n c (g + (c - s))) ++ acc.
Proof.
  induction n as [|n IH]; intros c s g acc Hk Hs Hg.
  - reflexivity.
  - cbn [fill12 expand_n rev]. rewrite put_fast by assumption.
    replace (((g + c - s) mod u32) mod u16) with (g + (c - s)) by (unfold u32, u16; lia).
    rewrite IH.
    + rewrite <- app_assoc. cbn [app].
      replace (g + (c + 1 - s)) with (g + (c - s) + 1) by lia. reflexivity.
    + cbn [keys_lt]. split; [lia|]. apply keys_lt_weaken with c; [assumption|lia].
    + lia.
    + lia.
Qed.

Definition dec12_cont (n : nat) (first : bool) (a b g : N) (rest : list N) (size pe : N) (acc : amap) :=
  if (negb first && (a <=? pe)) || (b <? a) || (b =? f12_badEnd)
     || (f12_maxGid <? g) || (f12_maxGidEnd <? (g + (b - a)) mod u32)
  then Err
  else
    let size' := (size + (b - a + 1) mod u32) mod u32 in
    if f12_maxEntries <? size' then Err
    else dec12_loop n false rest size' b (fill12 (N.to_nat (b - a + 1)) a a g acc).

Lemma dec12_step n first a b g rest size pe acc :
  a < u32 -> b < u32 -> g < u16 ->
  dec12_loop (S n) first (enc_seg12 (a, b, g) ++ rest) size pe acc
  = dec12_cont n first a b g rest size pe acc.
Proof.
  intros Ha Hb Hg. unfold enc_seg12, be32, be16. cbn [app dec12_loop].
  assert (E1 : rd32 [(a / 16777216) mod 256; (a / 65536) mod 256; (a / 256) mod 256; a mod 256] = a)
    by (unfold rd32, u32 in *; lia).
  assert (E2 : rd32 [(b / 16777216) mod 256; (b / 65536) mod 256; (b / 256) mod 256; b mod 256] = b)
    by (unfold rd32, u32 in *; lia).
  assert (E3 : rd32 [0; 0; (g / 256) mod 256; g mod 256] = g)
    by (unfold rd32, u16 in *; lia).
  rewrite E1, E2, E3. reflexivity.
Qed.

Lemma dec12_loop_segs ss : forall first size pe acc,
  chain first pe ss ->
  size + N.of_nat (length (flat_map expand12 ss)) <= 65536 ->
  match ss with [] => True | (a, _, _) :: _ => keys_lt acc a end ->
  dec12_loop (length ss) first (flat_map enc_seg12 ss) size pe acc
  = Ok (rev (flat_map expand12 ss) ++ acc).
Proof.
  induction ss as [|[[a b] g] r IH]; intros first size pe acc Hc Hsz Hacc.
  - reflexivity.
  - cbn [chain] in Hc. destruct Hc as (Hab & Hb & Hg & Hp & Hc).
    cbn [length flat_map].
    cbn [flat_map expand12] in Hsz. rewrite app_length, expand_n_length in Hsz.
    rewrite dec12_step by (unfold u32, u16 in *; lia).
    unfold dec12_cont.
    destruct f12_consts as (C1 & C2 & C3 & C4 & C5 & C6). rewrite C2, C3, C4, C5.
    assert (Hcond : (negb first && (a <=? pe)) || (b <? a) || (b =? 4294967295)
                    || (65535 <? g) || (65535 <? (g + (b - a)) mod u32) = false).
    { unfold u32 in *. destruct Hp as [->|Hp]; cbn [negb andb orb];
        repeat (apply orb_false_iff; split); try lia;
        destruct first; cbn [negb andb]; lia. }
    rewrite Hcond. cbv zeta.
    replace ((size + (b - a + 1) mod u32) mod u32) with (size + (b - a + 1)) by (unfold u32 in *; lia).
    replace (65536 <? size + (b - a + 1)) with false by lia.
    rewrite fill12_expand; [|assumption|lia|lia].
    rewrite N.sub_diag, N.add_0_r.
    rewrite IH.
    + cbn [expand12]. rewrite rev_app_distr, <- app_assoc. reflexivity.
    + assumption.
    + lia.
    + destruct r as [|[[a' b'] g'] r']; [exact I|].
      cbn [chain] in Hc. destruct Hc as (_ & _ & _ & [Hf|Hp'] & _); [discriminate|].
      apply keys_lt_weaken with (a + N.of_nat (N.to_nat (b - a + 1))).
      * apply keys_lt_expand. assumption.
      * lia.
Qed.

Lemma enc_seg12_length s : length (enc_seg12 s) = 12%nat.
Proof. destruct s as [[a b] g]. reflexivity. Qed.

Lemma chain_length_le ss : forall first pe, chain first pe ss ->
  (length ss <= length (flat_map expand12 ss))%nat.
Proof.
  induction ss as [|[[a b] g] r IH]; intros first pe H; [cbn; lia|].
  cbn [chain] in H. destruct H as (Hab & _ & _ & _ & Hc).
  cbn [flat_map length expand12]. rewrite app_length, expand_n_length.
  specialize (IH _ _ Hc). lia.
Qed.

(* the main round-trip lemma *)
Lemma decode12_encode12 m lang :
  sorted_keys m = true -> bounded (u32 - 1) u16 m -> N.of_nat (length m) <= 65536 ->
  M_decode12 false (M_encode12 m lang) = Ok m.
Proof.
  intros Hs Hb Hl.
  pose proof (segs12_chain m Hs Hb) as Hc.
  pose proof (segs12_expand m Hb) as He.
  pose proof (chain_length_le _ _ _ Hc) as Hn. rewrite He in Hn.
  unfold M_decode12, M_encode12.
  set (ss := M_segs12 m) in *.
  set (n := N.of_nat (length ss)).
  assert (Hn' : n <= 65536) by (subst n; lia).
  destruct f12_consts as (C1 & C2 & C3 & C4 & C5 & C6). rewrite C1, C6.
  set (body := flat_map enc_seg12 ss).
  assert (Hbl : length body = (12 * length ss)%nat)
    by (apply length_flat_map_const; apply enc_seg12_length).
  assert (Hlen : N.of_nat (length ([0; 12; 0; 0] ++ be32 ((16 + n * 12) mod u32) ++ [0; 0] ++ be16 lang ++ be32 n ++ body)) = 16 + n * 12).
  { rewrite !app_length, !be32_length, be16_length, Hbl. cbn [length]. subst n. lia. }
  rewrite Hlen.
  replace (16 + n * 12 <? 16) with false by lia.
  change (skipn 12 ([0; 12; 0; 0] ++ be32 ((16 + n * 12) mod u32) ++ [0; 0] ++ be16 lang ++ be32 n ++ body))
    with (be32 n ++ body).
  change (skipn 16 ([0; 12; 0; 0] ++ be32 ((16 + n * 12) mod u32) ++ [0; 0] ++ be16 lang ++ be32 n ++ body))
    with body.
  rewrite rd32_be32_app. replace (n mod 4294967296) with n by lia.
  rewrite N.eqb_refl. replace (1000000 <? n) with false by lia. cbn [negb orb].
  replace (N.to_nat n) with (length ss) by (subst n; lia).
  subst body. rewrite dec12_loop_segs.
  - unfold omap, obind. rewrite frev_rev, app_nil_r, rev_involutive, He. reflexivity.
  - assumption.
  - rewrite He. lia.
  - destruct ss as [|[[a b] g] r]; exact I.
Qed.

(* ---------- totality ---------- *)

Lemma dec12_loop_no_panic n : forall first rest size pe acc,
  length rest = (12 * n)%nat -> dec12_loop n first rest size pe acc <> Panic.
Proof.
  induction n as [|n IH]; intros first rest size pe acc Hl.
  - cbn [dec12_loop]. discriminate.
  - do 12 (destruct rest as [|? rest]; [cbn [length] in Hl; lia|]).
    cbn [dec12_loop].
    match goal with |- (if ?c then _ else _) <> _ => destruct c end; [discriminate|].
    cbv zeta.
    match goal with |- (if ?c then _ else _) <> _ => destruct c end; [discriminate|].
    apply IH. cbn [length] in Hl. lia.
Qed.

Lemma decode12_no_panic mac data : M_decode12 mac data <> Panic.
Proof.
  unfold M_decode12. destruct mac; [discriminate|].
  destruct (N.of_nat (length data) <? f12_minLen) eqn:E1; [discriminate|].
  destruct (negb (N.of_nat (length data) =? 16 + rd32 (skipn 12 data) * 12)
            || (f12_maxSegments <? rd32 (skipn 12 data))) eqn:E2; [discriminate|].
  apply orb_false_iff in E2. destruct E2 as [E2 E3].
  apply negb_false_iff, N.eqb_eq in E2.
  unfold omap. apply obind_not_panic; [|discriminate].
  apply dec12_loop_no_panic. rewrite skipn_length. lia.
Qed.

(* ---------- the decoder against the specification lookup ---------- *)

Lemma lookup_expand_acc n : forall s g acc c,
  lookup (rev (expand_n n s g) ++ acc) c
  = if (s <=? c) && (c <? s + N.of_nat n) then g + (c - s) else lookup acc c.
Proof.
  induction n as [|n IH]; intros s g acc c.
  - cbn [expand_n rev app N.of_nat].
    replace ((s <=? c) && (c <? s + 0)) with false by lia. reflexivity.
  - cbn [expand_n rev]. rewrite <- app_assoc. cbn [app]. rewrite IH. cbn [lookup].
    destruct (s =? c) eqn:E.
    + replace ((s + 1 <=? c) && (c <? s + 1 + N.of_nat n)) with false by lia.
      replace ((s <=? c) && (c <? s + N.of_nat (S n))) with true by lia.
      replace (c - s) with 0 by lia. lia.
    + destruct ((s + 1 <=? c) && (c <? s + 1 + N.of_nat n)) eqn:E2.
      * replace ((s <=? c) && (c <? s + N.of_nat (S n))) with true by lia. lia.
      * replace ((s <=? c) && (c <? s + N.of_nat (S n))) with false by lia. reflexivity.
Qed.

Lemma has_key_expand_acc n : forall s g acc c,
  has_key (rev (expand_n n s g) ++ acc) c
  = ((s <=? c) && (c <? s + N.of_nat n)) || has_key acc c.
Proof.
  induction n as [|n IH]; intros s g acc c.
  - cbn [expand_n rev app N.of_nat].
    replace ((s <=? c) && (c <? s + 0)) with false by lia. reflexivity.
  - cbn [expand_n rev]. rewrite <- app_assoc. cbn [app]. rewrite IH. cbn [has_key].
    destruct (s =? c) eqn:E; destruct (has_key acc c);
      destruct ((s + 1 <=? c) && (c <? s + 1 + N.of_nat n)) eqn:E2;
      destruct ((s <=? c) && (c <? s + N.of_nat (S n))) eqn:E3; try reflexivity; lia.
Qed.

Lemma desc_expand_acc n : forall s g acc,
  keys_lt acc s -> desc acc -> desc (rev (expand_n n s g) ++ acc).
Proof.
  induction n as [|n IH]; intros s g acc Hk Hd.
  - exact Hd.
  - cbn [expand_n rev]. rewrite <- app_assoc. cbn [app]. apply IH.
    + cbn [keys_lt]. split; [lia|]. apply keys_lt_weaken with s; [assumption|lia].
    + cbn [desc]. split; assumption.
Qed.

Lemma dec12_loop_inv n : forall first rest size pe acc acc',
  dec12_loop n first rest size pe acc = Ok acc' ->
  (first = true -> size = 0 /\ acc = []) ->
  (first = false -> size <= pe + 1 /\ keys_lt acc (pe + 1) /\ pe < u32 - 1) ->
  desc acc -> N.of_nat (length acc) <= size -> size <= 65536 ->
  Forall (fun b => b < 256) rest ->
  desc acc' /\ N.of_nat (length acc') <= 65536 /\
  forall c, lookup acc' c = if has_key acc c then lookup acc c else S_groups12 n rest c.
Proof.
  induction n as [|n IH]; intros first rest size pe acc acc' H Hf Hnf Hd Hl Hs Hb.
  - cbn [dec12_loop] in H. injection H as <-. repeat split; try assumption; [lia|].
    intros c. cbn [S_groups12]. destruct (has_key acc c) eqn:E; [reflexivity|].
    now apply lookup_no_key.
  - do 12 (destruct rest as [|? rest]; [discriminate H|]).
    cbn [dec12_loop] in H.
    repeat match goal with Hb : Forall _ (_ :: _) |- _ =>
      let h := fresh "Hb" in inversion Hb as [|? ? h Hb']; clear Hb; rename Hb' into Hb; subst end.
    set (s := rd32 [n0; n1; n2; n3]) in *.
    set (e := rd32 [n4; n5; n6; n7]) in *.
    set (g := rd32 [n8; n9; n10; n11]) in *.
    assert (Hs32 : s < u32) by (subst s; unfold u32; apply rd32_bound; assumption).
    assert (He32 : e < u32) by (subst e; unfold u32; apply rd32_bound; assumption).
    assert (Hg32 : g < u32) by (subst g; unfold u32; apply rd32_bound; assumption).
    destruct f12_consts as (C1 & C2 & C3 & C4 & C5 & C6).
    rewrite C2, C3, C4, C5 in H.
    destruct ((negb first && (s <=? pe)) || (e <? s) || (e =? 4294967295) || (65535 <? g)
              || (65535 <? (g + (e - s)) mod u32)) eqn:Ec; [discriminate H|].
    cbv zeta in H.
    repeat (apply orb_false_iff in Ec; destruct Ec as [Ec ?]).
    assert (Hse : s <= e) by lia.
    assert (He : e < u32 - 1) by (unfold u32 in *; lia).
    assert (Hg : g <= 65535) by lia.
    assert (Hps : first = false -> pe < s).
    { intros ->. cbn [negb andb] in Ec. lia. }
    (* size does not wrap *)
    assert (Hnw : size + (e - s + 1) < u32).
    { destruct first.
      - destruct (Hf eq_refl) as [-> _]. unfold u32 in *. lia.
      - destruct (Hnf eq_refl) as (Hsz & _ & _). specialize (Hps eq_refl). unfold u32 in *. lia. }
    replace ((size + (e - s + 1) mod u32) mod u32) with (size + (e - s + 1)) in H
      by (unfold u32 in *; lia).
    destruct (65536 <? size + (e - s + 1)) eqn:Esz; [discriminate H|].
    assert (Hcnt : e - s + 1 <= 65536) by lia.
    assert (Hgw : g + (e - s) <= 65535) by (unfold u32 in *; lia).
    assert (Hks : keys_lt acc s).
    { destruct first.
      - destruct (Hf eq_refl) as [_ ->]. exact I.
      - destruct (Hnf eq_refl) as (_ & Hk & _). apply keys_lt_weaken with (pe + 1); [assumption|].
        specialize (Hps eq_refl). lia. }
    assert (Hszs : size <= s).
    { destruct first.
      - destruct (Hf eq_refl) as [-> _]. lia.
      - destruct (Hnf eq_refl) as (Hsz & _ & _). specialize (Hps eq_refl). lia. }
    rewrite fill12_expand in H; [|assumption|lia|lia].
    rewrite N.sub_diag, N.add_0_r in H.
    set (cnt := N.to_nat (e - s + 1)) in *.
    apply IH in H.
    + destruct H as (Hd' & Hl' & Hlk). repeat split; try assumption.
      intros c. rewrite Hlk, has_key_expand_acc, lookup_expand_acc.
      cbn [S_groups12]. cbn [skipn].
      change (rd32 (n0 :: n1 :: n2 :: n3 :: n4 :: n5 :: n6 :: n7 :: n8 :: n9 :: n10 :: n11 :: rest)) with s.
      change (rd32 (n4 :: n5 :: n6 :: n7 :: n8 :: n9 :: n10 :: n11 :: rest)) with e.
      change (rd32 (n8 :: n9 :: n10 :: n11 :: rest)) with g.
      replace (c <? s + N.of_nat cnt) with (c <=? e) by (subst cnt; lia).
      destruct ((s <=? c) && (c <=? e)) eqn:Ein; cbn [orb].
      * rewrite (has_key_keys_lt acc s c) by (assumption || lia). reflexivity.
      * reflexivity.
    + discriminate.
    + intros _. repeat split; [lia| |assumption].
      replace (e + 1) with (s + N.of_nat cnt) by (subst cnt; lia).
      apply keys_lt_expand. assumption.
    + apply desc_expand_acc; assumption.
    + rewrite app_length, rev_length, expand_n_length. subst cnt. lia.
    + lia.
    + assumption.
Qed.

Lemma decode12_spec mac data m :
  Forall (fun b => b < 256) data ->
  M_decode12 mac data = Ok m ->
  sorted_keys m = true /\ N.of_nat (length m) <= 65536 /\
  forall c, lookup m c = S_lookup12 data c.
Proof.
  intros Hb H. unfold M_decode12 in H. destruct mac; [discriminate H|].
  destruct (N.of_nat (length data) <? f12_minLen); [discriminate H|].
  destruct (negb (N.of_nat (length data) =? 16 + rd32 (skipn 12 data) * 12)
            || (f12_maxSegments <? rd32 (skipn 12 data))); [discriminate H|].
  unfold omap in H. apply obind_ok in H. destruct H as (acc & H & Hm).
  injection Hm as <-.
  apply dec12_loop_inv in H.
  - destruct H as (Hd & Hl & Hlk). rewrite frev_rev. repeat split.
    + now apply sorted_keys_rev_desc.
    + now rewrite rev_length.
    + intros c. rewrite lookup_rev_desc by assumption. rewrite Hlk. reflexivity.
  - auto.
  - discriminate.
  - exact I.
  - cbn. lia.
  - lia.
  - clear - Hb. revert data Hb. generalize 16%nat as k.
    induction k as [|k IH]; intros data Hb; [exact Hb|].
    destruct data as [|x data]; [constructor|]. cbn [skipn]. apply IH. now inversion Hb.
Qed.

(* the specification lookup on the encoder's output *)
Lemma S_groups12_step n a b g rest c :
  a < u32 -> b < u32 -> g < u16 ->
  S_groups12 (S n) (enc_seg12 (a, b, g) ++ rest) c
  = if (a <=? c) && (c <=? b) then g + (c - a) else S_groups12 n rest c.
Proof.
  intros Ha Hb Hg. unfold enc_seg12, be32, be16. cbn [app S_groups12 skipn]. unfold rd32.
  replace ((a / 16777216) mod 256 * 16777216 + (a / 65536) mod 256 * 65536 + (a / 256) mod 256 * 256 + a mod 256)
    with a by (unfold u32 in *; lia).
  replace ((b / 16777216) mod 256 * 16777216 + (b / 65536) mod 256 * 65536 + (b / 256) mod 256 * 256 + b mod 256)
    with b by (unfold u32 in *; lia).
  replace (0 * 16777216 + 0 * 65536 + (g / 256) mod 256 * 256 + g mod 256)
    with g by (unfold u16 in *; lia).
  reflexivity.
Qed.

Lemma S_groups12_enc ss : forall first pe c,
  chain first pe ss ->
  S_groups12 (length ss) (flat_map enc_seg12 ss) c = lookup (flat_map expand12 ss) c.
Proof.
  induction ss as [|[[a b] g] r IH]; intros first pe c Hc; [reflexivity|].
  cbn [chain] in Hc. destruct Hc as (Hab & Hb & Hg & Hp & Hc).
  cbn [length flat_map].
  rewrite S_groups12_step by (unfold u32, u16 in *; lia).
  rewrite lookup_app.
  unfold expand12 at 1 2.
  pose proof (lookup_expand_acc (N.to_nat (b - a + 1)) a g [] c) as HL.
  pose proof (has_key_expand_acc (N.to_nat (b - a + 1)) a g [] c) as HK.
  rewrite app_nil_r in HL, HK.
  assert (Hd : desc (rev (expand_n (N.to_nat (b - a + 1)) a g))).
  { pose proof (desc_expand_acc (N.to_nat (b - a + 1)) a g [] I I) as H.
    now rewrite app_nil_r in H. }
  rewrite <- (rev_involutive (expand_n (N.to_nat (b - a + 1)) a g)).
  rewrite has_key_rev, lookup_rev_desc by assumption.
  rewrite HL, HK. cbn [lookup has_key]. rewrite orb_false_r.
  replace (c <? a + N.of_nat (N.to_nat (b - a + 1))) with (c <=? b) by lia.
  destruct ((a <=? c) && (c <=? b)); [reflexivity|].
  apply (IH false b). assumption.
Qed.

Lemma spec12_encode12 m lang c :
  sorted_keys m = true -> bounded (u32 - 1) u16 m -> N.of_nat (length m) <= 65536 ->
  S_lookup12 (M_encode12 m lang) c = lookup m c.
Proof.
  intros Hs Hb Hl.
  pose proof (segs12_chain m Hs Hb) as Hc.
  pose proof (segs12_expand m Hb) as He.
  pose proof (chain_length_le _ _ _ Hc) as Hn. rewrite He in Hn.
  unfold S_lookup12, M_encode12.
  set (ss := M_segs12 m) in *.
  set (n := N.of_nat (length ss)).
  change (skipn 12 ([0; 12; 0; 0] ++ be32 ((16 + n * 12) mod u32) ++ [0; 0] ++ be16 lang ++ be32 n ++ flat_map enc_seg12 ss))
    with (be32 n ++ flat_map enc_seg12 ss).
  change (skipn 16 ([0; 12; 0; 0] ++ be32 ((16 + n * 12) mod u32) ++ [0; 0] ++ be16 lang ++ be32 n ++ flat_map enc_seg12 ss))
    with (flat_map enc_seg12 ss).
  rewrite rd32_be32_app. replace (n mod 4294967296) with n by (subst n; lia).
  replace (N.to_nat n) with (length ss) by (subst n; lia).
  rewrite (S_groups12_enc ss true 0 c Hc). now rewrite He.
Qed.
