(* C09/Proofs_Trt.v — the cmap table survives Encode/Decode: all keys, all
   subtable bytes; identical subtables are stored once. *)
From Coq Require Import List NArith ZArith Lia Bool Arith.
From Coq Require Import ZifyBool ZifyNat ZifyN.
From Common Require Import Bytes Outcome.
From Gen Require Import C09.
From C09 Require Import Model Model4 ModelT Util Proofs_4spec Proofs_4dec Proofs_T.
Import ListNotations.
Ltac Zify.zify_post_hook ::= Z.div_mod_to_equations.
Local Open Scope N_scope.

Definition body (l : list (list N * N)) : list N := flat_map fst l.
Definition blen (l : list (list N * N)) : N := N.of_nat (length (body l)).

Lemma body_app a b : body (a ++ b) = body a ++ body b.
Proof. unfold body. apply flat_map_app. Qed.

Lemma bytes_eqb_eq a : forall b, bytes_eqb a b = true -> a = b.
Proof.
  induction a as [|x a IH]; intros [|y b] H; cbn [bytes_eqb] in H; try discriminate; [reflexivity|].
  apply andb_true_iff in H. destruct H as [H1 H2]. apply N.eqb_eq in H1. subst. f_equal. now apply IH.
Qed.

Lemma bytes_eqb_refl a : bytes_eqb a a = true.
Proof. induction a as [|x a IH]; [reflexivity|]. cbn [bytes_eqb]. now rewrite N.eqb_refl, IH. Qed.

Lemma find_equal_in d prev o : find_equal d prev = Some o -> In (d, o) prev.
Proof.
  induction prev as [|[d' o'] r IH]; cbn [find_equal]; [discriminate|].
  destruct (bytes_eqb d d') eqn:E.
  - intros [= <-]. apply bytes_eqb_eq in E. subst. now left.
  - intros H. right. now apply IH.
Qed.

Section Enc.
Variable eoh : N.

(* the entries produced by the offset loop: a fresh entry keeps its data and
   sits at the current end; a shared one has no data of its own and the offset
   of an earlier fresh entry with the same bytes *)
Fixpoint ext_ok (before l : list (list N * N)) (ds : list (list N)) : Prop :=
  match l, ds with
  | [], [] => True
  | (st, o) :: l', d :: ds' =>
      ((st = d /\ o = eoh + blen before) \/ (st = [] /\ In (d, o) before)) /\
      ext_ok (before ++ [(st, o)]) l' ds'
  | _, _ => False
  end.

Lemma blen_snoc prev st (o : N) : blen (prev ++ [(st, o)]) = blen prev + N.of_nat (length st).
Proof.
  unfold blen. rewrite body_app. unfold body at 2. cbn [flat_map fst]. rewrite app_nil_r, app_length. lia.
Qed.

Lemma enc_offsets_ok ext : forall prev pos,
  pos = eoh + blen prev ->
  eoh + blen prev + N.of_nat (length (flat_map snd ext)) < u32 ->
  Forall (fun kd => snd kd <> []) ext ->
  exists new,
    fst (enc_offsets prev pos ext) = prev ++ new /\
    ext_ok prev new (map snd ext) /\
    snd (enc_offsets prev pos ext) = eoh + blen (prev ++ new) /\
    blen (prev ++ new) <= blen prev + N.of_nat (length (flat_map snd ext)).
Proof.
  induction ext as [|[k d] r IH]; intros prev pos Hpos Hsz Hne.
  - exists []. cbn [enc_offsets fst snd map ext_ok]. rewrite app_nil_r. repeat split; try assumption.
    cbn. lia.
  - inversion Hne as [|? ? Hd Hne']; subst. cbn [snd] in Hd.
    cbn [flat_map snd] in Hsz. rewrite app_length in Hsz.
    cbn [enc_offsets map snd].
    destruct (find_equal d prev) as [o|] eqn:Ef.
    + destruct (IH (prev ++ [([], o)]) (eoh + blen prev)) as (new & N1 & N2 & N3 & N4).
      * rewrite blen_snoc. cbn [length]. lia.
      * rewrite blen_snoc. cbn [length]. lia.
      * assumption.
      * rewrite blen_snoc in N4. cbn [length] in N4.
        exists (([], o) :: new). rewrite <- app_assoc in N1, N3, N4. cbn [app] in N1, N3, N4.
        split; [exact N1|]. split.
        -- cbn [ext_ok]. split; [right; split; [reflexivity|now apply find_equal_in]|exact N2].
        -- split; [exact N3|]. cbn [flat_map snd]. rewrite app_length. lia.
    + assert (Hp : (eoh + blen prev + N.of_nat (length d)) mod u32
                   = eoh + blen (prev ++ [(d, eoh + blen prev)])).
      { rewrite blen_snoc. rewrite N.mod_small by lia. lia. }
      destruct (IH (prev ++ [(d, eoh + blen prev)]) ((eoh + blen prev + N.of_nat (length d)) mod u32))
        as (new & N1 & N2 & N3 & N4).
      * exact Hp.
      * rewrite blen_snoc. lia.
      * assumption.
      * rewrite blen_snoc in N4.
        exists ((d, eoh + blen prev) :: new). rewrite <- app_assoc in N1, N3, N4. cbn [app] in N1, N3, N4.
        split; [exact N1|]. split.
        -- cbn [ext_ok]. split; [left; split; reflexivity|exact N2].
        -- split; [exact N3|]. cbn [flat_map snd]. rewrite app_length. lia.
Qed.

(* every entry's bytes are found at its offset in the final body *)
Definition placed (B : list N) (d : list N) (o : N) : Prop :=
  eoh <= o /\ o - eoh + N.of_nat (length d) <= N.of_nat (length B) /\
  firstn (length d) (skipn (N.to_nat (o - eoh)) B) = d.

Lemma placed_app B B' d o : placed B d o -> placed (B ++ B') d o.
Proof.
  intros (H1 & H2 & H3). split; [assumption|]. split; [rewrite app_length; lia|].
  rewrite skipn_app. replace (N.to_nat (o - eoh) - length B)%nat with 0%nat by lia.
  cbn [skipn]. rewrite firstn_app.
  replace (length d - length (skipn (N.to_nat (o - eoh)) B))%nat with 0%nat
    by (rewrite skipn_length; lia).
  cbn [firstn]. rewrite app_nil_r. exact H3.
Qed.

Lemma placed_end B d : placed (B ++ d) d (eoh + N.of_nat (length B)).
Proof.
  split; [lia|]. split; [rewrite app_length; lia|].
  replace (N.to_nat (eoh + N.of_nat (length B) - eoh)) with (length B) by lia.
  rewrite skipn_app, skipn_all, Nat.sub_diag. cbn [skipn app]. apply firstn_all.
Qed.

(* all data-carrying entries of [before] are placed in its body *)
Definition all_placed (before : list (list N * N)) : Prop :=
  forall d o, In (d, o) before -> d <> [] -> placed (body before) d o.

Lemma ext_ok_placed l : forall before ds,
  ext_ok before l ds -> all_placed before -> Forall (fun d => d <> []) ds ->
  all_placed (before ++ l) /\
  Forall2 (fun so d => placed (body (before ++ l)) d (snd so)) l ds.
Proof.
  induction l as [|[st o] l' IH]; intros before ds Hok Hpl Hne.
  - destruct ds; [|destruct Hok]. rewrite app_nil_r. split; [assumption|constructor].
  - destruct ds as [|d ds']; [destruct Hok|]. cbn [ext_ok] in Hok. destruct Hok as [Hhead Hok].
    inversion Hne as [|? ? Hd Hne']; subst.
    assert (Hpl' : all_placed (before ++ [(st, o)])).
    { intros d0 o0 Hin Hd0. apply in_app_or in Hin. rewrite body_app.
      destruct Hin as [Hin|[Heq|[]]].
      - apply placed_app. now apply Hpl.
      - injection Heq as <- <-. destruct Hhead as [[-> ->]|[-> _]]; [|congruence].
        unfold body at 2. cbn [flat_map fst]. rewrite app_nil_r. unfold blen. apply placed_end. }
    destruct (IH (before ++ [(st, o)]) ds' Hok Hpl' Hne') as [I1 I2].
    rewrite <- app_assoc in I1, I2. cbn [app] in I1, I2.
    split; [exact I1|]. constructor; [|exact I2]. cbn [snd].
    destruct Hhead as [[-> ->]|[-> Hin]].
    + apply I1; [|assumption]. apply in_or_app. right. now left.
    + apply I1; [|assumption]. apply in_or_app. now left.
Qed.

End Enc.

(* ---------- reading the encoded bytes ---------- *)

Lemma nth_error_skipn_hd {A} (d : list A) k x r : skipn k d = x :: r -> nth_error d k = Some x.
Proof.
  revert d. induction k as [|k IH]; intros d H; destruct d as [|y d']; try discriminate.
  - cbn in H. injection H as -> _. reflexivity.
  - cbn [skipn] in H. cbn [nth_error]. now apply IH.
Qed.

Lemma skipn_S_tl {A} (d : list A) k x r : skipn k d = x :: r -> skipn (S k) d = r.
Proof.
  revert d. induction k as [|k IH]; intros d H; destruct d as [|y d']; try discriminate.
  - cbn in H. injection H as _ ->. reflexivity.
  - cbn [skipn] in H. change (skipn (S (S k)) (y :: d')) with (skipn (S k) d'). now apply IH.
Qed.

Lemma get8_of_skipn d off x r : skipn (N.to_nat off) d = x :: r -> get8 d off = Ok x.
Proof. intros H. unfold get8. now rewrite (nth_error_skipn_hd d _ x r H). Qed.

Lemma get16_of_skipn d off x y r :
  skipn (N.to_nat off) d = x :: y :: r -> get16 d off = Ok (x * 256 + y).
Proof.
  intros H. unfold get16. rewrite (get8_of_skipn d off x _ H). cbn [obind].
  pose proof (skipn_S_tl d _ x _ H) as H1.
  replace (S (N.to_nat off)) with (N.to_nat (off + 1)) in H1 by lia.
  rewrite (get8_of_skipn d (off + 1) y _ H1). reflexivity.
Qed.

Lemma get32_of_skipn d off a b c e r :
  skipn (N.to_nat off) d = a :: b :: c :: e :: r ->
  get32 d off = Ok (rd32 [a; b; c; e]).
Proof.
  intros H. unfold get32. rewrite (get16_of_skipn d off a b _ H). cbn [obind].
  pose proof (skipn_S_tl d _ a _ H) as H1. pose proof (skipn_S_tl d _ b _ H1) as H2.
  replace (S (S (N.to_nat off))) with (N.to_nat (off + 2)) in H2 by lia.
  rewrite (get16_of_skipn d (off + 2) c e _ H2). cbn [obind]. unfold rd32. f_equal. lia.
Qed.

(* reads inside a block found at offset o *)
Lemma get16_in_block b o d rest k :
  skipn (N.to_nat o) b = d ++ rest -> (k + 2 <= length d)%nat ->
  get16 b (o + N.of_nat k) = Ok (rd16 (skipn k d)).
Proof.
  intros Hs Hk.
  assert (H : skipn (N.to_nat (o + N.of_nat k)) b = skipn k d ++ rest).
  { replace (N.to_nat (o + N.of_nat k)) with (N.to_nat o + k)%nat by lia.
    rewrite <- skipn_skipn', Hs, skipn_app.
    replace (k - length d)%nat with 0%nat by lia. reflexivity. }
  destruct (skipn k d) as [|x [|y r]] eqn:E;
    try (assert (Hl : length (skipn k d) = (length d - k)%nat) by apply skipn_length;
         rewrite E in Hl; cbn [length] in Hl; lia).
  cbn [app] in H. rewrite (get16_of_skipn b _ x y _ H). reflexivity.
Qed.

Lemma get32_in_block b o d rest k :
  skipn (N.to_nat o) b = d ++ rest -> (k + 4 <= length d)%nat ->
  get32 b (o + N.of_nat k) = Ok (rd32 (skipn k d)).
Proof.
  intros Hs Hk.
  assert (H : skipn (N.to_nat (o + N.of_nat k)) b = skipn k d ++ rest).
  { replace (N.to_nat (o + N.of_nat k)) with (N.to_nat o + k)%nat by lia.
    rewrite <- skipn_skipn', Hs, skipn_app.
    replace (k - length d)%nat with 0%nat by lia. reflexivity. }
  destruct (skipn k d) as [|x [|y [|z [|w r]]]] eqn:E;
    try (assert (Hl : length (skipn k d) = (length d - k)%nat) by apply skipn_length;
         rewrite E in Hl; cbn [length] in Hl; lia).
  cbn [app] in H. rewrite (get32_of_skipn b _ x y z w _ H). reflexivity.
Qed.

(* ---------- well-formed entries ---------- *)

(* the header fields cmap.Decode reads from a subtable: (checkLength, length,
   language) *)
Definition hdr_of (d : list N) : option (N * N * N) :=
  let f := rd16 d in
  if (f =? 0) || (f =? 2) || (f =? 4) || (f =? 6) then
    Some (10, rd16 (skipn 2 d), rd16 (skipn 4 d))
  else if (f =? 8) || (f =? 10) || (f =? 12) || (f =? 13) then
    Some (12, rd32 (skipn 4 d), rd16 (skipn 10 d))
  else if f =? 14 then Some (10, rd32 (skipn 2 d), 0)
  else None.

(* an entry that cmap.Decode can return: platform at most 4, ids 16 bit, at
   least 10 bytes (12 for the 32-bit formats), a valid format, the subtable's
   length field equal to its length, and the key's language equal to the
   subtable's own for platform 1 and 0 otherwise *)
Definition wf_entry (kd : key * list N) : Prop :=
  let '((p, e, l), d) := kd in
  p <= 4 /\ e < 65536 /\ 10 <= N.of_nat (length d) /\
  exists cl len lang, hdr_of d = Some (cl, len, lang) /\
    len = N.of_nat (length d) /\ cl <= len /\
    l = (if p =? 1 then lang else 0).

(* the sorted-segment logic of Decode as a function *)
Definition seg_step (o length0 : N) (segs : list (N * N)) : outcome (list (N * N)) :=
  let idx := seg_search o segs in
  if (Nat.eqb idx (List.length segs)) || negb (o =? fst (nth idx segs (0, 0))) then
    if ((0 <? N.of_nat idx) && (o <? snd (nth (idx - 1) segs (0, 0))))
       || (negb (Nat.eqb idx (List.length segs))
           && (fst (nth idx segs (0, 0)) <? (o + length0) mod u32))
    then Err
    else Ok (insert_at idx (o, (o + length0) mod u32) segs)
  else Ok segs.

Lemma dec_record_enc b eoh i p e l d o rest segs res :
  N.of_nat (length b) < u32 ->
  skipn (N.to_nat (4 + i * 8)) b = be16 p ++ be16 e ++ be32 o ++ rest ->
  p < 65536 -> o < u32 ->
  eoh <= o ->
  (exists rest', skipn (N.to_nat o) b = d ++ rest') ->
  o + N.of_nat (length d) <= N.of_nat (length b) ->
  wf_entry ((p, e, l), d) ->
  dec_record b eoh (N.of_nat (length b)) i (segs, res)
  = segs' <- seg_step o (N.of_nat (length d)) segs ;;
    Ok (segs', tput (p, e, l) (o, N.of_nat (length d)) res).
Proof.
  intros Hb Hrec Hp Ho Heoh [rest' Hblk] Hend (Hp4 & He & Hd10 & cl & len & lang & Hh & Hlen & Hcl & Hl).
  unfold dec_record. destruct table_consts as [-> ->].
  set (L := N.of_nat (length b)) in *.
  (* the record *)
  unfold be16 at 1 in Hrec. cbn [app] in Hrec.
  rewrite (get16_of_skipn b _ _ _ _ Hrec). cbn [obind].
  replace ((p / 256) mod 256 * 256 + p mod 256) with p by lia.
  replace (4 <? p) with false by lia.
  pose proof (skipn_S_tl b _ _ _ Hrec) as H1. pose proof (skipn_S_tl b _ _ _ H1) as H2.
  replace (S (S (N.to_nat (4 + i * 8)))) with (N.to_nat (6 + i * 8)) in H2 by lia.
  unfold be16 at 1 in H2. cbn [app] in H2.
  rewrite (get16_of_skipn b _ _ _ _ H2). cbn [obind].
  replace ((e / 256) mod 256 * 256 + e mod 256) with e by lia.
  pose proof (skipn_S_tl b _ _ _ H2) as H3. pose proof (skipn_S_tl b _ _ _ H3) as H4.
  replace (S (S (N.to_nat (6 + i * 8)))) with (N.to_nat (8 + i * 8)) in H4 by lia.
  unfold be32 at 1 in H4. cbn [app] in H4.
  rewrite (get32_of_skipn b _ _ _ _ _ _ H4). cbn [obind].
  replace (rd32 [(o / 16777216) mod 256; (o / 65536) mod 256; (o / 256) mod 256; o mod 256]) with o
    by (unfold rd32, u32 in *; lia).
  replace ((L + u32 - 10) mod u32) with (L - 10) by (unfold u32 in *; lia).
  replace ((o <? eoh) || (L - 10 <? o)) with false by lia.
  (* the subtable header *)
  pose proof (get16_in_block b o d rest' 0 Hblk ltac:(lia)) as G0.
  rewrite N.add_0_r in G0. cbn [skipn] in G0. rewrite G0. cbn [obind].
  unfold hdr_of in Hh.
  assert (Hmod : (L + u32 - o) mod u32 = L - o) by (unfold u32 in *; lia).
  assert (Hsum : (o + N.of_nat (length d)) mod u32 = o + N.of_nat (length d)) by (unfold u32 in *; lia).
  destruct ((rd16 d =? 0) || (rd16 d =? 2) || (rd16 d =? 4) || (rd16 d =? 6)) eqn:F1.
  - assert (Hq : cl = 10 /\ len = rd16 (skipn 2 d) /\ lang = rd16 (skipn 4 d))
      by (repeat split; congruence).
    destruct Hq as (-> & Hq2 & ->). rewrite Hq2 in *. clear Hq2 Hh.
    pose proof (get16_in_block b o d rest' 2 Hblk ltac:(lia)) as G2.
    pose proof (get16_in_block b o d rest' 4 Hblk ltac:(lia)) as G4.
    change (N.of_nat 2) with 2 in G2. change (N.of_nat 4) with 4 in G4.
    rewrite G2, G4. cbn [obind]. rewrite Hmod, Hlen.
    replace ((N.of_nat (length d) <? 10) || (L - o <? N.of_nat (length d))) with false by lia.
    cbv zeta. fold (seg_step o (N.of_nat (length d)) segs).
    destruct (seg_step o (N.of_nat (length d)) segs) as [segs'| | |]; cbn [obind]; try reflexivity.
    rewrite Hsum. fold L.
    replace ((o + N.of_nat (length d) <? o) || (L <? o + N.of_nat (length d))) with false by lia.
    rewrite Hl. reflexivity.
  - destruct ((rd16 d =? 8) || (rd16 d =? 10) || (rd16 d =? 12) || (rd16 d =? 13)) eqn:F2.
    + assert (Hq : cl = 12 /\ len = rd32 (skipn 4 d) /\ lang = rd16 (skipn 10 d))
        by (repeat split; congruence).
      destruct Hq as (-> & Hq2 & ->). rewrite Hq2 in *. clear Hq2 Hh.
      replace ((L + u32 - 12) mod u32) with (L - 12) by (unfold u32 in *; lia).
      replace (L - 12 <? o) with false by lia.
      pose proof (get32_in_block b o d rest' 4 Hblk ltac:(lia)) as G4.
      pose proof (get16_in_block b o d rest' 10 Hblk ltac:(lia)) as G10.
      change (N.of_nat 4) with 4 in G4. change (N.of_nat 10) with 10 in G10.
      rewrite G4, G10. cbn [obind]. rewrite Hmod, Hlen.
      replace ((N.of_nat (length d) <? 12) || (L - o <? N.of_nat (length d))) with false by lia.
      cbv zeta. fold (seg_step o (N.of_nat (length d)) segs).
      destruct (seg_step o (N.of_nat (length d)) segs) as [segs'| | |]; cbn [obind]; try reflexivity.
      rewrite Hsum. fold L.
      replace ((o + N.of_nat (length d) <? o) || (L <? o + N.of_nat (length d))) with false by lia.
      rewrite Hl. reflexivity.
    + destruct (rd16 d =? 14) eqn:F3; [|discriminate Hh].
      assert (Hq : cl = 10 /\ len = rd32 (skipn 2 d) /\ lang = 0)
        by (repeat split; congruence).
      destruct Hq as (-> & Hq2 & ->). rewrite Hq2 in *. clear Hq2 Hh.
      pose proof (get32_in_block b o d rest' 2 Hblk ltac:(lia)) as G2.
      change (N.of_nat 2) with 2 in G2.
      rewrite G2. cbn [obind]. rewrite Hmod, Hlen.
      replace ((N.of_nat (length d) <? 10) || (L - o <? N.of_nat (length d))) with false by lia.
      cbv zeta. fold (seg_step o (N.of_nat (length d)) segs).
      destruct (seg_step o (N.of_nat (length d)) segs) as [segs'| | |]; cbn [obind]; try reflexivity.
      rewrite Hsum. fold L.
      replace ((o + N.of_nat (length d) <? o) || (L <? o + N.of_nat (length d))) with false by lia.
      rewrite Hl. destruct (p =? 1); reflexivity.
Qed.

(* ---------- the occupied ranges ---------- *)

Fixpoint ranges (l : list (list N * N)) : list (N * N) :=
  match l with
  | [] => []
  | (st, o) :: r =>
      match st with
      | [] => ranges r
      | _ => (o, o + N.of_nat (length st)) :: ranges r
      end
  end.

Lemma ranges_app a b : ranges (a ++ b) = ranges a ++ ranges b.
Proof.
  induction a as [|[st o] r IH]; [reflexivity|]. cbn [app ranges].
  destruct st; [exact IH|]. cbn [app]. now rewrite IH.
Qed.

(* contiguous, non-empty ranges from s to e *)
Fixpoint chain (s : N) (rs : list (N * N)) (e : N) : Prop :=
  match rs with
  | [] => s = e
  | (a, b) :: r => a = s /\ a < b /\ chain b r e
  end.

Lemma chain_app s rs e x y : chain s rs e -> e < y -> x = e -> chain s (rs ++ [(x, y)]) y.
Proof.
  revert s. induction rs as [|[a b] r IH]; intros s H Hy ->; cbn [chain app] in *.
  - subst. repeat split. assumption.
  - destruct H as (H1 & H2 & H3). repeat split; try assumption. now apply IH.
Qed.

Lemma chain_bounds s rs e : chain s rs e -> s <= e /\ forall a b, In (a, b) rs -> s <= a /\ a < b /\ b <= e.
Proof.
  revert s. induction rs as [|[a b] r IH]; intros s H; cbn [chain] in H.
  - subst. split; [lia|]. intros ? ? [].
  - destruct H as (-> & H2 & H3). destruct (IH _ H3) as [I1 I2]. split; [lia|].
    intros a' b' [Heq|Hin].
    + injection Heq as <- <-. lia.
    + destruct (I2 _ _ Hin). lia.
Qed.

Lemma seg_search_all_lt o rs : (forall a b, In (a, b) rs -> a < o) -> seg_search o rs = length rs.
Proof.
  induction rs as [|[a b] r IH]; intros H; [reflexivity|]. cbn [seg_search length].
  assert (a < o) by (apply (H a b); now left).
  replace (o <=? a) with false by lia. f_equal. apply IH. intros a' b' Hin. apply (H a' b'). now right.
Qed.

Lemma last_end s rs e : chain s rs e -> rs <> [] -> snd (nth (length rs - 1) rs (0, 0)) = e.
Proof.
  revert s. induction rs as [|[a b] r IH]; intros s H Hne; [congruence|].
  cbn [chain] in H. destruct H as (_ & _ & H3).
  destruct r as [|x r'].
  - cbn [chain] in H3. cbn. assumption.
  - cbn [length]. replace (S (S (length r')) - 1)%nat with (S (length r')) by lia.
    change (nth (S (length r')) ((a, b) :: x :: r') (0, 0)) with (nth (length r') (x :: r') (0, 0)).
    specialize (IH b H3 ltac:(discriminate)). cbn [length] in IH.
    replace (S (length r') - 1)%nat with (length r') in IH by lia. exact IH.
Qed.

(* a fresh subtable is appended *)
Lemma seg_step_fresh s rs e len :
  chain s rs e -> 0 < len -> e + len < u32 ->
  seg_step e len rs = Ok (rs ++ [(e, e + len)]).
Proof.
  intros Hc Hl Hu. unfold seg_step.
  destruct (chain_bounds s rs e Hc) as [_ Hb].
  rewrite seg_search_all_lt by (intros a b Hin; destruct (Hb a b Hin); lia).
  rewrite Nat.eqb_refl. cbn [orb negb andb].
  assert (Hprev : (0 <? N.of_nat (length rs)) && (e <? snd (nth (length rs - 1) rs (0, 0))) = false).
  { destruct rs as [|x r]; [reflexivity|].
    rewrite (last_end s (x :: r) e Hc) by discriminate. lia. }
  rewrite Hprev. cbn [orb].
  unfold insert_at. rewrite firstn_all, skipn_all. f_equal. f_equal. f_equal. f_equal.
  unfold u32 in *. apply N.mod_small. lia.
Qed.

(* a shared subtable leaves the ranges unchanged *)
Lemma seg_search_found s rs e o x :
  chain s rs e -> In (o, x) rs ->
  (seg_search o rs < length rs)%nat /\ fst (nth (seg_search o rs) rs (0, 0)) = o.
Proof.
  revert s. induction rs as [|[a b] r IH]; intros s Hc Hin; [destruct Hin|].
  cbn [chain] in Hc. destruct Hc as (-> & Hab & Hc). cbn [seg_search length].
  destruct (o <=? s) eqn:E.
  - split; [lia|]. cbn [nth fst].
    destruct Hin as [Heq|Hin]; [now injection Heq|].
    destruct (chain_bounds _ _ _ Hc) as [_ Hb]. destruct (Hb _ _ Hin). lia.
  - destruct Hin as [Heq|Hin]; [injection Heq as -> _; lia|].
    destruct (IH _ Hc Hin) as [I1 I2]. split; [lia|]. exact I2.
Qed.

Lemma seg_step_shared s rs e o x len :
  chain s rs e -> In (o, x) rs -> seg_step o len rs = Ok rs.
Proof.
  intros Hc Hin. unfold seg_step.
  destruct (seg_search_found s rs e o x Hc Hin) as [H1 H2].
  replace (Nat.eqb (seg_search o rs) (length rs)) with false by (symmetry; apply Nat.eqb_neq; lia).
  rewrite H2, N.eqb_refl. reflexivity.
Qed.

Lemma in_ranges d o l : In (d, o) l -> d <> [] -> In (o, o + N.of_nat (length d)) (ranges l).
Proof.
  induction l as [|[st o'] r IH]; intros Hin Hd; [destruct Hin|].
  cbn [ranges]. destruct Hin as [Heq|Hin].
  - injection Heq as -> ->. destruct d; [congruence|]. now left.
  - destruct st; [now apply IH|]. right. now apply IH.
Qed.

(* ---------- keys ---------- *)

Lemma key_ltb_trans a b c : key_ltb a b = true -> key_ltb b c = true -> key_ltb a c = true.
Proof.
  destruct a as [[p1 e1] l1], b as [[p2 e2] l2], c as [[p3 e3] l3]. unfold key_ltb.
  destruct (p1 =? p2) eqn:A1, (p2 =? p3) eqn:A2, (p1 =? p3) eqn:A3; cbn [negb];
    destruct (e1 =? e2) eqn:B1, (e2 =? e3) eqn:B2, (e1 =? e3) eqn:B3; cbn [negb]; lia.
Qed.

Lemma key_ltb_neq a b : key_ltb a b = true -> key_eqb a b = false /\ key_ltb b a = false.
Proof.
  destruct a as [[p1 e1] l1], b as [[p2 e2] l2]. unfold key_ltb, key_eqb.
  destruct (p1 =? p2) eqn:A1, (p2 =? p1) eqn:A2; cbn [negb andb];
    destruct (e1 =? e2) eqn:B1, (e2 =? e1) eqn:B2; cbn [negb andb]; try lia;
    destruct (l1 =? l2) eqn:C1; lia.
Qed.

Lemma tput_append {V} k (v : V) t :
  Forall (fun kv => key_ltb (fst kv) k = true) t -> tput k v t = t ++ [(k, v)].
Proof.
  induction t as [|[k' v'] r IH]; intros H; [reflexivity|].
  inversion H as [|? ? H1 H2]; subst. cbn [fst] in H1. cbn [tput app].
  destruct (key_ltb_neq _ _ H1) as [E1 E2]. rewrite E1, E2. f_equal. now apply IH.
Qed.

(* consecutive keys strictly increasing in Table.Encode's order *)
Fixpoint keys_sorted (ks : list key) : bool :=
  match ks with
  | k1 :: ((k2 :: _) as r) => key_ltb k1 k2 && keys_sorted r
  | _ => true
  end.

Lemma keys_sorted_all k r : keys_sorted (k :: r) = true -> Forall (fun k' => key_ltb k k' = true) r.
Proof.
  revert k. induction r as [|k2 r IH]; intros k H; [constructor|].
  cbn [keys_sorted] in H. apply andb_true_iff in H. destruct H as [H1 H2].
  constructor; [assumption|]. specialize (IH k2 H2).
  eapply Forall_impl; [|exact IH]. intros k' Hk'. cbv beta in *. eapply key_ltb_trans; eassumption.
Qed.

Lemma keys_sorted_tl k r : keys_sorted (k :: r) = true -> keys_sorted r = true.
Proof.
  destruct r as [|k2 r]; [reflexivity|]. cbn [keys_sorted]. intros H.
  apply andb_true_iff in H. tauto.
Qed.

(* ---------- the record loop on the encoder's output ---------- *)

Definition lens (ds : list (list N)) : list N := map (fun d => N.of_nat (length d)) ds.

Lemma rec_bytes_length ke : length (rec_bytes ke) = 8%nat.
Proof. destruct ke as [[[p e] l] [st o]]. reflexivity. Qed.

Lemma Forall2_cons_inv {A C} (R : A -> C -> Prop) x l y l' :
  Forall2 R (x :: l) (y :: l') -> R x y /\ Forall2 R l l'.
Proof. intros H. inversion H; subst. split; assumption. Qed.

Section Loop.
Variables (b B : list N) (eoh : N).
Hypothesis Hb32 : N.of_nat (length b) < u32.
Hypothesis Hsplit : forall o, eoh <= o -> skipn (N.to_nat o) b = skipn (N.to_nat (o - eoh)) B.
Hypothesis Hlen : N.of_nat (length b) = eoh + N.of_nat (length B).

Lemma dec_records_enc el : forall ks ds before i res Rtail,
  length ks = length el -> length ds = length el ->
  i = N.of_nat (length before) ->
  skipn (N.to_nat (4 + i * 8)) b = flat_map rec_bytes (combine ks el) ++ Rtail ->
  ext_ok eoh before el ds ->
  chain eoh (ranges before) (eoh + blen before) ->
  Forall2 (fun so d => placed eoh B d (snd so)) el ds ->
  Forall wf_entry (combine ks ds) ->
  Forall (fun kv => Forall (fun k => key_ltb (fst kv) k = true) ks) res ->
  keys_sorted ks = true ->
  dec_records b eoh (N.of_nat (length b)) (length el) i (ranges before, res)
  = Ok (ranges (before ++ el), res ++ combine ks (combine (map snd el) (lens ds))).
Proof.
  induction el as [|[st o] el' IH]; intros ks ds before i res Rtail Lk Ld Hi Hrec Hok Hch Hpl Hwf Hres Hks.
  - destruct ks; [|discriminate Lk]. cbn [length dec_records combine]. now rewrite !app_nil_r.
  - destruct ks as [|k ks']; [discriminate Lk|]. destruct ds as [|d ds']; [discriminate Ld|].
    cbn [length] in Lk, Ld. cbn [ext_ok] in Hok. destruct Hok as [Hhead Hok].
    apply Forall2_cons_inv in Hpl. destruct Hpl as [Hp Hpl']. cbn [snd] in Hp.
    cbn [combine] in Hwf. pose proof (Forall_inv Hwf) as Hw. pose proof (Forall_inv_tail Hwf) as Hwf'.
    destruct k as [[p e] l].
    destruct Hp as (P1 & P2 & P3).
    assert (Hd10 : 10 <= N.of_nat (length d)) by (destruct Hw as (_ & _ & H10 & _); exact H10).
    assert (Hp4 : p <= 4) by (destruct Hw as (H4 & _); exact H4).
    assert (Hblk : skipn (N.to_nat o) b = d ++ skipn (length d) (skipn (N.to_nat (o - eoh)) B)).
    { rewrite (Hsplit o P1). rewrite <- (firstn_skipn (length d) (skipn (N.to_nat (o - eoh)) B)) at 1.
      now rewrite P3. }
    cbn [length dec_records].
    cbn [combine flat_map] in Hrec. unfold rec_bytes at 1 in Hrec. rewrite <- !app_assoc in Hrec.
    rewrite (dec_record_enc b eoh i p e l d o _ (ranges before) res Hb32 Hrec ltac:(lia)
               ltac:(unfold u32 in *; lia) P1 (ex_intro _ _ Hblk) ltac:(lia) Hw).
    (* the occupied ranges *)
    assert (Hseg : seg_step o (N.of_nat (length d)) (ranges before) = Ok (ranges (before ++ [(st, o)]))).
    { rewrite ranges_app. destruct Hhead as [[-> ->]|[-> Hin]].
      - rewrite (seg_step_fresh eoh (ranges before) (eoh + blen before)) by (assumption || lia).
        cbn [ranges]. destruct d as [|x d0]; [cbn [length] in Hd10; lia|]. reflexivity.
      - cbn [ranges]. rewrite app_nil_r.
        apply (seg_step_shared eoh _ (eoh + blen before) o (o + N.of_nat (length d))); [assumption|].
        apply in_ranges; [assumption|]. intros ->. cbn [length] in Hd10. lia. }
    rewrite Hseg. cbn [obind].
    rewrite tput_append.
    2:{ eapply Forall_impl; [|exact Hres]. intros kv Hkv. cbv beta in *. now inversion Hkv. }
    (* the remaining records *)
    rewrite (IH ks' ds' (before ++ [(st, o)]) (i + 1)
               (res ++ [@pair key (N * N) (p, e, l) (o, N.of_nat (length d))]) Rtail).
    + rewrite <- !app_assoc. cbn [app map snd lens combine]. reflexivity.
    + lia.
    + lia.
    + rewrite app_length. cbn [length]. lia.
    + replace (N.to_nat (4 + (i + 1) * 8)) with (N.to_nat (4 + i * 8) + 8)%nat by lia.
      rewrite <- skipn_skipn', Hrec.
      change (be16 p ++ be16 e ++ be32 o ++ flat_map rec_bytes (combine ks' el') ++ Rtail)
        with ((be16 p ++ be16 e ++ be32 o) ++ flat_map rec_bytes (combine ks' el') ++ Rtail).
      apply skipn_app_exact. reflexivity.
    + exact Hok.
    + rewrite ranges_app, blen_snoc. destruct Hhead as [[-> ->]|[-> Hin]].
      * cbn [ranges]. destruct d as [|x d0]; [cbn [length] in Hd10; lia|].
        replace (eoh + (blen before + N.of_nat (length (x :: d0))))
          with (eoh + blen before + N.of_nat (length (x :: d0))) by lia.
        apply (chain_app eoh (ranges before) (eoh + blen before)); [assumption|cbn [length] in *; lia|reflexivity].
      * cbn [ranges length]. rewrite app_nil_r, N.add_0_r. assumption.
    + exact Hpl'.
    + exact Hwf'.
    + apply Forall_app. split.
      * eapply Forall_impl; [|exact Hres]. intros kv Hkv. cbv beta in *. now inversion Hkv.
      * constructor; [|constructor]. cbn [fst]. now apply keys_sorted_all.
    + now apply keys_sorted_tl in Hks.
Qed.

End Loop.

(* ---------- the theorem ---------- *)

Lemma ext_ok_length eoh l : forall before ds, ext_ok eoh before l ds -> length l = length ds.
Proof.
  induction l as [|[st o] l' IH]; intros before ds H; destruct ds as [|d ds']; cbn [ext_ok] in H;
    try reflexivity; try (now destruct H).
  destruct H as [_ H]. cbn [length]. f_equal. now apply (IH _ _ H).
Qed.

Lemma combine_fst_snd {A C} (t : list (A * C)) : combine (map fst t) (map snd t) = t.
Proof. induction t as [|[a c] r IH]; [reflexivity|]. cbn [map combine fst snd]. now rewrite IH. Qed.

Lemma restore_bytes (b B : list N) eoh :
  (forall o, eoh <= o -> skipn (N.to_nat o) b = skipn (N.to_nat (o - eoh)) B) ->
  forall (t : list (key * list N)) el,
    Forall2 (fun (so : list N * N) (d : list N) => placed eoh B d (snd so)) el (map snd t) ->
    map (fun kv : key * (N * N) => (fst kv, sub_bytes b (snd kv)))
        (combine (map fst t) (combine (map snd el) (lens (map snd t)))) = t.
Proof.
  intros Hsplit t. induction t as [|[k d] r IH]; intros el H; [reflexivity|].
  destruct el as [|[st o] el']; [inversion H|].
  cbn [map snd] in H. apply Forall2_cons_inv in H. destruct H as [(P1 & P2 & P3) H].
  unfold lens. cbn [map fst snd combine]. fold (lens (map snd r)). rewrite (IH el' H). f_equal. f_equal.
  unfold sub_bytes. cbn [fst snd]. rewrite Nat2N.id. rewrite (Hsplit o P1). exact P3.
Qed.


(* ---------- the theorem ---------- *)

(* each distinct byte string counted once, in table order *)
Fixpoint distinct_len (seen : list (list N)) (t : list (key * list N)) : N :=
  match t with
  | [] => 0
  | (_, d) :: r =>
      if existsb (bytes_eqb d) seen then distinct_len seen r
      else N.of_nat (length d) + distinct_len (d :: seen) r
  end.

Lemma find_equal_app d a b0 :
  find_equal d (a ++ b0) = match find_equal d a with Some o => Some o | None => find_equal d b0 end.
Proof.
  induction a as [|[d' o'] r IH]; [reflexivity|]. cbn [app find_equal].
  destruct (bytes_eqb d d'); [reflexivity|exact IH].
Qed.

Definition seen_rel (prev : list (list N * N)) (seen : list (list N)) : Prop :=
  forall d, d <> [] -> (find_equal d prev = None <-> existsb (bytes_eqb d) seen = false).

Lemma bytes_eqb_nil_r d : d <> [] -> bytes_eqb d [] = false.
Proof. destruct d; [congruence|reflexivity]. Qed.

Lemma enc_blen ext : forall prev pos seen,
  seen_rel prev seen -> Forall (fun kd : key * list N => snd kd <> []) ext ->
  blen (fst (enc_offsets prev pos ext)) = blen prev + distinct_len seen ext.
Proof.
  induction ext as [|[k d] r IH]; intros prev pos seen Hrel Hne.
  - cbn [enc_offsets fst distinct_len]. lia.
  - pose proof (Forall_inv Hne) as Hd. pose proof (Forall_inv_tail Hne) as Hne'. cbn [snd] in Hd.
    cbn [enc_offsets distinct_len].
    destruct (find_equal d prev) as [o|] eqn:Ef.
    + assert (Hex : existsb (bytes_eqb d) seen = true).
      { destruct (existsb (bytes_eqb d) seen) eqn:E; [reflexivity|].
        apply (Hrel d Hd) in E. congruence. }
      rewrite Hex. rewrite (IH (prev ++ [([], o)]) pos seen); [|
        |exact Hne'].
      * rewrite blen_snoc. cbn [length]. lia.
      * intros d' Hd'. rewrite find_equal_app. cbn [find_equal]. rewrite (bytes_eqb_nil_r d' Hd').
        destruct (find_equal d' prev) eqn:E'.
        -- split; [discriminate|]. intros H. apply (Hrel d' Hd') in H. congruence.
        -- split; [intros _; now apply (Hrel d' Hd')|reflexivity].
    + assert (Hex : existsb (bytes_eqb d) seen = false) by (now apply (Hrel d Hd)).
      rewrite Hex.
      rewrite (IH (prev ++ [(d, pos)]) ((pos + N.of_nat (length d)) mod u32) (d :: seen)); [| |exact Hne'].
      * rewrite blen_snoc. lia.
      * intros d' Hd'. rewrite find_equal_app. cbn [find_equal existsb].
        destruct (find_equal d' prev) eqn:E'.
        -- split; [discriminate|]. intros H. apply orb_false_iff in H. destruct H as [_ H].
           apply (Hrel d' Hd') in H. congruence.
        -- pose proof (proj1 (Hrel d' Hd') E') as Hs. rewrite Hs, orb_false_r.
           destruct (bytes_eqb d' d); split; congruence.
Qed.

Definition total_len (t : list (key * list N)) : N := N.of_nat (length (flat_map snd t)).

Lemma table_roundtrip_lemma (t : list (key * list N)) :
  keys_sorted (map fst t) = true ->
  Forall wf_entry t ->
  N.of_nat (length t) <= 65535 ->
  4 + 8 * N.of_nat (length t) + total_len t < u32 ->
  exists b, M_encode_table t = Ok b /\ M_decode_table_bytes b = Ok t /\
            N.of_nat (length b) = 4 + 8 * N.of_nat (length t) + distinct_len [] t.
Proof.
  intros Hks Hwf Hn Hsz. unfold total_len in *.
  set (n := N.of_nat (length t)) in *.
  set (eoh := 4 + 8 * n).
  assert (Hne : Forall (fun kd => snd kd <> []) t).
  { eapply Forall_impl; [|exact Hwf]. intros [[[p e] l] d] (_ & _ & H10 & _). cbn [snd].
    intros ->. cbn [length] in H10. lia. }
  destruct (enc_offsets_ok eoh t [] eoh) as (ext & E1 & E2 & E3 & E4).
  { change (blen []) with 0. lia. } { change (blen []) with 0. subst eoh. lia. } { exact Hne. }
  cbn [app] in E1, E2, E3, E4.
  assert (Hbl0 : blen [] = 0) by reflexivity. rewrite Hbl0 in E4.
  pose proof (ext_ok_length eoh ext [] (map snd t) E2) as Lext. rewrite map_length in Lext.
  unfold M_encode_table. fold n. replace ((4 + 8 * n) mod u32) with eoh by (subst eoh; unfold u32 in *; lia).
  destruct (enc_offsets [] eoh t) as [ext0 pos] eqn:Eo. cbn [fst snd] in E1, E3. subst ext0 pos.
  replace (eoh + blen ext <? eoh) with false by lia.
  set (R := flat_map rec_bytes (combine (map fst t) ext)).
  set (B := flat_map fst ext).
  assert (LR : length R = (8 * length t)%nat).
  { subst R. rewrite (length_flat_map_const rec_bytes 8) by apply rec_bytes_length.
    rewrite combine_length, map_length. lia. }
  set (b := [0; 0] ++ be16 n ++ R ++ B).
  assert (Lb : N.of_nat (length b) = eoh + N.of_nat (length B)).
  { subst b eoh. rewrite !app_length, be16_length, LR. cbn [length]. subst n. lia. }
  assert (HB : N.of_nat (length B) = blen ext) by reflexivity.
  exists b. split; [reflexivity|].
  assert (Hsplit : forall o, eoh <= o -> skipn (N.to_nat o) b = skipn (N.to_nat (o - eoh)) B).
  { intros o Ho. subst b.
    change ([0; 0] ++ be16 n ++ R ++ B) with (([0; 0] ++ be16 n ++ R) ++ B).
    assert (Lpre : length ([0; 0] ++ be16 n ++ R) = N.to_nat eoh).
    { rewrite !app_length, be16_length, LR. cbn [length]. subst eoh n. lia. }
    set (pre := [0; 0] ++ be16 n ++ R) in *.
    rewrite skipn_app, Lpre. rewrite skipn_all2 by lia. cbn [app]. f_equal. lia. }
  split.
  2:{ rewrite Lb, HB. pose proof (enc_blen t [] eoh [] ltac:(intros d0 _; split; reflexivity) Hne) as Hbl.
      rewrite Eo in Hbl. cbn [fst] in Hbl. rewrite Hbl. change (blen []) with 0. subst eoh. lia. }
  (* decoding *)
  unfold M_decode_table_bytes, M_decode_table.
  replace ((N.of_nat (length b) <? 4) || (4294967295 <? N.of_nat (length b))) with false
    by (unfold u32 in *; lia).
  assert (G0 : get16 b 0 = Ok 0) by reflexivity.
  assert (G2 : get16 b 2 = Ok n).
  { assert (H : skipn (N.to_nat 2) b = (n / 256) mod 256 :: n mod 256 :: R ++ B) by reflexivity.
    rewrite (get16_of_skipn b 2 _ _ _ H). f_equal. lia. }
  rewrite G0. cbn [obind N.eqb negb]. rewrite G2. cbn [obind].
  fold eoh. replace (N.of_nat (length b) <? eoh) with false by lia.
  replace (eoh mod u32) with eoh by (unfold u32 in *; lia).
  replace (N.of_nat (length b) mod u32) with (N.of_nat (length b)) by (unfold u32 in *; lia).
  replace (N.to_nat n) with (length ext) by (subst n; lia).
  destruct (ext_ok_placed eoh ext [] (map snd t) E2) as [_ Hpl].
  { intros d o []. }
  { rewrite Forall_map. exact Hne. }
  cbn [app] in Hpl. fold B in Hpl.
  assert (HH : dec_records b eoh (N.of_nat (length b)) (length ext) 0 ([], [])
               = Ok (ranges ext, combine (map fst t) (combine (map snd ext) (lens (map snd t))))).
  { apply (dec_records_enc b B eoh ltac:(lia) Hsplit Lb ext (map fst t) (map snd t) [] 0 [] B).
    - rewrite map_length. lia.
    - rewrite map_length. lia.
    - reflexivity.
    - reflexivity.
    - exact E2.
    - change (blen []) with 0. cbn [ranges chain]. lia.
    - exact Hpl.
    - rewrite combine_fst_snd. exact Hwf.
    - constructor.
    - exact Hks. }
  rewrite HH. cbn [obind snd]. unfold omap, obind. f_equal.
  apply (restore_bytes b B eoh Hsplit t ext Hpl).
Qed.
