(* C09/Util.v — lemmas about association lists ([lookup], [put]), byte lists
   and word lists used by all C09 proofs. *)
From Coq Require Import List NArith ZArith Lia Bool Arith.
From Coq Require Import ZifyBool ZifyNat ZifyN.
From Common Require Import Bytes Outcome.
From C09 Require Import Model.
Import ListNotations.
Ltac Zify.zify_post_hook ::= Z.div_mod_to_equations.
Local Open Scope N_scope.

Lemma Ok_inj {A} (a b : A) : Ok a = Ok b -> a = b.
Proof. congruence. Qed.

Lemma frev_rev {A} (l : list A) : frev l = rev l.
Proof. unfold frev. symmetry. apply rev_alt. Qed.

(* ---------- descending accumulators ---------- *)

(* every key of [acc] is below [k] *)
Fixpoint keys_lt (acc : amap) (k : N) : Prop :=
  match acc with
  | [] => True
  | (k', _) :: r => k' < k /\ keys_lt r k
  end.

(* strictly descending keys *)
Fixpoint desc (acc : amap) : Prop :=
  match acc with
  | [] => True
  | (k, _) :: r => keys_lt r k /\ desc r
  end.

Lemma keys_lt_weaken acc k k' : keys_lt acc k -> k <= k' -> keys_lt acc k'.
Proof.
  induction acc as [|[a v] r IH]; cbn [keys_lt]; intros H Hk; [exact I|].
  destruct H as [H1 H2]. split; [lia|auto].
Qed.

Lemma keys_lt_put k v acc b : keys_lt acc b -> k < b -> keys_lt (put k v acc) b.
Proof.
  induction acc as [|[a w] r IH]; cbn [put keys_lt]; intros H Hk.
  - auto.
  - destruct H as [H1 H2].
    destruct (a <? k) eqn:E1; cbn [keys_lt]; [auto|].
    destruct (a =? k) eqn:E2; cbn [keys_lt]; [auto|].
    split; [assumption|]. apply IH; assumption.
Qed.

Lemma desc_put k v acc : desc acc -> desc (put k v acc).
Proof.
  induction acc as [|[a w] r IH]; cbn [put desc keys_lt]; intros H.
  - auto.
  - destruct H as [H1 H2].
    destruct (a <? k) eqn:E1.
    + cbn [desc keys_lt]. repeat split; try assumption; [lia|].
      apply keys_lt_weaken with a; [assumption|lia].
    + destruct (a =? k) eqn:E2.
      * cbn [desc]. split; [|assumption].
        apply keys_lt_weaken with a; [assumption|lia].
      * cbn [desc]. split; [|auto].
        apply keys_lt_put; [assumption|lia].
Qed.

Lemma put_fast k v acc : keys_lt acc k -> put k v acc = (k, v) :: acc.
Proof.
  destruct acc as [|[a w] r]; cbn [put keys_lt]; [reflexivity|].
  intros [H _]. destruct (a <? k) eqn:E; [reflexivity|lia].
Qed.

Lemma lookup_put k v acc c :
  lookup (put k v acc) c = if k =? c then v else lookup acc c.
Proof.
  induction acc as [|[a w] r IH]; cbn [put lookup].
  - reflexivity.
  - destruct (a <? k) eqn:E1; cbn [lookup]; [reflexivity|].
    destruct (a =? k) eqn:E2; cbn [lookup].
    + destruct (k =? c) eqn:E3; [reflexivity|].
      destruct (a =? c) eqn:E4; [lia|reflexivity].
    + rewrite IH. destruct (a =? c) eqn:E4; [|reflexivity].
      destruct (k =? c) eqn:E3; [lia|reflexivity].
Qed.

Lemma has_key_put k v acc c :
  has_key (put k v acc) c = (k =? c) || has_key acc c.
Proof.
  induction acc as [|[a w] r IH]; cbn [put has_key].
  - reflexivity.
  - destruct (a <? k) eqn:E1; cbn [has_key]; [reflexivity|].
    destruct (a =? k) eqn:E2; cbn [has_key].
    + destruct (k =? c) eqn:E3; destruct (a =? c) eqn:E4; try reflexivity; lia.
    + rewrite IH. destruct (a =? c), (k =? c); reflexivity.
Qed.

Lemma lookup_keys_lt acc k c : keys_lt acc k -> k <= c -> lookup acc c = 0.
Proof.
  induction acc as [|[a w] r IH]; cbn [lookup keys_lt]; intros H Hc; [reflexivity|].
  destruct H as [H1 H2]. destruct (a =? c) eqn:E; [lia|auto].
Qed.

Lemma has_key_keys_lt acc k c : keys_lt acc k -> k <= c -> has_key acc c = false.
Proof.
  induction acc as [|[a w] r IH]; cbn [has_key keys_lt]; intros H Hc; [reflexivity|].
  destruct H as [H1 H2]. destruct (a =? c) eqn:E; [lia|auto].
Qed.

Lemma lookup_no_key acc c : has_key acc c = false -> lookup acc c = 0.
Proof.
  induction acc as [|[a w] r IH]; cbn [lookup has_key]; intros H; [reflexivity|].
  destruct (a =? c); [discriminate|auto].
Qed.

Lemma lookup_app a b c :
  lookup (a ++ b) c = if has_key a c then lookup a c else lookup b c.
Proof.
  induction a as [|[k v] r IH]; cbn [app lookup has_key]; [reflexivity|].
  destruct (k =? c); [reflexivity|exact IH].
Qed.

Lemma has_key_app a b c : has_key (a ++ b) c = has_key a c || has_key b c.
Proof.
  induction a as [|[k v] r IH]; cbn [app has_key]; [reflexivity|].
  rewrite IH. now rewrite orb_assoc.
Qed.

(* reversing a list with distinct keys does not change lookups *)
Lemma lookup_rev_desc acc c : desc acc -> lookup (rev acc) c = lookup acc c.
Proof.
  induction acc as [|[k v] r IH]; cbn [rev desc lookup]; intros H; [reflexivity|].
  destruct H as [H1 H2]. rewrite lookup_app, IH by assumption. cbn [lookup].
  destruct (k =? c) eqn:E.
  - assert (k = c) by lia. subst c.
    rewrite (lookup_keys_lt r k k) by (assumption || lia).
    assert (has_key (rev r) k = false) as ->; [|reflexivity].
    clear - H1. induction r as [|[a w] r IH]; cbn [rev has_key]; [reflexivity|].
    destruct H1 as [Ha Hr]. rewrite has_key_app, IH by assumption. cbn [has_key].
    destruct (a =? k) eqn:E; [lia|reflexivity].
  - destruct (has_key (rev r) c) eqn:Eh; [reflexivity|].
    symmetry. apply lookup_no_key. rewrite <- Eh. clear.
    induction r as [|[a w] r IH]; cbn [rev has_key]; [reflexivity|].
    rewrite has_key_app, <- IH. cbn [has_key].
    destruct (a =? c), (has_key r c); reflexivity.
Qed.

Lemma has_key_rev acc c : has_key (rev acc) c = has_key acc c.
Proof.
  induction acc as [|[k v] r IH]; cbn [rev has_key]; [reflexivity|].
  rewrite has_key_app, IH. cbn [has_key]. destruct (k =? c), (has_key r c); reflexivity.
Qed.

(* the reverse of a strictly descending list is strictly ascending *)
Lemma sorted_from_app lo a k v :
  sorted_from lo a = true -> (forall x, has_key a x = true -> x < k) -> lo < k ->
  sorted_from lo (a ++ [(k, v)]) = true.
Proof.
  revert lo. induction a as [|[a0 w] r IH]; cbn [app sorted_from has_key]; intros lo Hs Hk Hlo.
  - rewrite andb_true_r. lia.
  - apply andb_true_iff in Hs. destruct Hs as [H1 H2]. rewrite H1. cbn [andb].
    apply IH; [assumption| |].
    + intros x Hx. apply Hk. rewrite Hx. apply orb_true_r.
    + apply Hk. rewrite N.eqb_refl. reflexivity.
Qed.

Lemma has_key_keys_lt_inv acc k x : keys_lt acc k -> has_key acc x = true -> x < k.
Proof.
  induction acc as [|[a w] r IH]; cbn [keys_lt has_key]; intros H Hx; [discriminate|].
  destruct H as [H1 H2]. destruct (a =? x) eqn:E; [lia|auto].
Qed.

Lemma sorted_keys_rev_desc acc : desc acc -> sorted_keys (rev acc) = true.
Proof.
  induction acc as [|[k v] r IH]; cbn [rev desc]; intros H; [reflexivity|].
  destruct H as [H1 H2]. specialize (IH H2).
  destruct (rev r) as [|[k0 v0] r0] eqn:E; cbn [app sorted_keys]; [reflexivity|].
  cbn [sorted_keys] in IH.
  assert (Hall : forall x, has_key (rev r) x = true -> x < k).
  { intros x Hx. rewrite has_key_rev in Hx. eapply has_key_keys_lt_inv; eassumption. }
  rewrite E in Hall.
  apply sorted_from_app; [assumption| |].
  - intros x Hx. apply Hall. cbn [has_key]. rewrite Hx. apply orb_true_r.
  - apply Hall. cbn [has_key]. rewrite N.eqb_refl. reflexivity.
Qed.

Lemma length_put k v acc : (length (put k v acc) <= S (length acc))%nat.
Proof.
  induction acc as [|[a w] r IH]; cbn [put length]; [lia|].
  destruct (a <? k); cbn [length]; [lia|].
  destruct (a =? k); cbn [length]; lia.
Qed.

(* ---------- lookups in sorted lists ---------- *)

Lemma lookup_sorted_from_lt lo m c : sorted_from lo m = true -> c <= lo -> lookup m c = 0.
Proof.
  revert lo. induction m as [|[k v] r IH]; cbn [sorted_from lookup]; intros lo Hs Hc; [reflexivity|].
  apply andb_true_iff in Hs. destruct Hs as [H1 H2].
  destruct (k =? c) eqn:E; [lia|]. apply (IH k); [assumption|lia].
Qed.

(* ---------- bytes ---------- *)

Lemma rd32_4 a b c d r : rd32 (a :: b :: c :: d :: r) = rd32 [a; b; c; d].
Proof. reflexivity. Qed.

Lemma rd32_be32' x : x < 4294967296 -> rd32 (be32 x) = x.
Proof. apply rd32_be32. Qed.

Lemma rd32_bound a b c d r :
  a < 256 -> b < 256 -> c < 256 -> d < 256 -> rd32 (a :: b :: c :: d :: r) < 4294967296.
Proof. unfold rd32. lia. Qed.

Lemma length_flat_map_const {A B} (f : A -> list B) (n : nat) (l : list A) :
  (forall x, length (f x) = n) -> length (flat_map f l) = (n * length l)%nat.
Proof.
  intros Hf. induction l as [|x r IH]; cbn [flat_map length]; [lia|].
  rewrite app_length, Hf, IH. lia.
Qed.

Lemma skipn_app_exact {A} (a b : list A) n : length a = n -> skipn n (a ++ b) = b.
Proof.
  intros <-. rewrite skipn_app, skipn_all, Nat.sub_diag. reflexivity.
Qed.

Lemma firstn_app_exact {A} (a b : list A) n : length a = n -> firstn n (a ++ b) = a.
Proof.
  intros <-. rewrite firstn_app, firstn_all, Nat.sub_diag. cbn [firstn]. apply app_nil_r.
Qed.
