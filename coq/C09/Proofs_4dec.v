(* C09/Proofs_4dec.v — decodeFormat4: never panics, and an accepted table
   decodes to the mapping the specification lookup defines. *)
From Coq Require Import List NArith ZArith Lia Bool Arith.
From Coq Require Import ZifyBool ZifyNat ZifyN.
From Common Require Import Bytes Outcome.
From Gen Require Import C09.
From C09 Require Import Model Model4 Util Proofs_4spec.
Import ListNotations.
Ltac Zify.zify_post_hook ::= Z.div_mod_to_equations.
Local Open Scope N_scope.

Definition idc (x : N) : N := x.

(* ---------- bytes and words ---------- *)

Lemma to_words_length l : length (to_words l) = (length l / 2)%nat.
Proof.
  assert (H : forall n l, (length l <= n)%nat -> length (to_words l) = (length l / 2)%nat).
  { induction n as [|n IH]; intros l0 Hl.
    - destruct l0; [reflexivity|cbn in Hl; lia].
    - destruct l0 as [|a [|b r]]; [reflexivity|reflexivity|].
      cbn [to_words length]. rewrite IH by (cbn [length] in Hl; lia).
      change (S (S (length r))) with (2 + length r)%nat.
      replace (2 + length r)%nat with (length r + 1 * 2)%nat by lia.
      rewrite Nat.div_add by lia. lia. }
  apply (H (length l)). lia.
Qed.

Lemma to_words_skipn k : forall l, to_words (skipn (2 * k) l) = skipn k (to_words l).
Proof.
  induction k as [|k IH]; intros l; [reflexivity|].
  replace (2 * S k)%nat with (S (S (2 * k))) by lia.
  destruct l as [|a [|b r]].
  - cbn [skipn to_words]. rewrite ?skipn_nil. reflexivity.
  - cbn [skipn to_words]. rewrite ?skipn_nil. cbn [to_words]. rewrite ?skipn_nil. reflexivity.
  - cbn [skipn to_words]. apply IH.
Qed.

Lemma to_words_ok l : Forall (fun b => b < 256) l -> words_ok (to_words l).
Proof.
  assert (H : forall n l, (length l <= n)%nat -> Forall (fun b => b < 256) l -> words_ok (to_words l)).
  { induction n as [|n IH]; intros l0 Hl Hb.
    - destruct l0; [constructor|cbn in Hl; lia].
    - destruct l0 as [|a [|b r]]; [constructor|constructor|].
      inversion Hb as [|? ? Ha Hb1]; subst. inversion Hb1 as [|? ? Hb2 Hb3]; subst.
      cbn [to_words]. constructor; [lia|]. apply IH; [cbn [length] in Hl; lia|assumption]. }
  apply (H (length l)). lia.
Qed.

Lemma flat_to_words l :
  Nat.even (length l) = true -> Forall (fun b => b < 256) l -> flat_map be16 (to_words l) = l.
Proof.
  assert (H : forall n l, (length l <= n)%nat -> Nat.even (length l) = true ->
              Forall (fun b => b < 256) l -> flat_map be16 (to_words l) = l).
  { induction n as [|n IH]; intros l0 Hl He Hb.
    - destruct l0; [reflexivity|cbn in Hl; lia].
    - destruct l0 as [|a [|b r]]; [reflexivity|discriminate He|].
      inversion Hb as [|? ? Ha Hb1]; subst. inversion Hb1 as [|? ? Hb2 Hb3]; subst.
      cbn [to_words flat_map]. rewrite IH; [|cbn [length] in Hl; lia|exact He|assumption].
      unfold be16. cbn [app]. f_equal; [lia|]. f_equal. lia. }
  apply (H (length l)). lia.
Qed.

Lemma rd16_skipn_words l k :
  (2 * k + 2 <= length l)%nat -> rd16 (skipn (2 * k) l) = nth k (to_words l) 0.
Proof.
  revert l. induction k as [|k IH]; intros l Hl.
  - destruct l as [|a [|b r]]; cbn [length] in Hl; try lia. reflexivity.
  - replace (2 * S k)%nat with (S (S (2 * k))) by lia.
    destruct l as [|a [|b r]]; cbn [length] in Hl; try lia.
    cbn [skipn to_words nth]. apply IH. lia.
Qed.

(* ---------- the inner loops (code2rune = unicode) ---------- *)

Lemma store_id idx v acc : idx < 65536 -> store idc idx v acc = put idx v acc.
Proof. intros H. unfold store, idc, u16. now rewrite N.mod_small by lia. Qed.

Lemma dfill_spec n : forall idx d acc,
  desc acc -> keys_lt acc idx -> idx + N.of_nat n <= 65536 ->
  let acc1 := dfill idc n idx d acc in
  desc acc1 /\ keys_lt acc1 (idx + N.of_nat n) /\
  forall c, lookup acc1 c
            = if (idx <=? c) && (c <? idx + N.of_nat n) then (c + d) mod u16 else lookup acc c.
Proof.
  induction n as [|n IH]; intros idx d acc Hd Hk Hn; cbv zeta; cbn [dfill].
  - rewrite N.add_0_r. repeat split; try assumption. intros c.
    replace ((idx <=? c) && (c <? idx)) with false by lia. reflexivity.
  - set (v := (idx mod u16 + d) mod u16).
    assert (Ev : v = (idx + d) mod u16) by (subst v; unfold u16; lia).
    set (acc0 := if v =? 0 then acc else store idc idx v acc).
    assert (Hd0 : desc acc0).
    { subst acc0. destruct (v =? 0); [assumption|]. rewrite store_id by lia. now apply desc_put. }
    assert (Hk0 : keys_lt acc0 (idx + 1)).
    { subst acc0. destruct (v =? 0).
      - apply keys_lt_weaken with idx; [assumption|lia].
      - rewrite store_id by lia. apply keys_lt_put; [|lia].
        apply keys_lt_weaken with idx; [assumption|lia]. }
    pose proof (IH (idx + 1) d acc0 Hd0 Hk0 ltac:(lia)) as H. cbv zeta in H.
    destruct H as (H1 & H2 & H3).
    split; [exact H1|]. split.
    + replace (idx + N.of_nat (S n)) with (idx + 1 + N.of_nat n) by lia. exact H2.
    + intros c. rewrite H3.
      destruct ((idx + 1 <=? c) && (c <? idx + 1 + N.of_nat n)) eqn:E1.
      * replace ((idx <=? c) && (c <? idx + N.of_nat (S n))) with true by lia. reflexivity.
      * destruct (N.eq_dec c idx) as [->|Hne].
        -- replace ((idx <=? idx) && (idx <? idx + N.of_nat (S n))) with true by lia.
           subst acc0. destruct (v =? 0) eqn:E0.
           ++ rewrite (lookup_keys_lt acc idx idx) by (assumption || lia). lia.
           ++ rewrite store_id by lia. rewrite lookup_put, N.eqb_refl. exact Ev.
        -- replace ((idx <=? c) && (c <? idx + N.of_nat (S n))) with false by lia.
           subst acc0. destruct (v =? 0); [reflexivity|].
           rewrite store_id by lia. rewrite lookup_put.
           replace (idx =? c) with false by lia. reflexivity.
Qed.

Definition vval (g d : N) : N := if g =? 0 then 0 else (g + d) mod u16.

Lemma vfill_spec n : forall idx d vs acc,
  desc acc -> keys_lt acc idx -> idx + N.of_nat n <= 65536 -> (n <= length vs)%nat ->
  exists acc1, vfill idc n idx d vs acc = Ok acc1 /\
  desc acc1 /\ keys_lt acc1 (idx + N.of_nat n) /\
  forall c, lookup acc1 c
            = if (idx <=? c) && (c <? idx + N.of_nat n)
              then vval (nth (N.to_nat (c - idx)) vs 0) d else lookup acc c.
Proof.
  induction n as [|n IH]; intros idx d vs acc Hd Hk Hn Hl; cbn [vfill].
  - exists acc. rewrite N.add_0_r. repeat split; try assumption. intros c.
    replace ((idx <=? c) && (c <? idx)) with false by lia. reflexivity.
  - destruct vs as [|g vs']; [cbn [length] in Hl; lia|].
    fold (vval g d). set (v := vval g d).
    set (acc0 := if v =? 0 then acc else store idc idx v acc).
    assert (Hd0 : desc acc0).
    { subst acc0. destruct (v =? 0); [assumption|]. rewrite store_id by lia. now apply desc_put. }
    assert (Hk0 : keys_lt acc0 (idx + 1)).
    { subst acc0. destruct (v =? 0).
      - apply keys_lt_weaken with idx; [assumption|lia].
      - rewrite store_id by lia. apply keys_lt_put; [|lia].
        apply keys_lt_weaken with idx; [assumption|lia]. }
    destruct (IH (idx + 1) d vs' acc0 Hd0 Hk0 ltac:(lia) ltac:(cbn [length] in Hl; lia))
      as (acc1 & H0 & H1 & H2 & H3).
    exists acc1. split; [exact H0|]. split; [exact H1|]. split.
    + replace (idx + N.of_nat (S n)) with (idx + 1 + N.of_nat n) by lia. exact H2.
    + intros c. rewrite H3.
      destruct ((idx + 1 <=? c) && (c <? idx + 1 + N.of_nat n)) eqn:E1.
      * replace ((idx <=? c) && (c <? idx + N.of_nat (S n))) with true by lia.
        replace (N.to_nat (c - idx)) with (S (N.to_nat (c - (idx + 1)))) by lia. reflexivity.
      * destruct (N.eq_dec c idx) as [->|Hne].
        -- replace ((idx <=? idx) && (idx <? idx + N.of_nat (S n))) with true by lia.
           rewrite N.sub_diag. cbn [N.to_nat nth]. fold v.
           subst acc0. destruct (v =? 0) eqn:E0.
           ++ rewrite (lookup_keys_lt acc idx idx) by (assumption || lia). lia.
           ++ rewrite store_id by lia. now rewrite lookup_put, N.eqb_refl.
        -- replace ((idx <=? c) && (c <? idx + N.of_nat (S n))) with false by lia.
           subst acc0. destruct (v =? 0); [reflexivity|].
           rewrite store_id by lia. rewrite lookup_put.
           replace (idx =? c) with false by lia. reflexivity.
Qed.

Lemma vfill_no_panic c2r n : forall idx d vs acc,
  (n <= length vs)%nat -> vfill c2r n idx d vs acc <> Panic.
Proof.
  induction n as [|n IH]; intros idx d vs acc Hl; cbn [vfill]; [discriminate|].
  destruct vs as [|g vs']; [cbn [length] in Hl; lia|].
  apply IH. cbn [length] in Hl. lia.
Qed.

Lemma vfill_no_fuel c2r n : forall idx d vs acc, vfill c2r n idx d vs acc <> OutOfFuel.
Proof.
  induction n as [|n IH]; intros idx d vs acc; cbn [vfill]; [discriminate|].
  destruct vs as [|g vs']; [discriminate|]. apply IH.
Qed.

(* ---------- the loop over the segments ---------- *)

Section Loop.
Variables (segCount glen : N) (gia : list N).
Hypothesis Hglen : glen = N.of_nat (length gia).

Lemma dec4_loop_no_panic c2r es : forall k ss ds rs prevEnd acc,
  length ss = length es -> length ds = length es -> length rs = length es ->
  dec4_loop c2r segCount glen gia k es ss ds rs prevEnd acc <> Panic.
Proof.
  induction es as [|e es' IH]; intros k ss ds rs prevEnd acc H1 H2 H3; cbn [dec4_loop].
  - discriminate.
  - destruct ss as [|s ss']; [discriminate H1|].
    destruct ds as [|d ds']; [discriminate H2|].
    destruct rs as [|ro rs']; [discriminate H3|].
    cbn [length] in *. cbv zeta.
    destruct ((s <? prevEnd) || (e + 1 <=? s)); [discriminate|].
    destruct (ro =? 0); [apply IH; lia|].
    set (dz := (Z.of_N ro / 2 - (Z.of_N segCount - Z.of_N k))%Z).
    destruct ((dz <? 0)%Z || (Z.of_N glen <? dz + Z.of_N (e + 1 - s))%Z) eqn:Eg.
    + destruct (s =? 65535); [apply IH; lia|discriminate].
    + apply orb_false_iff in Eg. destruct Eg as [Eg1 Eg2].
      destruct (vfill c2r (N.to_nat (e + 1 - s)) s d (skipn (Z.to_nat dz) gia) acc) eqn:Ev.
      * apply IH; lia.
      * discriminate.
      * exfalso. revert Ev. apply vfill_no_panic. rewrite skipn_length. lia.
      * discriminate.
Qed.

Lemma dec4_loop_spec es : forall k ss ds rs prevEnd acc acc',
  length ss = length es -> length ds = length es -> length rs = length es ->
  N.of_nat (length rs) + k = segCount ->
  words_ok es -> words_ok ss ->
  desc acc -> keys_lt acc prevEnd -> prevEnd <= 65536 ->
  dec4_loop idc segCount glen gia k es ss ds rs prevEnd acc = Ok acc' ->
  desc acc' /\ keys_lt acc' 65536 /\
  (forall c, c < prevEnd -> lookup acc' c = lookup acc c) /\
  (forall c g, prevEnd <= c -> c <= 65535 -> Wsearch es ss ds rs gia c = Some g ->
               lookup acc' c = g \/ (c = 65535 /\ lookup acc' c = 0)).
Proof.
  induction es as [|e es' IH]; intros k ss ds rs prevEnd acc acc' H1 H2 H3 Hk Wes Wss Hd Hkl Hp H;
    cbn [dec4_loop] in H.
  - injection H as <-. split; [assumption|]. split; [apply keys_lt_weaken with prevEnd; assumption|].
    split; [reflexivity|].
    intros c g Hc1 Hc2 Hw. cbn [Wsearch] in Hw. injection Hw as <-. left.
    apply (lookup_keys_lt acc prevEnd c); assumption.
  - destruct ss as [|s ss']; [discriminate H1|].
    destruct ds as [|d ds']; [discriminate H2|].
    destruct rs as [|ro rs']; [discriminate H3|].
    cbn [length] in H1, H2, H3, Hk. cbv zeta in H.
    pose proof (Forall_inv Wes) as We. pose proof (Forall_inv_tail Wes) as Wes'.
    pose proof (Forall_inv Wss) as Ws. pose proof (Forall_inv_tail Wss) as Wss'.
    cbv beta in We, Ws.
    destruct ((s <? prevEnd) || (e + 1 <=? s)) eqn:Eord; [discriminate H|].
    apply orb_false_iff in Eord. destruct Eord as [Eo1 Eo2].
    assert (Hps : prevEnd <= s) by lia. assert (Hse : s <= e) by lia.
    assert (Hcnt : s + N.of_nat (N.to_nat (e + 1 - s)) = e + 1) by lia.
    (* what remains after this segment, given the accumulator acc1 it produced *)
    assert (Hrest : forall acc1,
      desc acc1 -> keys_lt acc1 (e + 1) ->
      dec4_loop idc segCount glen gia (k + 1) es' ss' ds' rs' (e + 1) acc1 = Ok acc' ->
      desc acc' /\ keys_lt acc' 65536 /\
      (forall c, c < e + 1 -> lookup acc' c = lookup acc1 c) /\
      (forall c g, e + 1 <= c -> c <= 65535 -> Wsearch es' ss' ds' rs' gia c = Some g ->
                   lookup acc' c = g \/ (c = 65535 /\ lookup acc' c = 0))).
    { intros acc1 Hd1 Hk1 Hl. apply (IH (k + 1) ss' ds' rs' (e + 1) acc1 acc'); try assumption; lia. }
    (* combine: acc1 agrees with acc outside [s, e] and has the right value inside *)
    assert (Hcombine : forall acc1 (val : N -> N),
      desc acc1 -> keys_lt acc1 (e + 1) ->
      (forall c, lookup acc1 c = if (s <=? c) && (c <? e + 1) then val c else lookup acc c) ->
      dec4_loop idc segCount glen gia (k + 1) es' ss' ds' rs' (e + 1) acc1 = Ok acc' ->
      (forall c g, s <= c -> c <= e ->
         Wsearch (e :: es') (s :: ss') (d :: ds') (ro :: rs') gia c = Some g ->
         val c = g \/ (c = 65535 /\ val c = 0)) ->
      desc acc' /\ keys_lt acc' 65536 /\
      (forall c, c < prevEnd -> lookup acc' c = lookup acc c) /\
      (forall c g, prevEnd <= c -> c <= 65535 ->
         Wsearch (e :: es') (s :: ss') (d :: ds') (ro :: rs') gia c = Some g ->
         lookup acc' c = g \/ (c = 65535 /\ lookup acc' c = 0))).
    { intros acc1 val Hd1 Hk1 Hl1 Hloop Hval.
      destruct (Hrest acc1 Hd1 Hk1 Hloop) as (R1 & R2 & R3 & R4).
      split; [exact R1|]. split; [exact R2|]. split.
      - intros c Hc. rewrite R3 by lia. rewrite Hl1.
        replace ((s <=? c) && (c <? e + 1)) with false by lia. reflexivity.
      - intros c g Hc1 Hc2 Hw.
        destruct (N.lt_ge_cases e c) as [Hec|Hec].
        + (* c after this segment *)
          cbn [Wsearch] in Hw. replace (e <? c) with true in Hw by lia.
          apply R4; [lia|assumption|assumption].
        + rewrite R3 by lia. rewrite Hl1.
          destruct (N.lt_ge_cases c s) as [Hcs|Hcs].
          * (* in the gap before the segment: specification says 0 *)
            replace ((s <=? c) && (c <? e + 1)) with false by lia.
            cbn [Wsearch] in Hw. replace (e <? c) with false in Hw by lia.
            replace (c <? s) with true in Hw by lia. injection Hw as <-. left.
            apply (lookup_keys_lt acc prevEnd c); assumption.
          * replace ((s <=? c) && (c <? e + 1)) with true by lia.
            apply Hval; assumption. }
    destruct (ro =? 0) eqn:Ero.
    + (* delta segment *)
      pose proof (dfill_spec (N.to_nat (e + 1 - s)) s d acc Hd
                    ltac:(apply keys_lt_weaken with prevEnd; assumption) ltac:(lia)) as HF.
      cbv zeta in HF. destruct HF as (F1 & F2 & F3). rewrite Hcnt in F2, F3.
      apply (Hcombine _ (fun c => (c + d) mod u16) F1 F2 F3 H).
      intros c g Hc1 Hc2 Hw. cbn [Wsearch] in Hw.
      replace (e <? c) with false in Hw by lia. replace (c <? s) with false in Hw by lia.
      rewrite Ero in Hw. injection Hw as <-. now left.
    + set (dz := (Z.of_N ro / 2 - (Z.of_N segCount - Z.of_N k))%Z) in *.
      destruct ((dz <? 0)%Z || (Z.of_N glen <? dz + Z.of_N (e + 1 - s))%Z) eqn:Eg.
      * (* idRangeOffset points outside the glyphIdArray *)
        destruct (s =? 65535) eqn:Es; [|discriminate H].
        assert (s = 65535) by lia. assert (e = 65535) by lia. subst s e.
        apply (Hcombine acc (fun _ => 0) Hd
                 ltac:(apply keys_lt_weaken with prevEnd; [assumption|lia])); [|exact H|].
        -- intros c. destruct ((65535 <=? c) && (c <? 65535 + 1)) eqn:E; [|reflexivity].
           apply (lookup_keys_lt acc prevEnd c); [assumption|lia].
        -- intros c g Hc1 Hc2 _. right. split; [lia|reflexivity].
      * apply orb_false_iff in Eg. destruct Eg as [Eg1 Eg2].
        assert (Hlen : (N.to_nat (e + 1 - s) <= length (skipn (Z.to_nat dz) gia))%nat)
          by (rewrite skipn_length; lia).
        destruct (vfill_spec (N.to_nat (e + 1 - s)) s d (skipn (Z.to_nat dz) gia) acc Hd
                    ltac:(apply keys_lt_weaken with prevEnd; assumption) ltac:(lia) Hlen)
          as (acc1 & V0 & V1 & V2 & V3).
        rewrite V0 in H. rewrite Hcnt in V2, V3.
        apply (Hcombine _ (fun c => vval (nth (N.to_nat (c - s)) (skipn (Z.to_nat dz) gia) 0) d)
                        V1 V2 V3 H).
        intros c g Hc1 Hc2 Hw. cbn [Wsearch] in Hw.
        replace (e <? c) with false in Hw by lia. replace (c <? s) with false in Hw by lia.
        rewrite Ero in Hw.
        (* the pointer arithmetic of the specification lands in the glyphIdArray at dz + (c-s) *)
        assert (Hidx : nth_error ((ro :: rs') ++ gia) (N.to_nat (ro / 2 + (c - s)))
                       = nth_error (skipn (Z.to_nat dz) gia) (N.to_nat (c - s))).
        { rewrite (nth_error_app_off (ro :: rs') gia (Z.to_nat dz + N.to_nat (c - s))).
          - rewrite <- (firstn_skipn (Z.to_nat dz) gia) at 1.
            apply nth_error_app_off. rewrite firstn_length. lia.
          - cbn [length]. lia. }
        rewrite Hidx in Hw.
        assert (Hin : (N.to_nat (c - s) < length (skipn (Z.to_nat dz) gia))%nat) by lia.
        destruct (nth_error_lt _ _ Hin) as [g0 Hg0]. rewrite Hg0 in Hw.
        rewrite (nth_error_nth _ _ 0 Hg0). left. unfold vval.
        destruct (g0 =? 0); now injection Hw.
Qed.

End Loop.

(* ---------- the whole decoder ---------- *)

Lemma slice_ok {A} (l : list A) lo hi :
  lo <= hi -> hi <= N.of_nat (length l) ->
  slice l lo hi = Ok (firstn (N.to_nat (hi - lo)) (skipn (N.to_nat lo) l)).
Proof.
  intros H1 H2. unfold slice.
  replace ((lo <=? hi) && (hi <=? N.of_nat (length l))) with true by lia. reflexivity.
Qed.

Lemma nth_error_firstn' {A} (l : list A) n i :
  (i < n)%nat -> nth_error (firstn n l) i = nth_error l i.
Proof.
  revert l i. induction n as [|n IH]; intros l i Hi; [lia|].
  destruct l as [|x r]; [now destruct i|].
  destruct i as [|i]; [reflexivity|]. cbn [firstn nth_error]. apply IH. lia.
Qed.

Lemma split_firstn {A} (l : list A) a n :
  skipn a l = firstn n (skipn a l) ++ skipn (a + n) l.
Proof.
  rewrite <- (firstn_skipn n (skipn a l)) at 1. f_equal.
  apply skipn_skipn'.
Qed.

(* what the length checks of decodeFormat4 establish: the subtable is seven
   header words, then the four parallel arrays (with the reserved pad) and the
   glyphIdArray; the result is the loop over the arrays *)
Lemma decode4_shape c2r data :
  M_decode4 c2r data <> Err ->
  exists (n : nat) es ss ds rs gia h7 pad,
    length es = n /\ length ss = n /\ length ds = n /\ length rs = n /\
    length h7 = 7%nat /\ nth_error h7 3 = Some (2 * N.of_nat n) /\
    to_words data = h7 ++ es ++ [pad] ++ ss ++ ds ++ rs ++ gia /\
    Nat.even (length data) = true /\
    M_decode4 c2r data
    = omap (@frev (N * N))
        (dec4_loop c2r (N.of_nat n) (N.of_nat (length gia)) gia 0 es ss ds rs 0 []).
Proof.
  intros Hne. unfold M_decode4 in *.
  set (len := N.of_nat (length data)) in *.
  change f4_minLen with 16 in *.
  destruct (negb (len mod 2 =? 0) || (len <? 16)) eqn:E1; [congruence|].
  apply orb_false_iff in E1. destruct E1 as [E1a E1b].
  apply negb_false_iff, N.eqb_eq in E1a.
  set (segX2 := rd16 (skipn 6 data)) in *.
  destruct (negb (segX2 mod 2 =? 0) || (len <? 4 * segX2 + 16)) eqn:E2; [congruence|].
  apply orb_false_iff in E2. destruct E2 as [E2a E2b].
  apply negb_false_iff, N.eqb_eq in E2a.
  clear Hne.
  set (sc := segX2 / 2) in *.
  assert (Hsx : segX2 = 2 * sc) by (subst sc; lia).
  set (W := to_words data).
  assert (HWl : N.of_nat (length W) * 2 = len).
  { subst W len. rewrite to_words_length.
    pose proof (Nat.div_mod (length data) 2 ltac:(lia)). lia. }
  assert (Hwords : to_words (skipn 14 data) = skipn 7 W)
    by (subst W; exact (to_words_skipn 7 data)).
  rewrite Hwords.
  set (words := skipn 7 W).
  assert (Hwl : N.of_nat (length words) = N.of_nat (length W) - 7)
    by (subst words; rewrite skipn_length; lia).
  assert (Hfit : 4 * sc + 1 <= N.of_nat (length words)) by lia.
  rewrite (slice_ok words 0 sc) by lia.
  rewrite (slice_ok words (sc + 1) (2 * sc + 1)) by lia.
  rewrite (slice_ok words (2 * sc + 1) (3 * sc + 1)) by lia.
  rewrite (slice_ok words (3 * sc + 1) (4 * sc + 1)) by lia.
  rewrite (slice_ok words (4 * sc + 1) (N.of_nat (length words))) by lia.
  cbn [obind].
  set (n := N.to_nat sc).
  assert (Hn : sc = N.of_nat n) by (subst n; lia).
  replace (N.to_nat (sc - 0)) with n by lia.
  replace (N.to_nat (2 * sc + 1 - (sc + 1))) with n by lia.
  replace (N.to_nat (3 * sc + 1 - (2 * sc + 1))) with n by lia.
  replace (N.to_nat (4 * sc + 1 - (3 * sc + 1))) with n by lia.
  change (N.to_nat 0) with 0%nat. cbn [skipn].
  replace (N.to_nat (sc + 1)) with (n + 1)%nat by lia.
  replace (N.to_nat (2 * sc + 1)) with (n + 1 + n)%nat by lia.
  replace (N.to_nat (3 * sc + 1)) with (n + 1 + n + n)%nat by lia.
  replace (N.to_nat (4 * sc + 1)) with (n + 1 + n + n + n)%nat by lia.
  rewrite (firstn_all2 (n := N.to_nat (N.of_nat (length words) - (4 * sc + 1))))
    by (rewrite skipn_length; lia).
  set (es := firstn n words).
  set (ss := firstn n (skipn (n + 1) words)).
  set (ds := firstn n (skipn (n + 1 + n) words)).
  set (rs := firstn n (skipn (n + 1 + n + n) words)).
  set (gia := skipn (n + 1 + n + n + n) words).
  assert (Hlw : (4 * n + 1 <= length words)%nat) by lia.
  destruct (nth_error_lt words n ltac:(lia)) as [pad Hpad].
  exists n, es, ss, ds, rs, gia, (firstn 7 W), pad.
  assert (HW7 : (8 <= length W)%nat) by lia.
  split; [subst es; rewrite firstn_length; lia|].
  split; [subst ss; rewrite firstn_length, skipn_length; lia|].
  split; [subst ds; rewrite firstn_length, skipn_length; lia|].
  split; [subst rs; rewrite firstn_length, skipn_length; lia|].
  split; [rewrite firstn_length; lia|].
  split.
  { rewrite nth_error_firstn' by lia.
    assert (Hx : segX2 = nth 3 W 0).
    { subst segX2 W. apply (rd16_skipn_words data 3). lia. }
    rewrite (nth_error_nth' W 0) by lia. rewrite <- Hx. f_equal. lia. }
  split.
  { fold W. rewrite <- (firstn_skipn 7 W) at 1. f_equal. fold words.
    rewrite <- (firstn_skipn n words) at 1. fold es. f_equal.
    rewrite (skipn_cons_nth words n pad Hpad). cbn [app]. f_equal.
    replace (S n) with (n + 1)%nat by lia.
    rewrite (split_firstn words (n + 1) n). fold ss. f_equal.
    rewrite (split_firstn words (n + 1 + n) n). fold ds. f_equal.
    rewrite (split_firstn words (n + 1 + n + n) n). fold rs. reflexivity. }
  split.
  { rewrite Nat.even_spec. exists (length W). lia. }
  rewrite <- Hn. reflexivity.
Qed.

(* P1 (C02 part): decodeFormat4 never panics, whatever the bytes and code2rune *)
Lemma decode4_no_panic c2r data : M_decode4 c2r data <> Panic.
Proof.
  destruct (M_decode4 c2r data) eqn:E; try discriminate. exfalso.
  destruct (decode4_shape c2r data) as (n & es & ss & ds & rs & gia & h7 & pad & L1 & L2 & L3 & L4 & _ & _ & _ & _ & Hr);
    [congruence|].
  rewrite Hr in E. unfold omap in E.
  destruct (dec4_loop c2r (N.of_nat n) (N.of_nat (length gia)) gia 0 es ss ds rs 0 []) eqn:El;
    try discriminate E.
  revert El. apply dec4_loop_no_panic; lia.
Qed.

Lemma desc_length acc : forall b, desc acc -> keys_lt acc b -> N.of_nat (length acc) <= b.
Proof.
  induction acc as [|[k v] r IH]; intros b Hd Hk; cbn [length]; [lia|].
  cbn [desc keys_lt] in *. destruct Hd as [Hd1 Hd2]. destruct Hk as [Hk1 Hk2].
  specialize (IH k Hd2 Hd1). lia.
Qed.

(* P1: an accepted table decodes to the mapping the specification defines *)
Lemma decode4_spec data m' :
  Forall (fun b => b < 256) data ->
  M_decode4 idc data = Ok m' ->
  sorted_keys m' = true /\ N.of_nat (length m') <= 65536 /\
  forall c g, c <= 65535 -> S_lookup4 data c = Some g ->
    lookup m' c = g \/ (c = 65535 /\ lookup m' c = 0).
Proof.
  intros Hb H.
  destruct (decode4_shape idc data) as (n & es & ss & ds & rs & gia & h7 & pad & L1 & L2 & L3 & L4 & L5 & L6 & HW & Hev & Hr);
    [congruence|].
  rewrite Hr in H. unfold omap in H. apply obind_ok in H. destruct H as (acc & Hl & Hm').
  injection Hm' as <-.
  pose proof (to_words_ok data Hb) as Wok. rewrite HW in Wok.
  assert (Wes : words_ok es).
  { unfold words_ok in *. apply Forall_app in Wok. destruct Wok as [_ Wok].
    apply Forall_app in Wok. tauto. }
  assert (Wss : words_ok ss).
  { unfold words_ok in *. apply Forall_app in Wok. destruct Wok as [_ Wok].
    apply Forall_app in Wok. destruct Wok as [_ Wok].
    apply Forall_app in Wok. destruct Wok as [_ Wok].
    apply Forall_app in Wok. tauto. }
  destruct (dec4_loop_spec (N.of_nat n) (N.of_nat (length gia)) gia eq_refl
              es 0 ss ds rs 0 [] acc ltac:(lia) ltac:(lia) ltac:(lia) ltac:(lia)
              Wes Wss I I ltac:(lia) Hl) as (D1 & D2 & D3 & D4).
  rewrite frev_rev. split; [now apply sorted_keys_rev_desc|].
  split; [rewrite rev_length; now apply desc_length|].
  intros c g Hc Hs. rewrite lookup_rev_desc by assumption.
  apply D4; [lia|assumption|].
  rewrite <- Hs. symmetry.
  rewrite <- (flat_to_words data Hev Hb). rewrite HW.
  apply (S_lookup4_W h7 es ss ds rs gia pad n L5 L1 L2 L3 L4 L6).
  exact Wok.
Qed.
