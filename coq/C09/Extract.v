From Coq Require Import Extraction ExtrOcamlBasic.
From Common Require Import Conv.
From Gen Require Import C09.
From C09 Require Import ModelLk Model Model4 ModelT.
Extraction "c09_model.ml" conv_anchor
  M_encode12 M_decode12 S_lookup12 M_segs12
  S_lookup4 M_edges M_emit4 path_ok M_decode4 M_edge_to M_edge_len emit4_size
  M_decode_table M_decode_table_bytes M_encode_table M_get M_get_sub M_get_sub2 M_getbest M_installcmap_keys
  M_decode0 M_lookup0 M_encode0 S_lookup0 M_decode6 S_lookup6 M_lookup4.
