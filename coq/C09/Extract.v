From Coq Require Import Extraction ExtrOcamlBasic.
From Common Require Import Conv.
From Gen Require Import C09.
From C09 Require Import Model.
Extraction "c09_model.ml" conv_anchor
  M_encode12 M_decode12 S_lookup12 M_segs12
  M_decode0 M_lookup0 M_encode0 S_lookup0 M_decode6 S_lookup6.
