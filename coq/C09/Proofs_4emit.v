(* C09/Proofs_4emit.v — Format4.Encode's assembly: for every well-formed
   segment list (in particular every path of M_edges edges) whose size fits 16
   bits, the specification lookup on the emitted bytes returns the map. *)
From Coq Require Import List NArith ZArith Lia Bool Arith.
From Coq Require Import ZifyBool ZifyNat ZifyN.
From Common Require Import Bytes Outcome.
From Gen Require Import C09.
From C09 Require Import Model Model4 Util Proofs_4edges Proofs_4spec.
Import ListNotations.
Ltac Zify.zify_post_hook ::= Z.div_mod_to_equations.
Local Open Scope N_scope.

Section Emit.
Variable m : N -> N.
Hypothesis Hm : gid16 m.

Definition vlen (s : seg4) : N := if s_vals s then N.of_nat (length (seg_vals m s)) else 0.
Definition vwords (s : seg4) : list N := if s_vals s then seg_vals m s else [].

Fixpoint ros_of (segs : list seg4) (rem glen : N) : list N :=
  match segs with
  | [] => []
  | s :: r => (if s_vals s then 2 * (rem + glen) else 0) :: ros_of r (rem - 1) (glen + vlen s)
  end.

Definition gia_of (segs : list seg4) : list N := flat_map vwords segs.

Lemma vlen_vwords s : vlen s = N.of_nat (length (vwords s)).
Proof. unfold vlen, vwords. destruct (s_vals s); reflexivity. Qed.

Lemma gia_len_cons s r : gia_len m (s :: r) = vlen s + gia_len m r.
Proof. reflexivity. Qed.

Lemma gia_of_length segs : N.of_nat (length (gia_of segs)) = gia_len m segs.
Proof.
  induction segs as [|s r IH]; [reflexivity|].
  unfold gia_of in *. cbn [flat_map]. rewrite app_length, gia_len_cons, vlen_vwords. lia.
Qed.

Lemma ros_of_length segs : forall rem glen, length (ros_of segs rem glen) = length segs.
Proof. induction segs as [|s r IH]; intros; cbn [ros_of length]; [reflexivity|]. now rewrite IH. Qed.

Lemma f4_const : f4_maxRangeOffset = 65535.
Proof. reflexivity. Qed.

Lemma emit_ro_ok segs : forall rem glen,
  2 * (rem + glen + gia_len m segs) <= 65535 ->
  emit_ro m segs rem glen = Ok (ros_of segs rem glen, gia_of segs).
Proof.
  induction segs as [|s r IH]; intros rem glen H; [reflexivity|].
  rewrite gia_len_cons in H. cbn [emit_ro ros_of]. unfold gia_of. cbn [flat_map].
  unfold vlen, vwords in *. destruct (s_vals s).
  - rewrite f4_const. replace (65535 <? 2 * (rem + glen)) with false by lia.
    rewrite IH by lia. reflexivity.
  - rewrite N.add_0_r, IH by lia. reflexivity.
Qed.

Lemma nth_error_vals n : forall f j, (j < n)%nat -> nth_error (vals m n f) j = Some (m (f + N.of_nat j)).
Proof.
  induction n as [|n IH]; intros f j Hj; [lia|].
  destruct j as [|j]; cbn [vals nth_error].
  - f_equal. f_equal. lia.
  - rewrite IH by lia. f_equal. f_equal. lia.
Qed.

Lemma vals_length n f : length (vals m n f) = n.
Proof. revert f. induction n as [|n IH]; intros f; cbn [vals length]; [reflexivity|]. now rewrite IH. Qed.

Lemma vals_ok n f : words_ok (vals m n f).
Proof.
  revert f. induction n as [|n IH]; intros f; cbn [vals]; constructor; [apply Hm|apply IH].
Qed.

(* the word-level search on the emitted arrays *)
Lemma Wsearch_emit segs : forall v rem glen pre c,
  wf_segs m v segs ->
  rem = N.of_nat (length segs) -> glen = N.of_nat (length pre) ->
  2 * (rem + glen + gia_len m segs) <= 65535 ->
  v <= c -> c <= 65535 ->
  Wsearch (map s_last segs) (map s_first segs) (map s_delta segs)
          (ros_of segs rem glen) (pre ++ gia_of segs) c = Some (m c).
Proof.
  induction segs as [|s r IH]; intros v rem glen pre c Hwf Hrem Hglen Hsz Hvc Hc.
  - cbn [wf_segs] in Hwf. lia.
  - cbn [wf_segs] in Hwf. destruct Hwf as (Hv & Hedge & Hwf).
    destruct Hedge as (E1 & E2 & E3 & E4 & E5 & E6 & E7).
    rewrite gia_len_cons in Hsz.
    cbn [map ros_of Wsearch].
    destruct (s_last s <? c) eqn:Elc.
    + (* c lies after this segment *)
      unfold gia_of. cbn [flat_map]. rewrite app_assoc.
      apply (IH (s_last s + 1)); try assumption.
      * cbn [length] in Hrem. lia.
      * rewrite app_length, vlen_vwords. lia.
      * cbn [length] in Hrem. lia.
      * lia.
    + destruct (c <? s_first s) eqn:Ecf.
      * (* c lies in the gap before the segment *)
        f_equal. symmetry. apply E5. lia.
      * unfold vlen in *. destruct (s_vals s) eqn:Ev.
        -- (* explicit values *)
           cbn [length] in Hrem.
           replace (2 * (rem + glen) =? 0) with false by lia.
           replace (2 * (rem + glen) / 2 + (c - s_first s)) with (rem + glen + (c - s_first s)) by lia.
           set (ros := 2 * (rem + glen) :: ros_of r (rem - 1) (glen + N.of_nat (length (seg_vals m s)))).
           assert (Hrl : length ros = N.to_nat rem).
           { subst ros. cbn [length]. rewrite ros_of_length. lia. }
           unfold gia_of. cbn [flat_map]. unfold vwords at 1. rewrite Ev.
           rewrite (nth_error_app_off ros _ (N.to_nat (glen + (c - s_first s)))) by lia.
           rewrite (nth_error_app_off pre _ (N.to_nat (c - s_first s))) by lia.
           unfold seg_vals.
           rewrite nth_error_app1 by (rewrite vals_length; lia).
           rewrite nth_error_vals by lia.
           replace (s_first s + N.of_nat (N.to_nat (c - s_first s))) with c by lia.
           rewrite (E7 eq_refl). pose proof (Hm c).
           destruct (m c =? 0) eqn:Eg; [f_equal; lia|].
           f_equal. unfold u16. lia.
        -- (* delta segment *)
           cbn [N.eqb]. f_equal. apply E6; [reflexivity|lia].
Qed.

(* all words written are 16 bit *)
Lemma ros_of_ok segs : forall rem glen,
  2 * (rem + glen + gia_len m segs) <= 65535 -> words_ok (ros_of segs rem glen).
Proof.
  induction segs as [|s r IH]; intros rem glen H; cbn [ros_of]; [constructor|].
  rewrite gia_len_cons in H. constructor.
  - destruct (s_vals s); lia.
  - apply IH. unfold vlen in *. destruct (s_vals s); lia.
Qed.

Lemma gia_of_ok segs : words_ok (gia_of segs).
Proof.
  induction segs as [|s r IH]; [constructor|].
  unfold gia_of in *. cbn [flat_map]. apply Forall_app. split; [|exact IH].
  unfold vwords. destruct (s_vals s); [apply vals_ok|constructor].
Qed.

Lemma wf_segs_fields v segs : wf_segs m v segs ->
  words_ok (map s_last segs) /\ words_ok (map s_first segs) /\ words_ok (map s_delta segs).
Proof.
  revert v. induction segs as [|s r IH]; intros v H; [repeat split; constructor|].
  cbn [wf_segs] in H. destruct H as (_ & (E1 & E2 & E3 & E4 & _) & H).
  destruct (IH _ H) as (I1 & I2 & I3).
  cbn [map]. repeat split; constructor; (assumption || lia).
Qed.

Lemma wf_segs_last v segs : wf_segs m v segs -> v <= 65535 ->
  segs <> [] /\ s_last (last segs (mkSeg 0 0 0 false)) = 65535.
Proof.
  revert v. induction segs as [|s r IH]; intros v H Hv; cbn [wf_segs] in H; [lia|].
  split; [discriminate|].
  destruct H as (_ & (E1 & E2 & E3 & _) & H).
  destruct r as [|s' r'].
  - cbn [wf_segs] in H. cbn [last]. lia.
  - change (last (s :: s' :: r') (mkSeg 0 0 0 false)) with (last (s' :: r') (mkSeg 0 0 0 false)).
    apply (IH (s_last s + 1)); [assumption|].
    cbn [wf_segs] in H. lia.
Qed.

Lemma size_log2 n : 0 < n -> N.size n = N.log2 n + 1.
Proof. intros H. rewrite N.size_log2 by lia. lia. Qed.

(* the full statement at the level of well-formed segment lists *)
Lemma emit4_correct segs lang :
  wf_segs m 0 segs -> lang < 65536 -> emit4_size m segs <= 65535 ->
  let n := N.of_nat (length segs) in
  exists b,
    M_emit4 m segs lang = Ok b /\
    N.of_nat (length b) = emit4_size m segs /\
    (forall c, c <= 65535 -> S_lookup4 b c = Some (m c)) /\
    s_last (last segs (mkSeg 0 0 0 false)) = 65535 /\
    word_at b 0 = Some 4 /\
    word_at b 2 = Some (N.of_nat (length b)) /\
    word_at b 4 = Some lang /\
    word_at b 6 = Some (2 * n) /\
    word_at b 8 = Some (S_searchRange n) /\
    word_at b 10 = Some (S_entrySelector n) /\
    word_at b 12 = Some (S_rangeShift n) /\
    word_at b (14 + 2 * n) = Some 0.
Proof.
  intros Hwf Hlang Hsz n.
  unfold emit4_size in Hsz. fold n in Hsz.
  destruct (wf_segs_last 0 segs Hwf ltac:(lia)) as [Hne Hlast].
  assert (Hn1 : 1 <= n).
  { subst n. destruct segs as [|s0 r0]; [exfalso; apply Hne; reflexivity|]. cbn [length]. lia. }
  unfold M_emit4. fold n.
  rewrite emit_ro_ok by lia.
  set (ros := ros_of segs n 0). set (gia := gia_of segs).
  assert (Hgl : N.of_nat (length gia) = gia_len m segs) by apply gia_of_length.
  unfold emit4_words. fold n. rewrite Hgl.
  set (sel := N.size n).
  assert (Hsel : sel = N.log2 n + 1) by (subst sel; apply size_log2; lia).
  assert (Hlog : 2 ^ N.log2 n <= n) by (apply N.log2_spec; lia).
  assert (Hlog' : N.log2 n < 16).
  { apply N.log2_lt_pow2; [lia|]. change (2 ^ 16) with 65536. lia. }
  assert (Hpow : 2 ^ sel = 2 * 2 ^ N.log2 n).
  { rewrite Hsel, N.pow_add_r. change (2 ^ 1) with 2. apply N.mul_comm. }
  assert (HSR : S_searchRange n = 2 * 2 ^ N.log2 n) by reflexivity.
  assert (HES : S_entrySelector n = N.log2 n) by reflexivity.
  assert (HRS : S_rangeShift n = 2 * n - S_searchRange n) by reflexivity.
  rewrite Hpow.
  (* hide the powers from lia *)
  remember (2 ^ N.log2 n) as p eqn:Hp. remember (N.log2 n) as lg eqn:Hlg.
  remember (S_searchRange n) as SR eqn:HeqSR. remember (S_entrySelector n) as ES eqn:HeqES.
  remember (S_rangeShift n) as RS eqn:HeqRS.
  clear Hp Hlg Hpow HeqSR HeqES HeqRS.
  unfold u16.
  assert (Elen : (2 * (8 + 4 * n + gia_len m segs)) mod 65536 = 2 * (8 + 4 * n + gia_len m segs)) by lia.
  assert (Escx : (2 * n) mod 65536 = 2 * n) by lia.
  assert (Esr : (2 * p) mod 65536 = SR) by lia.
  assert (Ees : (sel + 65536 - 1) mod 65536 = ES) by lia.
  assert (Ers : (2 * n + 65536 - SR) mod 65536 = RS) by lia.
  rewrite Escx, Esr.
  set (len := (2 * (8 + 4 * n + gia_len m segs)) mod 65536) in *.
  set (scx2 := 2 * n) in *.
  set (sr := SR) in *.
  set (esel := (sel + 65536 - 1) mod 65536) in *.
  set (rsh := (scx2 + 65536 - sr) mod 65536) in *.
  set (h7 := [4; len; lang; scx2; sr; esel; rsh]).
  set (ws := h7 ++ map s_last segs ++ [0] ++ map s_first segs ++ map s_delta segs ++ ros ++ gia).
  change ([4; len; lang; scx2; sr; esel; rsh] ++
          map s_last segs ++ [0] ++ map s_first segs ++ map s_delta segs ++ ros ++ gia) with ws.
  destruct (wf_segs_fields 0 segs Hwf) as (W1 & W2 & W3).
  assert (Hros : words_ok ros) by (subst ros; apply ros_of_ok; lia).
  assert (Hgia : words_ok gia) by apply gia_of_ok.
  assert (Hh7 : words_ok h7).
  { subst h7. repeat constructor; lia. }
  assert (Hws : words_ok ws).
  { subst ws. unfold words_ok in *. repeat (apply Forall_app; split); try assumption.
    repeat constructor. }
  assert (Hwl : N.of_nat (length ws) = 8 + 4 * n + gia_len m segs).
  { subst ws h7. rewrite !app_length, !map_length. subst ros. rewrite ros_of_length.
    cbn [length]. subst n. lia. }
  exists (flat_map be16 ws).
  assert (Hbl : N.of_nat (length (flat_map be16 ws)) = 2 * (8 + 4 * n + gia_len m segs)).
  { rewrite (length_flat_map_const be16 2) by apply be16_length. lia. }
  assert (Hw : forall j, word_at (flat_map be16 ws) (2 * N.of_nat j) = nth_error ws j)
    by (intros; now apply word_at_words).
  split; [reflexivity|]. split; [exact Hbl|]. split.
  - intros c Hc.
    pose proof (S_lookup4_W h7 (map s_last segs) (map s_first segs) (map s_delta segs) ros gia 0
                  (length segs) eq_refl ltac:(apply map_length) ltac:(apply map_length)
                  ltac:(apply map_length) ltac:(subst ros; apply ros_of_length)) as HB.
    cbv zeta in HB. rewrite HB.
    + pose proof (Wsearch_emit segs 0 n 0 [] c Hwf eq_refl eq_refl ltac:(lia) ltac:(lia) Hc) as HW.
      exact HW.
    + subst h7. cbn [nth_error]. reflexivity.
    + exact Hws.
  - split; [exact Hlast|].
    assert (Hpad : nth_error ws (7 + length segs) = Some 0).
    { subst ws. rewrite (nth_error_app_off h7 _ (length segs)) by (subst h7; reflexivity).
      rewrite (nth_error_app_off (map s_last segs) _ 0) by (rewrite map_length; lia).
      reflexivity. }
    pose proof (Hw 0%nat) as H0. pose proof (Hw 1%nat) as H1. pose proof (Hw 2%nat) as H2.
    pose proof (Hw 3%nat) as H3. pose proof (Hw 4%nat) as H4. pose proof (Hw 5%nat) as H5.
    pose proof (Hw 6%nat) as H6. pose proof (Hw (7 + length segs)%nat) as H7.
    replace (2 * N.of_nat (7 + length segs)) with (14 + 2 * n) in H7 by (subst n; lia).
    rewrite Hpad in H7.
    change (2 * N.of_nat 0) with 0 in H0. change (2 * N.of_nat 1) with 2 in H1.
    change (2 * N.of_nat 2) with 4 in H2. change (2 * N.of_nat 3) with 6 in H3.
    change (2 * N.of_nat 4) with 8 in H4. change (2 * N.of_nat 5) with 10 in H5.
    change (2 * N.of_nat 6) with 12 in H6.
    subst scx2 sr.
    rewrite H0, H1, H2, H3, H4, H5, H6, H7, Hbl.
    subst ws h7 len esel rsh. cbn [app nth_error].
    rewrite Elen, Ees, Ers. repeat split; reflexivity.
Qed.

End Emit.

Lemma flat_be16_bytes ws : Forall (fun x => x < 256) (flat_map be16 ws).
Proof.
  induction ws as [|w r IH]; [constructor|].
  cbn [flat_map]. unfold be16 at 1. cbn [app].
  constructor; [lia|]. constructor; [lia|exact IH].
Qed.

Lemma emit4_bytes_ok m segs lang b :
  M_emit4 m segs lang = Ok b -> Forall (fun x => x < 256) b.
Proof.
  unfold M_emit4. destruct (emit_ro m segs (N.of_nat (length segs)) 0) as [[ros gia]| | |];
    try discriminate.
  intros H. assert (b = flat_map be16 (emit4_words segs lang ros gia)) as -> by congruence.
  apply flat_be16_bytes.
Qed.
