(* C09/Proofs_4edges.v — makeSegments.AppendEdges: every proposed edge is a
   correct segment and makes progress; a path from any vertex to 0x10000
   exists. *)
From Coq Require Import List NArith ZArith Lia Bool Arith.
From Coq Require Import ZifyBool ZifyNat ZifyN.
From Common Require Import Bytes Outcome.
From Gen Require Import C09.
From C09 Require Import Model Model4 Util.
Import ListNotations.
Ltac Zify.zify_post_hook ::= Z.div_mod_to_equations.
Local Open Scope N_scope.

(* the type invariant of map[uint16]glyph.ID *)
Definition gid16 (m : N -> N) : Prop := forall c, m c < 65536.

(* what makes a segment proposed at vertex v correct *)
Definition edge_ok (m : N -> N) (v : N) (s : seg4) : Prop :=
  v <= s_first s /\ s_first s <= s_last s /\ s_last s <= 65535 /\ s_delta s < 65536 /\
  (forall c, v <= c < s_first s -> m c = 0) /\
  (s_vals s = false -> forall c, s_first s <= c <= s_last s -> (c + s_delta s) mod u16 = m c) /\
  (s_vals s = true -> s_delta s = 0).

Lemma edge_ok_intro m v f l d b :
  v <= f -> f <= l -> l <= 65535 -> d < 65536 ->
  (forall c, v <= c < f -> m c = 0) ->
  (b = false -> forall c, f <= c <= l -> (c + d) mod u16 = m c) ->
  (b = true -> d = 0) ->
  edge_ok m v (mkSeg f l d b).
Proof. intros. unfold edge_ok. cbn [s_first s_last s_delta s_vals]. repeat split; assumption. Qed.

Section Edges.
Variable m : N -> N.
Hypothesis Hm : gid16 m.

Lemma gdelta_lt c : gdelta m c < 65536.
Proof. unfold gdelta, u16. lia. Qed.

Lemma gdelta_spec c : c <= 65535 -> (c + gdelta m c) mod u16 = m c.
Proof. intros Hc. pose proof (Hm c). unfold gdelta, u16. lia. Qed.

Lemma skip0_spec fuel : forall s,
  s <= 65535 -> 65535 - s <= N.of_nat fuel ->
  let r := skip0 m fuel s in
  s <= r /\ r <= 65535 /\ (forall c, s <= c < r -> m c = 0) /\ (r = 65535 \/ m r <> 0).
Proof.
  induction fuel as [|f IH]; intros s Hs Hf; cbv zeta; cbn [skip0].
  - repeat split; try lia; try (left; lia).
  - destruct ((s <? 65535) && (m s =? 0)) eqn:E.
    + apply andb_true_iff in E. destruct E as [E1 E2].
      pose proof (IH (s + 1) ltac:(lia) ltac:(lia)) as H. cbv zeta in H.
      destruct H as (H1 & H2 & H3 & H4).
      split; [lia|]. split; [lia|]. split; [|assumption].
      intros c Hc. destruct (N.eq_dec c s) as [->|]; [lia|]. apply H3. lia.
    + split; [lia|]. split; [lia|]. split; [intros; lia|].
      apply andb_false_iff in E. destruct E as [E|E]; [left|right]; lia.
Qed.

Lemma drun_spec delta fuel : forall e,
  e <= 65535 -> 65535 - e <= N.of_nat fuel ->
  let r := drun m delta fuel e in
  e <= r /\ r <= 65535 /\ (forall c, e <= c < r -> gdelta m c = delta) /\
  (r = 65535 \/ gdelta m r <> delta).
Proof.
  induction fuel as [|f IH]; intros e He Hf; cbv zeta; cbn [drun].
  - repeat split; try lia; try (left; lia).
  - destruct ((e <? 65535) && (gdelta m e =? delta)) eqn:E.
    + apply andb_true_iff in E. destruct E as [E1 E2].
      pose proof (IH (e + 1) ltac:(lia) ltac:(lia)) as H. cbv zeta in H.
      destruct H as (H1 & H2 & H3 & H4).
      split; [lia|]. split; [lia|]. split; [|assumption].
      intros c Hc. destruct (N.eq_dec c e) as [->|]; [lia|]. apply H3. lia.
    + split; [lia|]. split; [lia|]. split; [intros; lia|].
      apply andb_false_iff in E. destruct E as [E|E]; [left|right]; lia.
Qed.

(* the explicit-value proposal: first = start, start <= last <= 0xFFFE *)
Lemma vloop_spec start delta0 (e0 : N) :
  start < e0 -> e0 <= start + 3 -> (e0 = 65535 \/ gdelta m e0 <> delta0) ->
  forall fuel e pd nd nn,
    start < e -> e <= 65535 -> 65535 - e <= N.of_nat fuel ->
    nn <= e - start - 1 -> nd <= e - start ->
    (nd = e - start -> pd = delta0 /\ forall c, start <= c < e -> gdelta m c = delta0) ->
    let s := vloop m start fuel e pd nd nn in
    s_first s = start /\ s_vals s = true /\ s_delta s = 0 /\
    start <= s_last s /\ s_last s <= 65534.
Proof.
  intros He0a He0b He0c.
  induction fuel as [|f IH]; intros e pd nd nn H1 H2 Hf Hnn Hnd Htight; cbn [vloop].
  - cbn [s_first s_vals s_delta s_last]. unfold u32, u16. repeat split; lia.
  - destruct (e <? 65535) eqn:Ee.
    + cbv zeta.
      set (d := gdelta m e).
      set (nd' := if d =? pd then nd + 1 else 1 + nn).
      set (nn' := if m e =? 0 then nn + 1 else 0).
      set (pd' := if d =? pd then pd else d).
      assert (Hnn' : nn' <= e + 1 - start - 1) by (subst nn'; destruct (m e =? 0); lia).
      assert (Hnd' : nd' <= e + 1 - start) by (subst nd'; destruct (d =? pd); lia).
      assert (Ht' : nd' = e + 1 - start ->
                    pd' = delta0 /\ forall c, start <= c < e + 1 -> gdelta m c = delta0).
      { subst nd' pd'. destruct (d =? pd) eqn:Ed.
        - intros Hq. destruct Htight as [Hp Hall]; [lia|]. split; [assumption|].
          intros c Hc. destruct (N.eq_dec c e) as [->|]; [subst d; lia|]. apply Hall. lia.
        - intros Hq. lia. }
      destruct ((nd' =? 5) || (nn' =? 5)) eqn:E5.
      * cbn [s_first s_vals s_delta s_last].
        assert (5 <= e - start).
        { apply orb_true_iff in E5. destruct E5 as [E5|E5].
          - apply N.eqb_eq in E5.
            destruct (N.eq_dec nd' (e + 1 - start)) as [Hq|Hq]; [|lia].
            (* tight: start..e all on delta0, e = start+4 < 65535: impossible *)
            exfalso. destruct (Ht' Hq) as [_ Hall].
            destruct He0c as [->|Hne]; [lia|]. apply Hne. apply Hall. lia.
          - apply N.eqb_eq in E5. lia. }
        unfold u32, u16. repeat split; lia.
      * apply IH; try assumption; lia.
    + cbn [s_first s_vals s_delta s_last]. unfold u32, u16. repeat split; lia.
Qed.

Lemma edges_sound v s : v <= 65535 -> In s (M_edges m v) -> edge_ok m v s.
Proof.
  intros Hv Hin. unfold M_edges in Hin.
  replace (65535 <? v) with false in Hin by lia.
  cbv zeta in Hin.
  set (fuel := N.to_nat (65536 - v)) in *.
  destruct (skip0_spec fuel v Hv ltac:(subst fuel; lia)) as (S1 & S2 & S3 & S4).
  set (start := skip0 m fuel v) in *.
  set (delta := gdelta m start) in *.
  destruct (start =? 65535) eqn:Es.
  - apply N.eqb_eq in Es. destruct Hin as [<-|[]].
    apply edge_ok_intro.
    + lia.
    + lia.
    + lia.
    + subst delta. apply gdelta_lt.
    + intros c Hc. apply S3. lia.
    + intros _ c Hc. assert (c = 65535) as -> by lia. subst delta. rewrite <- Es.
      apply gdelta_spec. lia.
    + discriminate.
  - apply N.eqb_neq in Es.
    destruct (drun_spec delta fuel (start + 1) ltac:(lia) ltac:(subst fuel; lia)) as (D1 & D2 & D3 & D4).
    set (e := drun m delta fuel (start + 1)) in *.
    assert (Elast : ((e + u32 - 1) mod u32) mod u16 = e - 1) by (unfold u32, u16; lia).
    assert (Ediff : (e + u32 - start) mod u32 = e - start) by (unfold u32; lia).
    rewrite Elast, Ediff in Hin. clear Elast Ediff.
    assert (Hs1 : edge_ok m v (mkSeg start (e - 1) delta false)).
    { apply edge_ok_intro.
      - lia.
      - lia.
      - lia.
      - subst delta. apply gdelta_lt.
      - intros c Hc. apply S3. lia.
      - intros _ c Hc.
        assert (gdelta m c = delta) as <-.
        { destruct (N.eq_dec c start) as [->|]; [reflexivity|]. apply D3. lia. }
        apply gdelta_spec. lia.
      - discriminate. }
    destruct ((4 <=? e - start) || (start =? 65534)) eqn:E4.
    + destruct Hin as [<-|[]]. exact Hs1.
    + destruct Hin as [<-|[<-|[]]]; [exact Hs1|].
      apply orb_false_iff in E4. destruct E4 as [E4a E4b].
      pose proof (vloop_spec start delta e ltac:(lia) ltac:(lia) D4
                    fuel (start + 1) delta 1 0
                    ltac:(lia) ltac:(lia) ltac:(subst fuel; lia) ltac:(lia) ltac:(lia)) as V.
      destruct V as (V1 & V2 & V3 & V4 & V5).
      { intros _. split; [reflexivity|]. intros c Hc. assert (c = start) as -> by lia. reflexivity. }
      unfold edge_ok. rewrite V1, V2, V3.
      split; [lia|]. split; [lia|]. split; [lia|]. split; [lia|].
      split; [intros c Hc; apply S3; lia|]. split; [discriminate|reflexivity].
Qed.

(* P1: every vertex v <= 0xFFFF has an edge, and every edge ends strictly
   after v (and inside the code space) *)
Lemma edges_nonempty v : v <= 65535 -> M_edges m v <> [].
Proof.
  intros Hv. unfold M_edges. replace (65535 <? v) with false by lia. cbv zeta.
  destruct (_ =? 65535); [discriminate|].
  destruct (_ || _); discriminate.
Qed.

Lemma edges_forward v s : v <= 65535 -> In s (M_edges m v) ->
  v < M_edge_to s /\ M_edge_to s <= 65536.
Proof.
  intros Hv Hin. destruct (edges_sound v s Hv Hin) as (H1 & H2 & H3 & _).
  unfold M_edge_to. lia.
Qed.

Lemma edges_beyond v : 65535 < v -> M_edges m v = [].
Proof. intros Hv. unfold M_edges. replace (65535 <? v) with true by lia. reflexivity. Qed.

(* paths of the graph *)
Inductive path : N -> list seg4 -> Prop :=
| path_nil : path 65536 []
| path_cons v s r : In s (M_edges m v) -> path (M_edge_to s) r -> path v (s :: r).

Lemma path_exists_aux (k : nat) : forall v, v <= 65536 -> 65536 - v <= N.of_nat k ->
  exists segs, path v segs.
Proof.
  induction k as [|k IH]; intros v Hv Hk.
  - assert (v = 65536) as -> by lia. exists []. constructor.
  - destruct (N.eq_dec v 65536) as [->|Hne]; [exists []; constructor|].
    assert (Hv' : v <= 65535) by lia.
    destruct (M_edges m v) as [|s l] eqn:E; [exfalso; now apply (edges_nonempty v Hv')|].
    assert (Hin : In s (M_edges m v)) by (rewrite E; now left).
    destruct (edges_forward v s Hv' Hin) as [F1 F2].
    destruct (IH (M_edge_to s) F2 ltac:(lia)) as [r Hr].
    exists (s :: r). now constructor.
Qed.

Lemma path_exists v : v <= 65536 -> exists segs, path v segs.
Proof. intros Hv. apply (path_exists_aux (N.to_nat (65536 - v))); lia. Qed.

(* the boolean checker used on the implementation's output *)
Lemma seg_eqb_eq a b : seg_eqb a b = true -> a = b.
Proof.
  unfold seg_eqb. destruct a as [f1 l1 d1 b1], b as [f2 l2 d2 b2]. cbn [s_first s_last s_delta s_vals].
  rewrite !andb_true_iff. intros [[[H1 H2] H3] H4].
  apply N.eqb_eq in H1, H2, H3. apply Bool.eqb_prop in H4. now subst.
Qed.

Lemma path_ok_sound segs : forall v, path_ok m v segs = true -> path v segs.
Proof.
  induction segs as [|s r IH]; intros v H; cbn [path_ok] in H.
  - apply N.eqb_eq in H. subst. constructor.
  - apply andb_true_iff in H. destruct H as [H1 H2].
    apply existsb_exists in H1. destruct H1 as (x & Hx & Heq).
    apply seg_eqb_eq in Heq. subst x. constructor; [assumption|]. now apply IH.
Qed.

(* a path is a well-formed segment list: what the emission proof needs *)
Fixpoint wf_segs (v : N) (segs : list seg4) : Prop :=
  match segs with
  | [] => v = 65536
  | s :: r => v <= 65535 /\ edge_ok m v s /\ wf_segs (s_last s + 1) r
  end.

Lemma path_wf v segs : v <= 65536 -> path v segs -> wf_segs v segs.
Proof.
  intros Hv H. induction H as [|v s r Hin Hp IH]; [reflexivity|].
  cbn [wf_segs].
  destruct (N.le_gt_cases v 65535) as [Hle|Hgt].
  - destruct (edges_forward v s Hle Hin) as [F1 F2].
    split; [assumption|]. split; [now apply edges_sound|]. apply IH. exact F2.
  - rewrite edges_beyond in Hin by assumption. destruct Hin.
Qed.

End Edges.
