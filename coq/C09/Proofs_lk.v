From Coq Require Import List NArith ZArith Bool Lia.
From C09 Require Import Model ModelLk.
Import ListNotations.
Local Open Scope N_scope.

Lemma lookup4_in_range : forall (m : amap) (c : N),
  c <= 65535 -> M_lookup4 m (Z.of_N c) = lookup m c.
Proof.
  intros m c Hc. unfold M_lookup4.
  assert (H1 : (Z.of_N c <? 0)%Z = false) by (apply Z.ltb_ge; lia).
  assert (H2 : (65535 <? Z.of_N c)%Z = false) by (apply Z.ltb_ge; lia).
  rewrite H1, H2. cbn [orb]. now rewrite N2Z.id.
Qed.

Lemma lookup4_outside : forall (m : amap) (r : Z),
  (r < 0 \/ 65535 < r)%Z -> M_lookup4 m r = 0.
Proof.
  intros m r [H|H]; unfold M_lookup4.
  - assert (H1 : (r <? 0)%Z = true) by (apply Z.ltb_lt; lia). now rewrite H1.
  - assert (H2 : (65535 <? r)%Z = true) by (apply Z.ltb_lt; lia).
    rewrite H2. now rewrite orb_true_r.
Qed.

Lemma lookup4_full : forall (m : amap) (spec : N -> N),
  (forall c, c <= 65535 -> lookup m c = spec c) ->
  forall c, M_lookup4 m (Z.of_N c) = S_lookup16_full spec c.
Proof.
  intros m spec H c. unfold S_lookup16_full.
  destruct (c <=? 65535) eqn:E.
  - apply N.leb_le in E. rewrite lookup4_in_range by exact E. now apply H.
  - apply N.leb_gt in E. apply lookup4_outside. right. lia.
Qed.

Lemma lookup4_found_wraps :
  exists (m : amap) (r : Z), (65535 < r <= 1114111)%Z /\ M_lookup4_found m r <> 0 /\ M_lookup4 m r = 0.
Proof.
  exists [(65, 7)], 65601%Z. repeat split; try lia; vm_compute; congruence.
Qed.
