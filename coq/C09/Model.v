(* C09/Model.v — executable definitions shared by all cmap models, and the
   models of the format 12, format 0 and format 6 subtables.

   Conventions
   * a Go map code->gid is a strictly sorted association list [amap]
     (ascending keys); decoders accumulate into a *descending* list with [put]
     (O(1) when keys arrive in increasing order, which is the usual case) and
     reverse at the end;
   * bytes are [list N]; every place where Go truncates carries an explicit
     [mod];
   * constants that occur as literals in the Go code come from Gen/C09.v
     (regenerated from /repo on every run). *)
From Coq Require Import List NArith ZArith Lia Bool.
From Common Require Import Bytes Outcome.
From Gen Require Import C09.
Import ListNotations.
Local Open Scope N_scope.

Definition amap := list (N * N).

Definition u32 : N := 4294967296.
Definition u16 : N := 65536.

(* lookup in an association list; 0 (.notdef) when absent *)
Fixpoint lookup (m : amap) (c : N) : N :=
  match m with
  | [] => 0
  | (k, v) :: r => if k =? c then v else lookup r c
  end.

Fixpoint has_key (m : amap) (c : N) : bool :=
  match m with
  | [] => false
  | (k, _) :: r => (k =? c) || has_key r c
  end.

(* strictly increasing keys *)
Fixpoint sorted_from (lo : N) (m : amap) : bool :=
  match m with
  | [] => true
  | (k, _) :: r => (lo <? k) && sorted_from k r
  end.
Definition sorted_keys (m : amap) : bool :=
  match m with
  | [] => true
  | (k, _) :: r => sorted_from k r
  end.

(* linear-time reversal (List.rev is quadratic); frev l = rev l *)
Definition frev {A} (l : list A) : list A := rev_append l [].

(* Go's  cmap[k] = v  on the descending accumulator *)
Fixpoint put (k v : N) (acc : amap) : amap :=
  match acc with
  | [] => [(k, v)]
  | (k', v') :: r =>
      if k' <? k then (k, v) :: acc
      else if k' =? k then (k, v) :: r
      else (k', v') :: put k v r
  end.

(* ------------------------------------------------------------------ *)
(* format 12                                                          *)

(* a group: startCharCode, endCharCode, startGlyphID *)
Definition seg12 := (N * N * N)%type.

(* Format12.Encode: runs of consecutive keys with consecutive glyph ids.
   keys[i] != keys[i-1]+1 is uint32 arithmetic (wraps);
   uint32(gid[i]) != uint32(gid[i-1])+1 does not wrap (gids are 16 bit). *)
Fixpoint group12 (first prev : N * N) (rest : amap) : list seg12 :=
  match rest with
  | [] => [(fst first, fst prev, snd first)]
  | (k, g) :: r =>
      if (k =? (fst prev + 1) mod u32) && (g =? snd prev + 1)
      then group12 first (k, g) r
      else (fst first, fst prev, snd first) :: group12 (k, g) (k, g) r
  end.

Definition M_segs12 (m : amap) : list seg12 :=
  match m with
  | [] => []
  | x :: r => group12 x x r
  end.

Definition enc_seg12 (s : seg12) : list N :=
  let '(a, b, g) := s in be32 a ++ be32 b ++ [0; 0] ++ be16 g.

Definition M_encode12 (m : amap) (lang : N) : list N :=
  let ss := M_segs12 m in
  let n := N.of_nat (length ss) in
  let l := (16 + n * 12) mod u32 in
  [0; 12; 0; 0] ++ be32 l ++ [0; 0] ++ be16 lang ++ be32 n ++ flat_map enc_seg12 ss.

(* for c := start; c <= end; c++ { cmap[c] = glyph.ID(startGlyphID + c - start) } *)
Fixpoint fill12 (n : nat) (c s g : N) (acc : amap) : amap :=
  match n with
  | O => acc
  | S n' => fill12 n' (c + 1) s g (put c (((g + c - s) mod u32) mod u16) acc)
  end.

(* The loop over the groups.  base = 16 + 12*i is computed in uint32; since
   nSegments <= f12_maxSegments was checked before the loop it never wraps, so
   the loop reads consecutive 12-byte records: [rest] is data[base:].  A record
   that is not completely present is an index-out-of-range panic. *)
Fixpoint dec12_loop (n : nat) (first : bool) (rest : list N) (size prevEnd : N) (acc : amap)
  : outcome amap :=
  match n with
  | O => Ok acc
  | S n' =>
      match rest with
      | a0 :: a1 :: a2 :: a3 :: b0 :: b1 :: b2 :: b3 :: c0 :: c1 :: c2 :: c3 :: rest' =>
          let s := rd32 [a0; a1; a2; a3] in
          let e := rd32 [b0; b1; b2; b3] in
          let g := rd32 [c0; c1; c2; c3] in
          if (negb first && (s <=? prevEnd)) || (e <? s) || (e =? f12_badEnd)
             || (f12_maxGid <? g) || (f12_maxGidEnd <? (g + (e - s)) mod u32)
          then Err
          else
            let size' := (size + (e - s + 1) mod u32) mod u32 in
            if f12_maxEntries <? size' then Err
            else dec12_loop n' false rest' size' e (fill12 (N.to_nat (e - s + 1)) s s g acc)
      | _ => Panic
      end
  end.

(* decodeFormat12; [mac] = a code2rune function was supplied *)
Definition M_decode12 (mac : bool) (data : list N) : outcome amap :=
  if mac then Err else
  let len := N.of_nat (length data) in
  if len <? f12_minLen then Err else
  let nseg := rd32 (skipn 12 data) in
  if negb (len =? 16 + nseg * 12) || (f12_maxSegments <? nseg) then Err else
  omap (@frev (N * N)) (dec12_loop (N.to_nat nseg) true (skipn 16 data) 0 0 []).

(* The format-12 lookup as the OpenType text defines it: the groups are
   searched for one with startCharCode <= c <= endCharCode; the glyph is
   startGlyphID + (c - startCharCode); no group -> glyph 0.  Written over the
   bytes, independently of the decoder above; no truncation of the result. *)
Fixpoint S_groups12 (n : nat) (rest : list N) (c : N) : N :=
  match n with
  | O => 0
  | S n' =>
      let s := rd32 rest in
      let e := rd32 (skipn 4 rest) in
      let g := rd32 (skipn 8 rest) in
      if (s <=? c) && (c <=? e) then g + (c - s) else S_groups12 n' (skipn 12 rest) c
  end.

Definition S_lookup12 (data : list N) (c : N) : N :=
  S_groups12 (N.to_nat (rd32 (skipn 12 data))) (skipn 16 data) c.

(* groups are sorted, disjoint and cannot be merged *)
Fixpoint segs12_ok (prev : option seg12) (ss : list seg12) : bool :=
  match ss with
  | [] => true
  | (a, b, g) :: r =>
      (a <=? b) &&
      match prev with
      | None => true
      | Some (a', b', g') => (b' <? a) && negb ((a =? b' + 1) && (g =? g' + (b' - a') + 1))
      end && segs12_ok (Some (a, b, g)) r
  end.

(* ------------------------------------------------------------------ *)
(* format 0 and format 6                                              *)

(* decodeFormat0: data = data[6:] panics when len(data) < 6 *)
Definition M_decode0 (data : list N) : outcome (list N) :=
  if N.of_nat (length data) <? 6 then Panic else
  let d := skipn 6 data in
  if negb (N.of_nat (length d) =? f0_dataLen) then Err else Ok d.

(* Format0.Lookup *)
Definition M_lookup0 (d : list N) (r : Z) : outcome N :=
  if (255 <? r)%Z then Ok 0
  else if (r <? 0)%Z then Panic (* Data[r] with a negative rune *)
  else Ok (nth (Z.to_nat r) d 0).

(* the byte encoding table as the specification defines it *)
Definition S_lookup0 (data : list N) (c : N) : N :=
  if c <? 256 then nth (N.to_nat (6 + c)) data 0 else 0.

(* Format0.Encode *)
Definition M_encode0 (d : list N) (lang : N) : list N :=
  [0; 0; 1; 6] ++ be16 lang ++ d.

(* decodeFormat6 with code2rune [c2r]; keys are uint16(code2rune(i+firstCode)) *)
Fixpoint dec6_loop (c2r : N -> N) (i : N) (first : N) (d : list N) (acc : amap) : amap :=
  match d with
  | a :: b :: r =>
      let gid := a * 256 + b in
      dec6_loop c2r (i + 1) first r
        (if gid =? 0 then acc else put ((c2r (i + first)) mod u16) gid acc)
  | _ => acc
  end.

Definition M_decode6 (c2r : N -> N) (data : list N) : outcome amap :=
  let len := N.of_nat (length data) in
  if len <? f6_minLen then Err else
  let first := rd16 (skipn 6 data) in
  let count := rd16 (skipn 8 data) in
  if f6_maxCodeEnd <? first + count then Err else
  (* an excess 0x0000 at the end is tolerated *)
  let data' :=
    if (len =? 10 + 2 * count + 2)
       && (nth (N.to_nat (10 + 2 * count)) data 1 =? 0)
       && (nth (N.to_nat (10 + 2 * count + 1)) data 1 =? 0)
    then firstn (N.to_nat (10 + 2 * count)) data else data in
  if negb (N.of_nat (length data') =? 10 + 2 * count) then Err else
  Ok (frev (dec6_loop c2r 0 first (skipn 10 data') [])).

(* the trimmed table mapping as the specification defines it *)
Definition S_lookup6 (data : list N) (c : N) : N :=
  let first := rd16 (skipn 6 data) in
  let count := rd16 (skipn 8 data) in
  if (first <=? c) && (c <? first + count)
  then rd16 (skipn (N.to_nat (10 + 2 * (c - first))) data)
  else 0.
