(* C15/Proofs_kernfmt.v — the kern reader against the file format: on the
   bytes of a well-formed version-0 kern table (written here from the OpenType
   specification) the reader's record stream is exactly the records of the
   selected subtables, in file order. *)
From Coq Require Import List NArith ZArith Bool Arith Lia.
From Common Require Import Bytes Outcome.
From C15 Require Import Model Util Proofs_kern.
Import ListNotations.
Local Open Scope N_scope.

(* S: a kern subtable as the specification describes it *)
Inductive ksub : Type :=
| KPairs (flags : N) (search : list N) (pairs : list (N * N * Z))
    (* version 0, format 0: coverage flags, the 6 bytes searchRange /
       entrySelector / rangeShift (not interpreted), the pair records *)
| KOther (version format flags : N) (body : list N).
    (* any other subtable: skipped by its length field *)

Definition pair_bytes (p : N * N * Z) : list N :=
  let '(l, r, v) := p in be16 l ++ be16 r ++ be16 (of_i16 v).

Definition ksub_bytes (s : ksub) : list N :=
  match s with
  | KPairs flags search pairs =>
      let np := N.of_nat (length pairs) in
      be16 0 ++ be16 (14 + 6 * np) ++ [0; flags] ++ be16 np ++ search ++ flat_map pair_bytes pairs
  | KOther version format flags body =>
      be16 version ++ be16 (6 + N.of_nat (length body)) ++ [format; flags] ++ body
  end.

Definition S_kern_bytes (subs : list ksub) : list N :=
  be16 0 ++ be16 (N.of_nat (length subs)) ++ flat_map ksub_bytes subs.

Definition ksub_ok (s : ksub) : Prop :=
  match s with
  | KPairs flags search pairs =>
      flags < 256 /\ length search = 6%nat /\ N.of_nat (length pairs) <= 10920 /\
      Forall (fun p => let '(l, r, v) := p in l < 65536 /\ r < 65536 /\ (-32768 <= v < 32768)%Z) pairs
  | KOther version format flags body =>
      version < 65536 /\ format < 256 /\ flags < 256 /\ (version <> 0 \/ format <> 0) /\
      (8 <= length body)%nat /\ N.of_nat (length body) < 65530
  end.

Section Fmt.
  Variables maskSel wanted maskMin maskOvr : N.

  Definition ksub_records (s : ksub) : list kentry :=
    match s with
    | KPairs flags _ pairs =>
        if N.land flags maskSel =? wanted then
          map (fun p => let '(l, r, v) := p in
                        (negb (N.land flags maskMin =? 0), negb (N.land flags maskOvr =? 0), l, r, v)) pairs
        else []
    | KOther _ _ _ _ => []
    end.

  Lemma hi_lo x : x < 65536 -> (x / 256 mod 256) * 256 + x mod 256 = x.
  Proof.
    intros H. rewrite (N.mod_small (x / 256) 256) by (apply N.div_lt_upper_bound; lia).
    rewrite N.mul_comm. symmetry. apply N.div_mod. lia.
  Qed.

  Lemma read_pairs_encoded mn ov pairs tail :
    Forall (fun p => let '(l, r, v) := p in l < 65536 /\ r < 65536 /\ (-32768 <= v < 32768)%Z) pairs ->
    read_pairs mn ov (length pairs) (flat_map pair_bytes pairs ++ tail) =
    Some (map (fun p => let '(l, r, v) := p in (mn, ov, l, r, v)) pairs).
  Proof.
    induction 1 as [|[[l r] v] pairs (Hl & Hr & Hv) _ IH]; [reflexivity|].
    cbn [length flat_map pair_bytes]. unfold be16. cbn [app read_pairs].
    rewrite IH. cbn [map].
    rewrite !hi_lo by (try assumption; apply of_i16_bound).
    rewrite to_i16_of_i16 by exact Hv. reflexivity.
  Qed.

  Lemma ksub_bytes_length s : ksub_ok s ->
    length (ksub_bytes s) =
    match s with
    | KPairs _ _ pairs => (14 + 6 * length pairs)%nat
    | KOther _ _ _ body => (6 + length body)%nat
    end.
  Proof.
    destruct s as [flags search pairs|version format flags body]; cbn [ksub_ok ksub_bytes].
    - intros (_ & Hs & _ & _). rewrite !app_length, !be16_length, Hs. cbn [length].
      assert (length (flat_map pair_bytes pairs) = 6 * length pairs)%nat as ->.
      { clear. induction pairs as [|[[l r] v] ps IH]; [reflexivity|].
        cbn [flat_map pair_bytes length]. rewrite !app_length, !be16_length, IH. lia. }
      lia.
    - intros _. rewrite !app_length, !be16_length. cbn [length]. lia.
  Qed.

  Lemma skipn_prefix {A} (p r : list A) : skipn (length p) (p ++ r) = r.
  Proof. induction p as [|a p IH]; [reflexivity|exact IH]. Qed.

  (* the subtable loop, started at the subtable boundary after [pre] *)
  Lemma kern_tables_wellformed subs : forall pre,
    Forall ksub_ok subs ->
    kern_tables 14 maskSel wanted maskMin maskOvr (length subs)
                (pre ++ flat_map ksub_bytes subs) (length pre)
    = Ok (flat_map ksub_records subs).
  Proof.
    induction subs as [|s subs IH]; intros pre Hok; [reflexivity|].
    inversion Hok as [|? ? Hs Hok']; subst.
    cbn [length kern_tables flat_map]. rewrite skipn_prefix.
    pose proof (ksub_bytes_length s Hs) as Hlen.
    rewrite (app_assoc pre (ksub_bytes s)).
    specialize (IH (pre ++ ksub_bytes s) Hok').
    assert (length (pre ++ ksub_bytes s) = (length pre + length (ksub_bytes s))%nat) as Hpl
        by apply app_length.
    set (b' := pre ++ ksub_bytes s) in *.
    destruct s as [flags search pairs|version format flags body]; cbn [ksub_ok] in Hs.
    - destruct Hs as (Hf & Hsl & Hnp & Hpairs).
      cbn [ksub_bytes]. set (np := N.of_nat (length pairs)) in *.
      change (be16 0) with [0; 0].
      change (be16 (14 + 6 * np)) with [(14 + 6 * np) / 256 mod 256; (14 + 6 * np) mod 256].
      change (be16 np) with [np / 256 mod 256; np mod 256].
      destruct search as [|s0 [|s1 [|s2 [|s3 [|s4 [|s5 [|]]]]]]]; try discriminate Hsl.
      cbn [app skipn].
      rewrite !hi_lo by lia.
      replace (14 + 6 * np <? 14) with false by (symmetry; apply N.ltb_ge; lia).
      change (0 * 256 + 0 =? 0) with true. change (0 =? 0) with true. cbn [negb orb].
      replace (length pre + N.to_nat (14 + 6 * np))%nat with (length b')
        by (rewrite Hpl, Hlen; unfold np; lia).
      cbv zeta. replace (N.to_nat np) with (length pairs) by (unfold np; rewrite Nnat.Nat2N.id; reflexivity).
      cbn [ksub_records].
      destruct (N.land flags maskSel =? wanted) eqn:Esel; cbn [negb].
      + rewrite read_pairs_encoded by exact Hpairs.
        replace (length b' <? length pre + 14 + 6 * length pairs)%nat with false
          by (symmetry; apply Nat.ltb_ge; rewrite Hpl, Hlen; lia).
        rewrite IH. reflexivity.
      + rewrite IH. reflexivity.
    - destruct Hs as (Hv & Hfm & Hfl & Hne & Hb8 & Hb).
      cbn [ksub_bytes].
      change (be16 version) with [version / 256 mod 256; version mod 256].
      change (be16 (6 + N.of_nat (length body)))
        with [(6 + N.of_nat (length body)) / 256 mod 256; (6 + N.of_nat (length body)) mod 256].
      cbn [app].
      rewrite !hi_lo by lia.
      replace (6 + N.of_nat (length body) <? 14) with false by (symmetry; apply N.ltb_ge; lia).
      assert (negb (version =? 0) || negb (format =? 0) = true) as Hsk.
      { destruct Hne as [H|H]; apply N.eqb_neq in H; rewrite H; cbn; [reflexivity|apply orb_true_r]. }
      rewrite Hsk. cbn [orb ksub_records app].
      replace (length pre + N.to_nat (6 + N.of_nat (length body)))%nat with (length b')
        by (rewrite Hpl, Hlen; lia).
      rewrite IH. reflexivity.
  Qed.

  Theorem kern_entries_wellformed subs :
    N.of_nat (length subs) < 65536 -> Forall ksub_ok subs ->
    kern_entries 14 maskSel wanted maskMin maskOvr 0 (S_kern_bytes subs) = Ok (flat_map ksub_records subs).
  Proof.
    intros Hn Hok. unfold S_kern_bytes, kern_entries, be16. cbn [app].
    change (0 / 256 mod 256) with 0. change (0 mod 256) with 0.
    change (0 * 256 + 0 =? 0) with true. cbn [negb].
    rewrite hi_lo by exact Hn. rewrite Nnat.Nat2N.id.
    exact (kern_tables_wellformed subs
             [0; 0; N.of_nat (length subs) / 256 mod 256; N.of_nat (length subs) mod 256] Hok).
  Qed.
End Fmt.
