(* C15/Proofs_find.v — feature selection (FindLookups). *)
From Coq Require Import List NArith ZArith Bool Arith Lia Permutation Sorted.
From Common Require Import Bytes Outcome.
From C15 Require Import Model Util.
Import ListNotations.
Local Open Scope N_scope.

(* ------------------------------------------------------------------ *)
(* the lookup set                                                      *)

Lemma existsb_eqb_in x s : existsb (N.eqb x) s = true <-> In x s.
Proof.
  rewrite existsb_exists. split.
  - intros [y [Hy He]]. apply N.eqb_eq in He. subst. exact Hy.
  - intros H. exists x. split; [exact H|apply N.eqb_refl].
Qed.

Lemma set_add_in x y s : In y (set_add x s) <-> y = x \/ In y s.
Proof.
  unfold set_add. destruct (existsb (N.eqb x) s) eqn:E.
  - apply existsb_eqb_in in E. split; [auto|]. intros [->|H]; assumption.
  - rewrite in_app_iff. cbn [In]. intuition.
Qed.

Lemma set_add_nodup x s : NoDup s -> NoDup (set_add x s).
Proof.
  intros Hd. unfold set_add. destruct (existsb (N.eqb x) s) eqn:E; [exact Hd|].
  assert (~ In x s) as Hn.
  { intros H. apply existsb_eqb_in in H. congruence. }
  clear E. induction Hd as [|a s Ha Hd IH]; cbn [app].
  - constructor; [intros []|constructor].
  - constructor.
    + rewrite in_app_iff. cbn [In]. intros [H|[H|[]]]; [contradiction|].
      subst. apply Hn. left. reflexivity.
    + apply IH. intros H. apply Hn. right. exact H.
Qed.

Lemma set_add_all_in xs : forall s y, In y (set_add_all xs s) <-> In y xs \/ In y s.
Proof.
  unfold set_add_all. induction xs as [|x xs IH]; intros s y; cbn [fold_left In].
  - tauto.
  - rewrite IH, set_add_in. intuition.
Qed.

Lemma set_add_all_nodup xs : forall s, NoDup s -> NoDup (set_add_all xs s).
Proof.
  unfold set_add_all. induction xs as [|x xs IH]; intros s Hd; cbn [fold_left].
  - exact Hd.
  - apply IH, set_add_nodup, Hd.
Qed.

(* ------------------------------------------------------------------ *)
(* selection, once the language system is chosen                       *)

(* S: the lookups the chosen language system asks for, stated from the
   OpenType rules: those of the required feature and those of every
   optional feature whose tag is switched on *)
Definition wanted (fl : list feature) (sw : switches) (fs : features) (l : N) : Prop :=
  let nf := u16 (N.of_nat (length fl)) in
  (fs_required fs < nf /\
   exists ft, nth_error fl (N.to_nat (fs_required fs)) = Some ft /\ In l (ft_lookups ft)) \/
  (exists f ft, In f (fs_optional fs) /\ f < nf /\ nth_error fl (N.to_nat f) = Some ft /\
                sw_get sw (ft_tag ft) = true /\ In l (ft_lookups ft)).

Lemma u16_le x : u16 x <= x.
Proof. unfold u16. apply N.mod_le. lia. Qed.

Lemma nth_in_range (fl : list feature) f :
  f < u16 (N.of_nat (length fl)) -> exists ft, nth_error fl (N.to_nat f) = Some ft.
Proof.
  intros H. pose proof (u16_le (N.of_nat (length fl))).
  destruct (nth_error fl (N.to_nat f)) eqn:E; [eauto|].
  apply nth_error_None in E. lia.
Qed.

Lemma opt_fold_spec fl sw nf : nf = u16 (N.of_nat (length fl)) ->
  forall opts inc0, NoDup inc0 ->
  exists inc, fold_left (opt_step fl nf sw) opts (Ok inc0) = Ok inc /\ NoDup inc /\
    forall l, In l inc <->
      In l inc0 \/
      exists f ft, In f opts /\ f < nf /\ nth_error fl (N.to_nat f) = Some ft /\
                   sw_get sw (ft_tag ft) = true /\ In l (ft_lookups ft).
Proof.
  intros Hnf. induction opts as [|f opts IH]; intros inc0 Hd; cbn [fold_left].
  - exists inc0. split; [reflexivity|]. split; [exact Hd|].
    intros l. split; [auto|]. intros [H|(f & ft & [] & _)]. exact H.
  - unfold opt_step at 2. cbn [obind].
    destruct (N.leb_spec nf f) as [Hge|Hlt].
    + destruct (IH inc0 Hd) as (inc & He & Hnd & Hin).
      exists inc. split; [exact He|]. split; [exact Hnd|].
      intros l. rewrite Hin. split.
      * intros [H|(f' & ft & Hf & R)]; [auto|]. right. exists f', ft. cbn [In]. tauto.
      * intros [H|(f' & ft & [Hf|Hf] & Hlt & R)]; [auto| |].
        -- subst f'. lia.
        -- right. exists f', ft. tauto.
    + destruct (nth_in_range fl f) as [ft Hft]; [subst nf; exact Hlt|].
      rewrite Hft. destruct (sw_get sw (ft_tag ft)) eqn:Hsw.
      * destruct (IH (set_add_all (ft_lookups ft) inc0)) as (inc & He & Hnd & Hin);
          [apply set_add_all_nodup, Hd|].
        exists inc. split; [exact He|]. split; [exact Hnd|].
        intros l. rewrite Hin, set_add_all_in. split.
        -- intros [[H|H]|(f' & ft' & Hf & R)].
           ++ right. exists f, ft. cbn [In]. tauto.
           ++ auto.
           ++ right. exists f', ft'. cbn [In]. tauto.
        -- intros [H|(f' & ft' & [Hf|Hf] & Hlt' & Hn & Hs & Hl)].
           ++ auto.
           ++ subst f'. rewrite Hft in Hn. inversion Hn; subst ft'. auto.
           ++ right. exists f', ft'. tauto.
      * destruct (IH inc0 Hd) as (inc & He & Hnd & Hin).
        exists inc. split; [exact He|]. split; [exact Hnd|].
        intros l. rewrite Hin. split.
        -- intros [H|(f' & ft' & Hf & R)]; [auto|]. right. exists f', ft'. cbn [In]. tauto.
        -- intros [H|(f' & ft' & [Hf|Hf] & Hlt' & Hn & Hs & Hl)]; [auto| |].
           ++ subst f'. rewrite Hft in Hn. inversion Hn; subst ft'. congruence.
           ++ right. exists f', ft'. tauto.
Qed.

Section Select.
  Variable iter2 : list N -> list N.
  Hypothesis iter2_perm : forall l, Permutation (iter2 l) l.

  Lemma select_spec fl nl sw fs :
    exists ll, M_select iter2 fl nl sw fs = Ok ll /\
      StronglySorted N.lt ll /\
      forall l, In l ll <-> l < u16 nl /\ wanted fl sw fs l.
  Proof.
    unfold M_select.
    set (nf := u16 (N.of_nat (length fl))).
    assert (exists inc0,
      (if fs_required fs <? nf then
         match nth_error fl (N.to_nat (fs_required fs)) with
         | None => Panic
         | Some ft => Ok (set_add_all (ft_lookups ft) [])
         end
       else Ok []) = Ok inc0 /\ NoDup inc0 /\
      forall l, In l inc0 <->
        (fs_required fs < nf /\
         exists ft, nth_error fl (N.to_nat (fs_required fs)) = Some ft /\ In l (ft_lookups ft)))
      as (inc0 & He0 & Hd0 & Hin0).
    { destruct (N.ltb_spec (fs_required fs) nf) as [Hlt|Hge].
      - destruct (nth_in_range fl _ Hlt) as [ft Hft]. rewrite Hft.
        exists (set_add_all (ft_lookups ft) []). split; [reflexivity|].
        split; [apply set_add_all_nodup; constructor|].
        intros l. rewrite set_add_all_in. cbn [In]. split.
        + intros [H|[]]. split; [exact Hlt|]. exists ft. try rewrite Hft. auto.
        + intros [_ (ft' & Hn & Hl)]. try rewrite Hft in Hn. inversion Hn; subst. auto.
      - exists []. split; [reflexivity|]. split; [constructor|].
        intros l. cbn [In]. split; [intros []|]. intros [H _]. lia. }
    rewrite He0. cbn [obind].
    destruct (opt_fold_spec fl sw nf eq_refl (fs_optional fs) inc0 Hd0) as (inc & He & Hd & Hin).
    rewrite He. cbn [obind].
    eexists. split; [reflexivity|]. split.
    - apply sorted_nodup_lt.
      + apply isort_sorted; [apply Nleb_total|apply Nleb_trans].
      + eapply Permutation_NoDup; [apply Permutation_sym, isort_perm|].
        apply NoDup_filter. eapply Permutation_NoDup; [apply Permutation_sym, iter2_perm|exact Hd].
    - intros l. rewrite isort_in, filter_In, N.ltb_lt.
      assert (In l (iter2 inc) <-> In l inc) as ->.
      { split; apply Permutation_in; [apply iter2_perm|apply Permutation_sym, iter2_perm]. }
      rewrite Hin, Hin0. unfold wanted. fold nf. tauto.
  Qed.

  (* the enumeration order of the lookup set does not matter *)
  Lemma select_order_independent (iter2' : list N -> list N) fl nl sw fs :
    (forall l, Permutation (iter2' l) l) ->
    M_select iter2 fl nl sw fs = M_select iter2' fl nl sw fs.
  Proof.
    intros Hp. unfold M_select.
    destruct (if fs_required fs <? _ then _ else _); cbn [obind]; try reflexivity.
    destruct (fold_left _ _ _); cbn [obind]; try reflexivity.
    f_equal. apply isort_perm_eq;
      [apply Nleb_total|apply Nleb_antisym|apply Nleb_trans|].
    apply Permutation_filter.
    eapply Permutation_trans; [apply iter2_perm|apply Permutation_sym, Hp].
  Qed.
End Select.

(* ------------------------------------------------------------------ *)
(* choosing the language system                                        *)

Section Find.
  Context {tag lang : Type}.
  Variable tag_leb : tag -> tag -> bool.
  Hypothesis leb_total : forall a b, tag_leb a b = true \/ tag_leb b a = true.
  Hypothesis leb_antisym : forall a b, tag_leb a b = true -> tag_leb b a = true -> a = b.
  Hypothesis leb_trans : forall a b c, tag_leb a b = true -> tag_leb b c = true -> tag_leb a c = true.
  Variable matcher : lang -> list tag -> nat.
  Variable iter1 : list (tag * option features) -> list (tag * option features).
  Variable iter2 : list N -> list N.
  Hypothesis iter1_perm : forall l, Permutation (iter1 l) l.
  Hypothesis iter2_perm : forall l, Permutation (iter2 l) l.

  Lemma tag_eqb_eq a b : tag_eqb tag_leb a b = true <-> a = b.
  Proof.
    unfold tag_eqb. rewrite andb_true_iff. split.
    - intros [H1 H2]. apply leb_antisym; assumption.
    - intros ->. split; apply (leb_refl tag_leb leb_total).
  Qed.

  Lemma sl_get_in sl t v : NoDup (map fst sl) -> In (t, v) sl -> sl_get tag_leb sl t = Some v.
  Proof.
    induction sl as [|[k w] r IH]; cbn [map fst sl_get In]; intros Hd Hin; [contradiction|].
    inversion Hd as [|? ? Hn Hd']; subst.
    destruct Hin as [He|Hin].
    - inversion He; subst. rewrite (proj2 (tag_eqb_eq t t) eq_refl). reflexivity.
    - destruct (tag_eqb tag_leb k t) eqn:E.
      + apply tag_eqb_eq in E. subst k. exfalso. apply Hn.
        change t with (fst (t, v)). apply in_map, Hin.
      + apply IH; assumption.
  Qed.

  (* the sorted tag list is a function of the map, not of its enumeration *)
  Lemma sorted_tags_canonical sl :
    isort tag_leb (map fst (iter1 sl)) = isort tag_leb (map fst sl).
  Proof.
    apply isort_perm_eq; try assumption. apply Permutation_map, iter1_perm.
  Qed.

  Definition the_tags (sl : list (tag * option features)) : list tag := isort tag_leb (map fst sl).

  (* what `choose` returns: the entry of the tag the matcher points at *)
  Lemma choose_spec sl l : NoDup (map fst sl) ->
    match choose tag_leb matcher iter1 true sl l with
    | Ok c => exists t, nth_error (the_tags sl) (matcher l (the_tags sl)) = Some t /\
                        exists v, In (t, v) sl /\ c = v
    | Panic => (length sl <= matcher l (the_tags sl))%nat
    | _ => False
    end.
  Proof.
    intros Hd. unfold choose. cbv zeta. rewrite sorted_tags_canonical. fold (the_tags sl).
    destruct (nth_error (the_tags sl) (matcher l (the_tags sl))) as [t|] eqn:E.
    - assert (In t (map fst sl)) as Hin.
      { apply nth_error_In in E. unfold the_tags in E.
        apply (proj1 (isort_in tag_leb t (map fst sl))) in E. exact E. }
      apply in_map_iff in Hin. destruct Hin as ([t' v] & Ht & Hin). cbn [fst] in Ht. subst t'.
      rewrite (sl_get_in sl t v Hd Hin).
      destruct v as [fs|]; (exists t; split; [reflexivity|]; eexists; split; [exact Hin|reflexivity]).
    - apply nth_error_None in E. unfold the_tags in E.
      rewrite isort_length, map_length in E. exact E.
  Qed.

  (* find_lookups_wf: for every matcher, the outcome is either a panic caused
     by a matcher index beyond the tag list (outside x/text's contract), or a
     strictly ascending list of in-range indices which is exactly the
     selection of the language system the matcher pointed at *)
  Theorem find_lookups_wf_gen sl fl nl l sw : NoDup (map fst sl) ->
    match M_find_lookups tag_leb matcher iter1 iter2 sl fl nl l sw with
    | Ok ll =>
        StronglySorted N.lt ll /\ Forall (fun x => x < nl) ll /\
        ((sl = [] /\ ll = []) \/
         exists t v, nth_error (the_tags sl) (matcher l (the_tags sl)) = Some t /\ In (t, v) sl /\
           match v with
           | None => ll = []
           | Some fs => forall x, In x ll <-> x < u16 nl /\ wanted fl sw fs x
           end)
    | Panic => sl <> [] /\ (length sl <= matcher l (the_tags sl))%nat
    | _ => False
    end.
  Proof.
    intros Hd. unfold M_find_lookups, find_lookups_gen.
    destruct sl as [|e sl'] eqn:Hsl.
    - split; [constructor|]. split; [constructor|]. left. auto.
    - rewrite <- Hsl in *. pose proof (choose_spec sl l Hd) as Hc.
      destruct (choose tag_leb matcher iter1 true sl l) as [c| | |]; cbn [obind]; try contradiction.
      + destruct Hc as (t & Hnth & v & Hin & ->).
        destruct v as [fs|].
        * destruct (select_spec iter2 iter2_perm fl nl sw fs) as (ll & He & Hs & Hi).
          rewrite He. split; [exact Hs|]. split.
          -- rewrite Forall_forall. intros x Hx. apply Hi in Hx. pose proof (u16_le nl). lia.
          -- right. exists t, (Some fs). auto.
        * split; [constructor|]. split; [constructor|]. right. exists t, None. auto.
      + split; [rewrite Hsl; discriminate|exact Hc].
  Qed.

  (* a function of the chosen language system only *)
  Lemma find_lookups_chosen_only sl1 sl2 fl nl l sw :
    sl1 <> [] -> sl2 <> [] ->
    choose tag_leb matcher iter1 true sl1 l = choose tag_leb matcher iter1 true sl2 l ->
    M_find_lookups tag_leb matcher iter1 iter2 sl1 fl nl l sw =
    M_find_lookups tag_leb matcher iter1 iter2 sl2 fl nl l sw.
  Proof.
    intros H1 H2 Hc. unfold M_find_lookups, find_lookups_gen.
    destruct sl1; [contradiction|]. destruct sl2; [contradiction|]. rewrite Hc. reflexivity.
  Qed.

  (* the same on every call: neither of Go's two map enumerations matters *)
  Theorem find_lookups_deterministic_gen
          (iter1' : list (tag * option features) -> list (tag * option features))
          (iter2' : list N -> list N) sl fl nl l sw :
    (forall x, Permutation (iter1' x) x) -> (forall x, Permutation (iter2' x) x) ->
    M_find_lookups tag_leb matcher iter1 iter2 sl fl nl l sw =
    M_find_lookups tag_leb matcher iter1' iter2' sl fl nl l sw.
  Proof.
    intros Hp1 Hp2. unfold M_find_lookups, find_lookups_gen.
    destruct sl as [|e sl']; [reflexivity|].
    assert (choose tag_leb matcher iter1 true (e :: sl') l = choose tag_leb matcher iter1' true (e :: sl') l) as ->.
    { unfold choose. cbv zeta.
      rewrite (isort_perm_eq tag_leb leb_total leb_antisym leb_trans
                 (map fst (iter1 (e :: sl'))) (map fst (iter1' (e :: sl')))); [reflexivity|].
      apply Permutation_map. eapply Permutation_trans; [apply iter1_perm|apply Permutation_sym, Hp1]. }
    destruct (choose tag_leb matcher iter1' true (e :: sl') l) as [[fs|]| | |]; cbn [obind]; try reflexivity.
    apply select_order_independent; assumption.
  Qed.
End Find.

(* ------------------------------------------------------------------ *)
(* before the repair: with the tags in enumeration order the result depends
   on that order (two language systems, a language matching neither: the
   matcher falls back to index 0) *)

Definition refute_sl : list (list N * option features) :=
  [([100; 101], Some (mkFeatures 0 [])); ([102; 114], Some (mkFeatures 1 []))].
Definition refute_fl : list feature := [mkFeature 1 [0]; mkFeature 2 [1]].

Lemma find_lookups_unsorted_depends_on_order :
  M_find_lookups_unsorted lex_leb (fun (_ : unit) _ => O) (fun x => x) (fun x => x)
      refute_sl refute_fl 2 tt [] = Ok [0] /\
  M_find_lookups_unsorted lex_leb (fun (_ : unit) _ => O) (@rev _) (fun x => x)
      refute_sl refute_fl 2 tt [] = Ok [1].
Proof. split; vm_compute; reflexivity. Qed.

(* ------------------------------------------------------------------ *)
(* NewLayouter: nil switch map = the default feature set               *)

Lemma layouter_nil_defaults {tag lang : Type} (leb : tag -> tag -> bool) (matcher : lang -> list tag -> nat)
      iter1 iter2 (defaults : switches) (t : option (gtab tag)) (l : lang) :
  layouter_lookups leb matcher iter1 iter2 defaults t l None =
  layouter_lookups leb matcher iter1 iter2 defaults t l (Some defaults).
Proof. reflexivity. Qed.

(* with fewer than 65536 features (all a font file can hold) the 16-bit
   count is exact and `wanted` reads: lookups of the required feature, and of
   the optional features that are switched on *)
Lemma wanted_plain fl sw fs l : N.of_nat (length fl) < 65536 ->
  (wanted fl sw fs l <->
   (exists ft, nth_error fl (N.to_nat (fs_required fs)) = Some ft /\ In l (ft_lookups ft)) \/
   (exists f ft, In f (fs_optional fs) /\ nth_error fl (N.to_nat f) = Some ft /\
                 sw_get sw (ft_tag ft) = true /\ In l (ft_lookups ft))).
Proof.
  intros Hlen. unfold wanted.
  assert (u16 (N.of_nat (length fl)) = N.of_nat (length fl)) as ->.
  { unfold u16. apply N.mod_small. lia. }
  assert (forall i ft, nth_error fl (N.to_nat i) = Some ft -> i < N.of_nat (length fl)) as Hr.
  { intros i ft H. assert (nth_error fl (N.to_nat i) <> None) as H' by congruence.
    apply nth_error_Some in H'. lia. }
  split.
  - intros [[_ H]|(f & ft & Hf & _ & R)]; [left; exact H|right; exists f, ft; tauto].
  - intros [(ft & Hn & Hl)|(f & ft & Hf & Hn & R)].
    + left. split; [eapply Hr; exact Hn|exists ft; auto].
    + right. exists f, ft. split; [exact Hf|]. split; [eapply Hr; exact Hn|tauto].
Qed.
