(* C15/Proofs_kern.v — kern.Read: totality, and the accumulated map is the
   table read pair by pair. *)
From Coq Require Import List NArith ZArith Bool Arith Lia Permutation Sorted.
From Common Require Import Bytes Outcome.
From C15 Require Import Model Util.
Import ListNotations.
Local Open Scope N_scope.

Definition no_crash {A} (o : outcome A) : Prop :=
  match o with Panic | OutOfFuel => False | _ => True end.

(* ------------------------------------------------------------------ *)
(* totality                                                            *)

Lemma read_pairs_length mn ov n : forall l es,
  read_pairs mn ov n l = Some es -> length es = n /\ (6 * n <= length l)%nat.
Proof.
  induction n as [|n IH]; intros l es H; cbn [read_pairs] in H.
  - inversion H. cbn. lia.
  - destruct l as [|b0 [|b1 [|b2 [|b3 [|b4 [|b5 r]]]]]]; try discriminate.
    destruct (read_pairs mn ov n r) as [es'|] eqn:E; [|discriminate].
    inversion H; subst. destruct (IH _ _ E) as [H1 H2]. cbn [length]. lia.
Qed.

Section Total.
  Variables minLen maskSel wanted maskMin maskOvr : N.

  Lemma kern_tables_no_crash n : forall b pos,
    no_crash (kern_tables minLen maskSel wanted maskMin maskOvr n b pos).
  Proof.
    induction n as [|n IH]; intros b pos; cbn [kern_tables]; [exact I|].
    destruct (skipn pos b) as [|h0 [|h1 [|h2 [|h3 [|h4 [|h5 rest]]]]]]; try exact I.
    destruct (_ <? minLen); [exact I|].
    destruct (negb _ || negb _ || negb _); [apply IH|].
    destruct rest as [|n0 [|n1 rest2]]; try exact I.
    cbv zeta. destruct (read_pairs _ _ _ _); [|exact I].
    match goal with |- context [kern_tables _ _ _ _ _ n b ?p] => specialize (IH b p) end.
    destruct (kern_tables _ _ _ _ _ n b _); try exact I; contradiction.
  Qed.

  Lemma kern_entries_no_crash version b :
    no_crash (kern_entries minLen maskSel wanted maskMin maskOvr version b).
  Proof.
    unfold kern_entries.
    destruct b as [|v0 [|v1 [|t0 [|t1 r]]]]; try exact I.
    destruct (negb _); [exact I|]. apply kern_tables_no_crash.
  Qed.

  (* the records that are read lie inside the data and, since the next
     subtable starts after the records of the previous one, they do not
     overlap: six bytes of input per record *)
  Lemma kern_tables_bound n : forall b pos es,
    kern_tables minLen maskSel wanted maskMin maskOvr n b pos = Ok es ->
    (6 * length es <= length b - pos)%nat.
  Proof.
    induction n as [|n IH]; intros b pos es; cbn [kern_tables]; intros H.
    - inversion H. cbn. lia.
    - destruct (skipn pos b) as [|h0 [|h1 [|h2 [|h3 [|h4 [|h5 rest]]]]]] eqn:Esk; try discriminate.
      destruct (_ <? minLen); [discriminate|].
      destruct (negb _ || negb _ || negb _).
      + apply IH in H. lia.
      + destruct rest as [|n0 [|n1 rest2]]; try discriminate.
        cbv zeta in H.
        destruct (read_pairs _ _ _ _) as [es1|] eqn:Erp; [|discriminate].
        match type of H with context [kern_tables _ _ _ _ _ n b ?p] =>
          destruct (kern_tables minLen maskSel wanted maskMin maskOvr n b p) as [more| | |] eqn:Ek;
          try discriminate; set (p' := p) in * end.
        inversion H; subst. apply IH in Ek. apply read_pairs_length in Erp.
        destruct Erp as [Hl Hb]. rewrite app_length.
        assert (length (skipn pos b) = length b - pos)%nat as Hsk by apply skipn_length.
        rewrite Esk in Hsk. cbn [length] in Hsk.
        assert (length (skipn 6 rest2) = length rest2 - 6)%nat as Hs6 by apply skipn_length.
        assert (pos + 14 + 6 * N.to_nat (n0 * 256 + n1) <= p')%nat as Hp'.
        { subst p'. destruct (Nat.ltb_spec (pos + N.to_nat (h2 * 256 + h3))
                                           (pos + 14 + 6 * N.to_nat (n0 * 256 + n1))); lia. }
        lia.
  Qed.
End Total.

(* ------------------------------------------------------------------ *)
(* the map                                                             *)

Lemma kmap_get_set_same m k v : kmap_get (kmap_set m k v) k = Some v.
Proof.
  induction m as [|[k' v'] r IH]; cbn [kmap_set kmap_get].
  - rewrite N.eqb_refl. reflexivity.
  - destruct (N.ltb_spec k k').
    + cbn [kmap_get]. rewrite N.eqb_refl. reflexivity.
    + destruct (N.eqb_spec k k').
      * cbn [kmap_get]. rewrite N.eqb_refl. reflexivity.
      * cbn [kmap_get]. destruct (N.eqb_spec k' k); [congruence|]. exact IH.
Qed.

Lemma kmap_get_set_other m k v k2 : k2 <> k -> kmap_get (kmap_set m k v) k2 = kmap_get m k2.
Proof.
  intros Hne. induction m as [|[k' v'] r IH]; cbn [kmap_set kmap_get].
  - destruct (N.eqb_spec k k2); [congruence|reflexivity].
  - destruct (N.ltb_spec k k').
    + cbn [kmap_get]. destruct (N.eqb_spec k k2); [congruence|reflexivity].
    + destruct (N.eqb_spec k k').
      * subst k'. cbn [kmap_get]. destruct (N.eqb_spec k k2); [congruence|reflexivity].
      * cbn [kmap_get]. destruct (N.eqb_spec k' k2); [reflexivity|exact IH].
Qed.

Definition kmap_sorted (m : kmap) : Prop := StronglySorted N.lt (map fst m).

Lemma kmap_set_keys m k v x : In x (map fst (kmap_set m k v)) -> x = k \/ In x (map fst m).
Proof.
  induction m as [|[k' v'] r IH]; cbn [kmap_set map fst In].
  - intuition.
  - destruct (N.ltb_spec k k'); [cbn [map fst In]; intuition|].
    destruct (N.eqb_spec k k'); cbn [map fst In]; intuition.
Qed.

Lemma kmap_set_sorted m k v : kmap_sorted m -> kmap_sorted (kmap_set m k v).
Proof.
  unfold kmap_sorted. induction m as [|[k' v'] r IH]; cbn [kmap_set map fst]; intros Hs.
  - constructor; constructor.
  - inversion Hs as [|? ? Hs' Hall]; subst.
    destruct (N.ltb_spec k k').
    + cbn [map fst]. constructor; [exact Hs|]. constructor; [exact H|].
      rewrite Forall_forall in *. intros x Hx. specialize (Hall x Hx). lia.
    + destruct (N.eqb_spec k k').
      * subst. cbn [map fst]. constructor; assumption.
      * cbn [map fst]. constructor; [apply IH, Hs'|].
        rewrite Forall_forall in *. intros x Hx. apply kmap_set_keys in Hx.
        destruct Hx as [->|Hx]; [lia|apply Hall, Hx].
Qed.

Lemma kern_step_sorted m e : kmap_sorted m -> kmap_sorted (kern_step m e).
Proof.
  intros Hs. unfold kern_step. destruct e as [[[[mn ov] l] r] v].
  destruct (kern_rule _ _ _ _); [apply kmap_set_sorted, Hs|exact Hs].
Qed.

Lemma kern_acc_sorted es : kmap_sorted (kern_acc es).
Proof.
  unfold kern_acc. assert (kmap_sorted []) as H by constructor.
  revert H. generalize (@nil (N * Z)). induction es as [|e es IH]; intros m Hm; cbn [fold_left].
  - exact Hm.
  - apply IH, kern_step_sorted, Hm.
Qed.

(* kern_read_lookup: what the map holds for a pair is what one gets by
   reading the table for that pair alone *)
Lemma kern_acc_get_gen es k : forall m,
  kmap_get (fold_left kern_step es m) k =
  fold_left (fun acc e => if ke_key e =? k
                          then (let '(mn, ov, _, _, v) := e in kern_rule mn ov acc v)
                          else acc) es (kmap_get m k).
Proof.
  induction es as [|e es IH]; intros m; cbn [fold_left]; [reflexivity|].
  rewrite IH. f_equal.
  unfold kern_step. destruct e as [[[[mn ov] l] r] v]. cbv zeta.
  set (k' := ke_key (mn, ov, l, r, v)).
  destruct (N.eqb_spec k' k) as [He|Hne].
  - subst k. destruct (kern_rule mn ov (kmap_get m k') v) eqn:E.
    + apply kmap_get_set_same.
    + (* the rule returns None only when the key is absent and stays absent *)
      unfold kern_rule in E. destruct mn; [|destruct ov; discriminate].
      destruct (kmap_get m k'); [destruct (_ <? _)%Z; discriminate|].
      reflexivity.
  - destruct (kern_rule mn ov (kmap_get m k') v); [|reflexivity].
    apply kmap_get_set_other. congruence.
Qed.

Lemma kern_acc_get es k : kmap_get (kern_acc es) k = S_pair_value es k.
Proof. unfold kern_acc, S_pair_value. rewrite kern_acc_get_gen. reflexivity. Qed.

(* ------------------------------------------------------------------ *)
(* closed forms of S_pair_value                                        *)

Lemma wrapi16_id z : (-32768 <= z < 32768)%Z -> wrapi16 z = z.
Proof. intros H. unfold wrapi16. apply to_i16_of_i16, H. Qed.

(* records of other pairs do not matter *)
Lemma S_pair_value_filter es k :
  S_pair_value es k = S_pair_value (filter (fun e => ke_key e =? k) es) k.
Proof.
  unfold S_pair_value. generalize (@None Z).
  induction es as [|e es IH]; intros acc; cbn [filter fold_left]; [reflexivity|].
  destruct (ke_key e =? k) eqn:E; cbn [fold_left]; rewrite ?E; apply IH.
Qed.

(* plain subtables (neither minimum nor override) accumulate: the value is
   the sum of the pair's records, as long as no partial sum leaves int16 *)
Fixpoint sums_fit (acc : Z) (vs : list Z) : Prop :=
  match vs with
  | [] => True
  | v :: r => (-32768 <= acc + v < 32768)%Z /\ sums_fit (acc + v) r
  end.

Definition ke_val (e : kentry) : Z := let '(_, _, _, _, v) := e in v.
Definition ke_plain (e : kentry) : bool := let '(mn, ov, _, _, _) := e in negb mn && negb ov.

Lemma S_pair_value_sum_gen es k : forall acc,
  (forall e, In e es -> ke_key e = k -> ke_plain e = true) ->
  let vs := map ke_val (filter (fun e => ke_key e =? k) es) in
  sums_fit (match acc with Some c => c | None => 0%Z end) vs ->
  fold_left (fun acc e => if ke_key e =? k
                          then (let '(mn, ov, _, _, v) := e in kern_rule mn ov acc v)
                          else acc) es acc =
  match vs with
  | [] => acc
  | _ => Some (fold_left Z.add vs (match acc with Some c => c | None => 0%Z end))
  end.
Proof.
  induction es as [|e es IH]; intros acc Hpl; cbn [filter map fold_left]; [reflexivity|].
  destruct (ke_key e =? k) eqn:E; cbn [map fold_left].
  - intros [Hfit Hrest].
    assert (ke_plain e = true) as Hp by (apply Hpl; [left; reflexivity|apply N.eqb_eq, E]).
    destruct e as [[[[mn ov] l] r] v]. cbn [ke_plain ke_val] in *.
    apply andb_true_iff in Hp. destruct Hp as [Hm Ho].
    apply negb_true_iff in Hm, Ho. subst mn ov.
    unfold kern_rule. rewrite wrapi16_id by exact Hfit.
    rewrite IH; [| intros e' He' Hk; apply Hpl; [right; exact He'|exact Hk] | exact Hrest].
    destruct (map ke_val (filter (fun e0 => ke_key e0 =? k) es)); reflexivity.
  - intros Hfit. apply IH; [|exact Hfit].
    intros e' He' Hk; apply Hpl; [right; exact He'|exact Hk].
Qed.

Lemma S_pair_value_sum es k :
  (forall e, In e es -> ke_key e = k -> ke_plain e = true) ->
  let vs := map ke_val (filter (fun e => ke_key e =? k) es) in
  sums_fit 0 vs ->
  S_pair_value es k = match vs with [] => None | _ => Some (fold_left Z.add vs 0%Z) end.
Proof. intros Hp vs Hf. exact (S_pair_value_sum_gen es k None Hp Hf). Qed.

(* an override record fixes the value whatever came before *)
Lemma S_pair_value_override es1 es2 l r v :
  S_pair_value (es1 ++ (false, true, l, r, v) :: es2) (l * 65536 + r) =
  fold_left (fun acc e => if ke_key e =? l * 65536 + r
                          then (let '(mn, ov, _, _, v) := e in kern_rule mn ov acc v)
                          else acc) es2 (Some v).
Proof.
  unfold S_pair_value. rewrite fold_left_app. cbn [fold_left ke_key].
  rewrite N.eqb_refl. reflexivity.
Qed.

(* a minimum record bounds the value from below *)
Lemma kern_rule_min cur v : kern_rule true false cur v =
  if ((match cur with Some c => c | None => 0 end) <? v)%Z then Some v else cur.
Proof. reflexivity. Qed.

(* the map never has more keys than records were read *)
Lemma kmap_set_length m k v : (length (kmap_set m k v) <= S (length m))%nat.
Proof.
  induction m as [|[k' v'] r IH]; cbn [kmap_set length]; [lia|].
  destruct (k <? k'); [cbn [length]; lia|]. destruct (k =? k'); cbn [length]; lia.
Qed.

Lemma kern_acc_length es : (length (kern_acc es) <= length es)%nat.
Proof.
  unfold kern_acc. assert (forall m, length (fold_left kern_step es m) <= length m + length es)%nat as H.
  { induction es as [|e es IH]; intros m; cbn [fold_left length]; [lia|].
    specialize (IH (kern_step m e)).
    assert (length (kern_step m e) <= S (length m))%nat.
    { unfold kern_step. destruct e as [[[[mn ov] l] r] v].
      destruct (kern_rule _ _ _ _); [apply kmap_set_length|lia]. }
    lia. }
  specialize (H []). cbn [length] in H. lia.
Qed.
