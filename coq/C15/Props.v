(* C15/Props.v — the property theorems, nothing else.  Proofs are in
   Proofs_props.v (against the constants regenerated from the Go source on
   this run: default feature sets, the standard ligature list, kern flag
   masks).  Language tags are the bytes of Tag.String() in Go's string order
   (lex_leb); every statement holds for every x/text matcher (any function
   from the requested language and the tag list to an index) and for every
   enumeration order of Go's maps (iter1: `range info.ScriptList`, iter2:
   `range includeLookup`). *)
From Coq Require Import List NArith ZArith Bool Arith Lia Permutation Sorted.
From Common Require Import Bytes Outcome.
From Gen Require Import C15.
From C15 Require Import Model Entry Spec Util Proofs_find Proofs_kern Proofs_kernfmt Proofs_layout Proofs_liga Proofs_props.
Import ListNotations.
Local Open Scope N_scope.

(* FindLookups (repaired code), for EVERY matcher answer and every map
   enumeration order: either the matcher pointed beyond the tag list (then
   Go panics; x/text never does that) or the result is strictly ascending
   (hence duplicate-free), in range, and exactly the selection (required
   feature + switched-on optional features) of the language system the
   matcher pointed at in the sorted tag list. *)
Theorem find_lookups_wf :
  forall (lang : Type) (matcher : lang -> list tagT -> nat)
         (iter1 : list (tagT * option features) -> list (tagT * option features))
         (iter2 : list N -> list N),
    (forall x, Permutation (iter1 x) x) -> (forall x, Permutation (iter2 x) x) ->
  forall sl fl nl (l : lang) sw, NoDup (map fst sl) ->
    match M_find_lookups lex_leb matcher iter1 iter2 sl fl nl l sw with
    | Ok ll =>
        StronglySorted N.lt ll /\ Forall (fun x => x < nl) ll /\
        ((sl = [] /\ ll = []) \/
         exists t v, nth_error (tags_of sl) (matcher l (tags_of sl)) = Some t /\ In (t, v) sl /\
           match v with
           | None => ll = []
           | Some fs => forall x, In x ll <-> x < u16 nl /\ wanted fl sw fs x
           end)
    | Panic => sl <> [] /\ (length sl <= matcher l (tags_of sl))%nat
    | _ => False
    end.
Proof. exact find_lookups_wf_pf. Qed.
Print Assumptions find_lookups_wf.

(* `wanted`, for feature lists a font file can hold (< 65536 entries): a
   lookup is wanted iff it belongs to the required feature, or to an optional
   feature of the language system whose tag is switched on.  So all lookups of
   the required feature are included, an optional feature's lookups are
   included when it is on, and a feature that is off contributes nothing. *)
Theorem selection_rule : forall fl sw fs l, N.of_nat (length fl) < 65536 ->
  (wanted fl sw fs l <->
   (exists ft, nth_error fl (N.to_nat (fs_required fs)) = Some ft /\ In l (ft_lookups ft)) \/
   (exists f ft, In f (fs_optional fs) /\ nth_error fl (N.to_nat f) = Some ft /\
                 sw_get sw (ft_tag ft) = true /\ In l (ft_lookups ft))).
Proof. exact selection_rule_pf. Qed.
Print Assumptions selection_rule.

(* The same on every call: the result does not depend on the order in which
   Go enumerates info.ScriptList or the set of selected lookups. *)
Theorem find_lookups_deterministic :
  forall (lang : Type) (matcher : lang -> list tagT -> nat) iter1 iter2 iter1' iter2',
    (forall x, Permutation (iter1 x) x) -> (forall x, Permutation (iter2 x) x) ->
    (forall x, Permutation (iter1' x) x) -> (forall x, Permutation (iter2' x) x) ->
  forall sl fl nl (l : lang) sw,
    M_find_lookups lex_leb matcher iter1 iter2 sl fl nl l sw =
    M_find_lookups lex_leb matcher iter1' iter2' sl fl nl l sw.
Proof. exact find_lookups_deterministic_pf. Qed.
Print Assumptions find_lookups_deterministic.

(* Before fixes/C15-findlookups-order.diff (tags in map enumeration order):
   two enumerations of the same two-entry script list give different lookups. *)
Theorem find_lookups_unsorted_refuted :
  exists (sl : list (tagT * option features)) fl nl sw
         (iter1 iter1' : list (tagT * option features) -> list (tagT * option features)),
    (forall x, Permutation (iter1 x) x) /\ (forall x, Permutation (iter1' x) x) /\
    M_find_lookups_unsorted lex_leb (fun (_ : unit) _ => O) iter1 (fun x => x) sl fl nl tt sw <>
    M_find_lookups_unsorted lex_leb (fun (_ : unit) _ => O) iter1' (fun x => x) sl fl nl tt sw.
Proof. exact find_lookups_unsorted_refuted_pf. Qed.
Print Assumptions find_lookups_unsorted_refuted.

(* A function of the chosen language system only. *)
Theorem find_lookups_chosen_system_only :
  forall (lang : Type) (matcher : lang -> list tagT -> nat) iter1 iter2 sl1 sl2 fl nl (l : lang) sw,
    sl1 <> [] -> sl2 <> [] ->
    choose lex_leb matcher iter1 true sl1 l = choose lex_leb matcher iter1 true sl2 l ->
    M_find_lookups lex_leb matcher iter1 iter2 sl1 fl nl l sw =
    M_find_lookups lex_leb matcher iter1 iter2 sl2 fl nl l sw.
Proof. exact find_lookups_chosen_system_only_pf. Qed.
Print Assumptions find_lookups_chosen_system_only.

(* NewLayouter: a nil switch map means the default feature sets extracted
   from featurelist.go on this run. *)
Theorem layouter_nil_means_defaults :
  forall (lang : Type) (matcher : lang -> list tagT -> nat) iter1 iter2 (t : option (gtab tagT)) (l : lang),
    layouter_lookups lex_leb matcher iter1 iter2 gtab_GsubDefaultFeatures t l None =
    layouter_lookups lex_leb matcher iter1 iter2 gtab_GsubDefaultFeatures t l (Some gtab_GsubDefaultFeatures) /\
    layouter_lookups lex_leb matcher iter1 iter2 gtab_GposDefaultFeatures t l None =
    layouter_lookups lex_leb matcher iter1 iter2 gtab_GposDefaultFeatures t l (Some gtab_GposDefaultFeatures).
Proof. exact layouter_nil_means_defaults_pf. Qed.
Print Assumptions layouter_nil_means_defaults.

(* ================================================================== *)
(* kern.Read never panics and terminates on any byte string (for C02); every
   record it processes costs six bytes of input of its own (subtables do not
   overlap, fixes/C02-kern-overlapping-subtables.diff), so the work and the
   size of the map are linear in the input. *)
Theorem kern_read_total : forall b,
  run_kern_read b <> Panic /\ run_kern_read b <> OutOfFuel /\
  (forall km, run_kern_read b = Ok km ->
     (6 * length km <= length b)%nat).
Proof. exact kern_read_total_pf. Qed.
Print Assumptions kern_read_total.

(* the number of records processed is linear in the input: six bytes each *)
Theorem kern_records_linear : forall b es, kern_records b = Ok es -> (6 * length es <= length b)%nat.
Proof. exact kern_records_linear_pf. Qed.
Print Assumptions kern_records_linear.

(* What kern.Read stores for a pair is the table read for that pair alone:
   the records of the pair in file order, minimum subtables bounding the value
   from below, override subtables replacing it, the others accumulating
   (int16).  The map's keys are distinct (strictly ascending). *)
Theorem kern_read_lookup : forall b km,
  run_kern_read b = Ok km ->
  exists es, kern_records b = Ok es /\ kmap_sorted km /\
             forall k, kmap_get km k = S_pair_value es k.
Proof. exact kern_read_lookup_pf. Qed.
Print Assumptions kern_read_lookup.

(* The reader against the file format: on the bytes of any well-formed
   version-0 kern table (S_kern_bytes, written from the OpenType specification:
   header, then per subtable version, length, format, coverage flags and for
   format 0 nPairs, three search fields and the 6-byte records; any other
   subtable skipped by its length) the record stream is exactly the records of
   the selected format-0 subtables, in file order, tagged with their minimum /
   override bits. *)
Theorem kern_reads_file_format : forall subs,
  N.of_nat (length subs) < 65536 -> Forall ksub_ok subs ->
  kern_records (S_kern_bytes subs) = Ok (flat_map selected_records subs).
Proof. exact kern_reads_file_format_pf. Qed.
Print Assumptions kern_reads_file_format.

(* the coverage bits as the regenerated masks read them: a subtable is used
   iff horizontal (bit 0) is set and cross-stream (bit 2) and the reserved bits
   4-7 are clear; bit 1 = minimum, bit 3 = override *)
Theorem kern_flag_reading : forall flags, flags < 256 ->
  (N.land flags k_maskSel =? kern_flagsWanted) =
    (N.testbit flags 0 && negb (N.testbit flags 2) && (flags <? 16)) /\
  negb (N.land flags k_maskMin =? 0) = N.testbit flags 1 /\
  negb (N.land flags k_maskOvr =? 0) = N.testbit flags 3.
Proof. exact kern_flag_reading_pf. Qed.
Print Assumptions kern_flag_reading.

(* sum / max / override as the coverage bits say *)
Theorem kern_value_sum : forall es k,
  (forall e, In e es -> ke_key e = k -> ke_plain e = true) ->
  let vs := map ke_val (filter (fun e => ke_key e =? k) es) in
  sums_fit 0 vs ->
  S_pair_value es k = match vs with [] => None | _ => Some (fold_left Z.add vs 0%Z) end.
Proof. exact kern_value_sum_pf. Qed.
Print Assumptions kern_value_sum.

Theorem kern_value_override : forall es1 es2 l r v,
  (forall e, In e es2 -> ke_key e <> l * 65536 + r) ->
  S_pair_value (es1 ++ (false, true, l, r, v) :: es2) (l * 65536 + r) = Some v.
Proof. exact kern_value_override_pf. Qed.
Print Assumptions kern_value_override.

Theorem kern_value_minimum : forall es l r v,
  S_pair_value (es ++ [(true, false, l, r, v)]) (l * 65536 + r) =
  let cur := S_pair_value es (l * 65536 + r) in
  if ((match cur with Some c => c | None => 0 end) <? v)%Z then Some v else cur.
Proof. exact kern_value_minimum_pf. Qed.
Print Assumptions kern_value_minimum.

Theorem kern_overflow_refuted :
  run_kern_read overflow_table = Ok [(65538, (-5536)%Z)] /\
  (exists es, kern_records overflow_table = Ok es /\
     fold_left Z.add (map ke_val (filter (fun e => ke_key e =? 65538) es)) 0%Z = 60000%Z).
Proof. exact kern_overflow_refuted_pf. Qed.
Print Assumptions kern_overflow_refuted.

(* ================================================================== *)
(* what "one glyph per character carrying that character and the font's
   advance width" means.  The width loop of Layout as repaired by
   fixes/C07-layout-gid-beyond-font.diff: a glyph id the font does not have
   (>= NumGlyphs; the cmap or a substitution can produce one) gets no width,
   its advance stays 0. *)
Theorem identity_one_glyph_per_character : forall cm o gdef s,
  length (S_identity cm o gdef s) = length s /\
  forall i r, nth_error s i = Some r ->
    exists g, nth_error (S_identity cm o gdef s) i = Some g /\
      g_gid g = cmap_lookup cm r /\ g_text g = [r] /\ g_xoff g = 0%Z /\ g_yoff g = 0%Z /\
      (num_glyphs o <= cmap_lookup cm r -> g_adv g = 0%Z) /\
      (is_mark gdef (cmap_lookup cm r) = true -> g_adv g = 0%Z) /\
      (cmap_lookup cm r < num_glyphs o -> is_mark gdef (cmap_lookup cm r) = false ->
         forall w, glyph_width o (cmap_lookup cm r) = Ok w -> g_adv g = w).
Proof. exact identity_one_glyph_per_character_pf. Qed.
Print Assumptions identity_one_glyph_per_character.

(* With no applicable rule (every selected lookup leaves the sequence alone)
   Layout returns exactly that.  glyphs_exist: no character maps to a glyph
   below NumGlyphs that lacks an entry in the width slice - the only way the
   width loop can still panic; it holds for EVERY cmap and string when the
   outlines carry one width per glyph (glyphs_exist_consistent), which is
   what sfnt.Read delivers. *)
Theorem layout_no_rule_identity :
  forall (lang : Type) (matcher : lang -> list tagT -> nat) iter1 iter2
         (f : font tagT) (l : lang) gsw psw s gs gp,
    layouter_lookups lex_leb matcher iter1 iter2 gtab_GsubDefaultFeatures (f_gsub f) l gsw = Ok gs ->
    layouter_lookups lex_leb matcher iter1 iter2 gtab_GposDefaultFeatures (f_gpos f) l psw = Ok gp ->
    inert_table (f_gsub f) gs (seq0 (f_cmap f) s) ->
    inert_table (f_gpos f) gp (S_identity (f_cmap f) (f_outlines f) (f_gdef f) s) ->
    (glyphs_exist (f_cmap f) (f_outlines f) (f_gdef f) s ->
       layout matcher iter1 iter2 f l gsw psw s = Ok (S_identity (f_cmap f) (f_outlines f) (f_gdef f) s)) /\
    (~ glyphs_exist (f_cmap f) (f_outlines f) (f_gdef f) s ->
       layout matcher iter1 iter2 f l gsw psw s = Panic).
Proof. exact layout_no_rule_identity_pf. Qed.
Print Assumptions layout_no_rule_identity.

(* one width per glyph: every glyph id has an advance, for every cmap, GDEF
   and string; then Layout returns for every selection (the only Panic left
   is a matcher answer beyond the tag list, in NewLayouter) *)
Theorem glyphs_exist_consistent : forall cm o gdef s,
  outlines_consistent o -> glyphs_exist cm o gdef s.
Proof. exact glyphs_exist_consistent_pf. Qed.
Print Assumptions glyphs_exist_consistent.

Theorem layout_never_panics_in_the_width_loop :
  forall (lang : Type) (matcher : lang -> list tagT -> nat) iter1 iter2
         (f : font tagT) (l : lang) gsw psw s gs gp,
    outlines_consistent (f_outlines f) ->
    layouter_lookups lex_leb matcher iter1 iter2 gtab_GsubDefaultFeatures (f_gsub f) l gsw = Ok gs ->
    layouter_lookups lex_leb matcher iter1 iter2 gtab_GposDefaultFeatures (f_gpos f) l psw = Ok gp ->
    exists out, layout matcher iter1 iter2 f l gsw psw s = Ok out /\
                flat_map g_text out = s /\ (length out <= length s)%nat.
Proof.
  intros lang matcher iter1 iter2 f l gsw psw s gs gp Hc E1 E2.
  destruct (layout_with_total f gs gp s Hc) as (out & Ho & R). exists out. split; [|exact R].
  unfold layout. eapply eq_trans; [apply M_layout_with; eassumption|exact Ho].
Qed.
Print Assumptions layout_never_panics_in_the_width_loop.

(* special case: a font without GSUB and GPOS *)
Theorem layout_no_tables_identity :
  forall (lang : Type) (matcher : lang -> list tagT -> nat) iter1 iter2
         cm o gdef (l : lang) gsw psw s,
    glyphs_exist cm o gdef s ->
    layout matcher iter1 iter2 (mkFont cm o gdef None None) l gsw psw s = Ok (S_identity cm o gdef s).
Proof. exact layout_no_tables_identity_pf. Qed.
Print Assumptions layout_no_tables_identity.

(* sufficient conditions for "no applicable rule", lookup by lookup *)
Theorem no_rule_conditions : forall seq,
  inert LNone seq /\
  (forall km, (forall i g1 g2, nth_error seq i = Some g1 -> nth_error seq (S i) = Some g2 ->
                               kmap_get km (g_gid g1 * 65536 + g_gid g2) = None) -> inert (LPair km) seq) /\
  (forall sets, (forall g, In g seq -> sets_get sets (g_gid g) = None) -> inert (LLiga sets) seq) /\
  (forall ll, inert_selection ll [] seq).
Proof. exact no_rule_conditions_pf. Qed.
Print Assumptions no_rule_conditions.

(* A font that carries only a kern table (no GSUB table and no standard
   ligatures, or monospaced; no GPOS table): for every language, every
   matcher answering inside the tag list, every switch map, every string
   whose characters have glyphs: one glyph per character, glyph i moved by
   exactly the kern table's value for (glyph i, glyph i+1), nothing else
   changed. *)
Theorem kern_exact :
  forall (lang : Type) (matcher : lang -> list tagT -> nat) iter1 iter2,
    (forall x, Permutation (iter1 x) x) -> (forall x, Permutation (iter2 x) x) ->
    (forall l, (matcher l [tag_undZzzz] < 1)%nat) ->
  forall cm o gdef fixedPitch b f (l : lang) gsw psw s,
    M_read_tables tag_undZzzz tag_undLatn sfnt_stdLigatures
      kern_version kern_minSubtableLength k_maskSel kern_flagsWanted k_maskMin k_maskOvr
      cm o gdef fixedPitch (Some b) = Ok f ->
    f_gsub f = None ->
    glyphs_exist cm o gdef s ->
    exists es out,
      kern_records b = Ok es /\
      layout matcher iter1 iter2 f l gsw psw s = Ok out /\
      length out = length s /\
      forall i r, nth_error s i = Some r ->
        nth_error out i =
        Some (S_kern_glyph (S_pair_value es) (S_identity_glyph cm o gdef r)
                (option_map (S_identity_glyph cm o gdef) (nth_error s (S i)))).
Proof. exact kern_exact_pf. Qed.
Print Assumptions kern_exact.

(* ================================================================== *)
(* The synthetic GSUB table holds exactly the ligatures of the regenerated
   list whose ligature character and components are all mapped: rule
   (glyph of 1st component; glyphs of the others) -> glyph of the ligature;
   coverage keys strictly ascending; one language system with liga as an
   optional feature (Required = 0xFFFF) and the single lookup 0.  No table
   when the font contains none of them. *)
Theorem standard_ligatures_def : forall cm,
  exists r, run_std_ligatures cm = Ok r /\
    match r with
    | None => forall lig, In lig sfnt_stdLigatures -> ~ lig_available cm lig
    | Some g =>
        gt_scripts g = [(tag_undLatn, Some (mkFeatures 65535 [0]))] /\
        gt_features g = [mkFeature tag_liga [0]] /\
        exists sets, gt_lookups g = [LLiga sets] /\ StronglySorted N.lt (map fst sets) /\
          forall first ins out, In (first, ins, out) (lig_rules sets) <->
            exists lig, In lig sfnt_stdLigatures /\ lig_available cm lig /\
                        map (cmap_lookup cm) lig = out :: first :: ins
    end.
Proof. exact standard_ligatures_def_pf. Qed.
Print Assumptions standard_ligatures_def.


(* The table lists, for every first glyph, longer ligatures before shorter
   ones (so "ffi" is tried before "ff" and "fi") - the order of the list in
   ligatures.go regenerated on this run. *)
Theorem standard_ligatures_longest_first : forall cm g sets first ligs,
  run_std_ligatures cm = Ok (Some g) -> gt_lookups g = [LLiga sets] -> In (first, ligs) sets ->
  StronglySorted (fun a b : ligature => (length (fst b) <= length (fst a))%nat) ligs.
Proof. exact standard_ligatures_longest_first_pf. Qed.
Print Assumptions standard_ligatures_longest_first.

(* The ligature pass: at a glyph covered by the table the first ligature of
   its set whose components equal the following glyphs replaces them by the
   ligature glyph, which carries the characters of all components; the scan
   continues after it.  The pass never runs out of fuel, conserves the text
   and never lengthens the sequence. *)
Theorem liga_first_match_wins : forall sets g rest ligs1 ins out ligs2 t tail fuel,
  sets_get sets (g_gid g) = Some (ligs1 ++ (ins, out) :: ligs2) ->
  (forall i o, In (i, o) ligs1 -> lig_match i rest = None) ->
  lig_match ins rest = Some (t, tail) ->
  liga_pass (S fuel) sets (g :: rest) =
  omap (cons (mkG out (g_text g ++ t) 0 0 0)) (liga_pass fuel sets tail).
Proof. exact liga_first_match_wins_pf. Qed.

Theorem liga_pass_total : forall sets seq,
  exists out, apply_lookup (LLiga sets) seq = Ok out /\ flat_map g_text out = flat_map g_text seq /\
              (length out <= length seq)%nat.
Proof. exact liga_pass_total_pf. Qed.
Print Assumptions liga_pass_total.

(* Layout as a whole (the modelled fragment): it returns or panics (matcher
   outside its contract, or a glyph the font does not have) - no other
   outcome, fuel never runs out; when it returns, the characters of the
   glyphs spell the input string and there are at most as many glyphs as
   characters. *)
Theorem layout_outcome :
  forall (lang : Type) (matcher : lang -> list tagT -> nat) iter1 iter2,
    (forall x, Permutation (iter1 x) x) -> (forall x, Permutation (iter2 x) x) ->
  forall (f : font tagT) (l : lang) gsw psw s,
    match f_gsub f with Some g => NoDup (map fst (gt_scripts g)) | None => True end ->
    match f_gpos f with Some g => NoDup (map fst (gt_scripts g)) | None => True end ->
    layout matcher iter1 iter2 f l gsw psw s = Panic \/
    exists out, layout matcher iter1 iter2 f l gsw psw s = Ok out /\
                flat_map g_text out = s /\ (length out <= length s)%nat.
Proof. exact layout_outcome_pf. Qed.
Print Assumptions layout_outcome.
