(* C15/Proofs_layout.v — the Layout pipeline: identity when no rule applies,
   exact kerning for fonts that carry only a kern table. *)
From Coq Require Import List NArith ZArith Bool Arith Lia Permutation Sorted.
From Common Require Import Bytes Outcome.
From C15 Require Import Model Spec Util Proofs_find Proofs_kern.
Import ListNotations.
Local Open Scope N_scope.

(* ------------------------------------------------------------------ *)
(* widths                                                              *)

Lemma glyph_width_cases o gid : (exists w, glyph_width o gid = Ok w) \/ glyph_width o gid = Panic.
Proof.
  unfold glyph_width. destruct o as [n [w|]|w]; try (left; eexists; reflexivity);
    destruct (nth_error w (N.to_nat gid)); eauto.
Qed.

Definition set_width_of (o : outlines) (gdef : option (list (N * N))) (g : ginfo) : ginfo :=
  if num_glyphs o <=? g_gid g then g
  else if is_mark gdef (g_gid g) then g
  else mkG (g_gid g) (g_text g) (g_xoff g) (g_yoff g)
           (match glyph_width o (g_gid g) with Ok w => w | _ => 0%Z end).

Lemma set_widths_ok o gdef seq :
  (forall g, In g seq -> S_advance o gdef (g_gid g) <> None) ->
  set_widths o gdef seq = Ok (map (set_width_of o gdef) seq).
Proof.
  induction seq as [|g rest IH]; intros Hex; cbn [set_widths map]; [reflexivity|].
  rewrite IH by (intros g' Hg'; apply Hex; right; exact Hg').
  unfold set_width_of. specialize (Hex g (or_introl eq_refl)). unfold S_advance in Hex.
  destruct (num_glyphs o <=? g_gid g); cbn [obind]; [reflexivity|].
  destruct (is_mark gdef (g_gid g)); cbn [obind]; [reflexivity|].
  destruct (glyph_width o (g_gid g)); cbn [obind]; try reflexivity; congruence.
Qed.

Lemma set_widths_panic o gdef seq :
  (exists g, In g seq /\ S_advance o gdef (g_gid g) = None) ->
  set_widths o gdef seq = Panic.
Proof.
  induction seq as [|g rest IH]; intros (g0 & Hin & Hn); [destruct Hin|].
  cbn [set_widths]. unfold S_advance in Hn.
  destruct (num_glyphs o <=? g_gid g) eqn:En; cbn [obind].
  { destruct Hin as [<-|Hin]; [rewrite En in Hn; discriminate|].
    rewrite IH by (exists g0; split; [exact Hin|unfold S_advance; exact Hn]). reflexivity. }
  destruct (is_mark gdef (g_gid g)) eqn:Em; cbn [obind].
  - destruct Hin as [<-|Hin]; [rewrite En, Em in Hn; discriminate|].
    rewrite IH by (exists g0; split; [exact Hin|unfold S_advance; exact Hn]). reflexivity.
  - destruct (glyph_width_cases o (g_gid g)) as [[w Hw]|Hp]; rewrite ?Hw, ?Hp; cbn [obind]; [|reflexivity].
    destruct Hin as [<-|Hin]; [rewrite En, Em, Hw in Hn; discriminate|].
    rewrite IH by (exists g0; split; [exact Hin|unfold S_advance; exact Hn]). reflexivity.
Qed.

(* ------------------------------------------------------------------ *)
(* lookups that do not apply                                           *)

Lemma apply_all_inert ll sel seq : inert_selection ll sel seq -> apply_all ll sel seq = Ok seq.
Proof.
  induction sel as [|i more IH]; intros Hi; cbn [apply_all]; [reflexivity|].
  assert (inert_selection ll more seq) as Hm.
  { intros j lk Hj Hn. apply (Hi j lk); [right; exact Hj|exact Hn]. }
  destruct (nth_error ll (N.to_nat i)) as [lk|] eqn:E; [|apply IH, Hm].
  rewrite (Hi i lk (or_introl eq_refl) E). cbn [obind]. apply IH, Hm.
Qed.

Lemma apply_table_inert {tag} (t : option (gtab tag)) sel seq :
  inert_table t sel seq -> apply_table t sel seq = Ok seq.
Proof.
  unfold inert_table, apply_table. destruct t as [g|]; [|reflexivity].
  destruct sel as [ls|]; [|reflexivity]. apply apply_all_inert.
Qed.

Lemma inert_none seq : inert LNone seq.
Proof. reflexivity. Qed.

(* a pair-adjustment lookup none of whose pairs occurs in the sequence *)
Lemma pair_pass_inert km seq :
  (forall i g1 g2, nth_error seq i = Some g1 -> nth_error seq (S i) = Some g2 ->
                   kmap_get km (g_gid g1 * 65536 + g_gid g2) = None) ->
  inert (LPair km) seq.
Proof.
  unfold inert. cbn [apply_lookup]. intros H. f_equal.
  induction seq as [|g1 rest IH]; cbn [pair_pass]; [reflexivity|].
  destruct rest as [|g2 rest']; [reflexivity|].
  rewrite (H O g1 g2 eq_refl eq_refl). f_equal. apply IH.
  intros i a b Ha Hb. apply (H (S i) a b); assumption.
Qed.

(* a ligature lookup whose coverage contains no glyph of the sequence *)
Lemma liga_pass_inert sets seq : forall fuel, (length seq <= fuel)%nat ->
  (forall g, In g seq -> sets_get sets (g_gid g) = None) ->
  liga_pass fuel sets seq = Ok seq.
Proof.
  induction seq as [|g rest IH]; intros fuel Hf Hn; [destruct fuel; reflexivity|].
  destruct fuel as [|fuel]; [cbn in Hf; lia|]. cbn [liga_pass].
  rewrite (Hn g (or_introl eq_refl)).
  rewrite IH; [reflexivity|cbn in Hf; lia|intros g' Hg'; apply Hn; right; exact Hg'].
Qed.

Lemma liga_inert sets seq :
  (forall g, In g seq -> sets_get sets (g_gid g) = None) -> inert (LLiga sets) seq.
Proof. intros H. unfold inert. cbn [apply_lookup]. apply liga_pass_inert; [lia|exact H]. Qed.

(* no lookups selected: nothing to apply *)
Lemma inert_selection_nil ll seq : inert_selection ll [] seq.
Proof. intros i lk []. Qed.

(* ------------------------------------------------------------------ *)
(* Layout = identity when no rule applies                              *)

Definition seq0 (cm : list (N * N)) (s : list N) : list ginfo :=
  map (fun r => mkG (cmap_lookup cm r) [r] 0 0 0) s.

Lemma set_width_of_seq0 cm o gdef s :
  map (set_width_of o gdef) (seq0 cm s) = S_identity cm o gdef s.
Proof.
  unfold seq0, S_identity. rewrite map_map. apply map_ext. intros r.
  unfold set_width_of, S_identity_glyph, S_advance. cbn [g_gid g_text g_xoff g_yoff g_adv].
  destruct (num_glyphs o <=? cmap_lookup cm r); [reflexivity|].
  destruct (is_mark gdef (cmap_lookup cm r)); [reflexivity|].
  destruct (glyph_width o (cmap_lookup cm r)); reflexivity.
Qed.

Lemma seq0_exist cm o gdef s :
  glyphs_exist cm o gdef s -> forall g, In g (seq0 cm s) -> S_advance o gdef (g_gid g) <> None.
Proof.
  intros He g Hg. unfold seq0 in Hg. apply in_map_iff in Hg. destruct Hg as (r & <- & Hr).
  cbn [g_gid]. apply He, Hr.
Qed.

Section LayoutId.
  Context {tag : Type}.

  Theorem layout_with_identity (f : font tag) gs gp s :
    glyphs_exist (f_cmap f) (f_outlines f) (f_gdef f) s ->
    inert_table (f_gsub f) gs (seq0 (f_cmap f) s) ->
    inert_table (f_gpos f) gp (S_identity (f_cmap f) (f_outlines f) (f_gdef f) s) ->
    layout_with f gs gp s = Ok (S_identity (f_cmap f) (f_outlines f) (f_gdef f) s).
  Proof.
    intros He Hs Hp. unfold layout_with. fold (seq0 (f_cmap f) s).
    rewrite (apply_table_inert _ _ _ Hs). cbn [obind].
    rewrite set_widths_ok by (apply seq0_exist, He).
    cbn [obind]. rewrite set_width_of_seq0. apply apply_table_inert, Hp.
  Qed.

  (* the only way Layout panics when no substitution applies: a character
     mapped to a glyph the font does not have *)
  Theorem layout_with_panic (f : font tag) gs gp s :
    ~ glyphs_exist (f_cmap f) (f_outlines f) (f_gdef f) s ->
    inert_table (f_gsub f) gs (seq0 (f_cmap f) s) ->
    layout_with f gs gp s = Panic.
  Proof.
    intros He Hs. unfold layout_with. fold (seq0 (f_cmap f) s).
    rewrite (apply_table_inert _ _ _ Hs). cbn [obind].
    rewrite set_widths_panic; [reflexivity|].
    (* a character without glyph exists: decide along the string *)
    assert (exists r, In r s /\ S_advance (f_outlines f) (f_gdef f) (cmap_lookup (f_cmap f) r) = None)
      as (r & Hr & Hn).
    { clear Hs. unfold glyphs_exist in He. induction s as [|r s IH].
      - exfalso. apply He. intros r [].
      - destruct (S_advance (f_outlines f) (f_gdef f) (cmap_lookup (f_cmap f) r)) eqn:E.
        + destruct IH as (r' & Hr' & Hn').
          * intros H. apply He. intros r' [<-|Hr']; [congruence|apply H, Hr'].
          * exists r'. split; [right; exact Hr'|exact Hn'].
        + exists r. split; [left; reflexivity|exact E]. }
    exists (mkG (cmap_lookup (f_cmap f) r) [r] 0 0 0). split; [|exact Hn].
    unfold seq0. apply in_map_iff. exists r. split; [reflexivity|exact Hr].
  Qed.
End LayoutId.

(* ------------------------------------------------------------------ *)
(* pair adjustment, glyph by glyph                                     *)

Lemma pair_pass_length km seq : length (pair_pass km seq) = length seq.
Proof.
  induction seq as [|g1 rest IH]; cbn [pair_pass]; [reflexivity|].
  destruct rest as [|g2 rest']; [reflexivity|]. cbn [length] in *. rewrite IH. reflexivity.
Qed.

Lemma pair_pass_nth km seq : forall i g,
  nth_error seq i = Some g ->
  nth_error (pair_pass km seq) i = Some (S_kern_glyph (kmap_get km) g (nth_error seq (S i))).
Proof.
  induction seq as [|g1 rest IH]; intros i g Hg; [destruct i; discriminate|].
  cbn [pair_pass]. destruct rest as [|g2 rest'].
  - destruct i as [|i]; [|destruct i; discriminate]. inversion Hg; subst. reflexivity.
  - destruct i as [|i].
    + inversion Hg; subst. cbn [nth_error]. unfold S_kern_glyph, add_adv.
      destruct (kmap_get km _); reflexivity.
    + cbn [nth_error] in *. apply IH, Hg.
Qed.

(* ------------------------------------------------------------------ *)
(* a font carrying only kern                                           *)

Lemma perm_singleton {A} (f : list A -> list A) (x : A) :
  (forall l, Permutation (f l) l) -> f [x] = [x].
Proof. intros H. apply Permutation_length_1_inv, Permutation_sym, H. Qed.

Section KernOnly.
  Context {tag lang : Type}.
  Variable tag_leb : tag -> tag -> bool.
  Variable matcher : lang -> list tag -> nat.
  Variable iter1 : list (tag * option features) -> list (tag * option features).
  Variable iter2 : list N -> list N.
  Hypothesis iter1_perm : forall l, Permutation (iter1 l) l.
  Hypothesis iter2_perm : forall l, Permutation (iter2 l) l.
  Variable undZzzz : tag.
  Hypothesis leb_refl_und : tag_leb undZzzz undZzzz = true.
  (* x/text answers with an index inside the tag list *)
  Hypothesis matcher_in_range : forall l, (matcher l [undZzzz] < 1)%nat.

  (* feature selection on the synthetic table: lookup 0, whatever the
     language and the switches (kern is the required feature) *)
  Lemma kern_gpos_lookups km l sw :
    M_find_lookups tag_leb matcher iter1 iter2 (gt_scripts (kern_to_gpos undZzzz km))
      (gt_features (kern_to_gpos undZzzz km)) (N.of_nat (length (gt_lookups (kern_to_gpos undZzzz km)))) l sw
    = Ok [0].
  Proof.
    cbn [kern_to_gpos gt_scripts gt_features gt_lookups length].
    unfold M_find_lookups, find_lookups_gen, choose. cbv zeta.
    rewrite (perm_singleton iter1 _ iter1_perm). cbn [map fst isort insert].
    pose proof (matcher_in_range l) as Hm.
    destruct (matcher l [undZzzz]) as [|n]; [|lia].
    cbn [nth_error sl_get]. unfold tag_eqb. rewrite leb_refl_und. cbn [andb obind].
    unfold M_select. cbn [fs_required fs_optional length fold_left].
    change (u16 (N.of_nat 1)) with 1. cbn [N.ltb N.compare N.to_nat nth_error obind ft_lookups].
    unfold set_add_all. cbn [fold_left]. unfold set_add. cbn [existsb app obind].
    rewrite (perm_singleton iter2 _ iter2_perm).
    reflexivity.
  Qed.

  Variables gsub_defaults gpos_defaults : switches.

  Theorem kern_layout (cm : list (N * N)) o gdef km (l : lang) gsw psw s :
    glyphs_exist cm o gdef s ->
    M_layout tag_leb matcher iter1 iter2 gsub_defaults gpos_defaults
             (mkFont cm o gdef None (Some (kern_to_gpos undZzzz km))) l gsw psw s
    = Ok (pair_pass km (S_identity cm o gdef s)).
  Proof.
    intros He. unfold M_layout. cbn [f_gsub f_gpos layouter_lookups obind].
    rewrite kern_gpos_lookups. cbn [obind].
    unfold layout_with. cbn [f_gsub f_gpos f_cmap f_outlines f_gdef apply_table obind].
    fold (seq0 cm s). rewrite set_widths_ok by (apply seq0_exist, He).
    cbn [obind]. rewrite set_width_of_seq0.
    cbn [kern_to_gpos gt_lookups apply_all N.to_nat nth_error apply_lookup obind]. reflexivity.
  Qed.
End KernOnly.

(* ------------------------------------------------------------------ *)
(* standard ligatures                                                  *)

Lemma sets_append_rules sets k lg x :
  In x (lig_rules (sets_append sets k lg)) <-> In x (lig_rules sets) \/ x = (k, fst lg, snd lg).
Proof.
  unfold lig_rules. induction sets as [|[k' v] r IH]; cbn [sets_append flat_map].
  - cbn. intuition.
  - destruct (N.ltb_spec k k').
    + cbn [flat_map map fst snd app In]. rewrite !in_app_iff. cbn [In]. intuition.
    + destruct (N.eqb_spec k k').
      * subst k'. cbn [flat_map fst snd]. rewrite !in_app_iff, map_app, in_app_iff. cbn [map In]. intuition.
      * cbn [flat_map fst snd]. rewrite !in_app_iff, IH. intuition.
Qed.

Lemma existsb_zero_spec (gg : list N) : existsb (N.eqb 0) gg = false <-> forall g, In g gg -> g <> 0.
Proof.
  split.
  - intros H g Hg ->. assert (existsb (N.eqb 0) gg = true); [|congruence].
    apply existsb_exists. exists 0. split; [exact Hg|reflexivity].
  - intros H. destruct (existsb (N.eqb 0) gg) eqn:E; [|reflexivity].
    apply existsb_exists in E. destruct E as (g & Hg & He). apply N.eqb_eq in He. subst.
    exfalso. apply (H 0 Hg). reflexivity.
Qed.

Lemma lig_available_spec cm lig :
  lig_available cm lig <-> existsb (N.eqb 0) (map (cmap_lookup cm) lig) = false.
Proof.
  rewrite existsb_zero_spec. unfold lig_available. split.
  - intros H g Hg. apply in_map_iff in Hg. destruct Hg as (r & <- & Hr). apply H, Hr.
  - intros H r Hr. apply H, in_map, Hr.
Qed.

(* every listed ligature has the ligature character and at least one component *)
Definition ligs_wellformed (all : list (list N)) : Prop :=
  forall lig, In lig all -> (2 <= length lig)%nat.

Lemma lig_fold_spec cm : forall all sets0, ligs_wellformed all ->
  exists sets,
    fold_left (fun acc lig => s <- acc ;; lig_step cm s lig) all (Ok sets0) = Ok sets /\
    forall x, In x (lig_rules sets) <->
      In x (lig_rules sets0) \/
      exists lig out first ins, In lig all /\ lig_available cm lig /\
        map (cmap_lookup cm) lig = out :: first :: ins /\ x = (first, ins, out).
Proof.
  induction all as [|lig all IH]; intros sets0 Hwf; cbn [fold_left].
  - exists sets0. split; [reflexivity|]. intros x. split; [auto|].
    intros [H|(lig & out & first & ins & [] & _)]. exact H.
  - cbn [obind]. unfold lig_step at 2.
    assert (ligs_wellformed all) as Hwf' by (intros l' Hl'; apply Hwf; right; exact Hl').
    destruct (existsb (N.eqb 0) (map (cmap_lookup cm) lig)) eqn:E.
    + destruct (IH sets0 Hwf') as (sets & He & Hin). exists sets. split; [exact He|].
      intros x. rewrite Hin. split.
      * intros [H|(l' & out & first & ins & Hl' & R)]; [auto|].
        right. exists l', out, first, ins. split; [right; exact Hl'|exact R].
      * intros [H|(l' & out & first & ins & [Hl'|Hl'] & Hav & R)]; [auto| |].
        -- subst l'. apply lig_available_spec in Hav. congruence.
        -- right. exists l', out, first, ins. auto.
    + pose proof (Hwf lig (or_introl eq_refl)) as Hlen.
      destruct (map (cmap_lookup cm) lig) as [|out [|first ins]] eqn:Em;
        try (apply (f_equal (@length N)) in Em; rewrite map_length in Em; cbn in Em; lia).
      destruct (IH (sets_append sets0 first (ins, out)) Hwf') as (sets & He & Hin).
      exists sets. split; [exact He|].
      intros x. rewrite Hin, sets_append_rules. cbn [fst snd]. split.
      * intros [[H|H]|(l' & out' & first' & ins' & Hl' & R)].
        -- auto.
        -- right. exists lig, out, first, ins. split; [left; reflexivity|].
           split; [apply lig_available_spec; rewrite Em; exact E|]. split; [exact Em|exact H].
        -- right. exists l', out', first', ins'. split; [right; exact Hl'|exact R].
      * intros [H|(l' & out' & first' & ins' & [Hl'|Hl'] & Hav & Hm & Hx)].
        -- auto.
        -- subst l'. rewrite Em in Hm. inversion Hm; subst. auto.
        -- right. exists l', out', first', ins'. auto.
Qed.

(* the coverage keys stay strictly ascending (coverage order = glyph order) *)
Lemma sets_append_sorted sets k lg :
  StronglySorted N.lt (map fst sets) -> StronglySorted N.lt (map fst (sets_append sets k lg)).
Proof.
  induction sets as [|[k' v] r IH]; cbn [sets_append map fst]; intros Hs.
  - constructor; constructor.
  - inversion Hs as [|? ? Hs' Hall]; subst.
    destruct (N.ltb_spec k k').
    + cbn [map fst]. constructor; [exact Hs|]. constructor; [exact H|].
      rewrite Forall_forall in *. intros x Hx. specialize (Hall x Hx). lia.
    + destruct (N.eqb_spec k k').
      * cbn [map fst]. constructor; assumption.
      * cbn [map fst]. constructor; [apply IH, Hs'|].
        rewrite Forall_forall in *. intros x Hx.
        assert (x = k \/ In x (map fst r)) as [->|Hx'].
        { clear -Hx. induction r as [|[k2 v2] r IH]; cbn [sets_append map fst In] in *.
          - intuition.
          - destruct (N.ltb_spec k k2); [cbn [map fst In] in Hx; intuition|].
            destruct (N.eqb_spec k k2); cbn [map fst In] in Hx; intuition. }
        -- lia.
        -- apply Hall, Hx'.
Qed.

Lemma lig_fold_sorted cm : forall all sets0 sets,
  StronglySorted N.lt (map fst sets0) ->
  fold_left (fun acc lig => s <- acc ;; lig_step cm s lig) all (Ok sets0) = Ok sets ->
  StronglySorted N.lt (map fst sets).
Proof.
  induction all as [|lig all IH]; intros sets0 sets Hs; cbn [fold_left].
  - intros H. inversion H; subst. exact Hs.
  - cbn [obind]. unfold lig_step at 2.
    destruct (existsb _ _); [apply IH, Hs|].
    destruct (map (cmap_lookup cm) lig) as [|out [|first ins]].
    + intros H. exfalso. clear -H. induction all; cbn [fold_left obind] in H; [discriminate|auto].
    + intros H. exfalso. clear -H. induction all; cbn [fold_left obind] in H; [discriminate|auto].
    + apply IH, sets_append_sorted, Hs.
Qed.

Lemma M_layout_with {tag lang : Type} (leb : tag -> tag -> bool) (matcher : lang -> list tag -> nat)
      iter1 iter2 gd pd (f : font tag) (l : lang) gsw psw s gs gp :
  layouter_lookups leb matcher iter1 iter2 gd (f_gsub f) l gsw = Ok gs ->
  layouter_lookups leb matcher iter1 iter2 pd (f_gpos f) l psw = Ok gp ->
  M_layout leb matcher iter1 iter2 gd pd f l gsw psw s = layout_with f gs gp s.
Proof. intros H1 H2. unfold M_layout. rewrite H1, H2. reflexivity. Qed.

Lemma M_layout_panic1 {tag lang : Type} (leb : tag -> tag -> bool) (matcher : lang -> list tag -> nat)
      iter1 iter2 gd pd (f : font tag) (l : lang) gsw psw s :
  layouter_lookups leb matcher iter1 iter2 gd (f_gsub f) l gsw = Panic ->
  M_layout leb matcher iter1 iter2 gd pd f l gsw psw s = Panic.
Proof. intros H1. unfold M_layout. rewrite H1. reflexivity. Qed.

Lemma M_layout_panic2 {tag lang : Type} (leb : tag -> tag -> bool) (matcher : lang -> list tag -> nat)
      iter1 iter2 gd pd (f : font tag) (l : lang) gsw psw s gs :
  layouter_lookups leb matcher iter1 iter2 gd (f_gsub f) l gsw = Ok gs ->
  layouter_lookups leb matcher iter1 iter2 pd (f_gpos f) l psw = Panic ->
  M_layout leb matcher iter1 iter2 gd pd f l gsw psw s = Panic.
Proof. intros H1 H2. unfold M_layout. rewrite H1, H2. reflexivity. Qed.
