From Coq Require Import Extraction ExtrOcamlBasic.
From Common Require Import Conv Outcome.
From Gen Require Import C15.
From C15 Require Import Model Entry.
Extraction "c15_model.ml" conv_anchor run_find_lookups run_kern_read run_std_ligatures run_layout run_read_layout.
