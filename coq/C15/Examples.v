(* C15/Examples.v — non-vacuity: concrete values meeting the hypotheses of the
   theorems, and the refutation witnesses. *)
From Coq Require Import List NArith ZArith Bool Arith Lia Permutation Sorted.
From Common Require Import Bytes Outcome.
From Gen Require Import C15.
From C15 Require Import Model Entry Util Proofs_find.
Import ListNotations.
Local Open Scope N_scope.

(* three language systems ("de", "fr", "ja"), given in a different order;
   the matcher answers 1 = "fr" in the sorted list; feature 1 required,
   feature 2 optional and switched on, feature 0 optional and off *)
Definition ex_sl : list (tagT * option features) :=
  [([106; 97], Some (mkFeatures 0 [])); ([102; 114], Some (mkFeatures 1 [2; 0; 7])); ([100; 101], None)].
Definition ex_fl : list feature :=
  [mkFeature 1818847073 [5; 0]; mkFeature 1801810542 [3; 1; 3]; mkFeature 1667329140 [2; 9; 1]].

Example ex_find :
  run_find_lookups true false true 1 ex_sl ex_fl 6 [(1667329140, true); (1818847073, false)] = Ok [1; 2; 3].
Proof. vm_compute. reflexivity. Qed.

Example ex_find_nodup_keys : NoDup (map fst ex_sl).
Proof. repeat constructor; cbn; intuition discriminate. Qed.

Example ex_find_nil_system :
  run_find_lookups true true false 0 ex_sl ex_fl 6 [] = Ok [].
Proof. vm_compute. reflexivity. Qed.

Example ex_find_matcher_out_of_contract :
  run_find_lookups true false false 3 ex_sl ex_fl 6 [] = Panic.
Proof. vm_compute. reflexivity. Qed.

(* ---------------- kern ---------------- *)
From C15 Require Import Spec Proofs_kern Proofs_layout.

(* one plain subtable: (1,2) -> -10, (2,1) -> 7; one minimum subtable:
   (1,2) >= -4; one override subtable: (2,1) -> 3 *)
Definition ex_kern : list N :=
  [0;0;0;3;
   0;0;0;26;0;1; 0;2;0;0;0;0;0;0; 0;1;0;2;255;246; 0;2;0;1;0;7;
   0;0;0;20;0;3; 0;1;0;0;0;0;0;0; 0;1;0;2;255;252;
   0;0;0;20;0;9; 0;1;0;0;0;0;0;0; 0;2;0;1;0;3].

Example ex_kern_read : run_kern_read ex_kern = Ok [(65538, (-4)%Z); (131073, 3%Z)].
Proof. vm_compute. reflexivity. Qed.

Example ex_kern_truncated : run_kern_read (firstn 40 ex_kern) = Err.
Proof. vm_compute. reflexivity. Qed.

(* a font carrying only kern: f=1 i=2, widths 500/300/310, monospaced flag
   off but no ligature characters in the cmap *)
Definition ex_cm : list (N * N) := [(102, 1); (105, 2)].
Definition ex_outl : outlines := OGlyf 3 (Some [500; 300; 310]%Z).

Example ex_kern_font :
  exists f,
    M_read_tables tag_undZzzz tag_undLatn sfnt_stdLigatures
      kern_version kern_minSubtableLength k_maskSel kern_flagsWanted k_maskMin k_maskOvr
      ex_cm ex_outl None false (Some ex_kern) = Ok f /\ f_gsub f = None.
Proof. eexists. split; vm_compute; reflexivity. Qed.

Example ex_glyphs_exist : glyphs_exist ex_cm ex_outl None [102; 105; 102].
Proof.
  intros r [<-|[<-|[<-|[]]]]; vm_compute; discriminate.
Qed.

Example ex_kern_layout :
  run_read_layout [([tag_undZzzz], O)] false true ex_cm ex_outl None false (Some ex_kern)
                  None (Some [(tag_kern, false)]) [102; 105; 102]
  = Ok [mkG 1 [102] 0 0 296; mkG 2 [105] 0 0 313; mkG 1 [102] 0 0 300].
Proof. vm_compute. reflexivity. Qed.

(* matcher hypothesis of kern_exact is satisfiable *)
Example ex_matcher_contract : forall l : unit, (table_matcher [([tag_undZzzz], O)] l [tag_undZzzz] < 1)%nat.
Proof. intros []. vm_compute. lia. Qed.

(* ---------------- identity ---------------- *)

(* a font with GSUB and GPOS whose selected lookups do not apply to "if" *)
Definition ex_font : font tagT :=
  mkFont [(102, 1); (105, 2); (769, 3)] (OCff [500; 300; 310; 0]%Z) (Some [(3, 3)])
    (Some (mkGtab [([101; 110], Some (mkFeatures 65535 [0]))] [mkFeature tag_liga [0]]
                  [LLiga [(2, [([2], 1)])]]))   (* i i -> f: "if" has an i, but it is followed by f *)
    (Some (mkGtab [([101; 110], Some (mkFeatures 0 []))] [mkFeature tag_kern [0; 1]]
                  [LPair [(65538, 5%Z)]; LNone])).

Example ex_identity :
  run_layout [([[101; 110]], O)] false false ex_font None None [105; 102; 769]
  = Ok [mkG 2 [105] 0 0 310; mkG 1 [102] 0 0 300; mkG 3 [769] 0 0 0].
Proof. vm_compute. reflexivity. Qed.

Example ex_identity_is_spec :
  S_identity (f_cmap ex_font) (f_outlines ex_font) (f_gdef ex_font) [105; 102; 769]
  = [mkG 2 [105] 0 0 310; mkG 1 [102] 0 0 300; mkG 3 [769] 0 0 0].
Proof. vm_compute. reflexivity. Qed.

(* ... and do apply to "fi": the pair (1,2) is kerned *)
Example ex_not_identity :
  run_layout [([[101; 110]], O)] false false ex_font None None [102; 105]
  = Ok [mkG 1 [102] 0 0 305; mkG 2 [105] 0 0 310].
Proof. vm_compute. reflexivity. Qed.

(* a character mapped beyond the glyph set: the glyph gets no width
   (fixes/C07-layout-gid-beyond-font.diff; Go panicked here before) *)
Example ex_layout_beyond :
  run_layout [] false false (mkFont [(97, 9)] (OCff [500]%Z) None None None) None None [97]
  = Ok [mkG 9 [97] 0 0 0].
Proof. vm_compute. reflexivity. Qed.

(* the only panic left in the width loop: a glyf font with fewer widths than
   glyphs (sfnt.Read never delivers one) and a glyph in between *)
Example ex_layout_panic :
  run_layout [] false false (mkFont [(97, 1)] (OGlyf 2 (Some [500]%Z)) None None None) None None [97] = Panic /\
  ~ glyphs_exist [(97, 1)] (OGlyf 2 (Some [500]%Z)) None [97] /\
  ~ outlines_consistent (OGlyf 2 (Some [500]%Z)).
Proof.
  split; [vm_compute; reflexivity|]. split.
  - intros H. apply (H 97); [left; reflexivity|]. vm_compute. reflexivity.
  - cbn. discriminate.
Qed.

Example ex_consistent : outlines_consistent ex_outl /\ outlines_consistent (OCff [500; 300]%Z) /\
                        outlines_consistent (OGlyf 7 None).
Proof. repeat split. Qed.

(* ---------------- standard ligatures ---------------- *)

Example ex_stdlig :
  exists g, run_std_ligatures [(102, 1); (105, 2); (108, 3); (64256, 4); (64257, 5); (64259, 6)] = Ok (Some g) /\
            gt_lookups g = [LLiga [(1, [([1; 2], 6); ([1], 4); ([2], 5)])]].
Proof. eexists. split; vm_compute; reflexivity. Qed.

Example ex_stdlig_none : run_std_ligatures [(102, 1); (105, 2)] = Ok None.
Proof. vm_compute. reflexivity. Qed.

Example ex_lig_available : lig_available [(102, 1); (105, 2); (64257, 5)] [64257; 102; 105].
Proof. intros r [<-|[<-|[<-|[]]]]; vm_compute; discriminate. Qed.

(* proportional font without GSUB: "fi" becomes the ligature unless liga is off *)
Example ex_lig_layout :
  run_read_layout [([tag_undLatn], O)] false false [(102, 1); (105, 2); (64257, 3)]
                  (OGlyf 4 (Some [500; 300; 310; 600]%Z)) None false None None None [102; 105; 102]
  = Ok [mkG 3 [102; 105] 0 0 600; mkG 1 [102] 0 0 300] /\
  run_read_layout [([tag_undLatn], O)] false false [(102, 1); (105, 2); (64257, 3)]
                  (OGlyf 4 (Some [500; 300; 310; 600]%Z)) None false None (Some [(tag_liga, false)]) None [102; 105; 102]
  = Ok [mkG 1 [102] 0 0 300; mkG 2 [105] 0 0 310; mkG 1 [102] 0 0 300].
Proof. split; vm_compute; reflexivity. Qed.

(* ---------------- the kern file format ---------------- *)
From C15 Require Import Proofs_kernfmt Proofs_props.

Definition ex_subs : list ksub :=
  [KPairs 1 [0;0;0;0;0;0] [(1, 2, (-10)%Z); (2, 1, 7%Z)];
   KPairs 3 [0;0;0;0;0;0] [(1, 2, (-4)%Z)];
   KPairs 9 [0;0;0;0;0;0] [(2, 1, 3%Z)]].

Example ex_kern_is_wellformed_bytes : S_kern_bytes ex_subs = ex_kern.
Proof. vm_compute. reflexivity. Qed.

Example ex_subs_ok : Forall ksub_ok ex_subs.
Proof.
  repeat constructor; cbn; try lia; try discriminate.
Qed.

Example ex_selected :
  flat_map selected_records ex_subs =
  [(false, false, 1, 2, (-10)%Z); (false, false, 2, 1, 7%Z); (true, false, 1, 2, (-4)%Z); (false, true, 2, 1, 3%Z)].
Proof. vm_compute. reflexivity. Qed.

(* a subtable of another format and a vertical subtable are skipped *)
Example ex_skipped :
  kern_records (S_kern_bytes [KOther 0 2 1 [0;0;0;0;0;0;0;0;0;0]; KPairs 0 [0;0;0;0;0;0] [(1, 2, 5%Z)];
                              KPairs 1 [0;0;0;0;0;0] [(3, 4, 6%Z)]])
  = Ok [(false, false, 3, 4, 6%Z)].
Proof. vm_compute. reflexivity. Qed.

(* subtables do not overlap (fixes/C02-kern-overlapping-subtables.diff): the
   first subtable says length 14 but has one record; the second subtable is
   read after that record, not on top of it *)
Example ex_kern_no_overlap :
  run_kern_read [0;0;0;2;  0;0;0;14;0;1; 0;1;0;0;0;0;0;0; 0;0;0;20;0;1;
                           0;0;0;14;0;1; 0;1;0;0;0;0;0;0; 0;1;0;2;0;5]
  = Ok [(20, 1%Z); (65538, 5%Z)].
Proof. vm_compute. reflexivity. Qed.
