(* C15/Entry.v — the models instantiated for execution (extraction and
   Examples): language tags are the bytes of Tag.String() ordered as Go orders
   strings, the matcher is a table from tag lists to indices supplied by the
   caller (the harness asks x/text), constants come from Gen/C15.v. *)
From Coq Require Import List NArith ZArith Bool Arith.
From Common Require Import Bytes Outcome.
From Gen Require Import C15.
From C15 Require Import Model.
Import ListNotations.
Local Open Scope N_scope.

Definition tagT : Type := list N.

Fixpoint bytes_eqb (a b : list N) : bool :=
  match a, b with
  | [], [] => true
  | x :: a', y :: b' => (x =? y) && bytes_eqb a' b'
  | _, _ => false
  end.

Fixpoint tags_eqb (a b : list tagT) : bool :=
  match a, b with
  | [], [] => true
  | x :: a', y :: b' => bytes_eqb x y && tags_eqb a' b'
  | _, _ => false
  end.

(* a matcher given as a finite table: tag list -> answer; 0 elsewhere *)
Definition table_matcher (tbl : list (list tagT * nat)) (_ : unit) (tags : list tagT) : nat :=
  match find (fun p => tags_eqb (fst p) tags) tbl with
  | Some p => snd p
  | None => O
  end.

Definition order {A} (reverse : bool) (l : list A) : list A := if reverse then rev l else l.

(* FindLookups with the matcher answering midx; rev1/rev2 choose the
   enumeration order of the two Go maps *)
Definition run_find_lookups (sorted rev1 rev2 : bool) (midx : nat)
           (sl : list (tagT * option features)) (fl : list feature) (nLookups : N)
           (sw : switches) : outcome (list N) :=
  find_lookups_gen lex_leb (fun (_ : unit) _ => midx) (order rev1) (order rev2)
                   sorted sl fl nLookups tt sw.

Definition k_maskSel : N := nth 0 kern_flagMasks 0.
Definition k_maskMin : N := nth 1 kern_flagMasks 0.
Definition k_maskOvr : N := nth 2 kern_flagMasks 0.

Definition run_kern_read (b : list N) : outcome kmap :=
  M_kern_read kern_version kern_minSubtableLength k_maskSel kern_flagsWanted k_maskMin k_maskOvr b.

(* "und-Zzzz" and "und-Latn-x-latn"; both script lists are singletons, so the
   tags play no role in the behaviour *)
Definition tag_undZzzz : tagT := [117; 110; 100; 45; 90; 122; 122; 122].
Definition tag_undLatn : tagT := [117; 110; 100; 45; 76; 97; 116; 110; 45; 120; 45; 108; 97; 116; 110].

Definition run_std_ligatures (cm : list (N * N)) : outcome (option (gtab tagT)) :=
  M_standard_ligatures sfnt_stdLigatures tag_undLatn cm.

Definition run_layout (tbl : list (list tagT * nat)) (rev1 rev2 : bool) (f : font tagT)
           (gsubSw gposSw : option switches) (s : list N) : outcome (list ginfo) :=
  M_layout lex_leb (table_matcher tbl) (order rev1) (order rev2)
           gtab_GsubDefaultFeatures gtab_GposDefaultFeatures f tt gsubSw gposSw s.

(* sfnt.Read of a font file without GSUB and GPOS (kb = the kern table if
   present), then NewLayouter and Layout *)
Definition run_read_layout (tbl : list (list tagT * nat)) (rev1 rev2 : bool)
           (cm : list (N * N)) (o : outlines) (gdef : option (list (N * N)))
           (fixedPitch : bool) (kb : option (list N))
           (gsubSw gposSw : option switches) (s : list N) : outcome (list ginfo) :=
  f <- M_read_tables tag_undZzzz tag_undLatn sfnt_stdLigatures
         kern_version kern_minSubtableLength k_maskSel kern_flagsWanted k_maskMin k_maskOvr
         cm o gdef fixedPitch kb ;;
  run_layout tbl rev1 rev2 f gsubSw gposSw s.
