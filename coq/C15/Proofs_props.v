(* C15/Proofs_props.v — the property statements proved against the constants
   regenerated from the Go source (Gen/C15.v); Props.v restates them. *)
From Coq Require Import List NArith ZArith Bool Arith Lia Permutation Sorted.
From Common Require Import Bytes Outcome.
From Gen Require Import C15.
From C15 Require Import Model Entry Spec Util Proofs_find Proofs_kern Proofs_kernfmt Proofs_layout Proofs_liga.
Import ListNotations.
Local Open Scope N_scope.

Definition tags_of (sl : list (tagT * option features)) : list tagT := the_tags lex_leb sl.

(* FindLookups (repaired code), for EVERY matcher answer and every map
   enumeration order: either the matcher pointed beyond the tag list (then
   Go panics; x/text never does that) or the result is strictly ascending
   (hence duplicate-free), in range, and exactly the selection (required
   feature + switched-on optional features) of the language system the
   matcher pointed at in the sorted tag list. *)
Lemma find_lookups_wf_pf :
  forall (lang : Type) (matcher : lang -> list tagT -> nat)
         (iter1 : list (tagT * option features) -> list (tagT * option features))
         (iter2 : list N -> list N),
    (forall x, Permutation (iter1 x) x) -> (forall x, Permutation (iter2 x) x) ->
  forall sl fl nl (l : lang) sw, NoDup (map fst sl) ->
    match M_find_lookups lex_leb matcher iter1 iter2 sl fl nl l sw with
    | Ok ll =>
        StronglySorted N.lt ll /\ Forall (fun x => x < nl) ll /\
        ((sl = [] /\ ll = []) \/
         exists t v, nth_error (tags_of sl) (matcher l (tags_of sl)) = Some t /\ In (t, v) sl /\
           match v with
           | None => ll = []
           | Some fs => forall x, In x ll <-> x < u16 nl /\ wanted fl sw fs x
           end)
    | Panic => sl <> [] /\ (length sl <= matcher l (tags_of sl))%nat
    | _ => False
    end.
Proof.
  intros lang matcher iter1 iter2 H1 H2 sl fl nl l sw Hd.
  exact (find_lookups_wf_gen lex_leb lex_leb_total lex_leb_antisym lex_leb_trans
           matcher iter1 iter2 H1 H2 sl fl nl l sw Hd).
Qed.

(* The same on every call: the result does not depend on the order in which
   Go enumerates info.ScriptList or the set of selected lookups. *)
Lemma find_lookups_deterministic_pf :
  forall (lang : Type) (matcher : lang -> list tagT -> nat) iter1 iter2 iter1' iter2',
    (forall x, Permutation (iter1 x) x) -> (forall x, Permutation (iter2 x) x) ->
    (forall x, Permutation (iter1' x) x) -> (forall x, Permutation (iter2' x) x) ->
  forall sl fl nl (l : lang) sw,
    M_find_lookups lex_leb matcher iter1 iter2 sl fl nl l sw =
    M_find_lookups lex_leb matcher iter1' iter2' sl fl nl l sw.
Proof.
  intros lang matcher iter1 iter2 iter1' iter2' H1 H2 H1' H2' sl fl nl l sw.
  exact (find_lookups_deterministic_gen lex_leb lex_leb_total lex_leb_antisym lex_leb_trans
           matcher iter1 iter2 H1 H2 iter1' iter2' sl fl nl l sw H1' H2').
Qed.

(* Before fixes/C15-findlookups-order.diff (tags in map enumeration order):
   two enumerations of the same two-entry script list give different lookups. *)
Lemma find_lookups_unsorted_refuted_pf :
  exists (sl : list (tagT * option features)) fl nl sw
         (iter1 iter1' : list (tagT * option features) -> list (tagT * option features)),
    (forall x, Permutation (iter1 x) x) /\ (forall x, Permutation (iter1' x) x) /\
    M_find_lookups_unsorted lex_leb (fun (_ : unit) _ => O) iter1 (fun x => x) sl fl nl tt sw <>
    M_find_lookups_unsorted lex_leb (fun (_ : unit) _ => O) iter1' (fun x => x) sl fl nl tt sw.
Proof.
  exists refute_sl, refute_fl, 2, [], (fun x => x), (@rev _).
  split; [intros; apply Permutation_refl|]. split; [intros; apply Permutation_sym, Permutation_rev|].
  intros H. vm_compute in H. discriminate.
Qed.

(* A function of the chosen language system only. *)
Lemma find_lookups_chosen_system_only_pf :
  forall (lang : Type) (matcher : lang -> list tagT -> nat) iter1 iter2 sl1 sl2 fl nl (l : lang) sw,
    sl1 <> [] -> sl2 <> [] ->
    choose lex_leb matcher iter1 true sl1 l = choose lex_leb matcher iter1 true sl2 l ->
    M_find_lookups lex_leb matcher iter1 iter2 sl1 fl nl l sw =
    M_find_lookups lex_leb matcher iter1 iter2 sl2 fl nl l sw.
Proof. intros. apply find_lookups_chosen_only; assumption. Qed.

(* NewLayouter: a nil switch map means the default feature sets extracted
   from featurelist.go on this run. *)
Lemma layouter_nil_means_defaults_pf :
  forall (lang : Type) (matcher : lang -> list tagT -> nat) iter1 iter2 (t : option (gtab tagT)) (l : lang),
    layouter_lookups lex_leb matcher iter1 iter2 gtab_GsubDefaultFeatures t l None =
    layouter_lookups lex_leb matcher iter1 iter2 gtab_GsubDefaultFeatures t l (Some gtab_GsubDefaultFeatures) /\
    layouter_lookups lex_leb matcher iter1 iter2 gtab_GposDefaultFeatures t l None =
    layouter_lookups lex_leb matcher iter1 iter2 gtab_GposDefaultFeatures t l (Some gtab_GposDefaultFeatures).
Proof. intros. split; apply layouter_nil_defaults. Qed.

(* ================================================================== *)
(* kern                                                               *)

Definition kern_records (b : list N) : outcome (list kentry) :=
  kern_entries kern_minSubtableLength k_maskSel kern_flagsWanted k_maskMin k_maskOvr kern_version b.

Lemma run_kern_read_eq b : run_kern_read b = (es <- kern_records b ;; Ok (kern_acc es)).
Proof. reflexivity. Qed.

(* kern.Read never panics and terminates on any byte string (for C02); every
   record it processes costs six bytes of input of its own (subtables do not
   overlap, fixes/C02-kern-overlapping-subtables.diff), so the work and the
   size of the map are linear in the input. *)
Lemma kern_read_total_pf : forall b,
  run_kern_read b <> Panic /\ run_kern_read b <> OutOfFuel /\
  (forall km, run_kern_read b = Ok km ->
     (6 * length km <= length b)%nat).
Proof.
  intros b. rewrite run_kern_read_eq.
  pose proof (kern_entries_no_crash kern_minSubtableLength k_maskSel kern_flagsWanted k_maskMin k_maskOvr kern_version b) as Hn.
  fold (kern_records b) in Hn.
  destruct (kern_records b) as [es| | |] eqn:E; cbn [obind]; try contradiction;
    (split; [discriminate|]); (split; [discriminate|]); try discriminate.
  intros km Hk. inversion Hk; subst km.
  unfold kern_records, kern_entries in E.
  destruct b as [|v0 [|v1 [|t0 [|t1 r]]]]; try discriminate.
  destruct (negb _); [discriminate|].
  apply kern_tables_bound in E. pose proof (kern_acc_length es). lia.
Qed.

(* the records themselves: six bytes of input each *)
Lemma kern_records_linear_pf : forall b es, kern_records b = Ok es -> (6 * length es <= length b)%nat.
Proof.
  intros b es E. unfold kern_records, kern_entries in E.
  destruct b as [|v0 [|v1 [|t0 [|t1 r]]]]; try discriminate.
  destruct (negb _); [discriminate|].
  apply kern_tables_bound in E. lia.
Qed.

(* What kern.Read stores for a pair is the table read for that pair alone:
   the records of the pair in file order, minimum subtables bounding the value
   from below, override subtables replacing it, the others accumulating
   (int16).  The map's keys are distinct (strictly ascending). *)
Lemma kern_read_lookup_pf : forall b km,
  run_kern_read b = Ok km ->
  exists es, kern_records b = Ok es /\ kmap_sorted km /\
             forall k, kmap_get km k = S_pair_value es k.
Proof.
  intros b km H. rewrite run_kern_read_eq in H.
  destruct (kern_records b) as [es| | |]; cbn [obind] in H; try discriminate.
  inversion H; subst km. exists es. split; [reflexivity|].
  split; [apply kern_acc_sorted|apply kern_acc_get].
Qed.

(* sum / max / override as the coverage bits say *)
Lemma kern_value_sum_pf : forall es k,
  (forall e, In e es -> ke_key e = k -> ke_plain e = true) ->
  let vs := map ke_val (filter (fun e => ke_key e =? k) es) in
  sums_fit 0 vs ->
  S_pair_value es k = match vs with [] => None | _ => Some (fold_left Z.add vs 0%Z) end.
Proof. exact S_pair_value_sum. Qed.

Lemma kern_value_override_pf : forall es1 es2 l r v,
  (forall e, In e es2 -> ke_key e <> l * 65536 + r) ->
  S_pair_value (es1 ++ (false, true, l, r, v) :: es2) (l * 65536 + r) = Some v.
Proof.
  intros es1 es2 l r v Hn. rewrite S_pair_value_override.
  induction es2 as [|e es2 IH]; cbn [fold_left]; [reflexivity|].
  destruct (N.eqb_spec (ke_key e) (l * 65536 + r)) as [He|He].
  - exfalso. apply (Hn e); [left; reflexivity|exact He].
  - apply IH. intros e' He'. apply Hn. right. exact He'.
Qed.

Lemma kern_value_minimum_pf : forall es l r v,
  S_pair_value (es ++ [(true, false, l, r, v)]) (l * 65536 + r) =
  let cur := S_pair_value es (l * 65536 + r) in
  if ((match cur with Some c => c | None => 0 end) <? v)%Z then Some v else cur.
Proof.
  intros. unfold S_pair_value. rewrite fold_left_app. cbn [fold_left ke_key].
  rewrite N.eqb_refl. reflexivity.
Qed.

(* Go's int16 addition wraps: two plain subtables with 30000 for the pair
   (1,2) give -5536, not 60000.  This is why kern_value_sum carries sums_fit. *)
Definition overflow_table : list N :=
  [0;0;0;2;  0;0;0;20;0;1; 0;1;0;0;0;0;0;0; 0;1;0;2;117;48;
             0;0;0;20;0;1; 0;1;0;0;0;0;0;0; 0;1;0;2;117;48].
Lemma kern_overflow_refuted_pf :
  run_kern_read overflow_table = Ok [(65538, (-5536)%Z)] /\
  (exists es, kern_records overflow_table = Ok es /\
     fold_left Z.add (map ke_val (filter (fun e => ke_key e =? 65538) es)) 0%Z = 60000%Z).
Proof. split; [vm_compute; reflexivity|]. eexists. split; vm_compute; reflexivity. Qed.

(* ================================================================== *)
(* Layout                                                             *)

Definition layout {lang} (matcher : lang -> list tagT -> nat) iter1 iter2 :=
  M_layout lex_leb matcher iter1 iter2 gtab_GsubDefaultFeatures gtab_GposDefaultFeatures.

(* what "one glyph per character carrying that character and the font's
   advance width" means *)
Lemma identity_one_glyph_per_character_pf : forall cm o gdef s,
  length (S_identity cm o gdef s) = length s /\
  forall i r, nth_error s i = Some r ->
    exists g, nth_error (S_identity cm o gdef s) i = Some g /\
      g_gid g = cmap_lookup cm r /\ g_text g = [r] /\ g_xoff g = 0%Z /\ g_yoff g = 0%Z /\
      (num_glyphs o <= cmap_lookup cm r -> g_adv g = 0%Z) /\
      (is_mark gdef (cmap_lookup cm r) = true -> g_adv g = 0%Z) /\
      (cmap_lookup cm r < num_glyphs o -> is_mark gdef (cmap_lookup cm r) = false ->
         forall w, glyph_width o (cmap_lookup cm r) = Ok w -> g_adv g = w).
Proof.
  intros cm o gdef s. unfold S_identity. split; [apply map_length|].
  intros i r Hr. rewrite nth_error_map, Hr. cbn [option_map]. eexists. split; [reflexivity|].
  unfold S_identity_glyph, S_advance. cbn [g_gid g_text g_xoff g_yoff g_adv].
  repeat (split; [reflexivity|]). split; [|split].
  - intros H. apply N.leb_le in H. rewrite H. reflexivity.
  - intros ->. destruct (num_glyphs o <=? cmap_lookup cm r); reflexivity.
  - intros H -> w ->. apply N.leb_gt in H. rewrite H. reflexivity.
Qed.

(* with one width per glyph (what sfnt.Read delivers) every glyph id has an
   advance: the width loop cannot panic, whatever the cmap or the
   substitutions produce *)
Lemma S_advance_consistent o gdef gid : outlines_consistent o -> S_advance o gdef gid <> None.
Proof.
  intros Hc. unfold S_advance. destruct (N.leb_spec (num_glyphs o) gid) as [Hge|Hlt]; [discriminate|].
  destruct (is_mark gdef gid); [discriminate|]. unfold glyph_width.
  destruct o as [n [w|]|w]; cbn [outlines_consistent num_glyphs] in *; try discriminate.
  - subst n. destruct (nth_error w (N.to_nat gid)) eqn:E; [discriminate|].
    apply nth_error_None in E. lia.
  - destruct (nth_error w (N.to_nat gid)) eqn:E; [discriminate|].
    apply nth_error_None in E. lia.
Qed.

Lemma glyphs_exist_consistent_pf cm o gdef s : outlines_consistent o -> glyphs_exist cm o gdef s.
Proof. intros Hc r _. apply S_advance_consistent. exact Hc. Qed.

Lemma layout_with_total {tag} (f : font tag) gs gp s : outlines_consistent (f_outlines f) ->
  exists out, layout_with f gs gp s = Ok out /\ text_of out = s /\ (length out <= length s)%nat.
Proof.
  intros Hc. destruct (layout_with_outcome f gs gp s) as [Hp|H]; [|exact H]. exfalso.
  unfold layout_with in Hp.
  destruct (apply_table_spec (f_gsub f) gs (map (fun r => mkG (cmap_lookup (f_cmap f) r) [r] 0 0 0) s))
    as (s1 & E1 & _). rewrite E1 in Hp. cbn [obind] in Hp.
  rewrite set_widths_ok in Hp by (intros g _; apply S_advance_consistent; exact Hc). cbn [obind] in Hp.
  destruct (apply_table_spec (f_gpos f) gp (map (set_width_of (f_outlines f) (f_gdef f)) s1)) as (out & E3 & _).
  rewrite E3 in Hp. discriminate.
Qed.

(* With no applicable rule (every selected lookup leaves the sequence alone)
   Layout returns exactly that (a glyph id the font does not have keeps
   advance 0); it panics iff a character maps to a glyph below NumGlyphs
   without an entry in the width slice (never for consistent outlines). *)
Lemma layout_no_rule_identity_pf :
  forall (lang : Type) (matcher : lang -> list tagT -> nat) iter1 iter2
         (f : font tagT) (l : lang) gsw psw s gs gp,
    layouter_lookups lex_leb matcher iter1 iter2 gtab_GsubDefaultFeatures (f_gsub f) l gsw = Ok gs ->
    layouter_lookups lex_leb matcher iter1 iter2 gtab_GposDefaultFeatures (f_gpos f) l psw = Ok gp ->
    inert_table (f_gsub f) gs (seq0 (f_cmap f) s) ->
    inert_table (f_gpos f) gp (S_identity (f_cmap f) (f_outlines f) (f_gdef f) s) ->
    (glyphs_exist (f_cmap f) (f_outlines f) (f_gdef f) s ->
       layout matcher iter1 iter2 f l gsw psw s = Ok (S_identity (f_cmap f) (f_outlines f) (f_gdef f) s)) /\
    (~ glyphs_exist (f_cmap f) (f_outlines f) (f_gdef f) s ->
       layout matcher iter1 iter2 f l gsw psw s = Panic).
Proof.
  intros lang matcher iter1 iter2 f l gsw psw s gs gp Hgs Hgp Hi1 Hi2.
  unfold layout. split; intros He.
  - eapply eq_trans; [apply M_layout_with; eassumption|]. apply layout_with_identity; assumption.
  - eapply eq_trans; [apply M_layout_with; eassumption|]. apply layout_with_panic; assumption.
Qed.

(* special case: a font without GSUB and GPOS *)
Lemma layout_no_tables_identity_pf :
  forall (lang : Type) (matcher : lang -> list tagT -> nat) iter1 iter2
         cm o gdef (l : lang) gsw psw s,
    glyphs_exist cm o gdef s ->
    layout matcher iter1 iter2 (mkFont cm o gdef None None) l gsw psw s = Ok (S_identity cm o gdef s).
Proof.
  intros. apply (layout_no_rule_identity_pf lang matcher iter1 iter2 (mkFont cm o gdef None None)
                   l gsw psw s None None); try reflexivity; try exact I; assumption.
Qed.

(* sufficient conditions for "no applicable rule", lookup by lookup *)
Lemma no_rule_conditions_pf : forall seq,
  inert LNone seq /\
  (forall km, (forall i g1 g2, nth_error seq i = Some g1 -> nth_error seq (S i) = Some g2 ->
                               kmap_get km (g_gid g1 * 65536 + g_gid g2) = None) -> inert (LPair km) seq) /\
  (forall sets, (forall g, In g seq -> sets_get sets (g_gid g) = None) -> inert (LLiga sets) seq) /\
  (forall ll, inert_selection ll [] seq).
Proof.
  intros seq. split; [apply inert_none|]. split; [intros; apply pair_pass_inert; assumption|].
  split; [intros; apply liga_inert; assumption|intros; apply inert_selection_nil].
Qed.

(* A font that carries only a kern table (no GSUB table and no standard
   ligatures, or monospaced; no GPOS table): for every language, every
   matcher answering inside the tag list, every switch map, every string
   whose characters have glyphs: one glyph per character, glyph i moved by
   exactly the kern table's value for (glyph i, glyph i+1), nothing else
   changed. *)
Lemma kern_exact_pf :
  forall (lang : Type) (matcher : lang -> list tagT -> nat) iter1 iter2,
    (forall x, Permutation (iter1 x) x) -> (forall x, Permutation (iter2 x) x) ->
    (forall l, (matcher l [tag_undZzzz] < 1)%nat) ->
  forall cm o gdef fixedPitch b f (l : lang) gsw psw s,
    M_read_tables tag_undZzzz tag_undLatn sfnt_stdLigatures
      kern_version kern_minSubtableLength k_maskSel kern_flagsWanted k_maskMin k_maskOvr
      cm o gdef fixedPitch (Some b) = Ok f ->
    f_gsub f = None ->
    glyphs_exist cm o gdef s ->
    exists es out,
      kern_records b = Ok es /\
      layout matcher iter1 iter2 f l gsw psw s = Ok out /\
      length out = length s /\
      forall i r, nth_error s i = Some r ->
        nth_error out i =
        Some (S_kern_glyph (S_pair_value es) (S_identity_glyph cm o gdef r)
                (option_map (S_identity_glyph cm o gdef) (nth_error s (S i)))).
Proof.
  intros lang matcher iter1 iter2 Hp1 Hp2 Hm cm o gdef fixedPitch b f l gsw psw s Hread Hgsub Hex.
  unfold M_read_tables in Hread.
  destruct (if fixedPitch then _ else _) as [gsub| | |]; cbn [obind] in Hread; try discriminate.
  unfold M_kern_read in Hread. fold (kern_records b) in Hread.
  destruct (kern_records b) as [es| | |]; cbn [obind] in Hread; try discriminate.
  inversion Hread; subst f. cbn [f_gsub] in Hgsub. subst gsub.
  exists es, (pair_pass (kern_acc es) (S_identity cm o gdef s)).
  split; [reflexivity|]. split.
  - unfold layout. apply kern_layout; try assumption. reflexivity.
  - split; [rewrite pair_pass_length; unfold S_identity; apply map_length|].
    intros i r Hr.
    rewrite (pair_pass_nth _ _ i (S_identity_glyph cm o gdef r))
      by (unfold S_identity; rewrite nth_error_map, Hr; reflexivity).
    unfold S_identity at 1. rewrite nth_error_map. f_equal.
    unfold S_kern_glyph. destruct (option_map _ _); [|reflexivity].
    rewrite kern_acc_get. reflexivity.
Qed.

(* ================================================================== *)
(* standard ligatures (P2)                                            *)

Lemma std_ligs_wellformed : ligs_wellformed sfnt_stdLigatures.
Proof.
  assert (forallb (fun lig => 2 <=? length lig)%nat sfnt_stdLigatures = true) as H
      by (vm_compute; reflexivity).
  rewrite forallb_forall in H. intros lig Hl. apply Nat.leb_le, H, Hl.
Qed.

(* The synthetic GSUB table holds exactly the ligatures of the regenerated
   list whose ligature character and components are all mapped: rule
   (glyph of 1st component; glyphs of the others) -> glyph of the ligature;
   coverage keys strictly ascending; one language system with liga as an
   optional feature (Required = 0xFFFF) and the single lookup 0.  No table
   when the font contains none of them. *)
Lemma standard_ligatures_def_pf : forall cm,
  exists r, run_std_ligatures cm = Ok r /\
    match r with
    | None => forall lig, In lig sfnt_stdLigatures -> ~ lig_available cm lig
    | Some g =>
        gt_scripts g = [(tag_undLatn, Some (mkFeatures 65535 [0]))] /\
        gt_features g = [mkFeature tag_liga [0]] /\
        exists sets, gt_lookups g = [LLiga sets] /\ StronglySorted N.lt (map fst sets) /\
          forall first ins out, In (first, ins, out) (lig_rules sets) <->
            exists lig, In lig sfnt_stdLigatures /\ lig_available cm lig /\
                        map (cmap_lookup cm) lig = out :: first :: ins
    end.
Proof.
  intros cm. unfold run_std_ligatures, M_standard_ligatures.
  destruct (lig_fold_spec cm sfnt_stdLigatures [] std_ligs_wellformed) as (sets & He & Hin).
  rewrite He. cbn [obind].
  assert (forall first ins out, In (first, ins, out) (lig_rules sets) <->
            exists lig, In lig sfnt_stdLigatures /\ lig_available cm lig /\
                        map (cmap_lookup cm) lig = out :: first :: ins) as Hrules.
  { intros first ins out. rewrite Hin. cbn [lig_rules flat_map In]. split.
    - intros [[]|(lig & out' & first' & ins' & Hl & Ha & Hm & Hx)].
      inversion Hx; subst. exists lig. auto.
    - intros (lig & Hl & Ha & Hm). right. exists lig, out, first, ins. auto. }
  destruct sets as [|s0 sets'] eqn:Es.
  - exists None. split; [reflexivity|]. intros lig Hl Ha.
    pose proof (std_ligs_wellformed lig Hl) as Hlen.
    destruct (map (cmap_lookup cm) lig) as [|out [|first ins]] eqn:Em;
      try (apply (f_equal (@length N)) in Em; rewrite map_length in Em; cbn in Em; lia).
    assert (In (first, ins, out) (lig_rules [])) as [] by (apply Hrules; exists lig; auto).
  - eexists. split; [reflexivity|]. cbn [gt_scripts gt_features gt_lookups].
    split; [reflexivity|]. split; [reflexivity|]. exists (s0 :: sets'). split; [reflexivity|].
    split; [|exact Hrules].
    eapply lig_fold_sorted; [|exact He]. constructor.
Qed.

(* the selection rule spelled out for feature lists a font file can hold *)
Lemma selection_rule_pf : forall fl sw fs l, N.of_nat (length fl) < 65536 ->
  (wanted fl sw fs l <->
   (exists ft, nth_error fl (N.to_nat (fs_required fs)) = Some ft /\ In l (ft_lookups ft)) \/
   (exists f ft, In f (fs_optional fs) /\ nth_error fl (N.to_nat f) = Some ft /\
                 sw_get sw (ft_tag ft) = true /\ In l (ft_lookups ft))).
Proof. exact wanted_plain. Qed.

(* the reader against the file format *)
Definition selected_records : ksub -> list kentry :=
  ksub_records k_maskSel kern_flagsWanted k_maskMin k_maskOvr.

Lemma kern_reads_file_format_pf : forall subs,
  N.of_nat (length subs) < 65536 -> Forall ksub_ok subs ->
  kern_records (S_kern_bytes subs) = Ok (flat_map selected_records subs).
Proof.
  intros subs Hn Hok.
  exact (kern_entries_wellformed k_maskSel kern_flagsWanted k_maskMin k_maskOvr subs Hn Hok).
Qed.

(* which subtables are selected and how their flags are read, spelled out
   against the regenerated masks: horizontal (bit 0) set, cross-stream (bit 2)
   and the reserved bits 4-7 clear; bit 1 = minimum, bit 3 = override *)
Lemma kern_flag_reading_pf : forall flags, flags < 256 ->
  (N.land flags k_maskSel =? kern_flagsWanted) =
    (N.testbit flags 0 && negb (N.testbit flags 2) && (flags <? 16)) /\
  negb (N.land flags k_maskMin =? 0) = N.testbit flags 1 /\
  negb (N.land flags k_maskOvr =? 0) = N.testbit flags 3.
Proof.
  intros flags Hf.
  assert (forallb (fun f =>
            Bool.eqb (N.land f k_maskSel =? kern_flagsWanted)
                     (N.testbit f 0 && negb (N.testbit f 2) && (f <? 16)) &&
            Bool.eqb (negb (N.land f k_maskMin =? 0)) (N.testbit f 1) &&
            Bool.eqb (negb (N.land f k_maskOvr =? 0)) (N.testbit f 3))
          (map N.of_nat (seq 0 256)) = true) as H by (vm_compute; reflexivity).
  rewrite forallb_forall in H. specialize (H flags).
  assert (In flags (map N.of_nat (seq 0 256))) as Hin.
  { apply in_map_iff. exists (N.to_nat flags). split; [apply Nnat.N2Nat.id|]. apply in_seq. lia. }
  specialize (H Hin). rewrite !andb_true_iff in H. destruct H as [[H1 H2] H3].
  apply Bool.eqb_prop in H1, H2, H3. auto.
Qed.

(* ------------------------------------------------------------------ *)
(* outcomes of Layout; text conservation                               *)

Lemma layouter_lookups_outcome {lang : Type} (matcher : lang -> list tagT -> nat) iter1 iter2 defaults
      (t : option (gtab tagT)) (l : lang) sw :
  (forall x, Permutation (iter1 x) x) -> (forall x, Permutation (iter2 x) x) ->
  match t with Some g => NoDup (map fst (gt_scripts g)) | None => True end ->
  layouter_lookups lex_leb matcher iter1 iter2 defaults t l sw = Panic \/
  exists sel, layouter_lookups lex_leb matcher iter1 iter2 defaults t l sw = Ok sel.
Proof.
  intros H1 H2 Hd. unfold layouter_lookups. destruct t as [g|]; [|right; eexists; reflexivity].
  pose proof (find_lookups_wf_pf lang matcher iter1 iter2 H1 H2 (gt_scripts g) (gt_features g)
                (N.of_nat (length (gt_lookups g))) l
                (match sw with Some m => m | None => defaults end) Hd) as Hw.
  destruct (M_find_lookups _ _ _ _ _ _ _ _ _) as [ll| | |]; cbn [obind]; try contradiction.
  - right. eexists. reflexivity.
  - left. reflexivity.
Qed.

Lemma layout_outcome_pf :
  forall (lang : Type) (matcher : lang -> list tagT -> nat) iter1 iter2,
    (forall x, Permutation (iter1 x) x) -> (forall x, Permutation (iter2 x) x) ->
  forall (f : font tagT) (l : lang) gsw psw s,
    match f_gsub f with Some g => NoDup (map fst (gt_scripts g)) | None => True end ->
    match f_gpos f with Some g => NoDup (map fst (gt_scripts g)) | None => True end ->
    layout matcher iter1 iter2 f l gsw psw s = Panic \/
    exists out, layout matcher iter1 iter2 f l gsw psw s = Ok out /\
                flat_map g_text out = s /\ (length out <= length s)%nat.
Proof.
  intros lang matcher iter1 iter2 H1 H2 f l gsw psw s Hd1 Hd2. unfold layout.
  destruct (layouter_lookups_outcome matcher iter1 iter2 gtab_GsubDefaultFeatures (f_gsub f) l gsw H1 H2 Hd1)
    as [E1|[gs E1]]; [left; apply M_layout_panic1; exact E1|].
  destruct (layouter_lookups_outcome matcher iter1 iter2 gtab_GposDefaultFeatures (f_gpos f) l psw H1 H2 Hd2)
    as [E2|[gp E2]]; [left; eapply M_layout_panic2; eassumption|].
  destruct (layout_with_outcome f gs gp s) as [Hp|(out & Ho & R)].
  - left. eapply eq_trans; [apply M_layout_with; eassumption|exact Hp].
  - right. exists out. split; [eapply eq_trans; [apply M_layout_with; eassumption|exact Ho]|exact R].
Qed.

(* ------------------------------------------------------------------ *)
(* ligatures: order of the synthetic table, first match wins           *)

Lemma std_ligs_by_length : by_length_desc sfnt_stdLigatures.
Proof.
  unfold by_length_desc.
  repeat (constructor; [|repeat constructor; cbn; lia]). constructor.
Qed.

Lemma standard_ligatures_longest_first_pf : forall cm g sets first ligs,
  run_std_ligatures cm = Ok (Some g) -> gt_lookups g = [LLiga sets] -> In (first, ligs) sets ->
  StronglySorted (fun a b : ligature => (length (fst b) <= length (fst a))%nat) ligs.
Proof.
  intros cm g sets first ligs Hr Hl Hin.
  unfold run_std_ligatures, M_standard_ligatures in Hr.
  destruct (fold_left _ sfnt_stdLigatures (Ok [])) as [sets'| | |] eqn:E; cbn [obind] in Hr; try discriminate.
  destruct sets' as [|s0 r]; [discriminate|]. inversion Hr; subst g. cbn [gt_lookups] in Hl.
  inversion Hl; subst sets.
  eapply (lig_fold_desc cm sfnt_stdLigatures [] (s0 :: r) std_ligs_by_length); try exact E; try exact Hin.
  - intros k l0 lg [].
  - intros k l0 [].
Qed.

Lemma liga_first_match_wins_pf : forall sets g rest ligs1 ins out ligs2 t tail fuel,
  sets_get sets (g_gid g) = Some (ligs1 ++ (ins, out) :: ligs2) ->
  (forall i o, In (i, o) ligs1 -> lig_match i rest = None) ->
  lig_match ins rest = Some (t, tail) ->
  liga_pass (S fuel) sets (g :: rest) =
  omap (cons (mkG out (g_text g ++ t) 0 0 0)) (liga_pass fuel sets tail).
Proof.
  intros sets g rest ligs1 ins out ligs2 t tail fuel Hs Hn Hm. cbn [liga_pass].
  rewrite Hs, (lig_try_first ligs1 ins out ligs2 g rest t tail Hn Hm). reflexivity.
Qed.

Lemma liga_pass_total_pf : forall sets seq,
  exists out, apply_lookup (LLiga sets) seq = Ok out /\ flat_map g_text out = flat_map g_text seq /\
              (length out <= length seq)%nat.
Proof. intros. exact (apply_lookup_spec (LLiga sets) seq). Qed.
