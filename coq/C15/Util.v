(* C15/Util.v — sorting with a total order: the result of sorting depends
   only on the multiset sorted (so it does not matter in which order a Go map
   was enumerated before sort.Slice), plus small list facts. *)
From Coq Require Import List NArith ZArith Bool Arith Lia Permutation Sorted.
From C15 Require Import Model.
Import ListNotations.

Section SortFacts.
  Context {A : Type}.
  Variable leb : A -> A -> bool.
  Hypothesis leb_total : forall a b, leb a b = true \/ leb b a = true.
  Hypothesis leb_antisym : forall a b, leb a b = true -> leb b a = true -> a = b.
  Hypothesis leb_trans : forall a b c, leb a b = true -> leb b c = true -> leb a c = true.

  Lemma leb_refl a : leb a a = true.
  Proof. destruct (leb_total a a); assumption. Qed.

  Lemma insert_perm x l : Permutation (insert leb x l) (x :: l).
  Proof.
    induction l as [|y r IH]; cbn [insert].
    - apply Permutation_refl.
    - destruct (leb x y).
      + apply Permutation_refl.
      + eapply Permutation_trans; [apply perm_skip; exact IH|apply perm_swap].
  Qed.

  Lemma isort_perm l : Permutation (isort leb l) l.
  Proof.
    induction l as [|x r IH]; cbn [isort].
    - apply Permutation_refl.
    - eapply Permutation_trans; [apply insert_perm|apply perm_skip; exact IH].
  Qed.

  Lemma isort_length l : length (isort leb l) = length l.
  Proof. apply Permutation_length, isort_perm. Qed.

  Lemma isort_in x l : In x (isort leb l) <-> In x l.
  Proof.
    split; apply Permutation_in; [apply isort_perm|apply Permutation_sym, isort_perm].
  Qed.

  Lemma insert_comm x y l : insert leb x (insert leb y l) = insert leb y (insert leb x l).
  Proof.
    induction l as [|a r IH]; cbn [insert].
    - destruct (leb x y) eqn:Hxy, (leb y x) eqn:Hyx; try reflexivity.
      + rewrite (leb_antisym _ _ Hxy Hyx). reflexivity.
      + destruct (leb_total x y); congruence.
    - destruct (leb y a) eqn:Hya, (leb x a) eqn:Hxa; cbn [insert]; rewrite ?Hya, ?Hxa.
      + destruct (leb x y) eqn:Hxy, (leb y x) eqn:Hyx; try reflexivity.
        * rewrite (leb_antisym _ _ Hxy Hyx). reflexivity.
        * destruct (leb_total x y); congruence.
      + destruct (leb x y) eqn:Hxy; [|reflexivity].
        rewrite (leb_trans _ _ _ Hxy Hya) in Hxa. discriminate.
      + destruct (leb y x) eqn:Hyx; [|reflexivity].
        rewrite (leb_trans _ _ _ Hyx Hxa) in Hya. discriminate.
      + rewrite IH. reflexivity.
  Qed.

  (* the heart of order independence *)
  Lemma isort_perm_eq l l' : Permutation l l' -> isort leb l = isort leb l'.
  Proof.
    induction 1 as [|x l l' _ IH|x y l|l l' l'' _ IH1 _ IH2]; cbn [isort].
    - reflexivity.
    - rewrite IH. reflexivity.
    - apply insert_comm.
    - congruence.
  Qed.

  Definition le_rel (a b : A) : Prop := leb a b = true.

  Lemma insert_sorted x l : StronglySorted le_rel l -> StronglySorted le_rel (insert leb x l).
  Proof.
    induction 1 as [|y r Hs IH Hall]; cbn [insert].
    - constructor; constructor.
    - destruct (leb x y) eqn:Hxy.
      + constructor; [constructor; assumption|].
        constructor; [exact Hxy|].
        rewrite Forall_forall in *. intros z Hz. eapply leb_trans; [exact Hxy|apply Hall, Hz].
      + constructor; [exact IH|].
        rewrite Forall_forall in *. intros z Hz.
        apply (Permutation_in _ (insert_perm x r)) in Hz. destruct Hz as [<-|Hz].
        * destruct (leb_total x y) as [H|H]; [congruence|exact H].
        * apply Hall, Hz.
  Qed.

  Lemma isort_sorted l : StronglySorted le_rel (isort leb l).
  Proof.
    induction l as [|x r IH]; cbn [isort]; [constructor|apply insert_sorted, IH].
  Qed.
End SortFacts.

(* ---- the two concrete orders ---- *)

Lemma Nleb_total a b : N.leb a b = true \/ N.leb b a = true.
Proof. rewrite !N.leb_le. lia. Qed.
Lemma Nleb_antisym a b : N.leb a b = true -> N.leb b a = true -> a = b.
Proof. rewrite !N.leb_le. lia. Qed.
Lemma Nleb_trans a b c : N.leb a b = true -> N.leb b c = true -> N.leb a c = true.
Proof. rewrite !N.leb_le. lia. Qed.

Lemma lex_leb_total a b : lex_leb a b = true \/ lex_leb b a = true.
Proof.
  revert b. induction a as [|x a IH]; intros [|y b]; cbn [lex_leb]; auto.
  destruct (N.ltb_spec x y), (N.ltb_spec y x); auto; try lia.
Qed.

Lemma lex_leb_antisym a b : lex_leb a b = true -> lex_leb b a = true -> a = b.
Proof.
  revert b. induction a as [|x a IH]; intros [|y b]; cbn [lex_leb]; try congruence.
  destruct (N.ltb_spec x y), (N.ltb_spec y x); try congruence; try lia.
  intros H1 H2. assert (x = y) by lia. subst. f_equal. apply IH; assumption.
Qed.

Lemma lex_leb_trans a b c : lex_leb a b = true -> lex_leb b c = true -> lex_leb a c = true.
Proof.
  revert b c. induction a as [|x a IH]; intros [|y b] [|z c]; cbn [lex_leb]; try congruence.
  destruct (N.ltb_spec x y), (N.ltb_spec y x), (N.ltb_spec y z), (N.ltb_spec z y),
    (N.ltb_spec x z), (N.ltb_spec z x); try congruence; try lia.
  apply IH.
Qed.

(* strictly ascending = sorted by <= and duplicate-free *)
Lemma sorted_nodup_lt (l : list N) :
  StronglySorted (le_rel N.leb) l -> NoDup l -> StronglySorted N.lt l.
Proof.
  induction 1 as [|x r Hs IH Hall]; intros Hnd; [constructor|].
  inversion Hnd as [|? ? Hnin Hnd']; subst.
  constructor; [apply IH, Hnd'|].
  rewrite Forall_forall in *. intros y Hy.
  specialize (Hall y Hy). unfold le_rel in Hall. apply N.leb_le in Hall.
  assert (x <> y) by (intros ->; contradiction). lia.
Qed.

Lemma sorted_lt_nodup (l : list N) : StronglySorted N.lt l -> NoDup l.
Proof.
  induction 1 as [|x r Hs IH Hall]; constructor; [|exact IH].
  intros Hin. rewrite Forall_forall in Hall. specialize (Hall x Hin). lia.
Qed.

Lemma NoDup_filter {A} (f : A -> bool) l : NoDup l -> NoDup (filter f l).
Proof.
  induction 1 as [|x l Hn Hd IH]; cbn [filter]; [constructor|].
  destruct (f x); [constructor; [|exact IH]|exact IH].
  rewrite filter_In. tauto.
Qed.

Lemma Permutation_filter {A} (f : A -> bool) l l' :
  Permutation l l' -> Permutation (filter f l) (filter f l').
Proof.
  induction 1 as [|x l l' _ IH|x y l|l l' l'' _ IH1 _ IH2]; cbn [filter].
  - constructor.
  - destruct (f x); [apply perm_skip|]; exact IH.
  - destruct (f x), (f y); try apply Permutation_refl. apply perm_swap.
  - eapply Permutation_trans; eassumption.
Qed.
