(* C15/Proofs_liga.v — the ligature pass of the synthetic GSUB table: fuel
   suffices, the text is conserved, the sequence never grows; outcomes of
   the whole Layout model. *)
From Coq Require Import List NArith ZArith Bool Arith Lia Permutation Sorted.
From Common Require Import Bytes Outcome.
From C15 Require Import Model Spec Util Proofs_find Proofs_kern Proofs_layout.
Import ListNotations.
Local Open Scope N_scope.

Definition text_of (seq : list ginfo) : list N := flat_map g_text seq.

Lemma lig_match_spec ins : forall rest t tail,
  lig_match ins rest = Some (t, tail) ->
  exists matched, rest = matched ++ tail /\ t = text_of matched /\
                  map g_gid matched = ins.
Proof.
  induction ins as [|c ins IH]; intros rest t tail H; cbn [lig_match] in H.
  - inversion H; subst. exists []. auto.
  - destruct rest as [|g rest']; [discriminate|].
    destruct (N.eqb_spec (g_gid g) c) as [He|]; [|discriminate].
    destruct (lig_match ins rest') as [[t' tail']|] eqn:E; [|discriminate].
    inversion H; subst. destruct (IH _ _ _ E) as (m & -> & -> & Hm).
    exists (g :: m). cbn [app text_of flat_map map]. rewrite Hm. auto.
Qed.

Lemma lig_try_spec ligs g rest g' tail :
  lig_try ligs g rest = Some (g', tail) ->
  exists ins out matched, In (ins, out) ligs /\ rest = matched ++ tail /\
    map g_gid matched = ins /\
    g' = mkG out (g_text g ++ text_of matched) 0 0 0.
Proof.
  induction ligs as [|[ins out] more IH]; cbn [lig_try]; [discriminate|].
  destruct (lig_match ins rest) as [[t tl]|] eqn:E.
  - intros H. inversion H; subst. destruct (lig_match_spec _ _ _ _ E) as (m & -> & -> & Hm).
    exists ins, out, m. split; [left; reflexivity|auto].
  - intros H. destruct (IH H) as (i & o & m & Hin & R). exists i, o, m. split; [right; exact Hin|exact R].
Qed.

(* the first ligature of the set that matches wins *)
Lemma lig_try_first ligs1 ins out ligs2 g rest t tail :
  (forall i o, In (i, o) ligs1 -> lig_match i rest = None) ->
  lig_match ins rest = Some (t, tail) ->
  lig_try (ligs1 ++ (ins, out) :: ligs2) g rest = Some (mkG out (g_text g ++ t) 0 0 0, tail).
Proof.
  intros Hn Hm. induction ligs1 as [|[i o] l1 IH]; cbn [app lig_try].
  - rewrite Hm. reflexivity.
  - rewrite (Hn i o (or_introl eq_refl)). apply IH. intros i' o' H. apply (Hn i' o'). right. exact H.
Qed.

Lemma liga_pass_spec sets : forall fuel seq, (length seq <= fuel)%nat ->
  exists out, liga_pass fuel sets seq = Ok out /\ text_of out = text_of seq /\
              (length out <= length seq)%nat.
Proof.
  induction fuel as [|fuel IH]; intros seq Hf.
  - destruct seq; [|cbn in Hf; lia]. exists []. auto.
  - destruct seq as [|g rest]; [exists []; auto|]. cbn [liga_pass].
    cbn [length] in Hf.
    destruct (match sets_get sets (g_gid g) with Some ligs => lig_try ligs g rest | None => None end)
      as [[g' tail]|] eqn:E.
    + destruct (sets_get sets (g_gid g)) as [ligs|]; [|discriminate].
      destruct (lig_try_spec _ _ _ _ _ E) as (ins & o & m & _ & -> & _ & ->).
      rewrite app_length in Hf.
      destruct (IH tail) as (out & -> & Ht & Hl); [lia|].
      exists (mkG o (g_text g ++ text_of m) 0 0 0 :: out). cbn [omap obind]. split; [reflexivity|].
      unfold text_of in *. cbn [flat_map g_text]. rewrite flat_map_app, Ht, <- app_assoc.
      split; [reflexivity|]. cbn [length]. rewrite app_length. lia.
    + destruct (IH rest) as (out & -> & Ht & Hl); [lia|].
      exists (g :: out). cbn [omap obind]. split; [reflexivity|].
      unfold text_of in *. cbn [flat_map]. rewrite Ht. split; [reflexivity|cbn [length]; lia].
Qed.

Lemma pair_pass_text km seq : text_of (pair_pass km seq) = text_of seq.
Proof.
  unfold text_of. induction seq as [|g1 rest IH]; cbn [pair_pass]; [reflexivity|].
  destruct rest as [|g2 rest']; [reflexivity|].
  cbn [flat_map] in *. rewrite IH. f_equal.
  destruct (kmap_get km _); reflexivity.
Qed.

Lemma apply_lookup_spec lk seq :
  exists out, apply_lookup lk seq = Ok out /\ text_of out = text_of seq /\ (length out <= length seq)%nat.
Proof.
  destruct lk as [|km|sets]; cbn [apply_lookup].
  - exists seq. auto.
  - exists (pair_pass km seq). split; [reflexivity|]. split; [apply pair_pass_text|].
    rewrite pair_pass_length. lia.
  - apply liga_pass_spec. lia.
Qed.

Lemma apply_all_spec ll sel : forall seq,
  exists out, apply_all ll sel seq = Ok out /\ text_of out = text_of seq /\ (length out <= length seq)%nat.
Proof.
  induction sel as [|i more IH]; intros seq; cbn [apply_all].
  - exists seq. auto.
  - destruct (nth_error ll (N.to_nat i)) as [lk|]; [|apply IH].
    destruct (apply_lookup_spec lk seq) as (s1 & -> & Ht1 & Hl1). cbn [obind].
    destruct (IH s1) as (out & He & Ht & Hl). exists out. split; [exact He|].
    split; [congruence|lia].
Qed.

Lemma apply_table_spec {tag} (t : option (gtab tag)) sel seq :
  exists out, apply_table t sel seq = Ok out /\ text_of out = text_of seq /\ (length out <= length seq)%nat.
Proof.
  unfold apply_table. destruct t as [g|]; [|exists seq; auto].
  destruct sel as [ls|]; [apply apply_all_spec|exists seq; auto].
Qed.

Lemma set_widths_cases o gdef seq :
  set_widths o gdef seq = Panic \/
  exists out, set_widths o gdef seq = Ok out /\ text_of out = text_of seq /\ length out = length seq.
Proof.
  induction seq as [|g rest IH]; cbn [set_widths].
  - right. exists []. auto.
  - assert (Hkeep : (g' <- Ok g ;; rest' <- set_widths o gdef rest ;; Ok (g' :: rest')) = Panic \/
                    exists out, (g' <- Ok g ;; rest' <- set_widths o gdef rest ;; Ok (g' :: rest')) = Ok out /\
                                text_of out = text_of (g :: rest) /\ length out = length (g :: rest)).
    { cbn [obind]. destruct IH as [->|(out & -> & Ht & Hl)]; [left; reflexivity|].
      right. exists (g :: out). cbn [obind]. split; [reflexivity|].
      unfold text_of in *. cbn [flat_map length]. rewrite Ht, Hl. auto. }
    destruct (num_glyphs o <=? g_gid g); [exact Hkeep|].
    destruct (is_mark gdef (g_gid g)); [exact Hkeep|].
    destruct (glyph_width_cases o (g_gid g)) as [[w ->]| ->]; cbn [obind]; [|left; reflexivity].
    destruct IH as [->|(out & -> & Ht & Hl)]; [left; reflexivity|].
    right. eexists. cbn [obind]. split; [reflexivity|].
    unfold text_of in *. cbn [flat_map length g_text]. rewrite Ht, Hl. auto.
Qed.

Lemma text_of_seq0 cm s : text_of (seq0 cm s) = s.
Proof.
  unfold text_of, seq0. induction s as [|r s IH]; [reflexivity|].
  cbn [map flat_map g_text app]. rewrite IH. reflexivity.
Qed.

(* Layout for given selections: Ok or Panic, never Err / OutOfFuel; when it
   returns, the glyphs' texts spell the input and there are at most as many
   glyphs as characters *)
Lemma layout_with_outcome {tag} (f : font tag) gs gp s :
  layout_with f gs gp s = Panic \/
  exists out, layout_with f gs gp s = Ok out /\ text_of out = s /\ (length out <= length s)%nat.
Proof.
  unfold layout_with. fold (seq0 (f_cmap f) s).
  destruct (apply_table_spec (f_gsub f) gs (seq0 (f_cmap f) s)) as (s1 & -> & Ht1 & Hl1). cbn [obind].
  destruct (set_widths_cases (f_outlines f) (f_gdef f) s1) as [->|(s2 & -> & Ht2 & Hl2)];
    [left; reflexivity|]. cbn [obind].
  destruct (apply_table_spec (f_gpos f) gp s2) as (out & -> & Ht3 & Hl3).
  right. exists out. split; [reflexivity|].
  rewrite text_of_seq0 in Ht1. unfold seq0 in Hl1. rewrite map_length in Hl1.
  split; [congruence|lia].
Qed.

(* ------------------------------------------------------------------ *)
(* the synthetic table lists longer ligatures first                    *)

Definition desc (ligs : list ligature) : Prop :=
  StronglySorted (fun a b : ligature => (length (fst b) <= length (fst a))%nat) ligs.

Definition by_length_desc (all : list (list N)) : Prop :=
  StronglySorted (fun a b : list N => (length b <= length a)%nat) all.

Lemma desc_snoc v lg :
  desc v -> (forall x, In x v -> (length (fst lg) <= length (fst x))%nat) -> desc (v ++ [lg]).
Proof.
  unfold desc. induction 1 as [|a v Hs IH Hall]; intros Hb; cbn [app].
  - constructor; constructor.
  - constructor.
    + apply IH. intros x Hx. apply Hb. right. exact Hx.
    + rewrite Forall_forall in *. intros x Hx. apply in_app_iff in Hx.
      destruct Hx as [Hx|[<-|[]]]; [apply Hall, Hx|apply Hb; left; reflexivity].
Qed.

Lemma sets_append_in sets k lg k' ligs :
  In (k', ligs) (sets_append sets k lg) ->
  In (k', ligs) sets \/ (k' = k /\ ligs = [lg]) \/
  (k' = k /\ exists v, In (k, v) sets /\ ligs = v ++ [lg]).
Proof.
  induction sets as [|[k2 v2] r IH]; cbn [sets_append In].
  - intros [H|[]]. inversion H; subst. auto.
  - destruct (N.ltb_spec k k2) as [Hlt|Hge].
    + cbn [In]. intros [H|[H|H]]; [inversion H; subst; auto|auto|auto].
    + destruct (N.eqb_spec k k2) as [He|Hne].
      * subst k2. cbn [In]. intros [H|H]; [|auto].
        inversion H; subst. right. right. split; [reflexivity|]. exists v2. auto.
      * cbn [In]. intros [H|H]; [auto|].
        destruct (IH H) as [H'|[H'|(-> & v & Hv & ->)]]; [auto|auto|].
        right. right. split; [reflexivity|]. exists v. auto.
Qed.

Lemma lig_fold_desc cm : forall all sets0 sets,
  by_length_desc all ->
  (forall k ligs lg, In (k, ligs) sets0 -> In lg ligs ->
     forall lig, In lig all -> (length lig <= length (fst lg) + 2)%nat) ->
  (forall k ligs, In (k, ligs) sets0 -> desc ligs) ->
  fold_left (fun acc lig => s <- acc ;; lig_step cm s lig) all (Ok sets0) = Ok sets ->
  forall k ligs, In (k, ligs) sets -> desc ligs.
Proof.
  induction all as [|lig all IH]; intros sets0 sets Hsorted Hbound Hdesc; cbn [fold_left].
  - intros H. inversion H; subst. exact Hdesc.
  - inversion Hsorted as [|? ? Hs' Hall]; subst. rewrite Forall_forall in Hall.
    cbn [obind]. unfold lig_step at 2.
    destruct (existsb _ _).
    + apply IH; [exact Hs'| |exact Hdesc].
      intros k ligs lg H1 H2 lig' H3. apply (Hbound k ligs lg H1 H2). right. exact H3.
    + destruct (map (cmap_lookup cm) lig) as [|out [|first ins]] eqn:Em.
      * intros H. exfalso. clear -H. induction all; cbn [fold_left obind] in H; [discriminate|auto].
      * intros H. exfalso. clear -H. induction all; cbn [fold_left obind] in H; [discriminate|auto].
      * assert (length lig = S (S (length ins))) as Hlen.
        { apply (f_equal (@length N)) in Em. rewrite map_length in Em. exact Em. }
        apply IH; [exact Hs'| |].
        -- intros k ligs lg H1 H2 lig' H3.
           destruct (sets_append_in _ _ _ _ _ H1) as [H|[(-> & ->)|(-> & v & Hv & ->)]].
           ++ apply (Hbound k ligs lg H H2). right. exact H3.
           ++ destruct H2 as [<-|[]]. cbn [fst]. specialize (Hall lig' H3). lia.
           ++ apply in_app_iff in H2. destruct H2 as [H2|[<-|[]]].
              ** apply (Hbound first v lg Hv H2). right. exact H3.
              ** cbn [fst]. specialize (Hall lig' H3). lia.
        -- intros k ligs H1.
           destruct (sets_append_in _ _ _ _ _ H1) as [H|[(-> & ->)|(-> & v & Hv & ->)]].
           ++ apply (Hdesc k ligs H).
           ++ constructor; constructor.
           ++ apply desc_snoc; [apply (Hdesc first v Hv)|].
              intros x Hx. cbn [fst].
              specialize (Hbound first v x Hv Hx lig (or_introl eq_refl)). lia.
Qed.
