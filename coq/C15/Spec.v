(* C15/Spec.v — specification-side definitions, written from the property
   text: what Layout must return when no rule applies, what "kerned by the
   table's value" means, which ligatures a font "contains". *)
From Coq Require Import List NArith ZArith Bool Arith.
From Common Require Import Bytes Outcome.
From C15 Require Import Model.
Import ListNotations.
Local Open Scope N_scope.

(* the advance the font gives a glyph: 0 for a glyph id the font does not
   have (>= NumGlyphs; fixes/C07-layout-gid-beyond-font.diff), 0 for GDEF
   marks, the glyph's width otherwise; None when a glyph below NumGlyphs has
   no entry in the width slice (GlyphWidth indexes out of range) *)
Definition S_advance (o : outlines) (gdef : option (list (N * N))) (gid : N) : option Z :=
  if num_glyphs o <=? gid then Some 0%Z
  else if is_mark gdef gid then Some 0%Z
  else match glyph_width o gid with Ok w => Some w | _ => None end.

(* the width slice has one entry per glyph: what sfnt.Read delivers (glyf:
   hmtx is read for NumGlyphs glyphs; CFF: the width is part of the glyph) *)
Definition outlines_consistent (o : outlines) : Prop :=
  match o with
  | OGlyf n (Some w) => n = N.of_nat (length w)
  | OGlyf _ None => True      (* GlyphWidth returns 0 for every glyph *)
  | OCff _ => True
  end.

(* no character of the string maps to a glyph below NumGlyphs that lacks a
   width (always true for consistent outlines: glyphs_exist_consistent) *)
Definition glyphs_exist (cm : list (N * N)) (o : outlines) (gdef : option (list (N * N))) (s : list N) : Prop :=
  forall r, In r s -> S_advance o gdef (cmap_lookup cm r) <> None.

(* one glyph per character, carrying that character and the font's advance *)
Definition S_identity_glyph (cm : list (N * N)) (o : outlines) (gdef : option (list (N * N))) (r : N) : ginfo :=
  let gid := cmap_lookup cm r in
  mkG gid [r] 0 0 (match S_advance o gdef gid with Some w => w | None => 0%Z end).

Definition S_identity (cm : list (N * N)) (o : outlines) (gdef : option (list (N * N))) (s : list N) : list ginfo :=
  map (S_identity_glyph cm o gdef) s.

(* kerning: glyph i is moved by the table's value for (glyph i, glyph i+1);
   nothing else changes.  kv = the table read pair by pair. *)
Definition S_kern_glyph (kv : N -> option Z) (g : ginfo) (next : option ginfo) : ginfo :=
  match next with
  | Some g2 => match kv (g_gid g * 65536 + g_gid g2) with
               | Some v => mkG (g_gid g) (g_text g) (g_xoff g) (g_yoff g) (wrapi16 (g_adv g + v))
               | None => g
               end
  | None => g
  end.

(* a lookup that leaves this sequence alone: "no applicable rule" *)
Definition inert (lk : lookup) (seq : list ginfo) : Prop := apply_lookup lk seq = Ok seq.

Definition inert_selection (ll : list lookup) (sel : list N) (seq : list ginfo) : Prop :=
  forall i lk, In i sel -> nth_error ll (N.to_nat i) = Some lk -> inert lk seq.

Definition inert_table {tag} (t : option (gtab tag)) (sel : option (list N)) (seq : list ginfo) : Prop :=
  match t, sel with
  | Some g, Some ls => inert_selection (gt_lookups g) ls seq
  | _, _ => True
  end.

(* the standard ligatures a font contains: ligature character and all
   component characters mapped to a glyph other than .notdef *)
Definition lig_available (cm : list (N * N)) (lig : list N) : Prop :=
  forall r, In r lig -> cmap_lookup cm r <> 0.

(* the rules of a synthetic ligature table, flattened: first glyph, rest, result *)
Definition lig_rules (sets : list (N * list ligature)) : list (N * list N * N) :=
  flat_map (fun s => map (fun lg => (fst s, fst lg, snd lg)) (snd s)) sets.
