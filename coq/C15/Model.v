(* C15/Model.v — executable models for end-to-end layout.

   M_find_lookups   mirrors gtab.Info.FindLookups (opentype/gtab/lookup.go),
                    as repaired by fixes/C15-findlookups-order.diff (the tags
                    collected from the script-list map are sorted by their
                    String() before the matcher sees them).  Go's two map
                    iterations are explicit: [iter1] is the order in which
                    `range info.ScriptList` enumerates, [iter2] the order in
                    which `range includeLookup` enumerates.  The x/text matcher
                    is the Section variable [matcher].
   M_kern_read      mirrors kern.Read (kern/kern.go), as repaired by
                    fixes/C02-kern-overlapping-subtables.diff
   kern_to_gpos     mirrors the kern -> GPOS conversion in sfnt.Read (read.go)
   M_standard_ligatures   mirrors standardLigatures (ligatures.go)
   M_layout         mirrors Font.NewLayouter / Layouter.Layout (layout.go)
                    over the fragment of the shaping engine that read.go itself
                    synthesises (pair adjustment from kern, ligature table from
                    the cmap) plus lookups without subtables.

   Definitions only; proofs are in Proofs*.v. *)
From Coq Require Import List NArith ZArith Bool Arith.
From Common Require Import Bytes Outcome.
Import ListNotations.
Local Open Scope N_scope.

(* ------------------------------------------------------------------ *)
(* Sorting (sort.Slice on a strict total order: the result is unique)  *)

Section Sort.
  Context {A : Type}.
  Variable leb : A -> A -> bool.

  Fixpoint insert (x : A) (l : list A) : list A :=
    match l with
    | [] => [x]
    | y :: r => if leb x y then x :: l else y :: insert x r
    end.

  Fixpoint isort (l : list A) : list A :=
    match l with
    | [] => []
    | x :: r => insert x (isort r)
    end.
End Sort.

(* byte-wise lexicographic order: Go's `<` on strings *)
Fixpoint lex_leb (a b : list N) : bool :=
  match a, b with
  | [], _ => true
  | _ :: _, [] => false
  | x :: a', y :: b' => if x <? y then true else if y <? x then false else lex_leb a' b'
  end.

(* ------------------------------------------------------------------ *)
(* GSUB/GPOS header structures                                         *)

(* gtab.Features: Required (0xFFFF = none) and Optional feature indices *)
Record features : Type := mkFeatures { fs_required : N; fs_optional : list N }.

(* gtab.Feature: tag (4 bytes, big-endian number) and lookup indices *)
Record feature : Type := mkFeature { ft_tag : N; ft_lookups : list N }.

(* map[string]bool; a missing key reads as false *)
Definition switches := list (N * bool).

Definition sw_get (sw : switches) (t : N) : bool :=
  match find (fun p => fst p =? t) sw with
  | Some p => snd p
  | None => false
  end.

(* map[LookupIndex]bool with all values true: duplicate-free list of keys *)
Definition set_add (x : N) (s : list N) : list N :=
  if existsb (N.eqb x) s then s else s ++ [x].

Definition set_add_all (xs : list N) (s : list N) : list N :=
  fold_left (fun s x => set_add x s) xs s.

Definition u16 (x : N) : N := x mod 65536.

Section FindLookups.
  Context {tag lang : Type}.
  Variable tag_leb : tag -> tag -> bool.      (* order of Tag.String() *)
  Variable matcher : lang -> list tag -> nat. (* language.NewMatcher(tags).Match(lang): index *)
  Variable iter1 : list (tag * option features) -> list (tag * option features).
  Variable iter2 : list N -> list N.

  Definition tag_eqb (a b : tag) : bool := tag_leb a b && tag_leb b a.

  (* map lookup; the value may be a nil pointer *)
  Fixpoint sl_get (sl : list (tag * option features)) (t : tag) : option (option features) :=
    match sl with
    | [] => None
    | (k, v) :: r => if tag_eqb k t then Some v else sl_get r t
    end.

  (* the part of FindLookups after the language system is chosen *)
  Definition opt_step (fl : list feature) (numFeatures : N) (sw : switches)
             (acc : outcome (list N)) (f : N) : outcome (list N) :=
    s <- acc ;;
    if numFeatures <=? f then Ok s
    else match nth_error fl (N.to_nat f) with
         | None => Panic
         | Some ft => if sw_get sw (ft_tag ft) then Ok (set_add_all (ft_lookups ft) s) else Ok s
         end.

  Definition M_select (fl : list feature) (nLookups : N) (sw : switches) (fs : features)
    : outcome (list N) :=
    let numFeatures := u16 (N.of_nat (length fl)) in
    inc0 <- (if fs_required fs <? numFeatures then
               match nth_error fl (N.to_nat (fs_required fs)) with
               | None => Panic
               | Some ft => Ok (set_add_all (ft_lookups ft) [])
               end
             else Ok []) ;;
    inc <- fold_left (opt_step fl numFeatures sw) (fs_optional fs) (Ok inc0) ;;
    let numLookups := u16 nLookups in
    Ok (isort N.leb (filter (fun l => l <? numLookups) (iter2 inc))).

  Definition choose (sorted : bool) (sl : list (tag * option features)) (l : lang)
    : outcome (option features) :=
    let tags0 := map fst (iter1 sl) in
    let tags := if sorted then isort tag_leb tags0 else tags0 in
    match nth_error tags (matcher l tags) with
    | None => Panic
    | Some t => match sl_get sl t with
                | Some (Some fs) => Ok (Some fs)
                | _ => Ok None
                end
    end.

  Definition find_lookups_gen (sorted : bool) (sl : list (tag * option features))
             (fl : list feature) (nLookups : N) (l : lang) (sw : switches) : outcome (list N) :=
    match sl with
    | [] => Ok []
    | _ :: _ =>
        c <- choose sorted sl l ;;
        match c with
        | None => Ok []
        | Some fs => M_select fl nLookups sw fs
        end
    end.

  (* the repaired code *)
  Definition M_find_lookups := find_lookups_gen true.
  (* the code before fixes/C15-findlookups-order.diff *)
  Definition M_find_lookups_unsorted := find_lookups_gen false.
End FindLookups.

(* ------------------------------------------------------------------ *)
(* kern.Read                                                           *)

(* one pair record as it is processed: minimum?, override?, left, right, value *)
Definition kentry : Type := (bool * bool * N * N * Z)%type.

Definition ke_key (e : kentry) : N := let '(_, _, l, r, _) := e in l * 65536 + r.

Fixpoint read_pairs (mn ov : bool) (n : nat) (l : list N) : option (list kentry) :=
  match n with
  | O => Some []
  | S n' =>
      match l with
      | b0 :: b1 :: b2 :: b3 :: b4 :: b5 :: r =>
          match read_pairs mn ov n' r with
          | Some es => Some ((mn, ov, b0 * 256 + b1, b2 * 256 + b3, to_i16 (b4 * 256 + b5)) :: es)
          | None => None
          end
      | _ => None
      end
  end.

Section KernRead.
  Variable minLen : N.       (* 6+8 *)
  Variable maskSel : N.      (* 0b11110101 *)
  Variable wanted : N.       (* 1 *)
  Variable maskMin : N.      (* 0b00000010 *)
  Variable maskOvr : N.      (* 0b00001000 *)

  (* the subtable loop: n tables left, next subtable at offset pos *)
  Fixpoint kern_tables (n : nat) (b : list N) (pos : nat) : outcome (list kentry) :=
    match n with
    | O => Ok []
    | S n' =>
        match skipn pos b with
        | h0 :: h1 :: h2 :: h3 :: h4 :: h5 :: rest =>
            let ver := h0 * 256 + h1 in
            let len := h2 * 256 + h3 in
            if len <? minLen then Err
            else
              let pos' := (pos + N.to_nat len)%nat in
              if negb (ver =? 0) || negb (h4 =? 0) || negb (N.land h5 maskSel =? wanted) then
                kern_tables n' b pos'
              else
                match rest with
                | n0 :: n1 :: rest2 =>
                    let mn := negb (N.land h5 maskMin =? 0) in
                    let ov := negb (N.land h5 maskOvr =? 0) in
                    let np := N.to_nat (n0 * 256 + n1) in
                    match read_pairs mn ov np (skipn 6 rest2) with
                    | None => Err
                    | Some es =>
                        (* subtables do not overlap: q = p.Pos() after the pair
                           loop; if q > pos { pos = q }
                           (fixes/C02-kern-overlapping-subtables.diff) *)
                        let q := (pos + 14 + 6 * np)%nat in
                        match kern_tables n' b (if (pos' <? q)%nat then q else pos') with
                        | Ok more => Ok (es ++ more)
                        | o => o
                        end
                    end
                | _ => Err
                end
        | _ => Err
        end
    end.

  Definition kern_entries (version : N) (b : list N) : outcome (list kentry) :=
    match b with
    | v0 :: v1 :: t0 :: t1 :: _ =>
        if negb (v0 * 256 + v1 =? version) then Err
        else kern_tables (N.to_nat (t0 * 256 + t1)) b 4
    | _ => Err
    end.
End KernRead.

(* kern.Info = map[glyph.Pair]funit.Int16, as an association list sorted by
   key = Left*65536+Right *)
Definition kmap := list (N * Z).

Fixpoint kmap_get (m : kmap) (k : N) : option Z :=
  match m with
  | [] => None
  | (k', v) :: r => if k' =? k then Some v else kmap_get r k
  end.

Fixpoint kmap_set (m : kmap) (k : N) (v : Z) : kmap :=
  match m with
  | [] => [(k, v)]
  | (k', v') :: r =>
      if k <? k' then (k, v) :: m
      else if k =? k' then (k, v) :: r
      else (k', v') :: kmap_set r k v
  end.

(* int16 arithmetic wraps *)
Definition wrapi16 (z : Z) : Z := to_i16 (of_i16 z).

(* the three update rules, on the current value (0 when the key is missing);
   None = the map is left alone *)
Definition kern_rule (mn ov : bool) (cur : option Z) (v : Z) : option Z :=
  let c := match cur with Some c => c | None => 0%Z end in
  if mn then (if (c <? v)%Z then Some v else cur)
  else if ov then Some v
  else Some (wrapi16 (c + v)).

Definition kern_step (m : kmap) (e : kentry) : kmap :=
  let '(mn, ov, _, _, v) := e in
  let k := ke_key e in
  match kern_rule mn ov (kmap_get m k) v with
  | Some v' => kmap_set m k v'
  | None => m
  end.

Definition kern_acc (es : list kentry) : kmap := fold_left kern_step es [].

(* S: the value of one pair, read directly off the table: fold the update
   rules over the records of that pair, in file order, without any map *)
Definition S_pair_value (es : list kentry) (k : N) : option Z :=
  fold_left (fun acc e => if ke_key e =? k
                          then (let '(mn, ov, _, _, v) := e in kern_rule mn ov acc v)
                          else acc) es None.

(* ------------------------------------------------------------------ *)
(* Glyph sequences and the engine fragment                             *)

Record ginfo : Type := mkG { g_gid : N; g_text : list N; g_xoff : Z; g_yoff : Z; g_adv : Z }.

(* one ligature of a Gsub4_1 ligature set: remaining components, result *)
Definition ligature : Type := (list N * N)%type.

Inductive lookup : Type :=
| LNone                                   (* a lookup table without subtables *)
| LPair (km : kmap)                       (* type 2, flags 0, one Gpos2_1 whose records are {First:{XAdvance:v}} *)
| LLiga (sets : list (N * list ligature)) (* type 4, flags 0, one Gsub4_1: first glyph -> ligature set *)
.

Definition add_adv (g : ginfo) (v : Z) : ginfo :=
  mkG (g_gid g) (g_text g) (g_xoff g) (g_yoff g) (wrapi16 (g_adv g + v)).

(* Context.Apply for one LPair lookup: at every position a the pair
   (seq[a], seq[a+1]) is looked up and the first glyph's advance adjusted;
   the scan continues at a+1 *)
Fixpoint pair_pass (km : kmap) (seq : list ginfo) : list ginfo :=
  match seq with
  | g1 :: rest =>
      match rest with
      | g2 :: _ =>
          (match kmap_get km (g_gid g1 * 65536 + g_gid g2) with
           | Some v => add_adv g1 v
           | None => g1
           end) :: pair_pass km rest
      | [] => seq
      end
  | [] => []
  end.

(* Gsub4_1.apply with keep = nil: does the ligature match the glyphs after
   position a?  returns the matched glyphs' texts and the remaining tail *)
Fixpoint lig_match (ins : list N) (rest : list ginfo) : option (list N * list ginfo) :=
  match ins with
  | [] => Some ([], rest)
  | c :: ins' =>
      match rest with
      | g :: rest' =>
          if g_gid g =? c then
            match lig_match ins' rest' with
            | Some (t, tail) => Some (g_text g ++ t, tail)
            | None => None
            end
          else None
      | [] => None
      end
  end.

Fixpoint lig_try (ligs : list ligature) (g : ginfo) (rest : list ginfo) : option (ginfo * list ginfo) :=
  match ligs with
  | [] => None
  | (ins, out) :: more =>
      match lig_match ins rest with
      | Some (t, tail) => Some (mkG out (g_text g ++ t) 0 0 0, tail)
      | None => lig_try more g rest
      end
  end.

Fixpoint sets_get (sets : list (N * list ligature)) (gid : N) : option (list ligature) :=
  match sets with
  | [] => None
  | (k, v) :: r => if k =? gid then Some v else sets_get r gid
  end.

Fixpoint liga_pass (fuel : nat) (sets : list (N * list ligature)) (seq : list ginfo)
  : outcome (list ginfo) :=
  match seq with
  | [] => Ok []
  | g :: rest =>
      match fuel with
      | O => OutOfFuel
      | S fuel' =>
          match (match sets_get sets (g_gid g) with
                 | Some ligs => lig_try ligs g rest
                 | None => None
                 end) with
          | Some (g', tail) => omap (cons g') (liga_pass fuel' sets tail)
          | None => omap (cons g) (liga_pass fuel' sets rest)
          end
      end
  end.

Definition apply_lookup (lk : lookup) (seq : list ginfo) : outcome (list ginfo) :=
  match lk with
  | LNone => Ok seq
  | LPair km => Ok (pair_pass km seq)
  | LLiga sets => liga_pass (length seq) sets seq
  end.

(* Context.Apply: the selected lookups in order; indices beyond the lookup
   list are skipped *)
Fixpoint apply_all (ll : list lookup) (sel : list N) (seq : list ginfo) : outcome (list ginfo) :=
  match sel with
  | [] => Ok seq
  | i :: more =>
      match nth_error ll (N.to_nat i) with
      | None => apply_all ll more seq
      | Some lk => seq' <- apply_lookup lk seq ;; apply_all ll more seq'
      end
  end.

(* ------------------------------------------------------------------ *)
(* Fonts                                                               *)

Record gtab (tag : Type) : Type := mkGtab {
  gt_scripts : list (tag * option features);
  gt_features : list feature;
  gt_lookups : list lookup
}.
Arguments mkGtab {tag}.
Arguments gt_scripts {tag}.
Arguments gt_features {tag}.
Arguments gt_lookups {tag}.

Inductive outlines : Type :=
| OGlyf (nglyphs : N) (widths : option (list Z))   (* len(glyf.Outlines.Glyphs); glyf.Outlines.Widths, possibly nil *)
| OCff (widths : list Z).            (* cff.Outlines.Glyphs[i].Width *)

(* Font.NumGlyphs() = len(Outlines.Glyphs) *)
Definition num_glyphs (o : outlines) : N :=
  match o with
  | OGlyf n _ => n
  | OCff w => N.of_nat (length w)
  end.

Record font (tag : Type) : Type := mkFont {
  f_cmap : list (N * N);              (* the best cmap subtable: rune -> gid *)
  f_outlines : outlines;
  f_gdef : option (list (N * N));     (* GDEF glyph classes, gid -> class *)
  f_gsub : option (gtab tag);
  f_gpos : option (gtab tag)
}.
Arguments mkFont {tag}.
Arguments f_cmap {tag}.
Arguments f_outlines {tag}.
Arguments f_gdef {tag}.
Arguments f_gsub {tag}.
Arguments f_gpos {tag}.

Fixpoint assocN (m : list (N * N)) (k : N) : option N :=
  match m with
  | [] => None
  | (k', v) :: r => if k' =? k then Some v else assocN r k
  end.

(* cmap.Subtable.Lookup: 0 for unmapped runes *)
Definition cmap_lookup (m : list (N * N)) (r : N) : N :=
  match assocN m r with Some g => g | None => 0 end.

(* gdef.Table.IsMark; GlyphClassMark = 3 *)
Definition is_mark (gdef : option (list (N * N))) (gid : N) : bool :=
  match gdef with
  | None => false
  | Some cls => match assocN cls gid with Some c => c =? 3 | None => false end
  end.

(* Font.GlyphWidth: indexes the glyph/width slice *)
Definition glyph_width (o : outlines) (gid : N) : outcome Z :=
  match o with
  | OGlyf _ None => Ok 0%Z
  | OGlyf _ (Some w) | OCff w =>
      match nth_error w (N.to_nat gid) with
      | Some x => Ok x
      | None => Panic
      end
  end.

(* the width loop of Layout, as repaired by fixes/C07-layout-gid-beyond-font.diff:
     numGlyphs := font.NumGlyphs()
     for i := range seq {
       gid := seq[i].GID
       if int(gid) >= numGlyphs { continue }   // no such glyph: no width
       if !font.Gdef.IsMark(gid) { seq[i].Advance = funit.Int16(font.GlyphWidth(gid)) }
     } *)
Fixpoint set_widths (o : outlines) (gdef : option (list (N * N))) (seq : list ginfo)
  : outcome (list ginfo) :=
  match seq with
  | [] => Ok []
  | g :: rest =>
      g' <- (if num_glyphs o <=? g_gid g then Ok g
             else if is_mark gdef (g_gid g) then Ok g
             else w <- glyph_width o (g_gid g) ;;
                  Ok (mkG (g_gid g) (g_text g) (g_xoff g) (g_yoff g) w)) ;;
      rest' <- set_widths o gdef rest ;;
      Ok (g' :: rest')
  end.

Section Layout.
  Context {tag lang : Type}.
  Variable tag_leb : tag -> tag -> bool.
  Variable matcher : lang -> list tag -> nat.
  Variable iter1 : list (tag * option features) -> list (tag * option features).
  Variable iter2 : list N -> list N.
  Variable gsub_defaults gpos_defaults : switches.

  (* the lookups NewLayouter selects for one table *)
  Definition layouter_lookups (defaults : switches) (t : option (gtab tag)) (l : lang)
             (sw : option switches) : outcome (option (list N)) :=
    match t with
    | None => Ok None
    | Some g =>
        ls <- M_find_lookups tag_leb matcher iter1 iter2 (gt_scripts g) (gt_features g)
                (N.of_nat (length (gt_lookups g))) l
                (match sw with Some m => m | None => defaults end) ;;
        Ok (Some ls)
    end.

  Definition apply_table (t : option (gtab tag)) (sel : option (list N)) (seq : list ginfo)
    : outcome (list ginfo) :=
    match t, sel with
    | Some g, Some ls => apply_all (gt_lookups g) ls seq
    | _, _ => Ok seq
    end.

  (* Layouter.Layout for the selected lookups *)
  Definition layout_with (f : font tag) (gsubSel gposSel : option (list N)) (s : list N)
    : outcome (list ginfo) :=
    let seq0 := map (fun r => mkG (cmap_lookup (f_cmap f) r) [r] 0 0 0) s in
    seq1 <- apply_table (f_gsub f) gsubSel seq0 ;;
    seq2 <- set_widths (f_outlines f) (f_gdef f) seq1 ;;
    apply_table (f_gpos f) gposSel seq2.

  (* NewLayouter followed by Layout *)
  Definition M_layout (f : font tag) (l : lang) (gsubSw gposSw : option switches) (s : list N)
    : outcome (list ginfo) :=
    gs <- layouter_lookups gsub_defaults (f_gsub f) l gsubSw ;;
    gp <- layouter_lookups gpos_defaults (f_gpos f) l gposSw ;;
    layout_with f gs gp s.
End Layout.

(* ------------------------------------------------------------------ *)
(* Tables synthesised by sfnt.Read                                     *)

(* kern -> GPOS (read.go): one language system whose required feature 0 is
   "kern" with the single pair-adjustment lookup 0 *)
Definition tag_kern : N := 1801810542.   (* "kern" *)
Definition tag_liga : N := 1818847073.   (* "liga" *)

Definition kern_to_gpos {tag} (undZzzz : tag) (km : kmap) : gtab tag :=
  mkGtab [(undZzzz, Some (mkFeatures 0 []))] [mkFeature tag_kern [0]] [LPair km].

(* standardLigatures (ligatures.go) *)
Fixpoint sets_append (sets : list (N * list ligature)) (k : N) (lg : ligature)
  : list (N * list ligature) :=
  match sets with
  | [] => [(k, [lg])]
  | (k', v) :: r =>
      if k <? k' then (k, [lg]) :: sets
      else if k =? k' then (k', v ++ [lg]) :: r
      else (k', v) :: sets_append r k lg
  end.

Definition lig_step (cm : list (N * N)) (sets : list (N * list ligature)) (lig : list N)
  : outcome (list (N * list ligature)) :=
  let gg := map (cmap_lookup cm) lig in
  if existsb (N.eqb 0) gg then Ok sets
  else match gg with
       | out :: first :: ins => Ok (sets_append sets first (ins, out))
       | _ => Panic     (* gg[1] out of range *)
       end.

Definition M_standard_ligatures {tag} (all : list (list N)) (undLatn : tag) (cm : list (N * N))
  : outcome (option (gtab tag)) :=
  sets <- fold_left (fun acc lig => s <- acc ;; lig_step cm s lig) all (Ok []) ;;
  match sets with
  | [] => Ok None
  | _ => Ok (Some (mkGtab [(undLatn, Some (mkFeatures 65535 [0]))] [mkFeature tag_liga [0]]
                          [LLiga sets]))
  end.

(* the part of sfnt.Read that decides Gsub and Gpos for a font without GSUB
   and GPOS tables: kb = bytes of the kern table if there is one *)
Section ReadTables.
  Context {tag : Type}.
  Variable undZzzz undLatn : tag.
  Variable all : list (list N).
  Variable k_version k_minLen k_maskSel k_wanted k_maskMin k_maskOvr : N.

  Definition M_kern_read (b : list N) : outcome kmap :=
    es <- kern_entries k_minLen k_maskSel k_wanted k_maskMin k_maskOvr k_version b ;;
    Ok (kern_acc es).

  Definition M_read_tables (cm : list (N * N)) (o : outlines) (gdef : option (list (N * N)))
             (fixedPitch : bool) (kb : option (list N)) : outcome (font tag) :=
    gsub <- (if fixedPitch then Ok None else M_standard_ligatures all undLatn cm) ;;
    gpos <- match kb with
            | None => Ok None
            | Some b => km <- M_kern_read b ;; Ok (Some (kern_to_gpos undZzzz km))
            end ;;
    Ok (mkFont cm o gdef gsub gpos).
End ReadTables.
