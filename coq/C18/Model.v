(* C18/Model.v — I/O faults: the write loops of header.Write and cff.Font.Write
   against an abstract io.Writer, and header.Read against a reader that fails.

   M_write_loop mirrors header/write.go (the part after "write the tables"):
   one Write for the header block, then for every table one Write for the body
   and, if the count returned for the body is not a multiple of 4, one for the
   padding; totalSize accumulates every returned count; the first error is
   returned at once.  M_cff_write_loop mirrors the final loop of
   cff/write.go.  Executable definitions only. *)
From Coq Require Import List NArith ZArith Bool Arith.
From Common Require Import Bytes Outcome.
From Gen Require Import Consts.
From C03 Require Import Model.
Import ListNotations.

(* One call of w.Write(p): the chunk offered, the count and error flag
   returned. *)
Definition call : Type := (list N * nat * bool)%type.
Definition c_chunk (c : call) : list N := fst (fst c).
Definition c_n (c : call) : nat := snd (fst c).
Definition c_err (c : call) : bool := snd c.

(* An io.Writer as the caller sees it: its answer (n, err <> nil) to the
   current chunk may depend on everything offered before. *)
Definition writer : Type := list (list N) -> list N -> nat * bool.

Definition do_write (w : writer) (hist : list call) (p : list N) : call :=
  let r := w (map c_chunk hist) p in (p, fst r, snd r).

(* result of Write: (totalSize, err <> nil) and, for the statements, the calls
   made in order *)
Record wresult : Type := mk_wres { wr_total : N; wr_err : bool; wr_calls : list call }.

(* "for _, name := range tableNames { ... }" *)
Fixpoint wl_bodies (w : writer) (hist : list call) (total : N) (bodies : list (list N)) : wresult :=
  match bodies with
  | [] => mk_wres total false hist                           (* return totalSize, nil *)
  | body :: rest =>
    let c := do_write w hist body in                         (* n, err := w.Write(body) *)
    let hist1 := hist ++ [c] in
    let total1 := (total + N.of_nat (c_n c))%N in            (* totalSize += int64(n) *)
    if c_err c then mk_wres total1 true hist1
    else
      let k := (c_n c mod 4)%nat in                          (* if k := n % 4; k != 0 *)
      if Nat.eqb k 0 then wl_bodies w hist1 total1 rest
      else
        let c2 := do_write w hist1 (firstn (4 - k) [0; 0; 0]%N) in   (* w.Write(pad[:4-k]) *)
        let hist2 := hist1 ++ [c2] in
        let total2 := (total1 + N.of_nat (c_n c2))%N in
        if c_err c2 then mk_wres total2 true hist2
        else wl_bodies w hist2 total2 rest
  end.

Definition M_write_loop (w : writer) (p : plan) : wresult :=
  let c := do_write w [] (p_header p) in                     (* n, err := w.Write(headerBytes) *)
  let total := N.of_nat (c_n c) in
  if c_err c then mk_wres total true [c]
  else wl_bodies w [c] total (map snd (p_bodies p)).

(* header.Write as a whole: the plan of C03, then the loop *)
Definition M_write_to (w : writer) (scaler : N) (ts : list table) : outcome wresult :=
  omap (M_write_loop w) (M_plan scaler ts).

(* cff/write.go: "for i := 0; i < numSections; i++ { _, err = w.Write(blobs[i]); if err != nil { return err } }" *)
Fixpoint cff_sections (w : writer) (hist : list call) (blobs : list (list N)) : bool * list call :=
  match blobs with
  | [] => (false, hist)
  | b :: rest =>
    let c := do_write w hist b in
    if c_err c then (true, hist ++ [c]) else cff_sections w (hist ++ [c]) rest
  end.
Definition M_cff_write_loop (w : writer) (blobs : list (list N)) : bool * list call :=
  cff_sections w [] blobs.

(* what the destination holds afterwards *)
Definition accepted (calls : list call) : list N :=
  concat (map (fun c => firstn (c_n c) (c_chunk c)) calls).

(* ---- two concrete fault-injecting writers (used by the correspondence) ---- *)

Definition offered (hist : list (list N)) : nat := length (concat hist).

(* accepts exactly k bytes in total, then fails: a call that fits entirely is
   accepted without error, the first that does not fit is cut and reports an
   error, later calls accept nothing *)
Definition budget_left (k : nat) (hist : list (list N)) : nat := k - offered hist.
Definition budget_writer (k : nat) : writer := fun hist p =>
  let r := budget_left k hist in (Nat.min r (length p), (r <? length p)%nat).

(* short write at offset k: the call whose range contains offset k returns the
   bytes before k together with an error; every other call - also later ones -
   is accepted in full (a caller that ignores the error would go on writing) *)
Definition short_writer (k : nat) : writer := fun hist p =>
  let off := offered hist in
  if ((off <=? k) && (k <? off + length p))%nat then (k - off, true)%nat else (length p, false).

(* eager failure at offset k (k >= 1): the call that stores the k-th byte is
   accepted IN FULL and reports an error together with the complete count -
   which an io.Writer may do ("quota reached" noticed while completing the
   request); every other call is accepted in full without error *)
Definition eager_writer (k : nat) : writer := fun hist p =>
  let off := offered hist in
  (length p, ((off <? k) && (k <=? off + length p))%nat).

(* ---- the same loop on lengths only (for enumerating every fault point of a
   large file: the two writers above look at lengths only) ---- *)

Definition lwriter : Type := list N -> N -> N * bool.       (* lengths offered so far, current length *)
Definition lcall : Type := (N * N * bool)%type.              (* length offered, n, err *)

Definition do_lwrite (w : lwriter) (hist : list lcall) (len : N) : lcall :=
  let r := w (map (fun c : lcall => fst (fst c)) hist) len in (len, fst r, snd r).

Record lresult : Type := mk_lres { lr_total : N; lr_err : bool; lr_calls : list lcall }.

Fixpoint lwl_bodies (w : lwriter) (hist : list lcall) (total : N) (bodies : list N) : lresult :=
  match bodies with
  | [] => mk_lres total false hist
  | body :: rest =>
    let c := do_lwrite w hist body in
    let hist1 := hist ++ [c] in
    let total1 := (total + snd (fst c))%N in
    if snd c then mk_lres total1 true hist1
    else
      let k := (snd (fst c) mod 4)%N in
      if (k =? 0)%N then lwl_bodies w hist1 total1 rest
      else
        let c2 := do_lwrite w hist1 (4 - k)%N in
        let hist2 := hist1 ++ [c2] in
        let total2 := (total1 + snd (fst c2))%N in
        if snd c2 then mk_lres total2 true hist2
        else lwl_bodies w hist2 total2 rest
  end.

Definition M_write_loop_len (w : lwriter) (hdr : N) (bodies : list N) : lresult :=
  let c := do_lwrite w [] hdr in
  let total := snd (fst c) in
  if snd c then mk_lres total true [c] else lwl_bodies w [c] total bodies.

Definition nsumN (l : list N) : N := fold_right N.add 0%N l.
Definition budget_lwriter (k : N) : lwriter := fun hist len =>
  let r := (k - nsumN hist)%N in (N.min r len, (r <? len)%N).
Definition short_lwriter (k : N) : lwriter := fun hist len =>
  let off := nsumN hist in
  if ((off <=? k) && (k <? off + len))%N then ((k - off)%N, true) else (len, false).

Definition eager_lwriter (k : N) : lwriter := fun hist len =>
  let off := nsumN hist in (len, ((off <? k) && (k <=? off + len))%N).

(* summary of one run: (n, err, number of calls, calls made after the first error) *)
Definition lsummary (r : lresult) : N * bool * N * N :=
  let fix after (l : list lcall) : N :=
      match l with
      | [] => 0%N
      | c :: l' => if snd c then N.of_nat (length l') else after l'
      end in
  (lr_total r, lr_err r, N.of_nat (length (lr_calls r)), after (lr_calls r)).

(* every fault point k0, k0+1, ..., k0+cnt-1 *)
Fixpoint enum_faults (mk : N -> lwriter) (hdr : N) (bodies : list N) (k0 : N) (cnt : nat)
  : list (N * bool * N * N) :=
  match cnt with
  | O => []
  | S c => lsummary (M_write_loop_len (mk k0) hdr bodies) :: enum_faults mk hdr bodies (k0 + 1)%N c
  end.

(* ---- reading a truncated / faulting source ---- *)

(* end of the table data: the largest offset + length of the directory *)
Definition data_end (b : list N) : N :=
  fold_right N.max 0%N (map (fun r => (r_off r + r_len r)%N) (dir_of b)).

(* header.Read on the first k bytes of b, and on b behind a ReaderAt that
   fails for every access touching an offset >= k *)
Definition M_read_truncated (k : N) (b : list N) : outcome (N * list toc_entry) :=
  M_read_dir (firstn (N.to_nat k) b).
Definition M_read_faulting (k : N) (b : list N) : outcome (N * list toc_entry) :=
  M_read_dir_r (read_at_fault k b).

(* ---- summaries printed by the driver ---- *)

Fixpoint calls_after_error (cs : list call) : N :=
  match cs with
  | [] => 0%N
  | c :: rest => if c_err c then N.of_nat (length rest) else calls_after_error rest
  end.

(* (n, err, number of calls, calls after the first error, bytes the writer holds) *)
Definition wsummary (r : wresult) : N * bool * N * N * N :=
  (wr_total r, wr_err r, N.of_nat (length (wr_calls r)), calls_after_error (wr_calls r),
   N.of_nat (length (accepted (wr_calls r)))).

Definition cff_summary (r : bool * list call) : bool * N * N * N :=
  (fst r, N.of_nat (length (snd r)), calls_after_error (snd r), N.of_nat (length (accepted (snd r)))).

Definition read_summary (k : N) (b : list N) : bool * bool :=
  (is_ok (M_read_truncated k b), is_ok (M_read_faulting k b)).
