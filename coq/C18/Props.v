(* C18/Props.v — I/O faults and truncation surface as errors with accurate
   byte counts.  Statements only; proofs in Proofs_*.v. *)
From Coq Require Import List NArith ZArith Bool Arith Lia.
From Common Require Import Bytes Outcome.
From Gen Require Import Consts.
From C03 Require Import Model Spec Proofs_Write Proofs_Read.
From C03 Require Props.
From C18 Require Import Model Spec Proofs_Loop Proofs_Trunc Proofs_Sim.
Import ListNotations.
Local Open Scope N_scope.

(* 1. Byte accounting of header.Write's loop.  For EVERY writer obeying
   io.Writer's contract (any pattern of full, short and failing writes, any
   dependence on what was offered before) and every plan (header block +
   table bodies): the count returned equals the number of bytes the writer
   accepted; what it accepted is a prefix of the file; err = nil iff no call
   reported an error, and then the writer holds the whole file and the count
   is the file length. *)
Theorem write_count_exact : forall (w : writer) (p : plan), writer_ok w ->
  let r := M_write_loop w p in
  wr_total r = N.of_nat (length (accepted (wr_calls r))) /\
  (exists rest, plan_bytes p = accepted (wr_calls r) ++ rest) /\
  (wr_err r = false <-> Forall (fun c => c_err c = false) (wr_calls r)) /\
  (wr_err r = false ->
     accepted (wr_calls r) = plan_bytes p /\ wr_total r = N.of_nat (length (plan_bytes p))).
Proof.
  intros w p Hw. cbv zeta.
  destruct (write_loop_summary w p) as (H1 & H2 & H3 & H4 & H5).
  destruct (H5 Hw) as (rest & Hr & Hr').
  assert (Hc : wr_total (M_write_loop w p) = N.of_nat (length (accepted (wr_calls (M_write_loop w p))))).
  { rewrite H1. now apply (count_is_accepted w). }
  split; [exact Hc|]. split; [exists rest; exact Hr|]. split; [split|].
  - intros He. apply existsb_false_forall. now rewrite <- H3.
  - intros Hf. rewrite H3. now apply existsb_false_forall.
  - intros He. specialize (Hr' He). subst rest. rewrite app_nil_r in Hr. split.
    + now symmetry.
    + rewrite Hc. now rewrite <- Hr.
Qed.
Print Assumptions write_count_exact.

(* 2. The first error is returned: for every writer at all (contract or not),
   the recorded calls are exactly the writer's answers in order, only the last
   call can have reported an error (no Write after a failed Write), and Write
   returns an error iff that last call did. *)
Theorem first_error_returned : forall (w : writer) (p : plan),
  let r := M_write_loop w p in
  faithful w (wr_calls r) /\
  error_only_last (wr_calls r) /\
  wr_err r = existsb c_err (wr_calls r) /\
  wr_total r = calls_count (wr_calls r).
Proof.
  intros w p. cbv zeta. destruct (write_loop_summary w p) as (H1 & H2 & H3 & H4 & _). auto.
Qed.
Print Assumptions first_error_returned.

(* 3. On success the count is C03's file length formula. *)
Theorem write_success_length : forall (w : writer) (s : N) (ts : list table) (r : wresult),
  writer_ok w -> map_ok ts -> M_write_to w s ts = Ok r ->
  N.of_nat (length (M_filter ts)) < 4096 -> file_size (M_filter ts) < 4294967296 ->
  wr_err r = false -> wr_total r = file_size (M_filter ts).
Proof.
  intros w s ts r Hw Hmap Hto Hn Hsize He.
  unfold M_write_to in Hto. destruct (M_plan s ts) as [p| | |] eqn:Ep; cbn [omap obind] in Hto; try discriminate.
  inversion Hto; subst r. clear Hto.
  destruct (write_count_exact w p Hw) as (_ & _ & _ & Hs). destruct (Hs He) as [_ Ht]. rewrite Ht.
  apply (write_length s ts (plan_bytes p)); try assumption.
  unfold M_write. now rewrite Ep.
Qed.
Print Assumptions write_success_length.

(* 4. The section loop of cff.Font.Write: calls are the writer's answers in
   order, no call after the first error, error returned iff a call failed;
   under the contract the destination holds a prefix of the CFF data, all of
   it on success. *)
Theorem cff_first_error_returned : forall (w : writer) (blobs : list (list N)),
  let r := M_cff_write_loop w blobs in
  faithful w (snd r) /\
  fst r = existsb c_err (snd r) /\
  (forall pre c post, snd r = pre ++ c :: post -> c_err c = true -> post = []) /\
  (writer_ok w -> exists rest, concat blobs = accepted (snd r) ++ rest /\ (fst r = false -> rest = [])).
Proof. exact cff_loop_summary. Qed.
Print Assumptions cff_first_error_returned.

(* 5. Truncation: for every container header.Write produces (hypotheses of
   C03.read_write_roundtrip) and every k below the end of the table data,
   header.Read rejects the first k bytes, and rejects the whole file behind a
   ReaderAt that fails on every access touching an offset >= k (the last-byte
   probe touches one). *)
Theorem truncation_rejected : forall (s : N) (ts : list table) (out : list N) (k : N),
  map_ok ts -> M_write s ts = Ok out ->
  valid_scaler s = true ->
  Forall (fun t : table => forallb printable (fst t) = true) ts ->
  N.of_nat (length (M_filter ts)) <= header_maxTables ->
  file_size (M_filter ts) < 4294967296 ->
  k < data_end out ->
  M_read_truncated k out = Err /\ M_read_faulting k out = Err.
Proof.
  intros s ts out k Hmap Hw Hs Hp Hn280 Hsize Hk.
  assert (Hn : N.of_nat (length (M_filter ts)) < 4096) by (pose proof C03.Props.max_tables_ok; lia).
  assert (Hwf : S_wf out) by (eapply C03.Props.write_wf; eassumption).
  assert (Hlen : N.of_nat (length out) < 4294967296).
  { rewrite (write_length s ts out); assumption. }
  assert (Hread : M_read_dir out = Ok (s, map toc_of (dir_of out))).
  { apply (write_read_exact s ts out); assumption. }
  split.
  - unfold M_read_truncated. eapply truncated_rejected; eassumption.
  - unfold M_read_faulting. eapply faulting_rejected; eassumption.
Qed.
Print Assumptions truncation_rejected.

(* 6. What justifies enumerating fault points on lengths alone: for the two
   fault-injecting writers of the correspondence the loop on byte strings and
   the loop on lengths make the same calls with the same results; both
   writers obey the contract. *)
Theorem fault_enumeration_on_lengths : forall (k : nat) (p : plan),
  sim (M_write_loop (budget_writer k) p)
      (M_write_loop_len (budget_lwriter (N.of_nat k)) (N.of_nat (length (p_header p)))
                        (map (fun tb : N * list N => N.of_nat (length (snd tb))) (p_bodies p))) /\
  sim (M_write_loop (short_writer k) p)
      (M_write_loop_len (short_lwriter (N.of_nat k)) (N.of_nat (length (p_header p)))
                        (map (fun tb : N * list N => N.of_nat (length (snd tb))) (p_bodies p))) /\
  writer_ok (budget_writer k) /\ writer_ok (short_writer k).
Proof.
  intros k p. split; [|split; [|split]].
  - apply write_loop_sim. apply budget_writer_lift.
  - apply write_loop_sim. apply short_writer_lift.
  - apply budget_writer_ok.
  - apply short_writer_ok.
Qed.
Print Assumptions fault_enumeration_on_lengths.

(* the third fault style of the correspondence: a destination that accepts the
   call storing its k-th byte in full and reports the failure together with
   the complete count.  It obeys io.Writer's contract (so write_count_exact,
   first_error_returned and cff_first_error_returned apply to it), and the
   length-only loop enumerates it faithfully. *)
Theorem eager_fault_enumeration_on_lengths : forall (k : nat) (p : plan),
  sim (M_write_loop (eager_writer k) p)
      (M_write_loop_len (eager_lwriter (N.of_nat k)) (N.of_nat (length (p_header p)))
                        (map (fun tb : N * list N => N.of_nat (length (snd tb))) (p_bodies p))) /\
  writer_ok (eager_writer k).
Proof.
  intros k p. split.
  - apply write_loop_sim. apply eager_writer_lift.
  - apply eager_writer_ok.
Qed.
Print Assumptions eager_fault_enumeration_on_lengths.
