(* C18/Spec.v — the vocabulary of the statements: what an io.Writer may do,
   what a trace of calls says.  Propositions only. *)
From Coq Require Import List NArith ZArith Bool Arith.
From Common Require Import Bytes Outcome.
From C03 Require Import Model.
From C18 Require Import Model.
Import ListNotations.

(* io.Writer's contract: 0 <= n <= len(p); n < len(p) comes with an error *)
Definition writer_ok (w : writer) : Prop :=
  forall h p, (fst (w h p) <= length p)%nat /\ ((fst (w h p) < length p)%nat -> snd (w h p) = true).

(* every recorded call carries the writer's answer to that chunk after
   exactly the chunks recorded before it *)
Fixpoint faithful_from (w : writer) (before : list call) (cs : list call) : Prop :=
  match cs with
  | [] => True
  | c :: rest => (c_n c, c_err c) = w (map c_chunk before) (c_chunk c) /\
                 faithful_from w (before ++ [c]) rest
  end.
Definition faithful (w : writer) (cs : list call) : Prop := faithful_from w [] cs.

(* no call after the first error: only the last call may have failed *)
Definition error_only_last (cs : list call) : Prop :=
  exists pre last, cs = pre ++ [last] /\ Forall (fun c => c_err c = false) pre.

Definition calls_count (cs : list call) : N := fold_right (fun c acc => (N.of_nat (c_n c) + acc)%N) 0%N cs.

(* a writer that looks at lengths only *)
Definition lift (lw : lwriter) : writer := fun hist p =>
  let r := lw (map (fun c : list N => N.of_nat (length c)) hist) (N.of_nat (length p)) in
  (N.to_nat (fst r), snd r).

Definition call_lens (c : call) : lcall := (N.of_nat (length (c_chunk c)), N.of_nat (c_n c), c_err c).
