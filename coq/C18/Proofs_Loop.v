(* C18/Proofs_Loop.v — byte accounting and error handling of the write loops. *)
From Coq Require Import List NArith ZArith Bool Arith Lia.
From Coq Require Import ZifyBool ZifyNat ZifyN.
From Common Require Import Bytes Outcome.
From C03 Require Import Model Util.
From C18 Require Import Model Spec.
Import ListNotations.
Ltac Zify.zify_post_hook ::= Z.div_mod_to_equations.

Lemma prefix_split {A} n (x tail : list A) : x ++ tail = firstn n x ++ (skipn n x ++ tail).
Proof. now rewrite app_assoc, firstn_skipn. Qed.

Lemma accepted_app a b : accepted (a ++ b) = accepted a ++ accepted b.
Proof. unfold accepted. now rewrite map_app, concat_app. Qed.

Lemma calls_count_app a b : calls_count (a ++ b) = (calls_count a + calls_count b)%N.
Proof. unfold calls_count. induction a as [|c a IH]; cbn [app fold_right]; [reflexivity|]. rewrite IH. lia. Qed.

Lemma faithful_from_app w before a b :
  faithful_from w before a -> faithful_from w (before ++ a) b -> faithful_from w before (a ++ b).
Proof.
  revert before. induction a as [|c a IH]; intros before Ha Hb; cbn [app faithful_from] in *.
  - now rewrite app_nil_r in Hb.
  - destruct Ha as [H1 H2]. split; [exact H1|]. apply IH; [exact H2|].
    now rewrite <- app_assoc.
Qed.

Lemma do_write_faithful w hist p : faithful_from w hist [do_write w hist p].
Proof. unfold do_write. cbn [faithful_from c_n c_err c_chunk fst snd]. split; [|exact I]. now destruct (w (map c_chunk hist) p). Qed.

Lemma do_write_answer w hist p :
  (c_n (do_write w hist p), c_err (do_write w hist p)) = w (map c_chunk hist) (c_chunk (do_write w hist p)).
Proof. unfold do_write. cbn [c_n c_err c_chunk fst snd]. now destruct (w (map c_chunk hist) p). Qed.

Lemma do_write_chunk w hist p : c_chunk (do_write w hist p) = p.
Proof. reflexivity. Qed.

(* under the contract, a call without error took the whole chunk *)
Lemma ok_call_full w hist p : writer_ok w ->
  c_err (do_write w hist p) = false -> c_n (do_write w hist p) = length p.
Proof.
  intros Hw He. unfold do_write, c_n, c_err in *. cbn [fst snd] in *.
  destruct (Hw (map c_chunk hist) p) as [H1 H2].
  destruct (Nat.eq_dec (fst (w (map c_chunk hist) p)) (length p)) as [E|E]; [exact E|].
  rewrite H2 in He by lia. discriminate.
Qed.

Lemma call_n_le w hist p : writer_ok w -> (c_n (do_write w hist p) <= length p)%nat.
Proof. intros Hw. unfold do_write, c_n. cbn [fst snd]. apply Hw. Qed.

Lemma pad_chunk n : (n mod 4 <> 0)%nat ->
  firstn (4 - n mod 4) [0; 0; 0]%N = repeat 0%N (pad_len n).
Proof.
  intros H. unfold pad_len.
  assert (Hc : (n mod 4 = 1 \/ n mod 4 = 2 \/ n mod 4 = 3)%nat) by lia.
  destruct Hc as [E|[E|E]]; rewrite E; reflexivity.
Qed.

(* ---- the loop over the table bodies ---- *)

Record loop_facts (w : writer) (hist : list call) (total : N) (target : list N) (r : wresult) : Prop := {
  lf_calls : exists new, wr_calls r = hist ++ new /\
                         wr_total r = (total + calls_count new)%N /\
                         faithful_from w hist new /\
                         wr_err r = existsb c_err new /\
                         (forall pre c post, new = pre ++ c :: post -> c_err c = true -> post = []) /\
                         (writer_ok w -> exists rest, target = accepted new ++ rest /\
                                                      (wr_err r = false -> rest = []))
}.

Ltac six := refine (conj _ (conj _ (conj _ (conj _ (conj _ _))))).

Lemma single_only_last (c : call) pre c' post : [c] = pre ++ c' :: post -> post = [].
Proof.
  intros H. destruct pre as [|x pre]; cbn [app] in H.
  - now inversion H.
  - inversion H as [[H1 H2]]. destruct pre; discriminate.
Qed.

Lemma cons_only_last (c : call) new :
  c_err c = false ->
  (forall pre c' post, new = pre ++ c' :: post -> c_err c' = true -> post = []) ->
  forall pre c' post, c :: new = pre ++ c' :: post -> c_err c' = true -> post = [].
Proof.
  intros Ec H pre c' post E He. destruct pre as [|x pre]; cbn [app] in E.
  - inversion E; subst. congruence.
  - inversion E; subst. eapply H; [reflexivity|exact He].
Qed.

Lemma accepted_cons c cs : accepted (c :: cs) = firstn (c_n c) (c_chunk c) ++ accepted cs.
Proof. reflexivity. Qed.

Lemma accepted_single c : accepted [c] = firstn (c_n c) (c_chunk c).
Proof. unfold accepted. cbn [map concat]. apply app_nil_r. Qed.

Lemma calls_count_cons c cs : calls_count (c :: cs) = (N.of_nat (c_n c) + calls_count cs)%N.
Proof. reflexivity. Qed.

Lemma wl_bodies_facts w : forall bodies hist total,
  loop_facts w hist total (concat (map pad4 bodies)) (wl_bodies w hist total bodies).
Proof.
  induction bodies as [|body rest IH]; intros hist total; cbn [wl_bodies map concat].
  - constructor. exists []. cbn [wr_calls wr_total wr_err]. six.
    + now rewrite app_nil_r.
    + cbn. lia.
    + exact I.
    + reflexivity.
    + intros pre c post H. destruct pre; discriminate.
    + intros _. exists []. split; [reflexivity|auto].
  - set (c := do_write w hist body).
    destruct (c_err c) eqn:Ec.
    + (* error on the body *)
      constructor. exists [c]. cbn [wr_calls wr_total wr_err]. six.
      * reflexivity.
      * cbn. lia.
      * apply do_write_faithful.
      * cbn [existsb]. now rewrite Ec.
      * intros pre c' post H _. eapply single_only_last; exact H.
      * intros Hw. rewrite accepted_single. unfold c at 2. rewrite do_write_chunk.
        exists (skipn (c_n c) body ++ repeat 0%N (pad_len (length body)) ++ concat (map pad4 rest)).
        split; [|discriminate].
        unfold pad4. rewrite <- !app_assoc. apply prefix_split.
    + destruct (Nat.eqb_spec (c_n c mod 4) 0) as [Ek|Ek].
      * (* no padding needed *)
        destruct (IH (hist ++ [c]) (total + N.of_nat (c_n c))%N) as [(new & H1 & H2 & H3 & H4 & H5 & H6)].
        constructor. exists (c :: new). six.
        -- rewrite H1. now rewrite <- app_assoc.
        -- rewrite H2, calls_count_cons. lia.
        -- cbn [faithful_from]. split; [apply (do_write_answer w hist body)|exact H3].
        -- rewrite H4. cbn [existsb]. now rewrite Ec.
        -- now apply cons_only_last.
        -- intros Hw. destruct (H6 Hw) as (rest' & Hr & Hr').
           exists rest'. split; [|exact Hr'].
           rewrite accepted_cons, <- app_assoc, <- Hr.
           f_equal. unfold c at 2. rewrite do_write_chunk.
           pose proof (ok_call_full w hist body Hw Ec) as En. fold c in En.
           rewrite En, firstn_all. unfold pad4. rewrite pad_len_0 by (rewrite <- En; exact Ek).
           cbn [repeat]. now rewrite app_nil_r.
      * (* padding *)
        set (c2 := do_write w (hist ++ [c]) (firstn (4 - c_n c mod 4) [0; 0; 0]%N)).
        destruct (c_err c2) eqn:Ec2.
        -- constructor. exists [c; c2]. cbn [wr_calls wr_total wr_err]. six.
           ++ now rewrite <- app_assoc.
           ++ cbn. lia.
           ++ cbn [faithful_from]. split; [apply (do_write_answer w hist body)|].
              split; [apply (do_write_answer w (hist ++ [c]))|exact I].
           ++ cbn [existsb]. now rewrite Ec, Ec2.
           ++ apply cons_only_last; [exact Ec|]. intros pre c' post H _. eapply single_only_last; exact H.
           ++ intros Hw.
              pose proof (ok_call_full w hist body Hw Ec) as En. fold c in En.
              rewrite accepted_cons, accepted_single.
              unfold c at 2. rewrite do_write_chunk, En, firstn_all.
              unfold c2 at 2. rewrite do_write_chunk.
              rewrite En in *. rewrite pad_chunk by exact Ek.
              exists (skipn (c_n c2) (repeat 0%N (pad_len (length body))) ++ concat (map pad4 rest)).
              split; [|discriminate].
              unfold pad4. rewrite <- !app_assoc. f_equal. apply prefix_split.
        -- destruct (IH ((hist ++ [c]) ++ [c2]) (total + N.of_nat (c_n c) + N.of_nat (c_n c2))%N)
             as [(new & H1 & H2 & H3 & H4 & H5 & H6)].
           constructor. exists (c :: c2 :: new). six.
           ++ rewrite H1. now rewrite <- !app_assoc.
           ++ rewrite H2, !calls_count_cons. lia.
           ++ cbn [faithful_from]. split; [apply (do_write_answer w hist body)|].
              split; [apply (do_write_answer w (hist ++ [c]))|exact H3].
           ++ rewrite H4. cbn [existsb]. now rewrite Ec, Ec2.
           ++ apply cons_only_last; [exact Ec|]. now apply cons_only_last.
           ++ intros Hw. destruct (H6 Hw) as (rest' & Hr & Hr').
              exists rest'. split; [|exact Hr'].
              pose proof (ok_call_full w hist body Hw Ec) as En. fold c in En.
              pose proof (ok_call_full w (hist ++ [c]) _ Hw Ec2) as En2. fold c2 in En2.
              rewrite !accepted_cons, <- !app_assoc, <- Hr. rewrite app_assoc. f_equal.
              unfold c at 2. rewrite do_write_chunk, En, firstn_all.
              unfold c2 at 2. rewrite do_write_chunk, En2, firstn_all.
              rewrite En in *. rewrite pad_chunk by exact Ek. reflexivity.
Qed.

Lemma plan_bytes_eq p : plan_bytes p = p_header p ++ concat (map pad4 (map snd (p_bodies p))).
Proof. unfold plan_bytes. now rewrite map_map. Qed.

Lemma write_loop_facts w p :
  loop_facts w [] 0%N (plan_bytes p) (M_write_loop w p).
Proof.
  unfold M_write_loop. set (c := do_write w [] (p_header p)).
  destruct (c_err c) eqn:Ec.
  - constructor. exists [c]. cbn [wr_calls wr_total wr_err app]. six.
    + reflexivity.
    + cbn. lia.
    + apply do_write_faithful.
    + cbn [existsb]. now rewrite Ec.
    + intros pre c' post H _. eapply single_only_last; exact H.
    + intros Hw. rewrite accepted_single. unfold c at 2. rewrite do_write_chunk.
      exists (skipn (c_n c) (p_header p) ++ concat (map pad4 (map snd (p_bodies p)))).
      split; [|discriminate].
      rewrite plan_bytes_eq. apply prefix_split.
  - destruct (wl_bodies_facts w (map snd (p_bodies p)) [c] (N.of_nat (c_n c)))
      as [(new & H1 & H2 & H3 & H4 & H5 & H6)].
    constructor. exists (c :: new). cbn [app]. six.
    + exact H1.
    + rewrite H2, calls_count_cons. lia.
    + cbn [faithful_from]. split; [apply (do_write_answer w [])|exact H3].
    + rewrite H4. cbn [existsb]. now rewrite Ec.
    + now apply cons_only_last.
    + intros Hw. destruct (H6 Hw) as (rest' & Hr & Hr').
      exists rest'. split; [|exact Hr'].
      rewrite accepted_cons, plan_bytes_eq, <- app_assoc, <- Hr. f_equal.
      unfold c at 2. rewrite do_write_chunk.
      pose proof (ok_call_full w [] (p_header p) Hw Ec) as En. fold c in En.
      now rewrite En, firstn_all.
Qed.

Lemma accepted_length cs : (forall c, In c cs -> (c_n c <= length (c_chunk c))%nat) ->
  N.of_nat (length (accepted cs)) = calls_count cs.
Proof.
  induction cs as [|c cs IH]; intros H; [reflexivity|].
  change (accepted (c :: cs)) with (firstn (c_n c) (c_chunk c) ++ accepted cs).
  rewrite app_length, firstn_length. cbn [calls_count fold_right]. fold (calls_count cs).
  rewrite Nat2N.inj_add, IH by (intros c' Hc; apply H; now right).
  specialize (H c (or_introl eq_refl)). lia.
Qed.

Lemma faithful_from_le w : writer_ok w -> forall cs before,
  faithful_from w before cs -> forall c, In c cs -> (c_n c <= length (c_chunk c))%nat.
Proof.
  intros Hw. induction cs as [|x cs IH]; intros before Hf c Hin; [contradiction|].
  cbn [faithful_from] in Hf. destruct Hf as [H1 H2]. destruct Hin as [->|Hin].
  - pose proof (Hw (map c_chunk before) (c_chunk c)) as [Hle _].
    rewrite <- H1 in Hle. exact Hle.
  - eapply IH; eassumption.
Qed.

Lemma existsb_false_forall {A} (f : A -> bool) l : existsb f l = false <-> Forall (fun x => f x = false) l.
Proof.
  induction l as [|x l IH]; cbn [existsb]; [split; auto|].
  rewrite orb_false_iff, IH. split.
  - intros [H1 H2]. now constructor.
  - intros H. inversion H; auto.
Qed.

Lemma only_last_split (cs : list call) :
  cs <> [] ->
  (forall pre c post, cs = pre ++ c :: post -> c_err c = true -> post = []) ->
  exists pre last, cs = pre ++ [last] /\ Forall (fun c => c_err c = false) pre.
Proof.
  intros Hne H.
  destruct (exists_last Hne) as (pre & last & E). exists pre, last. split; [exact E|].
  apply Forall_forall. intros c Hin.
  destruct (c_err c) eqn:Ec; [|reflexivity]. exfalso.
  apply in_split in Hin. destruct Hin as (l1 & l2 & E2).
  assert (E3 : cs = l1 ++ c :: (l2 ++ [last])).
  { rewrite E, E2, <- app_assoc. reflexivity. }
  specialize (H _ _ _ E3 Ec). destruct l2; discriminate.
Qed.

(* ---- cff.Font.Write's section loop ---- *)

Ltac five := refine (conj _ (conj _ (conj _ (conj _ _)))).

Lemma cff_sections_facts w : forall blobs hist,
  exists new, snd (cff_sections w hist blobs) = hist ++ new /\
              faithful_from w hist new /\
              fst (cff_sections w hist blobs) = existsb c_err new /\
              (forall pre c post, new = pre ++ c :: post -> c_err c = true -> post = []) /\
              (writer_ok w -> exists rest, concat blobs = accepted new ++ rest /\
                                           (fst (cff_sections w hist blobs) = false -> rest = [])).
Proof.
  induction blobs as [|b rest IH]; intros hist; cbn [cff_sections concat].
  - exists []. cbn [fst snd]. five.
    + now rewrite app_nil_r.
    + exact I.
    + reflexivity.
    + intros pre c post H. destruct pre; discriminate.
    + intros _. exists []. auto.
  - set (c := do_write w hist b). destruct (c_err c) eqn:Ec.
    + exists [c]. cbn [fst snd]. five.
      * reflexivity.
      * apply do_write_faithful.
      * cbn [existsb]. now rewrite Ec.
      * intros pre c' post H _. eapply single_only_last; exact H.
      * intros Hw. rewrite accepted_single. unfold c at 2. rewrite do_write_chunk.
        exists (skipn (c_n c) b ++ concat rest). split; [|discriminate].
        apply prefix_split.
    + destruct (IH (hist ++ [c])) as (new & H1 & H3 & H4 & H5 & H6).
      exists (c :: new). five.
      * rewrite H1. now rewrite <- app_assoc.
      * cbn [faithful_from]. split; [apply (do_write_answer w hist b)|exact H3].
      * rewrite H4. cbn [existsb]. now rewrite Ec.
      * now apply cons_only_last.
      * intros Hw. destruct (H6 Hw) as (rest' & Hr & Hr').
        exists rest'. split; [|exact Hr'].
        rewrite accepted_cons, <- app_assoc, <- Hr. f_equal.
        unfold c at 2. rewrite do_write_chunk.
        pose proof (ok_call_full w hist b Hw Ec) as En. fold c in En.
        now rewrite En, firstn_all.
Qed.

(* ---- summaries used by Props.v ---- *)

Lemma write_loop_summary w p :
  let r := M_write_loop w p in
  wr_total r = calls_count (wr_calls r) /\
  faithful w (wr_calls r) /\
  wr_err r = existsb c_err (wr_calls r) /\
  error_only_last (wr_calls r) /\
  (writer_ok w -> exists rest, plan_bytes p = accepted (wr_calls r) ++ rest /\
                               (wr_err r = false -> rest = [])).
Proof.
  cbv zeta. destruct (write_loop_facts w p) as [(new & H1 & H2 & H3 & H4 & H5 & H6)].
  cbn [app] in H1. rewrite H1. refine (conj _ (conj _ (conj _ (conj _ _)))).
  - rewrite H2. lia.
  - exact H3.
  - exact H4.
  - apply only_last_split; [|exact H5].
    intros E. rewrite E in H1. unfold M_write_loop in H1.
    destruct (c_err (do_write w [] (p_header p))); cbn [wr_calls] in H1; [discriminate|].
    destruct (wl_bodies_facts w (map snd (p_bodies p)) [do_write w [] (p_header p)]
                (N.of_nat (c_n (do_write w [] (p_header p))))) as [(new' & G1 & _)].
    rewrite G1 in H1. discriminate.
  - exact H6.
Qed.

Lemma count_is_accepted w cs : writer_ok w -> faithful w cs ->
  calls_count cs = N.of_nat (length (accepted cs)).
Proof.
  intros Hw Hf. symmetry. apply accepted_length. intros c Hc.
  eapply faithful_from_le; eassumption.
Qed.

Lemma cff_loop_summary w blobs :
  let r := M_cff_write_loop w blobs in
  faithful w (snd r) /\
  fst r = existsb c_err (snd r) /\
  (forall pre c post, snd r = pre ++ c :: post -> c_err c = true -> post = []) /\
  (writer_ok w -> exists rest, concat blobs = accepted (snd r) ++ rest /\ (fst r = false -> rest = [])).
Proof.
  cbv zeta. unfold M_cff_write_loop.
  destruct (cff_sections_facts w blobs []) as (new & H1 & H3 & H4 & H5 & H6).
  cbn [app] in H1. rewrite H1. auto.
Qed.
