(* C18/Examples.v — non-vacuity: concrete writers (contract-obeying ones and
   one that is not), plans and fault points satisfying the hypotheses of the
   theorems, with the values the theorems speak about. *)
From Coq Require Import List NArith ZArith Bool Arith Lia.
From Common Require Import Bytes Outcome.
From Gen Require Import Consts.
From C03 Require Import Model Spec.
From C18 Require Import Model Spec.
Import ListNotations.
Local Open Scope N_scope.

Definition nm (a b c d : N) : list N := [a; b; c; d].
Definition ex_tables : list table :=
  [ (nm 103 108 121 102, Some [1; 2; 3; 4; 5]);                  (* glyf, 5 bytes: padded *)
    (nm 104 101 97 100, Some (map N.of_nat (seq 1 14)));         (* head, 14 bytes *)
    (nm 99 109 97 112, Some []) ].                                (* cmap, empty *)

Definition ex_file : list N := match M_write 65536 ex_tables with Ok b => b | _ => [] end.

Example ex_file_len : length ex_file = 84%nat /\ data_end ex_file = 84 - 3.
Proof. vm_compute. split; reflexivity. Qed.

(* a destination that takes 70 bytes: the loop stops inside the first table
   (head, written after the 60-byte header block), reports 70 and an error
   after 2 calls, none after the failing one *)
Example ex_budget_70 :
  omap wsummary (M_write_to (budget_writer 70) 65536 ex_tables) = Ok (70, true, 2, 0, 70).
Proof. vm_compute. reflexivity. Qed.

(* fault exactly at a call boundary (after header + head + its padding) *)
Example ex_budget_boundary :
  omap wsummary (M_write_to (budget_writer 76) 65536 ex_tables) = Ok (76, true, 5, 0, 76) /\
  omap wsummary (M_write_to (budget_writer 84) 65536 ex_tables) = Ok (84, false, 6, 0, 84) /\
  omap wsummary (M_write_to (budget_writer 83) 65536 ex_tables) = Ok (83, true, 6, 0, 83).
Proof. vm_compute. repeat split; reflexivity. Qed.

(* a short write inside the padding of the last table *)
Example ex_short_padding :
  omap wsummary (M_write_to (short_writer 82) 65536 ex_tables) = Ok (82, true, 6, 0, 82).
Proof. vm_compute. reflexivity. Qed.

(* the same runs on lengths only *)
Example ex_lengths :
  lsummary (M_write_loop_len (budget_lwriter 70) 60 [14; 0; 5]) = (70, true, 2, 0) /\
  lsummary (M_write_loop_len (short_lwriter 82) 60 [14; 0; 5]) = (82, true, 6, 0).
Proof. vm_compute. split; reflexivity. Qed.

(* a writer that violates io.Writer's contract (n < len(p) with a nil error):
   write_count_exact does not apply - the loop writes padding computed from
   the short count and the destination no longer holds a prefix of the file;
   first_error_returned still holds. *)
Definition lying_writer : writer := fun hist p =>
  if (Nat.eqb (length hist) 1) then (Nat.min 3 (length p), false) else (length p, false).
Example ex_lying_writer_not_ok : ~ writer_ok lying_writer.
Proof.
  intros H. destruct (H [[]] [1; 2; 3; 4; 5]) as [_ H2]. cbn in H2.
  specialize (H2 ltac:(lia)). discriminate.
Qed.
Example ex_lying_writer :
  omap (fun r => (wr_total r, wr_err r, N.of_nat (length (accepted (wr_calls r)))))
       (M_write_to lying_writer 65536 ex_tables) = Ok (72, false, 72).
Proof. vm_compute. reflexivity. Qed.

(* cff.Font.Write's loop *)
Example ex_cff :
  cff_summary (M_cff_write_loop (budget_writer 9) [[1; 0; 4; 4]; [0; 1; 1; 2; 65]; []; [7; 7]]) = (true, 4, 0, 9) /\
  cff_summary (M_cff_write_loop (budget_writer 11) [[1; 0; 4; 4]; [0; 1; 1; 2; 65]; []; [7; 7]]) = (false, 4, 0, 11).
Proof. vm_compute. split; reflexivity. Qed.

(* truncation: every k below the end of the table data is rejected, both ways;
   cutting only the final padding is accepted (the bound of the theorem is
   tight) *)
Example ex_truncation :
  forallb (fun k => let r := read_summary (N.of_nat k) ex_file in negb (fst r) && negb (snd r)) (seq 0 81) = true /\
  read_summary 81 ex_file = (true, true) /\ read_summary 84 ex_file = (true, true).
Proof. vm_compute. repeat split; reflexivity. Qed.
