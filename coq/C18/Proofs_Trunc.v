(* C18/Proofs_Trunc.v — header.Read rejects every prefix that cuts into the
   table data, and every source that fails at such an offset. *)
From Coq Require Import List NArith ZArith Bool Arith Lia Permutation Sorted.
From Coq Require Import ZifyBool ZifyNat ZifyN.
From Common Require Import Bytes Outcome.
From Gen Require Import Consts.
From C03 Require Import Model Spec Util Proofs_Sort Proofs_Checksum Proofs_Layout Proofs_Read.
From C18 Require Import Model Spec.
Import ListNotations.
Ltac Zify.zify_post_hook ::= Z.div_mod_to_equations.
Local Open Scope N_scope.

Definition covf (t : toc_entry) : N * N := (snd (fst t), wrap32 (snd (fst t) + snd t)).

(* rd' answers only where rd answers, and then the same *)
Definition below (rd' rd : reader) : Prop := forall off n x, rd' off n = Some x -> rd off n = Some x.

Lemma rd_entries_mono rd' rd : below rd' rd -> forall cnt i acc toc,
  rd_entries rd' cnt i acc = Ok toc -> rd_entries rd cnt i acc = Ok toc.
Proof.
  intros Hb. induction cnt as [|c IH]; intros i acc toc H; cbn [rd_entries] in *; [exact H|].
  destruct (rd' (12 + i * 16) 16) as [e|] eqn:E; [|discriminate].
  rewrite (Hb _ _ _ E).
  destruct (negb (forallb printable (firstn 4 e))); [discriminate|].
  destruct (existsb _ acc); [discriminate|].
  now apply IH.
Qed.

Lemma rd_entries_total rd : forall cnt i acc,
  (exists toc, rd_entries rd cnt i acc = Ok toc) \/ rd_entries rd cnt i acc = Err.
Proof.
  induction cnt as [|c IH]; intros i acc; cbn [rd_entries]; [left; eauto|].
  destruct (rd (12 + i * 16) 16) as [e|]; [|now right].
  destruct (negb (forallb printable (firstn 4 e))); [now right|].
  destruct (existsb _ acc); [now right|]. apply IH.
Qed.

Lemma read_dir_total rd : (exists r, M_read_dir_r rd = Ok r) \/ M_read_dir_r rd = Err.
Proof.
  unfold M_read_dir_r. destruct (rd 0 6) as [h|]; [|now right].
  destruct (negb (valid_scaler (rd32 h))); [now right|].
  destruct (header_maxTables <? rd16 (skipn 4 h)); [now right|].
  destruct (rd_entries_total rd (N.to_nat (rd16 (skipn 4 h))) 0 []) as [(toc & E)|E]; rewrite E; cbn [obind];
    [|now right].
  destruct (isort cov_before _) as [|c0 cs]; [now right|].
  destruct (fst c0 <? 12); [now right|].
  destruct (overlaps (c0 :: cs)); [now right|].
  destruct (snd (last (c0 :: cs) c0) =? 0); [now right|].
  destruct (rd _ 1); [left; eauto|now right].
Qed.

(* what an accepting run has seen *)
Lemma read_dir_inv rd s toc : M_read_dir_r rd = Ok (s, toc) ->
  exists h c0 cs x,
    rd 0 6 = Some h /\ s = rd32 h /\ valid_scaler (rd32 h) = true /\
    (header_maxTables <? rd16 (skipn 4 h)) = false /\
    rd_entries rd (N.to_nat (rd16 (skipn 4 h))) 0 [] = Ok toc /\
    isort cov_before (map covf toc) = c0 :: cs /\
    (fst c0 <? 12) = false /\ overlaps (c0 :: cs) = false /\
    (snd (last (c0 :: cs) c0) =? 0) = false /\
    rd (snd (last (c0 :: cs) c0) - 1) 1 = Some x.
Proof.
  unfold M_read_dir_r. destruct (rd 0 6) as [h|] eqn:E6; [|discriminate].
  destruct (valid_scaler (rd32 h)) eqn:Ev; cbn [negb]; [|discriminate].
  destruct (header_maxTables <? rd16 (skipn 4 h)) eqn:Em; [discriminate|].
  destruct (rd_entries rd (N.to_nat (rd16 (skipn 4 h))) 0 []) as [toc'| | |] eqn:Ee; cbn [obind];
    try discriminate.
  fold covf.
  destruct (isort cov_before (map covf toc')) as [|c0 cs] eqn:Es; [discriminate|].
  destruct (fst c0 <? 12) eqn:E12; [discriminate|].
  destruct (overlaps (c0 :: cs)) eqn:Eo; [discriminate|].
  destruct (snd (last (c0 :: cs) c0) =? 0) eqn:E0; [discriminate|].
  destruct (rd (snd (last (c0 :: cs) c0) - 1) 1) as [x|] eqn:Ep; [|discriminate].
  intros H. inversion H; subst.
  exists h, c0, cs, x. repeat split; assumption.
Qed.

Lemma read_dir_intro rd h toc c0 cs x :
  rd 0 6 = Some h -> valid_scaler (rd32 h) = true ->
  (header_maxTables <? rd16 (skipn 4 h)) = false ->
  rd_entries rd (N.to_nat (rd16 (skipn 4 h))) 0 [] = Ok toc ->
  isort cov_before (map covf toc) = c0 :: cs ->
  (fst c0 <? 12) = false -> overlaps (c0 :: cs) = false ->
  (snd (last (c0 :: cs) c0) =? 0) = false ->
  rd (snd (last (c0 :: cs) c0) - 1) 1 = Some x ->
  M_read_dir_r rd = Ok (rd32 h, toc).
Proof.
  intros E6 Ev Em Ee Es E12 Eo E0 Ep. unfold M_read_dir_r.
  rewrite E6, Ev. cbn [negb]. rewrite Em, Ee. cbn [obind]. fold covf.
  rewrite Es, E12, Eo, E0, Ep. reflexivity.
Qed.

Lemma read_dir_mono rd' rd r : below rd' rd -> M_read_dir_r rd' = Ok r -> M_read_dir_r rd = Ok r.
Proof.
  intros Hb H. destruct r as [s toc].
  destruct (read_dir_inv _ _ _ H) as (h & c0 & cs & x & E6 & -> & Ev & Em & Ee & Es & E12 & Eo & E0 & Ep).
  eapply read_dir_intro; eauto. eapply rd_entries_mono; eassumption.
Qed.

Lemma rd_entries_ext rd rd' : (forall off n, rd off n = rd' off n) -> forall cnt i acc,
  rd_entries rd cnt i acc = rd_entries rd' cnt i acc.
Proof.
  intros He. induction cnt as [|c IH]; intros i acc; cbn [rd_entries]; [reflexivity|].
  rewrite He. destruct (rd' (12 + i * 16) 16) as [e|]; [|reflexivity].
  destruct (negb (forallb printable (firstn 4 e))); [reflexivity|].
  destruct (existsb _ acc); [reflexivity|]. apply IH.
Qed.

Lemma read_dir_ext rd rd' : (forall off n, rd off n = rd' off n) -> M_read_dir_r rd = M_read_dir_r rd'.
Proof.
  intros He. unfold M_read_dir_r. rewrite He. destruct (rd' 0 6) as [h|]; [|reflexivity].
  rewrite (rd_entries_ext rd rd' He).
  destruct (negb (valid_scaler (rd32 h))); [reflexivity|].
  destruct (header_maxTables <? rd16 (skipn 4 h)); [reflexivity|].
  destruct (rd_entries rd' (N.to_nat (rd16 (skipn 4 h))) 0 []) as [toc| | |]; cbn [obind]; try reflexivity.
  destruct (isort cov_before _) as [|c0 cs]; [reflexivity|].
  destruct (fst c0 <? 12); [reflexivity|].
  destruct (overlaps (c0 :: cs)); [reflexivity|].
  destruct (snd (last (c0 :: cs) c0) =? 0); [reflexivity|].
  now rewrite He.
Qed.

(* ---- the probe looks at the last byte of the table data ---- *)

Lemma cov_nafter_trans x y z :
  nafter cov_before x y -> nafter cov_before y z -> nafter cov_before x z.
Proof.
  unfold nafter, cov_before.
  destruct (N.eqb_spec (fst y) (fst x)), (N.eqb_spec (fst z) (fst y)), (N.eqb_spec (fst z) (fst x));
    intros H1 H2; apply N.ltb_ge in H1, H2; apply N.ltb_ge; lia.
Qed.

Lemma last_has_max_end : forall l d,
  StronglySorted (nafter cov_before) l -> ForallOrdPairs pdisj l -> Forall pwf l -> l <> [] ->
  forall x, In x l -> snd x <= snd (last l d).
Proof.
  induction l as [|a l IH]; intros d Hs Hd Hw Hne x Hin; [congruence|].
  destruct l as [|c r].
  - destruct Hin as [->|[]]. cbn [last]. lia.
  - change (last (a :: c :: r) d) with (last (c :: r) d).
    inversion Hs as [|? ? Hs' Ha]; subst.
    inversion Hd as [|? ? Hda Hd']; subst.
    inversion Hw as [|? ? Hwa Hw']; subst.
    destruct Hin as [->|Hin].
    + assert (Hl : In (last (c :: r) d) (c :: r)) by (apply last_in; discriminate).
      rewrite Forall_forall in Ha, Hda, Hw'.
      specialize (Ha _ Hl). specialize (Hda _ Hl). specialize (Hw' _ Hl).
      set (z := last (c :: r) d) in *.
      unfold nafter, cov_before in Ha. unfold pdisj in Hda. unfold pwf in *.
      destruct (N.eqb_spec (fst z) (fst x)); apply N.ltb_ge in Ha; lia.
    + apply IH; try assumption. discriminate.
Qed.

Lemma fold_max_le l m : (forall y, In y l -> y <= m) -> fold_right N.max 0 l <= m.
Proof.
  induction l as [|y l IH]; intros H; cbn [fold_right]; [lia|].
  pose proof (H y (or_introl eq_refl)). specialize (IH (fun z Hz => H z (or_intror Hz))). lia.
Qed.

Section Truncation.
  Variables (b : list N) (s : N).
  Hypothesis Hwf : S_wf b.
  Hypothesis Hlen : N.of_nat (length b) < 4294967296.
  Hypothesis Hread : M_read_dir b = Ok (s, map toc_of (dir_of b)).

  Let covl := map (fun r => (r_off r, r_off r + r_len r)) (dir_of b).

  Lemma covf_toc : map covf (map toc_of (dir_of b)) = covl.
  Proof.
    unfold covl. rewrite map_map. apply map_ext_in. intros r Hr. unfold covf, toc_of. cbn [fst snd].
    f_equal. apply wrap32_small.
    pose proof (wf_inside _ Hwf) as Hi. rewrite Forall_forall in Hi. specialize (Hi r Hr). lia.
  Qed.

  Lemma covl_facts c : In c covl -> 12 <= fst c /\ fst c <= snd c /\ snd c <= N.of_nat (length b).
  Proof.
    unfold covl. intros H. apply in_map_iff in H. destruct H as (r & <- & Hr).
    pose proof (wf_after_dir _ Hwf) as Ha. pose proof (wf_inside _ Hwf) as Hi.
    rewrite Forall_forall in Ha, Hi. specialize (Ha r Hr). specialize (Hi r Hr). cbn [fst snd]. lia.
  Qed.

  (* the probe offset of header.Read on this directory is at or after the end
     of every table *)
  Lemma probe_at_data_end c0 cs :
    isort cov_before covl = c0 :: cs -> data_end b <= snd (last (c0 :: cs) c0).
  Proof.
    intros Es. unfold data_end. apply fold_max_le. intros y Hy.
    apply in_map_iff in Hy. destruct Hy as (r & <- & Hr).
    pose proof (isort_perm cov_before covl) as Hp. rewrite Es in Hp.
    assert (Hin : In (r_off r, r_off r + r_len r) (c0 :: cs)).
    { eapply Permutation_in; [symmetry; exact Hp|]. unfold covl. apply in_map_iff. eauto. }
    change (r_off r + r_len r) with (snd (r_off r, r_off r + r_len r)).
    apply last_has_max_end; [| | |discriminate|exact Hin].
    - apply Sorted_StronglySorted; [exact cov_nafter_trans|].
      rewrite <- Es. apply isort_sorted. exact cov_before_asym.
    - eapply ForallOrdPairs_perm; [exact pdisj_sym|symmetry; exact Hp|].
      unfold covl. apply ForallOrdPairs_map. exact (wf_disjoint _ Hwf).
    - apply Forall_forall. intros c Hc. apply (Permutation_in _ Hp) in Hc.
      apply covl_facts in Hc. unfold pwf. lia.
  Qed.

  Lemma fault_below k : below (read_at_fault k b) (read_at b).
  Proof.
    unfold below, read_at_fault. cbv zeta. intros off n x H.
    destruct (off + n <=? k); [exact H|discriminate].
  Qed.

  Lemma faulting_rejected k : k < data_end b -> M_read_dir_r (read_at_fault k b) = Err.
  Proof.
    intros Hk.
    destruct (read_dir_total (read_at_fault k b)) as [([s' toc'] & Hok)|He]; [exfalso|exact He].
    pose proof (read_dir_mono _ _ _ (fault_below k) Hok) as Hfull.
    unfold M_read_dir in Hread. rewrite Hread in Hfull. inversion Hfull; subst s' toc'. clear Hfull.
    destruct (read_dir_inv _ _ _ Hok) as (h & c0 & cs & x & _ & _ & _ & _ & _ & Es & _ & _ & E0 & Ep).
    rewrite covf_toc in Es.
    pose proof (probe_at_data_end c0 cs Es) as Hge.
    apply N.eqb_neq in E0.
    unfold read_at_fault in Ep. cbv zeta in Ep.
    destruct (N.leb_spec (snd (last (c0 :: cs) c0) - 1 + 1) k) as [Hle|Hgt]; [|discriminate].
    lia.
  Qed.

  Lemma data_end_le_length : data_end b <= N.of_nat (length b).
  Proof.
    unfold data_end. apply fold_max_le. intros y Hy.
    apply in_map_iff in Hy. destruct Hy as (r & <- & Hr).
    pose proof (wf_inside _ Hwf) as Hi. rewrite Forall_forall in Hi. exact (Hi r Hr).
  Qed.

  Lemma read_at_firstn k off n : k <= N.of_nat (length b) ->
    read_at (firstn (N.to_nat k) b) off n = read_at_fault k b off n.
  Proof.
    intros Hk. unfold read_at_fault, read_at. cbv zeta.
    rewrite firstn_length.
    replace (N.of_nat (Nat.min (N.to_nat k) (length b))) with k by lia.
    destruct (N.leb_spec (off + n) k) as [H|H]; [|reflexivity].
    destruct (N.leb_spec (off + n) (N.of_nat (length b))) as [H'|H']; [|lia].
    f_equal. unfold sub.
    rewrite <- (firstn_skipn (N.to_nat k) b) at 2.
    rewrite skipn_app, firstn_app.
    replace (N.to_nat n - length (skipn (N.to_nat off) (firstn (N.to_nat k) b)))%nat with 0%nat.
    - cbn [firstn]. now rewrite app_nil_r.
    - rewrite skipn_length, firstn_length. lia.
  Qed.

  Lemma truncated_rejected k : k < data_end b -> M_read_dir (firstn (N.to_nat k) b) = Err.
  Proof.
    intros Hk. unfold M_read_dir.
    rewrite (read_dir_ext _ (read_at_fault k b)).
    - now apply faulting_rejected.
    - intros off n. apply read_at_firstn. pose proof data_end_le_length. lia.
  Qed.
End Truncation.
