(* C18/Proofs_Sim.v — for a writer that looks at lengths only, the write loop
   on byte strings and the write loop on lengths make the same calls with the
   same results; the two fault-injecting writers are of that kind.  This is
   what lets the correspondence enumerate every fault point of a large file
   on lengths alone. *)
From Coq Require Import List NArith ZArith Bool Arith Lia.
From Coq Require Import ZifyBool ZifyNat ZifyN.
From Common Require Import Bytes Outcome.
From C03 Require Import Model.
From C18 Require Import Model Spec.
Import ListNotations.
Ltac Zify.zify_post_hook ::= Z.div_mod_to_equations.

Definition sim (r : wresult) (lr : lresult) : Prop :=
  wr_total r = lr_total lr /\ wr_err r = lr_err lr /\ map call_lens (wr_calls r) = lr_calls lr.

Section Sim.
  Variables (w : writer) (lw : lwriter).
  Hypothesis Hw : forall h p, w h p = lift lw h p.

  Lemma do_write_lens hist p :
    call_lens (do_write w hist p) = do_lwrite lw (map call_lens hist) (N.of_nat (length p)).
  Proof.
    unfold do_write, do_lwrite, call_lens. rewrite Hw. unfold lift.
    cbn [c_chunk c_n c_err fst snd]. rewrite !map_map.
    cbn [c_chunk fst snd]. rewrite N2Nat.id. reflexivity.
  Qed.

  Lemma wl_bodies_sim : forall bodies hist total,
    sim (wl_bodies w hist total bodies)
        (lwl_bodies lw (map call_lens hist) total (map (fun b => N.of_nat (length b)) bodies)).
  Proof.
    induction bodies as [|body rest IH]; intros hist total; cbn [wl_bodies lwl_bodies map].
    - repeat split.
    - pose proof (do_write_lens hist body) as E.
      set (c := do_write w hist body) in *.
      set (lc := do_lwrite lw (map call_lens hist) (N.of_nat (length body))) in *.
      assert (En : snd (fst lc) = N.of_nat (c_n c)) by (rewrite <- E; reflexivity).
      assert (Ee : snd lc = c_err c) by (rewrite <- E; reflexivity).
      assert (Eh : map call_lens (hist ++ [c]) = map call_lens hist ++ [lc]).
      { rewrite map_app. cbn [map]. now rewrite E. }
      rewrite Ee, En. destruct (c_err c) eqn:Ec.
      + repeat split. cbn [wr_calls lr_calls]. exact Eh.
      + replace ((N.of_nat (c_n c) mod 4 =? 0)%N) with (Nat.eqb (c_n c mod 4) 0)
          by (destruct (Nat.eqb_spec (c_n c mod 4) 0), (N.eqb_spec (N.of_nat (c_n c) mod 4) 0); lia).
        destruct (Nat.eqb_spec (c_n c mod 4) 0) as [Ek|Ek].
        * rewrite <- Eh. apply IH.
        * assert (Elen : N.of_nat (length (firstn (4 - c_n c mod 4) [0; 0; 0]%N)) = (4 - N.of_nat (c_n c) mod 4)%N).
          { rewrite firstn_length. cbn [length]. lia. }
          pose proof (do_write_lens (hist ++ [c]) (firstn (4 - c_n c mod 4) [0; 0; 0]%N)) as E2.
          rewrite Elen, Eh in E2.
          set (c2 := do_write w (hist ++ [c]) (firstn (4 - c_n c mod 4) [0; 0; 0]%N)) in *.
          set (lc2 := do_lwrite lw (map call_lens hist ++ [lc]) (4 - N.of_nat (c_n c) mod 4)%N) in *.
          assert (En2 : snd (fst lc2) = N.of_nat (c_n c2)) by (rewrite <- E2; reflexivity).
          assert (Ee2 : snd lc2 = c_err c2) by (rewrite <- E2; reflexivity).
          assert (Eh2 : map call_lens ((hist ++ [c]) ++ [c2]) = (map call_lens hist ++ [lc]) ++ [lc2]).
          { rewrite map_app, Eh. cbn [map]. now rewrite E2. }
          rewrite Ee2, En2. destruct (c_err c2) eqn:Ec2.
          -- repeat split. cbn [wr_calls lr_calls]. exact Eh2.
          -- rewrite <- Eh2. apply IH.
  Qed.

  Lemma write_loop_sim p :
    sim (M_write_loop w p)
        (M_write_loop_len lw (N.of_nat (length (p_header p)))
                          (map (fun tb : N * list N => N.of_nat (length (snd tb))) (p_bodies p))).
  Proof.
    unfold M_write_loop, M_write_loop_len.
    pose proof (do_write_lens [] (p_header p)) as E. cbn [map] in E.
    set (c := do_write w [] (p_header p)) in *.
    set (lc := do_lwrite lw [] (N.of_nat (length (p_header p)))) in *.
    assert (En : snd (fst lc) = N.of_nat (c_n c)) by (rewrite <- E; reflexivity).
    assert (Ee : snd lc = c_err c) by (rewrite <- E; reflexivity).
    rewrite Ee, En. destruct (c_err c) eqn:Ec.
    - repeat split. cbn [wr_calls lr_calls map]. now rewrite E.
    - pose proof (wl_bodies_sim (map snd (p_bodies p)) [c] (N.of_nat (c_n c))) as H.
      cbn [map] in H. rewrite E, map_map in H. exact H.
  Qed.
End Sim.

Lemma nsumN_lengths (hist : list (list N)) :
  nsumN (map (fun c => N.of_nat (length c)) hist) = N.of_nat (offered hist).
Proof.
  unfold offered. induction hist as [|c hist IH]; [reflexivity|].
  cbn [map nsumN fold_right concat]. fold (nsumN (map (fun c => N.of_nat (length c)) hist)).
  rewrite IH, app_length. lia.
Qed.

Lemma budget_writer_lift k h p : budget_writer k h p = lift (budget_lwriter (N.of_nat k)) h p.
Proof.
  unfold budget_writer, lift, budget_lwriter, budget_left. rewrite nsumN_lengths. cbn [fst snd].
  f_equal; [lia|].
  destruct (Nat.ltb_spec (k - offered h) (length p)),
           (N.ltb_spec (N.of_nat k - N.of_nat (offered h)) (N.of_nat (length p))); lia.
Qed.

Lemma short_writer_lift k h p : short_writer k h p = lift (short_lwriter (N.of_nat k)) h p.
Proof.
  unfold short_writer, lift, short_lwriter. rewrite nsumN_lengths.
  replace ((N.of_nat (offered h) <=? N.of_nat k) && (N.of_nat k <? N.of_nat (offered h) + N.of_nat (length p)))%N
    with ((offered h <=? k) && (k <? offered h + length p))%nat.
  - destruct ((offered h <=? k) && (k <? offered h + length p))%nat; cbn [fst snd]; f_equal; lia.
  - destruct (Nat.leb_spec (offered h) k), (Nat.ltb_spec k (offered h + length p)),
             (N.leb_spec (N.of_nat (offered h)) (N.of_nat k)),
             (N.ltb_spec (N.of_nat k) (N.of_nat (offered h) + N.of_nat (length p))); cbn [andb]; lia.
Qed.

(* both fault-injecting writers obey io.Writer's contract *)
Lemma budget_writer_ok k : writer_ok (budget_writer k).
Proof.
  intros h p. unfold budget_writer. cbn [fst snd]. split; [lia|].
  intros H. apply Nat.ltb_lt. lia.
Qed.

Lemma short_writer_ok k : writer_ok (short_writer k).
Proof.
  intros h p. unfold short_writer.
  destruct (Nat.leb_spec (offered h) k), (Nat.ltb_spec k (offered h + length p)); cbn [andb fst snd];
    split; try lia; auto.
Qed.


Lemma eager_writer_ok k : writer_ok (eager_writer k).
Proof. intros h p. unfold eager_writer. cbn [fst snd]. split; lia. Qed.

Lemma eager_writer_lift k h p : eager_writer k h p = lift (eager_lwriter (N.of_nat k)) h p.
Proof.
  unfold eager_writer, lift, eager_lwriter. rewrite nsumN_lengths. cbn [fst snd].
  f_equal; [lia|].
  destruct (Nat.ltb_spec (offered h) k), (Nat.leb_spec k (offered h + length p)),
           (N.ltb_spec (N.of_nat (offered h)) (N.of_nat k)),
           (N.leb_spec (N.of_nat k) (N.of_nat (offered h) + N.of_nat (length p))); cbn [andb]; lia.
Qed.
