From Coq Require Import Extraction ExtrOcamlBasic.
From Common Require Import Conv.
From Gen Require Import Consts.
From C03 Require Import Model.
From C18 Require Import Model.
Extraction "c18_model.ml" conv_anchor M_write_to M_write_loop_len M_cff_write_loop
  budget_writer short_writer eager_writer budget_lwriter short_lwriter eager_lwriter lsummary wsummary cff_summary
  read_summary data_end M_write.
