(* C06/Examples.v — non-vacuity: concrete, non-trivial values satisfying the
   hypotheses of the theorems of Props.v, and runs of R_shape on pinned cases
   of opentype/gtab/testcases (glyphs: 1 = A, 2 = B (base), 3 = L (ligature),
   4 = M (mark), 6 = X, 7 = Y). *)
From Coq Require Import List NArith ZArith Bool Arith Lia.
From Gen Require Import Consts C06.
From C06 Require Import Model Spec.
Import ListNotations.
Local Open Scope N_scope.

Definition gdx : option gdef :=
  Some (mkGdef [(2, 1); (3, 2); (4, 3); (5, 3)] [(4, 1); (5, 2)] [[4]; [5]]).
Definition G (g : N) (t : N) : glyph := mkG g [t] 0%Z 0%Z 0%Z.
Definition GA (g : N) (t : N) (adv : Z) : glyph := mkG g [t] 0%Z 0%Z adv.
Definition gids (l : list glyph) : list N := map gid l.
Definition texts (l : list glyph) : list N := flat_map gtext l.

(* testcase 1_12: GSUB4 -marks "AA" -> X on A M A = X M, text A A M *)
Definition ll_1_12 := [mkLookup 8 0 [SLigature [(1, [([1], 6)])]]].
Example ex_1_12 :
  let out := R_shape ll_1_12 gdx [0%nat] [G 1 65; G 4 77; G 1 66] in
  (gids out, texts out, in_domain ll_1_12 gdx [0%nat] [G 1 65; G 4 77; G 1 66]) = ([6; 4], [65; 66; 77], true).
Proof. vm_compute. reflexivity. Qed.

(* testcase 3_08: GSUB5 -marks "AA" -> 1@0 2@1 ; GSUB2 A -> A M ; GSUB1 A -> X, M -> Y :
   the inserted mark becomes part of the input sequence: A A -> A Y A *)
Definition ll_3_08 :=
  [mkLookup 8 0 [SCtx1 [(1, [([1], [(0%nat, 1%nat); (1%nat, 2%nat)])])]];
   mkLookup 0 0 [SMultiple [(1, [1; 4])]];
   mkLookup 0 0 [SSingle2 [(1, 6); (4, 7)]]].
Example ex_3_08 :
  (gids (R_shape ll_3_08 gdx [0%nat] [G 1 65; G 1 66]), in_domain ll_3_08 gdx [0%nat] [G 1 65; G 1 66])
  = ([1; 7; 1], true).
Proof. vm_compute. reflexivity. Qed.

(* testcase 2_08: trailing ignored glyphs belong to the match: A M A M -> B B *)
Definition ll_2_08 :=
  [mkLookup 8 0 [SCtx1 [(1, [([1], [(0%nat, 1%nat); (1%nat, 1%nat)])])]];
   mkLookup 0 0 [SLigature [(1, [([4], 2)])]]].
Example ex_2_08 :
  (gids (R_shape ll_2_08 gdx [0%nat] [G 1 65; G 4 77; G 1 66; G 4 78]),
   in_domain ll_2_08 gdx [0%nat] [G 1 65; G 4 77; G 1 66; G 4 78]) = ([2; 2], true).
Proof. vm_compute. reflexivity. Qed.

(* testcase 4_04 (section 4): a child replaces an ignored glyph embedded in
   the parent's input by two glyphs: outside the domain *)
Definition ll_4_04 :=
  [mkLookup 8 0 [SCtx1 [(1, [([1], [(0%nat, 1%nat); (1%nat, 3%nat)])])]];
   mkLookup 0 0 [SCtx1 [(1, [([4], [(1%nat, 2%nat)])])]];
   mkLookup 0 0 [SMultiple [(4, [1; 1])]];
   mkLookup 0 0 [SSingle2 [(1, 6)]]].
Example ex_4_04_out_of_domain :
  in_domain ll_4_04 gdx [0%nat] [G 1 65; G 4 77; G 1 66] = false.
Proof. vm_compute. reflexivity. Qed.

(* a rule exceeding the action budget is outside the domain *)
Definition ll_loop := [mkLookup 0 0 [SCtx1 [(1, [([], [(0%nat, 0%nat); (0%nat, 0%nat)])])]]].
Example ex_budget_out_of_domain : in_domain ll_loop None [0%nat] [G 1 65] = false.
Proof. vm_compute. reflexivity. Qed.

(* lookups_in_list_order, both sides non-trivial *)
Definition ll_ord := [mkLookup 0 0 [SSingle2 [(1, 2)]]; mkLookup 8 0 [SLigature [(2, [([2], 1)])]]].
Example ex_order :
  (gids (R_shape ll_ord gdx ([0%nat] ++ [1%nat]) [G 1 65; G 4 77; G 1 66]),
   gids (R_shape ll_ord gdx [1%nat] (R_shape ll_ord gdx [0%nat] [G 1 65; G 4 77; G 1 66])),
   gids (R_shape ll_ord gdx ([1%nat] ++ [0%nat]) [G 1 65; G 4 77; G 1 66]))
  = ([1; 4], [1; 4], [2; 4; 2]).
Proof. vm_compute. reflexivity. Qed.

(* first_matching_subtable: pre = [a single substitution which does not cover
   the glyph], sub = a ligature which matches *)
Definition st0 := mkSt [G 1 65; G 4 77; G 1 66] [] 0 true.
Definition rec0 := apply_at ll_1_12 gdx gtab_actionBudget 5.
Example ex_first_subtable :
  (match try_sub ll_1_12 gdx gtab_actionBudget rec0 (keep gdx 8 0) 0 0 st0 (SSingle2 [(2, 6)]) with None => true | _ => false end,
   match try_sub ll_1_12 gdx gtab_actionBudget rec0 (keep gdx 8 0) 0 0 st0 (SLigature [(1, [([1], 6)])]) with
   | Some (s, n) => (gids (s_seq s), n) | None => ([], 0%nat) end) = (true, ([6; 4], 2%nat)).
Proof. vm_compute. reflexivity. Qed.

(* left_to_right_scan: the trace on "AAAAAA" with "AA" -> X is 6,4,2 *)
Definition ll_aa := [mkLookup 0 0 [SLigature [(1, [([1], 6)])]]].
Example ex_scan_trace :
  scan_trace ll_aa gdx gtab_actionBudget (mkLookup 0 0 [SLigature [(1, [([1], 6)])]]) 6 6
             [G 1 1; G 1 2; G 1 3; G 1 4; G 1 5; G 1 6] = [6; 4; 2]%nat.
Proof. vm_compute. reflexivity. Qed.

(* skipped_untouched: hypothesis and a case where a skipped glyph sits inside a match *)
Example ex_is_simple : forallb is_simple (lk_subs (mkLookup 8 0 [SLigature [(1, [([1], 6)])]; SMultiple [(1, [1; 1])]])) = true.
Proof. reflexivity. Qed.
Example ex_skipped :
  filter (skipped (kp_of gdx (mkLookup 8 0 []))) [G 1 65; G 4 77; G 1 66] = [G 4 77].
Proof. vm_compute. reflexivity. Qed.

(* keep_precedence: every hypothesis combination is inhabited, with the
   regenerated flag bits *)
Example ex_keep_hyps :
  (class_of [(2, 1); (3, 2); (4, 3); (5, 3)] 4,
   has_flag 24 c06_IgnoreMarks, has_flag 16 c06_IgnoreMarks, has_flag 16 c06_UseMarkFilteringSet,
   has_flag 512 c06_UseMarkFilteringSet, attach_type 512)
  = (c06_GlyphClassMark, true, false, true, false, 2).
Proof. vm_compute. reflexivity. Qed.
Example ex_keep_values :
  (keep gdx 24 0 4, keep gdx 16 0 4, keep gdx 16 1 4, keep gdx (16 + 512) 0 4, keep gdx 512 0 4, keep gdx 256 0 4,
   keep gdx 2 0 2, keep gdx 4 0 3, keep gdx 14 0 1, keep None 14 0 4)
  = (false, true, false, true, false, true, false, false, true, true).
Proof. vm_compute. reflexivity. Qed.

(* ligature_consumes: hypotheses with two skipped glyphs inside the match and
   a second candidate (the first one fails) *)
Definition seq_lig := [G 1 65; G 4 77; G 4 78; G 1 66; G 2 67].
Example ex_lig_hyps :
  (nth_error seq_lig 0, assoc 1 [(1, [([2; 1], 6); ([1], 7)])],
   find_lig (keep gdx 8 0) seq_lig 0 5 1 [([2; 1], 6); ([1], 7)])
  = (Some (G 1 65), Some [([2; 1], 6); ([1], 7)], Some ([0; 3]%nat, 7)).
Proof. vm_compute. reflexivity. Qed.
Example ex_lig_result :
  let out := R_shape [mkLookup 8 0 [SLigature [(1, [([2; 1], 6); ([1], 7)])]]] gdx [0%nat] seq_lig in
  (gids out, texts out) = ([7; 4; 4; 2], [65; 66; 77; 78; 67]).
Proof. vm_compute. reflexivity. Qed.

(* gpos_adds_exactly: pair with an ignored mark between the glyphs *)
Definition seq_pair := [GA 1 65 600; G 4 77; GA 2 66 500].
Example ex_pair_hyps :
  match next_kept (keep gdx 8 0) (slice seq_pair 1 3) 1 with
  | Some (g1, _, p) => (gid g1, p) | None => (0, 0%nat) end = (2, 2%nat).
Proof. vm_compute. reflexivity. Qed.
Example ex_pair_result :
  let v1 := mkV 0 0 (-300) false in let v2 := mkV 0 200 0 false in
  map (fun g => (gx g, gy g, gadv g))
      (R_shape [mkLookup 8 0 [SPair1 [(1, [(2, (v1, Some v2))])]]] gdx [0%nat] seq_pair)
  = [(0, 0, 300); (0, 0, 0); (0, 200, 500)]%Z.
Proof. vm_compute. reflexivity. Qed.

(* mark to base (pinned GPOS4 case: mark M: 0@400,0 ; base A: @400,1000 on A M, advance of A = 1366) *)
Definition seq_mb := [GA 1 65 1366; G 4 77].
Example ex_markbase_hyps :
  (assoc 4 [(4, (0%nat, (400, 0)%Z))],
   find_base [(1, [Some (400, 1000)%Z])] (rev (firstn 1 seq_mb)) 1)
  = (Some (0%nat, (400, 0)%Z), Some ([Some (400, 1000)%Z], 1%nat)).
Proof. vm_compute. reflexivity. Qed.
Example ex_markbase_result :
  map (fun g => (gx g, gy g, gadv g))
      (R_shape [mkLookup 0 0 [SMarkBase [(4, (0%nat, (400, 0)%Z))] [(1, [Some (400, 1000)%Z])]]] gdx [0%nat] seq_mb)
  = [(0, 0, 1366); (-1366, 1000, 0)]%Z.
Proof. vm_compute. reflexivity. Qed.

(* nested_positions_live: a state with a live frame; the action at index 1
   runs at the CURRENT second input position (2 after an insertion at 0) *)
Definition st_live := mkSt [G 1 65; G 4 0; G 1 66] [[0; 1; 2]%nat] 1 true.
Example ex_live_hyps :
  (s_ok (count_action gtab_actionBudget st_live), nth_error (hd [] (s_frames st_live)) 2,
   match nth_error ll_3_08 2 with Some lk => kp_of gdx lk (gid_at (s_seq st_live) 2) | None => false end)
  = (true, Some 2%nat, true).
Proof. vm_compute. reflexivity. Qed.
Example ex_ins_positions : (ins_positions 0 2 [0; 1]%nat, del_positions [2]%nat [0; 2; 3]%nat) = ([0; 1; 2]%nat, [0; 2]%nat).
Proof. vm_compute. reflexivity. Qed.

(* static domain: an empty replacement list and an unsupported subtable *)
Example ex_static :
  (static_ok [mkLookup 0 0 [SMultiple [(1, [])]]] None, static_ok [mkLookup 0 0 [SUnsupported]] None,
   static_ok [mkLookup 16 5 []] gdx, static_ok ll_3_08 gdx) = (false, false, false, true).
Proof. vm_compute. reflexivity. Qed.

(* GPOS 6.1: N directly after M, M unmoved: inside the domain *)
Definition sub_mm := SMarkMark [(5, (0%nat, (10, 20)%Z))] [(4, [Some (100, 200)%Z])].
Example ex_markmark :
  (map (fun g => (gx g, gy g)) (R_shape [mkLookup 0 0 [sub_mm]] gdx [0%nat] [GA 1 65 600; G 4 77; G 5 78]),
   in_domain [mkLookup 0 0 [sub_mm]] gdx [0%nat] [GA 1 65 600; G 4 77; G 5 78])
  = ([(0, 0); (0, 0); (90, 180)]%Z, true).
Proof. vm_compute. reflexivity. Qed.
Example ex_markmark_hyps :
  match next_kept (keep gdx 0 0) (rev (firstn 2 [GA 1 65 600; G 4 77; G 5 78])) 0 with
  | Some (g2, l2, d) =>
    (gid g2, d, mm_same (Some (g2, l2, d)) (find_base [(4, [Some (100, 200)%Z])] (rev (firstn 2 [GA 1 65 600; G 4 77; G 5 78])) 1))
  | None => (0, 0%nat, false) end = (4, 0%nat, true).
Proof. vm_compute. reflexivity. Qed.
(* open finding c06-gpos6-markmark, class 1: M A N - the rule: the glyph before
   N is A (kept, no mark2 record): no attachment; the implementation attaches
   N to M across A.  Outside the domain. *)
Example ex_markmark_walks_past_kept_glyph :
  (map (fun g => (gx g, gy g)) (R_shape [mkLookup 0 0 [sub_mm]] gdx [0%nat] [G 4 77; GA 1 65 600; G 5 78]),
   in_domain [mkLookup 0 0 [sub_mm]] gdx [0%nat] [G 4 77; GA 1 65 600; G 5 78])
  = ([(0, 0); (0, 0); (0, 0)]%Z, false).
Proof. vm_compute. reflexivity. Qed.
(* class 2: mark-to-base has moved M; the rule places N relative to the moved M
   (x = -600 + 90); the implementation drops M's offset.  Outside the domain. *)
Definition ll_mb_mm := [mkLookup 0 0 [SMarkBase [(4, (0%nat, (400, 0)%Z))] [(1, [Some (400, 1000)%Z])]];
                        mkLookup 0 0 [sub_mm]].
Example ex_markmark_mark2_moved :
  (map (fun g => (gx g, gy g)) (R_shape ll_mb_mm gdx [0%nat; 1%nat] [GA 1 65 600; G 4 77; G 5 78]),
   in_domain ll_mb_mm gdx [0%nat; 1%nat] [GA 1 65 600; G 4 77; G 5 78])
  = ([(0, 0); (-600, 1000); (-510, 1180)]%Z, false).
Proof. vm_compute. reflexivity. Qed.

(* GSUB 8.1: A -> X with backtrack {A, B, M}.  From the end: A A A -> A X X
   (every A still sees the original A before it); a forward scan gives A X A.
   Outside the domain (open finding c06-gsub8-forward-order); "A A" is inside. *)
Definition lk_r8 := mkLookup 0 0 [SRevChain [(1, 6)] [[1; 2; 4]] []].
Example ex_reverse_chaining :
  (is_reverse lk_r8,
   gids (R_shape [lk_r8] gdx [0%nat] [G 1 1; G 1 2; G 1 3]),
   gids (fst (scan [lk_r8] gdx gtab_actionBudget lk_r8 3 3 [G 1 1; G 1 2; G 1 3] true)),
   in_domain [lk_r8] gdx [0%nat] [G 1 1; G 1 2; G 1 3],
   gids (R_shape [lk_r8] gdx [0%nat] [G 1 1; G 1 2]),
   in_domain [lk_r8] gdx [0%nat] [G 1 1; G 1 2])
  = (true, [1; 6; 6], [1; 6; 1], false, [1; 6], true).
Proof. vm_compute. reflexivity. Qed.
Example ex_reverse_hyps :
  (assoc 1 [(1, 6)], match_ctx (keep gdx 0 0) (map PCov [[1; 2; 4]]) (rev (firstn 1 [G 1 1; G 1 2])),
   match_ctx (keep gdx 0 0) (map PCov []) (skipn 2 [G 1 1; G 1 2])) = (Some 6, true, true).
Proof. vm_compute. reflexivity. Qed.
