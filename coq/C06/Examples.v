From Coq Require Import List NArith ZArith Bool Arith Lia.
From Gen Require Import Consts C06.
From C06 Require Import Model.
Import ListNotations.
