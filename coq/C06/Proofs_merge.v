(* C06/Proofs_merge.v — the renumbering of del_positions follows the glyphs
   (all sequences). *)
From Coq Require Import List NArith ZArith Bool Arith Lia.
From C06 Require Import Model Spec Util Proofs.
Import ListNotations.

Lemma cnt_bound : forall rest p j, NoDup rest -> cnt rest p j <= j.
Proof.
  intros rest p j Hnd. unfold cnt.
  assert (H : length (filter (fun r => (p <=? r) && (r <? p + j)) rest) <= length (seq p j));
    [|rewrite seq_length in H; exact H].
  apply NoDup_incl_length; [apply NoDup_filter; assumption|].
  intros r Hr. apply filter_In in Hr. destruct Hr as [_ Hr].
  apply andb_prop in Hr. destruct Hr as [H1 H2].
  apply Nat.leb_le in H1. apply Nat.ltb_lt in H2. apply in_seq. lia.
Qed.

Lemma cnt_zero : forall rest p, cnt rest p 0 = 0.
Proof.
  intros rest p. unfold cnt. induction rest as [|r rest IH]; [reflexivity|].
  cbn [filter]. replace ((p <=? r) && (r <? p + 0)) with false; [assumption|].
  symmetry. apply andb_false_iff.
  destruct (Nat.leb_spec p r); [right; apply Nat.ltb_ge; lia | left; reflexivity].
Qed.

Lemma cnt_step_in : forall rest p j, NoDup rest -> In p rest -> cnt rest p (S j) = S (cnt rest (S p) j).
Proof.
  intros rest p j. unfold cnt. induction rest as [|r rest IH]; intros Hnd Hin; [destruct Hin|].
  inversion Hnd as [|? ? Hnotin Hnd']; subst. cbn [filter].
  destruct Hin as [->|Hin].
  - replace ((p <=? p) && (p <? p + S j)) with true
      by (symmetry; apply andb_true_iff; split; [apply Nat.leb_le | apply Nat.ltb_lt]; lia).
    replace ((S p <=? p) && (p <? S p + j)) with false
      by (symmetry; apply andb_false_iff; left; apply Nat.leb_gt; lia).
    cbn [length]. f_equal.
    (* p does not occur in rest: the two filters agree *)
    clear IH Hnd Hnd'. induction rest as [|r rest IH]; [reflexivity|].
    assert (Hr : r <> p) by (intros ->; apply Hnotin; left; reflexivity).
    assert (Hn : ~ In p rest) by (intros H; apply Hnotin; right; assumption).
    cbn [filter].
    replace ((p <=? r) && (r <? p + S j)) with ((S p <=? r) && (r <? S p + j)).
    + destruct ((S p <=? r) && (r <? S p + j)); cbn [length]; rewrite (IH Hn); reflexivity.
    + destruct (Nat.leb_spec (S p) r), (Nat.leb_spec p r), (Nat.ltb_spec r (S p + j)), (Nat.ltb_spec r (p + S j));
        try reflexivity; lia.
  - assert (Hr : r <> p) by (intros ->; contradiction).
    replace ((p <=? r) && (r <? p + S j)) with ((S p <=? r) && (r <? S p + j)).
    + destruct ((S p <=? r) && (r <? S p + j)); cbn [length]; rewrite (IH Hnd' Hin); reflexivity.
    + destruct (Nat.leb_spec (S p) r), (Nat.leb_spec p r), (Nat.ltb_spec r (S p + j)), (Nat.ltb_spec r (p + S j));
        try reflexivity; lia.
Qed.

Lemma cnt_step_notin : forall rest p j, ~ In p rest -> cnt rest p (S j) = cnt rest (S p) j.
Proof.
  intros rest p j. unfold cnt. induction rest as [|r rest IH]; intros Hn; [reflexivity|].
  assert (Hr : r <> p) by (intros ->; apply Hn; left; reflexivity).
  assert (Hn' : ~ In p rest) by (intros H; apply Hn; right; assumption).
  cbn [filter].
  replace ((p <=? r) && (r <? p + S j)) with ((S p <=? r) && (r <? S p + j)).
  - destruct ((S p <=? r) && (r <? S p + j)); cbn [length]; rewrite (IH Hn'); reflexivity.
  - destruct (Nat.leb_spec (S p) r), (Nat.leb_spec p r), (Nat.ltb_spec r (S p + j)), (Nat.ltb_spec r (p + S j));
      try reflexivity; lia.
Qed.

Lemma drop_at_nth {A} : forall (l : list A) rest p j x,
  NoDup rest -> nth_error l j = Some x -> ~ In (p + j) rest ->
  nth_error (drop_at l p rest) (j - cnt rest p j) = Some x.
Proof.
  induction l as [|y l IH]; intros rest p j x Hnd Hn Hnot.
  - destruct j; discriminate.
  - cbn [drop_at]. destruct j as [|j].
    + rewrite Nat.add_0_r in Hnot. apply memnat_false in Hnot. rewrite Hnot.
      rewrite cnt_zero. simpl in *. assumption.
    + simpl in Hn. replace (p + S j) with (S p + j) in Hnot by lia.
      pose proof (IH rest (S p) j x Hnd Hn Hnot) as IH'.
      destruct (memnat p rest) eqn:Em.
      * apply memnat_true in Em. rewrite cnt_step_in by assumption.
        replace (S j - S (cnt rest (S p) j)) with (j - cnt rest (S p) j) by lia. assumption.
      * apply memnat_false in Em. rewrite cnt_step_notin by assumption.
        pose proof (cnt_bound rest (S p) j Hnd) as Hb.
        replace (S j - cnt rest (S p) j) with (S (j - cnt rest (S p) j)) by lia.
        simpl. assumption.
Qed.

Lemma count_lt_cnt : forall rest p j, (forall r, In r rest -> p <= r) -> count_lt rest (p + j) = cnt rest p j.
Proof.
  intros rest p j H. unfold count_lt, cnt. induction rest as [|r rest IH]; [reflexivity|].
  cbn [filter]. assert (Hr : p <= r) by (apply H; left; reflexivity).
  replace (p <=? r) with true by (symmetry; apply Nat.leb_le; assumption). cbn [andb].
  destruct (r <? p + j); cbn [length]; rewrite IH; auto; intros r' Hr'; apply H; right; assumption.
Qed.

(* behind a merge: the glyph at old position q (not removed) is found at
   q - #(removed positions before q), for every sequence *)
Lemma merge_tracks_behind : forall (l : list glyph) m0 rest lig q x,
  NoDup rest -> (forall r, In r rest -> m0 < r) -> m0 < length l ->
  m0 < q -> ~ In q rest -> nth_error l q = Some x ->
  nth_error (firstn m0 l ++ lig :: drop_at (skipn (S m0) l) (S m0) rest) (q - count_lt rest q) = Some x.
Proof.
  intros l m0 rest lig q x Hnd Hall Hm Hq Hnot Hn.
  assert (Hf : length (firstn m0 l) = m0) by (rewrite firstn_length; lia).
  set (j := q - S m0).
  assert (Hqj : q = S m0 + j) by (unfold j; lia).
  assert (Hc : count_lt rest q = cnt rest (S m0) j).
  { rewrite Hqj. apply count_lt_cnt. intros r Hr. specialize (Hall r Hr). lia. }
  pose proof (cnt_bound rest (S m0) j Hnd) as Hb.
  rewrite nth_error_app2 by lia. rewrite Hf, Hc.
  replace (q - cnt rest (S m0) j - m0) with (S (j - cnt rest (S m0) j)) by lia.
  cbn [nth_error]. apply drop_at_nth; [assumption| |].
  - rewrite nth_error_skipn_add. rewrite <- Hqj. assumption.
  - rewrite <- Hqj. assumption.
Qed.

(* the positions matched by match_seq are pairwise distinct *)
Lemma match_seq_nodup : forall kp preds l p qs, match_seq kp preds l p = Some qs -> NoDup qs.
Proof.
  intros kp preds. induction preds as [|pr preds IH]; intros l p qs H; simpl in H.
  - inversion H; constructor.
  - destruct (next_kept kp l p) as [[[g l'] q]|] eqn:En; [|discriminate].
    destruct (test_pred pr (gid g)); [|discriminate].
    destruct (match_seq kp preds l' (S q)) as [qs'|] eqn:E; [|discriminate].
    inversion H; subst. constructor; [|eapply IH; eassumption].
    intros Hin. pose proof (match_seq_bounds _ _ _ _ _ E q Hin). lia.
Qed.
