(* C06/Model.v — R_shape: a reference implementation of GSUB/GPOS lookup
   application, written from the OpenType rules and the repository's
   documented decisions (opentype/gtab/testcases sections 1-3 and 5), NOT
   from the code of opentype/gtab.

   - one glyph filter `keep` (lookup flags + GDEF classes),
   - one generic matcher `match_seq` (the next kept glyphs of a glyph list)
     used for input sequences (inside the window [a,b)), for backtrack
     (the reversed prefix) and for lookahead (the suffix), and by every
     contextual format and by ligature substitution,
   - nested actions are resolved against the LIVE list of input positions
     of every enclosing match (frames); insertions and merges update the
     frames by two list operations (ins_positions / del_positions),
   - the domain flag s_ok records whether the run stayed inside the region
     where the specification and the documented decisions define the result.

   Executable definitions only. *)
From Coq Require Import List NArith ZArith Bool Arith Lia.
From Gen Require Import Consts C06.
Import ListNotations.
Local Open Scope nat_scope.

(* ------------------------------------------------------------------ data *)

Record glyph := mkG { gid : N; gtext : list N; gx : Z; gy : Z; gadv : Z }.

Record gdef := mkGdef {
  gd_class : list (N * N);      (* glyph class definition: 1 base, 2 ligature, 3 mark *)
  gd_attach : list (N * N);     (* mark attachment class definition *)
  gd_sets : list (list N) }.    (* mark glyph sets *)

Definition action := (nat * nat)%type.   (* sequence index, lookup list index *)

Record vrec := mkV { vx : Z; vy : Z; va : Z; vbad : bool }.
   (* vbad: the record carries data outside the model (YAdvance, device tables) *)

Definition anchor := option (Z * Z).

Inductive subtable :=
| SSingle1 (cov : list N) (delta : N)                     (* GSUB 1.1 *)
| SSingle2 (m : list (N * N))                             (* GSUB 1.2 *)
| SMultiple (m : list (N * list N))                       (* GSUB 2.1 *)
| SAlternate (m : list (N * list N))                      (* GSUB 3.1 *)
| SLigature (m : list (N * list (list N * N)))            (* GSUB 4.1 *)
| SCtx1 (m : list (N * list (list N * list action)))      (* SeqContext 1 *)
| SCtx2 (cov : list N) (cd : list (N * N))
        (rules : list (list (list N * list action)))      (* SeqContext 2 *)
| SCtx3 (covs : list (list N)) (acts : list action)       (* SeqContext 3 *)
| SChain1 (m : list (N * list (list N * list N * list N * list action)))
| SChain2 (cov : list N) (bcd icd lcd : list (N * N))
          (rules : list (list (list N * list N * list N * list action)))
| SChain3 (back inp look : list (list N)) (acts : list action)
| SPos1 (cov : list N) (v : vrec)                         (* GPOS 1.1 *)
| SPos2 (m : list (N * vrec))                             (* GPOS 1.2 *)
| SPair1 (m : list (N * list (N * (vrec * option vrec)))) (* GPOS 2.1 *)
| SPair2 (cov : list N) (cd1 cd2 : list (N * N))
         (m : list (list (vrec * option vrec)))           (* GPOS 2.2 *)
| SMarkBase (marks : list (N * (nat * (Z * Z))))
            (bases : list (N * list anchor))              (* GPOS 4.1 *)
| SMarkMark (marks1 : list (N * (nat * (Z * Z))))
            (marks2 : list (N * list anchor))             (* GPOS 6.1 *)
| SRevChain (m : list (N * N)) (back look : list (list N)) (* GSUB 8.1 *)
| SUnsupported.                                           (* anything else *)

Record lookup := mkLookup { lk_flags : N; lk_mfs : N; lk_subs : list subtable }.

(* ------------------------------------------------------------- small maps *)

Fixpoint assoc {V : Type} (k : N) (l : list (N * V)) : option V :=
  match l with
  | [] => None
  | (k', v) :: l' => if N.eqb k k' then Some v else assoc k l'
  end.

Definition class_of (cd : list (N * N)) (g : N) : N :=
  match assoc g cd with Some c => c | None => 0%N end.

Definition memN (g : N) (l : list N) : bool := existsb (N.eqb g) l.
Definition memnat (p : nat) (l : list nat) : bool := existsb (Nat.eqb p) l.

(* ------------------------------------------------------------------ keep *)

Definition has_flag (flags bit : N) : bool := negb (N.eqb (N.land flags bit) 0%N).
Definition attach_type (flags : N) : N := N.shiftr (N.land flags c06_MarkAttachTypeMask) 8.

(* OpenType, chapter 2, lookupFlag: base / ligature / mark glyphs can be
   ignored; for marks IgnoreMarks supersedes a mark filtering set, which
   supersedes a mark attachment type. *)
Definition keep (gd : option gdef) (flags mfs : N) (g : N) : bool :=
  match gd with
  | None => true
  | Some d =>
    let c := class_of (gd_class d) g in
    if N.eqb c c06_GlyphClassBase then negb (has_flag flags c06_IgnoreBaseGlyphs)
    else if N.eqb c c06_GlyphClassLigature then negb (has_flag flags c06_IgnoreLigatures)
    else if N.eqb c c06_GlyphClassMark then
      if has_flag flags c06_IgnoreMarks then false
      else if has_flag flags c06_UseMarkFilteringSet then
        memN g (nth (N.to_nat mfs) (gd_sets d) [])
      else if N.eqb (attach_type flags) 0%N then true
      else N.eqb (class_of (gd_attach d) g) (attach_type flags)
    else true
  end.

(* --------------------------------------------------------------- matching *)

Inductive pred := PGlyph (g : N) | PClass (cd : list (N * N)) (c : N) | PCov (cov : list N).

Definition test_pred (pr : pred) (g : N) : bool :=
  match pr with
  | PGlyph h => N.eqb g h
  | PClass cd c => N.eqb (class_of cd g) c
  | PCov cov => memN g cov
  end.

(* the first kept glyph of l (l starts at position p) *)
Fixpoint next_kept (kp : N -> bool) (l : list glyph) (p : nat)
  : option (glyph * list glyph * nat) :=
  match l with
  | [] => None
  | g :: l' => if kp (gid g) then Some (g, l', p) else next_kept kp l' (S p)
  end.

(* the generic matcher: the next |preds| kept glyphs of l satisfy preds;
   returns their positions *)
Fixpoint match_seq (kp : N -> bool) (preds : list pred) (l : list glyph) (p : nat)
  : option (list nat) :=
  match preds with
  | [] => Some []
  | pr :: preds' =>
    match next_kept kp l p with
    | None => None
    | Some (g, l', q) =>
      if test_pred pr (gid g)
      then option_map (cons q) (match_seq kp preds' l' (S q))
      else None
    end
  end.

Definition slice {A} (l : list A) (i j : nat) : list A := firstn (j - i) (skipn i l).

Definition gid_at (seq : list glyph) (p : nat) : N :=
  match nth_error seq p with Some g => gid g | None => 0%N end.

(* input sequence: first predicate at position a itself (the caller has
   checked that a is kept), the others at the following kept glyphs, all
   inside [a,b) *)
Definition match_input (kp : N -> bool) (seq : list glyph) (a b : nat) (preds : list pred)
  : option (list nat) :=
  match preds with
  | [] => None
  | pr :: rest =>
    match nth_error seq a with
    | None => None
    | Some g =>
      if (a <? b) && test_pred pr (gid g)
      then option_map (cons a) (match_seq kp rest (slice seq (S a) b) (S a))
      else None
    end
  end.

Definition match_ctx (kp : N -> bool) (preds : list pred) (l : list glyph) : bool :=
  match match_seq kp preds l 0 with Some _ => true | None => false end.

Fixpoint skip_ignored (kp : N -> bool) (l : list glyph) (p : nat) : nat :=
  match l with
  | [] => p
  | g :: l' => if kp (gid g) then p else skip_ignored kp l' (S p)
  end.

(* end of a match: trailing ignored glyphs belong to the match (test cases
   2_08, 5_12), but never beyond the window end b *)
Definition end_pos (kp : N -> bool) (seq : list glyph) (last b : nat) : nat :=
  skip_ignored kp (slice seq (S last) b) (S last).

Record rule := mkRule {
  r_back : list pred;      (* closest glyph first *)
  r_in : list pred;        (* including the first input glyph *)
  r_look : list pred;
  r_acts : list action }.

(* all six contextual formats as lists of generic rules, given the glyph at
   the current position *)
Definition ctx_rules (sub : subtable) (g : N) : list rule :=
  match sub with
  | SCtx1 m =>
    match assoc g m with
    | Some rs => map (fun r => mkRule [] (PGlyph g :: map PGlyph (fst r)) [] (snd r)) rs
    | None => []
    end
  | SCtx2 cov cd rules =>
    if memN g cov then
      let c := class_of cd g in
      map (fun r => mkRule [] (PClass cd c :: map (PClass cd) (fst r)) [] (snd r))
          (nth (N.to_nat c) rules [])
    else []
  | SCtx3 covs acts => [mkRule [] (map PCov covs) [] acts]
  | SChain1 m =>
    match assoc g m with
    | Some rs =>
      map (fun r => match r with (bk, ip, lk, ac) =>
             mkRule (map PGlyph bk) (PGlyph g :: map PGlyph ip) (map PGlyph lk) ac end) rs
    | None => []
    end
  | SChain2 cov bcd icd lcd rules =>
    if memN g cov then
      let c := class_of icd g in
      map (fun r => match r with (bk, ip, lk, ac) =>
             mkRule (map (PClass bcd) bk) (PClass icd c :: map (PClass icd) ip)
                    (map (PClass lcd) lk) ac end)
          (nth (N.to_nat c) rules [])
    else []
  | SChain3 back inp look acts => [mkRule (map PCov back) (map PCov inp) (map PCov look) acts]
  | _ => []
  end.

Definition last_pos (ms : list nat) (d : nat) : nat := last ms d.

(* a rule matches at a inside the window [a,b): input inside the window,
   backtrack anywhere before a, lookahead anywhere after the last input glyph *)
Definition rule_matches (kp : N -> bool) (seq : list glyph) (a b : nat) (r : rule)
  : option (list nat) :=
  match match_input kp seq a b (r_in r) with
  | None => None
  | Some ms =>
    if match_ctx kp (r_back r) (rev (firstn a seq))
       && match_ctx kp (r_look r) (skipn (S (last_pos ms a)) seq)
    then Some ms else None
  end.

Fixpoint find_rule (kp : N -> bool) (seq : list glyph) (a b : nat) (rs : list rule)
  : option (list nat * list action) :=
  match rs with
  | [] => None
  | r :: rs' =>
    match rule_matches kp seq a b r with
    | Some ms => Some (ms, r_acts r)
    | None => find_rule kp seq a b rs'
    end
  end.

(* ------------------------------------------------------- simple subtables *)

Definition set_gid (h : N) (g : glyph) : glyph := mkG h (gtext g) (gx g) (gy g) (gadv g).
Definition fresh (h : N) : glyph := mkG h [] 0%Z 0%Z 0%Z.

Definition fits16 (z : Z) : bool := (Z.leb (-32768) z && Z.leb z 32767)%Z.

Definition add_vr (v : vrec) (g : glyph) : glyph :=
  mkG (gid g) (gtext g) (gx g + vx v)%Z (gy g + vy v)%Z (gadv g + va v)%Z.
Definition glyph_fits (g : glyph) : bool := fits16 (gx g) && fits16 (gy g) && fits16 (gadv g).
Definition vr_ok (v : vrec) (g : glyph) : bool := negb (vbad v) && glyph_fits (add_vr v g).

(* what a non-contextual subtable does at a position *)
Inductive effect :=
| ESet (upd : list (nat * glyph)) (next : nat)   (* glyphs rewritten in place *)
| EInsert (p : nat) (gs : list glyph)            (* glyph p replaced by gs *)
| EMerge (ms : list nat) (lig : glyph).          (* glyphs ms merged into lig at hd ms *)

Definition text_at (seq : list glyph) (p : nat) : list N :=
  match nth_error seq p with Some g => gtext g | None => [] end.

Fixpoint find_lig (kp : N -> bool) (seq : list glyph) (a b : nat) (g : N)
         (ligs : list (list N * N)) : option (list nat * N) :=
  match ligs with
  | [] => None
  | (comps, out) :: ligs' =>
    match match_input kp seq a b (PGlyph g :: map PGlyph comps) with
    | Some ms => Some (ms, out)
    | None => find_lig kp seq a b g ligs'
    end
  end.

Fixpoint sum_adv (l : list glyph) : Z :=
  match l with [] => 0%Z | g :: l' => (gadv g + sum_adv l')%Z end.

(* the nearest glyph before a (l = reversed prefix) which has an entry in bases;
   returns it with its distance (1 = immediately before) *)
Fixpoint find_base {V} (bases : list (N * V)) (l : list glyph) (d : nat) : option (V * nat) :=
  match l with
  | [] => None
  | g :: l' => match assoc (gid g) bases with
               | Some v => Some (v, d)
               | None => find_base bases l' (S d)
               end
  end.

Definition is_mark (gd : option gdef) (g : N) : bool :=
  match gd with
  | None => false
  | Some d => N.eqb (class_of (gd_class d) g) c06_GlyphClassMark
  end.

(* GPOS 6.1: do the specification (nearest preceding kept glyph, at index d of
   the reversed prefix) and the implementation (nearest preceding glyph with a
   mark2 record, at distance de) look at the same glyph? *)
Definition mm_same {V} (spec : option (glyph * list glyph * nat)) (impl : option (V * nat)) : bool :=
  match spec, impl with
  | Some (_, _, d), Some (_, de) => S d =? de
  | Some _, None => true      (* the preceding glyph has no mark2 record: no attachment either way *)
  | None, None => true
  | None, Some _ => false
  end.

(* result: the effect and whether it is inside the modelled domain *)
Definition simple_effect (gd : option gdef) (kp : N -> bool) (seq : list glyph) (a b : nat)
           (sub : subtable) : option (effect * bool) :=
  match nth_error seq a with
  | None => None
  | Some g0 =>
    let g := gid g0 in
    match sub with
    | SSingle1 cov delta =>
      if memN g cov then Some (ESet [(a, set_gid (N.modulo (g + delta) 65536) g0)] (S a), true)
      else None
    | SSingle2 m =>
      match assoc g m with
      | Some h => Some (ESet [(a, set_gid h g0)] (S a), true)
      | None => None
      end
    | SMultiple m =>
      match assoc g m with
      | Some (h :: hs) => Some (EInsert a (set_gid h g0 :: map fresh hs), true)
      | _ => None
      end
    | SAlternate m =>
      match assoc g m with
      | Some (h :: _) => Some (ESet [(a, set_gid h g0)] (S a), true)
      | _ => None
      end
    | SLigature m =>
      match assoc g m with
      | Some ligs =>
        match find_lig kp seq a b g ligs with
        | Some (ms, out) => Some (EMerge ms (mkG out (flat_map (text_at seq) ms) 0%Z 0%Z 0%Z), true)
        | None => None
        end
      | None => None
      end
    | SPos1 cov v =>
      if memN g cov then Some (ESet [(a, add_vr v g0)] (S a), vr_ok v g0) else None
    | SPos2 m =>
      match assoc g m with
      | Some v => Some (ESet [(a, add_vr v g0)] (S a), vr_ok v g0)
      | None => None
      end
    | SPair1 m =>
      match next_kept kp (slice seq (S a) b) (S a) with
      | None => None
      | Some (g1, _, p) =>
        match assoc g m with
        | None => None
        | Some row =>
          match assoc (gid g1) row with
          | None => None
          | Some (v1, None) => Some (ESet [(a, add_vr v1 g0)] p, vr_ok v1 g0)
          | Some (v1, Some v2) =>
            Some (ESet [(a, add_vr v1 g0); (p, add_vr v2 g1)] (S p), vr_ok v1 g0 && vr_ok v2 g1)
          end
        end
      end
    | SPair2 cov cd1 cd2 m =>
      if memN g cov then
        match next_kept kp (slice seq (S a) b) (S a) with
        | None => None
        | Some (g1, _, p) =>
          match nth_error m (N.to_nat (class_of cd1 g)) with
          | None => None
          | Some row =>
            match nth_error row (N.to_nat (class_of cd2 (gid g1))) with
            | None => None
            | Some (v1, None) => Some (ESet [(a, add_vr v1 g0)] p, vr_ok v1 g0)
            | Some (v1, Some v2) =>
              Some (ESet [(a, add_vr v1 g0); (p, add_vr v2 g1)] (S p), vr_ok v1 g0 && vr_ok v2 g1)
            end
          end
        end
      else None
    | SMarkBase marks bases =>
      match assoc g marks with
      | None => None
      | Some (cls, (mx, my)) =>
        match find_base bases (rev (firstn a seq)) 1 with
        | None => None
        | Some (anchors, d) =>
          match nth_error anchors cls with
          | Some (Some (bx, byy)) =>
            let between := slice seq (a - d) a in   (* base and everything up to the mark *)
            let g' := mkG g (gtext g0) (gx g0 + (bx - mx - sum_adv between))%Z
                          (gy g0 + (byy - my))%Z (gadv g0) in
            (* domain: everything strictly between base and mark is a mark glyph *)
            Some (ESet [(a, g')] (S a),
                  glyph_fits g' && forallb (fun h => is_mark gd (gid h)) (slice seq (S (a - d)) a))
          | Some None => None
          | None => None
          end
        end
      end
    | SMarkMark marks1 marks2 =>
      (* mark-to-mark: mark2 is the glyph preceding the mark under the lookup
         flags (the nearest preceding kept glyph); it must have a mark2
         record with an anchor for the mark's class.  The mark is placed
         relative to mark2: mark2's own offset + anchor difference - the
         advances from mark2 up to the mark.
         The implementation instead takes the nearest preceding glyph with a
         mark2 record whatever the flags say, and drops mark2's offset (open
         finding c06-gpos6-markmark); inputs where that makes a difference are
         outside the domain: mm_same / mark2 offsets zero. *)
      match assoc g marks1 with
      | None => None
      | Some (cls, (mx, my)) =>
        let prefix := rev (firstn a seq) in
        let spec := next_kept kp prefix 0 in
        let impl := find_base marks2 prefix 1 in
        if negb (mm_same spec impl) then Some (ESet [(a, g0)] (S a), false) else
        match spec with
        | None => None
        | Some (g2, _, d) =>
          match assoc (gid g2) marks2 with
          | None => None
          | Some anchors =>
            match nth_error anchors cls with
            | Some (Some (bx, byy)) =>
              let g' := mkG g (gtext g0)
                            (gx g2 + (bx - mx - sum_adv (slice seq (a - S d) a)))%Z
                            (gy g2 + (byy - my))%Z (gadv g0) in
              Some (ESet [(a, g')] (S a),
                    glyph_fits g' && Z.eqb (gx g2) 0 && Z.eqb (gy g2) 0)
            | _ => None
            end
          end
        end
      end
    | SRevChain m back look =>
      (* reverse chaining single substitution: one input glyph, backtrack
         before it (closest first), lookahead behind it, anywhere in the
         sequence *)
      match assoc g m with
      | None => None
      | Some h =>
        if match_ctx kp (map PCov back) (rev (firstn a seq))
           && match_ctx kp (map PCov look) (skipn (S a) seq)
        then Some (ESet [(a, set_gid h g0)] (S a), true) else None
      end
    | _ => None
    end
  end.

(* ------------------------------------------------- edits and live positions *)

Fixpoint set_nth {A} (p : nat) (x : A) (l : list A) : list A :=
  match l, p with
  | [], _ => []
  | _ :: l', O => x :: l'
  | y :: l', S p' => y :: set_nth p' x l'
  end.

(* remove from l (which starts at position p) the elements whose position is in ms *)
Fixpoint drop_at {A} (l : list A) (p : nat) (ms : list nat) : list A :=
  match l with
  | [] => []
  | x :: l' => if memnat p ms then drop_at l' (S p) ms else x :: drop_at l' (S p) ms
  end.

(* live input positions: glyph p was replaced by k glyphs *)
Definition ins_positions (p k : nat) (P : list nat) : list nat :=
  flat_map (fun q => if q <? p then [q] else if q =? p then seq p k else [q + k - 1]) P.

Definition count_lt (removed : list nat) (q : nat) : nat :=
  length (filter (fun r => r <? q) removed).

(* live input positions: the glyphs at positions `removed` were deleted *)
Definition del_positions (removed : list nat) (P : list nat) : list nat :=
  flat_map (fun q => if memnat q removed then [] else [q - count_lt removed q]) P.

Definition max_list (l : list nat) : nat := fold_right Nat.max 0 l.

(* A length-changing edit at position p is inside the documented domain for
   an enclosing match with input positions P when p is one of its input
   glyphs, or lies behind all of them (trailing ignored glyphs, test case
   2_09).  Editing an ignored glyph embedded in the input sequence is
   section 4 of the test cases: implementations differ. *)
Definition frame_ok (p : nat) (P : list nat) : bool := memnat p P || (max_list P <? p).

Record st := mkSt {
  s_seq : list glyph;
  s_frames : list (list nat);   (* input positions of the enclosing matches, innermost first *)
  s_nact : nat;                 (* nested actions run for the current top-level match *)
  s_ok : bool }.

Definition and_ok (b : bool) (s : st) : st :=
  mkSt (s_seq s) (s_frames s) (s_nact s) (s_ok s && b).

Definition apply_effect (e : effect) (s : st) : st * nat :=
  match e with
  | ESet upd next =>
    (mkSt (fold_left (fun l u => set_nth (fst u) (snd u) l) upd (s_seq s))
          (s_frames s) (s_nact s) (s_ok s), next)
  | EInsert p gs =>
    let k := length gs in
    (mkSt (firstn p (s_seq s) ++ gs ++ skipn (S p) (s_seq s))
          (map (ins_positions p k) (s_frames s)) (s_nact s)
          (s_ok s && ((k =? 1) || forallb (frame_ok p) (s_frames s))),
     p + k)
  | EMerge ms lig =>
    let m0 := hd 0 ms in
    let rest := tl ms in
    (mkSt (firstn m0 (s_seq s) ++ lig :: drop_at (skipn (S m0) (s_seq s)) (S m0) rest)
          (map (del_positions rest) (s_frames s)) (s_nact s)
          (s_ok s && ((length ms <=? 1) || forallb (frame_ok m0) (s_frames s))),
     S (last_pos ms m0) - length rest)
  end.

(* ---------------------------------------------------------- the engine *)

Fixpoint list_eqb {A} (eq : A -> A -> bool) (l1 l2 : list A) : bool :=
  match l1, l2 with
  | [], [] => true
  | x :: l1', y :: l2' => eq x y && list_eqb eq l1' l2'
  | _, _ => false
  end.
Definition glyph_eqb (g h : glyph) : bool :=
  N.eqb (gid g) (gid h) && list_eqb N.eqb (gtext g) (gtext h) &&
  Z.eqb (gx g) (gx h) && Z.eqb (gy g) (gy h) && Z.eqb (gadv g) (gadv h).
Definition seq_eqb (l1 l2 : list glyph) : bool := list_eqb glyph_eqb l1 l2.

Definition size_cap : nat := 1024.

Section Engine.
Variable ll : list lookup.
Variable gd : option gdef.
Variable budget : nat.    (* the implementation's action budget (Gen: 64) *)

Definition kp_of (lk : lookup) : N -> bool := keep gd (lk_flags lk) (lk_mfs lk).

Definition push_frame (P : list nat) (s : st) : st :=
  mkSt (s_seq s) (P :: s_frames s) (s_nact s) (s_ok s).
Definition pop_frame (s : st) : st :=
  mkSt (s_seq s) (tl (s_frames s)) (s_nact s) (s_ok s).
(* the implementation gives up when the number of nested actions reaches
   budget-1; such inputs are outside the domain *)
Definition count_action (s : st) : st :=
  mkSt (s_seq s) (s_frames s) (S (s_nact s)) (s_ok s && (S (s_nact s) + 2 <=? budget)).

(* The engine is written with open recursion: `rec` applies a lookup at a
   position inside a window (it is apply_at with less fuel). *)
Section Open.
Variable rec : lookup -> nat -> nat -> st -> option (st * nat).

(* run the nested actions of a matched rule, in order; each sequence index is
   resolved against the LIVE input positions of the innermost frame *)
Fixpoint run_actions (tl' : nat) (acts : list action) (s : st) : st :=
  match acts with
  | [] => s
  | (si, li) :: acts' =>
    let s := count_action s in
    if negb (s_ok s) then s else   (* outside the domain: stop *)
    match nth_error (hd [] (s_frames s)) si with
    | None => run_actions tl' acts' s        (* no such input glyph: nothing to do *)
    | Some p =>
      match nth_error ll li with
      | None => run_actions tl' acts' s
      | Some lk' =>
        if kp_of lk' (gid_at (s_seq s) p) then
          match rec lk' p tl' s with
          | Some (s', _) => run_actions tl' acts' s'
          | None => run_actions tl' acts' s
          end
        else run_actions tl' acts' s
      end
    end
  end.

(* one subtable at position a, window end = |seq| - tl *)
Definition try_sub (kp : N -> bool) (a tl : nat) (s : st) (sub : subtable) : option (st * nat) :=
  let seq := s_seq s in
  let b := length seq - tl in
  match simple_effect gd kp seq a b sub with
  | Some (e, ok) => Some (apply_effect e (and_ok ok s))
  | None =>
    match find_rule kp seq a b (ctx_rules sub (gid_at seq a)) with
    | Some (P, acts) =>
      let tl' := length seq - end_pos kp seq (last_pos P a) b in
      let s3 := pop_frame (run_actions tl' acts (push_frame P s)) in
      Some (s3, length (s_seq s3) - tl')
    | None => None
    end
  end.

(* the first matching subtable wins *)
Fixpoint try_subs (kp : N -> bool) (a tl : nat) (s : st) (subs : list subtable)
  : option (st * nat) :=
  match subs with
  | [] => None
  | sub :: subs' =>
    match try_sub kp a tl s sub with
    | Some r => Some r
    | None => try_subs kp a tl s subs'
    end
  end.
End Open.

(* apply lookup lk at position a; the window ends tl glyphs before the end
   of the sequence.  Returns the new state and the position where a
   left-to-right scan resumes.  Running out of fuel (= nesting deeper than
   the action budget) is outside the domain. *)
Fixpoint apply_at (fuel : nat) (lk : lookup) (a tl : nat) (s : st) {struct fuel}
  : option (st * nat) :=
  match fuel with
  | O => Some (and_ok false s, S a)
  | S f => try_subs (apply_at f) (kp_of lk) a tl s (lk_subs lk)
  end.

(* one step of the left-to-right scan at position p *)
Definition step (lk : lookup) (p : nat) (seq : list glyph) : list glyph * nat * bool :=
  if kp_of lk (gid_at seq p) then
    match apply_at budget lk p 0 (mkSt seq [] 0 true) with
    | Some (s', next) => (s_seq s', next, s_ok s')
    | None => (seq, S p, true)
    end
  else (seq, S p, true).

(* scan: r glyphs remain (position = |seq| - r).  Sequences growing beyond
   size_cap glyphs are outside the domain of the correspondence (the scan
   stops there). *)
Fixpoint scan (lk : lookup) (fuel r : nat) (seq : list glyph) (ok : bool) : list glyph * bool :=
  match fuel with
  | O => (seq, ok && (r =? 0))
  | S f =>
    if r =? 0 then (seq, ok) else
    match step lk (length seq - r) seq with
    | (seq', next, ok') =>
      if size_cap <? length seq' then (seq', false)
      else scan lk f (length seq' - next) seq' (ok && ok')
    end
  end.

(* GSUB 8.1 lookups are processed from the END of the sequence (OpenType:
   "processing of input glyph sequences goes from end to start"): positions
   p-1, p-2, ..., 0.  A substitution never changes the length. *)
Fixpoint rscan (lk : lookup) (p : nat) (seq : list glyph) : list glyph :=
  match p with
  | O => seq
  | S p' => match step lk p' seq with (seq', _, _) => rscan lk p' seq' end
  end.

(* a lookup is a reverse chaining lookup when all its subtables are GSUB 8.1 *)
Definition is_reverse (lk : lookup) : bool :=
  negb (length (lk_subs lk) =? 0) &&
  forallb (fun sub => match sub with SRevChain _ _ _ => true | _ => false end) (lk_subs lk).

(* The implementation applies GSUB 8.1 in forward order (a documented TODO);
   the two orders differ when a substituted glyph is context of another
   substitution.  Inside the domain: the inputs on which the forward scan
   gives the same result as the reverse scan. *)
Definition apply_lookup (acc : list glyph * bool) (li : nat) : list glyph * bool :=
  match nth_error ll li with
  | None => acc
  | Some lk =>
    if is_reverse lk then
      let r := rscan lk (length (fst acc)) (fst acc) in
      let f := fst (scan lk (length (fst acc)) (length (fst acc)) (fst acc) true) in
      (r, snd acc && seq_eqb r f)
    else scan lk (length (fst acc)) (length (fst acc)) (fst acc) (snd acc)
  end.

Definition R_run (order : list nat) (seq : list glyph) : list glyph * bool :=
  fold_left apply_lookup order (seq, true).

End Engine.

(* --------------------------------------------------------- static domain *)

Definition vr_static (v : vrec) : bool := negb (vbad v).
Definition pair_static (pr : vrec * option vrec) : bool :=
  vr_static (fst pr) && match snd pr with Some v => vr_static v | None => true end.

Fixpoint nodupN (l : list N) : bool :=
  match l with [] => true | x :: l' => negb (memN x l') && nodupN l' end.

Definition keys {V} (m : list (N * V)) : list N := map fst m.

Definition sub_static (sub : subtable) : bool :=
  match sub with
  | SSingle1 cov _ => nodupN cov
  | SSingle2 m => nodupN (keys m)
  | SMultiple m => nodupN (keys m) && forallb (fun e => negb (length (snd e) =? 0)) m
  | SAlternate m => nodupN (keys m)
  | SLigature m => nodupN (keys m)
  | SCtx1 m => nodupN (keys m)
  | SCtx2 cov cd rules =>
    nodupN cov && nodupN (keys cd) &&
    forallb (fun g => N.to_nat (class_of cd g) <? length rules) cov
  | SCtx3 covs _ => negb (length covs =? 0)
  | SChain1 m => nodupN (keys m)
  | SChain2 cov bcd icd lcd _ => nodupN cov && nodupN (keys bcd) && nodupN (keys icd) && nodupN (keys lcd)
  | SChain3 _ inp _ _ => negb (length inp =? 0)
  | SPos1 cov v => nodupN cov && vr_static v
  | SPos2 m => nodupN (keys m) && forallb (fun e => vr_static (snd e)) m
  | SPair1 m => nodupN (keys m) &&
                forallb (fun e => nodupN (keys (snd e)) && forallb (fun x => pair_static (snd x)) (snd e)) m
  | SPair2 cov cd1 cd2 m => nodupN cov && nodupN (keys cd1) && nodupN (keys cd2) &&
                            forallb (forallb pair_static) m
  | SMarkBase marks bases =>
    nodupN (keys marks) && nodupN (keys bases) &&
    forallb (fun mk => forallb (fun bs => fst (snd mk) <? length (snd bs)) bases) marks
  | SMarkMark marks1 marks2 =>
    nodupN (keys marks1) && nodupN (keys marks2) &&
    forallb (fun mk => forallb (fun m2 => fst (snd mk) <? length (snd m2)) marks2) marks1
  | SRevChain m _ _ => nodupN (keys m)
  | SUnsupported => false
  end.

Definition is_revchain (sub : subtable) : bool :=
  match sub with SRevChain _ _ _ => true | _ => false end.

Definition lookup_static (gd : option gdef) (lk : lookup) : bool :=
  forallb sub_static (lk_subs lk) &&
  (* GSUB 8.1 subtables are not mixed with other subtables in one lookup *)
  (forallb is_revchain (lk_subs lk) || forallb (fun sub => negb (is_revchain sub)) (lk_subs lk)) &&
  match gd with
  | None => true
  | Some d =>
    negb (has_flag (lk_flags lk) c06_UseMarkFilteringSet) ||
    (N.to_nat (lk_mfs lk) <? length (gd_sets d))
  end.

Definition gdef_static (gd : option gdef) : bool :=
  match gd with
  | None => true
  | Some d => nodupN (keys (gd_class d)) && nodupN (keys (gd_attach d))
  end.

Definition static_ok (ll : list lookup) (gd : option gdef) : bool :=
  gdef_static gd && forallb (lookup_static gd) ll.

(* ------------------------------------------------------------ entry points *)

Definition R_shape (ll : list lookup) (gd : option gdef) (order : list nat) (seq : list glyph)
  : list glyph :=
  fst (R_run ll gd gtab_actionBudget order seq).

Definition in_domain (ll : list lookup) (gd : option gdef) (order : list nat) (seq : list glyph)
  : bool :=
  static_ok ll gd && forallb glyph_fits seq &&
  snd (R_run ll gd gtab_actionBudget order seq).

(* observation printed by the driver *)
Definition observe (ll : list lookup) (gd : option gdef) (order : list nat) (seq : list glyph)
  : option (list glyph) :=
  if in_domain ll gd order seq then Some (R_shape ll gd order seq) else None.
