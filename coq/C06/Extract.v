From Coq Require Import Extraction ExtrOcamlBasic.
From Common Require Import Conv.
From Gen Require Import Consts C06.
From C06 Require Import Model.
Extraction "c06_model.ml" conv_anchor gtab_actionBudget observe R_shape in_domain keep.
