(* C06/Spec.v — notions used to state the theorems about R_shape
   (definitions only). *)
From Coq Require Import List NArith ZArith Bool Arith Lia.
From Gen Require Import Consts C06.
From C06 Require Import Model.
Import ListNotations.

(* l1 is obtained from l2 by deleting elements (order preserved) *)
Inductive Subseq {A : Type} : list A -> list A -> Prop :=
| sub_nil : forall l, Subseq [] l
| sub_cons : forall x l1 l2, Subseq l1 l2 -> Subseq (x :: l1) (x :: l2)
| sub_skip : forall x l1 l2, Subseq l1 l2 -> Subseq l1 (x :: l2).

(* the six contextual formats; every other subtable is "simple" *)
Definition is_simple (sub : subtable) : bool :=
  match sub with
  | SCtx1 _ | SCtx2 _ _ _ | SCtx3 _ _ | SChain1 _ | SChain2 _ _ _ _ _ | SChain3 _ _ _ _ => false
  | _ => true
  end.

(* glyphs a lookup's flags skip *)
Definition skipped (kp : N -> bool) (g : glyph) : bool := negb (kp (gid g)).

(* the remaining-length trace of a scan: how many glyphs were still to be
   visited at each step *)
Fixpoint scan_trace (ll : list lookup) (gd : option gdef) (budget : nat) (lk : lookup)
         (fuel r : nat) (seq : list glyph) : list nat :=
  match fuel with
  | O => []
  | S f =>
    if r =? 0 then [] else
    match step ll gd budget lk (length seq - r) seq with
    | (seq', next, _) => r :: scan_trace ll gd budget lk f (length seq' - next) seq'
    end
  end.

Fixpoint strictly_decreasing (l : list nat) : Prop :=
  match l with
  | [] => True
  | x :: l' => match l' with [] => True | y :: _ => y < x end /\ strictly_decreasing l'
  end.

(* what the effect of a non-contextual subtable at position a may touch *)
Definition effect_wf (kp : N -> bool) (seq : list glyph) (a : nat) (e : effect) : Prop :=
  match e with
  | ESet upd next =>
    a < next /\
    match upd with
    | [(p1, _)] => p1 = a
    | [(p1, _); (p2, _)] => p1 = a /\ a < p2 /\ kp (gid_at seq p2) = true
    | _ => False
    end
  | EInsert p gs => p = a /\ gs <> []
  | EMerge ms lig =>
    exists preds b qs, ms = a :: qs /\ match_seq kp preds (slice seq (S a) b) (S a) = Some qs
  end.

(* finite check used by merge_tracks_upto9 (Proofs.v): behind a merge the
   renumbering q -> q - #(removed before q) follows the glyphs *)
Fixpoint subsets (l : list nat) : list (list nat) :=
  match l with
  | [] => [[]]
  | x :: l' => let r := subsets l' in r ++ map (cons x) r
  end.

Definition merge_tracks_check (n : nat) : bool :=
  forallb (fun m0 =>
    forallb (fun rest =>
      let l := seq 0 n in
      let l' := firstn m0 l ++ m0 :: drop_at (skipn (S m0) l) (S m0) rest in
      forallb (fun q =>
        if memnat q rest then true
        else match nth_error l' (q - count_lt rest q) with
             | Some x => x =? q
             | None => false
             end) (seq (S m0) (n - S m0)))
      (subsets (seq (S m0) (n - S m0))))
    (seq 0 n).

