(* C06/Spec.v — notions used to state the theorems about R_shape
   (definitions only). *)
From Coq Require Import List NArith ZArith Bool Arith Lia.
From Gen Require Import Consts C06.
From C06 Require Import Model.
Import ListNotations.

(* l1 is obtained from l2 by deleting elements (order preserved) *)
Inductive Subseq {A : Type} : list A -> list A -> Prop :=
| sub_nil : forall l, Subseq [] l
| sub_cons : forall x l1 l2, Subseq l1 l2 -> Subseq (x :: l1) (x :: l2)
| sub_skip : forall x l1 l2, Subseq l1 l2 -> Subseq l1 (x :: l2).

(* the six contextual formats; every other subtable is "simple" *)
Definition is_simple (sub : subtable) : bool :=
  match sub with
  | SCtx1 _ | SCtx2 _ _ _ | SCtx3 _ _ | SChain1 _ | SChain2 _ _ _ _ _ | SChain3 _ _ _ _ => false
  | _ => true
  end.

(* glyphs a lookup's flags skip *)
Definition skipped (kp : N -> bool) (g : glyph) : bool := negb (kp (gid g)).

(* the remaining-length trace of a scan: how many glyphs were still to be
   visited at each step *)
Fixpoint scan_trace (ll : list lookup) (gd : option gdef) (budget : nat) (lk : lookup)
         (fuel r : nat) (seq : list glyph) : list nat :=
  match fuel with
  | O => []
  | S f =>
    if r =? 0 then [] else
    match step ll gd budget lk (length seq - r) seq with
    | (seq', next, _) =>
      r :: (if size_cap <? length seq' then []
            else scan_trace ll gd budget lk f (length seq' - next) seq')
    end
  end.

Fixpoint strictly_decreasing (l : list nat) : Prop :=
  match l with
  | [] => True
  | x :: l' => match l' with [] => True | y :: _ => y < x end /\ strictly_decreasing l'
  end.

(* what the effect of a non-contextual subtable at position a may touch *)
Definition effect_wf (kp : N -> bool) (seq : list glyph) (a : nat) (e : effect) : Prop :=
  match e with
  | ESet upd next =>
    a < next /\
    match upd with
    | [(p1, _)] => p1 = a
    | [(p1, _); (p2, _)] => p1 = a /\ a < p2 /\ kp (gid_at seq p2) = true
    | _ => False
    end
  | EInsert p gs => p = a /\ gs <> []
  | EMerge ms lig =>
    exists preds b qs, ms = a :: qs /\ match_seq kp preds (slice seq (S a) b) (S a) = Some qs
  end.

(* number of removed positions in [p, p+j) (used in Proofs_merge.v) *)
Definition cnt (rest : list nat) (p j : nat) : nat :=
  length (filter (fun r => (p <=? r) && (r <? p + j)) rest).
