(* C06/Util.v — general list lemmas. *)
From Coq Require Import List NArith ZArith Bool Arith Lia.
From C06 Require Import Model Spec.
Import ListNotations.

Lemma subseq_refl {A} (l : list A) : Subseq l l.
Proof. induction l; constructor; auto. Qed.

Lemma subseq_nil_inv {A} (l : list A) : Subseq l [] -> l = [].
Proof. intros H; inversion H; reflexivity. Qed.

Lemma subseq_trans {A} (l1 l2 l3 : list A) : Subseq l1 l2 -> Subseq l2 l3 -> Subseq l1 l3.
Proof.
  intros H12 H23. revert l1 H12.
  induction H23 as [l | x l2 l3 H IH | x l2 l3 H IH]; intros l1 H12.
  - apply subseq_nil_inv in H12. subst. constructor.
  - inversion H12; subst.
    + constructor.
    + constructor. apply IH; assumption.
    + apply sub_skip. apply IH; assumption.
  - apply sub_skip. apply IH; assumption.
Qed.

Lemma subseq_app {A} (a1 a2 b1 b2 : list A) :
  Subseq a1 a2 -> Subseq b1 b2 -> Subseq (a1 ++ b1) (a2 ++ b2).
Proof.
  intros Ha Hb. induction Ha as [l | x l1 l2 H IH | x l1 l2 H IH]; simpl.
  - induction l; simpl; [assumption | apply sub_skip; assumption].
  - constructor; assumption.
  - apply sub_skip; assumption.
Qed.

Lemma filter_subseq {A} (f : A -> bool) (l : list A) : Subseq (filter f l) l.
Proof.
  induction l as [|x l IH]; simpl; [constructor|].
  destruct (f x); [constructor | apply sub_skip]; assumption.
Qed.

Lemma subseq_filter {A} (f : A -> bool) (l1 l2 : list A) :
  Subseq l1 l2 -> Subseq (filter f l1) (filter f l2).
Proof.
  intros H. induction H as [l | x l1 l2 H IH | x l1 l2 H IH]; simpl.
  - constructor.
  - destruct (f x); [constructor|]; assumption.
  - destruct (f x); [apply sub_skip|]; assumption.
Qed.

Lemma filter_idem {A} (f : A -> bool) (l : list A) : filter f (filter f l) = filter f l.
Proof.
  induction l as [|x l IH]; simpl; [reflexivity|].
  destruct (f x) eqn:E; simpl; [rewrite E, IH|]; auto.
Qed.

(* the transitivity pattern used along a scan *)
Lemma skipped_chain {A} (f : A -> bool) (l1 l2 l3 : list A) :
  Subseq (filter f l1) l2 -> Subseq (filter f l2) l3 -> Subseq (filter f l1) l3.
Proof.
  intros H12 H23. apply subseq_trans with (filter f l2); [|assumption].
  rewrite <- (filter_idem f l1). apply subseq_filter. assumption.
Qed.

Lemma subseq_length {A} (l1 l2 : list A) : Subseq l1 l2 -> length l1 <= length l2.
Proof. intros H; induction H; simpl; lia. Qed.

Lemma nth_error_firstn_lt {A} (l : list A) : forall n k, k < n -> nth_error (firstn n l) k = nth_error l k.
Proof.
  induction l as [|x l IH]; intros n k Hk.
  - rewrite firstn_nil. reflexivity.
  - destruct n; [lia|]. destruct k; simpl; [reflexivity|]. apply IH. lia.
Qed.

Lemma nth_error_firstn_ge {A} (l : list A) : forall n k, n <= k -> nth_error (firstn n l) k = None.
Proof. intros. apply nth_error_None. rewrite firstn_length. lia. Qed.

Lemma nth_error_skipn_add {A} (l : list A) : forall n k, nth_error (skipn n l) k = nth_error l (n + k).
Proof.
  induction l as [|x l IH]; intros n k.
  - rewrite skipn_nil. destruct k, n; reflexivity.
  - destruct n; simpl; [reflexivity|]. apply IH.
Qed.

Lemma nth_error_slice {A} (l : list A) (i j k : nat) (x : A) :
  nth_error (slice l i j) k = Some x -> nth_error l (i + k) = Some x /\ i + k < j.
Proof.
  unfold slice. intros H.
  destruct (Nat.lt_ge_cases k (j - i)) as [Hl|Hg].
  - rewrite nth_error_firstn_lt in H by assumption.
    rewrite nth_error_skipn_add in H. split; [assumption|lia].
  - rewrite nth_error_firstn_ge in H by assumption. discriminate.
Qed.

Lemma slice_length {A} (l : list A) (i j : nat) : length (slice l i j) <= j - i.
Proof. unfold slice. rewrite firstn_length. lia. Qed.

Lemma firstn_skipn_cons {A} (l : list A) (p : nat) (x : A) :
  nth_error l p = Some x -> l = firstn p l ++ x :: skipn (S p) l.
Proof.
  revert p. induction l as [|y l IH]; intros p H.
  - destruct p; discriminate.
  - destruct p; simpl in *.
    + inversion H; reflexivity.
    + f_equal. apply IH. assumption.
Qed.

Lemma set_nth_length {A} (p : nat) (x : A) (l : list A) : length (set_nth p x l) = length l.
Proof. revert p. induction l as [|y l IH]; intros [|p]; simpl; auto. Qed.

Lemma set_nth_split {A} (l : list A) (p : nat) (x y : A) :
  nth_error l p = Some y -> set_nth p x l = firstn p l ++ x :: skipn (S p) l.
Proof.
  revert p. induction l as [|z l IH]; intros p H.
  - destruct p; discriminate.
  - destruct p; simpl in *; [reflexivity|]. f_equal. apply IH. assumption.
Qed.

Lemma set_nth_none {A} (l : list A) (p : nat) (x : A) :
  nth_error l p = None -> set_nth p x l = l.
Proof.
  revert p. induction l as [|z l IH]; intros p H.
  - destruct p; reflexivity.
  - destruct p; simpl in *; [discriminate|]. f_equal. apply IH. assumption.
Qed.

Lemma nth_error_set_nth_other {A} (l : list A) (p q : nat) (x : A) :
  p <> q -> nth_error (set_nth p x l) q = nth_error l q.
Proof.
  revert p q. induction l as [|z l IH]; intros p q H.
  - destruct p; reflexivity.
  - destruct p, q; simpl; try reflexivity; try lia. apply IH. lia.
Qed.

Lemma nth_error_set_nth_same {A} (l : list A) (p : nat) (x : A) :
  p < length l -> nth_error (set_nth p x l) p = Some x.
Proof.
  revert p. induction l as [|z l IH]; intros p H; simpl in H; [lia|].
  destruct p; simpl; [reflexivity|]. apply IH. lia.
Qed.
