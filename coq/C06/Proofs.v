From Coq Require Import List NArith ZArith Bool Arith Lia.
From Gen Require Import Consts C06.
From C06 Require Import Model.
Import ListNotations.

Lemma R_run_app : forall ll gd budget l1 l2 seq,
  R_run ll gd budget (l1 ++ l2) seq =
  fold_left (apply_lookup ll gd budget) l2 (R_run ll gd budget l1 seq).
Proof. intros. unfold R_run. apply fold_left_app. Qed.
